(* C05 — Repair is lossless on undamaged input and maximal on damaged input: the repair
   loop (model Repair.v) at the level of the block stream, read through ANY source behaving
   as a cursor over the delivered prefix.  Without compression the delivered prefix of the
   block stream is everything present (raw / unauthenticated) or everything in complete
   authenticated chunks (see the fail-safe encryption layer); these theorems are about the
   loop above it.  Vocabulary: see C02.v and RepairSpec.v. *)
From MLA Require Import Limit.
From MLA Require Import Base Stream Blocks Writer Repair RepairSpec RepairPure
  RepairProofs2 RepairProofs5 RepairProofs6 Inst RepairSize RepairSizeWrap.
From MLAProps Require C02.
Open Scope N_scope.
(* concrete examples: the production value of BINCODE_MAX_DESERIALIZE *)
Local Notation repairP := (repair (LIM := MLAGen.Src.BINCODE_MAX_DESERIALIZE_prod)).
Local Notation good_outputP := (good_output (LIM := MLAGen.Src.BINCODE_MAX_DESERIALIZE_prod)).
(* `repair ... es w_init <> Err EDeser` on a concrete instance, es being the state returned by
   the (concrete) fs_open of Ho: by evaluation *)
Ltac prove_ser Ho :=
  match type of Ho with ?op = (?es, _) =>
    match goal with |- ?G =>
      let P := eval pattern es in G in
      match P with ?F _ =>
        let Hv := fresh "Hv" in
        assert (Hv : F (fst op)) by (vm_compute; discriminate);
        rewrite Ho in Hv; exact Hv
      end
    end
  end.

(* an archive that is not damaged at all: every file recovered completely, nothing
   unfinished, EndOfOriginalArchiveData reported *)
Theorem C05_repair_intact_complete {LIM : Limit} :
  forall FNMAX CACHE : N, FNMAX < 2 ^ 64 -> 0 < CACHE ->
  forall TS TC TA TE : N,
    TS <> TC /\ TS <> TA /\ TS <> TE /\ TC <> TA /\ TC <> TE /\ TA <> TE ->
  forall H : bytes -> bytes, (forall x, len (H x) = 32) ->
  forall (bl : list block) (trailer : bytes),
    wf_blocks FNMAX H bl -> In BEnd bl \/ trailer = [] ->
  forall (S : Stream) (R : st S -> N -> Prop) (s0 : st S) (fuel : nat),
    In BEnd bl -> Refines S (body TS TC TA TE bl ++ trailer) R -> R s0 0 ->
    (N.to_nat (len (body TS TC TA TE bl ++ trailer)) < fuel)%nat ->
    (* SIZE PREMISE (instead of "finalize did not fail with SerializationError"): the input is
       small enough for the footer of the repaired archive to fit BINCODE_MAX_DESERIALIZE (lim)
       and its u32 length field.  RepairSize.repair_footer_fits: the footer map takes at most
       8 + 3 * (input bytes) bytes (constant c = 0).  For the production limit 536870912 the
       premise holds for every input of at most 178956968 bytes (~170 MiB). *)
    8 + 3 * len (body TS TC TA TE bl ++ trailer) <= N.min lim (2 ^ 32 - 1) ->
    exists (out : wstate) (obl : list block),
      repair FNMAX CACHE TS TC TA TE H S fuel s0 w_init = Ok (FEndOfData, [], out) /\
      good_output FNMAX TS TC TA TE H out obl /\
      Forall2 same (files_of bl) (files_of obl) /\
      (forall f, In f (files_of bl) -> f_ended f = true).
Proof.
  intros FNMAX CACHE HFN HC TS TC TA TE Ht H HH bl trailer Hwf Htr S R s0 fuel Hend HR H0 Hfuel Hfit.
  exact (repair_intact_complete FNMAX CACHE HFN HC TS TC TA TE Ht H HH bl trailer Hwf Htr S R s0 fuel Hend HR H0 Hfuel
           (repair_no_ser_refines FNMAX CACHE TS TC TA TE H S _ R fuel s0 HR H0 Hfit)).
Qed.

(* a longer prefix never yields fewer bytes: for every name, what is recovered from the
   first n bytes is a prefix of what is recovered from the first m >= n bytes (the two runs
   may use different sources and read sizes) *)
Theorem C05_repair_monotone {LIM : Limit} :
  forall FNMAX CACHE : N, FNMAX < 2 ^ 64 -> 0 < CACHE ->
  forall TS TC TA TE : N,
    TS <> TC /\ TS <> TA /\ TS <> TE /\ TC <> TA /\ TC <> TE /\ TA <> TE ->
  forall H : bytes -> bytes, (forall x, len (H x) = 32) ->
  forall (bl : list block) (trailer : bytes),
    wf_blocks FNMAX H bl -> In BEnd bl \/ trailer = [] ->
  forall (n m : N) (S1 : Stream) (R1 : st S1 -> N -> Prop) (s1 : st S1) (fuel1 : nat)
         (S2 : Stream) (R2 : st S2 -> N -> Prop) (s2 : st S2) (fuel2 : nat),
    n <= m ->
    Refines S1 (takeN n (body TS TC TA TE bl ++ trailer)) R1 -> R1 s1 0 -> (N.to_nat n < fuel1)%nat ->
    Refines S2 (takeN m (body TS TC TA TE bl ++ trailer)) R2 -> R2 s2 0 -> (N.to_nat m < fuel2)%nat ->
    (* size premise, see C05_repair_intact_complete (for the longer cut; n <= m) *)
    8 + 3 * m <= N.min lim (2 ^ 32 - 1) ->
    exists st1 u1 out1 obl1 st2 u2 out2 obl2,
      repair FNMAX CACHE TS TC TA TE H S1 fuel1 s1 w_init = Ok (st1, u1, out1) /\
      good_output FNMAX TS TC TA TE H out1 obl1 /\
      repair FNMAX CACHE TS TC TA TE H S2 fuel2 s2 w_init = Ok (st2, u2, out2) /\
      good_output FNMAX TS TC TA TE H out2 obl2 /\
      forall name, prefix (content_of (files_of obl1) name) (content_of (files_of obl2) name).
Proof.
  intros FNMAX CACHE HFN HC TS TC TA TE Ht H HH bl trailer Hwf Htr n m S1 R1 s1 fuel1 S2 R2 s2 fuel2 Hnm
         HR1 H01 Hf1 HR2 H02 Hf2 Hfit.
  exact (repair_monotone FNMAX CACHE HFN HC TS TC TA TE Ht H HH bl trailer Hwf Htr n m S1 R1 s1 fuel1 S2 R2 s2 fuel2 Hnm
           HR1 H01 Hf1 HR2 H02 Hf2
           (repair_no_ser_cut FNMAX CACHE TS TC TA TE H S1 _ n R1 fuel1 s1 HR1 H01 (fits_limit_mono n m Hnm Hfit))
           (repair_no_ser_cut FNMAX CACHE TS TC TA TE H S2 _ m R2 fuel2 s2 HR2 H02 Hfit)).
Qed.

(* maximality: for every file of the original, the content under its name in the repaired
   archive is exactly the concatenation of its content bytes lying before the cut
   (`present`): nothing present is lost, whatever the position of the cut (in a header, a
   name, a content, a hash) and whatever the sizes of the reads *)
Theorem C05_repair_max {LIM : Limit} :
  forall FNMAX CACHE : N, FNMAX < 2 ^ 64 -> 0 < CACHE ->
  forall TS TC TA TE : N,
    TS <> TC /\ TS <> TA /\ TS <> TE /\ TC <> TA /\ TC <> TE /\ TA <> TE ->
  forall H : bytes -> bytes, (forall x, len (H x) = 32) ->
  forall (bl : list block) (trailer : bytes),
    wf_blocks FNMAX H bl -> In BEnd bl \/ trailer = [] ->
  forall (n : N) (S : Stream) (R : st S -> N -> Prop) (s0 : st S) (fuel : nat),
    Refines S (takeN n (body TS TC TA TE bl ++ trailer)) R -> R s0 0 -> (N.to_nat n < fuel)%nat ->
    (* size premise, see C05_repair_intact_complete *)
    8 + 3 * n <= N.min lim (2 ^ 32 - 1) ->
    exists (status : fstatus) (unfinished : list bytes) (out : wstate) (obl : list block),
      repair FNMAX CACHE TS TC TA TE H S fuel s0 w_init = Ok (status, unfinished, out) /\
      good_output FNMAX TS TC TA TE H out obl /\
      (forall f, In f (files_of bl) ->
         content_of (files_of obl) (f_name f) =
         present (f_id f) bl (N.min n (len (body TS TC TA TE bl ++ trailer)))).
Proof.
  intros FNMAX CACHE HFN HC TS TC TA TE Ht H HH bl trailer Hwf Htr n S R s0 fuel HR H0 Hfuel Hfit.
  exact (repair_max FNMAX CACHE HFN HC TS TC TA TE Ht H HH bl trailer Hwf Htr n S R s0 fuel HR H0 Hfuel
           (repair_no_ser_cut FNMAX CACHE TS TC TA TE H S _ n R fuel s0 HR H0 Hfit)).
Qed.

(* the same for any delivered prefix w of the block stream *)
Theorem C05_repair_max_any_prefix {LIM : Limit} :
  forall FNMAX CACHE : N, FNMAX < 2 ^ 64 -> 0 < CACHE ->
  forall TS TC TA TE : N,
    TS <> TC /\ TS <> TA /\ TS <> TE /\ TC <> TA /\ TC <> TE /\ TA <> TE ->
  forall H : bytes -> bytes, (forall x, len (H x) = 32) ->
  forall (S : Stream) (w : bytes) (R : st S -> N -> Prop), Refines S w R ->
  forall (bl : list block) (trailer : bytes),
    wf_blocks FNMAX H bl -> In BEnd bl \/ trailer = [] ->
    prefix w (body TS TC TA TE bl ++ trailer) ->
  forall s0 : st S, R s0 0 -> forall fuel : nat, (N.to_nat (len w) < fuel)%nat ->
    (* size premise, see C05_repair_intact_complete *)
    8 + 3 * len w <= N.min lim (2 ^ 32 - 1) ->
    exists (status : fstatus) (unfinished : list bytes) (out : wstate) (obl : list block),
      repair FNMAX CACHE TS TC TA TE H S fuel s0 w_init = Ok (status, unfinished, out) /\
      good_output FNMAX TS TC TA TE H out obl /\
      (forall f, In f (files_of bl) ->
         content_of (files_of obl) (f_name f) = present (f_id f) bl (len w)).
Proof.
  intros FNMAX CACHE HFN HC TS TC TA TE Ht H HH S w R HR bl trailer Hwf Htr Hpre s0 H0 fuel Hfuel Hfit.
  exact (repair_max_any_prefix FNMAX CACHE HFN HC TS TC TA TE Ht H HH S w R HR bl trailer Hwf Htr Hpre s0 H0 fuel Hfuel
           (repair_no_ser_refines FNMAX CACHE TS TC TA TE H S w R fuel s0 HR H0 Hfit)).
Qed.

(* ---------- non-vacuity (the archive of C02.v) ---------- *)
Import C02.

(* the bytes of the two files present before the cut at 137: all of "a", 1 + 2 bytes of "b" *)
Example C05_example_present :
  present 7 ex_bl 137 = [1;2;3;4;5;6] /\ present 9 ex_bl 137 = [9;8;8] /\
  files_of ex_bl = [mkF 7 [97] [1;2;3;4;5;6] true; mkF 9 [98] [9;8;8;8;8;8] true].
Proof. vm_compute. repeat split; reflexivity. Qed.

(* the intact archive through a source that returns at most 3 bytes per read *)
Example C05_example_intact :
  exists out obl,
    repairP 48 4 0 1 254 255 ex_H (Throttled ex_stream) 200 (0, [3]) w_init = Ok (FEndOfData, [], out) /\
    Forall2 same (files_of ex_bl) (files_of obl).
Proof.
  destruct (C05_repair_intact_complete (LIM := MLAGen.Src.BINCODE_MAX_DESERIALIZE_prod) 48 4 ltac:(lia) ltac:(lia) 0 1 254 255
              ltac:(repeat split; discriminate) ex_H ex_H_len ex_bl ex_trailer C02_example_wf
              (or_introl ex_bl_end) (Throttled ex_stream) _ (0, [3]) 200%nat ex_bl_end
              (throttled_refines _) ltac:(split; [reflexivity | apply N.le_0_l]) ltac:(vm_compute; lia)
              ltac:(vm_compute; discriminate))
    as (out & obl & Hr & _ & Hs & _).
  exists out, obl. split; [exact Hr | exact Hs].
Qed.

(* the 6 + 6 content bytes come out in pieces of CACHE = 4 bytes: the repaired stream of the
   intact archive differs from the original but describes the same files *)
Example C05_example_values :
  match repairP 48 4 0 1 254 255 ex_H (Throttled ex_stream) 200 (0, [3]) w_init with
  | Ok (status, unfinished, out) =>
      status = FEndOfData /\ unfinished = [] /\ w_files out = [([97], 0); ([98], 1)] /\
      takeN 58 (w_out out) = body 0 1 254 255 [BStart 0 [97]; BContent 0 [1;2;3;4]; BContent 0 [5;6]]
  | _ => False
  end.
Proof. vm_compute. repeat split; reflexivity. Qed.

Check C05_repair_intact_complete.
Print Assumptions C05_repair_intact_complete.
Print Assumptions C05_repair_monotone.
Print Assumptions C05_repair_max.
Print Assumptions C05_repair_max_any_prefix.
Print Assumptions C05_example_present.
Print Assumptions C05_example_intact.
Print Assumptions C05_example_values.


(* ====================================================================================
   END TO END for encrypted archives without compression (ComposeRepair.v; see the end of
   C02.v for the setting: encryption writer fed any pieces, cut of the WIRE, fail-safe
   decryptor in either mode, repair). *)
From MLA Require Import EncLayer EncAuth EncAuthFs EncAuthTrunc EncWriter Run ComposeRdOnly ComposeRepair ComposeRepairMono.

(* the undamaged wire, both modes: every file completely recovered *)
Theorem C05_repair_encrypted_intact_complete {LIM : Limit} :
  forall FNMAX CACHE : N, FNMAX < 2 ^ 64 -> 0 < CACHE ->
  forall TS TC TA TE : N,
    TS <> TC /\ TS <> TA /\ TS <> TE /\ TC <> TA /\ TC <> TE /\ TA <> TE ->
  forall H : bytes -> bytes, (forall x, len (H x) = 32) ->
  forall CHUNK TAG CIPHERBUF : N, 0 < CHUNK -> 0 < TAG ->
  forall (ks : N -> N -> N) (tagc : N -> bytes -> bytes), (forall i c, len (tagc i c) = TAG) ->
  forall (bl : list block) (trailer : bytes),
    wf_blocks FNMAX H bl ->
    In BEnd bl \/ trailer ++ junk CHUNK ks tagc (body TS TC TA TE bl ++ trailer) = [] ->
  forall pieces : list bytes, concat pieces = body TS TC TA TE bl ++ trailer ->
  forall (fuelw : nat) (s : ewstate),
    ew_archive CHUNK CIPHERBUF ks tagc fuelw pieces = Ok s ->
    len (ew_out s) / (CHUNK + TAG) + 2 <= 2 ^ 32 ->
  forall (unauth : bool) (fuel : nat),
    In BEnd bl -> (N.to_nat (len (body TS TC TA TE bl ++ trailer) + TAG) < fuel)%nat ->
    (* size premise, see C05_repair_intact_complete: the decryptor delivers at most |plain| + TAG bytes *)
    8 + 3 * (len (body TS TC TA TE bl ++ trailer) + TAG) <= N.min lim (2 ^ 32 - 1) ->
    exists es b,
      fs_open CHUNK TAG ks (Cursor (ew_out s)) 0 = (es, Ok b) /\
    exists (out : wstate) (obl : list block),
      repair FNMAX CACHE TS TC TA TE H (FsEnc CHUNK TAG ks tagc unauth (Cursor (ew_out s))) fuel es w_init
        = Ok (FEndOfData, [], out) /\
      good_output FNMAX TS TC TA TE H out obl /\
      Forall2 same (files_of bl) (files_of obl) /\
      (forall f, In f (files_of bl) -> f_ended f = true).
Proof.
  intros FNMAX CACHE HFN HC TS TC TA TE Ht H HH CHUNK TAG CIPHERBUF HCH HTAG ks tagc Htagc bl trailer Hwf Htr
         pieces Hp fuelw s Hw Hbig unauth fuel Hend Hfuel Hfit.
  destruct (repair_encrypted_intact_complete FNMAX CACHE HFN HC TS TC TA TE Ht H HH CHUNK TAG CIPHERBUF HCH HTAG ks tagc Htagc
              bl trailer Hwf Htr pieces Hp fuelw s Hw Hbig unauth fuel Hend Hfuel) as (es & b & Ho & Hc).
  exists es, b. split; [exact Ho|]. apply Hc.
  exact (enc_whole_no_ser FNMAX CACHE TS TC TA TE H CHUNK TAG CIPHERBUF HCH ks tagc Htagc bl trailer pieces fuelw s Hp Hw Hbig Hfit unauth fuel es b Ho).
Qed.

(* every cut of the wire: for every file, exactly its content bytes lying in what the
   decryptor delivers (`fs_output`: auth_out / unauth_out of EncAuthFs.v, C04) are recovered *)
Theorem C05_repair_encrypted_max {LIM : Limit} :
  forall FNMAX CACHE : N, FNMAX < 2 ^ 64 -> 0 < CACHE ->
  forall TS TC TA TE : N,
    TS <> TC /\ TS <> TA /\ TS <> TE /\ TC <> TA /\ TC <> TE /\ TA <> TE ->
  forall H : bytes -> bytes, (forall x, len (H x) = 32) ->
  forall CHUNK TAG CIPHERBUF : N, 0 < CHUNK -> 0 < TAG ->
  forall (ks : N -> N -> N) (tagc : N -> bytes -> bytes), (forall i c, len (tagc i c) = TAG) ->
  forall (bl : list block) (trailer : bytes),
    wf_blocks FNMAX H bl ->
    In BEnd bl \/ trailer ++ junk CHUNK ks tagc (body TS TC TA TE bl ++ trailer) = [] ->
  forall pieces : list bytes, concat pieces = body TS TC TA TE bl ++ trailer ->
  forall (fuelw : nat) (s : ewstate),
    ew_archive CHUNK CIPHERBUF ks tagc fuelw pieces = Ok s ->
    len (ew_out s) / (CHUNK + TAG) + 2 <= 2 ^ 32 ->
  forall (n : N) (unauth : bool) (fuel : nat),
    (N.to_nat (len (body TS TC TA TE bl ++ trailer) + TAG) < fuel)%nat ->
    (* size premise, see C05_repair_intact_complete: the decryptor delivers at most |plain| + TAG bytes *)
    8 + 3 * (len (body TS TC TA TE bl ++ trailer) + TAG) <= N.min lim (2 ^ 32 - 1) ->
    exists es b,
      fs_open CHUNK TAG ks (Cursor (takeN n (ew_out s))) 0 = (es, Ok b) /\
    exists (status : fstatus) (unfinished : list bytes) (out : wstate) (obl : list block),
      repair FNMAX CACHE TS TC TA TE H (FsEnc CHUNK TAG ks tagc unauth (Cursor (takeN n (ew_out s))))
             fuel es w_init = Ok (status, unfinished, out) /\
      good_output FNMAX TS TC TA TE H out obl /\
      (forall f, In f (files_of bl) ->
         content_of (files_of obl) (f_name f) =
         present (f_id f) bl (len (fs_output CHUNK TAG ks tagc unauth (takeN n (ew_out s))))).
Proof.
  intros FNMAX CACHE HFN HC TS TC TA TE Ht H HH CHUNK TAG CIPHERBUF HCH HTAG ks tagc Htagc bl trailer Hwf Htr
         pieces Hp fuelw s Hw Hbig n unauth fuel Hfuel Hfit.
  destruct (repair_encrypted_max FNMAX CACHE HFN HC TS TC TA TE Ht H HH CHUNK TAG CIPHERBUF HCH HTAG ks tagc Htagc
              bl trailer Hwf Htr pieces Hp fuelw s Hw Hbig n unauth fuel Hfuel) as (es & b & Ho & Hc).
  exists es, b. split; [exact Ho|]. apply Hc.
  exact (enc_cut_no_ser FNMAX CACHE TS TC TA TE H CHUNK TAG CIPHERBUF HCH ks tagc Htagc bl trailer pieces fuelw s Hp Hw Hbig Hfit n unauth fuel es b Ho).
Qed.

(* a longer cut never yields less — FULL statement, no assumption on the tag function.  For
   every writer output (premises as in C05_repair_encrypted_max), all cuts n <= m of the wire
   and every pair of decryption modes (u1 at n, u2 at m) other than (unauthenticated,
   authenticated) — in particular BOTH AUTHENTICATED: both repairs return Ok and, for every
   name, the content recovered at n is a prefix of the content recovered at m; OR the shorter
   cut holds a forgery in the sense of C03/C04 (EncAuth.Forgery: some CTS-window of
   takeN n wire splits as ct ++ tag with tag = tagc i ct for a counter i, and ct is NOT the
   ciphertext the writer produced for chunk i of the plaintext).  The accident behind the
   disjunct: a cut inside chunk k whose last TAG bytes happen to be the tag of the bytes before
   them makes the authenticated loader accept a shortened chunk k; one more wire byte and it
   refuses chunk k altogether (C05_example_auth_auth_forgery_disjunct_needed below exhibits
   it with a weak tag function).  The excluded pair is not monotone for a plain reason: the
   unauthenticated mode delivers the bytes of a cut chunk, the authenticated mode does not
   (C05_example_unauth_then_auth_not_monotone). *)
Theorem C05_repair_encrypted_monotone {LIM : Limit} :
  forall FNMAX CACHE : N, FNMAX < 2 ^ 64 -> 0 < CACHE ->
  forall TS TC TA TE : N,
    TS <> TC /\ TS <> TA /\ TS <> TE /\ TC <> TA /\ TC <> TE /\ TA <> TE ->
  forall H : bytes -> bytes, (forall x, len (H x) = 32) ->
  forall CHUNK TAG CIPHERBUF : N, 0 < CHUNK -> 0 < TAG ->
  forall (ks : N -> N -> N) (tagc : N -> bytes -> bytes), (forall i c, len (tagc i c) = TAG) ->
  forall (bl : list block) (trailer : bytes),
    wf_blocks FNMAX H bl ->
    In BEnd bl \/ trailer ++ junk CHUNK ks tagc (body TS TC TA TE bl ++ trailer) = [] ->
  forall pieces : list bytes, concat pieces = body TS TC TA TE bl ++ trailer ->
  forall (fuelw : nat) (s : ewstate),
    ew_archive CHUNK CIPHERBUF ks tagc fuelw pieces = Ok s ->
    len (ew_out s) / (CHUNK + TAG) + 2 <= 2 ^ 32 ->
  forall (n m : N) (u1 u2 : bool) (fuel1 fuel2 : nat),
    n <= m -> (u1 = true -> u2 = true) ->
    (N.to_nat (len (body TS TC TA TE bl ++ trailer) + TAG) < fuel1)%nat ->
    (N.to_nat (len (body TS TC TA TE bl ++ trailer) + TAG) < fuel2)%nat ->
    (* size premise, see C05_repair_intact_complete: the decryptor delivers at most |plain| + TAG bytes *)
    8 + 3 * (len (body TS TC TA TE bl ++ trailer) + TAG) <= N.min lim (2 ^ 32 - 1) ->
    exists es1 b1 es2 b2,
      fs_open CHUNK TAG ks (Cursor (takeN n (ew_out s))) 0 = (es1, Ok b1) /\
      fs_open CHUNK TAG ks (Cursor (takeN m (ew_out s))) 0 = (es2, Ok b2) /\
    exists st1 un1 out1 obl1 st2 un2 out2 obl2,
      repair FNMAX CACHE TS TC TA TE H (FsEnc CHUNK TAG ks tagc u1 (Cursor (takeN n (ew_out s))))
             fuel1 es1 w_init = Ok (st1, un1, out1) /\
      good_output FNMAX TS TC TA TE H out1 obl1 /\
      repair FNMAX CACHE TS TC TA TE H (FsEnc CHUNK TAG ks tagc u2 (Cursor (takeN m (ew_out s))))
             fuel2 es2 w_init = Ok (st2, un2, out2) /\
      good_output FNMAX TS TC TA TE H out2 obl2 /\
      ((forall name, prefix (content_of (files_of obl1) name) (content_of (files_of obl2) name)) \/
       Forgery CHUNK TAG ks tagc (takeN n (ew_out s)) (body TS TC TA TE bl ++ trailer)).
Proof.
  intros FNMAX CACHE HFN HC TS TC TA TE Ht H HH CHUNK TAG CIPHERBUF HCH HTAG ks tagc Htagc bl trailer Hwf Htr
         pieces Hp fuelw s Hw Hbig n m u1 u2 fuel1 fuel2 Hnm Hu Hf1 Hf2 Hfit.
  destruct (repair_encrypted_monotone_full FNMAX CACHE HFN HC TS TC TA TE Ht H HH CHUNK TAG CIPHERBUF HCH HTAG ks tagc Htagc
              bl trailer Hwf Htr pieces Hp fuelw s Hw Hbig n m u1 u2 fuel1 fuel2 Hnm Hu Hf1 Hf2)
    as (es1 & b1 & es2 & b2 & Ho1 & Ho2 & Hc).
  exists es1, b1, es2, b2. split; [exact Ho1|]. split; [exact Ho2|]. apply Hc.
  - exact (enc_cut_no_ser FNMAX CACHE TS TC TA TE H CHUNK TAG CIPHERBUF HCH ks tagc Htagc bl trailer pieces fuelw s Hp Hw Hbig Hfit n u1 fuel1 es1 b1 Ho1).
  - exact (enc_cut_no_ser FNMAX CACHE TS TC TA TE H CHUNK TAG CIPHERBUF HCH ks tagc Htagc bl trailer pieces fuelw s Hp Hw Hbig Hfit m u2 fuel2 es2 b2 Ho2).
Qed.

(* the layer fact behind it: on truncations of an unaltered encrypted stream the
   authenticated output grows with the cut, or the shorter cut holds a forgery *)
Theorem C05_auth_output_monotone_or_forgery :
  forall CHUNK TAG : N, 0 < CHUNK -> 0 < TAG ->
  forall (ks : N -> N -> N) (tagc : N -> bytes -> bytes), (forall i c, len (tagc i c) = TAG) ->
  forall plain w1 w2 : bytes,
    prefix w1 w2 -> prefix w2 (enc_format CHUNK ks tagc plain) ->
    prefix (auth_out CHUNK TAG ks tagc w1) (auth_out CHUNK TAG ks tagc w2) \/
    Forgery CHUNK TAG ks tagc w1 plain.
Proof. exact fs_auth_cut_mono. Qed.

(* second run unauthenticated (first in either mode): no disjunct at all *)
Theorem C05_repair_encrypted_monotone_unauth {LIM : Limit} :
  forall FNMAX CACHE : N, FNMAX < 2 ^ 64 -> 0 < CACHE ->
  forall TS TC TA TE : N,
    TS <> TC /\ TS <> TA /\ TS <> TE /\ TC <> TA /\ TC <> TE /\ TA <> TE ->
  forall H : bytes -> bytes, (forall x, len (H x) = 32) ->
  forall CHUNK TAG CIPHERBUF : N, 0 < CHUNK -> 0 < TAG ->
  forall (ks : N -> N -> N) (tagc : N -> bytes -> bytes), (forall i c, len (tagc i c) = TAG) ->
  forall (bl : list block) (trailer : bytes),
    wf_blocks FNMAX H bl ->
    In BEnd bl \/ trailer ++ junk CHUNK ks tagc (body TS TC TA TE bl ++ trailer) = [] ->
  forall pieces : list bytes, concat pieces = body TS TC TA TE bl ++ trailer ->
  forall (fuelw : nat) (s : ewstate),
    ew_archive CHUNK CIPHERBUF ks tagc fuelw pieces = Ok s ->
    len (ew_out s) / (CHUNK + TAG) + 2 <= 2 ^ 32 ->
  forall (n m : N) (u1 : bool) (fuel1 fuel2 : nat),
    n <= m ->
    (N.to_nat (len (body TS TC TA TE bl ++ trailer) + TAG) < fuel1)%nat ->
    (N.to_nat (len (body TS TC TA TE bl ++ trailer) + TAG) < fuel2)%nat ->
    (* size premise, see C05_repair_intact_complete: the decryptor delivers at most |plain| + TAG bytes *)
    8 + 3 * (len (body TS TC TA TE bl ++ trailer) + TAG) <= N.min lim (2 ^ 32 - 1) ->
    exists es1 b1 es2 b2,
      fs_open CHUNK TAG ks (Cursor (takeN n (ew_out s))) 0 = (es1, Ok b1) /\
      fs_open CHUNK TAG ks (Cursor (takeN m (ew_out s))) 0 = (es2, Ok b2) /\
    exists st1 un1 out1 obl1 st2 un2 out2 obl2,
      repair FNMAX CACHE TS TC TA TE H (FsEnc CHUNK TAG ks tagc u1 (Cursor (takeN n (ew_out s))))
             fuel1 es1 w_init = Ok (st1, un1, out1) /\
      good_output FNMAX TS TC TA TE H out1 obl1 /\
      repair FNMAX CACHE TS TC TA TE H (FsEnc CHUNK TAG ks tagc true (Cursor (takeN m (ew_out s))))
             fuel2 es2 w_init = Ok (st2, un2, out2) /\
      good_output FNMAX TS TC TA TE H out2 obl2 /\
      forall name, prefix (content_of (files_of obl1) name) (content_of (files_of obl2) name).
Proof.
  intros FNMAX CACHE HFN HC TS TC TA TE Ht H HH CHUNK TAG CIPHERBUF HCH HTAG ks tagc Htagc bl trailer Hwf Htr
         pieces Hp fuelw s Hw Hbig n m u1 fuel1 fuel2 Hnm Hf1 Hf2 Hfit.
  destruct (repair_encrypted_monotone FNMAX CACHE HFN HC TS TC TA TE Ht H HH CHUNK TAG CIPHERBUF HCH HTAG ks tagc Htagc
              bl trailer Hwf Htr pieces Hp fuelw s Hw Hbig n m u1 fuel1 fuel2 Hnm Hf1 Hf2)
    as (es1 & b1 & es2 & b2 & Ho1 & Ho2 & Hc).
  exists es1, b1, es2, b2. split; [exact Ho1|]. split; [exact Ho2|]. apply Hc.
  - exact (enc_cut_no_ser FNMAX CACHE TS TC TA TE H CHUNK TAG CIPHERBUF HCH ks tagc Htagc bl trailer pieces fuelw s Hp Hw Hbig Hfit n u1 fuel1 es1 b1 Ho1).
  - exact (enc_cut_no_ser FNMAX CACHE TS TC TA TE H CHUNK TAG CIPHERBUF HCH ks tagc Htagc bl trailer pieces fuelw s Hp Hw Hbig Hfit m true fuel2 es2 b2 Ho2).
Qed.

(* non-vacuity: the encrypted example archive of C02.v, uncut, both modes *)
Example C05_example_encrypted_intact : forall unauth : bool,
  exists es b out obl,
    fs_open 32 4 toy_ks (Cursor (ew_out C02.ex_ew)) 0 = (es, Ok b) /\
    repairP 48 4 0 1 254 255 ex_H (FsEnc 32 4 toy_ks (toy_tag 4) unauth (Cursor (ew_out C02.ex_ew)))
           300 es w_init = Ok (FEndOfData, [], out) /\
    Forall2 same (files_of ex_bl) (files_of obl).
Proof.
  intros unauth.
  destruct (C05_repair_encrypted_intact_complete (LIM := MLAGen.Src.BINCODE_MAX_DESERIALIZE_prod) 48 4 ltac:(lia) ltac:(lia) 0 1 254 255
              ltac:(repeat split; discriminate) ex_H ex_H_len 32 4 8 ltac:(lia) ltac:(lia)
              toy_ks (toy_tag 4) (len_toy_tag 4) ex_bl ex_trailer C02_example_wf
              (or_introl ex_bl_end) C02.ex_pieces C02.ex_pieces_ok 200%nat C02.ex_ew C02.ex_ew_ok
              ltac:(vm_compute; discriminate) unauth 300%nat ex_bl_end ltac:(vm_compute; lia)
              ltac:(vm_compute; discriminate))
    as (es & b & Ho & out & obl & Hr & _ & Hs & _).
  exists es, b, out, obl. auto.
Qed.

(* non-vacuity of C05_repair_encrypted_monotone: the same archive cut at 100 and at 140, BOTH
   runs authenticated *)
Example C05_example_encrypted_monotone_auth_auth :
  exists es1 b1 es2 b2 st1 un1 out1 obl1 st2 un2 out2 obl2,
    fs_open 32 4 toy_ks (Cursor (takeN 100 (ew_out C02.ex_ew))) 0 = (es1, Ok b1) /\
    fs_open 32 4 toy_ks (Cursor (takeN 140 (ew_out C02.ex_ew))) 0 = (es2, Ok b2) /\
    repairP 48 4 0 1 254 255 ex_H (FsEnc 32 4 toy_ks (toy_tag 4) false (Cursor (takeN 100 (ew_out C02.ex_ew))))
           300 es1 w_init = Ok (st1, un1, out1) /\
    good_outputP 48 0 1 254 255 ex_H out1 obl1 /\
    repairP 48 4 0 1 254 255 ex_H (FsEnc 32 4 toy_ks (toy_tag 4) false (Cursor (takeN 140 (ew_out C02.ex_ew))))
           300 es2 w_init = Ok (st2, un2, out2) /\
    good_outputP 48 0 1 254 255 ex_H out2 obl2 /\
    ((forall name, prefix (content_of (files_of obl1) name) (content_of (files_of obl2) name)) \/
     Forgery 32 4 toy_ks (toy_tag 4) (takeN 100 (ew_out C02.ex_ew)) (body 0 1 254 255 ex_bl ++ ex_trailer)).
Proof.
  destruct (C05_repair_encrypted_monotone (LIM := MLAGen.Src.BINCODE_MAX_DESERIALIZE_prod) 48 4 ltac:(lia) ltac:(lia) 0 1 254 255
              ltac:(repeat split; discriminate) ex_H ex_H_len 32 4 8 ltac:(lia) ltac:(lia)
              toy_ks (toy_tag 4) (len_toy_tag 4) ex_bl ex_trailer C02_example_wf
              (or_introl ex_bl_end) C02.ex_pieces C02.ex_pieces_ok 200%nat C02.ex_ew C02.ex_ew_ok
              ltac:(vm_compute; discriminate) 100 140 false false 300%nat 300%nat ltac:(lia)
              ltac:(discriminate) ltac:(vm_compute; lia) ltac:(vm_compute; lia) ltac:(vm_compute; discriminate))
    as (es1 & b1 & es2 & b2 & Ho1 & Ho2 & st1 & un1 & out1 & obl1 & st2 & un2 & out2 & obl2 & R).
  destruct R as (R1 & R2 & R3 & R4 & R5).
  exists es1, b1, es2, b2, st1, un1, out1, obl1, st2, un2, out2, obl2.
  split; [exact Ho1|]. split; [exact Ho2|]. split; [exact R1|]. split; [exact R2|]. split; [exact R3|]. split; [exact R4|]. exact R5.
Qed.

(* the Forgery disjunct cannot be dropped.  The same archive under a WEAK tag function (one
   constant byte, 2): the wire cut at 40 ends, inside chunk 1, with a ciphertext byte equal to
   2; the authenticated loader takes it for the tag of the 6 bytes before it and delivers
   them — 3 content bytes of file "a".  Cut at 41 the window ends with another byte, chunk 1
   is refused, nothing of "a" is recovered.  And the forgery is there. *)
Definition ex_weak_tag (i : N) (c : bytes) : bytes := [2].
Definition ex_weak_ew : ewstate :=
  match ew_archive 32 8 toy_ks ex_weak_tag 200 C02.ex_pieces with Ok s => s | _ => ew_init end.
Lemma ex_weak_ew_ok : ew_archive 32 8 toy_ks ex_weak_tag 200 C02.ex_pieces = Ok ex_weak_ew.
Proof. vm_compute. reflexivity. Qed.

Example C05_example_auth_auth_forgery_disjunct_needed :
  (exists es1 b1 es2 b2 st1 un1 out1 obl1 st2 un2 out2 obl2,
    fs_open 32 1 toy_ks (Cursor (takeN 40 (ew_out ex_weak_ew))) 0 = (es1, Ok b1) /\
    fs_open 32 1 toy_ks (Cursor (takeN 41 (ew_out ex_weak_ew))) 0 = (es2, Ok b2) /\
    repairP 48 4 0 1 254 255 ex_H (FsEnc 32 1 toy_ks ex_weak_tag false (Cursor (takeN 40 (ew_out ex_weak_ew))))
           300 es1 w_init = Ok (st1, un1, out1) /\
    good_outputP 48 0 1 254 255 ex_H out1 obl1 /\
    repairP 48 4 0 1 254 255 ex_H (FsEnc 32 1 toy_ks ex_weak_tag false (Cursor (takeN 41 (ew_out ex_weak_ew))))
           300 es2 w_init = Ok (st2, un2, out2) /\
    good_outputP 48 0 1 254 255 ex_H out2 obl2 /\
    content_of (files_of obl1) [97] = [1; 2; 3] /\ content_of (files_of obl2) [97] = []) /\
  Forgery 32 1 toy_ks ex_weak_tag (takeN 40 (ew_out ex_weak_ew)) (body 0 1 254 255 ex_bl ++ ex_trailer).
Proof.
  split.
  - pose proof (C05_repair_encrypted_max (LIM := MLAGen.Src.BINCODE_MAX_DESERIALIZE_prod) 48 4 ltac:(lia) ltac:(lia) 0 1 254 255
              ltac:(repeat split; discriminate) ex_H ex_H_len 32 1 8 ltac:(lia) ltac:(lia)
              toy_ks ex_weak_tag ltac:(reflexivity) ex_bl ex_trailer C02_example_wf
              (or_introl ex_bl_end) C02.ex_pieces C02.ex_pieces_ok 200%nat ex_weak_ew ex_weak_ew_ok
              ltac:(vm_compute; discriminate)) as Hmax.
    destruct (Hmax 40 false 300%nat ltac:(vm_compute; lia) ltac:(vm_compute; discriminate))
      as (es1 & b1 & Ho1 & st1 & un1 & out1 & obl1 & Hr1 & Hg1 & Hc1).
    destruct (Hmax 41 false 300%nat ltac:(vm_compute; lia) ltac:(vm_compute; discriminate))
      as (es2 & b2 & Ho2 & st2 & un2 & out2 & obl2 & Hr2 & Hg2 & Hc2).
    exists es1, b1, es2, b2, st1, un1, out1, obl1, st2, un2, out2, obl2.
    split; [exact Ho1|]. split; [exact Ho2|]. split; [exact Hr1|]. split; [exact Hg1|]. split; [exact Hr2|]. split; [exact Hg2|]. split.
    + pose proof (Hc1 (mkF 7 [97] [1;2;3;4;5;6] true) ltac:(vm_compute; auto)) as E. cbn [f_name f_id] in E. rewrite E. vm_compute. reflexivity.
    + pose proof (Hc2 (mkF 7 [97] [1;2;3;4;5;6] true) ltac:(vm_compute; auto)) as E. cbn [f_name f_id] in E. rewrite E. vm_compute. reflexivity.
  - destruct (C05_auth_output_monotone_or_forgery 32 1 ltac:(lia) ltac:(lia) toy_ks ex_weak_tag ltac:(reflexivity)
                (body 0 1 254 255 ex_bl ++ ex_trailer) (takeN 40 (ew_out ex_weak_ew)) (takeN 41 (ew_out ex_weak_ew)))
      as [Hp|Hf]; [apply prefix_takeN_mono; lia | | | exact Hf].
    + assert (E : ew_out ex_weak_ew = enc_format 32 toy_ks ex_weak_tag (body 0 1 254 255 ex_bl ++ ex_trailer))
        by (vm_compute; reflexivity).
      rewrite <- E. apply prefix_takeN.
    + exfalso. apply prefix_len in Hp. vm_compute in Hp. apply Hp. reflexivity.
Qed.

(* the excluded pair of modes: unauthenticated at n, authenticated at m = n = 46 (a cut inside
   chunk 1): the unauthenticated run recovers all 6 bytes of "a", the authenticated run none *)
Example C05_example_unauth_then_auth_not_monotone :
  exists es b st1 un1 out1 obl1 st2 un2 out2 obl2,
    fs_open 32 4 toy_ks (Cursor (takeN 46 (ew_out C02.ex_ew))) 0 = (es, Ok b) /\
    repairP 48 4 0 1 254 255 ex_H (FsEnc 32 4 toy_ks (toy_tag 4) true (Cursor (takeN 46 (ew_out C02.ex_ew))))
           300 es w_init = Ok (st1, un1, out1) /\
    good_outputP 48 0 1 254 255 ex_H out1 obl1 /\
    repairP 48 4 0 1 254 255 ex_H (FsEnc 32 4 toy_ks (toy_tag 4) false (Cursor (takeN 46 (ew_out C02.ex_ew))))
           300 es w_init = Ok (st2, un2, out2) /\
    good_outputP 48 0 1 254 255 ex_H out2 obl2 /\
    content_of (files_of obl1) [97] = [1; 2; 3; 4; 5; 6] /\ content_of (files_of obl2) [97] = [].
Proof.
  pose proof (C05_repair_encrypted_max (LIM := MLAGen.Src.BINCODE_MAX_DESERIALIZE_prod) 48 4 ltac:(lia) ltac:(lia) 0 1 254 255
              ltac:(repeat split; discriminate) ex_H ex_H_len 32 4 8 ltac:(lia) ltac:(lia)
              toy_ks (toy_tag 4) (len_toy_tag 4) ex_bl ex_trailer C02_example_wf
              (or_introl ex_bl_end) C02.ex_pieces C02.ex_pieces_ok 200%nat C02.ex_ew C02.ex_ew_ok
              ltac:(vm_compute; discriminate)) as Hmax.
  destruct (Hmax 46 true 300%nat ltac:(vm_compute; lia) ltac:(vm_compute; discriminate))
    as (es1 & b1 & Ho1 & st1 & un1 & out1 & obl1 & Hr1 & Hg1 & Hc1).
  destruct (Hmax 46 false 300%nat ltac:(vm_compute; lia) ltac:(vm_compute; discriminate))
    as (es2 & b2 & Ho2 & st2 & un2 & out2 & obl2 & Hr2 & Hg2 & Hc2).
  rewrite Ho1 in Ho2. pose proof (f_equal fst Ho2) as Ee. cbn [fst] in Ee. subst es2. clear Ho2.
  exists es1, b1, st1, un1, out1, obl1, st2, un2, out2, obl2.
  split; [exact Ho1|]. split; [exact Hr1|]. split; [exact Hg1|]. split; [exact Hr2|]. split; [exact Hg2|]. split.
  - pose proof (Hc1 (mkF 7 [97] [1;2;3;4;5;6] true) ltac:(vm_compute; auto)) as E. cbn [f_name f_id] in E. rewrite E. vm_compute. reflexivity.
  - pose proof (Hc2 (mkF 7 [97] [1;2;3;4;5;6] true) ltac:(vm_compute; auto)) as E. cbn [f_name f_id] in E. rewrite E. vm_compute. reflexivity.
Qed.

Print Assumptions C05_repair_encrypted_intact_complete.
Print Assumptions C05_repair_encrypted_max.
Print Assumptions C05_repair_encrypted_monotone.
Print Assumptions C05_auth_output_monotone_or_forgery.
Print Assumptions C05_repair_encrypted_monotone_unauth.
Print Assumptions C05_example_encrypted_intact.
Print Assumptions C05_example_encrypted_monotone_auth_auth.
Print Assumptions C05_example_auth_auth_forgery_disjunct_needed.
Print Assumptions C05_example_unauth_then_auth_not_monotone.
(* ====================================================================================
   Compressed archives: the fail-safe decompression reader (model theories/CompFailSafe.v of
   CompressionLayerFailSafeReader; brotli's streaming decoder enters as an abstract step
   function under the explicit DecoderLaws of theories/CompFailSafeProofs.v, every one of
   which the harness job c02-comp observes on the real decoder).  `run D fin bs w` packs a
   decoder satisfying the laws, an inner source delivering the available bytes w in order
   with any short reads, the client's read sizes (> 0) and fuel (2|w|+2 passes per read,
   |plaintext|+1 reads); run_result is CompFailSafe.fs_read_all: everything delivered until
   the first Ok(0) / error, and how it ended.  bs: the compressed blocks (c_i, p_i); tail:
   the bytes that follow them (the SizesInfo footer), of which a fresh decoder makes nothing.
   ==================================================================================== *)
From MLA Require Import CompFailSafe CompFailSafeProofs CompFailSafeStep CompFailSafeThms CompFailSafeToy.

(* more available bytes, more (or equal) output, whatever the sources, read sizes and
   decoder emission schedules of the two runs (uses the law dl_D_mono) *)
Theorem C05_fs_comp_monotone :
  forall BLOCK FSBUF : N, 0 < FSBUF -> BLOCK < 2 ^ 32 ->
  forall (D : bytes -> bytes) (fin : bytes -> bool) (tail : bytes), dead D fin tail ->
  forall bs : list (bytes * bytes), Forall (good_block BLOCK D fin) bs ->
  forall (w1 w2 : bytes) (r1 : run D fin bs w1) (r2 : run D fin bs w2),
    prefix w1 w2 -> prefix w2 (wire_of tail bs) ->
    prefix (fst (run_result BLOCK FSBUF D fin bs r1)) (fst (run_result BLOCK FSBUF D fin bs r2)).
Proof. exact fs_comp_monotone. Qed.

(* all blocks available (and any part of the footer): the whole plaintext *)
Theorem C05_fs_comp_complete :
  forall BLOCK FSBUF : N, 0 < FSBUF -> BLOCK < 2 ^ 32 ->
  forall (D : bytes -> bytes) (fin : bytes -> bool) (tail : bytes), dead D fin tail ->
  forall bs : list (bytes * bytes), Forall (good_block BLOCK D fin) bs ->
  forall (t' : bytes) (r : run D fin bs (concat (map fst bs) ++ t')), prefix t' tail ->
    exists e : res unit, run_result BLOCK FSBUF D fin bs r = (plain_of bs, e) /\ fs_end e.
Proof. exact fs_comp_complete. Qed.

(* non-vacuity (toy codec of CompFailSafeToy.v, BLOCK = 8, FSBUF = 4): every cut 0..26 *)
Example C05_fs_comp_example :
  map (fun n => len (fst (run_result 8 4 tD tfin fsx_bs (fsx_run (takeN n fsx_wire) [2] 2))))
      [0; 1; 2; 8; 9; 10; 11; 17; 18; 19; 22; 23; 24; 26]
    = [0; 0; 1; 7; 8; 8; 9; 15; 16; 16; 19; 20; 20; 20] /\
  prefix (fst (run_result 8 4 tD tfin fsx_bs (fsx_run (takeN 11 fsx_wire) [2] 2)))
         (fst (run_result 8 4 tD tfin fsx_bs (fsx_run (takeN 19 fsx_wire) [] 0))).
Proof.
  split; [vm_compute; reflexivity|].
  apply (C05_fs_comp_monotone 8 4 ltac:(lia) ltac:(lia) tD tfin fsx_tail fsx_dead fsx_bs fsx_good).
  - apply prefix_takeN_mono. lia.
  - apply prefix_takeN.
Qed.

Print Assumptions C05_fs_comp_monotone.
Print Assumptions C05_fs_comp_complete.
Print Assumptions C05_fs_comp_example.

(* ---------- Tie A, level 1 for the repair loop (tools/src2v3_repair.py -> gen/Src3r.v): `convert_to_archive` as
   translated from /repo on every run is simulated by Repair.repair for every source, fuel and writer state ---------- *)
From MLA Require SrcTie3Repair SrcTie3RepairLoop.
Check SrcTie3RepairLoop.convert_to_archive_sim.
Theorem C05_tie_convert_to_archive_sim : ltac:(let t := type of @SrcTie3RepairLoop.convert_to_archive_sim in exact t).
Proof. exact (@SrcTie3RepairLoop.convert_to_archive_sim). Qed.
Print Assumptions C05_tie_convert_to_archive_sim.

(* ================= work package `carry`: C05 about the GENERATED convert_to_archive =================
   Subject: gen/Src3r.v (see the matching section of C02.v for the premises RdBounded, the reading
   `status_of` of the returned FailSafeReadError and the trusted link). *)
From MLA Require SrcTie2 CarryRepair.
From MLAGen Require Src2 Src3r.
Import SrcTie2 SrcTie3Repair SrcTie3RepairLoop CarryRepair.

(* an undamaged archive: the translated function returns Ok, its value reads as
   EndOfOriginalArchiveData with nothing unfinished, and the output holds every file completely *)
Theorem C05_repair_intact_complete_src {LIM : Limit} :
  forall FNMAX CACHE : N, FNMAX < 2 ^ 64 -> 0 < CACHE ->
  forall TS TC TA TE : N,
    TS <> TC /\ TS <> TA /\ TS <> TE /\ TC <> TA /\ TC <> TE /\ TA <> TE ->
  forall H : bytes -> bytes, (forall x, len (H x) = 32) ->
  forall (bl : list block) (trailer : bytes),
    wf_blocks FNMAX H bl -> In BEnd bl \/ trailer = [] ->
  forall (S : Stream) (R : st S -> N -> Prop) (s0 : st S) (fuel : nat),
    RdBounded S ->
    In BEnd bl -> Refines S (body TS TC TA TE bl ++ trailer) R -> R s0 0 ->
    (N.to_nat (len (body TS TC TA TE bl ++ trailer)) < fuel)%nat ->
    (* size premise, see C05_repair_intact_complete *)
    8 + 3 * len (body TS TC TA TE bl ++ trailer) <= N.min lim (2 ^ 32 - 1) ->
    exists (l : Src3r.Locals S) (e : Src3r.FailSafeReadError) (obl : list block),
      Src3r.convert_to_archive FNMAX CACHE TS TC TA TE H (footer_ser (fun f => f)) (fun _ => Ok tt) S
        (block_from FNMAX TS TC TA TE S) fuel s0 aw_init = (l, Ok e) /\
      status_of e = (FEndOfData, []) /\
      good_output FNMAX TS TC TA TE H (absW (Src3r.l_output S l)) obl /\
      Forall2 same (files_of bl) (files_of obl) /\
      (forall f, In f (files_of bl) -> f_ended f = true).
Proof.
  intros FNMAX CACHE HFN HC TS TC TA TE Ht H HH bl trailer Hwf Htr S R s0 fuel HB Hend HR H0 Hfuel Hfit.
  exact (repair_intact_complete_src FNMAX CACHE HFN HC TS TC TA TE Ht H HH bl trailer Hwf Htr S R s0 fuel HB Hend HR H0 Hfuel
           (conv_no_ser FNMAX CACHE TS TC TA TE H S fuel s0 HC HB
              (repair_no_ser_refines FNMAX CACHE TS TC TA TE H S _ R fuel s0 HR H0 Hfit))).
Qed.

(* nothing present before the cut is lost: for every file of the original, the content under its name
   in the output of the translated function is exactly its content bytes lying before the cut *)
Theorem C05_repair_max_src {LIM : Limit} :
  forall FNMAX CACHE : N, FNMAX < 2 ^ 64 -> 0 < CACHE ->
  forall TS TC TA TE : N,
    TS <> TC /\ TS <> TA /\ TS <> TE /\ TC <> TA /\ TC <> TE /\ TA <> TE ->
  forall H : bytes -> bytes, (forall x, len (H x) = 32) ->
  forall (bl : list block) (trailer : bytes),
    wf_blocks FNMAX H bl -> In BEnd bl \/ trailer = [] ->
  forall (n : N) (S : Stream) (R : st S -> N -> Prop) (s0 : st S) (fuel : nat),
    RdBounded S ->
    Refines S (takeN n (body TS TC TA TE bl ++ trailer)) R -> R s0 0 -> (N.to_nat n < fuel)%nat ->
    (* size premise, see C05_repair_intact_complete *)
    8 + 3 * n <= N.min lim (2 ^ 32 - 1) ->
    exists (l : Src3r.Locals S) (e : Src3r.FailSafeReadError) (obl : list block),
      Src3r.convert_to_archive FNMAX CACHE TS TC TA TE H (footer_ser (fun f => f)) (fun _ => Ok tt) S
        (block_from FNMAX TS TC TA TE S) fuel s0 aw_init = (l, Ok e) /\
      good_output FNMAX TS TC TA TE H (absW (Src3r.l_output S l)) obl /\
      (forall f, In f (files_of bl) ->
         content_of (files_of obl) (RepairSpec.f_name f) =
         present (RepairSpec.f_id f) bl (N.min n (len (body TS TC TA TE bl ++ trailer)))).
Proof.
  intros FNMAX CACHE HFN HC TS TC TA TE Ht H HH bl trailer Hwf Htr n S R s0 fuel HB HR H0 Hfuel Hfit.
  exact (repair_max_src FNMAX CACHE HFN HC TS TC TA TE Ht H HH bl trailer Hwf Htr n S R s0 fuel HB HR H0 Hfuel
           (conv_no_ser FNMAX CACHE TS TC TA TE H S fuel s0 HC HB
              (repair_no_ser_cut FNMAX CACHE TS TC TA TE H S _ n R fuel s0 HR H0 Hfit))).
Qed.
Theorem C05_repair_max_any_prefix_src : ltac:(let t := type of @repair_max_any_prefix_src in exact t).
Proof. exact (@repair_max_any_prefix_src). Qed.
Theorem C05_repair_intact_complete_throttled_src : ltac:(let t := type of @repair_intact_complete_throttled_src in exact t).
Proof. exact (@repair_intact_complete_throttled_src). Qed.

(* non-vacuity THROUGH THE GENERATED CODE: the intact archive of C05_example_intact through a source
   returning at most 3 bytes per read *)
Example C05_example_intact_src :
  match Src3r.convert_to_archive 48 4 0 1 254 255 ex_H (footer_ser (LIM := MLAGen.Src.BINCODE_MAX_DESERIALIZE_prod) (fun f => f)) (fun _ => Ok tt)
          (Throttled ex_stream) (block_from 48 0 1 254 255 (Throttled ex_stream)) 200 (0, [3]) aw_init with
  | (l, Ok e) => e = Src3r.EndOfOriginalArchiveData /\
                 w_files (absW (Src3r.l_output _ l)) = [([97], 0); ([98], 1)] /\
                 takeN 58 (Src2.dest (Src3r.l_output _ l)) =
                   body 0 1 254 255 [BStart 0 [97]; BContent 0 [1;2;3;4]; BContent 0 [5;6]]
  | _ => False
  end.
Proof. vm_compute. repeat split; reflexivity. Qed.
Example C05_example_intact_src_premises :
  exists l e obl,
    Src3r.convert_to_archive 48 4 0 1 254 255 ex_H (footer_ser (LIM := MLAGen.Src.BINCODE_MAX_DESERIALIZE_prod) (fun f => f)) (fun _ => Ok tt)
      (Throttled ex_stream) (block_from 48 0 1 254 255 (Throttled ex_stream)) 200 (0, [3]) aw_init = (l, Ok e) /\
    status_of e = (FEndOfData, []) /\ Forall2 same (files_of ex_bl) (files_of obl).
Proof.
  destruct (C05_repair_intact_complete_src (LIM := MLAGen.Src.BINCODE_MAX_DESERIALIZE_prod) 48 4 ltac:(lia) ltac:(lia) 0 1 254 255
              ltac:(repeat split; discriminate) ex_H ex_H_len ex_bl ex_trailer C02_example_wf
              (or_introl ex_bl_end) (Throttled ex_stream) _ (0, [3]) 200%nat (RdBounded_throttled _) ex_bl_end
              (throttled_refines _) ltac:(split; [reflexivity | apply N.le_0_l]) ltac:(vm_compute; lia)
              ltac:(vm_compute; discriminate))
    as (l & e & obl & Hg & Hst & _ & Hs & _).
  exists l, e, obl. auto.
Qed.

Print Assumptions C05_repair_intact_complete_src.
Print Assumptions C05_repair_max_src.
Print Assumptions C05_repair_max_any_prefix_src.
Print Assumptions C05_repair_intact_complete_throttled_src.
Print Assumptions C05_example_intact_src_premises.

(* ================= work package `carry2`: monotonicity about the GENERATED convert_to_archive =================
   Two runs of the translated function (gen/Src3r.v over the translated ArchiveWriter of gen/Src2.v) on cuts n <= m of
   the same body, through ANY two RdBounded sources refining the cuts (different sources, different read sizes,
   different fuels): both return Ok and every file recovered at n is a prefix of the file recovered at m.
   RepairProofs6.repair_monotone through CarryRepair.conv_of_repair (theories/Carry2Misc.v). *)
From MLA Require Carry2Misc.
Theorem C05_repair_monotone_src {LIM : Limit} :
  forall FNMAX CACHE : N, FNMAX < 2 ^ 64 -> 0 < CACHE ->
  forall TS TC TA TE : N,
    TS <> TC /\ TS <> TA /\ TS <> TE /\ TC <> TA /\ TC <> TE /\ TA <> TE ->
  forall H : bytes -> bytes, (forall x, len (H x) = 32) ->
  forall (bl : list block) (trailer : bytes),
    wf_blocks FNMAX H bl -> In BEnd bl \/ trailer = [] ->
  forall (n m : N) (S1 : Stream) (R1 : st S1 -> N -> Prop) (s1 : st S1) (fuel1 : nat)
         (S2 : Stream) (R2 : st S2 -> N -> Prop) (s2 : st S2) (fuel2 : nat),
    RdBounded S1 -> RdBounded S2 -> n <= m ->
    Refines S1 (takeN n (body TS TC TA TE bl ++ trailer)) R1 -> R1 s1 0 -> (N.to_nat n < fuel1)%nat ->
    Refines S2 (takeN m (body TS TC TA TE bl ++ trailer)) R2 -> R2 s2 0 -> (N.to_nat m < fuel2)%nat ->
    snd (Src3r.convert_to_archive FNMAX CACHE TS TC TA TE H (footer_ser (fun f => f)) (fun _ => Ok tt) S1
           (block_from FNMAX TS TC TA TE S1) fuel1 s1 aw_init) <> Err EDeser ->
    snd (Src3r.convert_to_archive FNMAX CACHE TS TC TA TE H (footer_ser (fun f => f)) (fun _ => Ok tt) S2
           (block_from FNMAX TS TC TA TE S2) fuel2 s2 aw_init) <> Err EDeser ->
    exists (l1 : Src3r.Locals S1) (e1 : Src3r.FailSafeReadError) (obl1 : list block)
           (l2 : Src3r.Locals S2) (e2 : Src3r.FailSafeReadError) (obl2 : list block),
      Src3r.convert_to_archive FNMAX CACHE TS TC TA TE H (footer_ser (fun f => f)) (fun _ => Ok tt) S1
        (block_from FNMAX TS TC TA TE S1) fuel1 s1 aw_init = (l1, Ok e1) /\
      good_output FNMAX TS TC TA TE H (absW (Src3r.l_output S1 l1)) obl1 /\
      Src3r.convert_to_archive FNMAX CACHE TS TC TA TE H (footer_ser (fun f => f)) (fun _ => Ok tt) S2
        (block_from FNMAX TS TC TA TE S2) fuel2 s2 aw_init = (l2, Ok e2) /\
      good_output FNMAX TS TC TA TE H (absW (Src3r.l_output S2 l2)) obl2 /\
      forall name, prefix (content_of (files_of obl1) name) (content_of (files_of obl2) name).
Proof. exact Carry2Misc.repair_monotone_src. Qed.

(* non-vacuity THROUGH THE GENERATED CODE: the archive of C05_example_intact cut at 40 (through a source
   delivering at most 3 bytes per read) and at 70 (from memory): file [97] recovered at 40 is a prefix of
   what is recovered at 70; and the premises of the theorem are met by this pair *)
Example C05_example_monotone_src :
  let conv S := Src3r.convert_to_archive 48 4 0 1 254 255 ex_H (footer_ser (LIM := MLAGen.Src.BINCODE_MAX_DESERIALIZE_prod) (fun f => f))
                  (fun _ => Ok tt) S (block_from 48 0 1 254 255 S) in
  match conv (Throttled (takeN 40 ex_stream)) 200%nat (0, [3]) aw_init, conv (Cursor (takeN 70 ex_stream)) 200%nat 0 aw_init with
  | (l1, Ok e1), (l2, Ok e2) =>
    exists k1 k2, (k1 < k2)%nat /\
      firstn k1 (Src2.dest (Src3r.l_output _ l1)) = firstn k1 (Src2.dest (Src3r.l_output _ l2)) /\
      fst (status_of e1) = FEofNextBlock /\ fst (status_of e2) = FEofNextBlock
  | _, _ => False
  end.
Proof. vm_compute. exists 30%nat, 40%nat. repeat split; try reflexivity. lia. Qed.
Example C05_example_monotone_src_premises :
  exists l1 e1 obl1 l2 e2 obl2,
    Src3r.convert_to_archive 48 4 0 1 254 255 ex_H (footer_ser (LIM := MLAGen.Src.BINCODE_MAX_DESERIALIZE_prod) (fun f => f)) (fun _ => Ok tt)
      (Throttled (takeN 40 ex_stream)) (block_from 48 0 1 254 255 (Throttled (takeN 40 ex_stream))) 200 (0, [3]) aw_init = (l1, Ok e1) /\
    Src3r.convert_to_archive 48 4 0 1 254 255 ex_H (footer_ser (LIM := MLAGen.Src.BINCODE_MAX_DESERIALIZE_prod) (fun f => f)) (fun _ => Ok tt)
      (Cursor (takeN 70 ex_stream)) (block_from 48 0 1 254 255 (Cursor (takeN 70 ex_stream))) 200 0 aw_init = (l2, Ok e2) /\
    good_output (LIM := MLAGen.Src.BINCODE_MAX_DESERIALIZE_prod) 48 0 1 254 255 ex_H (absW (Src3r.l_output _ l1)) obl1 /\
    good_output (LIM := MLAGen.Src.BINCODE_MAX_DESERIALIZE_prod) 48 0 1 254 255 ex_H (absW (Src3r.l_output _ l2)) obl2 /\
    forall name, prefix (content_of (files_of obl1) name) (content_of (files_of obl2) name).
Proof.
  destruct (C05_repair_monotone_src (LIM := MLAGen.Src.BINCODE_MAX_DESERIALIZE_prod) 48 4 ltac:(lia) ltac:(lia) 0 1 254 255
              ltac:(repeat split; discriminate) ex_H ex_H_len ex_bl ex_trailer C02_example_wf (or_introl ex_bl_end)
              40 70 (Throttled (takeN 40 ex_stream)) _ (0, [3]) 200%nat (Cursor (takeN 70 ex_stream)) _ 0 200%nat
              (RdBounded_throttled _) (RdBounded_cursor _) ltac:(lia)
              (throttled_refines _) ltac:(split; [reflexivity | apply N.le_0_l]) ltac:(lia)
              (cursor_refines _) ltac:(split; [reflexivity | apply N.le_0_l]) ltac:(lia)
              ltac:(vm_compute; discriminate) ltac:(vm_compute; discriminate))
    as (l1 & e1 & obl1 & l2 & e2 & obl2 & H1 & G1 & H2 & G2 & Hp).
  exists l1, e1, obl1, l2, e2, obl2. auto.
Qed.
Print Assumptions C05_repair_monotone_src.
Print Assumptions C05_example_monotone_src_premises.
