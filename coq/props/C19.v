(* C19 — Seeded key generation and key derivation: the code's outcome is a function of
   (seed) resp. (parent secret, path list) only, derivation composes path by path, the public
   file matches the private file, and the code equals the README's algorithm EXCEPT where a
   parent's stored octets are not clamped (known finding D18). *)
From MLA Require Import Base Keys KeysProofs Derive DeriveProofs DeriveConcrete SrcTieKeys.
From MLA.Concrete Require Import HexS Sha512 Hmac Hkdf ChaCha20 X25519.
Open Scope N_scope.

(* ---- derivation composes: on stored octets a fold, for ALL path lists (empty, repeated) ---- *)
Theorem C19_derive_compose :
  forall k p1 p2, derive_code_c k (p1 ++ p2) = derive_code_c (derive_code_c k p1) p2.
Proof. exact (derive_code_app hkdf_sha512 rng_fill_c). Qed.
Theorem C19_derive_doc_compose :
  forall L k p1 p2, derive_doc_c L k (p1 ++ p2) = derive_doc_c L (derive_doc_c L k p1) p2.
Proof. exact (fun L => derive_doc_app hkdf_sha512 rng_fill_c L). Qed.

(* ---- ... and at the level of the FILES, unconditionally (same outcome, panics included):
   `keyderive IN out -p p1.. -p p2..` = `keyderive IN tmp -p p1..` then `keyderive tmp out -p p2..` ---- *)
Theorem C19_keyderive_files_compose :
  forall input p1 p2, p1 <> [] -> p2 <> [] ->
    keyderive_files_c input (p1 ++ p2) =
    do kp <- keyderive_files_c input p1; keyderive_files_c (fst kp) p2.
Proof. exact (keyderive_files_compose sha512 hkdf_sha512 rng_fill_c x25519_base_c). Qed.

(* ---- the file-level function is the fold (provided no private DER on the way frames as PEM,
   K18-der-frames-as-pem) ---- *)
Theorem C19_keyderive_files_is_fold :
  forall input k ps, parse_openssl_25519_privkey sha512 input = Ok k -> ps <> [] ->
    reparse_ok hkdf_sha512 rng_fill_c k ps ->
    keyderive_files_c input ps = Ok (files_of_private x25519_base_c (derive_code_c k ps)).
Proof. exact keyderive_files_ok_c. Qed.
Example C19_keyderive_files_is_fold_nonvacuous :
  parse_openssl_25519_privkey sha512 sample_x25519_der = Ok sample_x25519_private /\
  reparse_ok hkdf_sha512 rng_fill_c sample_x25519_private [path_app_x; path_v123].
Proof. split; [vm_compute; reflexivity|exact reparse_ok_sample]. Qed.

(* ---- no entropy: the outcome depends on the input file only through the parsed secret
   (DER or PEM, X25519 or Ed25519 container); the model has no other input ---- *)
Theorem C19_keyderive_depends_on_secret_only :
  forall i1 i2 ps, parse_openssl_25519_privkey sha512 i1 = parse_openssl_25519_privkey sha512 i2 ->
    keyderive_files_c i1 ps = keyderive_files_c i2 ps.
Proof. exact (keyderive_depends_on_secret_only sha512 hkdf_sha512 rng_fill_c x25519_base_c). Qed.

(* ---- the public file matches the private file, through the Keys.v parsers: the private DER
   parses to 32 octets priv, the public PEM parses to X25519(clamp priv, base point) ---- *)
Theorem C19_keygen_pub_matches_priv :
  forall ed_to_mont seed f g, keygen_seed_files_c seed = Ok (f, g) ->
    exists priv, length priv = 32%nat /\ f = export_priv_der priv /\
      parse_openssl_25519_privkey_der sha512 f = Ok priv /\
      parse_openssl_25519_pubkey ed_to_mont g = Ok (X25519.x25519_base (clamp priv)) /\
      clamp priv = keygen_doc_c seed.
Proof. exact keygen_pub_matches_priv_c. Qed.
Theorem C19_keyderive_pub_matches_priv :
  forall ed_to_mont input ps f g, keyderive_files_c input ps = Ok (f, g) ->
    exists priv, length priv = 32%nat /\ f = export_priv_der priv /\
      parse_openssl_25519_privkey_der sha512 f = Ok priv /\
      parse_openssl_25519_pubkey ed_to_mont g = Ok (X25519.x25519_base (clamp priv)).
Proof. exact keyderive_pub_matches_priv_c. Qed.

(* ---- keygen = README: SHA-512, first 32 octets, ChaCha20 generator, clamp ---- *)
Theorem C19_keygen_is_documented :
  forall seed, keygen_seed_files_c seed = Ok (files_of_private x25519_base_c (keygen_private_c seed)) /\
    clamp (keygen_private_c seed) = keygen_doc_c seed.
Proof.
  intros seed. split; [|reflexivity].
  exact (keygen_files_eq sha512 rng_fill_c x25519_base_c length_sha512 seed).
Qed.

(* ---- keyderive = README when every parent is stored clamped, whatever HKDF output length
   (>= 32) one reads into "use the first 32-bytes" ---- *)
Theorem C19_derive_code_eq_doc :
  forall L ps k, 32 <= L <= 16320 ->
    parents_clamped hkdf_sha512 rng_fill_c k ps -> clamp (derive_code_c k ps) = derive_doc_c L k ps.
Proof. exact derive_code_eq_doc_c. Qed.
Example C19_derive_code_eq_doc_nonvacuous :
  parents_clamped hkdf_sha512 rng_fill_c sample_x25519_private [path_app_x].
Proof. exact parents_clamped_sample. Qed.

(* ---- KNOWN FINDING D18: for a parent whose stored octets are not clamped the code does NOT
   compute the README's key.  Witness 1: parent written by `mlar keygen --seed ""`, path "a".
   Witness 2: the clamped OpenSSL sample key agrees on one path and disagrees on two, because
   the intermediate key (as any key written by mlar) is not stored clamped. ---- *)
Theorem C19_D18_refuted :
  exists k ps, clampedb k = false /\
    bytes_eqb (clamp (derive_code_c k ps)) (derive_doc_c 32 k ps) = false.
Proof. exists D18_parent, [D18_path]. exact D18_refuted. Qed.
Theorem C19_D18_refuted_clamped_parent_two_paths :
  exists k p1 p2, clampedb k = true /\
    bytes_eqb (clamp (derive_code_c k [p1])) (derive_doc_c 32 k [p1]) = true /\
    bytes_eqb (clamp (derive_code_c k [p1; p2])) (derive_doc_c 32 k [p1; p2]) = false.
Proof.
  exists sample_x25519_private, path_app_x, path_v123.
  destruct D18_refuted_two_paths as (_ & A & B & _ & C). auto.
Qed.

(* ---- Tie A: salt, truncation, lengths, hash and generator names, DER prefixes ---- *)
Theorem C19_tieA_salt : MLAGen.Src.DERIVE_PATH_SALT = DERIVE_PATH_SALT.
Proof. exact (proj1 derive_path_salt). Qed.
Theorem C19_tieA_apply_derive :
  forall hk hkdf512 path secret, hk NAME_Sha512 = hkdf512 ->
    MLAGen.Src.apply_derive hk path secret = apply_derive hkdf512 path secret.
Proof. exact apply_derive_eq. Qed.
Theorem C19_tieA_keygen_hseed :
  forall hd sha512 seed, hd NAME_Sha512 = sha512 ->
    (let '(digest, a, b) := MLAGen.Src.keygen_hseed hd seed in slice SITE_MAIN_816 digest a b)
    = keygen_prng_seed sha512 seed.
Proof. exact keygen_hseed_eq. Qed.
Theorem C19_tieA_names_sizes_prefixes :
  (MLAGen.Src.KEYGEN_RNG = NAME_ChaChaRng /\ MLAGen.Src.KEYDERIVE_RNG = NAME_ChaChaRng /\
   MLAGen.Src.RNG_IMPORT = NAME_ChaChaRng /\ MLAGen.Src.SHA2_IMPORT = bytes_of_string "Digest,Sha512") /\
  (MLAGen.Src.GENERATE_PRIVATE_LEN = PRIVATE_LEN /\ PRIVATE_LEN = 32 /\ PRNG_SEED_LEN = 32 /\ DERIVE_SEED_LEN = 32) /\
  (MLAGen.Src.PRIV_KEY_PREFIX = PRIV_KEY_PREFIX /\ MLAGen.Src.PUB_KEY_PREFIX = PUB_KEY_PREFIX /\
   MLAGen.Src.PRIV_KEY_TAG = PRIVATE_TAG /\ MLAGen.Src.PUB_KEY_TAG = PUBLIC_TAG).
Proof. exact (conj rng_types (conj key_sizes export_prefixes)). Qed.

(* ---- the real binary's outputs, reproduced by the model (see DeriveConcrete.v) ---- *)
Check mlar_keygen_seed_empty.
Check mlar_keygen_seed_test.
Check mlar_keyderive_sample_two_paths.
Check mlar_keyderive_sample_one_path.
Check keyderive_no_path.

(* Tie A, level 1 (work package capiT): generate_keypair / KeyPair::*_as_pem as translated from
   curve25519-parser/src/lib.rs on this run are the functions keygen / keyderive are modelled with *)
From MLA Require SrcTie3Keys.
From MLAGen Require Src3k.
Theorem C19_tie_generate_keypair : forall x25519_base seed kp,
  Src3k.generate_keypair x25519_base seed = generate_keypair_from_seed x25519_base seed /\
  Src3k.private_as_pem (fst kp) = private_as_pem kp /\ Src3k.public_as_pem (snd kp) = public_as_pem kp.
Proof. exact (fun b s kp => conj (SrcTie3Keys.generate_keypair_src b s) (SrcTie3Keys.as_pem_src kp)). Qed.
Example C19_tie_nonvacuous :
  fst (Src3k.generate_keypair (fun s => s) (repeat 1 32)) = PRIV_KEY_PREFIX ++ repeat 1 32.
Proof. reflexivity. Qed.

(* Tie A, level 1 (work package cmdsT): the keygen and keyderive COMMANDS as translated from mlar/src/main.rs on
   this run (coq/gen/Src3m.v), with the concrete primitives, are the subject of the two central statements *)
From MLA Require SrcTie3Keycmds.
From MLAGen Require Src3m.
Theorem C19_tie_keygen_cmd : forall os seed w,
  SrcTie3Keycmds.keygen_c os (Some seed) w =
    (let f := files_of_private x25519_base_c (keygen_private_c seed) in
     SrcTie3Keycmds.files_world w (fst f) (snd f), Ok tt) /\
  clamp (keygen_private_c seed) = keygen_doc_c seed.
Proof. exact SrcTie3Keycmds.C19_keygen_is_documented_src. Qed.
Theorem C19_tie_keyderive_cmd_compose : forall input p1 p2 w, p1 <> [] -> p2 <> [] ->
  SrcTie3Keycmds.keyderive_c input (p1 ++ p2) w =
  match SrcTie3Keycmds.keyderive_c input p1 w with
  | (w1, Ok _) => SrcTie3Keycmds.keyderive_c
                    (match Src3m.w_out w1 with MLA.Cli.OWritten b => b | MLA.Cli.OUntouched => [] end) p2 w
  | (w1, r) => (SrcTie3Keycmds.files_world w [] [], r)
  end.
Proof. exact SrcTie3Keycmds.C19_derive_compose_src. Qed.


Print Assumptions C19_derive_compose.
Print Assumptions C19_keyderive_files_compose.
Print Assumptions C19_keyderive_files_is_fold.
Print Assumptions C19_keyderive_depends_on_secret_only.
Print Assumptions C19_keygen_pub_matches_priv.
Print Assumptions C19_keyderive_pub_matches_priv.
Print Assumptions C19_keygen_is_documented.
Print Assumptions C19_derive_code_eq_doc.
Print Assumptions C19_D18_refuted.
Print Assumptions C19_D18_refuted_clamped_parent_two_paths.
Print Assumptions C19_tieA_names_sizes_prefixes.
Print Assumptions C19_tie_generate_keypair.
Print Assumptions C19_tie_keygen_cmd.
Print Assumptions C19_tie_keyderive_cmd_compose.
