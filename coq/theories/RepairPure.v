(* RepairPure.v — pure facts about the block-level vocabulary of RepairSpec.v: the growth
   order on file records (rle / fle), its preservation by well-formed block lists, and the
   behaviour of the cut list `cutb` (soundness, monotonicity, end marker, present bytes). *)
From MLA Require Import Base Stream Blocks RepairSpec.
From Coq Require Import ZifyBool ZifyNat ZifyN.
Open Scope N_scope.

(* FileStart ids / names are pairwise distinct in the records *)
Definition ids_nodup (fs : list frec) : Prop := NoDup (map f_id fs).
Definition names_nodup (fs : list frec) : Prop := NoDup (map f_name fs).

(* least number of bytes of a block for cutb to produce something out of it *)
Definition bmin (b : block) : N := match b with BContent _ _ => 17 | _ => blen b end.
(* content bytes a block contributes to file id *)
Definition bdata (id : N) (b : block) : bytes :=
  match b with BContent i d => if i =? id then d else [] | _ => [] end.

Lemma bmin_le_blen b : bmin b <= blen b.
Proof. destruct b; cbn [bmin blen]; lia. Qed.
Lemma blen_pos b : 1 <= blen b.
Proof. destruct b; cbn [blen]; lia. Qed.

Section Pure.
  Variable FNMAX : N.
  Variable H : bytes -> bytes.
  Notation wf_step := (wf_step FNMAX H).
  Notation wf_from := (wf_from FNMAX H).

  (* ---------- frun ---------- *)
  Lemma frun_nil fs : frun fs [] = fs.
  Proof. reflexivity. Qed.
  Lemma frun_cons fs b r : frun fs (b :: r) = frun (fstep fs b) r.
  Proof. reflexivity. Qed.
  Lemma frun_app fs l1 l2 : frun fs (l1 ++ l2) = frun (frun fs l1) l2.
  Proof. apply fold_left_app. Qed.

  (* ---------- find ---------- *)
  Lemma find_id_cons x fs id :
    find_id (x :: fs) id = if f_id x =? id then Some x else find_id fs id.
  Proof. reflexivity. Qed.
  Lemma find_name_cons x fs name :
    find_name (x :: fs) name = if bytes_eqb (f_name x) name then Some x else find_name fs name.
  Proof. reflexivity. Qed.
  Lemma find_id_some fs id f : find_id fs id = Some f -> In f fs /\ f_id f = id.
  Proof.
    intros Hf. apply find_some in Hf. destruct Hf as [Hin He].
    split; [assumption | apply N.eqb_eq; exact He].
  Qed.
  Lemma find_name_some fs name f : find_name fs name = Some f -> In f fs /\ f_name f = name.
  Proof.
    intros Hf. apply find_some in Hf. destruct Hf as [Hin He].
    split; [assumption | apply bytes_eqb_eq; exact He].
  Qed.
  Lemma find_id_app fs1 fs2 id :
    find_id (fs1 ++ fs2) id =
    match find_id fs1 id with Some f => Some f | None => find_id fs2 id end.
  Proof.
    induction fs1 as [|x fs1 IH]; cbn [app]; [reflexivity|].
    rewrite !find_id_cons. destruct (f_id x =? id); [reflexivity | exact IH].
  Qed.
  Lemma find_id_map g fs id :
    (forall f, f_id (g f) = f_id f) -> find_id (map g fs) id = option_map g (find_id fs id).
  Proof.
    intros Hg. induction fs as [|x fs IH]; cbn [map]; [reflexivity|].
    rewrite !find_id_cons, Hg. destruct (f_id x =? id); [reflexivity | exact IH].
  Qed.
  Lemma find_id_none_notin fs id : find_id fs id = None -> ~ In id (map f_id fs).
  Proof.
    induction fs as [|x fs IH]; cbn [map]; intros Hf; [intros []|].
    rewrite find_id_cons in Hf. destruct (N.eqb_spec (f_id x) id) as [E|E]; [discriminate|].
    intros [E'|Hin]; [exact (E E') | exact (IH Hf Hin)].
  Qed.
  Lemma find_name_none_notin fs name : find_name fs name = None -> ~ In name (map f_name fs).
  Proof.
    induction fs as [|x fs IH]; cbn [map]; intros Hf; [intros []|].
    rewrite find_name_cons in Hf. destruct (bytes_eqb (f_name x) name) eqn:E; [discriminate|].
    intros [E'|Hin]; [|exact (IH Hf Hin)].
    rewrite E', bytes_eqb_refl in E. discriminate.
  Qed.

  Lemma upd_data_id i d f : f_id (upd_data i d f) = f_id f.
  Proof. unfold upd_data. destruct (f_id f =? i); reflexivity. Qed.
  Lemma upd_data_name i d f : f_name (upd_data i d f) = f_name f.
  Proof. unfold upd_data. destruct (f_id f =? i); reflexivity. Qed.
  Lemma upd_end_id i f : f_id (upd_end i f) = f_id f.
  Proof. unfold upd_end. destruct (f_id f =? i); reflexivity. Qed.
  Lemma upd_end_name i f : f_name (upd_end i f) = f_name f.
  Proof. unfold upd_end. destruct (f_id f =? i); reflexivity. Qed.
  Lemma upd_end_data i f : f_data (upd_end i f) = f_data f.
  Proof. unfold upd_end. destruct (f_id f =? i); reflexivity. Qed.
  Lemma find_id_map_upd_data i d fs id :
    find_id (map (upd_data i d) fs) id = option_map (upd_data i d) (find_id fs id).
  Proof. apply find_id_map. apply upd_data_id. Qed.
  Lemma find_id_map_upd_end i fs id :
    find_id (map (upd_end i) fs) id = option_map (upd_end i) (find_id fs id).
  Proof. apply find_id_map. apply upd_end_id. Qed.

  Lemma map_proj_map {B} (p : frec -> B) g fs :
    (forall f, p (g f) = p f) -> map p (map g fs) = map p fs.
  Proof. intros Hg. rewrite map_map. apply map_ext. exact Hg. Qed.

  Lemma NoDup_snoc {A} (l : list A) x : NoDup l -> ~ In x l -> NoDup (l ++ [x]).
  Proof.
    induction l as [|a l IH]; intros Hnd Hx; cbn [app].
    - constructor; [intros [] | constructor].
    - apply NoDup_cons_iff in Hnd. destruct Hnd as [Ha Hnd]. constructor.
      + intros Hin. apply in_app_or in Hin. destruct Hin as [Hin|[E|[]]].
        * exact (Ha Hin).
        * apply Hx. left. symmetry. exact E.
      + apply IH; [assumption | intros Hin; apply Hx; right; exact Hin].
  Qed.

  (* with distinct ids, every record with a given id is the one found *)
  Lemma find_id_unique fs id f0 f :
    ids_nodup fs -> find_id fs id = Some f0 -> In f fs -> f_id f = id -> f = f0.
  Proof.
    unfold ids_nodup. induction fs as [|x fs IH]; intros Hnd Hf Hin Hid; [destruct Hin|].
    cbn [map] in Hnd. apply NoDup_cons_iff in Hnd. destruct Hnd as [Hx Hnd].
    rewrite find_id_cons in Hf. destruct (N.eqb_spec (f_id x) id) as [E|E].
    - injection Hf as Hf. subst f0. destruct Hin as [Hin|Hin]; [symmetry; exact Hin|].
      exfalso. apply Hx. apply in_map_iff. exists f. split; [congruence | assumption].
    - destruct Hin as [Hin|Hin]; [subst x; contradiction|]. apply IH; assumption.
  Qed.

  (* ---------- rle / fle ---------- *)
  Lemma rle_refl f : rle f f.
  Proof.
    unfold rle. split; [reflexivity|]. split; [reflexivity|]. split; [apply prefix_refl|].
    intros He. split; [exact He | reflexivity].
  Qed.
  Lemma rle_trans f g h : rle f g -> rle g h -> rle f h.
  Proof.
    intros (I1 & N1 & P1 & E1) (I2 & N2 & P2 & E2).
    split; [congruence|]. split; [congruence|]. split; [eapply prefix_trans; eassumption|].
    intros He. destruct (E1 He) as [Eg Dg]. destruct (E2 Eg) as [Eh Dh].
    split; [assumption | congruence].
  Qed.
  Lemma Forall2_rle_refl fs : Forall2 rle fs fs.
  Proof. induction fs as [|x fs IH]; constructor; [apply rle_refl | exact IH]. Qed.
  Lemma Forall2_rle_trans a b c : Forall2 rle a b -> Forall2 rle b c -> Forall2 rle a c.
  Proof.
    intros Hab. revert c. induction Hab as [|x y a b Hxy Hab IH]; intros c Hbc.
    - inversion Hbc. constructor.
    - inversion Hbc as [|y' z b' c' Hyz Hbc' E1 E2]. subst. constructor.
      + eapply rle_trans; eassumption.
      + apply IH. assumption.
  Qed.
  Lemma Forall2_rle_map (g1 g2 : frec -> frec) fs :
    (forall f, In f fs -> rle (g1 f) (g2 f)) -> Forall2 rle (map g1 fs) (map g2 fs).
  Proof.
    induction fs as [|x fs IH]; intros Hf; cbn [map]; constructor.
    - apply Hf. left. reflexivity.
    - apply IH. intros f Hin. apply Hf. right. exact Hin.
  Qed.
  Lemma Forall2_rle_map_self (g : frec -> frec) fs :
    (forall f, In f fs -> rle f (g f)) -> Forall2 rle fs (map g fs).
  Proof.
    induction fs as [|x fs IH]; intros Hf; cbn [map]; constructor.
    - apply Hf. left. reflexivity.
    - apply IH. intros f Hin. apply Hf. right. exact Hin.
  Qed.

  Lemma fle_refl fs : fle fs fs.
  Proof.
    exists fs, []. split; [symmetry; apply app_nil_r | apply Forall2_rle_refl].
  Qed.
  Lemma fle_trans a b c : fle a b -> fle b c -> fle a c.
  Proof.
    intros (a1 & b1 & E1 & F1) (a2 & b2 & E2 & F2). subst b c.
    apply Forall2_app_inv_l in F2. destruct F2 as (c1 & c2 & Fc1 & Fc2 & E). subst a2.
    exists c1, (c2 ++ b2). split; [symmetry; apply app_assoc|].
    eapply Forall2_rle_trans; eassumption.
  Qed.
  Lemma fle_Forall2 fs1 fs2 : Forall2 rle fs1 fs2 -> fle fs1 fs2.
  Proof. intros Hf. exists fs2, []. split; [symmetry; apply app_nil_r | exact Hf]. Qed.
  Lemma fle_app_r fs l : fle fs (fs ++ l).
  Proof. exists fs, l. split; [reflexivity | apply Forall2_rle_refl]. Qed.

  Lemma rle_upd_data i d1 d2 f :
    prefix d1 d2 -> (f_id f = i -> f_ended f = false) ->
    rle (upd_data i d1 f) (upd_data i d2 f).
  Proof.
    intros [r Hr] Hne. subst d2. unfold upd_data.
    destruct (N.eqb_spec (f_id f) i) as [E|E]; [|apply rle_refl].
    unfold rle; cbn [f_id f_name f_data f_ended].
    split; [reflexivity|]. split; [reflexivity|]. split.
    - exists r. apply app_assoc.
    - intros He. rewrite (Hne E) in He. discriminate.
  Qed.
  Lemma rle_upd_data_self i d f :
    (f_id f = i -> f_ended f = false) -> rle f (upd_data i d f).
  Proof.
    intros Hne. unfold upd_data.
    destruct (N.eqb_spec (f_id f) i) as [E|E]; [|apply rle_refl].
    unfold rle; cbn [f_id f_name f_data f_ended].
    split; [reflexivity|]. split; [reflexivity|]. split.
    - apply prefix_app.
    - intros He. rewrite (Hne E) in He. discriminate.
  Qed.
  Lemma rle_upd_end i f : rle f (upd_end i f).
  Proof.
    unfold upd_end. destruct (f_id f =? i); [|apply rle_refl].
    unfold rle; cbn [f_id f_name f_data f_ended].
    split; [reflexivity|]. split; [reflexivity|]. split; [apply prefix_refl|].
    intros _. split; reflexivity.
  Qed.

  (* ---------- one block ---------- *)
  Lemma content_not_ended fs i d :
    ids_nodup fs -> wf_step fs (BContent i d) ->
    forall f, In f fs -> f_id f = i -> f_ended f = false.
  Proof.
    intros Hnd Hw f Hin Hid. cbn [RepairSpec.wf_step] in Hw. destruct Hw as (f0 & Hf0 & He0).
    rewrite (find_id_unique fs i f0 f Hnd Hf0 Hin Hid). exact He0.
  Qed.
  Lemma wf_step_content fs i d d' : wf_step fs (BContent i d) -> wf_step fs (BContent i d').
  Proof. intros Hw. exact Hw. Qed.
  (* a shorter piece of the same content block gives smaller records *)
  Lemma fle_content fs i d1 d2 :
    ids_nodup fs -> wf_step fs (BContent i d2) -> prefix d1 d2 ->
    fle (fstep fs (BContent i d1)) (fstep fs (BContent i d2)).
  Proof.
    intros Hnd Hw Hp. cbn [fstep]. apply fle_Forall2, Forall2_rle_map. intros f Hin.
    apply rle_upd_data; [exact Hp|]. intros Hid.
    exact (content_not_ended fs i d2 Hnd Hw f Hin Hid).
  Qed.

  Lemma fstep_fle fs b : ids_nodup fs -> wf_step fs b -> fle fs (fstep fs b).
  Proof.
    intros Hnd Hw. destruct b as [i n|i d|i h|]; cbn [fstep].
    - apply fle_app_r.
    - apply fle_Forall2, Forall2_rle_map_self. intros f Hin. apply rle_upd_data_self.
      intros Hid. exact (content_not_ended fs i d Hnd Hw f Hin Hid).
    - apply fle_Forall2, Forall2_rle_map_self. intros f Hin. apply rle_upd_end.
    - apply fle_refl.
  Qed.
  Lemma fstep_nodup fs b : ids_nodup fs -> wf_step fs b -> ids_nodup (fstep fs b).
  Proof.
    unfold ids_nodup. intros Hnd Hw. destruct b as [i n|i d|i h|]; cbn [fstep].
    - cbn [RepairSpec.wf_step] in Hw. destruct Hw as (Hi & _).
      rewrite map_app. cbn [map f_id]. apply NoDup_snoc; [assumption|].
      apply find_id_none_notin. exact Hi.
    - rewrite map_proj_map; [assumption | apply upd_data_id].
    - rewrite map_proj_map; [assumption | apply upd_end_id].
    - assumption.
  Qed.
  Lemma fstep_names_nodup fs b : names_nodup fs -> wf_step fs b -> names_nodup (fstep fs b).
  Proof.
    unfold names_nodup. intros Hnd Hw. destruct b as [i n|i d|i h|]; cbn [fstep].
    - cbn [RepairSpec.wf_step] in Hw. destruct Hw as (_ & Hn & _).
      rewrite map_app. cbn [map f_name]. apply NoDup_snoc; [assumption|].
      apply find_name_none_notin. exact Hn.
    - rewrite map_proj_map; [assumption | apply upd_data_name].
    - rewrite map_proj_map; [assumption | apply upd_end_name].
    - assumption.
  Qed.

  (* ---------- block lists ---------- *)
  Lemma wf_from_cons fs b r :
    wf_from fs (b :: r) <-> wf_step fs b /\ (b = BEnd -> r = []) /\ wf_from (fstep fs b) r.
  Proof. reflexivity. Qed.

  Lemma frun_fle : forall bl fs, ids_nodup fs -> wf_from fs bl -> fle fs (frun fs bl).
  Proof.
    induction bl as [|b r IH]; intros fs Hnd Hw; [apply fle_refl|].
    apply wf_from_cons in Hw. destruct Hw as (Hs & _ & Hr). rewrite frun_cons.
    eapply fle_trans; [apply fstep_fle; eassumption|].
    apply IH; [apply fstep_nodup; assumption | assumption].
  Qed.
  Lemma frun_nodup : forall bl fs, ids_nodup fs -> wf_from fs bl -> ids_nodup (frun fs bl).
  Proof.
    induction bl as [|b r IH]; intros fs Hnd Hw; [exact Hnd|].
    apply wf_from_cons in Hw. destruct Hw as (Hs & _ & Hr). rewrite frun_cons.
    apply IH; [apply fstep_nodup; assumption | assumption].
  Qed.
  Lemma frun_names_nodup :
    forall bl fs, names_nodup fs -> wf_from fs bl -> names_nodup (frun fs bl).
  Proof.
    induction bl as [|b r IH]; intros fs Hnd Hw; [exact Hnd|].
    apply wf_from_cons in Hw. destruct Hw as (Hs & _ & Hr). rewrite frun_cons.
    apply IH; [apply fstep_names_nodup; assumption | assumption].
  Qed.

  (* ---------- cutb: the four ways the head block can come out ---------- *)
  Lemma cutb_cases b r m :
    (b = BEnd /\ cutb (b :: r) m = ([], 1 <=? m)) \/
    (b <> BEnd /\ m < bmin b /\ cutb (b :: r) m = ([], false)) \/
    (exists i d, b = BContent i d /\ 17 <= m /\ m < 17 + len d /\
                 cutb (b :: r) m = ([BContent i (takeN (m - 17) d)], false)) \/
    (b <> BEnd /\ blen b <= m /\
     cutb (b :: r) m = (b :: fst (cutb r (m - blen b)), snd (cutb r (m - blen b)))).
  Proof.
    destruct b as [i n|i d|i h|]; cbn [cutb blen bmin].
    - destruct (N.ltb_spec m (17 + len n)) as [L|L].
      + right; left. split; [discriminate|]. split; [assumption | reflexivity].
      + right; right; right. split; [discriminate|]. split; [assumption|].
        destruct (cutb r (m - (17 + len n))) as [l e]. reflexivity.
    - destruct (N.ltb_spec m 17) as [L|L].
      + right; left. split; [discriminate|]. split; [assumption | reflexivity].
      + destruct (N.ltb_spec m (17 + len d)) as [L2|L2].
        * right; right; left. exists i, d. repeat (split; [first [reflexivity|assumption]|]).
          reflexivity.
        * right; right; right. split; [discriminate|]. split; [assumption|].
          destruct (cutb r (m - (17 + len d))) as [l e]. reflexivity.
    - destruct (N.ltb_spec m (9 + len h)) as [L|L].
      + right; left. split; [discriminate|]. split; [assumption | reflexivity].
      + right; right; right. split; [discriminate|]. split; [assumption|].
        destruct (cutb r (m - (9 + len h))) as [l e]. reflexivity.
    - left. split; reflexivity.
  Qed.

  Lemma cutb_wf : forall bl fs m, wf_from fs bl -> wf_from fs (fst (cutb bl m)).
  Proof.
    induction bl as [|b r IH]; intros fs m Hw; [exact I|].
    apply wf_from_cons in Hw. destruct Hw as (Hs & Hlast & Hr).
    destruct (cutb_cases b r m)
      as [[Eb E] | [(Hb & Hm & E) | [(i & d & Eb & Hm1 & Hm2 & E) | (Hb & Hm & E)]]];
      rewrite E; cbn [fst].
    - exact I.
    - exact I.
    - subst b. apply wf_from_cons. split; [exact Hs|]. split; [discriminate | exact I].
    - apply wf_from_cons. split; [exact Hs|]. split; [intros Eb; contradiction|].
      apply IH. exact Hr.
  Qed.

  Lemma cutb_grow :
    forall bl fs m, ids_nodup fs -> wf_from fs bl -> fle fs (frun fs (fst (cutb bl m))).
  Proof.
    intros bl fs m Hnd Hw. apply frun_fle; [assumption | apply cutb_wf; assumption].
  Qed.

  Lemma cutb_sound :
    forall bl fs m, ids_nodup fs -> wf_from fs bl ->
    fle (frun fs (fst (cutb bl m))) (frun fs bl).
  Proof.
    induction bl as [|b r IH]; intros fs m Hnd Hw; [apply fle_refl|].
    pose proof (frun_fle (b :: r) fs Hnd Hw) as Hall.
    apply wf_from_cons in Hw. destruct Hw as (Hs & Hlast & Hr).
    destruct (cutb_cases b r m)
      as [[Eb E] | [(Hb & Hm & E) | [(i & d & Eb & Hm1 & Hm2 & E) | (Hb & Hm & E)]]];
      rewrite E; cbn [fst].
    - exact Hall.
    - exact Hall.
    - subst b. rewrite !frun_cons, frun_nil.
      eapply fle_trans; [apply fle_content; [assumption | exact Hs | apply prefix_takeN]|].
      apply frun_fle; [apply fstep_nodup; assumption | assumption].
    - rewrite !frun_cons. apply IH; [apply fstep_nodup; assumption | assumption].
  Qed.

  Lemma cutb_mono :
    forall bl fs n m, ids_nodup fs -> wf_from fs bl -> n <= m ->
    fle (frun fs (fst (cutb bl n))) (frun fs (fst (cutb bl m))).
  Proof.
    induction bl as [|b r IH]; intros fs n m Hnd Hw Hnm; [apply fle_refl|].
    pose proof (cutb_grow (b :: r) fs m Hnd Hw) as Hg.
    apply wf_from_cons in Hw. destruct Hw as (Hs & Hlast & Hr).
    pose proof (bmin_le_blen b) as Hbl.
    destruct (cutb_cases b r n)
      as [[Eb En] | [(Hbn & Hn & En) | [(i & d & Eb & Hn1 & Hn2 & En) | (Hbn & Hn & En)]]].
    - subst b. cbn [cutb fst]. apply fle_refl.
    - rewrite En; cbn [fst]. rewrite frun_nil. exact Hg.
    - subst b. cbn [bmin blen] in Hbl.
      destruct (cutb_cases (BContent i d) r m)
        as [[Eb Em] | [(_ & Hm & Em) | [(i' & d' & Eb & Hm1 & Hm2 & Em) | (_ & Hm & Em)]]].
      + discriminate.
      + cbn [bmin] in Hm. lia.
      + injection Eb as Ei Ed. subst i' d'. rewrite En, Em; cbn [fst].
        rewrite !frun_cons, !frun_nil.
        assert (Hs' : wf_step fs (BContent i (takeN (m - 17) d))) by exact Hs.
        cbn [fstep]. apply fle_Forall2, Forall2_rle_map. intros f Hin.
        apply rle_upd_data; [apply prefix_takeN_mono; lia|]. intros Hid.
        exact (content_not_ended fs i d Hnd Hs f Hin Hid).
      + rewrite En, Em; cbn [fst]. rewrite !frun_cons, frun_nil.
        eapply fle_trans; [apply fle_content; [assumption | exact Hs | apply prefix_takeN]|].
        apply cutb_grow; [apply fstep_nodup; assumption | assumption].
    - destruct (cutb_cases b r m)
        as [[Eb Em] | [(_ & Hm & Em) | [(i' & d' & Eb & Hm1 & Hm2 & Em) | (_ & Hm & Em)]]].
      + contradiction.
      + lia.
      + subst b. cbn [blen] in Hn. lia.
      + rewrite En, Em; cbn [fst]. rewrite !frun_cons.
        apply IH; [apply fstep_nodup; assumption | assumption | lia].
  Qed.

  Lemma cutb_end :
    forall bl fs m, wf_from fs bl -> snd (cutb bl m) = true ->
    frun fs (fst (cutb bl m)) = frun fs bl /\ (forall f, In f (frun fs bl) -> f_ended f = true).
  Proof.
    induction bl as [|b r IH]; intros fs m Hw He; [discriminate He|].
    apply wf_from_cons in Hw. destruct Hw as (Hs & Hlast & Hr).
    destruct (cutb_cases b r m)
      as [[Eb E] | [(Hb & Hm & E) | [(i & d & Eb & Hm1 & Hm2 & E) | (Hb & Hm & E)]]];
      rewrite E in *; cbn [fst snd] in *.
    - rewrite (Hlast Eb). subst b. rewrite frun_cons, !frun_nil. cbn [fstep].
      split; [reflexivity | exact Hs].
    - discriminate He.
    - discriminate He.
    - rewrite !frun_cons. apply IH; assumption.
  Qed.

  Lemma cutb_all : forall bl m, In BEnd bl -> blens bl <= m -> snd (cutb bl m) = true.
  Proof.
    clear FNMAX H. (* lia would otherwise drag the section variables into the term *)
    induction bl as [|b r IH]; intros m Hin Hm; [destruct Hin|].
    unfold blens in Hm; cbn [fold_right] in Hm; fold (blens r) in Hm.
    pose proof (bmin_le_blen b) as Hbl.
    destruct (cutb_cases b r m)
      as [[Eb E] | [(Hb & Hm' & E) | [(i & d & Eb & Hm1 & Hm2 & E) | (Hb & Hm' & E)]]];
      rewrite E; cbn [snd].
    - subst b. cbn [blen] in Hm. lia.
    - lia.
    - subst b. cbn [blen] in Hm. lia.
    - destruct Hin as [Eb|Hin]; [contradiction|]. apply IH; [assumption | lia].
  Qed.
  Lemma cutb_short : forall bl m, snd (cutb bl m) = true -> In BEnd bl.
  Proof.
    induction bl as [|b r IH]; intros m He; [discriminate He|].
    destruct (cutb_cases b r m)
      as [[Eb E] | [(Hb & Hm' & E) | [(i & d & Eb & Hm1 & Hm2 & E) | (Hb & Hm' & E)]]];
      rewrite E in He; cbn [snd] in He.
    - left. exact Eb.
    - discriminate He.
    - discriminate He.
    - right. eapply IH. exact He.
  Qed.

  (* ---------- the bytes of one file ---------- *)
  Lemma present_0 : forall bl id, present id bl 0 = [].
  Proof.
    induction bl as [|b r IH]; intros id; cbn [present]; [reflexivity|].
    rewrite !N.sub_0_l, IH, app_nil_r. destruct b as [i n|i d|i h|]; try reflexivity.
    rewrite takeN_0. destruct (i =? id); reflexivity.
  Qed.

  Lemma data_of_id_start fs i n id :
    data_of_id (fs ++ [mkF i n [] false]) id = data_of_id fs id.
  Proof.
    unfold data_of_id. rewrite find_id_app. destruct (find_id fs id) as [f|]; [reflexivity|].
    rewrite find_id_cons. cbn [f_id]. destruct (i =? id); reflexivity.
  Qed.
  Lemma data_of_id_content fs i d id :
    find_id fs i <> None ->
    data_of_id (map (upd_data i d) fs) id = data_of_id fs id ++ (if i =? id then d else []).
  Proof.
    intros Hne. unfold data_of_id. rewrite find_id_map_upd_data.
    destruct (find_id fs id) as [f|] eqn:Hf; cbn [option_map].
    - apply find_id_some in Hf. destruct Hf as [_ Hid]. unfold upd_data.
      destruct (N.eqb_spec (f_id f) i) as [E|E]; destruct (N.eqb_spec i id) as [E'|E'];
        cbn [f_data]; try congruence.
      symmetry; apply app_nil_r.
    - destruct (N.eqb_spec i id) as [E'|E']; [|reflexivity].
      subst i. contradiction.
  Qed.
  Lemma data_of_id_eof fs i id : data_of_id (map (upd_end i) fs) id = data_of_id fs id.
  Proof.
    unfold data_of_id. rewrite find_id_map_upd_end.
    destruct (find_id fs id) as [f|]; cbn [option_map]; [apply upd_end_data | reflexivity].
  Qed.
  Lemma data_of_id_fstep fs b id :
    wf_step fs b -> data_of_id (fstep fs b) id = data_of_id fs id ++ bdata id b.
  Proof.
    intros Hw. destruct b as [i n|i d|i h|]; cbn [fstep bdata].
    - rewrite data_of_id_start. symmetry; apply app_nil_r.
    - apply data_of_id_content. cbn [RepairSpec.wf_step] in Hw.
      destruct Hw as (f0 & Hf0 & _). congruence.
    - rewrite data_of_id_eof. symmetry; apply app_nil_r.
    - symmetry; apply app_nil_r.
  Qed.

  (* the statement without the (unneeded) hypothesis on ids *)
  Lemma cutb_present_gen :
    forall bl fs m id, wf_from fs bl ->
    data_of_id (frun fs (fst (cutb bl m))) id = data_of_id fs id ++ present id bl m.
  Proof.
    induction bl as [|b r IH]; intros fs m id Hw.
    - cbn [cutb fst present]. rewrite frun_nil. symmetry; apply app_nil_r.
    - apply wf_from_cons in Hw. destruct Hw as (Hs & Hlast & Hr). cbn [present].
      pose proof (bmin_le_blen b) as Hbl.
      destruct (cutb_cases b r m)
        as [[Eb E] | [(Hb & Hm & E) | [(i & d & Eb & Hm1 & Hm2 & E) | (Hb & Hm & E)]]];
        rewrite E; cbn [fst].
      + rewrite (Hlast Eb). subst b. cbn [present]. rewrite frun_nil, !app_nil_r. reflexivity.
      + rewrite frun_nil. replace (m - blen b) with 0 by lia. rewrite present_0, app_nil_r.
        destruct b as [i n|i d|i h|]; try (symmetry; apply app_nil_r).
        cbn [bmin] in Hm. replace (m - 17) with 0 by lia. rewrite takeN_0.
        destruct (i =? id); symmetry; apply app_nil_r.
      + subst b. cbn [blen]. replace (m - (17 + len d)) with 0 by lia.
        rewrite present_0, app_nil_r, frun_cons, frun_nil.
        assert (Hs' : wf_step fs (BContent i (takeN (m - 17) d))) by exact Hs.
        rewrite (data_of_id_fstep _ _ id Hs'). cbn [bdata].
        destruct (i =? id); reflexivity.
      + rewrite frun_cons, (IH _ _ id Hr), (data_of_id_fstep _ _ id Hs), <- app_assoc.
        f_equal. f_equal. destruct b as [i n|i d|i h|]; cbn [bdata]; try reflexivity.
        cbn [blen] in Hm. destruct (i =? id); [|reflexivity].
        symmetry. apply takeN_all. lia.
  Qed.
  Lemma cutb_present :
    forall bl fs m id, ids_nodup fs -> wf_from fs bl ->
    data_of_id (frun fs (fst (cutb bl m))) id = data_of_id fs id ++ present id bl m.
  Proof. intros bl fs m id _ Hw. apply cutb_present_gen. exact Hw. Qed.

  (* ---------- records found by name ---------- *)
  Lemma Forall2_rle_find_name fs1 a b name f :
    Forall2 rle fs1 a -> find_name fs1 name = Some f ->
    exists g, find_name (a ++ b) name = Some g /\ rle f g.
  Proof.
    intros Hf. induction Hf as [|x y fs1 a Hxy Hf IH]; intros Hn; [discriminate Hn|].
    cbn [app]. rewrite find_name_cons in *. destruct Hxy as (Hi & Hnm & Hp & He).
    rewrite <- Hnm. destruct (bytes_eqb (f_name x) name).
    - injection Hn as Hn. subst f. exists y. split; [reflexivity|].
      split; [assumption|]. split; [assumption|]. split; assumption.
    - apply IH. exact Hn.
  Qed.
  Lemma fle_find_name fs1 fs2 name f :
    names_nodup fs2 -> fle fs1 fs2 -> find_name fs1 name = Some f ->
    exists g, find_name fs2 name = Some g /\ rle f g.
  Proof.
    intros _ (a & b & E & Hf) Hn. subst fs2. eapply Forall2_rle_find_name; eassumption.
  Qed.
  Lemma fle_content_prefix fs1 fs2 name :
    names_nodup fs2 -> fle fs1 fs2 -> prefix (content_of fs1 name) (content_of fs2 name).
  Proof.
    intros Hnd Hle. unfold content_of at 1. destruct (find_name fs1 name) as [f|] eqn:Hf.
    - destruct (fle_find_name fs1 fs2 name f Hnd Hle Hf) as (g & Hg & (_ & _ & Hp & _)).
      unfold content_of. rewrite Hg. exact Hp.
    - exists (content_of fs2 name). reflexivity.
  Qed.
  Lemma fle_names fs1 fs2 f : fle fs1 fs2 -> In f fs1 -> exists g, In g fs2 /\ rle f g.
  Proof.
    intros (a & b & E & Hf) Hin. subst fs2. revert Hin.
    induction Hf as [|x y fs1 a Hxy Hf IH]; intros Hin; [destruct Hin|].
    destruct Hin as [Hin|Hin].
    - subst x. exists y. split; [left; reflexivity | exact Hxy].
    - destruct (IH Hin) as (g & Hg & Hr). exists g. split; [right; exact Hg | exact Hr].
  Qed.
End Pure.
