(* CompFailSafeThms.v — what repair of compressed archives relies on, for the fail-safe
   decompression reader (model CompFailSafe.v) under the decoder laws (CompFailSafeProofs.v):

     fs_comp_exact        the total output is fs_spec: the plaintext of the blocks wholly
                          available, then D of the partial one; Ok(0) / UnexpectedEof /
                          InvalidData at the end, never a crash, never out of fuel
     fs_comp_prefix       C02: a prefix of the plaintext
     fs_comp_maximal      D4-D6: ALL of D of the available compressed bytes is delivered
     fs_comp_sched_indep  C13: independent of the source's read schedule, of the client's
                          read sizes and of the decoder's emission schedule
     fs_comp_monotone     C05: more bytes, more (or equal) output
     fs_comp_flush        C14: at a flush point everything written before is delivered

   Setting: bs = (c_0,p_0) ... (c_k,p_k) complete streams with D c_i = p_i, |p_i| <= BLOCK,
   followed by `tail` (the SizesInfo footer), bytes of which a fresh decoder makes nothing
   (no output and no complete stream on any prefix: `dead`).  A footer that contains complete
   EMPTY streams is covered by listing them as blocks with p = [].  The inner source is any
   stream that delivers a prefix w of that wire in order, with any short reads. *)
From MLA Require Import Base Stream CompFailSafe CompFailSafeProofs CompFailSafeStep.
From Coq Require Import ZifyBool ZifyNat ZifyN.
Open Scope N_scope.

Section Thms.
  Variables BLOCK FSBUF : N.
  Hypothesis HFSBUF : 0 < FSBUF.
  Hypothesis HBLOCK32 : BLOCK < 2 ^ 32.
  Variable D : bytes -> bytes.
  Variable fin : bytes -> bool.
  Variable tail : bytes.
  Hypothesis Htail : dead D fin tail.
  Variable bs : list (bytes * bytes).
  Hypothesis Hbs : Forall (good_block BLOCK D fin) bs.

  (* a run: a decoder satisfying the laws, a source over w, read sizes, fuel *)
  Record run (w : bytes) := mkRun {
    r_dstate : Type;
    r_dinit : r_dstate;
    r_dstep : r_dstate -> bytes -> N -> dresult * N * bytes * r_dstate;
    r_laws : DecoderLaws r_dinit r_dstep D fin;
    r_S : Stream;
    r_R : st r_S -> N -> Prop;
    r_src : SrcRefines r_S w r_R;
    r_i0 : st r_S;
    r_start : r_R r_i0 0;
    r_sz : nat -> N;
    r_sz_pos : forall j, 0 < r_sz j;
    r_rfuel : nat;
    r_pfuel : nat;
    r_pfuel_ok : (N.to_nat (2 * len w + 1) < r_pfuel)%nat;
    r_rfuel_ok : (N.to_nat (len (plain_of bs)) < r_rfuel)%nat;
  }.
  Definition run_result {w} (r : run w) : bytes * res unit :=
    fs_read_all BLOCK FSBUF (r_dstate w r) (r_dinit w r) (r_dstep w r) (r_S w r)
                (r_rfuel w r) (r_pfuel w r) (r_i0 w r) (r_sz w r).

  Lemma Dm_of {w} (r : run w) : forall a b, prefix a b -> prefix (D a) (D b).
  Proof. exact (D_mono_prefix _ _ _ D fin (r_laws w r)). Qed.
  Lemma fin_nil_of {w} (r : run w) : fin [] = false.
  Proof. exact (dl_fin_nil _ _ _ _ _ (r_laws w r)). Qed.

  Theorem fs_comp_exact w (r : run w) : prefix w (wire_of tail bs) ->
    exists e, run_result r = (fs_spec D bs w, e) /\ fs_end e.
  Proof.
    intros Hw. destruct r; unfold run_result; cbn.
    apply (fs_read_all_exact BLOCK FSBUF HFSBUF HBLOCK32 _ _ _ D fin r_laws0 tail Htail _ w _ r_src0);
      try assumption.
    pose proof (fs_spec_prefix BLOCK D fin (dl_fin_nil _ _ _ _ _ r_laws0)
                  (D_mono_prefix _ _ _ D fin r_laws0) tail Htail bs Hbs w Hw) as Hp.
    apply prefix_len in Hp. lia.
  Qed.

  (* C02 *)
  Theorem fs_comp_prefix w (r : run w) : prefix w (wire_of tail bs) ->
    exists out e, run_result r = (out, e) /\ fs_end e /\ prefix out (plain_of bs).
  Proof.
    intros Hw. destruct (fs_comp_exact w r Hw) as (e & He & Hend).
    exists (fs_spec D bs w), e. split; [exact He|]. split; [exact Hend|].
    exact (fs_spec_prefix BLOCK D fin (fin_nil_of r) (Dm_of r) tail Htail bs Hbs w Hw).
  Qed.

  (* D4-D6: blocks b1 wholly available, then a proper prefix c' of the next one *)
  Theorem fs_comp_maximal b1 c p b2 c' (r : run (concat (map fst b1) ++ c')) :
    bs = b1 ++ (c, p) :: b2 -> prefix c' c -> len c' < len c ->
    exists e, run_result r = (plain_of b1 ++ D c', e) /\ fs_end e.
  Proof.
    intros Hsplit Hc Hl.
    assert (Hw : prefix (concat (map fst b1) ++ c') (wire_of tail bs)).
    { rewrite Hsplit. unfold wire_of. rewrite map_app, concat_app, <- app_assoc.
      apply prefix_app_app. cbn [map concat fst]. rewrite <- app_assoc.
      destruct Hc as [x ->]. rewrite <- app_assoc. apply prefix_app. }
    destruct (fs_comp_exact _ r Hw) as (e & He & Hend). exists e. split; [|exact Hend].
    rewrite He. f_equal. rewrite Hsplit.
    rewrite (fs_spec_app D fin (fin_nil_of r) (Dm_of r)).
    rewrite (fs_spec_partial D fin (fin_nil_of r) (Dm_of r)) by exact Hl. reflexivity.
  Qed.
  (* all blocks available (and any part of the footer): everything *)
  Theorem fs_comp_complete t' (r : run (concat (map fst bs) ++ t')) : prefix t' tail ->
    exists e, run_result r = (plain_of bs, e) /\ fs_end e.
  Proof.
    intros Ht.
    assert (Hw : prefix (concat (map fst bs) ++ t') (wire_of tail bs)).
    { unfold wire_of. apply prefix_app_app. exact Ht. }
    destruct (fs_comp_exact _ r Hw) as (e & He & Hend). exists e. split; [|exact Hend].
    rewrite He. f_equal.
    rewrite <- (app_nil_r bs) at 1.
    rewrite (fs_spec_app D fin (fin_nil_of r) (Dm_of r)).
    rewrite (fs_spec_dead D fin tail Htail t' Ht). apply app_nil_r.
  Qed.

  (* C13: two runs over the same available bytes — different decoders (same D: any two
     emission schedules), different sources (any read schedule), different read sizes *)
  Theorem fs_comp_sched_indep w (r1 r2 : run w) : prefix w (wire_of tail bs) ->
    fst (run_result r1) = fst (run_result r2).
  Proof.
    intros Hw. destruct (fs_comp_exact w r1 Hw) as (e1 & -> & _).
    destruct (fs_comp_exact w r2 Hw) as (e2 & -> & _). reflexivity.
  Qed.

  (* C05 *)
  Theorem fs_comp_monotone w1 w2 (r1 : run w1) (r2 : run w2) :
    prefix w1 w2 -> prefix w2 (wire_of tail bs) ->
    prefix (fst (run_result r1)) (fst (run_result r2)).
  Proof.
    intros H12 H2.
    destruct (fs_comp_exact w1 r1 (prefix_trans _ _ _ H12 H2)) as (e1 & -> & _).
    destruct (fs_comp_exact w2 r2 H2) as (e2 & -> & _). cbn [fst].
    exact (fs_spec_mono BLOCK D fin (fin_nil_of r1) (Dm_of r1) tail bs Hbs w1 w2 H12 H2).
  Qed.

  (* C14: the destination holds the complete blocks b1 and the bytes c' the encoder of the
     current block had emitted when flush() returned; `written` is what had been written to
     that block.  dec_flush (the encoder's flush contract, stated on the wire): D c' = written *)
  Theorem fs_comp_flush b1 c p b2 c' written (r : run (concat (map fst b1) ++ c')) :
    bs = b1 ++ (c, p) :: b2 -> prefix c' c -> len c' < len c -> D c' = written ->
    exists e, run_result r = (plain_of b1 ++ written, e) /\ fs_end e.
  Proof. intros Hsplit Hc Hl <-. exact (fs_comp_maximal b1 c p b2 c' r Hsplit Hc Hl). Qed.
End Thms.

(* Cursor and Throttled (any schedule) are such sources *)
Lemma cursor_src w : SrcRefines (Cursor w) w (fun s p => s = p /\ p <= len w).
Proof. apply refines_src. apply cursor_refines. Qed.
Lemma throttled_src w : SrcRefines (Throttled w) w (fun s p => fst s = p /\ p <= len w).
Proof. apply refines_src. apply throttled_refines. Qed.
