(* SrcTie3EncKeys.v — Tie A, level 1: EncryptionReaderConfig::load_persistent (gen/Src3e.v, translated from
   /repo/mla/src/layers/encrypt.rs) against Ecies.load_persistent: the candidate private keys are tried in
   order, the first one that unwraps a key wins, none -> PrivateKeyNotFound, no candidate at all ->
   PrivateKeyNotSet.  `retrieve_key` (crypto/ecc.rs) is Ecies.retrieve_key; an `Err` of the Rust function
   (ECIES failure) is skipped by the loop exactly like `Ok(None)`, which the general lemma covers. *)
From MLA Require Import Base Ecies.
From MLAGen Require Src3e.
Open Scope N_scope.

Section Keys.
  Variable M : Type.
  Variable rk : M -> bytes -> res (option bytes).       (* any retrieve_key *)
  Variable m : M.
  Variable nonce : bytes.
  Notation g_for := (Src3e.load_persistent_for M rk m nonce).
  Notation g_lp := (Src3e.load_persistent M rk m nonce).

  (* the model's candidate loop over an arbitrary retrieve_key (Err = no key) *)
  Fixpoint first_key (privs : list bytes) : option bytes :=
    match privs with
    | [] => None
    | p :: r => match rk m p with Ok (Some k) => Some k | _ => first_key r end
    end.

  Lemma load_persistent_for_src cfg privs :
    g_for cfg privs =
    match first_key privs with
    | Some k => Src3e.set_erc_encrypt_parameters cfg (Some (k, nonce))
    | None => cfg
    end.
  Proof.
    induction privs as [|p r IH]; cbn [Src3e.load_persistent_for first_key]; [reflexivity|].
    destruct (rk m p) as [[k|]|e|c]; try exact IH. reflexivity.
  Qed.

  (* on a configuration that holds no parameters yet (every configuration the library builds) *)
  Theorem load_persistent_gen_src cfg : Src3e.erc_encrypt_parameters cfg = None ->
    g_lp cfg =
    match Src3e.erc_private_keys cfg with
    | [] => (cfg, inr Src3e.PrivateKeyNotSet)
    | _ => match first_key (Src3e.erc_private_keys cfg) with
           | Some k => (Src3e.set_erc_encrypt_parameters cfg (Some (k, nonce)), inl tt)
           | None => (cfg, inr Src3e.PrivateKeyNotFound)
           end
    end.
  Proof.
    intros Hn. unfold Src3e.load_persistent. destruct (Src3e.erc_private_keys cfg) as [|p r] eqn:Ek; [reflexivity|].
    cbn [Src3e.vec_is_empty]. rewrite load_persistent_for_src.
    destruct (first_key (p :: r)) as [k|]; [reflexivity|]. rewrite Hn. reflexivity.
  Qed.

  (* observation (not reachable through the public API, where a configuration is loaded once): parameters
     left by an earlier call survive a call in which no candidate opens, and that call returns Ok *)
  Lemma load_persistent_keeps_stale_parameters cfg old p r :
    Src3e.erc_encrypt_parameters cfg = Some old -> Src3e.erc_private_keys cfg = p :: r -> first_key (p :: r) = None ->
    g_lp cfg = (cfg, inl tt).
  Proof.
    intros Ho Ek Hf. unfold Src3e.load_persistent. rewrite Ek. cbn [Src3e.vec_is_empty].
    rewrite load_persistent_for_src, Hf, Ho. reflexivity.
  Qed.
End Keys.

(* ---------- against Ecies.v ---------- *)
Section Ecies.
  Variable dh : bytes -> bytes -> bytes.
  Variable kdf : bytes -> bytes.
  Variables wdec wtag : bytes -> bytes -> bytes.
  Notation m_retrieve := (retrieve_key dh kdf wdec wtag).
  Notation m_lp := (load_persistent dh kdf wdec wtag).
  Definition rk_ecies (m : multi) (p : bytes) : res (option bytes) := Ok (m_retrieve m p).

  Lemma first_key_ecies m privs : first_key multi rk_ecies m privs = m_lp m privs.
  Proof.
    induction privs as [|p r IH]; cbn [first_key load_persistent]; [reflexivity|].
    unfold rk_ecies at 1. destruct (m_retrieve m p); [reflexivity | exact IH].
  Qed.

  Theorem load_persistent_src m nonce cfg : Src3e.erc_encrypt_parameters cfg = None ->
    Src3e.load_persistent multi rk_ecies m nonce cfg =
    match Src3e.erc_private_keys cfg with
    | [] => (cfg, inr Src3e.PrivateKeyNotSet)
    | _ => match m_lp m (Src3e.erc_private_keys cfg) with
           | Some k => (Src3e.set_erc_encrypt_parameters cfg (Some (k, nonce)), inl tt)
           | None => (cfg, inr Src3e.PrivateKeyNotFound)
           end
    end.
  Proof. intros Hn. rewrite (load_persistent_gen_src _ _ _ _ _ Hn), first_key_ecies. reflexivity. Qed.

  (* success of the translated function = success of the model's loop, with the model's key *)
  Corollary load_persistent_ok_iff_src m nonce cfg : Src3e.erc_encrypt_parameters cfg = None ->
    forall cfg', (Src3e.load_persistent multi rk_ecies m nonce cfg = (cfg', inl tt) <->
                  exists k, m_lp m (Src3e.erc_private_keys cfg) = Some k /\
                            cfg' = Src3e.set_erc_encrypt_parameters cfg (Some (k, nonce))).
  Proof.
    intros Hn cfg'. rewrite (load_persistent_src _ _ _ Hn).
    destruct (Src3e.erc_private_keys cfg) as [|p r].
    - cbn [load_persistent]. split; [discriminate | intros (k & Hk & _); discriminate].
    - destruct (m_lp m (p :: r)) as [k|].
      + split; [intros [= <-]; eauto | intros (k' & [= <-] & ->); reflexivity].
      + split; [discriminate | intros (k & Hk & _); discriminate].
  Qed.
End Ecies.

(* ---------- carried: C07 "opens with the private key of any one recipient, and with no other key" holds of
   the TRANSLATED load_persistent ---------- *)
Section Carried.
  Variable pubk : bytes -> bytes.
  Variable dh : bytes -> bytes -> bytes.
  Variable kdf : bytes -> bytes.
  Variables wenc wdec wtag : bytes -> bytes -> bytes.
  Hypothesis dh_comm : forall a b, dh a (pubk b) = dh b (pubk a).
  Variable KEYLEN : N.
  Hypothesis wdec_wenc : forall k m, len m = KEYLEN -> wdec k (wenc k m) = m.
  Notation g_lp := (Src3e.load_persistent multi (rk_ecies dh kdf wdec wtag)).

  Theorem recipient_opens_src eph key recipients nonce cfg s : len key = KEYLEN ->
    Src3e.erc_encrypt_parameters cfg = None -> In (pubk s) recipients -> In s (Src3e.erc_private_keys cfg) ->
    g_lp (store_key pubk dh kdf wenc wtag recipients key eph) nonce cfg =
      (Src3e.set_erc_encrypt_parameters cfg (Some (key, nonce)), inl tt) \/
    TagCollision pubk dh kdf wenc wtag eph key recipients (Src3e.erc_private_keys cfg).
  Proof.
    intros HK Hn Hr Hs. rewrite (load_persistent_src dh kdf wdec wtag _ _ _ Hn).
    destruct (recipient_opens pubk dh kdf wenc wdec wtag dh_comm KEYLEN wdec_wenc eph key recipients
                (Src3e.erc_private_keys cfg) s HK Hr Hs) as [Ho|Hc]; [|right; exact Hc].
    left. rewrite Ho. destruct (Src3e.erc_private_keys cfg); [destruct Hs | reflexivity].
  Qed.

  Theorem non_recipient_fails_src eph key recipients nonce cfg : len key = KEYLEN ->
    Src3e.erc_encrypt_parameters cfg = None ->
    (forall p r, In p (Src3e.erc_private_keys cfg) -> In r recipients ->
       derive_key dh kdf p (pubk eph) <> derive_key dh kdf eph r) ->
    (exists e, g_lp (store_key pubk dh kdf wenc wtag recipients key eph) nonce cfg = (cfg, inr e)) \/
    TagCollision pubk dh kdf wenc wtag eph key recipients (Src3e.erc_private_keys cfg).
  Proof.
    intros HK Hn Hnr. rewrite (load_persistent_src dh kdf wdec wtag _ _ _ Hn).
    destruct (non_recipient_fails pubk dh kdf wenc wdec wtag KEYLEN wdec_wenc eph key recipients
                (Src3e.erc_private_keys cfg) HK Hnr) as [Ho|Hc]; [|right; exact Hc].
    left. rewrite Ho. destruct (Src3e.erc_private_keys cfg); eauto.
  Qed.
End Carried.
