(* RepairSize2.v — `repair ... <> Err EDeser` (finalize of the repaired archive did not fail with
   SerializationError) DERIVED from the size of the input, for the LAYERED fail-safe stacks
   (continuation of RepairSize.v / RepairSizeWrap.v; fits_limit n := 8 + 3 * n <= min lim (2^32-1)):

     len_fs_output_le     the fail-safe decryptor never delivers more bytes than the ciphertext
                          holds (either mode): len (fs_output unauth w) <= len w;
     fsenc_no_ser_skb     FsEnc over ANY Seekable inner source over w, from the state fs_open
                          returns: fits_limit (len (fs_output unauth w)) suffices;
     fsenc_no_ser_input   ... hence fits_limit (len w) — a bound on the OUTER input — suffices;
     fscomp_no_ser        FsComp (fail-safe decompressor) over any source delivering w in order:
                          fits_limit (len (fs_spec D bs w)), the size of the DECOMPRESSED stream
                          (the decompressor expands: no bound in len w exists — D is any
                          function under the DecoderLaws);
     fscomp_fsenc_no_ser  FsComp over FsEnc over a Seekable source. *)
From MLA Require Import Limit.
From MLA Require Import Base Stream Blocks Writer Repair EncLayer EncAuth EncAuthFs EncAuthC Run
  ComposeRdOnly ComposeRepair ComposeFlushAt RepairMask RepairSize
  CompFailSafe CompFailSafeProofs CompFailSafeStep FsCompStream ComposeFsComp.
From Coq Require Import ZifyBool ZifyNat ZifyN.
Open Scope N_scope.

(* ---------- the decrypted stream is no longer than the ciphertext ---------- *)
Section FsOutLen.
  Variables CHUNK TAG : N.
  Variable ks : N -> N -> N.

  Lemma len_out_from_le dec (Hd : DecSpec CHUNK dec) fuel : forall i rem,
    len (out_from CHUNK TAG dec fuel i rem) <= len rem.
  Proof.
    induction fuel as [|f IH]; intros i rem; cbn [out_from]; [rewrite len_nil; lia|].
    destruct (dec i rem) as [pt|] eqn:E; [|rewrite len_nil; lia].
    destruct (Hd i rem pt E) as [Hc Hl].
    destruct (N.ltb_spec (len pt) CHUNK) as [_|Hfull]; [exact Hl|].
    rewrite len_app. specialize (IH (i + 1) (dropN (CTS CHUNK TAG) rem)).
    rewrite len_dropN in IH. unfold CTS in *. lia.
  Qed.

  Lemma len_fs_out_le w dec : DecSpec CHUNK dec -> len (fs_out CHUNK TAG ks w dec) <= len w.
  Proof.
    intros Hd. unfold fs_out.
    assert (H0 : len (xor_from ks 0 0 (takeN CHUNK w)) = N.min CHUNK (len w))
      by (rewrite len_xor_from', len_takeN; reflexivity).
    destruct (N.ltb_spec (len (xor_from ks 0 0 (takeN CHUNK w))) CHUNK) as [_|Hfull]; [lia|].
    rewrite len_app, H0.
    pose proof (len_out_from_le dec Hd (Datatypes.S (length w)) 1 (dropN (CTS CHUNK TAG) w)) as Hl.
    rewrite len_dropN in Hl. unfold CTS in *. lia.
  Qed.

  Hypothesis HCHUNK : 0 < CHUNK.
  Variable tagc : N -> bytes -> bytes.

  Theorem len_fs_output_le unauth w : len (fs_output CHUNK TAG ks tagc unauth w) <= len w.
  Proof.
    destruct unauth; cbn [fs_output]; unfold unauth_out, auth_out; apply len_fs_out_le.
    - exact (dec_unauth_spec CHUNK HCHUNK ks tagc).
    - exact (dec_auth_spec CHUNK TAG HCHUNK ks tagc).
  Qed.
End FsOutLen.

Section Stacks.
  Context {LIM : Limit}.
  Variables FNMAX CACHE T_START T_CONTENT T_EOA T_EOF : N.
  Variable H : bytes -> bytes.
  Notation repair := (repair FNMAX CACHE T_START T_CONTENT T_EOA T_EOF H).

  (* ---------- the fail-safe decryptor over any Seekable source ---------- *)
  Section Enc.
    Variables CHUNK TAG : N.
    Hypothesis HCHUNK : 0 < CHUNK.
    Variable ks : N -> N -> N.
    Variable tagc : N -> bytes -> bytes.
    Notation FsEnc := (FsEnc CHUNK TAG ks tagc).
    Notation fs_open := (fs_open CHUNK TAG ks).
    Notation fs_output := (fs_output CHUNK TAG ks tagc).

    Lemma fsenc_no_ser_skb unauth (Sin : Stream) (w : bytes) (Rin : st Sin -> N -> Prop) i0 fuel e0 b :
      Seekable Sin w Rin -> len w / (CHUNK + TAG) + 2 <= 2 ^ 32 -> Rin i0 0 ->
      fs_open Sin i0 = (e0, Ok b) ->
      fits_limit (len (fs_output unauth w)) ->
      repair (FsEnc unauth Sin) fuel e0 w_init <> Err EDeser.
    Proof.
      intros Hin Hbig Hi0 Ho Hf.
      destruct (fsenc_rd_refines_skb CHUNK TAG HCHUNK ks tagc unauth Sin w Rin Hin Hbig i0 Hi0)
        as (I & HR & e0' & b' & Ho' & HI).
      rewrite Ho in Ho'. injection Ho' as <- _.
      exact (repair_no_ser_rd FNMAX CACHE T_START T_CONTENT T_EOA T_EOF H _ _ I fuel e0 HR HI Hf).
    Qed.

    (* the bound on the OUTER input: the bytes the inner source holds *)
    Lemma fsenc_no_ser_input unauth (Sin : Stream) (w : bytes) (Rin : st Sin -> N -> Prop) i0 fuel e0 b :
      Seekable Sin w Rin -> len w / (CHUNK + TAG) + 2 <= 2 ^ 32 -> Rin i0 0 ->
      fs_open Sin i0 = (e0, Ok b) ->
      fits_limit (len w) ->
      repair (FsEnc unauth Sin) fuel e0 w_init <> Err EDeser.
    Proof.
      intros Hin Hbig Hi0 Ho Hf.
      apply (fsenc_no_ser_skb unauth Sin w Rin i0 fuel e0 b Hin Hbig Hi0 Ho).
      exact (fits_limit_mono _ _ (len_fs_output_le CHUNK TAG ks HCHUNK tagc unauth w) Hf).
    Qed.
  End Enc.

  (* ---------- the fail-safe decompressor ---------- *)
  Section Comp.
    Variables BLOCK FSBUF : N.
    Hypothesis HFSBUF : 0 < FSBUF.
    Hypothesis HBLOCK32 : BLOCK < 2 ^ 32.
    Variable dstate : Type.
    Variable dinit : dstate.
    Variable dstep : dstate -> bytes -> N -> dresult * N * bytes * dstate.
    Variable D : bytes -> bytes.
    Variable fin : bytes -> bool.
    Hypothesis L : DecoderLaws dinit dstep D fin.
    Variable tail : bytes.
    Hypothesis Htail : dead D fin tail.
    Variable bs : list (bytes * bytes).
    Hypothesis Hbs : Forall (good_block BLOCK D fin) bs.
    Variable pfuel : nat.
    Notation FsComp := (FsComp BLOCK FSBUF dstate dinit dstep pfuel).

    (* over any source delivering w (a prefix of the compressed wire) in order: the bound is on
       what the decompressor makes of w *)
    Lemma fscomp_no_ser (Sin : Stream) (w : bytes) (Rin : st Sin -> N -> Prop) i0 fuel :
      SrcRefines Sin w Rin -> prefix w (wire_of tail bs) -> (N.to_nat (2 * len w + 1) < pfuel)%nat ->
      Rin i0 0 ->
      fits_limit (len (fs_spec D bs w)) ->
      repair (FsComp Sin) fuel (FReady i0) w_init <> Err EDeser.
    Proof.
      intros HS Hw Hpf HR Hf.
      pose proof (fscomp_mask_refines BLOCK FSBUF HFSBUF HBLOCK32 dstate dinit dstep D fin L tail Htail
                    Sin w Rin HS bs Hbs Hw pfuel Hpf) as HRM.
      unfold fsc_out in HRM.
      apply (repair_no_ser_mask FNMAX CACHE T_START T_CONTENT T_EOA T_EOF H (FsComp Sin) _ _ fuel (FReady i0) HRM);
        [|exact Hf].
      exact (JM_start BLOCK FSBUF HFSBUF HBLOCK32 dstate dinit dstep D fin tail Sin w Rin bs pfuel Hpf i0 HR).
    Qed.

    (* the decompressor over the decryptor over a Seekable source over the ciphertext c: what
       the decompressor makes of what the decryptor delivers *)
    Lemma fscomp_fsenc_no_ser CHUNK TAG (HCHUNK : 0 < CHUNK) ks tagc unauth
          (Sin : Stream) (c : bytes) (Rin : st Sin -> N -> Prop) i0 fuel e0 b :
      Seekable Sin c Rin -> len c / (CHUNK + TAG) + 2 <= 2 ^ 32 -> Rin i0 0 ->
      fs_open CHUNK TAG ks Sin i0 = (e0, Ok b) ->
      prefix (fs_output CHUNK TAG ks tagc unauth c) (wire_of tail bs) ->
      (N.to_nat (2 * len (fs_output CHUNK TAG ks tagc unauth c) + 1) < pfuel)%nat ->
      fits_limit (len (fs_spec D bs (fs_output CHUNK TAG ks tagc unauth c))) ->
      repair (FsComp (FsEnc CHUNK TAG ks tagc unauth Sin)) fuel
             (@FReady dstate (FsEnc CHUNK TAG ks tagc unauth Sin) e0) w_init <> Err EDeser.
    Proof.
      intros Hin Hbig Hi0 Ho Hw Hpf Hf.
      destruct (fsenc_rd_refines_skb CHUNK TAG HCHUNK ks tagc unauth Sin c Rin Hin Hbig i0 Hi0)
        as (I & HR & e0' & b' & Ho' & HI).
      rewrite Ho in Ho'. injection Ho' as <- _.
      exact (fscomp_no_ser (FsEnc CHUNK TAG ks tagc unauth Sin) _ I (e0 : st (FsEnc CHUNK TAG ks tagc unauth Sin)) fuel
               (rdrefines_src _ _ I HR) Hw Hpf HI Hf).
    Qed.
  End Comp.
End Stacks.
