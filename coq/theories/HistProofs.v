(* HistProofs.v — C10: on an opened archive the result of every operation (listing, hash,
   opening a file and reading it with any buffer sizes, abandoning it midway, linear
   extraction) depends only on the archive, not on what was done before.

   The argument is the one the code relies on: every operation begins with an ABSOLUTE seek
   of the top layer, and an absolute seek of a layer forgets the layer's previous state
   (`SeekForgets`).  Proved for the in-memory cursor and preserved by the encryption layer
   reader; the theorem is about `hist_op`/`hist_ops` of Run.v, i.e. about exactly what the
   correspondence check evaluates against the real reader. *)
From MLA Require Import Limit.
From MLA Require Import Base Stream EncLayer Blocks Reader Inst Run.
From MLAGen Require Src.
From Coq Require Import ZifyBool ZifyNat ZifyN.
Open Scope N_scope.

(* An absolute seek gives the same result from any two states, and when it succeeds, the
   same state. *)
Definition SeekForgets (S : Stream) : Prop :=
  forall s1 s2 p,
    snd (sk S s1 (FromStart p)) = snd (sk S s2 (FromStart p)) /\
    (is_ok (snd (sk S s1 (FromStart p))) = true ->
     fst (sk S s1 (FromStart p)) = fst (sk S s2 (FromStart p))).

Lemma seekforgets_cursor b : SeekForgets (Cursor b).
Proof. intros s1 s2 p. cbn. split; [reflexivity | intros _; reflexivity]. Qed.

Lemma seekforgets_throttled b : forall sched,
  forall p1 p2 p,
    snd (sk (Throttled b) (p1, sched) (FromStart p)) = snd (sk (Throttled b) (p2, sched) (FromStart p)) /\
    fst (sk (Throttled b) (p1, sched) (FromStart p)) = fst (sk (Throttled b) (p2, sched) (FromStart p)).
Proof. intros sched p1 p2 p. cbn. split; reflexivity. Qed.

(* the encryption layer reader preserves it: eseek_start uses the previous state only through
   the inner absolute seek; the cache, cache position and chunk number are overwritten *)
Section EncForgets.
  Context {LIM : Limit}.
  Variables CHUNK TAG : N.
  Variable ks : N -> N -> N.
  Variable tagc : N -> bytes -> bytes.
  Variable S : Stream.
  Hypothesis HS : SeekForgets S.

  Lemma eload_indep i c1 p1 c2 p2 k :
    eload CHUNK TAG ks tagc S (mkE i c1 p1 k) = eload CHUNK TAG ks tagc S (mkE i c2 p2 k).
  Proof. unfold eload. cbn [e_in e_chunk]. reflexivity. Qed.

  Lemma seekforgets_enc : SeekForgets (EncReader CHUNK TAG ks tagc S).
  Proof.
    intros s1 s2 p. cbn [EncReader sk]. unfold eseek. unfold eseek_start.
    destruct (_ <? p / CHUNK); cbn [snd fst is_ok]; [split; [reflexivity | discriminate]|].
    destruct (HS (e_in s1) (e_in s2) (notag2tag CHUNK TAG p / CTS CHUNK TAG * CTS CHUNK TAG)) as [Hr Hst].
    destruct (sk S (e_in s1) _) as [i1 r1] eqn:E1.
    destruct (sk S (e_in s2) _) as [i2 r2] eqn:E2.
    cbn [fst snd] in Hr, Hst. subst r2.
    destruct r1 as [v|e|c]; cbn [snd fst is_ok]; try (split; [reflexivity | discriminate]).
    specialize (Hst eq_refl). subst i2.
    destruct (2 ^ 32 <=? _); cbn [snd fst is_ok]; [split; [reflexivity | discriminate]|].
    rewrite (eload_indep i1 (e_cache s1) (e_cpos s1) (e_cache s2) (e_cpos s2)).
    destruct (eload _ _ _ _ _ _) as [s' [b|e|c]]; cbn [snd fst]; split; try reflexivity; try discriminate.
  Qed.
End EncForgets.

(* ---------- the reader operations ---------- *)
Section Indep.
  Context {LIM : Limit}.
  Variable k : consts.
  Variable S : Stream.
  Hypothesis HS : SeekForgets S.
  Notation TS := Src.BT_FileStart. Notation TC := Src.BT_FileContent.
  Notation TA := Src.BT_EndOfArchiveData. Notation TE := Src.BT_EndOfFile.
  Let FN := cFNMAX k.

  Lemma seek_both s1 s2 p :
    (exists i v, sk S s1 (FromStart p) = (i, Ok v) /\ sk S s2 (FromStart p) = (i, Ok v)) \/
    (exists i1 i2 r, sk S s1 (FromStart p) = (i1, r) /\ sk S s2 (FromStart p) = (i2, r) /\ is_ok r = false).
  Proof.
    destruct (HS s1 s2 p) as [Hr Hst].
    destruct (sk S s1 (FromStart p)) as [i1 r1]. destruct (sk S s2 (FromStart p)) as [i2 r2].
    cbn [fst snd] in Hr, Hst. subst r2.
    destruct r1 as [v|e|c].
    - left. specialize (Hst eq_refl). subst i2. eauto.
    - right. exists i1, i2, (Err e). auto.
    - right. exists i1, i2, (Crash c). auto.
  Qed.

  (* the meta data is never changed by an operation *)
  Lemma get_hash_meta r name : r_meta (fst (get_hash FN TS TC TA TE S r name)) = r_meta r.
  Proof.
    unfold get_hash. destruct (flookup _ _); [|reflexivity].
    destruct (sk S _ _) as [s1 [v|e|c]]; try reflexivity.
    destruct (parse_block _ _ _ _ _ _ _) as [s2 [[]|e|c]]; reflexivity.
  Qed.

  Lemma get_hash_indep s1 s2 m name :
    snd (get_hash FN TS TC TA TE S (mkR s1 m) name) = snd (get_hash FN TS TC TA TE S (mkR s2 m) name).
  Proof.
    unfold get_hash. cbn [r_meta r_src]. destruct (flookup m name) as [fi|]; [|reflexivity].
    destruct (seek_both s1 s2 (fi_eof fi)) as [(i & v & E1 & E2) | (i1 & i2 & r & E1 & E2 & Hn)]; rewrite E1, E2.
    - destruct (parse_block _ _ _ _ _ _ _) as [s3 [[]|e|c]]; reflexivity.
    - destruct r; [discriminate | reflexivity | reflexivity].
  Qed.

  Lemma get_file_meta r name : r_meta (fst (get_file FN TS TC TA TE S r name)) = r_meta r.
  Proof.
    unfold get_file. destruct (flookup _ _) as [fi|]; [|reflexivity].
    destruct (fi_offsets fi); [reflexivity|].
    destruct (sk S _ _) as [s1 [v|e|c]]; try reflexivity.
    destruct (parse_block _ _ _ _ _ _ _) as [s2 [[]|e|c]]; reflexivity.
  Qed.

  Lemma get_file_indep s1 s2 m name :
    snd (get_file FN TS TC TA TE S (mkR s1 m) name) = snd (get_file FN TS TC TA TE S (mkR s2 m) name).
  Proof.
    unfold get_file. cbn [r_meta r_src]. destruct (flookup m name) as [fi|]; [|reflexivity].
    destruct (fi_offsets fi) as [|o0 offs]; [reflexivity|].
    destruct (seek_both s1 s2 o0) as [(i & v & E1 & E2) | (i1 & i2 & r & E1 & E2 & Hn)]; rewrite E1, E2.
    - destruct (parse_block _ _ _ _ _ _ _) as [s3 [[]|e|c]]; reflexivity.
    - destruct r; [discriminate | reflexivity | reflexivity].
  Qed.

  Lemma linear_extract_indep fuel s1 s2 m export :
    linear_extract FN TS TC TA TE S fuel (mkR s1 m) export = linear_extract FN TS TC TA TE S fuel (mkR s2 m) export.
  Proof.
    unfold linear_extract. cbn [r_src].
    destruct (seek_both s1 s2 0) as [(i & v & E1 & E2) | (i1 & i2 & r & E1 & E2 & Hn)]; rewrite E1, E2.
    - reflexivity.
    - destruct r; [discriminate | reflexivity | reflexivity].
  Qed.

  (* one operation of a history: same rows from any two reader states with the same meta
     data, and the meta data is preserved *)
  Lemma hist_op_indep fuel names s1 s2 m op :
    snd (hist_op k S fuel names (mkR s1 m) op) = snd (hist_op k S fuel names (mkR s2 m) op) /\
    r_meta (fst (hist_op k S fuel names (mkR s1 m) op)) = m /\
    r_meta (fst (hist_op k S fuel names (mkR s2 m) op)) = m.
  Proof.
    unfold hist_op.
    destruct op as [|c rest]; [repeat split; reflexivity|].
    destruct c as [|c].
    { (* 0: list *) destruct rest; repeat split; reflexivity. }
    destruct c as [c|c|].
    - (* 2c+1 : 3 = read to the end *)
      destruct c as [c|c|].
      + destruct rest; repeat split; reflexivity.
      + destruct rest; repeat split; reflexivity.
      + (* 3 *)
        destruct rest as [|i [|n [|? ?]]]; try (repeat split; reflexivity).
        pose proof (get_file_indep s1 s2 m (nth (N.to_nat i) names [])) as Hi.
        pose proof (get_file_meta (mkR s1 m) (nth (N.to_nat i) names [])) as M1.
        pose proof (get_file_meta (mkR s2 m) (nth (N.to_nat i) names [])) as M2.
        cbn [r_meta] in M1, M2.
        destruct (get_file _ _ _ _ _ _ (mkR s1 m) _) as [ra xa].
        destruct (get_file _ _ _ _ _ _ (mkR s2 m) _) as [rb xb].
        cbn [fst snd] in *. subst xb.
        destruct xa as [[[b size]|]|e|c]; cbn [fst snd]; try (repeat split; first [reflexivity | assumption]).
        destruct (do_reads _ _ _ _ _ _ _) as [b1 rows]. cbn [fst snd r_meta].
        rewrite M1, M2. repeat split; reflexivity.
    - (* 2c : 2 = partial reads, 4 = linear extraction *)
      destruct c as [c|c|].
      + destruct rest; repeat split; reflexivity.
      + (* 4 *)
        destruct c as [c|c|]; try (destruct rest; repeat split; reflexivity).
        rewrite (linear_extract_indep fuel s1 s2 m).
        destruct (linear_extract _ _ _ _ _ _ _ _ _); repeat split; reflexivity.
      + (* 2 *)
        destruct rest as [|i sizes]; [repeat split; reflexivity|].
        pose proof (get_file_indep s1 s2 m (nth (N.to_nat i) names [])) as Hi.
        pose proof (get_file_meta (mkR s1 m) (nth (N.to_nat i) names [])) as M1.
        pose proof (get_file_meta (mkR s2 m) (nth (N.to_nat i) names [])) as M2.
        cbn [r_meta] in M1, M2.
        destruct (get_file _ _ _ _ _ _ (mkR s1 m) _) as [ra xa].
        destruct (get_file _ _ _ _ _ _ (mkR s2 m) _) as [rb xb].
        cbn [fst snd] in *. subst xb.
        destruct xa as [[[b size]|]|e|c]; cbn [fst snd]; try (repeat split; first [reflexivity | assumption]).
        destruct (do_reads _ _ _ _ _ _ _) as [b1 rows]. cbn [fst snd r_meta].
        rewrite M1, M2. repeat split; reflexivity.
    - (* 1: hash *)
      destruct rest as [|i [|? ?]]; try (repeat split; reflexivity).
      pose proof (get_hash_indep s1 s2 m (nth (N.to_nat i) names [])) as Hi.
      pose proof (get_hash_meta (mkR s1 m) (nth (N.to_nat i) names [])) as M1.
      pose proof (get_hash_meta (mkR s2 m) (nth (N.to_nat i) names [])) as M2.
      cbn [r_meta] in M1, M2.
      destruct (get_hash _ _ _ _ _ _ (mkR s1 m) _) as [ra xa].
      destruct (get_hash _ _ _ _ _ _ (mkR s2 m) _) as [rb xb].
      cbn [fst snd] in *. subst xb.
      destruct xa as [[h|]|e|c]; cbn [fst snd]; repeat split; first [reflexivity | assumption].
  Qed.

  (* rows of the operations of a history, one group per operation *)
  Fixpoint hist_groups (fuel : nat) (names : list bytes) (r : rstate S) (ops : list (list N)) : list (list (list N)) :=
    match ops with
    | [] => []
    | op :: rest => let '(r1, rows) := hist_op k S fuel names r op in rows :: hist_groups fuel names r1 rest
    end.

  Lemma hist_ops_groups fuel names r ops :
    hist_ops k S fuel names r ops = concat (map (fun g => g ++ [[88]]) (hist_groups fuel names r ops)).
  Proof.
    revert r; induction ops as [|op rest IH]; intros r; cbn [hist_ops hist_groups map concat]; [reflexivity|].
    destruct (hist_op k S fuel names r op) as [r1 rows]. cbn [map concat]. rewrite IH, <- app_assoc. reflexivity.
  Qed.

  (* THE theorem: in any history, the rows of every operation are the rows the same
     operation produces on the freshly opened reader (whatever was listed, opened, read,
     abandoned or extracted before) *)
  Theorem history_independent fuel names r0 ops :
    hist_groups fuel names r0 ops = map (fun op => snd (hist_op k S fuel names r0 op)) ops.
  Proof.
    destruct r0 as [s0 m].
    assert (G : forall s, hist_groups fuel names (mkR s m) ops =
                          map (fun op => snd (hist_op k S fuel names (mkR s0 m) op)) ops).
    { induction ops as [|op rest IH]; intros s; cbn [hist_groups map]; [reflexivity|].
      destruct (hist_op_indep fuel names s s0 m op) as (Hrows & Hm1 & _).
      destruct (hist_op k S fuel names (mkR s m) op) as [[s1 m1] rows] eqn:E.
      cbn [fst snd r_meta] in Hrows, Hm1. subst m1. rewrite Hrows. f_equal. apply IH. }
    apply G.
  Qed.
End Indep.
