(* RunC16Pool.v — Tie B entry point of the work package `extract` (job c16-pool): the whole-archive
   form of `mlar extract` THROUGH THE WRITER POOL at the capacity of the source (POOL_CAP = 1000),
   blocks cut as io::copy cuts them, on the names and blocks of the archive the real binary
   extracted.  names = the members (any order: the code sorts them), order / pieces = the
   FileContent blocks in archive order (member index, data).
   Rows: [status]; then `path 256 content` per regular file under the output directory, sorted. *)
From MLA Require Import Limit.
From MLAGen Require Src.
(* executable entry points: the production value of BINCODE_MAX_DESERIALIZE (the same in both flavours), file-local *)
#[local] Instance RUN_LIMIT : Limit := MLAGen.Src.BINCODE_MAX_DESERIALIZE_prod.
From MLA Require Import Base Stream Inst Path Cli Pool Run.
Open Scope N_scope.

Definition c16_pool_blocks (names : list bytes) (order : list N) (pieces : list bytes) : list (bytes * bytes) :=
  map (fun ip => (nth (N.to_nat (fst ip)) names [], snd ip)) (combine order pieces).

Definition c16_pool_run_with (m : reopen) (cap : nat) (names : list bytes) (order : list N) (pieces : list bytes)
  : list (list N) :=
  let '(f, ok) := extract_linear_pool m cap copy_cut c16_out (sort_names names)
                    (c16_pool_blocks names order pieces) c16_fs0 in
  [if ok then 1 else 0] :: map (fun e => fst e ++ 256 :: snd e) (fold_right ins_row [] (files_under f)).

Definition c16_pool_run (_ : consts) (names : list bytes) (order : list N) (pieces : list bytes) : list (list N) :=
  c16_pool_run_with RAppend POOL_CAP names order pieces.
