(* SrcTie2Events.v — Tie A, state machines: ordered event lists of the function bodies
   (gen/Src2.v, the EV_ definitions) against (a) ORDER / SHAPE FACTS the model relies on and (b) the frozen list
   the model was written against (the `..._shape` lemmas: any edit of the body, comments and layout apart, breaks it;
   regenerate with tools/mk_srctie2_events.py after carrying the change through the model).
   Model counterparts: Reader.bread/bmove/read_footer/linear_extract, EncLayer.eload/eload_unauth/
   eread_gen/eseek/fs_read, CompLayer.cread/cseek/cw_write/cw_finalize, CompFailSafe.fs_pass. *)
From MLA Require Import Base.
From MLAGen Require Src2.
From Coq Require Import String List.
Import ListNotations.
Open Scope string_scope.

Definition has (sub s : string) : bool := match index 0 sub s with Some _ => true | None => false end.
Fixpoint pos_of (sub : string) (l : list string) (i : nat) : option nat :=
  match l with [] => None | x :: r => if has sub x then Some i else pos_of sub r (S i) end.
(* the first event containing `a` comes before the first event containing `b` *)
Definition before (a b : string) (l : list string) : bool :=
  match pos_of a l 0, pos_of b l 0 with Some i, Some j => Nat.ltb i j | _, _ => false end.
Definition count (sub : string) (l : list string) : nat := length (filter (has sub) l).
Definition absent (sub : string) (l : list string) : bool := Nat.eqb (count sub l) 0.

(* ---------- facts ---------- *)
(* D3 repair: the cache is emptied before the read, and refilled only inside the tags-equal branch *)
Lemma load_in_cache_order :
  before "self.chunk_cache = Cursor::new(Vec::new());" "read_to_end(" Src2.EV_load_in_cache = true /\
  before "if expected_tag.ct_eq(&tag).unwrap_u8() == 1 {" "self.chunk_cache = Cursor::new(data);" Src2.EV_load_in_cache = true /\
  before "self.chunk_cache = Cursor::new(data);" "} else {" Src2.EV_load_in_cache = true /\
  count "self.chunk_cache =" Src2.EV_load_in_cache = 2%nat.
Proof. vm_compute. repeat split. Qed.
(* the unauthenticated load consumes exactly TAG_LENGTH bytes after the data, through io::copy(take) *)
Lemma load_unauth_order :
  before "take(CHUNK_SIZE).read_to_end(&mut data)?" "io::copy(&mut (&mut self.inner).take(TAG_LENGTH as u64), &mut io::sink())?;" Src2.EV_load_in_cache_unauthenticated = true /\
  before "io::copy(&mut (&mut self.inner).take(TAG_LENGTH as u64)" "self.chunk_cache = Cursor::new(data);" Src2.EV_load_in_cache_unauthenticated = true.
Proof. vm_compute. repeat split. Qed.
(* the chunk number advances before the load and is never taken back *)
Lemma read_internal_order :
  before "self.current_chunk_number += 1;" "self.load_in_cache()?" Src2.EV_read_internal = true /\
  absent "self.current_chunk_number -=" Src2.EV_read_internal = true /\
  before "self.current_chunk_number += 1;" "self.load_in_cache_unauthenticated()?" Src2.EV_read_internal_unauthenticated = true /\
  absent "self.current_chunk_number -=" Src2.EV_read_internal_unauthenticated = true.
Proof. vm_compute. repeat split. Qed.
(* fail-safe mode switch: a wrong tag ends the stream only in the authenticated mode *)
Lemma enc_fs_read_arms :
  before "FailSafeReaderDecryptionMode::OnlyAuthenticatedData =>" "Err(Error::AuthenticatedDecryptionWrongTag) =>" Src2.EV_enc_fs_read = true /\
  before "Err(Error::AuthenticatedDecryptionWrongTag) =>" "FailSafeReaderDecryptionMode::DataEvenUnauthenticated =>" Src2.EV_enc_fs_read = true /\
  before "FailSafeReaderDecryptionMode::DataEvenUnauthenticated =>" "read_internal_unauthenticated(buf)" Src2.EV_enc_fs_read = true /\
  count "read_internal_unauthenticated" Src2.EV_enc_fs_read = 1%nat.
Proof. vm_compute. repeat split. Qed.
(* every seek to a position reloads (and re-authenticates) the chunk: no early return before load_in_cache *)
Lemma enc_seek_always_loads :
  before "SeekFrom::Start(pos) =>" "self.load_in_cache()?;" Src2.EV_enc_seek = true /\
  before "self.load_in_cache()?;" "SeekFrom::Current(value) =>" Src2.EV_enc_seek = true /\
  count "return" (firstn 12 Src2.EV_enc_seek) = 1%nat.
Proof. vm_compute. repeat split. Qed.
(* D14 repair: a loop, no recursion; D-ZLB: empty content blocks are skipped *)
Lemma bfr_read_shape_facts :
  hd "" Src2.EV_bfr_read = "=> loop {" /\ absent "self.read(" Src2.EV_bfr_read = true /\
  absent "move_to_next_block" Src2.EV_move_to_next_block = true /\
  count "self.move_to_next_block()?;" Src2.EV_bfr_read = 3%nat /\
  before "if length == 0 {" "take(length).read(into)?" Src2.EV_bfr_read = true.
Proof. vm_compute. repeat split. Qed.
Lemma move_to_next_block_order :
  before "self.current_offset += 1;" "if self.current_offset >= self.offsets.len() {" Src2.EV_move_to_next_block = true /\
  before "if self.current_offset >= self.offsets.len() {" "self.offsets[self.current_offset]" Src2.EV_move_to_next_block = true.
Proof. vm_compute. repeat split. Qed.
(* D12a / D15 repairs: the length is compared (checked_sub) when seeking, the limit is the footer length *)
Lemma footer_order :
  before "let len = u64::from(src.read_u32::<LittleEndian>()?);" "pos.checked_sub(len).ok_or(Error::DeserializationError)?" Src2.EV_footer_deserialize_from = true /\
  before "with_limit(len.min(BINCODE_MAX_DESERIALIZE))" "Ok(finfo) =>" Src2.EV_footer_deserialize_from = true /\
  count "deserialize_from(&mut src.take(len))" Src2.EV_footer_deserialize_from = 1%nat /\
  absent "pos - len" Src2.EV_footer_deserialize_from = true.
Proof. vm_compute. repeat split. Qed.
(* linear_extract: rewind first; the end-of-data marker is the only way out of the loop *)
Lemma linear_extract_facts :
  hd "" Src2.EV_linear_extract = "archive.src.rewind()?;" /\
  count "break" Src2.EV_linear_extract = 1%nat /\ count "return" Src2.EV_linear_extract = 0%nat /\
  before "ArchiveFileBlock::EndOfArchiveData =>" "break 'read_block;" Src2.EV_linear_extract = true /\
  before "if export.contains_key(&filename) {" "id2filename.insert(id, filename.clone());" Src2.EV_linear_extract = true /\
  before "ArchiveFileBlock::EndOfFile{id,..} =>" "id2filename.remove(&id);" Src2.EV_linear_extract = true /\
  before "io::copy(copy_src, writer)?;" "io::copy(copy_src, &mut io::sink())?;" Src2.EV_linear_extract = true /\
  last Src2.EV_linear_extract "" = "=> Ok(())".
Proof. vm_compute. repeat split. Qed.
(* D11 / D13 repairs: the Empty state is refused before anything else in SeekFrom::Start *)
Lemma comp_seek_empty_guard :
  before "SeekFrom::Start(pos) =>" "if matches!(self.state,CompressionLayerReaderState::Empty) {" Src2.EV_comp_seek = true /\
  before "if matches!(self.state,CompressionLayerReaderState::Empty) {" "std::mem::replace(&mut self.state, CompressionLayerReaderState::Empty)" Src2.EV_comp_seek = true.
Proof. vm_compute. repeat split. Qed.
(* the writer of an encrypted chunk's tag uses write_all *)
Lemma enc_write_tag_write_all :
  count "self.inner.write_all(&tag)?;" Src2.EV_enc_write = 1%nat /\ absent "self.inner.write(" Src2.EV_enc_write = true /\
  count "self.inner.write_all(&tag)?;" Src2.EV_enc_finalize = 1%nat.
Proof. vm_compute. repeat split. Qed.
(* the two fail-safe mode setters set different modes *)
Lemma failsafe_mode_setters :
  has "FailSafeReaderDecryptionMode::OnlyAuthenticatedData" (nth 1 Src2.EV_failsafe_only_authenticated "") = true /\
  has "FailSafeReaderDecryptionMode::DataEvenUnauthenticated" (nth 1 Src2.EV_failsafe_even_unauthenticated "") = true.
Proof. vm_compute. repeat split. Qed.
(* add_public_keys extends the recipient list; load_persistent tries every private key *)
Lemma recipients_facts :
  count "self.encrypt.ecc_keys.extend_from_slice(keys);" Src2.EV_add_public_keys = 1%nat /\
  before "self.encrypt_parameters = Some((key, config.nonce));" "break;" Src2.EV_enc_load_persistent = true /\
  count "break" Src2.EV_enc_load_persistent = 1%nat.
Proof. vm_compute. repeat split. Qed.
(* add_file = start, append, end *)
Lemma add_file_shape : Src2.EV_add_file =
  ["let id = self.start_file(filename)?;"; "self.append_file_content(id, size, src)?;"; "=> self.end_file(id)"].
Proof. reflexivity. Qed.

(* ---------- frozen shapes ---------- *)

Lemma EV_bfr_read_shape : Src2.EV_bfr_read = [
  "=> loop {";
  "let (remaining,count) = match self.state {";
  "BlocksToFileReaderState::Ready =>";
  "=> match ArchiveFileBlock::from(&mut self.src)? {";
  "ArchiveFileBlock::FileContent{length,id,..} =>";
  "if id != self.id {";
  "self.move_to_next_block()?;";
  "continue;";
  "}";
  "if length == 0 {";
  "continue;";
  "}";
  "let count = self.src.by_ref().take(length).read(into)?;";
  "let length_usize = usize::try_from(length).map_err(|_| { std::io::Error::new(std::io::ErrorKind::InvalidData, ""Length conversion failed"") })?;";
  "=> (length_usize - count, count)";
  "ArchiveFileBlock::EndOfFile{id,..} =>";
  "if id != self.id {";
  "self.move_to_next_block()?;";
  "continue;";
  "}";
  "self.state = BlocksToFileReaderState::Finish;";
  "return Ok(0);";
  "ArchiveFileBlock::FileStart{id,..} =>";
  "if id != self.id {";
  "self.move_to_next_block()?;";
  "continue;";
  "}";
  "return Err(Error::WrongReaderState(""[BlocksToFileReader] Start with a wrong block type"".to_string()).into());";
  "ArchiveFileBlock::EndOfArchiveData =>";
  "return Err(Error::WrongReaderState(""[BlocksToFileReader] Try to read the end of the archive"".to_string()).into());";
  "}";
  "BlocksToFileReaderState::InFile(remaining) =>";
  "let count = self.src.by_ref().take(remaining as u64).read(into)?;";
  "=> (remaining - count, count)";
  "BlocksToFileReaderState::Finish =>";
  "return Ok(0);";
  "}";
  ";";
  "if remaining > 0 {";
  "self.state = BlocksToFileReaderState::InFile(remaining);";
  "} else {";
  "self.state = BlocksToFileReaderState::Ready;";
  "}";
  "return Ok(count);";
  "}"].
Proof. reflexivity. Qed.

Lemma EV_move_to_next_block_shape : Src2.EV_move_to_next_block = [
  "self.current_offset += 1;";
  "if self.current_offset >= self.offsets.len() {";
  "return Err(Error::WrongReaderState(""[BlocksToFileReader] No more continuous blocks"".to_string()));";
  "}";
  "self.src.seek(SeekFrom::Start(self.offsets[self.current_offset]))?;";
  "=> Ok(())"].
Proof. reflexivity. Qed.

Lemma EV_footer_deserialize_from_shape : Src2.EV_footer_deserialize_from = [
  "let pos = src.seek(SeekFrom::End(-4))?;";
  "let len = u64::from(src.read_u32::<LittleEndian>()?);";
  "src.seek(SeekFrom::Start(pos.checked_sub(len).ok_or(Error::DeserializationError)?))?;";
  "let files_info = match bincode::options().with_limit(len.min(BINCODE_MAX_DESERIALIZE)).with_fixint_encoding().deserialize_from(&mut src.take(len)) {";
  "Ok(finfo) =>";
  "=> finfo";
  "_ =>";
  "return Err(Error::DeserializationError);";
  "}";
  ";";
  "=> Ok(Self { files_info: files_info })"].
Proof. reflexivity. Qed.

Lemma EV_linear_extract_shape : Src2.EV_linear_extract = [
  "archive.src.rewind()?;";
  "let mut src = io::BufReader::new(&mut archive.src);";
  "let mut id2filename: HashMap<ArchiveFileID,String> = HashMap::new();";
  "'read_block: loop {";
  "=> match ArchiveFileBlock::from(&mut src)? {";
  "ArchiveFileBlock::FileStart{filename,id} =>";
  "=> if export.contains_key(&filename) {";
  "id2filename.insert(id, filename.clone());";
  "}";
  "ArchiveFileBlock::EndOfFile{id,..} =>";
  "id2filename.remove(&id);";
  "ArchiveFileBlock::FileContent{length,id,..} =>";
  "let copy_src = &mut (&mut src).take(length);";
  "let mut extracted: bool = false;";
  "if let Some(fname) = id2filename.get(&id) {";
  "=> if let Some(writer) = export.get_mut(fname) {";
  "io::copy(copy_src, writer)?;";
  "extracted = true;";
  "}";
  "}";
  "=> if !extracted {";
  "io::copy(copy_src, &mut io::sink())?;";
  "}";
  "ArchiveFileBlock::EndOfArchiveData =>";
  "break 'read_block;";
  "}";
  "}";
  "=> Ok(())"].
Proof. reflexivity. Qed.

Lemma EV_load_in_cache_shape : Src2.EV_load_in_cache = [
  "self.cipher = AesGcm256::new(&self.key, &build_nonce(self.nonce, self.current_chunk_number), b"""")?;";
  "self.chunk_cache = Cursor::new(Vec::new());";
  "let mut data_and_tag = Vec::with_capacity(usize::try_from(CHUNK_SIZE).map_err(|_| { io::Error::new(io::ErrorKind::InvalidInput, ""Integer conversion failed"") })? + TAG_LENGTH);";
  "let data_and_tag_read = (&mut self.inner).take(CHUNK_SIZE + TAG_LENGTH as u64).read_to_end(&mut data_and_tag)?;";
  "if data_and_tag_read == 0 {";
  "return Ok(None);";
  "}";
  "if data_and_tag_read < TAG_LENGTH {";
  "return Err(Error::AuthenticatedDecryptionWrongTag);";
  "}";
  "let mut tag = [0; TAG_LENGTH];";
  "tag.copy_from_slice(&data_and_tag[data_and_tag_read - TAG_LENGTH..]);";
  "data_and_tag.resize(data_and_tag_read - TAG_LENGTH, 0);";
  "let mut data = data_and_tag;";
  "let expected_tag = self.cipher.decrypt(data.as_mut_slice());";
  "=> if expected_tag.ct_eq(&tag).unwrap_u8() == 1 {";
  "self.chunk_cache = Cursor::new(data);";
  "=> Ok(Some(()))";
  "} else {";
  "=> Err(Error::AuthenticatedDecryptionWrongTag)";
  "}"].
Proof. reflexivity. Qed.

Lemma EV_load_in_cache_unauthenticated_shape : Src2.EV_load_in_cache_unauthenticated = [
  "self.cipher = AesGcm256::new(&self.key, &build_nonce(self.nonce, self.current_chunk_number), b"""")?;";
  "self.chunk_cache = Cursor::new(Vec::new());";
  "let mut data = Vec::with_capacity(usize::try_from(CHUNK_SIZE).map_err(|_| { io::Error::new(io::ErrorKind::InvalidInput, ""Integer conversion failed"") })?);";
  "let data_read = (&mut self.inner).take(CHUNK_SIZE).read_to_end(&mut data)?;";
  "if data_read == 0 {";
  "return Ok(None);";
  "}";
  "io::copy(&mut (&mut self.inner).take(TAG_LENGTH as u64), &mut io::sink())?;";
  "self.cipher.decrypt_unauthenticated(data.as_mut_slice());";
  "self.chunk_cache = Cursor::new(data);";
  "=> Ok(Some(()))"].
Proof. reflexivity. Qed.

Lemma EV_read_internal_shape : Src2.EV_read_internal = [
  "let cache_to_consume = CHUNK_SIZE - self.chunk_cache.position();";
  "if cache_to_consume == 0 {";
  "self.current_chunk_number += 1;";
  "if self.load_in_cache()?.is_none() {";
  "return Ok(0);";
  "}";
  "return self.read_internal(buf);";
  "}";
  "let size = std::cmp::min(usize::try_from(cache_to_consume).map_err(|_| { io::Error::new(io::ErrorKind::InvalidInput, ""Integer conversion failed"") })?, buf.len());";
  "=> self.chunk_cache.read(&mut buf[..size]).map_err(std::convert::Into::into)"].
Proof. reflexivity. Qed.

Lemma EV_read_internal_unauthenticated_shape : Src2.EV_read_internal_unauthenticated = [
  "let cache_to_consume = CHUNK_SIZE - self.chunk_cache.position();";
  "if cache_to_consume == 0 {";
  "self.current_chunk_number += 1;";
  "if self.load_in_cache_unauthenticated()?.is_none() {";
  "return Ok(0);";
  "}";
  "return self.read_internal_unauthenticated(buf);";
  "}";
  "let size = std::cmp::min(usize::try_from(cache_to_consume).map_err(|_| { io::Error::new(io::ErrorKind::InvalidInput, ""Integer conversion failed"") })?, buf.len());";
  "=> self.chunk_cache.read(&mut buf[..size]).map_err(std::convert::Into::into)"].
Proof. reflexivity. Qed.

Lemma EV_enc_seek_shape : Src2.EV_enc_seek = [
  "=> match pos {";
  "SeekFrom::Start(pos) =>";
  "if pos / CHUNK_SIZE > u64::MAX / CHUNK_TAG_SIZE - 1 {";
  "return Err(io::Error::new(io::ErrorKind::InvalidInput, ""Position out of range""));";
  "}";
  "let tag_position = no_tag_position_to_tag_position(pos);";
  "let chunk_number = tag_position / CHUNK_TAG_SIZE;";
  "let pos_chunk_start = chunk_number * CHUNK_TAG_SIZE;";
  "let pos_in_chunk = tag_position % CHUNK_TAG_SIZE;";
  "self.inner.seek(SeekFrom::Start(pos_chunk_start))?;";
  "self.current_chunk_number = u32::try_from(chunk_number).map_err(|_| { io::Error::new(io::ErrorKind::InvalidInput, ""Chunk number out of range"") })?;";
  "self.load_in_cache()?;";
  "self.chunk_cache.seek(SeekFrom::Start(pos_in_chunk))?;";
  "=> Ok(pos)";
  "SeekFrom::Current(value) =>";
  "let current = u64::from(self.current_chunk_number) * CHUNK_SIZE + self.chunk_cache.position();";
  "=> if value == 0 {";
  "=> Ok(current)";
  "} else {";
  "=> self.seek(SeekFrom::Start(u64::try_from(i64::try_from(current).unwrap() + value).map_err(|_| { io::Error::new(io::ErrorKind::InvalidInput, ""Seek overflow"") })?))";
  "}";
  "SeekFrom::End(pos) =>";
  "if pos > 0 {";
  "return Err(Error::EndOfStream.into());";
  "}";
  "let end_inner_pos = self.inner.seek(SeekFrom::End(0))?;";
  "let cur_chunk = end_inner_pos / CHUNK_TAG_SIZE;";
  "let cur_chunk_pos = end_inner_pos % CHUNK_TAG_SIZE;";
  "let end_pos = if cur_chunk_pos == 0 {";
  "=> cur_chunk * CHUNK_SIZE";
  "} else {";
  "=> cur_chunk * CHUNK_SIZE + cur_chunk_pos.checked_sub(TAG_LENGTH as u64).ok_or_else(|| { io::Error::new(io::ErrorKind::InvalidData, ""Truncated tag"") })?";
  "}";
  ";";
  "let pos_adjusted = i64::try_from(end_pos).map_err(|_| { io::Error::new(io::ErrorKind::InvalidInput, ""Integer conversion failed"") })?.checked_add(pos).ok_or_else(|| { io::Error::new(io::ErrorKind::InvalidInput, ""Addition overflow"") })?;";
  "=> self.seek(SeekFrom::Start(u64::try_from(pos_adjusted).map_err(|_| io::Error::new(io::ErrorKind::InvalidInput, ""Integer conversion failed""))?))";
  "}"].
Proof. reflexivity. Qed.

Lemma EV_enc_fs_read_shape : Src2.EV_enc_fs_read = [
  "=> match self.decryption_mode {";
  "FailSafeReaderDecryptionMode::OnlyAuthenticatedData =>";
  "=> match self.internal.read_internal(buf) {";
  "Ok(size) =>";
  "=> Ok(size)";
  "Err(Error::AuthenticatedDecryptionWrongTag) =>";
  "=> Ok(0)";
  "Err(e) =>";
  "=> Err(e.into())";
  "}";
  "FailSafeReaderDecryptionMode::DataEvenUnauthenticated =>";
  "=> Ok(self.internal.read_internal_unauthenticated(buf)?)";
  "}"].
Proof. reflexivity. Qed.

Lemma EV_enc_write_shape : Src2.EV_enc_write = [
  "if self.current_chunk_offset > CHUNK_SIZE {";
  "return Err(Error::WrongWriterState(""[EncryptWriter] Chunk too big"".to_string()).into());";
  "} else if self.current_chunk_offset == CHUNK_SIZE {";
  "let tag = self.renew_cipher()?;";
  "self.inner.write_all(&tag)?;";
  "}";
  "let size = std::cmp::min(std::cmp::min(CIPHER_BUF_SIZE, buf.len() as u64), CHUNK_SIZE - self.current_chunk_offset);";
  "let mut buf_tmp = Vec::with_capacity(usize::try_from(size).map_err(|_| { io::Error::new(io::ErrorKind::InvalidInput, ""Integer conversion failed"") })?);";
  "let buf_src = BufReader::new(buf);";
  "io::copy(&mut buf_src.take(size), &mut buf_tmp)?;";
  "self.cipher.encrypt(&mut buf_tmp);";
  "self.inner.write_all(&buf_tmp)?;";
  "self.current_chunk_offset += size;";
  "=> usize::try_from(size).map_err(|_| io::Error::new(io::ErrorKind::InvalidInput, ""Integer conversion failed""))"].
Proof. reflexivity. Qed.

Lemma EV_enc_finalize_shape : Src2.EV_enc_finalize = [
  "let tag = self.renew_cipher()?;";
  "self.inner.write_all(&tag)?;";
  "=> self.inner.finalize()"].
Proof. reflexivity. Qed.

Lemma EV_comp_read_shape : Src2.EV_comp_read = [
  "if !self.pos_in_stream(self.underlayer_pos) {";
  "return Ok(0);";
  "}";
  "let old_state = std::mem::replace(&mut self.state, CompressionLayerReaderState::Empty);";
  "=> match old_state {";
  "CompressionLayerReaderState::Ready(mut inner) =>";
  "self.sync_inner_with_uncompressed_pos(&mut inner, self.underlayer_pos)?;";
  "let decompressor = Box::new(self.new_decompressor_at(inner, self.underlayer_pos)?);";
  "let uncompressed_size = self.uncompressed_block_size_at(self.underlayer_pos)?;";
  "self.state = CompressionLayerReaderState::InData { read: 0, uncompressed_size: uncompressed_size, decompressor: decompressor };";
  "=> self.read(buf)";
  "CompressionLayerReaderState::InData{read,uncompressed_size,mut decompressor,} =>";
  "if read > uncompressed_size {";
  "return Err(Error::WrongReaderState(""[Compression Layer] Too much data read"".to_string()).into());";
  "}";
  "if read == uncompressed_size {";
  "self.state = CompressionLayerReaderState::Ready(decompressor.into_inner().into_inner());";
  "return self.read(buf);";
  "}";
  "let size = std::cmp::min((uncompressed_size - read) as usize, buf.len());";
  "let read_add = decompressor.read(&mut buf[..size])?;";
  "self.underlayer_pos += read_add as u64;";
  "self.state = CompressionLayerReaderState::InData { read: read + u32::try_from(read_add).map_err(|_| { io::Error::new(io::ErrorKind::InvalidData, ""Integer conversion failed"") })?, uncompressed_size: uncompressed_size, decompressor: decompressor };";
  "=> Ok(read_add)";
  "CompressionLayerReaderState::Empty =>";
  "=> Err(Error::WrongReaderState(""[Compression Layer] Should never happens, unless an error already occurs before"".to_string()).into())";
  "}"].
Proof. reflexivity. Qed.

Lemma EV_comp_seek_shape : Src2.EV_comp_seek = [
  "=> match &self.sizes_info {";
  "Some(sizes_info) =>";
  "=> match pos {";
  "SeekFrom::Start(pos) =>";
  "if matches!(self.state,CompressionLayerReaderState::Empty) {";
  "return Err(Error::WrongReaderState(""[Compression Layer] Seek after a failed operation"".to_string()).into());";
  "}";
  "let inside_block = pos % u64::from(UNCOMPRESSED_DATA_SIZE);";
  "let rounded_pos = pos - inside_block;";
  "if !self.pos_in_stream(rounded_pos) {";
  "if pos != sizes_info.max_uncompressed_pos() {";
  "return Err(Error::EndOfStream.into());";
  "}";
  "let old_state = std::mem::replace(&mut self.state, CompressionLayerReaderState::Empty);";
  "self.state = CompressionLayerReaderState::Ready(old_state.into_inner());";
  "self.underlayer_pos = pos;";
  "return Ok(pos);";
  "}";
  "let old_state = std::mem::replace(&mut self.state, CompressionLayerReaderState::Empty);";
  "let mut inner = old_state.into_inner();";
  "self.sync_inner_with_uncompressed_pos(&mut inner, rounded_pos)?;";
  "let mut decompressor = self.new_decompressor_at(inner, rounded_pos)?;";
  "let uncompressed_size = self.uncompressed_block_size_at(rounded_pos)?;";
  "io::copy(&mut (&mut decompressor).take(inside_block), &mut io::sink())?;";
  "self.state = CompressionLayerReaderState::InData { read: u32::try_from(inside_block).map_err(|_| { io::Error::new(io::ErrorKind::InvalidData, ""Integer conversion failed"") })?, uncompressed_size: uncompressed_size, decompressor: Box::new(decompressor) };";
  "self.underlayer_pos = pos;";
  "=> Ok(pos)";
  "SeekFrom::Current(pos) =>";
  "=> if pos == 0 {";
  "=> Ok(self.underlayer_pos)";
  "} else if let Ok(pos_i64) = i64::try_from(self.underlayer_pos) {";
  "let new_pos = pos + pos_i64;";
  "=> if new_pos >= 0 {";
  "=> self.seek(SeekFrom::Start(u64::try_from(new_pos).map_err(|_| { io::Error::new(io::ErrorKind::InvalidInput, ""Resulting position is negative"") })?))";
  "} else {";
  "=> Err(io::Error::new(io::ErrorKind::InvalidInput, ""Resulting position is negative""))";
  "}";
  "} else {";
  "=> Err(io::Error::new(io::ErrorKind::InvalidInput, ""Invalid underlayer_pos value""))";
  "}";
  "SeekFrom::End(pos) =>";
  "if pos > 0 {";
  "return Err(Error::EndOfStream.into());";
  "}";
  "let end_pos = self.sizes_info.as_ref().unwrap().max_uncompressed_pos();";
  "let distance_from_end = -pos;";
  "=> if distance_from_end >= 0 {";
  "=> self.seek(SeekFrom::Start(end_pos.checked_sub(u64::try_from(distance_from_end).map_err(|_| { io::Error::new(io::ErrorKind::InvalidInput, ""Invalid distance_from_end value"") })?).ok_or_else(|| { io::Error::new(io::ErrorKind::InvalidInput, ""Seek before the start of the stream"") })?))";
  "} else {";
  "=> Err(io::Error::new(io::ErrorKind::InvalidInput, ""Negative seek offset""))";
  "}";
  "}";
  "None =>";
  "=> Err(Error::MissingMetadata.into())";
  "}"].
Proof. reflexivity. Qed.

Lemma EV_comp_write_shape : Src2.EV_comp_write = [
  "let old_state = std::mem::replace(&mut self.state, CompressionLayerWriterState::Empty);";
  "=> match old_state {";
  "CompressionLayerWriterState::Ready(inner) =>";
  "let inner_count = WriterWithCount::new(inner);";
  "let mut compress = brotli::CompressorWriter::new(inner_count, 0, self.compression_level, BROTLI_LOG_WINDOW);";
  "let size = std::cmp::min(UNCOMPRESSED_DATA_SIZE as usize, buf.len());";
  "let written = compress.write(&buf[..size])?;";
  "self.state = CompressionLayerWriterState::InData(u32::try_from(written).map_err(|_| io::Error::new(io::ErrorKind::InvalidData, ""Integer conversion failed""))?, Box::new(compress));";
  "=> Ok(written)";
  "CompressionLayerWriterState::InData(written,mut compress) =>";
  "if written > UNCOMPRESSED_DATA_SIZE {";
  "return Err(Error::WrongReaderState(""[Compression Layer] Too much written"".to_string()).into());";
  "}";
  "if written == UNCOMPRESSED_DATA_SIZE {";
  "compress.get_mut().error = None;";
  "let inner_count = compress.into_inner();";
  "inner_count.check_no_error()?;";
  "self.compressed_sizes.push(inner_count.pos);";
  "self.state = CompressionLayerWriterState::Ready(inner_count.into_inner());";
  "return self.write(buf);";
  "}";
  "let size = std::cmp::min((UNCOMPRESSED_DATA_SIZE - written) as usize, buf.len());";
  "let written_add = compress.write(&buf[..size])?;";
  "self.state = CompressionLayerWriterState::InData(written + u32::try_from(written_add).map_err(|_| { io::Error::new(io::ErrorKind::InvalidData, ""Integer conversion failed"") })?, compress);";
  "=> Ok(written_add)";
  "CompressionLayerWriterState::Empty =>";
  "=> Err(Error::WrongReaderState(""[Compression Layer] On write, should never happens, unless an error already occurs before"".to_string()).into())";
  "}"].
Proof. reflexivity. Qed.

Lemma EV_comp_flush_shape : Src2.EV_comp_flush = [
  "=> match &mut self.state {";
  "CompressionLayerWriterState::Ready(inner) =>";
  "=> inner.flush()";
  "CompressionLayerWriterState::InData(_written,compress) =>";
  "=> compress.flush()";
  "CompressionLayerWriterState::Empty =>";
  "=> Err(Error::WrongReaderState(""[Compression Layer] On flush, should never happens, unless an error already occurs before"".to_string()).into())";
  "}"].
Proof. reflexivity. Qed.

Lemma EV_comp_finalize_shape : Src2.EV_comp_finalize = [
  "let old_state = std::mem::replace(&mut self.state, CompressionLayerWriterState::Empty);";
  "let mut last_block_size = 0;";
  "let mut inner = match old_state {";
  "CompressionLayerWriterState::Ready(inner) =>";
  "=> inner";
  "CompressionLayerWriterState::InData(written,compress) =>";
  "let mut compress = compress;";
  "compress.get_mut().error = None;";
  "let inner_count = compress.into_inner();";
  "inner_count.check_no_error()?;";
  "self.compressed_sizes.push(inner_count.pos);";
  "last_block_size = written;";
  "=> inner_count.into_inner()";
  "CompressionLayerWriterState::Empty =>";
  "return Err(Error::WrongReaderState(""[Compression Layer] bad state in finalization, an error may already occurs before"".to_string()));";
  "}";
  ";";
  "let compressed_sizes = std::mem::take(&mut self.compressed_sizes);";
  "let sinfo = SizesInfo { compressed_sizes: compressed_sizes, last_block_size: last_block_size };";
  "if bincode::options().with_limit(BINCODE_MAX_DESERIALIZE).with_fixint_encoding().serialize_into(&mut inner, &sinfo).is_err() {";
  "return Err(Error::SerializationError);";
  "}";
  "match bincode::serialized_size(&sinfo) {";
  "Ok(size) =>";
  "inner.write_u32::<LittleEndian>(u32::try_from(size).map_err(|_| Error::SerializationError)?)?;";
  "Err(_) =>";
  "return Err(Error::SerializationError);";
  "}";
  "self.compressed_sizes = sinfo.compressed_sizes;";
  "inner.finalize()?;";
  "self.state = CompressionLayerWriterState::Ready(inner);";
  "=> Ok(())"].
Proof. reflexivity. Qed.

Lemma EV_wwc_write_shape : Src2.EV_wwc_write = [
  "let res = self.inner.write(buf).inspect(|&i| { match u32::try_from(i) { Ok(value) => self.pos += value, Err(_) => { let _ = io::Error::new(io::ErrorKind::InvalidData, ""Integer conversion failed""); }, } });";
  "if let Err(e) = &res {";
  "=> if e.kind() != io::ErrorKind::Interrupted && self.error.is_none() {";
  "self.error = Some(e.kind());";
  "}";
  "}";
  "=> res"].
Proof. reflexivity. Qed.

Lemma EV_fs_read_pass_shape : Src2.EV_fs_read_pass = [
  "let old_state = std::mem::replace(&mut self.state, CompressionLayerFailSafeReaderState::Empty);";
  "=> match old_state {";
  "CompressionLayerFailSafeReaderState::Ready(inner) =>";
  "self.state = CompressionLayerFailSafeReaderState::InData { cache: vec!(0;FAIL_SAFE_BUFFER_SIZE), read_offset: 0, cache_filled_offset: 0, state: Box::new(BrotliState::new(StandardAlloc::default(), StandardAlloc::default(), StandardAlloc::default())), uncompressed_read: 0, inner: inner };";
  "=> self.read_pass(buf)";
  "CompressionLayerFailSafeReaderState::InData{mut cache,mut read_offset,mut cache_filled_offset,mut state,mut uncompressed_read,mut inner,} =>";
  "if uncompressed_read > UNCOMPRESSED_DATA_SIZE {";
  "return Err(Error::WrongReaderState(""[Compress FailSafe Layer] Too much data read"".to_string()).into());";
  "}";
  "if read_offset == cache_filled_offset && cache_filled_offset == FAIL_SAFE_BUFFER_SIZE {";
  "cache.fill(0);";
  "cache_filled_offset = 0;";
  "read_offset = 0;";
  "}";
  "let mut inner_eof = false;";
  "match inner.read(&mut cache[cache_filled_offset..]) {";
  "Ok(read) =>";
  "if read == 0 && read_offset == cache_filled_offset {";
  "inner_eof = true;";
  "}";
  "cache_filled_offset += read;";
  "error =>";
  "=> if read_offset == cache_filled_offset {";
  "return error.map(Some);";
  "}";
  "}";
  "let mut available_in = cache_filled_offset - read_offset;";
  "let mut input_offset = 0;";
  "let mut available_out = std::cmp::min(buf.len(), (UNCOMPRESSED_DATA_SIZE - uncompressed_read) as usize);";
  "let mut output_offset = 0;";
  "let mut written = 0;";
  "let mut more_passes = false;";
  "let ret = match brotli::BrotliDecompressStream(&mut available_in, &mut input_offset, &cache[read_offset..cache_filled_offset], &mut available_out, &mut output_offset, buf, &mut written, &mut state) {";
  "brotli::BrotliResult::ResultSuccess =>";
  "read_offset += input_offset;";
  "state = Box::new(BrotliState::new(StandardAlloc::default(), StandardAlloc::default(), StandardAlloc::default()));";
  "uncompressed_read = 0;";
  "more_passes = true;";
  "=> Ok(output_offset)";
  "brotli::BrotliResult::NeedsMoreInput =>";
  "more_passes = true;";
  "read_offset += input_offset;";
  "uncompressed_read += u32::try_from(output_offset).map_err(|_| { io::Error::new(io::ErrorKind::InvalidData, ""Integer conversion failed"") })?;";
  "=> Ok(output_offset)";
  "brotli::BrotliResult::NeedsMoreOutput =>";
  "read_offset += input_offset;";
  "uncompressed_read += u32::try_from(output_offset).map_err(|_| { io::Error::new(io::ErrorKind::InvalidData, ""Integer conversion failed"") })?;";
  "=> Ok(output_offset)";
  "brotli::BrotliResult::ResultFailure =>";
  "=> Err(io::Error::new(io::ErrorKind::InvalidData, ""Invalid Data while decompressing""))";
  "}";
  ";";
  "self.state = CompressionLayerFailSafeReaderState::InData { cache: cache, cache_filled_offset: cache_filled_offset, read_offset: read_offset, state: state, uncompressed_read: uncompressed_read, inner: inner };";
  "=> match ret {";
  "Ok(0) if inner_eof =>";
  "if uncompressed_read > 0 {";
  "return Err(io::Error::new(io::ErrorKind::UnexpectedEof, ""No more data from the inner layer""));";
  "}";
  "=> Ok(Some(0))";
  "Ok(0) if more_passes && !buf.is_empty() =>";
  "=> Ok(None)";
  "Ok(count) =>";
  "=> Ok(Some(count))";
  "Err(err) =>";
  "=> Err(err)";
  "}";
  "CompressionLayerFailSafeReaderState::Empty =>";
  "=> Err(Error::WrongReaderState(""[Compression Layer] Should never happens, unless an error already occurs before"".to_string()).into())";
  "}"].
Proof. reflexivity. Qed.

Lemma EV_fs_comp_read_shape : Src2.EV_fs_comp_read = [
  "=> loop {";
  "=> if let Some(count) = self.read_pass(buf)? {";
  "return Ok(count);";
  "}";
  "}"].
Proof. reflexivity. Qed.

Lemma EV_block_from_shape : Src2.EV_block_from = [
  "let byte = src.read_u8()?;";
  "=> match ArchiveFileBlockType::try_from(byte)? {";
  "ArchiveFileBlockType::FileStart =>";
  "let id = src.read_u64::<LittleEndian>()?;";
  "let length = src.read_u64::<LittleEndian>()?;";
  "if length > FILENAME_MAX_SIZE {";
  "return Err(Error::FilenameTooLong);";
  "}";
  "let mut filename = vec!(0;usize::try_from(length).map_err(|_|{std::io::Error::new(std::io::ErrorKind::InvalidData,""Length conversion failed"",)})?);";
  "src.read_exact(&mut filename)?;";
  "=> Ok(Self::FileStart { id: id, filename: String::from_utf8(filename)? })";
  "ArchiveFileBlockType::FileContent =>";
  "let id = src.read_u64::<LittleEndian>()?;";
  "let length = src.read_u64::<LittleEndian>()?;";
  "=> Ok(Self::FileContent { length: length, data: None, id: id })";
  "ArchiveFileBlockType::EndOfFile =>";
  "let id = src.read_u64::<LittleEndian>()?;";
  "let mut hash = Sha256Hash::default();";
  "src.read_exact(&mut hash)?;";
  "=> Ok(Self::EndOfFile { id: id, hash: hash })";
  "ArchiveFileBlockType::EndOfArchiveData =>";
  "=> Ok(Self::EndOfArchiveData)";
  "}"].
Proof. reflexivity. Qed.

Lemma EV_enc_load_persistent_shape : Src2.EV_enc_load_persistent = [
  "if self.private_keys.is_empty() {";
  "return Err(ConfigError::PrivateKeyNotSet);";
  "}";
  "for private_key in &self.private_keys {";
  "=> if let Ok(Some(key)) = retrieve_key(&config.multi_recipient, private_key) {";
  "self.encrypt_parameters = Some((key, config.nonce));";
  "break;";
  "}";
  "}";
  "if self.encrypt_parameters.is_none() {";
  "return Err(ConfigError::PrivateKeyNotFound);";
  "}";
  "=> Ok(())"].
Proof. reflexivity. Qed.

Lemma EV_add_public_keys_shape : Src2.EV_add_public_keys = [
  "self.encrypt.ecc_keys.extend_from_slice(keys);";
  "=> self"].
Proof. reflexivity. Qed.

Lemma EV_failsafe_only_authenticated_shape : Src2.EV_failsafe_only_authenticated = [
  "fn failsafe_return_only_authenticated_data(&mut self) -> &mut Self";
  "self.encrypt.failsafe_mode = FailSafeReaderDecryptionMode::OnlyAuthenticatedData;";
  "=> self"].
Proof. reflexivity. Qed.

Lemma EV_failsafe_even_unauthenticated_shape : Src2.EV_failsafe_even_unauthenticated = [
  "fn failsafe_return_data_even_unauthenticated(&mut self) -> &mut Self";
  "self.encrypt.failsafe_mode = FailSafeReaderDecryptionMode::DataEvenUnauthenticated;";
  "=> self"].
Proof. reflexivity. Qed.

Lemma EV_add_file_shape : Src2.EV_add_file = [
  "let id = self.start_file(filename)?;";
  "self.append_file_content(id, size, src)?;";
  "=> self.end_file(id)"].
Proof. reflexivity. Qed.
