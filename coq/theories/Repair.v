(* Repair.v — model of ArchiveFailSafeReader::convert_to_archive (mla/src/lib.rs:1357-1572)
   over a fail-safe top-layer stream (only `rd` is used), writing into the Writer model.
   Definitions only. *)
From MLA Require Import Limit.
From MLA Require Import Base Stream Blocks Writer.
Open Scope N_scope.

Inductive fstatus :=
| FNoError | FEofNextBlock | FIoNextBlock | FErrNextBlock
| FIdReuse | FIdClosed | FNameReuse | FContentUnknown | FEofUnknown
| FErrInFile | FHashDiffers | FInternal | FEndOfData.

Section Repair.
  Context {LIM : Limit}.
  Variable FNMAX CACHE : N.
  Variables T_START T_CONTENT T_EOA T_EOF : N.
  Variable H : bytes -> bytes.
  Variable S : Stream.

  Notation parse_block := (parse_block FNMAX T_START T_CONTENT T_EOA T_EOF S).
  Notation w_start := (w_start FNMAX T_START T_CONTENT T_EOA T_EOF).
  Notation w_append := (w_append T_CONTENT).
  Notation w_end := (w_end T_START T_CONTENT T_EOA T_EOF H).
  Notation w_finalize := (w_finalize_with T_START T_CONTENT T_EOA T_EOF (fun f => f)).

  Record rpstate := mkRP {
    rp_src : st S;
    rp_out : wstate;
    rp_ids : list (N * N);        (* id_failsafe2id_output, insertion order *)
    rp_names : list (N * bytes);  (* id_failsafe2filename *)
    rp_done : list N;             (* id_failsafe_done *)
    rp_hash : list (N * bytes);   (* id_failsafe2hash: bytes absorbed so far *)
  }.

  Definition mem (l : list N) (x : N) : bool := existsb (N.eqb x) l.

  (* 'buf_fill: fill the cache from take(remaining); returns (state, remaining, bytes, error?) *)
  Fixpoint buf_fill (fuel : nat) (s : st S) (remaining : N) (acc : bytes)
    : st S * N * bytes * option err :=
    match fuel with
    | O => (s, remaining, acc, Some EFuel)
    | Datatypes.S fuel' =>
      let want := N.min remaining (CACHE - len acc) in
      if want =? 0 then (s, remaining, acc, None)           (* take exhausted: Ok(0) *)
      else
        match rd S s want with
        | (s1, Ok d) =>
          if len d =? 0 then (s1, remaining, acc, None)
          else
            let acc' := acc ++ d in
            let rem' := remaining - len d in
            if CACHE <=? len acc' then (s1, rem', acc', None) else buf_fill fuel' s1 rem' acc'
        | (s1, Err e) => (s1, remaining, acc, Some e)
        | (s1, Crash c) => (s1, remaining, acc, Some EFuel)   (* reported separately by run *)
        end
    end.

  (* 'content loop for one FileContent block.  Result: new source and output states,
     bytes recovered for this block, Some e = a read error stopped the reconstruction,
     or a writer error *)
  Fixpoint content_loop (fuel : nat) (s : st S) (out : wstate) (id_out : N) (remaining : N) (got : bytes)
    : st S * wstate * bytes * option err * option err (* read error, writer error *) :=
    match fuel with
    | O => (s, out, got, Some EFuel, None)
    | Datatypes.S fuel' =>
      match buf_fill fuel s remaining [] with
      | (s1, rem', buf, rerr) =>
        match w_append out id_out (len buf) buf with
        | (out1, Ok _) =>
          match rerr with
          | Some e => (s1, out1, got, Some e, None)              (* appended but NOT hashed *)
          | None =>
            if len buf <? CACHE then (s1, out1, got ++ buf, None, None)
            else content_loop fuel' s1 out1 id_out rem' (got ++ buf)
          end
        | (out1, Err e) => (s1, out1, got, None, Some e)
        | (out1, Crash c) => (s1, out1, got, None, Some EFuel)
        end
      end
    end.

  Definition assoc {A} (l : list (N * A)) (k : N) : option A :=
    (fix go l := match l with [] => None | (k', v) :: r => if k' =? k then Some v else go r end) l.
  Definition assoc_set {A} (l : list (N * A)) (k : N) (v : A) : list (N * A) :=
    if existsb (fun e => fst e =? k) l
    then map (fun e => if fst e =? k then (k, v) else e) l
    else l ++ [(k, v)].
  Definition assoc_del {A} (l : list (N * A)) (k : N) : list (N * A) :=
    filter (fun e => negb (fst e =? k)) l.

  (* the 'read_block loop; returns the stopping status, or a hard error (Err) *)
  Fixpoint block_loop (fuel : nat) (st : rpstate) : rpstate * res fstatus :=
    match fuel with
    | O => (st, Err EFuel)
    | Datatypes.S fuel' =>
      match parse_block (rp_src st) with
      | (s1, Err EUnexpectedEof) => (mkRP s1 (rp_out st) (rp_ids st) (rp_names st) (rp_done st) (rp_hash st), Ok FEofNextBlock)
      | (s1, Err (EIo | EInval | EWrongTag | EState | EEos | EDeser | EFuel | EMissingMeta | EKey | EShortSource | EDup | EMagic | EVersion)) =>
        (mkRP s1 (rp_out st) (rp_ids st) (rp_names st) (rp_done st) (rp_hash st), Ok FIoNextBlock)
      | (s1, Err _) => (mkRP s1 (rp_out st) (rp_ids st) (rp_names st) (rp_done st) (rp_hash st), Ok FErrNextBlock)
      | (s1, Crash c) => (st, Crash c)
      | (s1, Ok pb) =>
        let st1 := mkRP s1 (rp_out st) (rp_ids st) (rp_names st) (rp_done st) (rp_hash st) in
        match pb with
        | PStart id name =>
          if existsb (fun e => fst e =? id) (rp_ids st) then (st1, Ok FIdReuse)
          else if mem (rp_done st) id then (st1, Ok FIdClosed)
          else
            let names := assoc_set (rp_names st) id name in
            match w_start (rp_out st) name with
            | (out1, Ok id_out) =>
              block_loop fuel' (mkRP s1 out1 (rp_ids st ++ [(id, id_out)]) names (rp_done st)
                                     (assoc_set (rp_hash st) id []))
            | (out1, Err EDup) => (mkRP s1 out1 (rp_ids st) names (rp_done st) (rp_hash st), Ok FNameReuse)
            | (out1, Err e) => (st1, Err e)
            | (out1, Crash c) => (st1, Crash c)
            end
        | PContent id l =>
          match assoc (rp_ids st) id with
          | None => (st1, Ok FContentUnknown)
          | Some id_out =>
            if mem (rp_done st) id then (st1, Ok FIdClosed) else
            match assoc (rp_names st) id, assoc (rp_hash st) id with
            | Some _, Some hashed =>
              match content_loop fuel s1 (rp_out st) id_out l [] with
              | (s2, out2, got, None, None) =>
                block_loop fuel' (mkRP s2 out2 (rp_ids st) (rp_names st) (rp_done st)
                                       (assoc_set (rp_hash st) id (hashed ++ got)))
              | (s2, out2, got, Some e, None) =>
                (mkRP s2 out2 (rp_ids st) (rp_names st) (rp_done st) (assoc_set (rp_hash st) id (hashed ++ got)),
                 Ok FErrInFile)
              | (s2, out2, got, _, Some e) => (mkRP s2 out2 (rp_ids st) (rp_names st) (rp_done st) (rp_hash st), Err e)
              end
            | _, _ => (st1, Crash 1431)      (* the expect() calls *)
            end
          end
        | PEof id h =>
          match assoc (rp_ids st) id with
          | None => (st1, Ok FEofUnknown)
          | Some id_out =>
            if mem (rp_done st) id then (st1, Ok FIdClosed) else
            match assoc (rp_hash st) id with
            | Some hashed =>
              let st2 := mkRP s1 (rp_out st) (rp_ids st) (rp_names st) (rp_done st) (assoc_del (rp_hash st) id) in
              if negb (bytes_eqb (H hashed) h) then (st2, Ok FHashDiffers)
              else
                match w_end (rp_out st) id_out with
                | (out1, Ok _) =>
                  block_loop fuel' (mkRP s1 out1 (rp_ids st) (rp_names st) (rp_done st ++ [id]) (assoc_del (rp_hash st) id))
                | (out1, Err e) => (st2, Err e)
                | (out1, Crash c) => (st2, Crash c)
                end
            | None => (st1, Ok FInternal)
            end
          end
        | PEnd => (st1, Ok FEndOfData)
        end
      end
    end.

  (* clean-up of the files still open, then finalize.  Result: status, unfinished names (in
     the order the clean-up visits them: the real order is HashMap's), the output writer *)
  Fixpoint cleanup (ids : list (N * N)) (st : rpstate) (out : wstate) (unfinished : list bytes)
    : res (wstate * list bytes) :=
    match ids with
    | [] => Ok (out, unfinished)
    | (idf, ido) :: r =>
      if mem (rp_done st) idf then cleanup r st out unfinished else
      match assoc (rp_names st) idf with
      | None => Crash 1556
      | Some name =>
        match w_end out ido with
        | (out1, Ok _) => cleanup r st out1 (unfinished ++ [name])
        | (_, Err e) => Err e
        | (_, Crash c) => Crash c
        end
      end
    end.

  Definition repair (fuel : nat) (s0 : st S) (out0 : wstate) : res (fstatus * list bytes * wstate) :=
    match block_loop fuel (mkRP s0 out0 [] [] [] []) with
    | (st, Ok status) =>
      match cleanup (rp_ids st) st (rp_out st) [] with
      | Ok (out1, unfinished) =>
        match w_finalize out1 with
        | (out2, Ok _) => Ok (status, unfinished, out2)
        | (_, Err e) => Err e
        | (_, Crash c) => Crash c
        end
      | Err e => Err e
      | Crash c => Crash c
      end
    | (_, Err e) => Err e
    | (_, Crash c) => Crash c
    end.
End Repair.
