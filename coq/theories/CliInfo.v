(* CliInfo.v — `mlar info` (mlar/src/main.rs:926-1036): `ArchiveInfoReader::from_config`,
   `get_files_size`, `info`, with `SizesInfo::get_compressed_size` (mla/src/layers/compress.rs:149)
   and `MultiRecipientPersistent::count_keys` (mla/src/crypto/ecc.rs:39), statement by statement.

     info:  File::open; ArchiveHeader::from(&mut file)                     read_header
            encryption / compression = the two bits of header.config.layers_enabled
            if compression { readerconfig_from_matches; ArchiveInfoReader::from_config(file, config)? }
               -- ONLY then: without compression no key file is opened, no layer is built
            println "Format version", "Encryption"
            if encryption && verbose { header.config.encrypt.expect(..)  ; "  Recipients: n" }
            println "Compression"
            if compression && verbose { mla.expect(..); get_files_size()?; compressed_size.expect(..);
                                        output_size as f64 / compressed_size as f64; "{:.2}" }

     ArchiveInfoReader::from_config: the statements of ArchiveReader::from_config (lib.rs:1223) —
            rewind, ArchiveHeader::from, config.load_persistent (which OVERWRITES the layers the
            -k option had set: no PrivateKeyProvidedButNotUsed here), RawLayerReader::new,
            reset_position, encryption reader if ENCRYPT, compression reader if COMPRESS,
            initialize of the top layer, [compressed_size = sizes_info.map(get_compressed_size)],
            ArchiveFooter::deserialize_from, rewind.  Modelled with the SAME components as
            Archive.archive_open (read_header, load_config, open_stack, ropen); that the two Rust
            functions make the same calls in the same order is Tie A (Src.INFO_OPEN_EVENTS =
            Src.READER_OPEN_EVENTS, CliInfoStack.v).

   Exit status: 0; 1 = `Err` returned by info (main prints it and exits 1); 101 = panic.
   Standard output is line buffered: the lines printed before a panic are out.
   u64 `Iterator::sum`: overflow panics when overflow checks are compiled in (dev profile: the
   binary the checks run), wraps otherwise ([profile.release] of /repo does not turn them on):
   the model takes the build's choice as the parameter `ovf`.
   f64: `as f64` of a u64 (round to nearest even), the division (round to nearest even) and the
   two-decimal rendering of core::fmt (exact decimal expansion of the binary value, half to even)
   are done exactly with integers (`rate_text`); Tie B compares the function with the real
   formatting code on generated pairs (job c17, family info-rate).
   NOT modelled: clap, opening the key files (a key that does not parse is a panic inside
   readerconfig_from_matches — reached only when the archive has the COMPRESS bit), stderr.
   Definitions only; proofs in CliInfoStack.v (against archive_open) and CliInfoProofs.v. *)
From MLA Require Import Limit.
From MLA Require Import Base Stream Blocks Reader CompLayer EncLayer RawLayer LayerStack Format Ecies Archive.
From Coq Require Import ZArith.
Open Scope N_scope.

(* ---------- crash sites (line numbers of mlar/src/main.rs / compress.rs) ---------- *)
Definition SITE_ENC_EXPECT : N := 1018.    (* header.config.encrypt.expect("Encryption config not found") *)
Definition SITE_MLA_EXPECT : N := 1028.    (* mla.expect("MLA is required for verbose compression info") *)
Definition SITE_CSIZE_EXPECT : N := 1030.  (* mla_.compressed_size.expect("Missing compression size") *)
Definition SITE_FILES_SUM : N := 985.      (* files_info.values().map(|f| f.size).sum() *)
Definition SITE_CSIZE_SUM : N := 150.      (* compress.rs: compressed_sizes.iter().map(u64::from).sum() *)

(* u64 Iterator::sum.  The additions are of unsigned numbers: some partial sum overflows iff the
   total does, whatever the order (HashMap::values has none), so the total decides. *)
Definition total (l : list N) : N := fold_right N.add 0 l.
Definition sum_u64 (ovf : bool) (site : N) (l : list N) : res N :=
  let t := total l in
  if t <? 2 ^ 64 then Ok t else if ovf then Crash site else Ok (t mod 2 ^ 64).

(* SizesInfo::get_compressed_size *)
Definition get_compressed_size (ovf : bool) (si : sizes_info) : res N := sum_u64 ovf SITE_CSIZE_SUM (si_sizes si).

(* files_info.values().map(|f| f.size): the HashMap holds one entry per distinct name, the LAST
   one deserialised (Blocks.flookup) *)
Definition files_sizes (m : Blocks.footer) : list N :=
  map (fun n => match flookup m n with Some fi => Blocks.fi_size fi | None => 0 end) (dedup_names m []).

(* ---------- decimal text ---------- *)
Fixpoint dec_aux (fuel : nat) (n : N) (acc : bytes) : bytes :=
  match fuel with
  | O => acc
  | Datatypes.S f => let acc' := (48 + n mod 10) :: acc in if n / 10 =? 0 then acc' else dec_aux f (n / 10) acc'
  end.
Definition dec_of (n : N) : bytes := dec_aux (Datatypes.S (N.to_nat (N.log2 n))) n [].

(* ---------- f64 with integers ---------- *)
(* nearest integer to p / q (q > 0), ties to even *)
Definition round_ne (p q : N) : N :=
  let d := p / q in let r := p mod q in
  if 2 * r <? q then d else if q <? 2 * r then d + 1 else if N.even d then d else d + 1.

(* p / q * 2^(-e) as a fraction *)
Definition scaled (p q : N) (e : Z) : N * N :=
  if (0 <=? e)%Z then (p, q * 2 ^ Z.to_N e) else (p * 2 ^ Z.to_N (- e), q).

(* the binary64 nearest to p / q (p, q > 0; 2^-64 <= p/q <= 2^64: normal range, no overflow):
   (m, e) with value m * 2^e and 2^52 <= m <= 2^53 *)
Definition to_f64 (p q : N) : N * Z :=
  let e0 := (Z.of_N (N.log2 p) - Z.of_N (N.log2 q) - 52)%Z in
  let '(p0, q0) := scaled p q e0 in
  let e := if p0 / q0 <? 2 ^ 52 then (e0 - 1)%Z else e0 in
  let '(p1, q1) := scaled p q e in
  (round_ne p1 q1, e).

(* `x as f64` for a u64 x > 0, as the integer it denotes (exact below 2^53) *)
Definition u64_as_f64 (x : N) : N :=
  if x <? 2 ^ 53 then x else let '(m, e) := to_f64 x 1 in m * 2 ^ Z.to_N e.

Definition two_digits (n : N) : bytes := [48 + n / 10; 48 + n mod 10].

(* format!("{:.2}", a as f64 / b as f64) *)
Definition rate_text (a b : N) : bytes :=
  if b =? 0 then (if a =? 0 then [78; 97; 78] (* NaN *) else [105; 110; 102] (* inf *))
  else if a =? 0 then [48; 46; 48; 48]
  else
    let '(m, e) := to_f64 (u64_as_f64 a) (u64_as_f64 b) in
    (* hundredths, nearest, ties to even, of the exact value m * 2^e *)
    let c := if (0 <=? e)%Z then m * 100 * 2 ^ Z.to_N e else round_ne (m * 100) (2 ^ Z.to_N (- e)) in
    dec_of (c / 100) ++ [46] ++ two_digits (c mod 100).

(* ---------- the lines ---------- *)
Definition NL : N := 10.
Definition bool_text (b : bool) : bytes :=
  if b then [116; 114; 117; 101] else [102; 97; 108; 115; 101].
(* "Format version: " "Encryption: " "  Recipients: " "Compression: " "  Compression rate: " *)
Definition T_VERSION : bytes := [70;111;114;109;97;116;32;118;101;114;115;105;111;110;58;32].
Definition T_ENC : bytes := [69;110;99;114;121;112;116;105;111;110;58;32].
Definition T_RECIP : bytes := [32;32;82;101;99;105;112;105;101;110;116;115;58;32].
Definition T_COMP : bytes := [67;111;109;112;114;101;115;115;105;111;110;58;32].
Definition T_RATE : bytes := [32;32;67;111;109;112;114;101;115;115;105;111;110;32;114;97;116;101;58;32].

Definition line_version : bytes := T_VERSION ++ dec_of VERSION ++ [NL].
Definition line_enc (e : bool) : bytes := T_ENC ++ bool_text e ++ [NL].
Definition line_recipients (n : N) : bytes := T_RECIP ++ dec_of n ++ [NL].
Definition line_comp (c : bool) : bytes := T_COMP ++ bool_text c ++ [NL].
Definition line_rate (files_size comp_size : N) : bytes := T_RATE ++ rate_text files_size comp_size ++ [NL].

(* what the process leaves: exit status and standard output *)
Record ires := mkIres { i_status : N; i_stdout : bytes }.

Section CliInfo.
  Variables CHUNK TAG BLOCK LIMIT FNMAX : N.
  Local Hint Extern 0 Limit => exact LIMIT : typeclass_instances.
  Variables TS TC TA TE : N.
  Variable dh : bytes -> bytes -> bytes.
  Variable kdf : bytes -> bytes.
  Variables wdec wtag : bytes -> bytes -> bytes.
  Variable ksf : bytes -> bytes -> N -> N -> N.
  Variable tagf : bytes -> bytes -> N -> bytes -> bytes.
  Variable dec : bytes -> bytes.
  Variable ovf : bool.            (* overflow checks compiled in *)

  Notation StackS := (StackS CHUNK TAG BLOCK ksf tagf dec).
  Notation open_stack := (open_stack CHUNK TAG BLOCK LIMIT ksf tagf dec).
  Notation load_config := (load_config dh kdf wdec wtag).

  (* src_compress.sizes_info of the top layer when it is the compression reader *)
  Definition top_sizes (a : bytes) (e c : bool) (k n : bytes) : st (StackS a e c k n) -> option sizes_info :=
    match e as e', c as c' return st (StackS a e' c' k n) -> option sizes_info with
    | false, false => fun _ => None
    | true, false => fun _ => None
    | false, true => fun s => c_si s
    | true, true => fun s => c_si s
    end.

  (* struct ArchiveInfoReader { config, compressed_size, metadata } *)
  Record info_reader := mkIR { ir_enc : bool; ir_cmp : bool; ir_comp : option N; ir_meta : Blocks.footer }.

  (* ArchiveInfoReader::from_config *)
  Definition info_from_config (a : bytes) (privs : list bytes) : res info_reader :=
    (* src.rewind(); ArchiveHeader::from; config.load_persistent *)
    do hd <- read_header LIMIT a;
    let '(h, rest) := hd in
    do cf <- load_config h privs;
    let '(e, c, k, n) := cf in
    (* raw + reset_position; encryption reader if ENCRYPT; compression reader if COMPRESS; initialize *)
    do s <- open_stack a e c k n (len a - len rest);
    (* .sizes_info.as_ref().map(get_compressed_size) *)
    do csz <- match top_sizes a e c k n s with
              | Some si => do t <- get_compressed_size ovf si; Ok (Some t)
              | None => Ok None
              end;
    (* ArchiveFooter::deserialize_from; rewind *)
    do r <- ropen (StackS a e c k n) s;
    Ok (mkIR e c csz (r_meta r)).

  (* get_files_size: metadata is always Some after from_config *)
  Definition get_files_size (ir : info_reader) : res N := sum_u64 ovf SITE_FILES_SUM (files_sizes (ir_meta ir)).

  Definition istatus {A} (r : res A) : N := match r with Ok _ => 0 | Err _ => 1 | Crash _ => 101 end.

  (* info.  privs = the candidate keys of the -k options ([] = none) *)
  Definition cmd_info (verbose : bool) (a : bytes) (privs : list bytes) : ires :=
    match read_header LIMIT a with
    | Ok (h, _) =>
      let encryption := has_bit (h_layers h) L_ENCRYPT in
      let compression := has_bit (h_layers h) L_COMPRESS in
      match (if compression then
               match info_from_config a privs with Ok ir => Ok (Some ir) | Err e => Err e | Crash c => Crash c end
             else Ok None) with
      | Ok mla =>
        let out1 := line_version ++ line_enc encryption in
        match (if encryption && verbose then
                 match h_enc h with
                 | Some eh => Ok (line_recipients (len (eh_keys eh)))      (* count_keys *)
                 | None => Crash SITE_ENC_EXPECT
                 end
               else Ok []) with
        | Ok l2 =>
          let out2 := out1 ++ l2 ++ line_comp compression in
          if compression && verbose then
            match mla with
            | None => mkIres 101 out2                                      (* SITE_MLA_EXPECT *)
            | Some ir =>
              match get_files_size ir with
              | Ok fsz =>
                match ir_comp ir with
                | Some csz => mkIres 0 (out2 ++ line_rate fsz csz)
                | None => mkIres 101 out2                                  (* SITE_CSIZE_EXPECT *)
                end
              | x => mkIres (istatus x) out2
              end
            end
          else mkIres 0 out2
        | x => mkIres (istatus x) out1
        end
      | x => mkIres (istatus x) []
      end
    | x => mkIres (istatus x) []
    end.

  (* the pair the rate is computed from (what the theorems speak of): files size, compressed size *)
  Definition info_rate_pair (a : bytes) (privs : list bytes) : res (N * N) :=
    do ir <- info_from_config a privs;
    do fsz <- get_files_size ir;
    match ir_comp ir with Some csz => Ok (fsz, csz) | None => Crash SITE_CSIZE_EXPECT end.
End CliInfo.
