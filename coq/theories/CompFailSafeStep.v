(* CompFailSafeStep.v — one decompression pass (read_pass) of the fail-safe reader under the
   decoder laws, over an inner source that behaves as a read-only cursor over w (short reads
   allowed): it either delivers the next bytes of fs_spec, or makes progress without output
   (a measure decreases), or stops with everything delivered. *)
From MLA Require Import Base Stream CompFailSafe CompFailSafeProofs.
From Coq Require Import ZifyBool ZifyNat ZifyN.
Open Scope N_scope.

(* read-only refinement: through R, S delivers the bytes of w in order; a read of n returns
   the next k <= n bytes, k = 0 only when n = 0 or at the end *)
Definition SrcRefines (S : Stream) (w : bytes) (R : st S -> N -> Prop) : Prop :=
  forall s p n, R s p ->
    p <= len w /\
    exists s' k, rd S s n = (s', Ok (sliceN p k w)) /\ k <= n /\ p + k <= len w /\
                 (k = 0 -> n = 0 \/ p = len w) /\ R s' (p + k).

Lemma refines_src S w R : Refines S w R -> SrcRefines S w R.
Proof.
  intros H s p n HR. split; [exact (ref_range _ _ _ H s p HR) | exact (ref_rd _ _ _ H s p n HR)].
Qed.

Lemma len_pos_nonnil {A} (l : list A) : 0 < len l -> l <> [].
Proof. destruct l; [unfold len; cbn [length]; lia | discriminate]. Qed.
Lemma nonnil_len_pos {A} (l : list A) : l <> [] -> 0 < len l.
Proof. destruct l; [congruence|]. rewrite len_cons. lia. Qed.

Lemma sliceN_dropN {A} p k (w : list A) : sliceN p k w ++ dropN (p + k) w = dropN p w.
Proof. unfold sliceN. rewrite <- dropN_dropN. apply takeN_dropN. Qed.

(* the decoder takes k bytes of its input inp, which heads dropN q w *)
Lemma split_input {A} (w inp restw : list A) q k :
  inp ++ restw = dropN q w -> k <= len inp ->
  takeN k inp ++ dropN (q + k) w = dropN q w /\ dropN k inp ++ restw = dropN (q + k) w.
Proof.
  intros H Hk.
  assert (H2 : dropN k inp ++ restw = dropN (q + k) w).
  { rewrite <- dropN_dropN, <- H. symmetry. apply dropN_app_le. exact Hk. }
  split; [|exact H2]. rewrite <- H2, app_assoc, takeN_dropN. exact H.
Qed.

Section Step.
  Variables BLOCK FSBUF : N.
  Hypothesis HFSBUF : 0 < FSBUF.
  Hypothesis HBLOCK32 : BLOCK < 2 ^ 32.
  Variable dstate : Type.
  Variable dinit : dstate.
  Variable dstep : dstate -> bytes -> N -> dresult * N * bytes * dstate.
  Variable D : bytes -> bytes.
  Variable fin : bytes -> bool.
  Hypothesis L : DecoderLaws dinit dstep D fin.
  Variable tail : bytes.
  Hypothesis Htail : dead D fin tail.
  Variable S : Stream.
  Variable w : bytes.
  Variable R : st S -> N -> Prop.
  Hypothesis HS : SrcRefines S w R.

  Notation good := (good_block BLOCK D fin).
  Notation wire_of := (wire_of tail).
  Notation fs_spec := (fs_spec D).
  Let Dm := D_mono_prefix _ dinit dstep D fin L.
  Let fin_nil := dl_fin_nil _ _ _ _ _ L.

  (* ---------- refill ---------- *)
  Lemma refill_spec cache ro i pos q :
    ro <= len cache -> len cache <= FSBUF -> R i pos ->
    dropN ro cache ++ dropN pos w = dropN q w ->
    exists cache' ro' i' pos' eof,
      refill FSBUF S cache ro i = Ok (cache', ro', i', eof) /\
      ro' <= len cache' /\ len cache' <= FSBUF /\ R i' pos' /\
      dropN ro' cache' ++ dropN pos' w = dropN q w /\
      (eof = true -> dropN q w = [] /\ dropN ro' cache' = []) /\
      (eof = false -> dropN ro' cache' <> []).
  Proof.
    intros Hro Hc HR Hq. unfold refill, reset_cache.
    destruct ((ro =? len cache) && (len cache =? FSBUF)) eqn:Ereset.
    - (* drained and full: reset *)
      assert (Hd : dropN ro cache = []) by (apply dropN_all; lia).
      rewrite Hd in Hq. cbn [app] in Hq.
      rewrite len_nil. destruct (N.ltb_spec FSBUF 0) as [?|_]; [lia|].
      destruct (HS i pos (FSBUF - 0) HR) as (Hp & i' & k & Hrd & Hk & Hpk & Hz & HR').
      rewrite Hrd.
      assert (Hlen : len (sliceN pos k w) = k) by (rewrite len_sliceN; lia).
      exists ([] ++ sliceN pos k w), 0, i', (pos + k), ((len (sliceN pos k w) =? 0) && (0 =? 0)).
      cbn [app]. rewrite dropN_0, Hlen.
      split; [reflexivity|]. split; [lia|]. split; [lia|]. split; [exact HR'|].
      split; [rewrite sliceN_dropN; exact Hq|].
      destruct (N.eqb_spec k 0) as [->|Hk0]; cbn [andb]; (split; [intros He | intros He]); try discriminate.
      + destruct (Hz eq_refl) as [?| ->]; [lia|]. split; [|apply sliceN_0].
        rewrite <- Hq. apply dropN_all. lia.
      + apply len_pos_nonnil. rewrite Hlen. lia.
    - destruct (N.ltb_spec FSBUF (len cache)) as [?|_]; [lia|].
      destruct (HS i pos (FSBUF - len cache) HR) as (Hp & i' & k & Hrd & Hk & Hpk & Hz & HR').
      rewrite Hrd.
      assert (Hlen : len (sliceN pos k w) = k) by (rewrite len_sliceN; lia).
      exists (cache ++ sliceN pos k w), ro, i', (pos + k), ((len (sliceN pos k w) =? 0) && (ro =? len cache)).
      rewrite Hlen, len_app, Hlen. rewrite dropN_app_le by exact Hro.
      split; [reflexivity|]. split; [lia|]. split; [lia|]. split; [exact HR'|].
      split; [rewrite <- app_assoc, sliceN_dropN; exact Hq|].
      split; intros He.
      + assert (k = 0 /\ ro = len cache) as [-> Hr] by lia.
        destruct (Hz eq_refl) as [?| ->]; [lia|].
        rewrite sliceN_0, app_nil_r. rewrite <- Hq. rewrite (dropN_all ro cache) by lia.
        split; [apply dropN_all; lia | reflexivity].
      + apply len_pos_nonnil. rewrite len_app, len_dropN, Hlen. lia.
  Qed.

  (* ---------- the invariant of the InData state ---------- *)
  (* ghost: cin / cout = consumed / produced by the current decoder, q = position in w of the
     next byte the decoder will be given *)
  Record Inv (d : fsdata dstate S) (cin cout : bytes) (q : N) : Prop := {
    inv_reach : dreach dinit dstep (fs_ds d) cin cout;
    inv_ur : fs_ur d = len cout;
    inv_ur_le : fs_ur d <= BLOCK;
    inv_ro : fs_ro d <= len (fs_cache d);
    inv_cache : len (fs_cache d) <= FSBUF;
    inv_src : exists pos, R (fs_in d) pos /\
                          dropN (fs_ro d) (fs_cache d) ++ dropN pos w = dropN q w;
  }.

  (* what is still to be delivered *)
  Definition todo (bs : list (bytes * bytes)) (cin cout : bytes) (q : N) : bytes :=
    dropN (len cout) (fs_spec bs (cin ++ dropN q w)).
  (* decreases on every pass that delivers nothing and does not stop *)
  Definition mu (cin : bytes) (q : N) : N := 2 * (len w - q) + (if len cin =? 0 then 0 else 1).

  Definition cin_ok (bs : list (bytes * bytes)) (cin : bytes) : Prop :=
    match bs with [] => True | (c, _) :: _ => len cin <= len c end.

  Lemma spec_lower bs X cin : Forall good bs -> prefix X (wire_of bs) -> prefix cin X ->
    cin_ok bs cin -> prefix (D cin) (fs_spec bs X).
  Proof.
    intros Hbs HX Hc Hok. destruct Hbs as [|[c p] r (Hf & HD & Hl) _]; cbn [CompFailSafeProofs.fs_spec].
    - apply Dm. exact Hc.
    - cbn [fst snd cin_ok] in *. rewrite wire_of_cons in HX.
      destruct (N.leb_spec (len c) (len X)); [|apply Dm; exact Hc].
      apply prefix_trans with p; [|apply prefix_app]. rewrite <- HD. apply Dm.
      apply (prefix_app_le cin c (wire_of r)); [|exact Hok]. apply prefix_trans with X; assumption.
  Qed.

  Lemma spec_at_end bs cin : Forall good bs -> prefix cin (wire_of bs) -> cin_ok bs cin ->
    fs_spec bs cin = D cin.
  Proof.
    intros Hbs HX Hok. destruct Hbs as [|[c p] r (Hf & HD & Hl) Hr]; cbn [CompFailSafeProofs.fs_spec]; [reflexivity|].
    cbn [fst snd cin_ok] in *. rewrite wire_of_cons in HX.
    destruct (N.leb_spec (len c) (len cin)); [|reflexivity].
    assert (cin = c) as ->.
    { apply prefix_len_eq; [|lia]. apply (prefix_app_le cin c (wire_of r)); assumption. }
    rewrite dropN_len_self. rewrite (fs_spec_nil BLOCK D fin fin_nil Dm tail Htail r Hr).
    rewrite app_nil_r. symmetry; exact HD.
  Qed.

  Lemma Inv_init i : R i 0 -> Inv (mkFs [] 0 dinit 0 i) [] [] 0.
  Proof.
    intros HR. constructor; cbn [fs_ds fs_ur fs_ro fs_cache fs_in]; try rewrite len_nil; try lia.
    - constructor.
    - reflexivity.
    - exists 0. split; [exact HR | reflexivity].
  Qed.

  (* ---------- one pass ---------- *)
  Inductive pass_out (bs : list (bytes * bytes)) (cin cout : bytes) (q : N)
      (f' : fstate dstate S) (r : res (option bytes)) : Prop :=
  | po_data out d' bs' cin' cout' q' :
      r = Ok (Some out) -> out <> [] -> f' = FInData d' -> Forall good bs' ->
      Inv d' cin' cout' q' -> prefix (cin' ++ dropN q' w) (wire_of bs') ->
      todo bs cin cout q = out ++ todo bs' cin' cout' q' -> pass_out bs cin cout q f' r
  | po_more d' bs' cin' cout' q' :
      r = Ok None -> f' = FInData d' -> Forall good bs' ->
      Inv d' cin' cout' q' -> prefix (cin' ++ dropN q' w) (wire_of bs') ->
      todo bs cin cout q = todo bs' cin' cout' q' -> mu cin' q' < mu cin q ->
      pass_out bs cin cout q f' r
  | po_stop :
      r = Ok (Some []) \/ r = Err EUnexpectedEof \/ r = Err EInval ->
      todo bs cin cout q = [] -> pass_out bs cin cout q f' r.

  Lemma pass_spec d bs cin cout q n :
    Forall good bs -> Inv d cin cout q -> prefix (cin ++ dropN q w) (wire_of bs) -> 0 < n ->
    exists f' r, pass_indata BLOCK FSBUF dstate dinit dstep S d n = (f', r) /\
                 pass_out bs cin cout q f' r.
  Proof.
    intros Hbs [Hreach Hur Hurle Hro Hcache (pos & HRp & Hsrc)] HX Hn.
    unfold pass_indata.
    destruct (N.ltb_spec BLOCK (fs_ur d)) as [?|_]; [lia|].
    destruct (refill_spec _ _ _ _ _ Hro Hcache HRp Hsrc)
      as (cache' & ro' & i' & pos' & eof & -> & Hro' & Hcache' & HRp' & Hsrc' & Heof1 & Heof0).
    destruct (N.ltb_spec (len cache') ro') as [?|_]; [lia|].
    destruct (N.ltb_spec FSBUF (len cache')) as [?|_]; [lia|].
    set (inp := dropN ro' cache') in *.
    set (room := N.min n (BLOCK - fs_ur d)).
    destruct (dstep (fs_ds d) inp room) as [[[r k] out] ds'] eqn:Hstep.
    destruct (dl_bounds _ _ _ _ _ L _ _ _ _ _ _ _ _ _ Hreach Hstep) as [Hk Hout].
    destruct (split_input w inp (dropN pos' w) q k Hsrc' Hk) as [Hsp1 Hsp2].
    set (cin' := cin ++ takeN k inp).
    assert (HXeq : cin ++ dropN q w = cin' ++ dropN (q + k) w)
      by (unfold cin'; rewrite <- app_assoc, Hsp1; reflexivity).
    assert (Hoff : prefix (cin ++ inp) (cin ++ dropN q w))
      by (apply prefix_app_app; rewrite <- Hsrc'; apply prefix_app).
    assert (Hcin'X : prefix cin' (cin ++ dropN q w)) by (rewrite HXeq; apply prefix_app).
    assert (Hlenq : len inp <= len w - q).
    { rewrite <- (len_dropN q w), <- Hsrc', len_app. lia. }
    assert (Hinplen : len inp = len cache' - ro') by (unfold inp; apply len_dropN).
    assert (Hlencin' : len cin' = len cin + k) by (unfold cin'; rewrite len_app, len_takeN; lia).
    (* consequences of the laws that depend on where we are in the wire *)
    assert (Hfacts : cin_ok bs cin' /\ len (D cin') <= BLOCK /\ (bs <> [] -> okin fin (cin ++ inp))).
    { destruct Hbs as [|[c p] r0 (Hf & HD & Hl) Hr0].
      - split; [exact I|]. split; [|congruence].
        rewrite (proj1 (Htail cin' (prefix_trans _ _ _ Hcin'X HX))). rewrite len_nil. lia.
      - cbn [fst snd] in *. rewrite wire_of_cons in HX.
        assert (Hcmp : prefix (cin ++ inp) c \/ prefix c (cin ++ inp)).
        { apply prefix_comparable with (c ++ wire_of r0); [|apply prefix_app].
          apply prefix_trans with (cin ++ dropN q w); assumption. }
        assert (Hle : len cin' <= len c).
        { destruct Hcmp as [Hc|Hc].
          - apply prefix_len in Hc. rewrite len_app in Hc. lia.
          - pose proof (dl_stop _ _ _ _ _ L _ _ _ _ _ _ _ _ _ c Hreach Hstep Hf Hc). lia. }
        split; [exact Hle|]. split.
        + assert (Hp : prefix cin' c).
          { apply (prefix_app_le cin' c (wire_of r0)); [|exact Hle].
            apply prefix_trans with (cin ++ dropN q w); assumption. }
          apply Dm in Hp. rewrite HD in Hp. apply prefix_len in Hp. lia.
        + intros _. exists c. split; [exact Hf | exact Hcmp]. }
    destruct Hfacts as (Hok' & HDb & Hokin).
    (* the state after a pass that stays in the stream *)
    assert (Hsrc2 : dropN (ro' + k) cache' ++ dropN pos' w = dropN (q + k) w).
    { rewrite <- Hsp2. unfold inp. rewrite dropN_dropN. reflexivity. }
    assert (Hroom : room <= BLOCK - fs_ur d) by (unfold room; lia).
    assert (Hfull : room = 0 -> prefix cout (D cin') -> cout = D cin').
    { intros Hr0 Hp. apply prefix_len_eq; [exact Hp|]. unfold room in Hr0. lia. }
    assert (Hadd : add_ur (fs_ur d) out = Ok (fs_ur d + len out)).
    { unfold add_ur. destruct (N.leb_spec (2 ^ 32) (len out)); [lia|].
      destruct (N.leb_spec (2 ^ 32) (fs_ur d + len out)); [lia | reflexivity]. }
    assert (Hstay : r = DNeedsMoreInput \/ r = DNeedsMoreOutput ->
                    Inv (mkFs cache' (ro' + k) ds' (fs_ur d + len out) i') cin' (cout ++ out) (q + k) /\
                    todo bs cin cout q = out ++ todo bs cin' (cout ++ out) (q + k)).
    { intros Hr.
      assert (Hsound : prefix (cout ++ out) (D cin')).
      { apply (dl_sound _ _ _ _ _ L _ _ _ _ _ _ _ _ _ Hreach Hstep). destruct Hr; congruence. }
      split.
      - constructor; cbn [fs_ds fs_ur fs_ro fs_cache fs_in].
        + eapply dreach_step; eassumption.
        + rewrite len_app. lia.
        + lia.
        + lia.
        + exact Hcache'.
        + exists pos'. split; [exact HRp' | exact Hsrc2].
      - unfold todo. rewrite <- HXeq. apply dropN_prefix_app.
        apply prefix_trans with (D cin'); [exact Hsound|].
        apply spec_lower; assumption. }
    assert (HX2 : prefix (cin' ++ dropN (q + k) w) (wire_of bs)) by (rewrite <- HXeq; exact HX).
    destruct r.
    - (* ResultSuccess *)
      destruct (dl_success _ _ _ _ _ L _ _ _ _ _ _ _ _ Hreach Hstep) as [Hfin HDeq].
      fold cin' in Hfin, HDeq.
      destruct Hbs as [|[c p] bs0 (Hf & HD & Hl) Hbs0].
      { exfalso. rewrite (proj2 (Htail cin' (prefix_trans _ _ _ Hcin'X HX))) in Hfin. discriminate. }
      cbn [fst snd cin_ok] in *. rewrite wire_of_cons in HX.
      assert (Hc : cin' = c).
      { assert (Hp : prefix cin' c).
        { apply (prefix_app_le cin' c (wire_of bs0)); [|exact Hok'].
          apply prefix_trans with (cin ++ dropN q w); assumption. }
        destruct Hp as [b Hb]. rewrite Hb in Hf.
        rewrite (dl_fin_pfree _ _ _ _ _ L _ _ Hfin Hf) in Hb. rewrite app_nil_r in Hb. auto. }
      assert (Hp : p = cout ++ out) by (rewrite HDeq, Hc; auto).
      set (d' := mkFs cache' (ro' + k) dinit 0 i').
      assert (HI' : Inv d' [] [] (q + k)).
      { constructor; cbn [d' fs_ds fs_ur fs_ro fs_cache fs_in]; try rewrite len_nil; try lia.
        - constructor.
        - reflexivity.
        - exists pos'. split; [exact HRp' | exact Hsrc2]. }
      assert (HX' : prefix ([] ++ dropN (q + k) w) (wire_of bs0)).
      { cbn [app]. apply (prefix_app_inv c). rewrite HXeq, Hc in HX. exact HX. }
      assert (Htodo : todo ((c, p) :: bs0) cin cout q = out ++ todo bs0 [] [] (q + k)).
      { unfold todo. rewrite HXeq, Hc. cbn [CompFailSafeProofs.fs_spec app].
        destruct (N.leb_spec (len c) (len (c ++ dropN (q + k) w))) as [_|H]; [|rewrite len_app in H; lia].
        rewrite dropN_len_app, len_nil, dropN_0. rewrite Hp, <- app_assoc. apply dropN_len_app. }
      exists (FInData d').
      unfold finish. cbn [fs_ur d'].
      destruct (N.eqb_spec (len out) 0) as [Ho|Ho].
      + apply len_0_nil in Ho. subst out. cbn [andb].
        destruct eof.
        * destruct (N.ltb_spec 0 0) as [?|_]; [lia|].
          eexists; split; [reflexivity|]. apply po_stop; [auto|].
          rewrite Htodo. cbn [app]. unfold todo. rewrite len_nil, dropN_0. cbn [app].
          destruct (Heof1 eq_refl) as [Hq0 _].
          rewrite <- dropN_dropN, Hq0, dropN_nil.
          apply (fs_spec_nil BLOCK D fin fin_nil Dm tail Htail bs0 Hbs0).
        * destruct (N.eqb_spec n 0) as [?|_]; [lia|]. cbn [negb].
          eexists; split; [reflexivity|].
          eapply po_more; try eassumption; try reflexivity.
          unfold mu. change (len (@nil N) =? 0) with true. cbv iota.
          destruct (N.eqb_spec (len cin) 0) as [Hc0|Hc0]; [|lia].
          assert (0 < len c).
          { destruct c; [rewrite fin_nil in Hf; discriminate | rewrite len_cons; lia]. }
          rewrite <- Hc in H. lia.
      + cbn [andb]. eexists; split; [reflexivity|].
        eapply po_data; try eassumption; try reflexivity.
        intros ->. rewrite len_nil in Ho. lia.
    - (* NeedsMoreInput *)
      destruct (dl_nmi _ _ _ _ _ L _ _ _ _ _ _ _ _ Hreach Hstep) as [Hkall Hpend].
      destruct (Hstay (or_introl eq_refl)) as [HI' Htodo].
      rewrite Hadd.
      set (d' := mkFs cache' (ro' + k) ds' (fs_ur d + len out) i') in *.
      exists (FInData d').
      unfold finish.
      destruct (N.eqb_spec (len out) 0) as [Ho|Ho].
      + apply len_0_nil in Ho. subst out. cbn [andb].
        destruct eof.
        * (* end of the input: everything decodable has been delivered *)
          destruct (Heof1 eq_refl) as [Hq0 Hi0].
          assert (Hk0 : k = 0) by (rewrite Hi0, len_nil in Hk; lia).
          assert (Hcc : cin' = cin) by (unfold cin'; rewrite Hk0, takeN_0; apply app_nil_r).
          assert (HcD : cout = D cin).
          { assert (Hs : prefix cout (D cin')).
            { pose proof (dl_sound _ _ _ _ _ L _ _ _ _ _ _ _ _ _ Hreach Hstep) as Hs.
              rewrite app_nil_r in Hs. apply Hs. discriminate. }
            rewrite Hcc in *. destruct Hpend as [Hr|He].
            - apply Hfull; [rewrite len_nil in Hr; auto | exact Hs].
            - rewrite Hi0, !app_nil_r in He. exact He. }
          assert (Hstop : todo bs cin cout q = []).
          { unfold todo. rewrite Hq0, app_nil_r.
            rewrite spec_at_end; [rewrite <- HcD; apply dropN_len_self | exact Hbs | | rewrite <- Hcc; exact Hok'].
            rewrite Hq0, app_nil_r in HX. exact HX. }
          destruct (0 <? fs_ur d'); (eexists; split; [reflexivity|]); apply po_stop; auto.
        * destruct (N.eqb_spec n 0) as [?|_]; [lia|]. cbn [negb].
          eexists; split; [reflexivity|].
          cbn [app] in Htodo.
          eapply po_more; try eassumption; try reflexivity.
          pose proof (nonnil_len_pos _ (Heof0 eq_refl)) as Hi.
          unfold mu. destruct (len cin' =? 0); destruct (len cin =? 0); lia.
      + cbn [andb]. eexists; split; [reflexivity|].
        eapply po_data; try eassumption; try reflexivity.
        intros ->. rewrite len_nil in Ho. lia.
    - (* NeedsMoreOutput *)
      destruct (dl_nmo _ _ _ _ _ L _ _ _ _ _ _ _ _ Hreach Hstep) as [Hrm Hne].
      fold cin' in Hne.
      destruct (Hstay (or_intror eq_refl)) as [HI' Htodo].
      rewrite Hadd.
      set (d' := mkFs cache' (ro' + k) ds' (fs_ur d + len out) i') in *.
      exists (FInData d').
      destruct (N.eqb_spec (len out) 0) as [Ho|Ho].
      + exfalso. apply len_0_nil in Ho. subst out. rewrite app_nil_r in Hne. apply Hne.
        apply Hfull; [rewrite len_nil in Hrm; auto|].
        pose proof (dl_sound _ _ _ _ _ L _ _ _ _ _ _ _ _ _ Hreach Hstep) as Hs.
        rewrite app_nil_r in Hs. apply Hs. discriminate.
      + unfold finish. destruct (N.eqb_spec (len out) 0) as [?|_]; [lia|]. cbn [andb].
        eexists; split; [reflexivity|].
        eapply po_data; try eassumption; try reflexivity.
        intros ->. rewrite len_nil in Ho. lia.
    - (* ResultFailure *)
      destruct Hbs as [|cp bs0 Hcp Hbs0].
      + eexists; eexists; split; [reflexivity|]. apply po_stop; [auto|].
        unfold todo. cbn [CompFailSafeProofs.fs_spec].
        rewrite (proj1 (Htail _ HX)). apply dropN_nil.
      + exfalso. apply (dl_nofail _ _ _ _ _ L _ _ _ _ _ _ _ _ Hreach Hstep).
        apply Hokin. discriminate.
  Qed.

  (* ---------- one read: passes until some bytes are produced or the stream ends ---------- *)
  Inductive read_out (bs : list (bytes * bytes)) (cin cout : bytes) (q : N)
      (f' : fstate dstate S) (r : res bytes) : Prop :=
  | ro_data out d' bs' cin' cout' q' :
      r = Ok out -> out <> [] -> f' = FInData d' -> Forall good bs' ->
      Inv d' cin' cout' q' -> prefix (cin' ++ dropN q' w) (wire_of bs') ->
      todo bs cin cout q = out ++ todo bs' cin' cout' q' -> read_out bs cin cout q f' r
  | ro_stop :
      r = Ok [] \/ r = Err EUnexpectedEof \/ r = Err EInval ->
      todo bs cin cout q = [] -> read_out bs cin cout q f' r.

  Notation fs_read := (fs_read BLOCK FSBUF dstate dinit dstep S).
  Notation fs_drain := (fs_drain BLOCK FSBUF dstate dinit dstep S).

  Lemma fs_read_spec pfuel : forall d bs cin cout q n,
    Forall good bs -> Inv d cin cout q -> prefix (cin ++ dropN q w) (wire_of bs) -> 0 < n ->
    (N.to_nat (mu cin q) < pfuel)%nat ->
    exists f' r, fs_read pfuel (FInData d) n = (f', r) /\ read_out bs cin cout q f' r.
  Proof.
    induction pfuel as [|pfuel IH]; intros d bs cin cout q n Hbs HI HX Hn Hfuel; [lia|].
    cbn [CompFailSafe.fs_read fs_pass].
    destruct (pass_spec d bs cin cout q n Hbs HI HX Hn) as (f' & r & -> & Hout).
    destruct Hout as [out d' bs' cin' cout' q' -> Hne -> Hbs' HI' HX' Htodo
                     | d' bs' cin' cout' q' -> -> Hbs' HI' HX' Htodo Hmu
                     | Hr Htodo].
    - eexists; eexists; split; [reflexivity|]. eapply ro_data; eauto.
    - destruct (IH d' bs' cin' cout' q' n Hbs' HI' HX' Hn) as (f'' & r'' & -> & Hout'); [lia|].
      eexists; eexists; split; [reflexivity|].
      destruct Hout' as [out d2 bs2 cin2 cout2 q2 -> Hne -> Hbs2 HI2 HX2 Htodo2 | Hr Htodo2].
      + eapply ro_data; eauto. rewrite Htodo. exact Htodo2.
      + apply ro_stop; [exact Hr|]. rewrite Htodo. exact Htodo2.
    - destruct Hr as [-> |[-> | ->]]; (eexists; eexists; split; [reflexivity|]); apply ro_stop; auto.
  Qed.

  Lemma mu_bound cin q : mu cin q <= 2 * len w + 1.
  Proof. unfold mu. destruct (len cin =? 0); lia. Qed.

  (* ---------- reading to exhaustion ---------- *)
  Definition fs_end (r : res unit) : Prop := r = Ok tt \/ r = Err EUnexpectedEof \/ r = Err EInval.

  Lemma fs_drain_spec rfuel : forall pfuel d bs cin cout q sz i acc,
    Forall good bs -> Inv d cin cout q -> prefix (cin ++ dropN q w) (wire_of bs) ->
    (forall j, 0 < sz j) ->
    (N.to_nat (2 * len w + 1) < pfuel)%nat -> (N.to_nat (len (todo bs cin cout q)) < rfuel)%nat ->
    exists f' r, fs_drain rfuel pfuel (FInData d) sz i acc = (f', acc ++ todo bs cin cout q, r) /\
                 fs_end r.
  Proof.
    induction rfuel as [|rfuel IH]; intros pfuel d bs cin cout q sz i acc Hbs HI HX Hsz Hpf Hrf; [lia|].
    cbn [CompFailSafe.fs_drain].
    destruct (fs_read_spec pfuel d bs cin cout q (sz i) Hbs HI HX (Hsz i)) as (f' & r & -> & Hout).
    { pose proof (mu_bound cin q). lia. }
    destruct Hout as [out d' bs' cin' cout' q' -> Hne -> Hbs' HI' HX' Htodo | Hr Htodo].
    - pose proof (nonnil_len_pos _ Hne) as Hl.
      destruct (N.eqb_spec (len out) 0) as [?|_]; [lia|].
      rewrite Htodo in *. rewrite len_app in Hrf.
      destruct (IH pfuel d' bs' cin' cout' q' sz (Datatypes.S i) (acc ++ out) Hbs' HI' HX' Hsz Hpf) as (f'' & r'' & -> & He); [lia|].
      exists f'', r''. rewrite <- app_assoc. split; [reflexivity | exact He].
    - rewrite Htodo, app_nil_r. unfold fs_end.
      destruct Hr as [-> |[-> | ->]].
      + change (len (@nil N) =? 0) with true. cbv iota. eauto.
      + eauto 6.
      + eauto 6.
  Qed.

  Lemma fs_read_ready pfuel i n :
    fs_read (Datatypes.S pfuel) (FReady i) n = fs_read (Datatypes.S pfuel) (FInData (mkFs [] 0 dinit 0 i)) n.
  Proof. reflexivity. Qed.

  (* the whole run, from CompressionLayerFailSafeReader::new *)
  Theorem fs_read_all_exact i0 bs sz rfuel pfuel :
    Forall good bs -> R i0 0 -> prefix w (wire_of bs) -> (forall j, 0 < sz j) ->
    (N.to_nat (2 * len w + 1) < pfuel)%nat -> (N.to_nat (len (fs_spec bs w)) < rfuel)%nat ->
    exists r, fs_read_all BLOCK FSBUF dstate dinit dstep S rfuel pfuel i0 sz = (fs_spec bs w, r) /\
              fs_end r.
  Proof.
    intros Hbs HR Hw Hsz Hpf Hrf.
    assert (Ht : todo bs [] [] 0 = fs_spec bs w) by reflexivity.
    destruct (fs_drain_spec rfuel pfuel _ bs [] [] 0 sz 0%nat [] Hbs (Inv_init i0 HR)) as (f' & r & Hd & He);
      try assumption; try (rewrite Ht; assumption).
    exists r. split; [|exact He].
    unfold fs_read_all, fs_new. destruct rfuel as [|rfuel]; [lia|]. destruct pfuel as [|pfuel]; [lia|].
    cbn [CompFailSafe.fs_drain] in *. rewrite fs_read_ready. 
    destruct (fs_read (Datatypes.S pfuel) (FInData (mkFs [] 0 dinit 0 i0)) (sz 0%nat)) as [f1 [d1| |]] eqn:E; cbn [app] in *.
    - rewrite Hd, Ht; reflexivity.
    - injection Hd as _ Hx Hr. rewrite <- Hr, <- Ht, <- Hx. reflexivity.
    - injection Hd as _ Hx Hr. rewrite <- Hr, <- Ht, <- Hx. reflexivity.
  Qed.
End Step.
