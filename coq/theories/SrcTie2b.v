(* SrcTie2b.v — Tie A, decision kernels of the layers (gen/Src2.v, Section Kernels2) against the
   model: TryFrom<u8>, the encryption writer's guards / accepted size / counter step,
   load_in_cache (compare THEN fill, sticky empty cache on failure), tag_position_to_no_tag_position,
   the compression writer's roll-over test and sizes, the fail-safe decompressor's guards and
   result arms, the config builders and the one-line wrappers (Builders.v). *)
From MLA Require Import Limit.
From MLA Require Import Base Stream EncLayer CompLayer CompFailSafe Blocks Builders.
From MLAGen Require Src Src2.
From Coq Require Import String ZifyBool ZifyNat ZifyN.
Open Scope N_scope.

(* ---------- ArchiveFileBlockType::try_from: accepted tags, in the order parse_block tests them ---------- *)
Lemma try_from_arms T_START T_CONTENT T_EOA T_EOF t :
  Src2.block_type_try_from T_START T_CONTENT T_EOA T_EOF t =
  if t =? T_START then Ok T_START else if t =? T_CONTENT then Ok T_CONTENT
  else if t =? T_EOF then Ok T_EOF else if t =? T_EOA then Ok T_EOA else Err EBlockType.
Proof. reflexivity. Qed.
(* parse_block refuses exactly the tags try_from refuses *)
Lemma try_from_refuses_iff T_START T_CONTENT T_EOA T_EOF t :
  Src2.block_type_try_from T_START T_CONTENT T_EOA T_EOF t = Err EBlockType <->
  (t =? T_START) = false /\ (t =? T_CONTENT) = false /\ (t =? T_EOF) = false /\ (t =? T_EOA) = false.
Proof.
  rewrite try_from_arms.
  destruct (t =? T_START), (t =? T_CONTENT), (t =? T_EOF), (t =? T_EOA); split; intros Hx;
    try discriminate; try reflexivity; try (repeat split; reflexivity); destruct Hx as (?&?&?&?); discriminate.
Qed.

(* ---------- encryption layer ---------- *)
Section Enc.
  Context {LIM : Limit}.
  Variables CHUNK TAG CIPHERBUF : N.
  Variable ks : N -> N -> N.
  Variable tagc : N -> bytes -> bytes.

  Lemma tag2notag_eq p :
    Src.tag_position_to_no_tag_position CHUNK (CHUNK + TAG) p = Ok (tag2notag CHUNK TAG p).
  Proof. reflexivity. Qed.

  (* Write::write: the model's guards, renewal test and accepted size are the source's *)
  Lemma ew_write_src s buf :
    ew_write CHUNK CIPHERBUF ks tagc s buf =
    if Src2.enc_write_too_big CHUNK (ew_off s) then Err Src2.enc_write_too_big_err else
    do s1 <- (if Src2.enc_write_renews CHUNK (ew_off s) then ew_renew tagc s else Ok s);
    let size := Src2.enc_write_size CHUNK CIPHERBUF (ew_off s1) (len buf) in
    let ct := xor_from ks (ew_ctr s1) (ew_off s1) (takeN size buf) in
    Ok (mkEW (ew_out s1 ++ ct) (ew_ctr s1) (ew_off s1 + size) (ew_cur s1 ++ ct), size).
  Proof. reflexivity. Qed.
  Lemma ew_write_size_bounds off n :
    Src2.enc_write_size CHUNK CIPHERBUF off n <= CIPHERBUF /\ Src2.enc_write_size CHUNK CIPHERBUF off n <= n /\
    Src2.enc_write_size CHUNK CIPHERBUF off n <= CHUNK - off.
  Proof. unfold Src2.enc_write_size. lia. Qed.
  (* renew_cipher: counter + 1, offset 0 *)
  Lemma ew_renew_src s s' : ew_renew tagc s = Ok s' ->
    ew_ctr s' = Src2.renew_cipher_ctr (ew_ctr s) /\ ew_off s' = Src2.renew_cipher_offset.
  Proof. unfold ew_renew. destruct (_ <=? _); [discriminate|]. intros [= <-]. split; reflexivity. Qed.

  (* load_in_cache: what is read, the exits, and: the cache holds data ONLY when the tags agree *)
  Variable S : Stream.
  Lemma eload_src (s : estate S) :
    eload CHUNK TAG ks tagc S s =
    match read_full S (rd_fuel CHUNK TAG) (e_in s) (Src2.load_read_len CHUNK TAG) with
    | (i', Ok dt) =>
      let '(cache, r) := Src2.load_in_cache_k TAG dt (fun d t => bytes_eqb (tagc (e_chunk s) d) t)
                                              (xor_from ks (e_chunk s) 0) in
      (mkE i' cache 0 (e_chunk s), r)
    | (i', Err e) => (mkE i' [] 0 (e_chunk s), Err e)
    | (i', Crash c) => (mkE i' [] 0 (e_chunk s), Crash c)
    end.
  Proof.
    unfold eload, Src2.load_in_cache_k, Src2.load_read_len, Src2.load_is_eos, Src2.load_is_short, Src2.load_split,
      Src2.load_short_err, Src2.load_wrong_tag_err, CTS.
    destruct (read_full _ _ _ _) as [i' [dt|e|c]]; try reflexivity.
    destruct (len dt =? 0); [reflexivity|]. destruct (len dt <? TAG); [reflexivity|].
    destruct (bytes_eqb _ _); reflexivity.
  Qed.
  (* D3 repair, at the level of the translated kernel: a failed or empty load leaves no data *)
  Lemma load_failure_leaves_cache_empty dt eq pl cache r :
    Src2.load_in_cache_k TAG dt eq pl = (cache, r) -> r <> Ok true -> cache = [].
  Proof.
    unfold Src2.load_in_cache_k. destruct (Src2.load_is_eos _); [now intros [= <- <-]|].
    destruct (Src2.load_is_short _ _); [now intros [= <- <-]|].
    destruct (eq _ _); intros [= <- <-]; [congruence | reflexivity].
  Qed.
End Enc.

(* ---------- compression writer ---------- *)
Section Comp.
  Context {LIM : Limit}.
  Variable BLOCK : N.
  Variable comp : bytes -> bytes.
  Lemma cw_write_src fuel w buf :
    cw_write_aux BLOCK comp (Datatypes.S fuel) w buf =
    let w0 := mkCW (cw_out w) WEmpty (cw_sizes w) in
    match cw_st w with
    | WReady =>
      let size := Src2.cw_size_ready BLOCK (len buf) in
      if 2 ^ 32 <=? size then (w0, Err EInval)
      else (mkCW (cw_out w) (WInData size (takeN size buf)) (cw_sizes w), Ok size)
    | WInData written cur =>
      if Src2.cw_too_much BLOCK written then (w0, Err Src2.cw_too_much_err)
      else if Src2.cw_rolls_over BLOCK written then
        let cb := comp cur in
        cw_write_aux BLOCK comp fuel (mkCW (cw_out w ++ cb) WReady (cw_sizes w ++ [len cb])) buf
      else
        let size := Src2.cw_size_indata BLOCK written (len buf) in
        (mkCW (cw_out w) (WInData (written + size) (cur ++ takeN size buf)) (cw_sizes w), Ok size)
    | WEmpty => (w0, Err EState)
    end.
  Proof. reflexivity. Qed.
End Comp.

(* ---------- fail-safe decompressor ---------- *)
Section FsComp.
  Context {LIM : Limit}.
  Variables BLOCK FSBUF : N.
  Lemma fs_reset_cache_src cache ro :
    reset_cache FSBUF cache ro = if Src2.fs_cache_reset FSBUF ro (len cache) then ([], 0) else (cache, ro).
  Proof. reflexivity. Qed.
  Lemma fs_kernels_src ur n (data cache : bytes) ro :
    Src2.fs_too_much BLOCK ur = (BLOCK <? ur) /\
    Src2.fs_available_out BLOCK n ur = N.min n (BLOCK - ur) /\
    Src2.fs_inner_eof (len data) ro (len cache) = ((len data =? 0) && (ro =? len cache)).
  Proof. repeat split. Qed.
  (* the four BrotliResult arms as pass_indata has them (D4-D6 repair): Success and NeedsMoreInput ask for
     another pass, NeedsMoreOutput does not; Success resets uncompressed_read; all three advance
     read_offset and return Ok(output_offset); Failure is an InvalidData error *)
  Lemma fs_result_arms_src :
    Src2.fs_result_arms =
    [("ResultSuccess"%string, true, true, true, false, true); ("NeedsMoreInput"%string, true, true, false, true, true);
     ("NeedsMoreOutput"%string, false, true, false, true, true); ("ResultFailure"%string, false, false, false, false, false)].
  Proof. reflexivity. Qed.
  (* the final match = CompFailSafe.finish: Ok(0) at inner EOF ends (error inside a stream);
     Ok(0) with more_passes and a non-empty buffer asks for another pass; otherwise the count *)
  Lemma fs_final_arms_src :
    map (fun a => (fst (fst a), snd (fst a))) Src2.fs_final_arms =
    [("Ok(0)"%string, "inner_eof"%string); ("Ok(0)"%string, "more_passes && !buf.is_empty()"%string);
     ("Ok(count)"%string, ""%string); ("Err(err)"%string, ""%string)].
  Proof. reflexivity. Qed.
End FsComp.

(* ---------- config builders and one-line wrappers (Builders.v) ---------- *)
Lemma cfg_builders_src e l :
  Src2.cfg_enable_layer e l = enable_layer e l /\ Src2.cfg_disable_layer e l = disable_layer e l /\
  Src2.cfg_set_layers e l = set_layers e l /\ Src2.cfg_is_layers_enabled e l = is_layers_enabled e l.
Proof. repeat split. Qed.
Lemma cfg_check_src enc n : Src2.cfg_check enc (Src2.enc_cfg_check n) = config_check enc n.
Proof. unfold Src2.cfg_check, Src2.enc_cfg_check, config_check. destruct enc, (n =? 0); reflexivity. Qed.
Lemma cfg_to_persistent_src {E} en enc (x : res E) : Src2.cfg_to_persistent en enc x = config_to_persistent en enc x.
Proof. unfold Src2.cfg_to_persistent, config_to_persistent. destruct enc, x; reflexivity. Qed.
Lemma pos_write_src pos r : Src2.pos_write_k pos r = position_write pos r.
Proof. destruct r; reflexivity. Qed.
Lemma pos_reset_src pos : Src2.pos_reset_k pos = (0, pos).
Proof. reflexivity. Qed.
Lemma hash_read_src a r : Src2.hash_read_k a r = hash_read a r.
Proof. destruct r; reflexivity. Qed.
Lemma stream_write_src {St} (ap : N -> N -> bytes -> St * res unit) id buf :
  Src2.stream_write_k ap id buf = stream_write ap id buf.
Proof. reflexivity. Qed.
