(* SrcTie3CryptoEx.v — non-vacuity of the cryptoT tie: the TRANSLATED aesgcm.rs / ecc.rs (gen/Src3g.v) run by
   vm_compute on the concrete AES-256 / GHASH / X25519 / HKDF-SHA256 of theories/Concrete. *)
From MLA Require Import Base Gcm GcmProofs Ecies EciesGcm SrcTie3Gcm SrcTie3Ecies.
From MLA.Concrete Require Import Hex Aes Ghash GcmSpec Sha256 Hmac Hkdf X25519.
From MLAGen Require Src3g.
Open Scope N_scope.

Definition E_key (key b : bytes) : bytes := aes_encrypt_rk (aes256_expand key) b.

(* SP 800-38D test case 16 (60 bytes, 20 bytes of AAD) through the translated new / encrypt x5 / into_tag *)
Example src_gcm_tc16 :
  src_encrypt_incremental E_key gf_mul 1 2 3 tc_key tc_iv tc_aad (split_sizes [3; 0; 30; 1; 26]%nat (firstn 60 tc_pt64))
  = Ok (split_sizes [3; 0; 30; 1; 26]%nat (firstn 60 tc_ct64), tc16_tag).
Proof. vm_compute. reflexivity. Qed.

(* test case 15 (64 bytes, no AAD), unaligned pieces crossing block boundaries *)
Example src_gcm_tc15 :
  src_encrypt_incremental E_key gf_mul 1 2 3 tc_key tc_iv [] (split_sizes [1; 15; 16; 17; 15]%nat tc_pt64)
  = Ok (split_sizes [1; 15; 16; 17; 15]%nat tc_ct64, tc15_tag).
Proof. vm_compute. reflexivity. Qed.

(* the translated decrypt / decrypt_unauthenticated on test case 16 *)
Example src_gcm_dec_tc16 :
  (do s0 <- Src3g.AesGcm256_new E_key gf_mul 2 3 tc_key tc_iv tc_aad;
   do (s1, pt, tag) <- Src3g.AesGcm256_decrypt E_key gf_mul 2 3 s0 (firstn 60 tc_ct64);
   do s0' <- Src3g.AesGcm256_new E_key gf_mul 2 3 tc_key tc_iv [];
   do (s2, pt') <- Src3g.AesGcm256_decrypt_unauthenticated E_key s0' (firstn 60 tc_ct64);
   Ok (pt, tag, pt', Src3g.ctr_pos (Src3g.cipher s1)))
  = Ok (firstn 60 tc_pt64, tc16_tag, firstn 60 tc_pt64, 16).
Proof. vm_compute. reflexivity. Qed.

(* the panic sites are real: a current_block longer than a block (no call sequence produces it) makes the
   translated encrypt crash at `BLOCK_SIZE - self.current_block.len()`, where the model truncates *)
Example src_gcm_unreachable_state_crashes :
  Src3g.AesGcm256_encrypt E_key gf_mul 1 2 3
    (repG tc_key (set_cur (gcm_new (E_key tc_key) gf_mul tc_iv []) (repeat 0 17))) [1; 2; 3]
  = Crash 1.
Proof. vm_compute. reflexivity. Qed.

(* ECIES through the translated code with RFC 7748's keys: two recipients (alice, bob), the generator hands out
   a fixed scalar; bob opens, a stranger does not; count_keys = 2 *)
Definition x_extract (salt : option bytes) (ikm : bytes) : bytes := hkdf_extract hmac_sha256 32 salt ikm.
Definition x_expand (prk info : bytes) (L : N) : bytes := hkdf_expand hmac_sha256 32 prk info L.
Definition fixed_fill (st : N) (n : N) : N * bytes := (st + 1, map (fun i => (N.of_nat i * 7 + st) mod 256) (seq 1 (N.to_nat n))).
Definition ex_key : bytes := map N.of_nat (seq 100 32).

Example src_ecies_roundtrip :
  (do (st, m) <- Src3g.store_key_for_multi_recipients E_key gf_mul x25519 x25519_base x_extract x_expand N fixed_fill 1 2 3
                   [alice_pk; bob_pk] ex_key 5;
   do n <- Src3g.count_keys m;
   do kb <- Src3g.retrieve_key E_key gf_mul x25519 x_extract x_expand 2 3 m bob_sk;
   do kx <- Src3g.retrieve_key E_key gf_mul x25519 x_extract x_expand 2 3 m ex_key;
   Ok (st, n, kb, kx, map (fun kt => (len (Src3g.kt_key kt), len (Src3g.kt_tag kt))) (Src3g.mrp_encrypted_keys m)))
  = Ok (6, 2, Some ex_key, None, [(32, 16); (32, 16)]).
Proof. vm_compute. reflexivity. Qed.

(* the KDF of the tie is HKDF-SHA256(salt None, ikm, "KEY DERIVATION", 32), the function job c19/c07 compare with the hkdf crate *)
Example kdf_src_is_hkdf ikm : kdf_src x_extract x_expand ikm = hkdf_sha256 None ikm Src3g.DERIVE_KEY_INFO 32.
Proof. reflexivity. Qed.
