(* RunWRowsProofs.v — the entry points of RunWRows.v ARE the model functions the theorems speak
   about (no lookalikes):

     aw_order_perm               the `order` given to archive_write by c01_aw (the observed HashMap
                                 order) is a permutation of the footer whatever names the harness
                                 passes: the premise `forall f, Permutation (order f) f` of
                                 C01_archive_roundtrip holds of it
     c01_aw_is_archive_write     c01_aw prints Archive.archive_write (by unfolding)
     archive_write_oracle_mode   archive_write with the real X25519 (any pubk / dh) = archive_write
                                 in the oracle mode of the rows (ephemeral public key and shared
                                 secrets given): the rows bind the subject of C01_archive_roundtrip_gcm
     c01_aw_row_is_theorem_archive  the two together
     encw_ops_is_ew_archive      c01_encw on "write_all per piece, then finalize" ends with ew_out of
                                 EncWriter.ew_archive — the encryption branch of Archive.lower_write
                                 (fuel bridged by ew_write_all_fuel_mono)
     sinkstack_write_all / sinkstack_write
                                 the logging wrapper of c13_sinkrows is invisible: erasing the log,
                                 write_all / pos_write over it are Sink.write_all / Sink.pos_write over
                                 Sink.sink_write (the subject of SinkProofs / C13_pos_counts) *)
From MLA Require Import Limit.
From MLAGen Require Src.
(* executable entry points: the production value of BINCODE_MAX_DESERIALIZE (the same in both flavours), file-local *)
#[local] Instance RUN_LIMIT : Limit := MLAGen.Src.BINCODE_MAX_DESERIALIZE_prod.
From MLA Require Import Base Stream Inst EncLayer EncWriter InstGcm Sink Gcm Format
  Ecies EciesGcm CompLayer Archive ArchiveInst.
From MLA Require Import Blocks Writer RunWRows.
From MLA.Concrete Require Aes Ghash Sha256.
From MLAGen Require Src.
From Coq Require Import Permutation ZifyBool ZifyNat ZifyN Lia.
Open Scope N_scope.

(* ---------- (b) the footer order ---------- *)

Lemma finfo_eqb_eq a b : finfo_eqb a b = true -> a = b.
Proof.
  destruct a as [o1 s1 e1], b as [o2 s2 e2]. unfold finfo_eqb. cbn [fi_offsets fi_size fi_eof].
  intros H. apply andb_prop in H. destruct H as [H He]. apply andb_prop in H. destruct H as [Ho Hs].
  apply (proj1 (bytes_eqb_eq o1 o2)) in Ho. apply N.eqb_eq in Hs. apply N.eqb_eq in He. subst. reflexivity.
Qed.

Lemma entry_eqb_eq a b : entry_eqb a b = true -> a = b.
Proof.
  destruct a as [n1 f1], b as [n2 f2]. unfold entry_eqb. cbn [fst snd].
  intros H. apply andb_prop in H. destruct H as [Hn Hf].
  apply bytes_eqb_eq in Hn. apply finfo_eqb_eq in Hf. subst. reflexivity.
Qed.

Lemma remove_first_perm e : forall l l', remove_first e l = Some l' -> Permutation l (e :: l').
Proof.
  induction l as [|h t IH]; intros l' H; cbn [remove_first] in H; [discriminate|].
  destruct (entry_eqb e h) eqn:He.
  - apply entry_eqb_eq in He. inversion H. subst. apply Permutation_refl.
  - destruct (remove_first e t) as [t'|] eqn:Ht; cbn [option_map] in H; [|discriminate].
    inversion H. subst. eapply perm_trans; [apply perm_skip, (IH t' eq_refl)|]. apply perm_swap.
Qed.

Lemma perm_check_perm : forall g f, perm_check g f = true -> Permutation g f.
Proof.
  induction g as [|e g IH]; intros f H; cbn [perm_check] in H.
  - destruct f; [apply perm_nil | discriminate].
  - destruct (remove_first e f) as [f'|] eqn:Hr; [|discriminate].
    apply Permutation_sym. eapply perm_trans; [apply (remove_first_perm e f f' Hr)|].
    apply perm_skip, Permutation_sym, IH, H.
Qed.

Theorem aw_order_perm names f : Permutation (aw_order names f) f.
Proof.
  unfold aw_order. destruct (perm_check (pick_entries names f) f) eqn:H.
  - apply perm_check_perm, H.
  - apply Permutation_refl.
Qed.

(* non-vacuity: a real reordering is taken, a wrong name list is not *)
Example aw_order_ex :
  let f := [([97], mkFI [0] 3 20); ([98], mkFI [9] 0 40)] in
  aw_order [[98]; [97]] f = [([98], mkFI [9] 0 40); ([97], mkFI [0] 3 20)] /\
  aw_order [[98]; [98]] f = f /\ aw_order [[97]] f = f.
Proof. vm_compute. repeat split; reflexivity. Qed.

(* ---------- (b) c01_aw is archive_write ---------- *)

Lemma c01_aw_is_archive_write k enc comp epub shared key nonce ntab names table cut_top cut_mid calls :
  c01_aw k enc comp epub shared key nonce ntab names table cut_top cut_mid calls =
  match archive_write (cCHUNK k) (cCIPHERBUF k) (cBLOCK k) aw_LIMIT (cFNMAX k)
          Src.BT_FileStart Src.BT_FileContent Src.BT_EndOfArchiveData Src.BT_EndOfFile
          Sha256.sha256 (aw_order names) (fun _ => epub) (fun _ r => r) hkdf_info
          (gwenc E_aes256 Ghash.gf_mul) (gwtag E_aes256 Ghash.gf_mul)
          (ksf_gcm (cCHUNK k) (N.to_nat ntab)) tagf_gcm
          (mkWC (comp =? 1) (enc =? 1) (comp_tab table) key nonce [] shared) cut_top cut_mid (map aw_call calls) with
  | Ok a => [[0]; a]
  | Err _ => [[1]]
  | Crash _ => [[2]]
  end.
Proof. reflexivity. Qed.

(* the configuration of the oracle mode: the recipients' public keys replaced by the shared
   secrets the ephemeral scalar gives with them *)
Definition oracle_cfg (dh : bytes -> bytes -> bytes) (cfg : wconfig) : wconfig :=
  mkWC (wc_compress cfg) (wc_encrypt cfg) (wc_comp cfg) (wc_key cfg) (wc_nonce cfg) (wc_eph cfg)
       (map (dh (wc_eph cfg)) (wc_recipients cfg)).

Section OracleMode.
  Variables CHUNK CIPHERBUF BLOCK LIMIT FNMAX TS TC TA TE : N.
  Local Hint Extern 0 Limit => exact LIMIT : typeclass_instances.
  Variable H : bytes -> bytes.
  Variable order : footer -> footer.
  Variable pubk : bytes -> bytes.
  Variable dh : bytes -> bytes -> bytes.
  Variable kdf : bytes -> bytes.
  Variables wenc wtag : bytes -> bytes -> bytes.
  Variable ksf : bytes -> bytes -> N -> N -> N.
  Variable tagf : bytes -> bytes -> N -> bytes -> bytes.

  Lemma store_key_oracle_mode rs key eph :
    store_key pubk dh kdf wenc wtag rs key eph =
    store_key (fun _ => pubk eph) (fun _ r => r) kdf wenc wtag (map (dh eph) rs) key eph.
  Proof. unfold store_key. rewrite map_map. reflexivity. Qed.

  Lemma to_persistent_oracle_mode cfg :
    to_persistent pubk dh kdf wenc wtag cfg =
    to_persistent (fun _ => pubk (wc_eph cfg)) (fun _ r => r) kdf wenc wtag (oracle_cfg dh cfg).
  Proof.
    unfold to_persistent, layers_of, oracle_cfg. cbn [wc_encrypt wc_compress wc_recipients wc_key wc_eph wc_nonce].
    destruct (wc_encrypt cfg); [|reflexivity]. rewrite store_key_oracle_mode. reflexivity.
  Qed.

  Theorem archive_write_oracle_mode cfg cut_top cut_mid ops :
    archive_write CHUNK CIPHERBUF BLOCK LIMIT FNMAX TS TC TA TE H order pubk dh kdf wenc wtag ksf tagf
                  cfg cut_top cut_mid ops =
    archive_write CHUNK CIPHERBUF BLOCK LIMIT FNMAX TS TC TA TE H order (fun _ => pubk (wc_eph cfg)) (fun _ r => r)
                  kdf wenc wtag ksf tagf (oracle_cfg dh cfg) cut_top cut_mid ops.
  Proof.
    unfold archive_write. rewrite <- to_persistent_oracle_mode.
    replace (match wc_recipients (oracle_cfg dh cfg) with [] => true | _ :: _ => false end)
      with (match wc_recipients cfg with [] => true | _ :: _ => false end)
      by (unfold oracle_cfg; cbn [wc_recipients]; destruct (wc_recipients cfg); reflexivity).
    reflexivity.
  Qed.
End OracleMode.

(* the archive of C01_archive_roundtrip_gcm at the parameters of the rows (AES-256 / GF(2^128) key
   wrap, HKDF-SHA256, SHA-256, InstGcm tables for the chunks, the observed footer order) with ANY
   X25519 (pubk, dh) is what the row evaluates, given the ephemeral public key and the shared secrets *)
Theorem c01_aw_row_is_theorem_archive k ntab (pubk : bytes -> bytes) (dh : bytes -> bytes -> bytes)
        names cfg cut_top cut_mid ops :
  archive_write (cCHUNK k) (cCIPHERBUF k) (cBLOCK k) aw_LIMIT (cFNMAX k)
    Src.BT_FileStart Src.BT_FileContent Src.BT_EndOfArchiveData Src.BT_EndOfFile
    Sha256.sha256 (aw_order names) pubk dh hkdf_info (gwenc E_aes256 Ghash.gf_mul) (gwtag E_aes256 Ghash.gf_mul)
    (ksf_gcm (cCHUNK k) ntab) tagf_gcm cfg cut_top cut_mid ops
  = aw_write k ntab (pubk (wc_eph cfg)) names (oracle_cfg dh cfg) cut_top cut_mid ops.
Proof. unfold aw_write, aw_wenc, aw_wtag. apply archive_write_oracle_mode. Qed.

(* ---------- (a) c01_encw on write_all pieces + finalize is ew_archive ---------- *)

Section EncW.
  Variables CH CB : N.
  Variable ks : N -> N -> N.
  Variable tagc : N -> bytes -> bytes.

  Lemma ew_write_all_fuel_mono : forall f s b s', ew_write_all CH CB ks tagc f s b = Ok s' ->
    forall f', (f <= f')%nat -> ew_write_all CH CB ks tagc f' s b = Ok s'.
  Proof.
    induction f as [|f IH]; intros s b s' H f' Hle.
    - destruct b; cbn [ew_write_all] in H; [|discriminate]. destruct f'; exact H.
    - destruct f' as [|f']; [lia|]. destruct b as [|x b]; [exact H|].
      cbn [ew_write_all] in H |- *.
      destruct (ew_write CH CB ks tagc s (x :: b)) as [[s1 n]| |]; cbn [bind] in H |- *; try discriminate.
      destruct (n =? 0); [discriminate|]. apply (IH _ _ _ H). lia.
  Qed.

  Lemma ew_write_pieces_fuel_mono f f' : (f <= f')%nat -> forall pieces s s',
    ew_write_pieces CH CB ks tagc f s pieces = Ok s' -> ew_write_pieces CH CB ks tagc f' s pieces = Ok s'.
  Proof.
    intros Hle. induction pieces as [|b r IH]; intros s s' H; cbn [ew_write_pieces] in H |- *; [exact H|].
    destruct (ew_write_all CH CB ks tagc f s b) as [s1| |] eqn:Hb; cbn [bind] in H; try discriminate.
    rewrite (ew_write_all_fuel_mono _ _ _ _ Hb _ Hle). cbn [bind]. apply IH, H.
  Qed.

  Lemma encw_ops_pieces fuel : forall pieces s0 s1 s2,
    ew_write_pieces CH CB ks tagc fuel s0 pieces = Ok s1 -> ew_finalize tagc s1 = Ok s2 ->
    exists rows, encw_ops CH CB ks tagc fuel s0 (map (cons 1) pieces ++ [[3]]) = rows ++ [9 :: ew_out s2].
  Proof.
    induction pieces as [|b r IH]; intros s0 s1 s2 Hp Hf; cbn [ew_write_pieces] in Hp.
    - inversion Hp. subst s1. cbn [map app encw_ops]. rewrite Hf. exists [[0; len (ew_out s2)]]. reflexivity.
    - destruct (ew_write_all CH CB ks tagc fuel s0 b) as [sb| |] eqn:Hb; cbn [bind] in Hp; try discriminate.
      destruct (IH sb s1 s2 Hp Hf) as (rows & Hr).
      cbn [map app encw_ops]. rewrite Hb, Hr. exists ([0; len (ew_out sb)] :: rows). reflexivity.
  Qed.
End EncW.

Lemma len_concat_cons1 (pieces : list bytes) :
  len (concat (map (cons 1) pieces ++ [[3]])) = len (concat pieces) + len pieces + 1.
Proof.
  induction pieces as [|b r IH].
  - reflexivity.
  - cbn [map app concat]. cbn [map app concat] in IH. unfold len in *. cbn [length].
    repeat rewrite app_length. repeat rewrite app_length in IH. cbn [length]. lia.
Qed.

(* the encryption branch of Archive.lower_write (ew_archive with the fuel lower_write gives it)
   succeeds with s  ==>  the rows of c01_encw for "write_all each piece, finalize" end with the
   bytes ew_out s that lower_write returns *)
Theorem encw_ops_is_ew_archive k key nonce8 ntab (mid : list bytes) s :
  let rk := Aes.aes256_expand key in
  let tab := gcm_tab rk nonce8 (cCHUNK k) (N.to_nat ntab) in
  ew_archive (cCHUNK k) (cCIPHERBUF k) (gcm_ks tab) (gcm_tagc rk nonce8)
             (S (N.to_nat (len (concat mid)))) mid = Ok s ->
  exists rows, c01_encw k key nonce8 ntab (map (cons 1) mid ++ [[3]]) = rows ++ [9 :: ew_out s].
Proof.
  intros rk tab H. unfold ew_archive in H.
  destruct (ew_write_pieces (cCHUNK k) (cCIPHERBUF k) (gcm_ks tab) (gcm_tagc rk nonce8)
              (S (N.to_nat (len (concat mid)))) ew_init mid) as [s1| |] eqn:Hp; cbn [bind] in H; try discriminate.
  unfold c01_encw. fold rk. fold tab.
  apply (encw_ops_pieces _ _ _ _ _ mid ew_init s1 s).
  - apply (ew_write_pieces_fuel_mono _ _ _ _ (S (N.to_nat (len (concat mid))))); [|exact Hp].
    unfold ops_fuel. rewrite len_concat_cons1. lia.
  - exact H.
Qed.

(* ---------- (d) the logging wrapper is invisible ---------- *)

Section Sim.
  Variables W1 W2 : Wr.
  Variable pi : wr_st W1 -> wr_st W2.
  Hypothesis Hsim : forall s b, wr_write W2 (pi s) b = (pi (fst (wr_write W1 s b)), snd (wr_write W1 s b)).

  Lemma sim_write_all : forall fuel s b,
    write_all W2 fuel (pi s) b = (pi (fst (write_all W1 fuel s b)), snd (write_all W1 fuel s b)).
  Proof.
    induction fuel as [|fuel IH]; intros s b; destruct b as [|x b]; cbn [write_all fst snd]; try reflexivity.
    rewrite Hsim. destruct (wr_write W1 s (x :: b)) as [s' r]. cbn [fst snd].
    destruct r as [n| |]; [destruct (n =? 0); [reflexivity | apply IH] | apply IH | reflexivity].
  Qed.

  Lemma sim_pos : forall (s : wr_st W1 * N) b,
    pos_write W2 (pi (fst s), snd s) b =
    ((pi (fst (fst (pos_write W1 s b))), snd (fst (pos_write W1 s b))), snd (pos_write W1 s b)).
  Proof.
    intros [s p] b. unfold pos_write. cbn [fst snd]. rewrite Hsim.
    destruct (wr_write W1 s b) as [s' r]. cbn [fst snd]. destruct r; reflexivity.
  Qed.
End Sim.

Lemma logw_sim (W : Wr) : forall (s : wr_st (LogW W)) b,
  wr_write W (fst s) b = (fst (fst (wr_write (LogW W) s b)), snd (wr_write (LogW W) s b)).
Proof.
  intros [s l] b. cbn [LogW wr_write fst snd]. destruct (wr_write W s b) as [s' r]. reflexivity.
Qed.

(* erase the log of a state of SinkStack = PosW (LogW SinkW) *)
Definition erase_log (s : wr_st SinkStack) : wr_st (PosW SinkW) := (fst (fst s), snd s).

(* one Write::write of the position layer in the rows = Sink.pos_write over Sink.sink_write *)
Theorem sinkstack_write s b :
  wr_write (PosW SinkW) (erase_log s) b =
  (erase_log (fst (wr_write SinkStack s b)), snd (wr_write SinkStack s b)).
Proof.
  unfold erase_log. cbn [PosW SinkStack wr_write].
  exact (sim_pos (LogW SinkW) SinkW (@fst _ _) (logw_sim SinkW) s b).
Qed.

(* Write::write_all in the rows = Sink.write_all over the position layer over Sink.sink_write *)
Theorem sinkstack_write_all fuel s b :
  write_all (PosW SinkW) fuel (erase_log s) b =
  (erase_log (fst (write_all SinkStack fuel s b)), snd (write_all SinkStack fuel s b)).
Proof.
  exact (sim_write_all SinkStack (PosW SinkW) erase_log sinkstack_write fuel s b).
Qed.

(* the log is exactly one row per call the sink saw: what it was offered and what it answered *)
Lemma logw_log_step (W : Wr) (s : wr_st (LogW W)) b :
  snd (fst (wr_write (LogW W) s b)) = snd s ++ [wres_row (len b) (snd (wr_write W (fst s) b))].
Proof.
  destruct s as [s l]. cbn [LogW wr_write fst snd]. destruct (wr_write W s b) as [s' r]. reflexivity.
Qed.

(* ---------- (d') the encryption layer writer over a throttling / interrupting sink ---------- *)
From MLA Require Import SinkProofs.

Section EncSink.
  Variables CH CB TG : N.
  Variable ks : N -> N -> N.
  Variable tagc : N -> bytes -> bytes.

  Lemma ew_renew_out_prefix s s' : ew_renew tagc s = Ok s' -> prefix (ew_out s) (ew_out s').
  Proof.
    unfold ew_renew. destruct (2 ^ 32 <=? ew_ctr s + 1); [discriminate|].
    intros H. inversion H. cbn [ew_out]. eexists. reflexivity.
  Qed.

  Lemma ew_write_out_prefix s buf s' n :
    ew_write CH CB ks tagc s buf = Ok (s', n) -> prefix (ew_out s) (ew_out s').
  Proof.
    unfold ew_write. destruct (CH <? ew_off s); [discriminate|].
    destruct (ew_off s =? CH).
    - destruct (ew_renew tagc s) as [s1| |] eqn:Hr; cbn [bind]; try discriminate.
      intros H. inversion H. cbn [ew_out].
      destruct (ew_renew_out_prefix s s1 Hr) as [x ->]. rewrite <- app_assoc. eexists. reflexivity.
    - cbn [bind]. intros H. inversion H. cbn [ew_out]. eexists. reflexivity.
  Qed.

  Lemma es_split_concat renew inc : concat (es_split TG renew inc) = inc.
  Proof.
    unfold es_split. destruct renew; cbn [concat]; rewrite ?app_nil_r; [|reflexivity].
    unfold takeN, dropN. apply firstn_skipn.
  Qed.

  (* one Write::write of the layer over a sink that holds exactly what the layer has emitted so far
     and whose schedule only throttles and interrupts: the call succeeds exactly when the model's
     ew_write does, with its accepted count, and the sink again holds exactly ew_out *)
  Theorem es_write_sink_holds_ew_out fuel s k buf s' n :
    ew_write CH CB ks tagc s buf = Ok (s', n) ->
    sk_data k = ew_out s -> good_sched (sk_sched k) ->
    (N.to_nat (len (ew_out s')) + length (sk_sched k) < fuel)%nat ->
    exists k', es_write CH CB TG ks tagc fuel (s, k) buf = Ok (s', k', n) /\
               sk_data k' = ew_out s' /\ good_sched (sk_sched k').
  Proof.
    intros Hw Hd Hg Hf. unfold es_write. cbn [fst snd]. rewrite Hw. cbn [bind].
    pose proof (ew_write_out_prefix s buf s' n Hw) as Hp.
    destruct (push_outs_spec (es_split TG (ew_off s =? CH)) fuel (es_split_concat _) [ew_out s'] (ew_out s) k)
      as (k' & Hpush & Hdata & Hg'); [split; [exact Hp | exact I] | exact Hg | cbn [last]; exact Hf |].
    rewrite Hpush. exists k'. split; [reflexivity|]. split; [|exact Hg'].
    cbn [last] in Hdata. rewrite Hdata, Hd. destruct Hp as [x Hx]. rewrite Hx, dropN_len_app. reflexivity.
  Qed.

  (* the same for finalize *)
  Theorem es_finalize_sink_holds_ew_out fuel s k s' :
    ew_finalize tagc s = Ok s' ->
    sk_data k = ew_out s -> good_sched (sk_sched k) ->
    (N.to_nat (len (ew_out s')) + length (sk_sched k) < fuel)%nat ->
    exists k', es_finalize TG tagc fuel (s, k) = Ok (s', k') /\
               sk_data k' = ew_out s' /\ good_sched (sk_sched k').
  Proof.
    intros Hw Hd Hg Hf. unfold es_finalize. cbn [fst snd]. rewrite Hw. cbn [bind].
    pose proof (ew_renew_out_prefix s s' Hw) as Hp.
    destruct (push_outs_spec (es_split TG false) fuel (es_split_concat _) [ew_out s'] (ew_out s) k)
      as (k' & Hpush & Hdata & Hg'); [split; [exact Hp | exact I] | exact Hg | cbn [last]; exact Hf |].
    rewrite Hpush. exists k'. split; [reflexivity|]. split; [|exact Hg'].
    cbn [last] in Hdata. rewrite Hdata, Hd. destruct Hp as [x Hx]. rewrite Hx, dropN_len_app. reflexivity.
  Qed.
End EncSink.
