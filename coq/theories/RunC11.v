(* RunC11.v — Tie B entry points for the compression layer and the raw layer (C11).
   The harness passes the REAL inner bytes of the compression layer (blocks and footer as the
   real writer produced them) and, per block, (compressed bytes, plaintext decoded by the
   brotli crate directly); `dec` is the lookup in that table.  Everything else — footer
   parsing, size table, positions, state machine — is the model's. *)
From MLA Require Import Limit.
From MLAGen Require Src.
(* executable entry points: the production value of BINCODE_MAX_DESERIALIZE (the same in both flavours), file-local *)
#[local] Instance RUN_LIMIT : Limit := MLAGen.Src.BINCODE_MAX_DESERIALIZE_prod.
From MLA Require Import Base Stream EncLayer CompLayer RawLayer Inst Run.
From MLAGen Require Src.
Open Scope N_scope.

Definition dec_tab (tab : list (list bytes)) (cb : bytes) : bytes :=
  match find (fun e => bytes_eqb (hd [] e) cb) tab with
  | Some e => hd [] (tl e)
  | None => []
  end.

Definition LIMITC : N := Src.BINCODE_MAX_DESERIALIZE_prod.

Section C11Gen.
  (* rows for any stream: read = read until n bytes or end of stream; after every operation the
     position reported by seek(Current(0)) (stream_position) is observed: p+1, or 0 on error.
     Row: [status; value; pos_after; bytes...] *)
  Variable T : Stream.

  Definition pos_code (s : st T) : st T * N :=
    match sk T s (FromCur 0) with
    | (s', Ok p) => (s', p + 1)
    | (s', _) => (s', 0)
    end.

  Fixpoint gen_ops (s : st T) (ops : list (list N)) : list (list N) :=
    match ops with
    | [] => []
    | op :: rest =>
      match op with
      | 0 :: n :: _ =>
        match read_full T (Datatypes.S (N.to_nat n)) s n with
        | (s', Ok d) => let '(s2, pc) := pos_code s' in ([0; len d; pc] ++ d) :: gen_ops s2 rest
        | (s', Err _) => let '(s2, pc) := pos_code s' in [1; 0; pc] :: gen_ops s2 rest
        | (s', Crash _) => [[2]]
        end
      | _ =>
        match sk T s (op_whence op) with
        | (s', Ok p) => let '(s2, pc) := pos_code s' in [0; p; pc] :: gen_ops s2 rest
        | (s', Err _) => let '(s2, pc) := pos_code s' in [1; 0; pc] :: gen_ops s2 rest
        | (s', Crash _) => [[2]]
        end
      end
    end.
End C11Gen.

Section C11Comp.
  Variable k : consts.
  Let BL := cBLOCK k.

  (* compression layer over raw layer over a cursor.  First row: [status; sizes...] *)
  Definition c11_comp (wire : bytes) (tab : list (list bytes)) (ops : list (list N)) : list (list N) :=
    let S0 := RawReader (Cursor wire) in
    let T := CompReader BL (dec_tab tab) S0 in
    match raw_open (Cursor wire) 0 with
    | (r0, Ok _) =>
      match comp_open LIMITC S0 (raw_initialize (Cursor wire)) r0 with
      | (c, Ok _) =>
        ([0] ++ match c_si c with Some si => si_sizes si | None => [] end) :: gen_ops T c ops
      | (_, Err _) => [[1]]
      | (_, Crash _) => [[2]]
      end
    | (_, Err _) => [[1]]
    | (_, Crash _) => [[2]]
    end.

  (* raw layer over a cursor over header ++ body: new, read_exact(|header|), reset_position *)
  Definition c11_raw (header body : bytes) (ops : list (list N)) : list (list N) :=
    let _ := k in   (* uniform entry-point signature: consts first *)
    let C := Cursor (header ++ body) in
    let T := RawReader C in
    match read_exact T (Datatypes.S (N.to_nat (len header))) (raw_new C 0) (len header) with
    | (r1, Ok _) =>
      match raw_reset C r1 with
      | (r2, Ok _) => [0; r_off r2] :: gen_ops T r2 ops
      | (_, Err _) => [[1]]
      | (_, Crash _) => [[2]]
      end
    | (_, Err _) => [[1]]
    | (_, Crash _) => [[2]]
    end.

  (* the full stack of ArchiveReader::from_config: compression over encryption over raw over a
     cursor over header ++ enc(compwire); the cipher is the toy one (positions and bytes of the
     compression layer do not depend on it). *)
  Let CH := cCHUNK k. Let TG := cTAG k.
  Definition c11_stack_gen (header encw : bytes) (tab : list (list bytes)) (ops : list (list N)) : list (list N) :=
    let arch := header ++ encw in
    let C := Cursor arch in
    let R := RawReader C in
    let E := EncReader CH TG toy_ks (toy_tag TG) R in
    let T := CompReader BL (dec_tab tab) E in
    (* EncryptionLayerReader::initialize = inner.initialize + rewind *)
    let enc_init (e : st E) : st E * res unit :=
      match eseek_start CH TG toy_ks (toy_tag TG) R e 0 with
      | (e', Ok _) => (e', Ok tt) | (e', Err x) => (e', Err x) | (e', Crash x) => (e', Crash x)
      end in
    match read_exact R (Datatypes.S (N.to_nat (len header))) (raw_new C 0) (len header) with
    | (r1, Ok _) =>
      match raw_reset C r1 with
      | (r2, Ok _) =>
        match comp_open LIMITC E enc_init (@mkE R r2 [] 0 0) with
        | (c, Ok _) =>
          ([0] ++ match c_si c with Some si => si_sizes si | None => [] end) :: gen_ops T c ops
        | (_, Err _) => [[1]]
        | (_, Crash _) => [[2]]
        end
      | (_, Err _) => [[1]]
      | (_, Crash _) => [[2]]
      end
    | (_, Err _) => [[1]]
    | (_, Crash _) => [[2]]
    end.
  Definition c11_stack (header compwire : bytes) (tab : list (list bytes)) (ops : list (list N)) : list (list N) :=
    c11_stack_gen header (enc_format CH toy_ks (toy_tag TG) compwire) tab ops.
End C11Comp.

(* the compression writer's block roll-over: one Write::write call per entry (sizes of the
   buffers handed in; 0 = an empty buffer), then finalize.  Rows: [0; accepted] per call, then
   [0; number of compressed sizes; last_block_size] read back from the model's footer.  The
   compressor is the toy one: the shape does not depend on it. *)
Section C11Writer.
  Variable k : consts.
  Let BL := cBLOCK k.

  Fixpoint cw_calls (w : cwriter) (sizes : list N) : cwriter * list (list N) :=
    match sizes with
    | [] => (w, [])
    | s :: r =>
      match cw_write BL toy_comp w (repeat 0 (N.to_nat s)) with
      | (w', Ok n) => let '(w2, rows) := cw_calls w' r in (w2, [0; n] :: rows)
      | (w', Err _) => let '(w2, rows) := cw_calls w' r in (w2, [1; 0] :: rows)
      | (w', Crash _) => (w', [[2]])
      end
    end.

  Definition c11_cw (sizes : list N) : list (list N) :=
    let '(w, rows) := cw_calls cw_init sizes in
    rows ++
    match cw_finalize toy_comp w with
    | (w2, Ok _) => [[0; len (cw_sizes w2); le_val (sliceN (len (cw_out w2) - 8) 4 (cw_out w2))]]
    | (_, Err _) => [[1]]
    | (_, Crash _) => [[2]]
    end.
End C11Writer.
