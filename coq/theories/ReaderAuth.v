(* ReaderAuth.v — C03 at the archive level, over a KNOWN original block stream.

   plain = ser_blocks bl ++ [T_EOA] ++ ser_footer m is the ORIGINAL block stream (what an
   ArchiveWriter run handed to the top layer: ReaderAuthRun.v ties bl and m to the writer
   calls).  S is any stream that agrees on plain (EncAuthStream.AgreesOn): the encryption
   reader over ARBITRARY inner bytes, barring forgery.

   Under the one hypothesis that the end CLAIMED by the stream is not before the true end,
       HE : len plain <= E
   (for the encryption reader: the length of the altered wire still maps to at least the
   original plaintext length — whole trailing chunks were not dropped; this is exactly what
   known finding D17 violates, and nothing authenticates it),
   every Ok of the reader is the ORIGINAL result:
     read_footer / ropen      -> the footer is m                          (read_footer_orig)
     get_hash                 -> the recorded hash of the file            (get_hash_orig)
     get_file, bread          -> each read delivers the NEXT bytes of the file's content,
                                 possibly fewer than asked, possibly none before the end
                                 (bread_step_orig, invariant RoundTripReader.RI over I)
     read_all                 -> a PREFIX of the content                  (read_all_prefix)
   Errors are always possible; after an error of a file read nothing is claimed for that
   BlocksToFileReader (the archive reader itself stays usable: ReaderAuthSim.get_*_sim). *)
From MLA Require Import Limit.
From MLA Require Import Base Stream Blocks Reader EncAuth EncAuthStream ReaderAuthSim
  RoundTripBlocks RoundTripFooter RoundTripReader.
From Coq Require Import ZifyBool ZifyNat ZifyN.
Open Scope N_scope.

(* ---------- the bincode parsers are stable under extension of the input ---------- *)
Lemma take_u64_app b x v r : take_u64 b = Some (v, r) -> take_u64 (b ++ x) = Some (v, r ++ x).
Proof.
  unfold take_u64. rewrite len_app. destruct (N.ltb_spec (len b) 8) as [|Hb]; [discriminate|].
  intros [= <- <-]. destruct (N.ltb_spec (len b + len x) 8); [lia|].
  rewrite takeN_app_le, dropN_app_le by lia. reflexivity.
Qed.
Lemma take_u64s_app n x : forall b vs r, take_u64s n b = Some (vs, r) -> take_u64s n (b ++ x) = Some (vs, r ++ x).
Proof.
  induction n as [|n IH]; intros b vs r; cbn [take_u64s].
  - intros [= <- <-]. reflexivity.
  - destruct (take_u64 b) as [[v r1]|] eqn:E1; [|discriminate].
    destruct (take_u64s n r1) as [[vs' r2]|] eqn:E2; [|discriminate]. intros [= <- <-].
    rewrite (take_u64_app _ x _ _ E1), (IH _ _ _ E2). reflexivity.
Qed.
Lemma parse_entry_app b x e r : parse_entry b = Some (e, r) -> parse_entry (b ++ x) = Some (e, r ++ x).
Proof.
  unfold parse_entry.
  destruct (take_u64 b) as [[nl r1]|] eqn:E1; [|discriminate].
  rewrite (take_u64_app _ x _ _ E1).
  destruct (N.ltb_spec (len r1) nl) as [|Hnl]; [discriminate|].
  rewrite len_app. destruct (N.ltb_spec (len r1 + len x) nl); [lia|].
  rewrite takeN_app_le, dropN_app_le by lia.
  destruct (negb (utf8_valid (takeN nl r1))); [discriminate|].
  destruct (take_u64 (dropN nl r1)) as [[no r2]|] eqn:E2; [|discriminate].
  rewrite (take_u64_app _ x _ _ E2).
  destruct (N.ltb_spec (len r2) (8 * no)) as [|Hno]; [discriminate|].
  rewrite len_app. destruct (N.ltb_spec (len r2 + len x) (8 * no)); [lia|].
  destruct (take_u64s (N.to_nat no) r2) as [[offs r3]|] eqn:E3; [|discriminate].
  rewrite (take_u64s_app _ x _ _ _ E3).
  destruct (take_u64 r3) as [[size r4]|] eqn:E4; [|discriminate].
  rewrite (take_u64_app _ x _ _ E4).
  destruct (take_u64 r4) as [[eof r5]|] eqn:E5; [|discriminate].
  rewrite (take_u64_app _ x _ _ E5).
  intros [= <- <-]. reflexivity.
Qed.
Lemma parse_entries_app n x : forall b es, parse_entries n b = Some es -> parse_entries n (b ++ x) = Some es.
Proof.
  induction n as [|n IH]; intros b es; cbn [parse_entries]; [auto|].
  destruct (parse_entry b) as [[e r]|] eqn:E1; [|discriminate].
  destruct (parse_entries n r) as [es'|] eqn:E2; [|discriminate]. intros [= <-].
  rewrite (parse_entry_app _ x _ _ E1), (IH _ _ E2). reflexivity.
Qed.
Lemma parse_footer_map_app b x m : parse_footer_map b = Some m -> parse_footer_map (b ++ x) = Some m.
Proof.
  unfold parse_footer_map. destruct (take_u64 b) as [[n r]|] eqn:E1; [|discriminate].
  rewrite (take_u64_app _ x _ _ E1).
  destruct (N.ltb_spec (len r) (32 * n)) as [|Hn]; [discriminate|].
  rewrite len_app. destruct (N.ltb_spec (len r + len x) (32 * n)); [lia|].
  apply parse_entries_app.
Qed.

Section ReaderAuth.
  Context {LIM : Limit}.
  Variable FNMAX : N.
  Variables T_START T_CONTENT T_EOA T_EOF : N.
  Hypothesis Htags : tags_distinct T_START T_CONTENT T_EOA T_EOF.

  Notation ser_block := (ser_block T_START T_CONTENT T_EOA T_EOF).
  Notation ser_blocks := (ser_blocks T_START T_CONTENT T_EOA T_EOF).
  Notation wfb := (wfb FNMAX).
  Notation run_offs := (run_offs T_START T_CONTENT T_EOA T_EOF).
  Notation parse_block := (parse_block FNMAX T_START T_CONTENT T_EOA T_EOF).
  Notation next_block := (next_block FNMAX T_START T_CONTENT T_EOA T_EOF).

  Variable S : Stream.
  Variable I : st S -> N -> Prop.
  Variable plain : bytes.
  Variable E : N.
  Hypothesis HA : AgreesOn S I plain E.

  Notation bread := (bread FNMAX T_START T_CONTENT T_EOA T_EOF S).
  Notation bread_ready := (bread_ready FNMAX T_START T_CONTENT T_EOA T_EOF S).
  Notation bread_data := (bread_data S).
  Notation get_file := (get_file FNMAX T_START T_CONTENT T_EOA T_EOF S).
  Notation get_hash := (get_hash FNMAX T_START T_CONTENT T_EOA T_EOF S).
  Notation read_all := (read_all FNMAX T_START T_CONTENT T_EOA T_EOF S).
  Notation Live := (Live S I).

  (* the original block stream *)
  Variable bl : list block.
  Variable m : footer.
  Hypothesis Hplain : plain = ser_blocks bl ++ [T_EOA] ++ ser_footer m.
  Hypothesis Hwf : Forall wfb bl.
  Hypothesis Hnoend : ~ In BEnd bl.
  Hypothesis Hwfm : wf_footer m.
  Hypothesis Hlen32 : len (ser_footer_map m) < 2 ^ 32.

  (* ---------- the footer, under "the claimed end is not before the true end" ---------- *)
  Theorem footer_at_orig m' : len plain <= E -> FooterAt plain E m' -> m' = m.
  Proof.
    intros HE (pos & b & Hpos & Hp4 & Hl & Hb & Hlb & Hparse). cbv zeta in *.
    set (fb := ser_footer_map m) in *. set (body := ser_blocks bl ++ [T_EOA]).
    assert (Hpl : plain = (body ++ fb) ++ le32 (len fb) ++ []).
    { rewrite Hplain. unfold body, ser_footer. fold fb. rewrite app_nil_r, <- !app_assoc. reflexivity. }
    assert (Hlp : len plain = len body + len fb + 4).
    { rewrite Hpl, !len_app, len_le32, len_nil. lia. }
    assert (Hpe : pos = len (body ++ fb)) by (rewrite len_app; lia).
    assert (Hl4 : sliceN pos 4 plain = le32 (len fb)).
    { rewrite Hpe, Hpl. rewrite <- (len_le32 (len fb)) at 1. apply sliceN_mid. }
    rewrite Hl4, le32_val in * by exact Hlen32.
    assert (Hpl2 : plain = body ++ fb ++ le32 (len fb)).
    { rewrite Hpl, app_nil_r, <- app_assoc. reflexivity. }
    assert (Hbb : b = takeN (len b) fb).
    { rewrite Hb at 1. replace (pos - len fb) with (len body) by (rewrite Hpe, len_app; lia).
      rewrite Hpl2. unfold sliceN. rewrite dropN_len_app. apply takeN_app_le. exact Hlb. }
    pose proof (parse_footer_map_app b (dropN (len b) fb) m' Hparse) as Hx.
    rewrite Hbb in Hx at 1. rewrite takeN_dropN in Hx.
    unfold fb in Hx. rewrite (parse_ser_footer_map m Hwfm) in Hx. congruence.
  Qed.

  Theorem read_footer_orig s p s' m' : len plain <= E -> I s p ->
    read_footer S s = (s', Ok m') -> m' = m.
  Proof.
    intros HE HI Hrf. destruct (read_footer_sim S I plain E HA s p HI) as (s1 & r1 & He & _ & Hm).
    rewrite Hrf in He. injection He as <- <-. apply (footer_at_orig m' HE). apply Hm. reflexivity.
  Qed.

  Theorem ropen_orig s p r : len plain <= E -> I s p -> ropen S s = Ok r -> r_meta r = m /\ I (r_src r) 0.
  Proof.
    intros HE HI Hop. destruct (ropen_sim S I plain E HA s p r HI Hop) as [HF H0].
    split; [exact (footer_at_orig _ HE HF) | exact H0].
  Qed.

  (* ---------- parsing at a block boundary ---------- *)
  Let post : bytes := [T_EOA] ++ ser_footer m.
  Let RC : st (Cursor plain) -> N -> Prop := fun s p => s = p /\ p <= len plain.
  Lemma HRC : Refines (Cursor plain) (ser_blocks bl ++ post) RC.
  Proof. unfold post, RC. rewrite <- Hplain. apply cursor_refines. Qed.

  Lemma pos_le done rest : bl = done ++ rest -> len (ser_blocks done) <= len plain.
  Proof. intros ->. rewrite Hplain, ser_blocks_app, !len_app. lia. Qed.

  Lemma parse_orig s done x rest s' pb : bl = done ++ x :: rest -> I s (len (ser_blocks done)) ->
    parse_block S s = (s', Ok pb) -> pb = pb_of x /\ I s' (len (ser_blocks done) + hdr_len x).
  Proof.
    intros Hbl HI Hp.
    destruct (parse_block_sim S I plain E HA FNMAX T_START T_CONTENT T_EOA T_EOF s _ HI) as (s1 & r1 & He & H1).
    rewrite Hp in He. injection He as <- <-. destruct H1 as (p' & Hc & HI' & _).
    destruct (parse_at FNMAX _ _ _ _ Htags (Cursor plain) bl post RC HRC Hwf (len (ser_blocks done)) done x rest Hbl)
      as (s2 & Hc2 & [-> _]); [split; [reflexivity | exact (pos_le done _ Hbl)]|].
    rewrite Hc in Hc2. injection Hc2 as -> ->. auto.
  Qed.

  Lemma next_orig zf j s done x rest s' pb : bl = done ++ x :: rest -> I s (len (ser_blocks done)) ->
    next_block S zf j s = (s', Ok pb) -> pb = pb_of x /\ I s' (len (ser_blocks done) + hdr_len x).
  Proof.
    intros Hbl HI Hp.
    destruct (next_block_sim S I plain E HA FNMAX T_START T_CONTENT T_EOA T_EOF zf j s _ HI) as (s1 & r1 & He & H1).
    rewrite Hp in He. injection He as <- <-. destruct H1 as (p' & Hc & HI' & _).
    destruct (next_at FNMAX _ _ _ _ Htags (Cursor plain) bl post RC HRC Hwf zf j (len (ser_blocks done)) done x rest Hbl)
      as (s2 & Hc2 & [-> _]); [split; [reflexivity | exact (pos_le done _ Hbl)]|].
    rewrite Hc in Hc2. injection Hc2 as -> ->. auto.
  Qed.

  (* ---------- BlocksToFileReader::read ---------- *)
  Variable id : N.
  Notation offs := (run_offs id None 0 bl).
  Notation RI := (RI T_START T_CONTENT T_EOA T_EOF S bl I id).

  Lemma is_id_refl' i : is_id (Some i) i = true.
  Proof. cbn [is_id]. apply N.eqb_refl. Qed.

  Lemma bread_data_orig bs0 s done d rest ds h rem n bs' dd :
    bl = done ++ BContent id d :: rest -> 0 < rem -> rem <= len d ->
    I s (len (ser_blocks done) + 17 + (len d - rem)) ->
    b_id bs0 = id -> b_offs bs0 = offs ->
    Datatypes.S (b_cur bs0) = length (run_offs id None 0 (done ++ [BContent id d])) ->
    proj id rest = map (BContent id) ds ++ [BEof id h] ->
    bread_data bs0 s rem n = (bs', Ok dd) ->
    exists todo', dropN (len d - rem) d ++ concat ds = dd ++ todo' /\ RI bs' todo'.
  Proof.
    intros Hbl Hrem0 Hrem HIs Hid Hoffs Hcur Hproj Hbd.
    set (j := len d - rem) in *.
    set (pre := ser_blocks done ++ [T_CONTENT] ++ le64 id ++ le64 (len d) ++ takeN j d).
    assert (Hlpre : len pre = len (ser_blocks done) + 17 + j).
    { unfold pre. rewrite !len_app, !len_le64, len_takeN, len_cons, len_nil. lia. }
    assert (Hb : plain = pre ++ dropN j d ++ (ser_blocks rest ++ post)).
    { rewrite Hplain, Hbl, ser_blocks_app, ser_blocks_cons. unfold pre, post. cbn [Blocks.ser_block].
      rewrite <- (takeN_dropN j d) at 2. rewrite <- !app_assoc. reflexivity. }
    assert (Hlx : len (dropN j d) = rem) by (rewrite len_dropN; lia).
    unfold Reader.bread_data in Hbd.
    destruct (ag_rd _ _ _ _ HA s _ (N.min rem n) HIs) as (s1 & r1 & Hrd & H1). rewrite Hrd in Hbd.
    destruct r1 as [d0|e|c]; [|discriminate..]. destruct H1 as [Hd0 HI1].
    destruct (N.ltb_spec rem (len d0)) as [|Hk]; [discriminate|]. injection Hbd as <- <-.
    set (k := len d0) in *.
    assert (Hd0' : d0 = takeN k (dropN j d)).
    { rewrite Hd0. rewrite <- Hlpre, Hb. unfold sliceN. rewrite dropN_len_app. apply takeN_app_le. lia. }
    exists (dropN k (dropN j d) ++ concat ds).
    split; [rewrite Hd0' at 1; rewrite app_assoc, takeN_dropN; reflexivity|].
    destruct (N.ltb_spec 0 (rem - k)) as [Hgt|Hle].
    - eapply (RI_infile _ _ _ _ _ _ _ _ _ _ done d (rem - k) rest ds h); cbn [bset b_mode b_src b_id b_offs b_cur]; auto.
      + lia.
      + replace (len (ser_blocks done) + 17 + (len d - (rem - k))) with (len (ser_blocks done) + 17 + j + k) by lia.
        exact HI1.
      + rewrite dropN_dropN. do 2 f_equal. lia.
    - assert (Hkr : k = rem) by lia.
      eapply (RI_ready _ _ _ _ _ _ _ _ _ _ (done ++ [BContent id d]) rest ds h); cbn [bset b_mode b_src b_id b_offs b_cur]; auto.
      + rewrite Hbl, <- app_assoc. reflexivity.
      + rewrite ser_blocks_app, ser_blocks_cons, ser_blocks_nil, app_nil_r, len_app.
        cbn [Blocks.ser_block]. rewrite !len_app, !len_le64, len_cons, len_nil.
        replace (len (ser_blocks done) + (0 + 1 + (8 + (8 + len d)))) with (len (ser_blocks done) + 17 + j + k) by lia.
        exact HI1.
      + rewrite last_id_app. apply is_id_refl'.
      + rewrite (dropN_all k) by lia. reflexivity.
  Qed.

  Lemma bread_ready_hit_orig fuel zf bs done x rest xs ds h n bs' dd :
    bl = done ++ x :: rest ->
    I (b_src bs) (len (ser_blocks done)) ->
    b_id bs = id -> b_offs bs = offs ->
    Datatypes.S (b_cur bs) = length (run_offs id None 0 (done ++ [x])) ->
    x :: xs = map (BContent id) ds ++ [BEof id h] -> proj id rest = xs ->
    bread_ready fuel zf bs n = (bs', Ok dd) ->
    exists todo', concat ds = dd ++ todo' /\ RI bs' todo'.
  Proof.
    intros Hbl HIs Hid Hoffs Hcur Hx Hproj Hbr.
    destruct (next_block S zf (b_id bs) (b_src bs)) as [s1 r1] eqn:Hnb.
    assert (Hr1 : forall pb, r1 = Ok pb -> pb = pb_of x /\ I s1 (len (ser_blocks done) + hdr_len x)).
    { intros pb ->. exact (next_orig zf _ _ done x rest s1 pb Hbl HIs Hnb). }
    destruct ds as [|d0 ds]; cbn [map app] in Hx; injection Hx as -> ->.
    - (* EndOfFile *)
      assert (Hres : bs' = bset S bs s1 BFinish /\ dd = []).
      { destruct fuel; cbn [Reader.bread_ready] in Hbr; rewrite Hnb in Hbr;
          (destruct r1 as [pb|e|c]; [|discriminate..]); destruct (Hr1 pb eq_refl) as [-> _];
          cbn [pb_of] in Hbr; cbv beta iota zeta in Hbr; rewrite Hid, N.eqb_refl in Hbr;
          injection Hbr as <- <-; auto. }
      destruct Hres as [-> ->]. exists []. split; [reflexivity|]. apply RI_finish; reflexivity.
    - (* FileContent *)
      assert (Hres : exists s1', I s1' (len (ser_blocks done) + 17) /\
                bread_data (bset S bs s1' BReady) s1' (len d0) n = (bs', Ok dd)).
      { destruct fuel; cbn [Reader.bread_ready] in Hbr; rewrite Hnb in Hbr;
          (destruct r1 as [pb|e|c]; [|discriminate..]); destruct (Hr1 pb eq_refl) as [-> HI1];
          cbn [pb_of hdr_len] in Hbr, HI1; cbv beta iota zeta in Hbr; rewrite Hid, N.eqb_refl in Hbr;
          exists s1; auto. }
      destruct Hres as (s1' & HI1 & Hbd).
      assert (Hwd : wfb (BContent id d0)).
      { rewrite Forall_forall in Hwf. apply Hwf. rewrite Hbl. apply in_or_app. right. left. reflexivity. }
      destruct Hwd as (_ & Hdpos & _).
      destruct (bread_data_orig (bset S bs s1' BReady) s1' done d0 rest ds h (len d0) n bs' dd Hbl) as (todo' & Htd & HRI);
        cbn [bset b_id b_offs b_cur]; auto; try lia.
      + replace (len (ser_blocks done) + 17 + (len d0 - len d0)) with (len (ser_blocks done) + 17) by lia. exact HI1.
      + exists todo'. rewrite N.sub_diag, dropN_0 in Htd. auto.
  Qed.

  Lemma nth_error_mid' {A} (l1 : list A) x l2 : nth_error (l1 ++ x :: l2) (length l1) = Some x.
  Proof. rewrite nth_error_app2 by lia. rewrite Nat.sub_diag. reflexivity. Qed.

  Lemma bread_ready_orig fuel zf bs done rest ds h n bs' dd :
    bl = done ++ rest ->
    I (b_src bs) (len (ser_blocks done)) ->
    b_id bs = id -> b_offs bs = offs ->
    Datatypes.S (b_cur bs) = length (run_offs id None 0 done) ->
    is_id (last_id None done) id = true ->
    proj id rest = map (BContent id) ds ++ [BEof id h] ->
    bread_ready (Datatypes.S fuel) zf bs n = (bs', Ok dd) ->
    exists todo', concat ds = dd ++ todo' /\ RI bs' todo'.
  Proof.
    intros Hbl HIs Hid Hoffs Hcur Hlast Hproj Hbr.
    assert (Hne : exists x xs, map (BContent id) ds ++ [BEof id h] = x :: xs).
    { destruct ds; cbn [map app]; eauto. }
    destruct Hne as (x & xs & Hx). rewrite Hx in Hproj.
    destruct (proj_split id rest x xs Hproj) as (skipped & rest2 & -> & Hsk & Hr2 & Hhx).
    destruct skipped as [|y sk].
    - cbn [app] in Hbl.
      apply (bread_ready_hit_orig (Datatypes.S fuel) zf bs done x rest2 xs ds h n bs' dd); auto.
      rewrite run_offs_app. cbn [Blocks.ser_block RoundTripBlocks.run_offs].
      rewrite Hlast. rewrite andb_false_r. cbn [app]. rewrite app_nil_r. exact Hcur.
    - cbn [app] in Hbl.
      cbn [proj filter] in Hsk. destruct (has_id id y) eqn:Ey; [discriminate|].
      set (done2 := done ++ y :: sk).
      assert (Hbl2 : bl = done2 ++ x :: rest2) by (unfold done2; rewrite Hbl, <- app_assoc; reflexivity).
      assert (Hro : forall tl, run_offs id None 0 (done2 ++ x :: tl) =
                run_offs id None 0 done ++ len (ser_blocks done2) ::
                run_offs id (block_id x) (len (ser_blocks done2) + len (ser_block x)) tl).
      { intros tl. unfold done2. rewrite <- app_assoc. rewrite run_offs_app. f_equal.
        rewrite run_offs_app.
        rewrite (run_offs_foreign _ _ _ _ id _ _ (y :: sk)) by (cbn [proj filter]; rewrite Ey; exact Hsk).
        cbn [app RoundTripBlocks.run_offs]. rewrite Hhx.
        change (last_id (last_id None done) (y :: sk)) with (last_id (block_id y) sk).
        rewrite (last_id_foreign id (block_id y) sk Hsk) by exact Ey.
        cbn [andb negb app]. rewrite ser_blocks_app, len_app, N.add_0_l. reflexivity. }
      assert (Hnth : nth_error offs (Datatypes.S (b_cur bs)) = Some (len (ser_blocks done2))).
      { rewrite Hbl2 at 1. rewrite Hro, Hcur. apply nth_error_mid'. }
      cbn [Reader.bread_ready] in Hbr.
      destruct (next_block S zf (b_id bs) (b_src bs)) as [s1 r1] eqn:Hnb.
      destruct r1 as [pb|e|c]; [|discriminate..].
      destruct (next_orig zf _ _ done y (sk ++ x :: rest2) s1 pb Hbl HIs Hnb) as [-> HI1].
      assert (Hskip : (let b1 := bset S bs s1 BReady in
                match Reader.bmove S b1 with
                | (b2, Ok _) => bread_ready fuel zf b2 n
                | (b2, Err e) => (b2, Err e)
                | (b2, Crash c) => (b2, Crash c)
                end) = (bs', Ok dd)).
      { assert (Hidy : forall i, block_id y = Some i -> (i =? b_id bs) = false).
        { intros i Hi. unfold has_id in Ey. rewrite Hi in Ey. rewrite Hid. exact Ey. }
        cbv zeta in Hbr |- *.
        destruct y as [i nm|i dt|i hh|]; cbn [pb_of block_id] in *.
        - rewrite (Hidy i eq_refl) in Hbr. exact Hbr.
        - rewrite (Hidy i eq_refl) in Hbr. exact Hbr.
        - rewrite (Hidy i eq_refl) in Hbr. exact Hbr.
        - exfalso. apply Hnoend. rewrite Hbl. apply in_or_app. right. left. reflexivity. }
      cbv zeta in Hskip. unfold bmove in Hskip. cbn [bset b_cur b_offs b_src b_mode b_id] in Hskip.
      rewrite Hoffs, Hnth in Hskip.
      destruct (ag_sk _ _ _ _ HA s1 _ (FromStart (len (ser_blocks done2))) HI1) as (s2 & r2 & Hsk2 & H2).
      rewrite Hsk2 in Hskip. destruct r2 as [q|e|c]; [|discriminate..].
      destruct H2 as [HI2 Hq]. cbn [seek_claim] in Hq. subst q.
      rewrite Hid in Hskip.
      set (bs2 := mkB s2 BReady id (Datatypes.S (b_cur bs)) offs) in *.
      apply (bread_ready_hit_orig fuel zf bs2 done2 x rest2 xs ds h n bs' dd Hbl2); auto.
      cbn [bs2 b_cur]. pose proof (Hro []) as Hro'. rewrite Hro'. cbn [RoundTripBlocks.run_offs].
      rewrite app_length. cbn [length]. lia.
  Qed.

  (* one successful call of read: what it delivers is the beginning of what is still to come *)
  Theorem bread_step_orig zf bs todo n bs' dd : RI bs todo -> bread zf bs n = (bs', Ok dd) ->
    exists todo', todo = dd ++ todo' /\ RI bs' todo'.
  Proof.
    intros HRI Hbr. destruct HRI; unfold Reader.bread in Hbr; rewrite Hmode in Hbr.
    - destruct (bread_ready_orig (length (b_offs bs)) zf bs done rest ds h n bs' dd Hbl Hpos Hid Hoffs Hcur Hlast Hproj Hbr)
        as (todo' & Htd & HRI').
      exists todo'. subst todo. auto.
    - destruct (bread_data_orig bs (b_src bs) done d rest ds h rem n bs' dd Hbl) as (todo' & Htd & HRI'); auto; try lia.
      exists todo'. subst todo. auto.
    - injection Hbr as <- <-. exists []. subst todo. split; [reflexivity | apply RI_finish; auto].
  Qed.

  (* reading until a read delivers nothing (or fails): a prefix of the content *)
  Theorem read_all_prefix sizes zf : forall fuel bs todo i acc bs' out, RI bs todo ->
    read_all zf fuel bs sizes i acc = (bs', Ok out) -> exists d, out = acc ++ d /\ prefix d todo.
  Proof.
    induction fuel as [|f IH]; intros bs todo i acc bs' out HRI Hra; cbn [RoundTripReader.read_all] in Hra; [discriminate|].
    destruct (bread zf bs (sizes i)) as [bs1 r1] eqn:Hbr.
    destruct r1 as [dd|e|c]; [|discriminate..].
    destruct (bread_step_orig zf bs todo (sizes i) bs1 dd HRI Hbr) as (todo' & Htd & HRI').
    destruct dd as [|x dd].
    - injection Hra as <- <-. exists []. rewrite app_nil_r. split; [reflexivity|]. exists todo. reflexivity.
    - destruct (IH bs1 todo' (Datatypes.S i) (acc ++ x :: dd) bs' out HRI' Hra) as (d & -> & [r ->]).
      exists ((x :: dd) ++ d). rewrite app_assoc. split; [reflexivity|]. exists r. subst todo. rewrite app_assoc. reflexivity.
  Qed.

  (* ---------- get_file / get_hash on a reader holding the original footer ---------- *)
  Definition RStateA (r : rstate S) : Prop := r_meta r = m /\ Live (r_src r).

  Theorem get_file_orig r name fi nm ds h r' bs sz :
    RStateA r -> flookup m name = Some fi -> fi_offsets fi = offs ->
    proj id bl = BStart id nm :: map (BContent id) ds ++ [BEof id h] ->
    get_file r name = (r', Ok (Some (bs, sz))) ->
    RStateA r' /\ sz = fi_size fi /\ RI bs (concat ds).
  Proof.
    intros [Hm HL] Hl Hoff Hproj Hgf.
    destruct (get_file_sim S I plain E HA FNMAX T_START T_CONTENT T_EOA T_EOF r name HL)
      as (r1 & x1 & He & HL1 & Hm1 & Hx).
    rewrite Hgf in He. injection He as <- <-.
    destruct (Hx bs sz eq_refl) as (fi' & o0 & offs' & i & nm' & p' & Hl' & Hoffs' & -> & Hc & -> & HI').
    rewrite Hm, Hl in Hl'. injection Hl' as <-.
    split; [split; [congruence | exact HL1]|]. split; [reflexivity|].
    destruct (proj_split id bl _ _ Hproj) as (pre & rest & Hbl & Hpre & Hrest & Hh).
    assert (Hro : offs = len (ser_blocks pre) ::
              run_offs id (Some id) (len (ser_blocks pre) + len (ser_block (BStart id nm))) rest).
    { rewrite Hbl at 1. rewrite run_offs_app, (run_offs_foreign _ _ _ _ id _ _ pre Hpre).
      cbn [app RoundTripBlocks.run_offs block_id]. rewrite Hh.
      rewrite (last_id_foreign id None pre Hpre eq_refl). cbn [andb negb app].
      rewrite N.add_0_l. reflexivity. }
    assert (Ho0 : o0 = len (ser_blocks pre)) by (rewrite Hoff, Hro in Hoffs'; congruence).
    subst o0.
    destruct (parse_at FNMAX _ _ _ _ Htags (Cursor plain) bl post RC HRC Hwf (len (ser_blocks pre)) pre _ rest Hbl)
      as (s2 & Hc2 & [-> _]); [split; [reflexivity | exact (pos_le pre _ Hbl)]|].
    rewrite Hc in Hc2. injection Hc2 as -> -> ->. cbn [hdr_len] in HI'.
    apply (RI_ready _ _ _ _ _ _ _ _ _ _ (pre ++ [BStart id nm]) rest ds h); cbn [b_mode b_src b_id b_offs b_cur]; auto.
    - rewrite Hbl, <- app_assoc. reflexivity.
    - rewrite ser_blocks_app, ser_blocks_cons, ser_blocks_nil, app_nil_r, len_app.
      assert (Hw : wfb (BStart id nm)).
      { rewrite Forall_forall in Hwf. apply Hwf. rewrite Hbl. apply in_or_app. right. left. reflexivity. }
      rewrite (len_ser_block FNMAX _ _ _ _ _ Hw). cbn [data_of hdr_len]. rewrite len_nil, N.add_0_r. exact HI'.
    - rewrite run_offs_app, (run_offs_foreign _ _ _ _ id _ _ pre Hpre).
      cbn [app RoundTripBlocks.run_offs block_id]. rewrite Hh.
      rewrite (last_id_foreign id None pre Hpre eq_refl). reflexivity.
    - rewrite last_id_app. apply is_id_refl'.
  Qed.

  Theorem get_hash_orig r name fi pre i h rest r' h' :
    RStateA r -> flookup m name = Some fi ->
    bl = pre ++ BEof i h :: rest -> fi_eof fi = len (ser_blocks pre) ->
    get_hash r name = (r', Ok (Some h')) -> h' = h /\ RStateA r'.
  Proof.
    intros [Hm HL] Hl Hbl Heof Hgh.
    destruct (get_hash_sim S I plain E HA FNMAX T_START T_CONTENT T_EOA T_EOF r name HL)
      as (r1 & x1 & He & HL1 & Hm1 & Hx).
    rewrite Hgh in He. injection He as <- <-.
    destruct (Hx h' eq_refl) as (fi' & i' & p' & Hl' & Hc).
    rewrite Hm, Hl in Hl'. injection Hl' as <-. rewrite Heof in Hc.
    destruct (parse_at FNMAX _ _ _ _ Htags (Cursor plain) bl post RC HRC Hwf (len (ser_blocks pre)) pre _ rest Hbl)
      as (s2 & Hc2 & _); [split; [reflexivity | exact (pos_le pre _ Hbl)]|].
    rewrite Hc in Hc2. injection Hc2 as _ _ ->. split; [reflexivity|]. split; [congruence | exact HL1].
  Qed.

  (* whatever get_file / get_hash return, the archive reader stays in RStateA *)
  Lemma get_file_keeps r name : RStateA r -> RStateA (fst (get_file r name)).
  Proof.
    intros [Hm HL].
    destruct (get_file_sim S I plain E HA FNMAX T_START T_CONTENT T_EOA T_EOF r name HL) as (r1 & x1 & -> & HL1 & Hm1 & _).
    split; [cbn [fst]; congruence | exact HL1].
  Qed.
  Lemma get_hash_keeps r name : RStateA r -> RStateA (fst (get_hash r name)).
  Proof.
    intros [Hm HL].
    destruct (get_hash_sim S I plain E HA FNMAX T_START T_CONTENT T_EOA T_EOF r name HL) as (r1 & x1 & -> & HL1 & Hm1 & _).
    split; [cbn [fst]; congruence | exact HL1].
  Qed.
End ReaderAuth.
