(* ComposeWriterRun.v — ANY clean run of the archive writer model (calls in any order, refused
   calls included; no finalize, no short source) leaves a block stream that is the
   serialisation of a WELL-FORMED block list (RepairSpec.wf_blocks: what the repair theorems
   are about), and the data that list holds for each file id is exactly the concatenation of
   the successful appends to it, in call order.

   RepairProofs2 has the forward direction (a well-formed block makes the matching writer call
   succeed and keeps `Wrep`); here the calls are given and the blocks are derived. *)
From MLA Require Import Limit.
From MLA Require Import Base Stream Blocks Writer WriterProofs RepairSpec RepairPure RepairProofs2 FlushProofs.
From Coq Require Import ZifyBool ZifyNat ZifyN.
Open Scope N_scope.

Lemma name_used_find fs name : name_used (name_list fs) name = false -> find_name fs name = None.
Proof.
  unfold name_used, name_list. induction fs as [|x r IH]; [reflexivity|].
  rewrite find_name_cons. cbn [map existsb fst]. destruct (bytes_eqb (f_name x) name); [discriminate | exact IH].
Qed.
(* with distinct ids *)
Lemma alookup_open_inv fs id h : ids_nodup fs -> alookup (open_list fs) id = Some h ->
  exists f, find_id fs id = Some f /\ f_ended f = false.
Proof.
  unfold ids_nodup. induction fs as [|x r IH]; [discriminate|]. cbn [map]. intros Hnd.
  apply NoDup_cons_iff in Hnd. destruct Hnd as [Hx Hnd].
  rewrite find_id_cons, open_list_cons.
  assert (Hkeys : forall h', alookup (open_list r) (f_id x) = Some h' -> False).
  { intros h' Hh. apply Hx. apply open_list_keys. clear - Hh.
    induction (open_list r) as [|[k v] l IHl]; [discriminate|]. cbn [alookup map fst] in *.
    destruct (N.eqb_spec k (f_id x)); [left; assumption | right; auto]. }
  destruct (f_ended x) eqn:Ee; cbn [app alookup].
  - intros Hh. destruct (N.eqb_spec (f_id x) id) as [E|E]; [subst id; destruct (Hkeys _ Hh) | apply IH; assumption].
  - destruct (N.eqb_spec (f_id x) id) as [E|E]; [intros _; eauto | apply IH; assumption].
Qed.

Section Run.
  Context {LIM : Limit}.
  Variable FNMAX : N.
  Variables T_START T_CONTENT T_EOA T_EOF : N.
  Variable H : bytes -> bytes.
  Variable order : footer -> footer.

  Notation wstep := (wstep FNMAX T_START T_CONTENT T_EOA T_EOF H).
  Notation wrun := (wrun FNMAX T_START T_CONTENT T_EOA T_EOF H).
  Notation w_start := (w_start FNMAX T_START T_CONTENT T_EOA T_EOF).
  Notation w_append := (w_append T_CONTENT).
  Notation w_end := (w_end T_START T_CONTENT T_EOA T_EOF H).
  Notation Wrep := (Wrep FNMAX T_START T_CONTENT T_EOA T_EOF H).
  Notation body := (body T_START T_CONTENT T_EOA T_EOF).
  Notation wf_from := (wf_from FNMAX H).

  (* what the type system / the u64 fields guarantee about the arguments of a call *)
  Definition op_ok (o : wop) : Prop :=
    match o with
    | OStart name => utf8_valid name = true
    | OAppend _ size _ => size < 2 ^ 64
    | OAdd name size _ => utf8_valid name = true /\ size < 2 ^ 64
    | _ => True
    end.

  (* the content bytes a call adds to file id (the id an add_file call allocates is next_id) *)
  Definition added (id : N) (s : wstate) (o : wop) (r : res N) : bytes :=
    match o, r with
    | OAppend i size src, Ok _ => if i =? id then takeN size src else []
    | OAdd _ size src, Ok _ => if w_next s =? id then takeN size src else []
    | _, _ => []
    end.
  Fixpoint appended (id : N) (s : wstate) (ops : list wop) : bytes :=
    match ops with
    | [] => []
    | o :: t => let '(s1, r) := wstep order s o in added id s o r ++ appended id s1 t
    end.

  Definition blk_ok (nx : N) (b : block) : Prop :=
    match b with
    | BStart i _ => i < nx
    | BContent i d => i < nx /\ len d < 2 ^ 64
    | BEof i _ => i < nx
    | BEnd => True
    end.
  Lemma blk_ok_mono nx nx' b : nx <= nx' -> blk_ok nx b -> blk_ok nx' b.
  Proof. destruct b; cbn [blk_ok]; lia. Qed.
  Definition bdatas (id : N) (bl : list block) : bytes := concat (map (bdata id) bl).

  (* ---------- the three calls, inverted ---------- *)
  Lemma start_inv s bl name s' id : Wrep s bl -> w_start s name = (s', Ok id) -> utf8_valid name = true ->
    id = w_next s /\ Wrep s' (bl ++ [BStart id name]) /\ w_next s' = w_next s + 1.
  Proof.
    intros W Hs Hu. pose proof Hs as Hs0. unfold Writer.w_start in Hs. rewrite (wr_final _ _ _ _ _ _ _ _ W) in Hs.
    destruct (N.ltb_spec FNMAX (len name)) as [?|Hl]; [discriminate|].
    destruct (name_used (w_files s) name) eqn:En; [discriminate|].
    rewrite (wr_files _ _ _ _ _ _ _ _ W) in En. apply name_used_find in En.
    destruct (Wrep_start FNMAX T_START T_CONTENT T_EOA T_EOF H s bl name W En Hl Hu) as (out' & Ho & W' & Hn).
    rewrite Ho in Hs0. injection Hs0 as <- <-. auto.
  Qed.

  Lemma find_id_lt s bl id f : Wrep s bl -> find_id (files_of bl) id = Some f -> id < w_next s.
  Proof.
    intros W Hf. destruct (find_id_some _ _ _ Hf) as [Hin <-].
    pose proof (wr_next _ _ _ _ _ _ _ _ W) as Hn. rewrite Forall_forall in Hn. exact (Hn f Hin).
  Qed.

  Lemma append_norm s id size src : size <= len src ->
    w_append s id size src = w_append s id (len (takeN size src)) (takeN size src).
  Proof.
    intros Hl. unfold Writer.w_append. rewrite len_takeN, takeN_takeN.
    replace (N.min size (len src)) with size by lia. rewrite N.min_id.
    destruct (N.ltb_spec (len src) size); [lia|]. destruct (N.ltb_spec size size); [lia|]. reflexivity.
  Qed.

  Lemma append_inv s bl id size src s' r : Wrep s bl -> w_append s id size src = (s', r) ->
    r <> Err EShortSource ->
    (r = Ok 0 /\ id < w_next s /\
       ((size = 0 /\ s' = s) \/
        (size <> 0 /\ size <= len src /\ Wrep s' (bl ++ [BContent id (takeN size src)]) /\ w_next s' = w_next s))) \/
    (exists e, r = Err e /\ s' = s).
  Proof.
    intros W Hs Hns. pose proof Hs as Hs0. unfold Writer.w_append in Hs. rewrite (wr_final _ _ _ _ _ _ _ _ W) in Hs.
    destruct (alookup (w_open s) id) as [h|] eqn:Eo; [|injection Hs as <- <-; right; eauto].
    rewrite (wr_open _ _ _ _ _ _ _ _ W) in Eo.
    destruct (alookup_open_inv _ _ _ (Wrep_nodup _ _ _ _ _ _ _ _ W) Eo) as (f & Hf & He).
    pose proof (find_id_lt _ _ _ _ W Hf) as Hlt.
    destruct (N.eqb_spec size 0) as [Hz|Hnz]; [injection Hs as <- <-; left; auto|].
    destruct (N.ltb_spec (len src) size) as [Hsh|Hge]; [injection Hs as _ <-; congruence|].
    clear Hs. rewrite (append_norm s id size src Hge) in Hs0.
    assert (Hd : takeN size src <> []).
    { intros E. apply (f_equal len) in E. rewrite len_takeN in E. change (len (@nil N)) with 0 in E. lia. }
    destruct (Wrep_append FNMAX T_START T_CONTENT T_EOA T_EOF H s bl id f _ W Hf He Hd) as (out' & Ho & W' & Hn).
    rewrite Ho in Hs0. injection Hs0 as <- <-. left. split; [reflexivity|]. split; [exact Hlt|]. right. auto.
  Qed.

  Lemma end_inv s bl id s' r : Wrep s bl -> w_end s id = (s', r) ->
    (exists h, r = Ok 0 /\ id < w_next s /\ Wrep s' (bl ++ [BEof id h]) /\ w_next s' = w_next s) \/
    (exists e, r = Err e /\ s' = s).
  Proof.
    intros W Hs. pose proof Hs as Hs0. unfold Writer.w_end in Hs. rewrite (wr_final _ _ _ _ _ _ _ _ W) in Hs.
    destruct (alookup (w_open s) id) as [h|] eqn:Eo; [|injection Hs as <- <-; right; eauto].
    rewrite (wr_open _ _ _ _ _ _ _ _ W) in Eo.
    destruct (alookup_open_inv _ _ _ (Wrep_nodup _ _ _ _ _ _ _ _ W) Eo) as (f & Hf & He).
    destruct (Wrep_end FNMAX T_START T_CONTENT T_EOA T_EOF H s bl id f W Hf He) as (out' & Ho & W' & Hn).
    rewrite Ho in Hs0. injection Hs0 as <- <-. left. exists (H (f_data f)).
    split; [reflexivity|]. split; [exact (find_id_lt _ _ _ _ W Hf) | auto].
  Qed.

  Lemma bdatas_app id a b : bdatas id (a ++ b) = bdatas id a ++ bdatas id b.
  Proof. unfold bdatas. rewrite map_app, concat_app. reflexivity. Qed.

  (* ---------- one call ---------- *)
  Lemma step_wrep s bl o s' r : Wrep s bl -> wstep order s o = (s', r) -> clean o r -> op_ok o ->
    exists bl', Wrep s' (bl ++ bl') /\ w_next s <= w_next s' /\ Forall (blk_ok (w_next s')) bl' /\
                forall id, bdatas id bl' = added id s o r.
  Proof.
    intros W Hs (Hnf & Hns & Hnc) Hok.
    assert (Hnil : s' = s -> (forall id, added id s o r = []) ->
              exists bl', Wrep s' (bl ++ bl') /\ w_next s <= w_next s' /\ Forall (blk_ok (w_next s')) bl' /\
                          forall id, bdatas id bl' = added id s o r).
    { intros -> Ha. exists []. rewrite app_nil_r. split; [exact W|]. split; [lia|]. split; [constructor|].
      intros id. now rewrite Ha. }
    destruct o as [name|id size src|id|name size src| |]; cbn [Writer.wstep op_ok] in Hs, Hok.
    - (* start *)
      destruct r as [id|e|c]; [| |discriminate].
      + destruct (start_inv _ _ _ _ _ W Hs Hok) as (-> & W' & Hn).
        exists [BStart (w_next s) name]. split; [exact W'|]. split; [lia|]. split; [|reflexivity].
        constructor; [cbn [blk_ok]; lia | constructor].
      + apply Hnil; [|reflexivity]. exact (proj1 (w_start_refused _ _ _ _ _ _ _ _ _ Hs)).
    - (* append *)
      destruct (append_inv _ _ _ _ _ _ _ W Hs Hns) as [(-> & Hlt & [[-> ->]|(Hnz & Hge & W' & Hn)])|(e & -> & ->)].
      + apply Hnil; [reflexivity|]. intros i. cbn [added]. rewrite takeN_0. destruct (id =? i); reflexivity.
      + exists [BContent id (takeN size src)]. split; [exact W'|]. split; [lia|]. split.
        * constructor; [|constructor]. cbn [blk_ok]. rewrite len_takeN. lia.
        * intros i. unfold bdatas. cbn [map concat bdata added]. apply app_nil_r.
      + apply Hnil; reflexivity.
    - (* end *)
      destruct (end_inv _ _ _ _ _ W Hs) as [(h & -> & Hlt & W' & Hn)|(e & -> & ->)].
      + exists [BEof id h]. split; [exact W'|]. split; [lia|]. split; [|reflexivity].
        constructor; [cbn [blk_ok]; lia | constructor].
      + apply Hnil; reflexivity.
    - (* add = start; append; end *)
      destruct Hok as [Hu Hsz].
      destruct (w_start s name) as [s1 [id|e1|c1]] eqn:E1.
      2:{ injection Hs as <- <-. apply Hnil; [|reflexivity]. exact (proj1 (w_start_refused _ _ _ _ _ _ _ _ _ E1)). }
      2:{ injection Hs as <- <-. discriminate. }
      destruct (start_inv _ _ _ _ _ W E1 Hu) as (-> & W1 & Hn1).
      assert (Hk1 : w_final s1 = false /\ alookup (w_open s1) (w_next s) <> None)
        by (eapply start_then_open; eassumption).
      destruct Hk1 as [Hf1 Ho1].
      destruct (w_append s1 (w_next s) size src) as [s2 [v|e2|c2]] eqn:E2.
      3:{ injection Hs as <- <-. discriminate. }
      2:{ injection Hs as <- <-.
          assert (e2 = EShortSource) by (eapply append_err_if_open; eassumption). congruence. }
      assert (Hk2 : w_final s2 = false /\ alookup (w_open s2) (w_next s) <> None)
        by (eapply append_keeps_open; eassumption).
      destruct Hk2 as [Hf2 Ho2].
      assert (Hk3 : exists s3, w_end s2 (w_next s) = (s3, Ok 0)) by (eapply end_ok_if_open; eassumption).
      destruct Hk3 as [s3 E3].
      rewrite E3 in Hs. injection Hs as <- <-.
      destruct (append_inv _ _ _ _ _ _ _ W1 E2 ltac:(discriminate))
        as [(_ & Hlt & [[-> ->]|(Hnz & Hge & W2 & Hn2)])|(e & He & _)]; [| |discriminate].
      + destruct (end_inv _ _ _ _ _ W1 E3) as [(h & _ & _ & W3 & Hn3)|(e & He & _)]; [|discriminate].
        exists ([BStart (w_next s) name] ++ [BEof (w_next s) h]). rewrite <- !app_assoc in W3.
        split; [exact W3|]. split; [lia|]. split.
        * repeat constructor; cbn [blk_ok]; lia.
        * intros i. unfold bdatas. cbn [app map concat bdata added]. rewrite takeN_0.
          destruct (w_next s =? i); reflexivity.
      + destruct (end_inv _ _ _ _ _ W2 E3) as [(h & _ & _ & W3 & Hn3)|(e & He & _)]; [|discriminate].
        exists ([BStart (w_next s) name] ++ [BContent (w_next s) (takeN size src)] ++ [BEof (w_next s) h]).
        rewrite <- !app_assoc in W3.
        split; [exact W3|]. split; [lia|]. split.
        * repeat constructor; cbn [blk_ok]; rewrite ?len_takeN; lia.
        * intros i. unfold bdatas. cbn [app map concat bdata added]. rewrite !app_nil_r. reflexivity.
    - injection Hs as <- <-. apply Hnil; reflexivity.
    - congruence.
  Qed.

  (* ---------- a run ---------- *)
  Lemma run_wrep ops : forall s bl s' rs, Wrep s bl -> Forall (blk_ok (w_next s)) bl ->
    wrun order s ops = (s', rs) -> Forall (fun x => clean (fst x) (snd x)) (combine ops rs) ->
    Forall op_ok ops ->
    exists bl', Wrep s' (bl ++ bl') /\ Forall (blk_ok (w_next s')) (bl ++ bl') /\
                forall id, bdatas id bl' = appended id s ops.
  Proof.
    induction ops as [|o ops IH]; intros s bl s' rs W Hb Hr Hc Hok; cbn [Writer.wrun] in Hr.
    - injection Hr as <- <-. exists []. rewrite app_nil_r. auto.
    - destruct (wstep order s o) as [s1 x] eqn:E1. destruct (wrun order s1 ops) as [s2 xs] eqn:E2.
      injection Hr as <- <-. cbn [combine] in Hc. inversion Hc as [|? ? Hc1 Hc2]; subst. cbn [fst snd] in Hc1.
      inversion Hok as [|? ? Hok1 Hok2]; subst.
      destruct (step_wrep _ _ _ _ _ W E1 Hc1 Hok1) as (bl1 & W1 & Hle & Hb1 & Hd1).
      assert (Hb' : Forall (blk_ok (w_next s1)) (bl ++ bl1)).
      { apply Forall_app. split; [|exact Hb1]. eapply Forall_impl; [|exact Hb]. intros b. apply blk_ok_mono, Hle. }
      destruct (IH s1 (bl ++ bl1) s2 xs W1 Hb' E2 Hc2 Hok2) as (bl2 & W2 & Hb2 & Hd2).
      exists (bl1 ++ bl2). rewrite app_assoc. split; [exact W2|]. split; [exact Hb2|].
      intros id. cbn [appended]. rewrite E1, bdatas_app, Hd1, Hd2. reflexivity.
  Qed.

  Lemma data_of_frun id : forall l fs, wf_from fs l -> data_of_id (frun fs l) id = data_of_id fs id ++ bdatas id l.
  Proof.
    induction l as [|b r IH]; intros fs Hw; [cbn; symmetry; apply app_nil_r|].
    destruct Hw as (Hb & _ & Hr). rewrite frun_cons, (IH _ Hr), (data_of_id_fstep FNMAX H _ _ _ Hb).
    unfold bdatas. cbn [map concat]. symmetry; apply app_assoc.
  Qed.

  (* THE RUN THEOREM *)
  Theorem clean_run_blocks ops s rs :
    wrun order w_init ops = (s, rs) ->
    Forall (fun x => clean (fst x) (snd x)) (combine ops rs) ->
    Forall op_ok ops -> w_next s < 2 ^ 64 ->
    exists bl, w_out s = body bl /\ wf_blocks FNMAX H bl /\ ~ In BEnd bl /\
      w_files s = name_list (files_of bl) /\
      forall id, data_of_id (files_of bl) id = appended id w_init ops.
  Proof.
    intros Hr Hc Hok Hn.
    destruct (run_wrep ops w_init [] s rs (Wrep_init FNMAX T_START T_CONTENT T_EOA T_EOF H) (Forall_nil _) Hr Hc Hok)
      as (bl & W & Hb & Hd). cbn [app] in W, Hb.
    exists bl. split; [exact (wr_out _ _ _ _ _ _ _ _ W)|]. split; [split; [exact (wr_wf _ _ _ _ _ _ _ _ W)|]|].
    - eapply Forall_impl; [|exact Hb]. intros b. destruct b; cbn [blk_ok num_ok]; lia.
    - split; [exact (wr_noend _ _ _ _ _ _ _ _ W)|]. split; [exact (wr_files _ _ _ _ _ _ _ _ W)|].
      intros id. unfold files_of. rewrite (data_of_frun id bl [] (wr_wf _ _ _ _ _ _ _ _ W)). apply Hd.
  Qed.
End Run.
