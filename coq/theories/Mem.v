(* Mem.v — C15: what the model holds in memory while data streams through it does not depend
   on the number of bytes streamed.
     - every buffer of the reading side is bounded by a size constant: the decrypted chunk
       cache (<= CHUNK, in every state reachable by any reads and seeks, both readers, over
       arbitrary input), the repair cache (<= CACHE), the pieces moved by io::copy (<= 8 KiB);
     - the writer's tables (files_info, ids_info with its per-file offsets, open-file set) are a
       function of the SHAPE of the call sequence — which calls, on which files, in which order
       — and not of how many bytes each append carries: two call sequences that differ only in
       the sizes and contents of their (successful, non-empty) appends end with tables of the
       same dimensions (same names, same ids, same number of offsets per file).
   The process heap itself (allocator, Vec growth, brotli's encoder/decoder state) is not
   modelled; it is measured by the correspondence job c15. *)
From MLA Require Import Limit FooterSize.
From Coq Require Import Permutation.
From MLA Require Import Base Stream EncLayer Blocks Writer Reader Repair Total TotalEnc.
From Coq Require Import ZifyBool ZifyNat ZifyN.
Open Scope N_scope.

(* ---------- reading side: buffers bounded by constants ---------- *)

Section Bounded.
  Context {LIM : Limit}.
  Variable S : Stream.
  Hypothesis rd_le : forall s n s' d, rd S s n = (s', Ok d) -> len d <= n.

  (* the repair cache never exceeds CACHE *)
  Lemma buf_fill_bounded CACHE fuel : forall s remaining acc,
    len acc <= CACHE ->
    let '(_, _, acc', _) := buf_fill CACHE S fuel s remaining acc in len acc' <= CACHE.
  Proof.
    induction fuel as [|fuel IH]; intros s remaining acc Hacc; cbn [buf_fill]; [exact Hacc|].
    destruct (N.eqb_spec (N.min remaining (CACHE - len acc)) 0) as [_|Hw]; [exact Hacc|].
    destruct (rd S s (N.min remaining (CACHE - len acc))) as [s1 [d|e|c]] eqn:E; try exact Hacc.
    pose proof (rd_le _ _ _ _ E) as Hd.
    destruct (N.eqb_spec (len d) 0) as [_|Hd0]; [exact Hacc|].
    assert (Hn : len (acc ++ d) <= CACHE) by (rewrite len_app; lia).
    destruct (CACHE <=? len (acc ++ d)); [exact Hn|]. apply IH. exact Hn.
  Qed.

  (* io::copy moves pieces of at most 8 KiB *)
  Lemma copy_piece_bounded s l s' d : rd S s (N.min l 8192) = (s', Ok d) -> len d <= 8192.
  Proof. intros E. apply rd_le in E. lia. Qed.
End Bounded.

(* the decrypted chunk cache, in every state reachable from any state satisfying the reader
   invariant by ANY sequence of reads (normal or fail-safe, either mode) and seeks, over an
   arbitrary inner stream: at most CHUNK bytes *)
Section EncCache.
  Context {LIM : Limit}.
  Variables CHUNK TAG : N.
  Variable ks : N -> N -> N.
  Variable tagc : N -> bytes -> bytes.
  Variable S : Stream.
  Variable Iin : st S -> Prop.
  Variable pin : st S -> N.
  Variable M : N.
  Hypothesis HC : 0 < CHUNK.
  Hypothesis HM : M < 2 ^ 32 * CHUNK.
  Hypothesis HTI : TameInner S Iin pin M.

  Inductive eop := ERead (n : N) | ESeek (w : whence) | EFsRead (unauth : bool) (n : N).
  Definition estep (s : estate S) (o : eop) : estate S :=
    match o with
    | ERead n => fst (eread CHUNK TAG ks tagc S s n)
    | ESeek w => fst (eseek CHUNK TAG ks tagc S s w)
    | EFsRead u n => fst (fs_read CHUNK TAG ks tagc S u s n)
    end.

  Notation Ienc := (Ienc CHUNK S Iin pin M).

  Lemma estep_inv s o : Ienc s -> Ienc (estep s o).
  Proof.
    intros Hs. destruct o as [n|w|u n]; cbn [estep].
    - pose proof (eread_gen_tame CHUNK ks tagc S Iin pin M HC HM (eload CHUNK TAG ks tagc S) s n
                    (eload_spec CHUNK TAG ks tagc S Iin pin M HTI HC HM) Hs) as H.
      fold (eread CHUNK TAG ks tagc S) in H.
      destruct (eread CHUNK TAG ks tagc S s n) as [s' [d|e|c]]; cbn [fst]; [exact (proj1 H)|exact (proj1 H)|destruct H].
    - (* a seek keeps the invariant whatever it returns (TotalEnc.eseek_keeps_Ienc; no bound on CHUNK needed) *)
      exact (eseek_keeps_Ienc CHUNK TAG ks tagc S Iin pin M HTI HC HM s w Hs).
    - pose proof (fs_read_tame CHUNK TAG ks tagc S Iin pin M HTI HC HM u s n Hs) as H.
      destruct (fs_read CHUNK TAG ks tagc S u s n) as [s' [d|e|c]]; cbn [fst]; [exact (proj1 H)|exact (proj1 H)|destruct H].
  Qed.

  Theorem enc_cache_bounded ops : forall s, Ienc s ->
    len (e_cache (fold_left estep ops s)) <= CHUNK.
  Proof.
    induction ops as [|o ops IH]; intros s Hs; cbn [fold_left].
    - destruct Hs as (_ & _ & _ & H & _). exact H.
    - apply IH. apply estep_inv. exact Hs.
  Qed.
End EncCache.

(* ---------- writing side: the tables depend on the shape of the calls only ---------- *)

Section Tables.
  Context {LIM : Limit}.
  Variable FNMAX : N.
  Variables T_START T_CONTENT T_EOA T_EOF : N.
  Variable H : bytes -> bytes.
  Variable order : footer -> footer.
  (* the iteration order of the HashMap: what bincode charges for the footer (the limit arm of
     finalize) does not depend on it *)
  Hypothesis Horder : forall f, Permutation (order f) f.
  Notation wstep := (wstep FNMAX T_START T_CONTENT T_EOA T_EOF H order).

  (* two calls of the same shape: same kind, same file / name; appends both non-empty and both
     with a long enough source (sizes and contents free) *)
  Definition same_shape (a b : wop) : Prop :=
    match a, b with
    | OStart n1, OStart n2 => n1 = n2
    | OAppend i1 z1 s1, OAppend i2 z2 s2 => i1 = i2 /\ 0 < z1 /\ 0 < z2 /\ z1 <= len s1 /\ z2 <= len s2
    | OEnd i1, OEnd i2 => i1 = i2
    | OAdd n1 z1 s1, OAdd n2 z2 s2 => n1 = n2 /\ 0 < z1 /\ 0 < z2 /\ z1 <= len s1 /\ z2 <= len s2
    | OFlush, OFlush => True
    | OFinalize, OFinalize => True
    | _, _ => False
    end.

  (* the dimensions of the tables *)
  Definition ids_dims (l : list (N * finfo)) : list (N * nat) :=
    map (fun e => (fst e, length (fi_offsets (snd e)))) l.
  Definition dims (s : wstate) : bool * list N * list (bytes * N) * list (N * nat) * N * N :=
    (w_final s, map fst (w_open s), w_files s, ids_dims (w_ids s), w_next s, w_cur s).

  Lemma tuple6 {A B C D E F} (a1 a2 : A) (b1 b2 : B) (c1 c2 : C) (d1 d2 : D) (e1 e2 : E) (g1 g2 : F) :
    a1 = a2 -> b1 = b2 -> c1 = c2 -> d1 = d2 -> e1 = e2 -> g1 = g2 -> (a1, b1, c1, d1, e1, g1) = (a2, b2, c2, d2, e2, g2).
  Proof. intros; subst; reflexivity. Qed.

  Lemma alookup_dims {A B} (l1 : list (N * A)) (l2 : list (N * B)) id :
    map fst l1 = map fst l2 -> (alookup l1 id = None <-> alookup l2 id = None).
  Proof.
    revert l2; induction l1 as [|[k v] l1 IH]; intros [|[k2 v2] l2] E; cbn in E; try discriminate; [tauto|].
    injection E as -> E. cbn [alookup]. destruct (k2 =? id); [split; discriminate | apply IH; exact E].
  Qed.
  Lemma aupdate_keys {A} (l : list (N * A)) id f : map fst (aupdate l id f) = map fst l.
  Proof. induction l as [|[k v] l IH]; cbn [aupdate map]; [reflexivity|]. destruct (k =? id); cbn [map fst]; [reflexivity | now rewrite IH]. Qed.
  Lemma aremove_keys {A B} (l1 : list (N * A)) (l2 : list (N * B)) id :
    map fst l1 = map fst l2 -> map fst (aremove l1 id) = map fst (aremove l2 id).
  Proof.
    revert l2; induction l1 as [|[k v] l1 IH]; intros [|[k2 v2] l2] E; cbn in E; try discriminate; [reflexivity|].
    injection E as -> E. cbn [aremove]. destruct (k2 =? id); [exact E | cbn [map fst]; now rewrite (IH l2 E)].
  Qed.
  Lemma ids_dims_update l1 l2 id (f1 f2 : finfo -> finfo) :
    ids_dims l1 = ids_dims l2 ->
    (forall a b, length (fi_offsets a) = length (fi_offsets b) -> length (fi_offsets (f1 a)) = length (fi_offsets (f2 b))) ->
    ids_dims (aupdate l1 id f1) = ids_dims (aupdate l2 id f2).
  Proof.
    intros E Hf. revert l2 E; induction l1 as [|[k v] l1 IH]; intros [|[k2 v2] l2] E; cbn in E; try discriminate; [reflexivity|].
    injection E as -> Hl E. cbn [aupdate]. destruct (k2 =? id); cbn [ids_dims map fst snd].
    - f_equal; [f_equal; apply Hf; exact Hl | exact E].
    - f_equal; [f_equal; exact Hl | apply IH; exact E].
  Qed.

  Lemma mark_cont_dims s1 s2 id : dims s1 = dims s2 -> dims (mark_cont s1 id) = dims (mark_cont s2 id).
  Proof.
    unfold dims. intros E. injection E as Ef Eo Efi Ei En Ec.
    unfold mark_cont. rewrite Ec. destruct (id =? w_cur s2).
    - unfold dims. congruence.
    - cbn [w_final w_open w_files w_ids w_next w_cur]. apply tuple6; try assumption; try reflexivity.
      apply ids_dims_update; [exact Ei|].
      intros a b Hab. cbn [fi_offsets]. rewrite !app_length, Hab. reflexivity.
  Qed.

  Lemma w_start_dims s1 s2 n : dims s1 = dims s2 ->
    dims (fst (w_start FNMAX T_START T_CONTENT T_EOA T_EOF s1 n)) = dims (fst (w_start FNMAX T_START T_CONTENT T_EOA T_EOF s2 n)) /\
    (snd (w_start FNMAX T_START T_CONTENT T_EOA T_EOF s1 n)) = (snd (w_start FNMAX T_START T_CONTENT T_EOA T_EOF s2 n)).
  Proof.
    intros E. assert (E' := E). unfold dims in E'. injection E' as Ef Eo Efi Ei En Ec.
    unfold w_start. rewrite Ef, Efi, En.
    destruct (w_final s2); [split; [exact E|reflexivity]|].
    destruct (FNMAX <? len n); [split; [exact E|reflexivity]|].
    destruct (name_used (w_files s2) n); [split; [exact E|reflexivity]|].
    cbn [fst snd]. split; [|reflexivity]. unfold dims, emit.
    cbn [w_final w_open w_files w_ids w_next w_cur]. apply tuple6; try reflexivity.
    - rewrite !map_app, Eo. reflexivity.
    - unfold ids_dims in *. rewrite !map_app, Ei. reflexivity.
  Qed.

  Lemma w_append_dims s1 s2 i z1 sr1 z2 sr2 : dims s1 = dims s2 ->
    0 < z1 -> 0 < z2 -> z1 <= len sr1 -> z2 <= len sr2 ->
    dims (fst (w_append T_CONTENT s1 i z1 sr1)) = dims (fst (w_append T_CONTENT s2 i z2 sr2)) /\
    snd (w_append T_CONTENT s1 i z1 sr1) = snd (w_append T_CONTENT s2 i z2 sr2).
  Proof.
    intros E Hz1 Hz2 Hl1 Hl2. assert (E' := E). unfold dims in E'. injection E' as Ef Eo Efi Ei En Ec.
    unfold w_append. rewrite Ef.
    destruct (w_final s2); [split; [exact E|reflexivity]|].
    pose proof (alookup_dims (w_open s1) (w_open s2) i Eo) as Hlk.
    destruct (alookup (w_open s1) i) as [h1|]; destruct (alookup (w_open s2) i) as [h2|];
      try (exfalso; destruct Hlk as [A B]; first [discriminate (A eq_refl) | discriminate (B eq_refl)]);
      [|split; [exact E|reflexivity]].
    destruct (N.eqb_spec z1 0); [lia|]. destruct (N.eqb_spec z2 0); [lia|].
    destruct (N.ltb_spec (len sr1) z1); [lia|]. destruct (N.ltb_spec (len sr2) z2); [lia|].
    cbn [fst snd]. split; [|reflexivity].
    pose proof (mark_cont_dims s1 s2 i E) as Em. unfold dims in Em. injection Em as Ef' Eo' Efi' Ei' En' Ec'.
    unfold dims. cbn [w_final w_open w_files w_ids w_next w_cur].
    apply tuple6; try assumption; try reflexivity.
    - rewrite !aupdate_keys. exact Eo'.
    - apply ids_dims_update; [exact Ei'|]. intros a b Hab. exact Hab.
  Qed.

  Lemma w_end_dims s1 s2 i : dims s1 = dims s2 ->
    dims (fst (w_end T_START T_CONTENT T_EOA T_EOF H s1 i)) = dims (fst (w_end T_START T_CONTENT T_EOA T_EOF H s2 i)) /\
    snd (w_end T_START T_CONTENT T_EOA T_EOF H s1 i) = snd (w_end T_START T_CONTENT T_EOA T_EOF H s2 i).
  Proof.
    intros E. assert (E' := E). unfold dims in E'. injection E' as Ef Eo Efi Ei En Ec.
    unfold w_end. rewrite Ef.
    destruct (w_final s2); [split; [exact E|reflexivity]|].
    pose proof (alookup_dims (w_open s1) (w_open s2) i Eo) as Hlk.
    destruct (alookup (w_open s1) i) as [h1|]; destruct (alookup (w_open s2) i) as [h2|];
      try (exfalso; destruct Hlk as [A B]; first [discriminate (A eq_refl) | discriminate (B eq_refl)]);
      [|split; [exact E|reflexivity]].
    cbn [fst snd]. split; [|reflexivity].
    pose proof (mark_cont_dims s1 s2 i E) as Em. unfold dims in Em. injection Em as Ef' Eo' Efi' Ei' En' Ec'.
    unfold dims, emit. cbn [w_final w_open w_files w_ids w_next w_cur].
    apply tuple6; try assumption; try reflexivity.
    - apply aremove_keys. exact Eo'.
    - apply ids_dims_update; [exact Ei'|]. intros a b Hab. exact Hab.
  Qed.

  (* one step: same dimensions before, same shape => same result and same dimensions after *)
  Lemma wstep_dims s1 s2 a b : dims s1 = dims s2 -> same_shape a b ->
    dims (fst (wstep s1 a)) = dims (fst (wstep s2 b)) /\ snd (wstep s1 a) = snd (wstep s2 b).
  Proof.
    intros E Hsh.
    destruct a as [n1|i1 z1 sr1|i1|n1 z1 sr1| |]; destruct b as [n2|i2 z2 sr2|i2|n2 z2 sr2| |]; cbn in Hsh; try contradiction.
    - subst n2. cbn [Writer.wstep]. apply w_start_dims; exact E.
    - destruct Hsh as (-> & Hz1 & Hz2 & Hl1 & Hl2). cbn [Writer.wstep]. apply w_append_dims; assumption.
    - subst i2. cbn [Writer.wstep]. apply w_end_dims; exact E.
    - destruct Hsh as (-> & Hz1 & Hz2 & Hl1 & Hl2). cbn [Writer.wstep].
      destruct (w_start_dims s1 s2 n2 E) as [Es Er].
      destruct (w_start FNMAX T_START T_CONTENT T_EOA T_EOF s1 n2) as [a1 r1].
      destruct (w_start FNMAX T_START T_CONTENT T_EOA T_EOF s2 n2) as [a2 r2].
      cbn [fst snd] in Es, Er. subst r2.
      destruct r1 as [id|e|c]; [|split; [exact Es|reflexivity]|split; [exact Es|reflexivity]].
      destruct (w_append_dims a1 a2 id z1 sr1 z2 sr2 Es Hz1 Hz2 Hl1 Hl2) as [Ea Era].
      destruct (w_append T_CONTENT a1 id z1 sr1) as [b1 q1]. destruct (w_append T_CONTENT a2 id z2 sr2) as [b2 q2].
      cbn [fst snd] in Ea, Era. subst q2.
      destruct q1 as [v|e|c]; [|split; [exact Ea|reflexivity]|split; [exact Ea|reflexivity]].
      apply w_end_dims; exact Ea.
    - split; [exact E|reflexivity].
    - cbn [Writer.wstep]. unfold w_finalize_with.
      assert (E' := E). unfold dims in E'. injection E' as Ef Eo Efi Ei En Ec. rewrite Ef.
      destruct (w_final s2); [split; [exact E|reflexivity]|].
      assert (Hop : w_open s1 = [] <-> w_open s2 = []).
      { destruct (w_open s1), (w_open s2); cbn in Eo; try discriminate; split; intros X; first [reflexivity | discriminate X]. }
      destruct (w_open s1) as [|x l]; destruct (w_open s2) as [|y l2];
        try (exfalso; destruct Hop as [A B]; first [discriminate (A eq_refl) | discriminate (B eq_refl)]);
        [|split; [exact E|reflexivity]].
      cbv zeta.
      assert (Esz : len (ser_footer_map (order (w_footer s1))) = len (ser_footer_map (order (w_footer s2)))).
      { rewrite (len_ser_footer_map_perm _ _ (Horder (w_footer s1))), (len_ser_footer_map_perm _ _ (Horder (w_footer s2))).
        apply w_footer_size_dims; [exact Efi | exact Ei]. }
      rewrite Esz.
      destruct (lim <? len (ser_footer_map (order (w_footer s2)))).
      { cbn [fst snd]. split; [|reflexivity]. unfold dims, w_finalized. cbn [w_final w_open w_files w_ids w_next w_cur map].
        rewrite Efi, Ei, En, Ec. reflexivity. }
      destruct (2 ^ 32 <=? len (ser_footer_map (order (w_footer s2)))).
      { cbn [fst snd]. split; [|reflexivity]. unfold dims, w_finalized. cbn [w_final w_open w_files w_ids w_next w_cur map].
        rewrite Efi, Ei, En, Ec. reflexivity. }
      cbn [fst snd]. split; [|reflexivity]. unfold dims. cbn [w_final w_open w_files w_ids w_next w_cur map].
      rewrite Efi, Ei, En, Ec. reflexivity.
  Qed.

  (* THE statement: call sequences of the same shape leave tables of the same dimensions (and
     return the same results), however many bytes their appends carry *)
  Theorem tables_depend_on_shape_only ops1 : forall ops2 s1 s2,
    dims s1 = dims s2 -> Forall2 same_shape ops1 ops2 ->
    dims (fst (wrun FNMAX T_START T_CONTENT T_EOA T_EOF H order s1 ops1)) =
    dims (fst (wrun FNMAX T_START T_CONTENT T_EOA T_EOF H order s2 ops2)) /\
    snd (wrun FNMAX T_START T_CONTENT T_EOA T_EOF H order s1 ops1) =
    snd (wrun FNMAX T_START T_CONTENT T_EOA T_EOF H order s2 ops2).
  Proof.
    induction ops1 as [|a ops1 IH]; intros ops2 s1 s2 E HF; inversion HF as [|? b ? ops2' Hab HF']; subst; cbn [wrun].
    - split; [exact E | reflexivity].
    - destruct (wstep_dims s1 s2 a b E Hab) as [Ed Er].
      destruct (wstep s1 a) as [t1 x1]. destruct (wstep s2 b) as [t2 x2]. cbn [fst snd] in Ed, Er. subst x2.
      specialize (IH ops2' t1 t2 Ed HF').
      destruct (wrun FNMAX T_START T_CONTENT T_EOA T_EOF H order t1 ops1) as [u1 y1].
      destruct (wrun FNMAX T_START T_CONTENT T_EOA T_EOF H order t2 ops2') as [u2 y2].
      cbn [fst snd] in *. destruct IH as [I1 I2]. split; [exact I1 | now rewrite I2].
  Qed.
End Tables.
