(* PathProofs.v — property C16: extraction stays beneath the output directory.
   All statements are about the model of Path.v. *)
From MLA Require Import Base Path.
Import Coq.Strings.String.StringSyntax Coq.Strings.Ascii.AsciiSyntax.

(* ================================================================== *)
(** * 1. split_on, components *)

Lemma split_on_nonempty sep s : split_on sep s <> [].
Proof.
  destruct s as [|c s']; cbn [split_on]; [discriminate|].
  destruct (c =? sep); [discriminate|].
  destruct (split_on sep s'); discriminate.
Qed.

Lemma split_on_no_sep sep s : Forall (fun w => ~ In sep w) (split_on sep s).
Proof.
  induction s as [|c s' IH]; cbn [split_on].
  - constructor; [intros []|constructor].
  - destruct (c =? sep) eqn:Ec.
    + constructor; [intros []|exact IH].
    + apply N.eqb_neq in Ec.
      destruct (split_on sep s') as [|w ws].
      * constructor; [|constructor]. intros [Hc|[]]. congruence.
      * inversion IH as [|? ? Hw Hws]; subst.
        constructor; [|exact Hws].
        intros [Hc|Hc]; [congruence|exact (Hw Hc)].
Qed.

(* joining back *)
Fixpoint join (sep : N) (ws : list bytes) : bytes :=
  match ws with
  | [] => []
  | [w] => w
  | w :: ws' => w ++ sep :: join sep ws'
  end.

Lemma join_cons sep w ws : ws <> [] -> join sep (w :: ws) = w ++ sep :: join sep ws.
Proof. destruct ws; [congruence|reflexivity]. Qed.

Lemma join_split_on sep s : join sep (split_on sep s) = s.
Proof.
  induction s as [|c s' IH]; cbn [split_on]; [reflexivity|].
  pose proof (split_on_nonempty sep s') as Hne.
  destruct (c =? sep) eqn:Ec.
  - apply N.eqb_eq in Ec; subst c.
    rewrite join_cons by exact Hne. rewrite IH. reflexivity.
  - destruct (split_on sep s') as [|w ws]; [congruence|].
    destruct ws as [|w' ws'].
    + cbn [join] in *. now rewrite IH.
    + rewrite join_cons by discriminate. rewrite join_cons in IH by discriminate.
      cbn [app]. now rewrite IH.
Qed.

Lemma join_app sep l1 l2 :
  l1 <> [] -> l2 <> [] -> join sep (l1 ++ l2) = join sep l1 ++ sep :: join sep l2.
Proof.
  intros H1 H2. induction l1 as [|w l1 IH]; [congruence|].
  destruct l1 as [|w' l1'].
  - cbn [app]. rewrite join_cons by exact H2. reflexivity.
  - change ((w :: w' :: l1') ++ l2) with (w :: ((w' :: l1') ++ l2)).
    rewrite join_cons by discriminate.
    rewrite IH by discriminate.
    rewrite (join_cons sep w (w' :: l1')) by discriminate.
    rewrite <- app_assoc. reflexivity.
Qed.

Lemma split_on_single sep w : ~ In sep w -> split_on sep w = [w].
Proof.
  induction w as [|c w IH]; intros Hn; cbn [split_on]; [reflexivity|].
  destruct (c =? sep) eqn:Ec.
  - apply N.eqb_eq in Ec. exfalso; apply Hn; left; exact Ec.
  - rewrite IH; [reflexivity|]. intros Hc; apply Hn; right; exact Hc.
Qed.

(* splitting is a homomorphism at a separator *)
Lemma split_on_app sep a b :
  split_on sep (a ++ sep :: b) = split_on sep a ++ split_on sep b.
Proof.
  induction a as [|c a IH]; cbn [app split_on].
  - rewrite N.eqb_refl. reflexivity.
  - destruct (c =? sep); [now rewrite IH|].
    rewrite IH.
    pose proof (split_on_nonempty sep a) as Hne.
    destruct (split_on sep a) as [|w ws]; [congruence|]. reflexivity.
Qed.

(* A piece of the split, in terms of the raw bytes: w contains no separator and
   is delimited by separators or by the ends of the string. *)
Definition piece_of (sep : N) (w s : bytes) : Prop :=
  ~ In sep w /\
  (s = w \/
   (exists b, s = w ++ sep :: b) \/
   (exists a, s = a ++ sep :: w) \/
   (exists a b, s = a ++ sep :: w ++ sep :: b)).

Lemma in_split_on_iff sep w s : In w (split_on sep s) <-> piece_of sep w s.
Proof.
  split.
  - intros Hin. split.
    + exact (proj1 (Forall_forall _ _) (split_on_no_sep sep s) w Hin).
    + apply in_split in Hin. destruct Hin as [l1 [l2 Hs]].
      pose proof (join_split_on sep s) as Hj. rewrite Hs in Hj.
      destruct l1 as [|x1 l1]; destruct l2 as [|x2 l2].
      * left. cbn in Hj. congruence.
      * right; left. cbn [app] in Hj. rewrite join_cons in Hj by discriminate.
        eexists; symmetry; exact Hj.
      * right; right; left. rewrite join_app in Hj by discriminate.
        cbn [join] in Hj. eexists; symmetry; exact Hj.
      * right; right; right. rewrite join_app in Hj by discriminate.
        rewrite (join_cons sep w (x2 :: l2)) in Hj by discriminate.
        do 2 eexists; symmetry; exact Hj.
  - intros [Hn [Hs|[[b Hs]|[[a Hs]|[a [b Hs]]]]]]; subst s.
    + rewrite split_on_single by exact Hn. left; reflexivity.
    + rewrite split_on_app, split_on_single by exact Hn. left; reflexivity.
    + rewrite split_on_app, (split_on_single sep w) by exact Hn.
      apply in_or_app; right; left; reflexivity.
    + rewrite split_on_app, split_on_app, (split_on_single sep w) by exact Hn.
      apply in_or_app; right. left; reflexivity.
Qed.

(** ** classify *)

Lemma bytes_eqb_false a b : bytes_eqb a b = false <-> a <> b.
Proof.
  rewrite <- bytes_eqb_eq. destruct (bytes_eqb a b); split; congruence.
Qed.

Lemma classify_normal w b :
  In (Normal b) (classify w) -> b = w /\ w <> [] /\ w <> [DOT] /\ w <> [DOT; DOT].
Proof.
  unfold classify. destruct w as [|x w]; [intros []|].
  destruct (bytes_eqb (x :: w) [DOT]) eqn:E1; [intros []|].
  destruct (bytes_eqb (x :: w) [DOT; DOT]) eqn:E2.
  - intros [H|[]]; discriminate.
  - apply bytes_eqb_false in E1, E2.
    intros [H|[]]. inversion H; subst. repeat split; [discriminate|exact E1|exact E2].
Qed.

Lemma classify_parent w : In ParentDir (classify w) <-> w = [DOT; DOT].
Proof.
  unfold classify. split.
  - destruct w as [|x w]; [intros []|].
    destruct (bytes_eqb (x :: w) [DOT]) eqn:E1; [intros []|].
    destruct (bytes_eqb (x :: w) [DOT; DOT]) eqn:E2.
    + intros _. apply bytes_eqb_eq; exact E2.
    + intros [H|[]]; discriminate.
  - intros ->. vm_compute. left; reflexivity.
Qed.

Lemma classify_no_root_cur w : ~ In RootDir (classify w) /\ ~ In CurDir (classify w).
Proof.
  unfold classify. destruct w as [|x w]; [split; intros []|].
  destruct (bytes_eqb (x :: w) [DOT]); [split; intros []|].
  destruct (bytes_eqb (x :: w) [DOT; DOT]); split; intros [H|[]]; discriminate.
Qed.

Lemma flat_classify_normal ws b :
  In (Normal b) (flat_map classify ws) ->
  In b ws /\ b <> [] /\ b <> [DOT] /\ b <> [DOT; DOT].
Proof.
  intros H. apply in_flat_map in H. destruct H as [w [Hw Hc]].
  apply classify_normal in Hc. destruct Hc as [-> Hc]. split; assumption.
Qed.

Lemma flat_classify_parent ws :
  In ParentDir (flat_map classify ws) <-> In [DOT; DOT] ws.
Proof.
  rewrite in_flat_map. split.
  - intros [w [Hw Hc]]. apply classify_parent in Hc. now subst.
  - intros H. exists [DOT; DOT]. split; [exact H|]. now apply classify_parent.
Qed.

(* every Normal component is one of the pieces of the split *)
Lemma components_normal_piece s b :
  In (Normal b) (components s) ->
  In b (split_on SEP s) /\ b <> [] /\ b <> [DOT] /\ b <> [DOT; DOT].
Proof.
  unfold components. destruct (split_on SEP s) as [|w ws]; [intros []|].
  destruct w as [|x w].
  - destruct ws as [|w' ws]; [intros []|].
    intros [H|H]; [discriminate|].
    apply flat_classify_normal in H. destruct H as [Hin H]. split; [right; exact Hin|exact H].
  - intros H. apply in_app_or in H. destruct H as [H|H].
    + destruct (bytes_eqb (x :: w) [DOT]).
      * destruct H as [H|[]]; discriminate.
      * apply classify_normal in H. destruct H as [-> H]. split; [left; reflexivity|exact H].
    + apply flat_classify_normal in H. destruct H as [Hin H]. split; [right; exact Hin|exact H].
Qed.

(** (a) *)
Theorem components_no_sep s b :
  In (Normal b) (components s) ->
  ~ In 47 b /\ b <> [] /\ b <> [46] /\ b <> [46; 46].
Proof.
  intros H. apply components_normal_piece in H. destruct H as [Hin H].
  split; [|exact H].
  exact (proj1 (Forall_forall _ _) (split_on_no_sep SEP s) b Hin).
Qed.
Print Assumptions components_no_sep.

(* ParentDir occurs iff some piece is ".." *)
Lemma components_parent_piece s :
  In ParentDir (components s) <-> In [DOT; DOT] (split_on SEP s).
Proof.
  unfold components. destruct (split_on SEP s) as [|w ws]; [reflexivity|].
  destruct w as [|x w].
  - destruct ws as [|w' ws].
    + split; [intros []|intros [H|[]]; discriminate].
    + split.
      * intros [H|H]; [discriminate|]. right. now apply flat_classify_parent.
      * intros [H|H]; [discriminate|]. right. now apply flat_classify_parent.
  - rewrite in_app_iff, flat_classify_parent.
    split.
    + intros [H|H]; [|right; exact H]. left.
      destruct (bytes_eqb (x :: w) [DOT]).
      * destruct H as [H|[]]; discriminate.
      * apply classify_parent in H. exact H.
    + intros [H|H]; [|right; exact H]. left.
      rewrite H. vm_compute. left; reflexivity.
Qed.

(* ================================================================== *)
(** * 2. get_extracted_path *)

Lemma in_normals cs b : In b (normals cs) <-> In (Normal b) cs.
Proof.
  induction cs as [|c cs IH]; cbn [normals]; [reflexivity|].
  destruct c; cbn [In]; rewrite ?IH.
  - split; [auto|intros [H|H]; [discriminate|exact H]].
  - split; [auto|intros [H|H]; [discriminate|exact H]].
  - split; [auto|intros [H|H]; [discriminate|exact H]].
  - split; (intros [H|H]; [left; congruence|right; exact H]).
Qed.

Lemma apply_actions_some acc cs p :
  apply_actions acc cs = Some p -> p = acc ++ normals cs.
Proof.
  revert acc; induction cs as [|c cs IH]; intros acc; cbn [apply_actions normals].
  - intros H; inversion H. now rewrite app_nil_r.
  - destruct c; cbn [component_action]; try apply IH; try discriminate.
    intros H. apply IH in H. rewrite <- app_assoc in H. exact H.
Qed.

Lemma apply_actions_none acc cs :
  apply_actions acc cs = None <-> In ParentDir cs.
Proof.
  revert acc; induction cs as [|c cs IH]; intros acc; cbn [apply_actions].
  - split; [discriminate|intros []].
  - destruct c; cbn [component_action In]; rewrite ?IH.
    + split; [auto|intros [H|H]; [discriminate|exact H]].
    + split; [auto|intros [H|H]; [discriminate|exact H]].
    + split; [auto|reflexivity].
    + split; [auto|intros [H|H]; [discriminate|exact H]].
Qed.

Lemma apply_actions_ok acc cs :
  ~ In ParentDir cs -> apply_actions acc cs = Some (acc ++ normals cs).
Proof.
  intros H. destruct (apply_actions acc cs) as [p|] eqn:E.
  - apply apply_actions_some in E. now subst.
  - apply apply_actions_none in E. contradiction.
Qed.

Lemma get_extracted_path_norm out name :
  ~ In ParentDir (components name) ->
  get_extracted_path out name = Some (out ++ norm name).
Proof. apply apply_actions_ok. Qed.

Lemma get_extracted_path_some out name p :
  get_extracted_path out name = Some p ->
  p = out ++ norm name /\ ~ In ParentDir (components name).
Proof.
  intros H. split.
  - now apply apply_actions_some in H.
  - intros Hc. apply (apply_actions_none out) in Hc.
    unfold get_extracted_path in H. congruence.
Qed.

(* a component the kernel treats as a plain name *)
Definition plain (c : bytes) : Prop :=
  c <> [] /\ c <> [46] /\ c <> [46; 46] /\ ~ In 47 c.

Lemma norm_plain name : Forall plain (norm name).
Proof.
  apply Forall_forall. intros b Hb. apply in_normals in Hb.
  apply components_no_sep in Hb. unfold plain. tauto.
Qed.

(** (b) *)
Theorem extracted_path_beneath out name p :
  get_extracted_path out name = Some p ->
  exists cs, p = out ++ cs /\
    Forall (fun c => c <> [] /\ c <> [46] /\ c <> [46; 46] /\ ~ In 47 c) cs.
Proof.
  intros H. apply get_extracted_path_some in H. destruct H as [-> _].
  exists (norm name). split; [reflexivity|apply norm_plain].
Qed.
Print Assumptions extracted_path_beneath.

(** (c) *)
Theorem refuse_iff_parent out name :
  get_extracted_path out name = None <-> In ParentDir (components name).
Proof. apply apply_actions_none. Qed.
Print Assumptions refuse_iff_parent.

(* ... and in terms of the raw bytes: the name is refused exactly when ".."
   occurs delimited by '/' or the ends of the name. *)
Theorem refuse_iff_dotdot_raw out name :
  get_extracted_path out name = None <->
  (name = [46; 46] \/
   (exists b, name = [46; 46] ++ 47 :: b) \/
   (exists a, name = a ++ 47 :: [46; 46]) \/
   (exists a b, name = a ++ 47 :: [46; 46] ++ 47 :: b)).
Proof.
  rewrite refuse_iff_parent, components_parent_piece, in_split_on_iff.
  unfold piece_of, SEP, DOT. split.
  - intros [_ H]. exact H.
  - intros H. split; [|exact H].
    intros [Hc|[Hc|[]]]; discriminate.
Qed.
Print Assumptions refuse_iff_dotdot_raw.

(* ================================================================== *)
(** * 3. Basic facts about the model file system *)

Lemma list_eqb_eq {A} (eqb : A -> A -> bool) :
  (forall a b, eqb a b = true <-> a = b) ->
  forall l1 l2, list_eqb eqb l1 l2 = true <-> l1 = l2.
Proof.
  intros Heq. induction l1 as [|x l1 IH]; intros [|y l2]; cbn [list_eqb]; try easy.
  rewrite andb_true_iff, Heq, IH.
  split; [intros [-> ->]; reflexivity|intros H; inversion H; auto].
Qed.

Lemma path_eqb_eq a b : path_eqb a b = true <-> a = b.
Proof. apply list_eqb_eq. apply bytes_eqb_eq. Qed.
Lemma path_eqb_refl a : path_eqb a a = true.
Proof. now apply path_eqb_eq. Qed.
Lemma path_eqb_false a b : path_eqb a b = false <-> a <> b.
Proof. rewrite <- path_eqb_eq. destruct (path_eqb a b); split; congruence. Qed.

Lemma lookup_set_eq f p n : p <> [] -> lookup (set f p n) p = Some n.
Proof.
  intros Hp. destruct p as [|x p]; [congruence|].
  unfold lookup, set. cbn [lookup_raw]. now rewrite path_eqb_refl.
Qed.

Lemma lookup_set_neq f p n q : p <> q -> lookup (set f p n) q = lookup f q.
Proof.
  intros Hp. destruct q as [|y q]; [reflexivity|].
  unfold lookup, set. cbn [lookup_raw].
  apply path_eqb_false in Hp. now rewrite Hp.
Qed.

Lemma snoc_neq_nil {A} (l : list A) x : l ++ [x] <> [].
Proof. destruct l; discriminate. Qed.

(** ** prefix *)

Lemma prefix_nil {A} (l : list A) : prefix [] l.
Proof. exists l; reflexivity. Qed.

Lemma prefixb_prefix a b : prefixb a b = true <-> prefix a b.
Proof.
  revert b; induction a as [|x a IH]; intros b; cbn [prefixb].
  - split; [intros _; apply prefix_nil|reflexivity].
  - destruct b as [|y b].
    + split; [discriminate|]. intros [r Hr]. discriminate.
    + rewrite andb_true_iff, bytes_eqb_eq, IH. split.
      * intros [-> [r ->]]. exists r; reflexivity.
      * intros [r Hr]. inversion Hr; subst. split; [reflexivity|exists r; reflexivity].
Qed.

Lemma prefix_app_l {A} (o a b : list A) : prefix a b -> prefix (o ++ a) (o ++ b).
Proof. intros [r ->]. exists r. now rewrite app_assoc. Qed.

Lemma prefix_app_inv {A} (o a b : list A) : prefix (o ++ a) (o ++ b) -> prefix a b.
Proof.
  intros [r Hr]. rewrite <- app_assoc in Hr. apply app_inv_head in Hr. now exists r.
Qed.

Lemma prefix_app_r {A} (a b r : list A) : prefix a b -> prefix a (b ++ r).
Proof. intros H. eapply prefix_trans; [exact H|apply prefix_app]. Qed.

Lemma prefix_length {A} (a b : list A) : prefix a b -> (length a <= length b)%nat.
Proof. intros [r ->]. rewrite app_length. lia. Qed.

Lemma prefix_same_length {A} (a b : list A) : prefix a b -> length a = length b -> a = b.
Proof.
  intros [r ->] Hl. rewrite app_length in Hl.
  destruct r; [now rewrite app_nil_r|cbn [length] in Hl; lia].
Qed.

Lemma prefix_cons_inv {A} (x y : A) a b : prefix (x :: a) (y :: b) -> x = y /\ prefix a b.
Proof. intros [r Hr]. inversion Hr; subst. split; [reflexivity|now exists r]. Qed.

(* proper prefix of l ++ [x] is a prefix of l *)
Lemma prefix_snoc_inv {A} (r l : list A) x :
  prefix r (l ++ [x]) -> prefix r l \/ r = l ++ [x].
Proof.
  intros [t Ht]. induction t as [|y t _] using rev_ind.
  - right. now rewrite app_nil_r in Ht.
  - left. rewrite app_assoc in Ht. apply app_inj_tail in Ht. destruct Ht as [-> _].
    apply prefix_app.
Qed.

(** ** split_last *)

Lemma split_last_snoc {A} (l : list A) x : split_last (l ++ [x]) = Some (l, x).
Proof.
  induction l as [|y l IH]; [reflexivity|].
  cbn [app split_last]. now rewrite IH.
Qed.

Lemma split_last_some {A} (l : list A) i z : split_last l = Some (i, z) -> l = i ++ [z].
Proof.
  revert i; induction l as [|y l IH]; intros i; cbn [split_last]; [discriminate|].
  destruct (split_last l) as [[i' z']|] eqn:E.
  - intros H; inversion H; subst. cbn [app]. f_equal. now apply IH.
  - intros H; inversion H; subst. destruct l as [|y' l]; [reflexivity|].
    cbn [split_last] in E. destruct (split_last l) as [[? ?]|]; discriminate.
Qed.

Lemma split_last_none {A} (l : list A) : split_last l = None -> l = [].
Proof.
  destruct l as [|y l]; [reflexivity|]. cbn [split_last].
  destruct (split_last l) as [[? ?]|]; discriminate.
Qed.

(** ** real directories, walk, canonicalize *)

(* every step from cur along rest is a directory entry (no link, no file) *)
Fixpoint dirs_from (f : fs) (cur rest : path) : Prop :=
  match rest with
  | [] => True
  | c :: r => lookup f (cur ++ [c]) = Some Dir /\ dirs_from f (cur ++ [c]) r
  end.

(* p exists, is a directory, and is its own canonical path *)
Definition real_dir (f : fs) (p : path) : Prop := dirs_from f [] p.

Lemma dirs_from_app f cur a b :
  dirs_from f cur (a ++ b) <-> dirs_from f cur a /\ dirs_from f (cur ++ a) b.
Proof.
  revert cur; induction a as [|x a IH]; intros cur; cbn [app dirs_from].
  - rewrite app_nil_r. tauto.
  - rewrite IH. rewrite <- app_assoc. cbn [app]. tauto.
Qed.

Lemma dirs_from_lookup f cur rest :
  dirs_from f cur rest -> lookup f cur = Some Dir -> lookup f (cur ++ rest) = Some Dir.
Proof.
  revert cur; induction rest as [|c r IH]; intros cur Hd Hc; cbn [dirs_from] in Hd.
  - now rewrite app_nil_r.
  - destruct Hd as [Hl Hd]. specialize (IH _ Hd Hl). rewrite <- app_assoc in IH. exact IH.
Qed.

Lemma real_dir_lookup f p : real_dir f p -> lookup f p = Some Dir.
Proof. intros H. apply (dirs_from_lookup f [] p H). reflexivity. Qed.

Lemma real_dir_is_dir f p : real_dir f p -> is_dir f p = true.
Proof. intros H. unfold is_dir. now rewrite (real_dir_lookup f p H). Qed.

Lemma real_dir_app f a b : real_dir f (a ++ b) <-> real_dir f a /\ dirs_from f a b.
Proof. unfold real_dir. rewrite dirs_from_app. reflexivity. Qed.

Lemma down_app a b : down (a ++ b) = down a ++ down b.
Proof. apply map_app. Qed.

Lemma walk_dirs f cur rest : dirs_from f cur rest -> walk f cur (down rest) = WDone (cur ++ rest).
Proof.
  revert cur; induction rest as [|c r IH]; intros cur Hd; cbn [dirs_from walk down map] in *.
  - now rewrite app_nil_r.
  - destruct Hd as [Hl Hd]. rewrite Hl. fold (down r). rewrite IH by exact Hd.
    now rewrite <- app_assoc.
Qed.

(* b : any steps, ".." included *)
Lemma walk_app_dirs_gen f cur a b :
  dirs_from f cur a -> walk f cur (down a ++ b) = walk f (cur ++ a) b.
Proof.
  revert cur; induction a as [|x a IH]; intros cur Hd; cbn [app dirs_from walk down map] in *.
  - now rewrite app_nil_r.
  - destruct Hd as [Hl Hd]. rewrite Hl. fold (down a). rewrite IH by exact Hd.
    now rewrite <- app_assoc.
Qed.

Lemma walk_app_dirs f cur a b :
  dirs_from f cur a -> walk f cur (down (a ++ b)) = walk f (cur ++ a) (down b).
Proof. intros Hd. rewrite down_app. now apply walk_app_dirs_gen. Qed.

Lemma resolve_done k f cur p q : walk f cur p = WDone q -> resolve k f cur p = Some q.
Proof. intros H. destruct k; cbn [resolve]; now rewrite H. Qed.

Lemma resolve_fail k f cur p : walk f cur p = WFail -> resolve k f cur p = None.
Proof. intros H. destruct k; cbn [resolve]; now rewrite H. Qed.

Lemma canonicalize_real f p : real_dir f p -> canonicalize f p = Some p.
Proof. intros H. apply resolve_done. now apply walk_dirs in H. Qed.

(* a successful walk that meets no regular file went through directories only *)
Lemma walk_done_dirs f cur rest x :
  walk f cur (down rest) = WDone x ->
  (forall r d, r <> [] -> prefix r rest -> lookup f (cur ++ r) <> Some (File d)) ->
  dirs_from f cur rest /\ x = cur ++ rest.
Proof.
  revert cur; induction rest as [|c r IH]; intros cur Hw Hnf; cbn [walk dirs_from down map] in *;
    try fold (down r) in *.
  - inversion Hw. now rewrite app_nil_r.
  - destruct (lookup f (cur ++ [c])) as [[|d|t]|] eqn:Hl; try discriminate.
    + destruct (IH (cur ++ [c]) Hw) as [Hd Hx].
      * intros r' d Hr' Hp. rewrite <- app_assoc. cbn [app].
        apply Hnf; [discriminate|]. destruct Hp as [t ->]. exists t; reflexivity.
      * split; [split; [reflexivity|exact Hd]|]. now rewrite <- app_assoc in Hx.
    + exfalso. apply (Hnf [c] d); [discriminate| |exact Hl]. exists r; reflexivity.
Qed.

(** ** no symbolic link beneath a directory *)

Definition no_links_under (out : path) (f : fs) : Prop :=
  forall p t, prefix out p -> lookup f p <> Some (Link t).

(* below a link-free directory a walk never meets a link *)
Lemma walk_under out f cur rest :
  no_links_under out f -> prefix out cur ->
  walk f cur (down rest) = WDone (cur ++ rest) \/ walk f cur (down rest) = WFail.
Proof.
  intros Hnl. revert cur; induction rest as [|c r IH]; intros cur Hp; cbn [walk down map];
    try fold (down r).
  - left. now rewrite app_nil_r.
  - destruct (lookup f (cur ++ [c])) as [[|d|t]|] eqn:Hl.
    + specialize (IH (cur ++ [c]) (prefix_app_r _ _ _ Hp)).
      rewrite <- app_assoc in IH. exact IH.
    + destruct r; [left; reflexivity|right; reflexivity].
    + exfalso. apply (Hnl (cur ++ [c]) t); [now apply prefix_app_r|exact Hl].
    + right; reflexivity.
Qed.

Lemma canonicalize_under out f cs q :
  real_dir f out -> no_links_under out f ->
  canonicalize f (out ++ cs) = Some q -> q = out ++ cs.
Proof.
  intros Hr Hnl Hc. unfold canonicalize in Hc.
  pose proof (walk_app_dirs f [] out cs Hr) as Hw. cbn [app] in Hw.
  destruct (walk_under out f out cs Hnl (prefix_refl out)) as [H|H]; rewrite <- Hw in H.
  - rewrite (resolve_done _ _ _ _ _ H) in Hc. congruence.
  - rewrite (resolve_fail _ _ _ _ H) in Hc. discriminate.
Qed.

(** ** create_dir_all *)

(* what mkdir_all can change: it only turns missing entries into directories *)
Definition mk_rel (f f1 : fs) : Prop :=
  forall p, lookup f1 p = lookup f p \/ (lookup f p = None /\ lookup f1 p = Some Dir).

Lemma mk_rel_refl f : mk_rel f f.
Proof. intros p; left; reflexivity. Qed.

Lemma mk_rel_trans f f' f1 : mk_rel f f' -> mk_rel f' f1 -> mk_rel f f1.
Proof.
  intros H1 H2 p. destruct (H1 p) as [E1|[E1 E1']]; destruct (H2 p) as [E2|[E2 E2']].
  - left; congruence.
  - right; split; congruence.
  - right; split; congruence.
  - congruence.
Qed.

Lemma mk_rel_set f p : lookup f p = None -> mk_rel f (set f p Dir).
Proof.
  intros Hl q. destruct (path_eqb p q) eqn:E.
  - apply path_eqb_eq in E; subst q. right. split; [exact Hl|].
    apply lookup_set_eq. intros ->. discriminate.
  - apply path_eqb_false in E. left. now apply lookup_set_neq.
Qed.

Lemma mkdir_all_rel f cur rest f1 b : mkdir_all f cur rest = (f1, b) -> mk_rel f f1.
Proof.
  revert f cur; induction rest as [|c r IH]; intros f cur; cbn [mkdir_all].
  - intros H; inversion H; subst. apply mk_rel_refl.
  - destruct (lookup f (cur ++ [c])) as [[|d|t]|] eqn:Hl.
    + apply IH.
    + intros H; inversion H; subst. apply mk_rel_refl.
    + destruct (resolve MAXSYMLINKS f (link_base cur t) (snd t)) as [q|];
        [|intros H; inversion H; subst; apply mk_rel_refl].
      destruct (is_dir f q); [apply IH|intros H; inversion H; subst; apply mk_rel_refl].
    + intros H. apply IH in H. eapply mk_rel_trans; [|exact H]. now apply mk_rel_set.
Qed.

Lemma mk_rel_mono f f1 p n : mk_rel f f1 -> lookup f p = Some n -> lookup f1 p = Some n.
Proof. intros H Hl. destruct (H p) as [E|[E _]]; congruence. Qed.

Lemma mk_rel_link f f1 p t : mk_rel f f1 -> lookup f1 p = Some (Link t) <-> lookup f p = Some (Link t).
Proof. intros H. destruct (H p) as [E|[E E']]; split; congruence. Qed.

Lemma mk_rel_file f f1 p d : mk_rel f f1 -> lookup f1 p = Some (File d) <-> lookup f p = Some (File d).
Proof. intros H. destruct (H p) as [E|[E E']]; split; congruence. Qed.

Lemma mk_rel_dirs_from f f1 cur rest : mk_rel f f1 -> dirs_from f cur rest -> dirs_from f1 cur rest.
Proof.
  intros H. revert cur; induction rest as [|c r IH]; intros cur; cbn [dirs_from]; [auto|].
  intros [Hl Hd]. split; [now apply (mk_rel_mono f f1)|now apply IH].
Qed.

Lemma mk_rel_no_links out f f1 : mk_rel f f1 -> no_links_under out f -> no_links_under out f1.
Proof. intros H Hnl p t Hp Hl. apply (mk_rel_link f f1 p t H) in Hl. exact (Hnl p t Hp Hl). Qed.

Lemma prepare_parent_rel f par : mk_rel f (fst (prepare_parent f par)).
Proof.
  unfold prepare_parent. destruct (sys_ok par); [|apply mk_rel_refl].
  destruct (exists_ f par); [apply mk_rel_refl|].
  unfold create_dir_all. destruct (mkdir_all f [] par) as [f1 b] eqn:E.
  cbn [fst]. now apply mkdir_all_rel in E.
Qed.

(* mkdir through existing directories does nothing *)
Lemma mkdir_all_app_dirs f cur a b :
  dirs_from f cur a -> mkdir_all f cur (a ++ b) = mkdir_all f (cur ++ a) b.
Proof.
  revert cur; induction a as [|x a IH]; intros cur Hd; cbn [app dirs_from mkdir_all] in *.
  - now rewrite app_nil_r.
  - destruct Hd as [Hl Hd]. rewrite Hl. rewrite IH by exact Hd. now rewrite <- app_assoc.
Qed.

(* below a link-free directory: where the new directories are *)
Lemma mkdir_all_under out f cur rest f1 b :
  no_links_under out f -> prefix out cur ->
  mkdir_all f cur rest = (f1, b) ->
  (forall p, lookup f1 p = lookup f p \/
             (lookup f p = None /\ lookup f1 p = Some Dir /\
              exists r, r <> [] /\ prefix r rest /\ p = cur ++ r)) /\
  (b = true -> dirs_from f1 cur rest).
Proof.
  revert f cur; induction rest as [|c r IH]; intros f cur Hnl Hp; cbn [mkdir_all].
  - intros H; inversion H; subst. split; [intros p; left; reflexivity|intros _; exact I].
  - assert (Hp' : prefix out (cur ++ [c])) by now apply prefix_app_r.
    assert (Hshift : forall p r', prefix r' r -> p = (cur ++ [c]) ++ r' ->
              exists r0, r0 <> [] /\ prefix r0 (c :: r) /\ p = cur ++ r0).
    { intros p r' [t ->] ->. exists (c :: r'). split; [discriminate|]. split.
      - exists t; reflexivity.
      - now rewrite <- app_assoc. }
    destruct (lookup f (cur ++ [c])) as [[|d|t]|] eqn:Hl.
    + intros H. destruct (IH f (cur ++ [c]) Hnl Hp' H) as [Hch Hd]. split.
      * intros p. destruct (Hch p) as [E|[E1 [E2 [r' [_ [Hr' ->]]]]]]; [left; exact E|].
        right. split; [exact E1|]. split; [exact E2|]. now apply (Hshift _ r').
      * intros Hb. cbn [dirs_from]. split; [|now apply Hd].
        destruct (Hch (cur ++ [c])) as [E|[E _]]; congruence.
    + intros H; inversion H; subst. split; [intros p; left; reflexivity|discriminate].
    + exfalso. exact (Hnl (cur ++ [c]) t Hp' Hl).
    + intros H.
      assert (Hnl' : no_links_under out (set f (cur ++ [c]) Dir)).
      { apply (mk_rel_no_links out f); [now apply mk_rel_set|exact Hnl]. }
      destruct (IH _ (cur ++ [c]) Hnl' Hp' H) as [Hch Hd]. split.
      * intros p. destruct (path_eqb (cur ++ [c]) p) eqn:E.
        -- apply path_eqb_eq in E; subst p. right. split; [exact Hl|]. split.
           ++ destruct (Hch (cur ++ [c])) as [E|[E _]];
                rewrite lookup_set_eq in E by apply snoc_neq_nil; congruence.
           ++ exists [c]. split; [discriminate|]. split; [exists r; reflexivity|reflexivity].
        -- apply path_eqb_false in E.
           destruct (Hch p) as [E0|[E1 [E2 [r' [_ [Hr' Hpp]]]]]];
             rewrite lookup_set_neq in * by exact E.
           ++ left; exact E0.
           ++ right. split; [exact E1|]. split; [exact E2|]. now apply (Hshift _ r').
      * intros Hb. cbn [dirs_from]. split; [|now apply Hd].
        destruct (Hch (cur ++ [c])) as [E|[E _]];
          rewrite lookup_set_eq in E by apply snoc_neq_nil; congruence.
Qed.

(* no regular file or link on the way: create_dir_all succeeds *)
Lemma mkdir_all_ok f cur rest :
  (forall r, r <> [] -> prefix r rest ->
     lookup f (cur ++ r) = None \/ lookup f (cur ++ r) = Some Dir) ->
  exists f1, mkdir_all f cur rest = (f1, true).
Proof.
  revert f cur; induction rest as [|c r IH]; intros f cur Hok; cbn [mkdir_all].
  - eexists; reflexivity.
  - assert (Hc : lookup f (cur ++ [c]) = None \/ lookup f (cur ++ [c]) = Some Dir).
    { apply Hok; [discriminate|exists r; reflexivity]. }
    assert (Hstep : forall r', r' <> [] -> prefix r' r ->
              lookup f ((cur ++ [c]) ++ r') = None \/ lookup f ((cur ++ [c]) ++ r') = Some Dir).
    { intros r' Hne [t ->]. rewrite <- app_assoc. cbn [app]. apply Hok; [discriminate|].
      exists t; reflexivity. }
    destruct Hc as [Hc|Hc]; rewrite Hc.
    + apply IH. intros r' Hne Hpr.
      rewrite lookup_set_neq; [now apply Hstep|].
      intros E. apply (f_equal (@length _)) in E. rewrite !app_length in E.
      destruct r'; [congruence|cbn [length] in E; lia].
    + apply IH. exact Hstep.
Qed.

(** ** File::create *)

Lemma open_create_effect k f cur rest f2 cp :
  open_create k f cur rest = Some (f2, cp) ->
  (lookup f cp = None \/ exists d, lookup f cp = Some (File d)) /\
  f2 = set f cp (File []) /\
  exists q c, cp = q ++ [c] /\ is_dir f q = true.
Proof.
  revert cur rest; induction k as [|k IH]; intros cur rest; cbn [open_create];
    destruct (split_last rest) as [[par [|c]]|]; try discriminate;
    destruct (resolve MAXSYMLINKS f cur par) as [q|]; try discriminate;
    destruct (is_dir f q) eqn:Hd; try discriminate;
    destruct (lookup f (q ++ [c])) as [[|d|t]|] eqn:Hl; try discriminate;
    try apply IH;
    intros H; inversion H; subst; (split; [eauto|split; [reflexivity|eauto]]).
Qed.

Lemma split_last_down p :
  split_last (down p) =
  match split_last p with None => None | Some (par, c) => Some (down par, Down c) end.
Proof.
  induction p as [|x p IH]; [reflexivity|].
  cbn [down map split_last]. fold (down p). rewrite IH.
  destruct (split_last p) as [[par c]|]; reflexivity.
Qed.

(* one step of File::create, exposed *)
Lemma open_create_step k f p f2 cp :
  open_create k f [] (down p) = Some (f2, cp) ->
  exists par c q, p = par ++ [c] /\ canonicalize f par = Some q /\ is_dir f q = true /\
    (cp = q ++ [c] \/ exists t, lookup f (q ++ [c]) = Some (Link t)).
Proof.
  destruct k as [|k]; cbn [open_create]; rewrite split_last_down;
    (destruct (split_last p) as [[par c]|] eqn:Hs; [|discriminate]);
    apply split_last_some in Hs;
    change (resolve MAXSYMLINKS f [] (down par)) with (canonicalize f par);
    (destruct (canonicalize f par) as [q|] eqn:Hc; [|discriminate]);
    (destruct (is_dir f q) eqn:Hd; [|discriminate]);
    intros H; exists par, c, q;
    (split; [exact Hs|]); (split; [exact Hc|]); (split; [exact Hd|]);
    destruct (lookup f (q ++ [c])) as [[|d|t]|] eqn:Hl; try discriminate;
    try (left; now inversion H); right; eauto.
Qed.

(* file creation keeps directories and links *)
Lemma set_file_keeps f cp p n :
  (lookup f cp = None \/ exists d, lookup f cp = Some (File d)) ->
  lookup f p = Some n -> (forall d, n <> File d) ->
  forall d', lookup (set f cp (File d')) p = Some n.
Proof.
  intros Hcp Hl Hn d'. rewrite lookup_set_neq; [exact Hl|].
  intros ->. destruct Hcp as [Hcp|[d Hcp]]; rewrite Hcp in Hl; [discriminate|].
  inversion Hl. apply (Hn d). congruence.
Qed.

Lemma set_file_dirs_from f cp d' cur rest :
  (lookup f cp = None \/ exists d, lookup f cp = Some (File d)) ->
  dirs_from f cur rest -> dirs_from (set f cp (File d')) cur rest.
Proof.
  intros Hcp. revert cur; induction rest as [|c r IH]; intros cur; cbn [dirs_from]; [auto|].
  intros [Hl Hd]. split; [|now apply IH].
  apply set_file_keeps; [exact Hcp|exact Hl|discriminate].
Qed.

Lemma set_file_no_links out f cp d' :
  no_links_under out f -> no_links_under out (set f cp (File d')).
Proof.
  intros Hnl p t Hp Hl. destruct (path_eqb cp p) eqn:E.
  - apply path_eqb_eq in E; subst p.
    destruct cp as [|x cp]; [discriminate|].
    rewrite lookup_set_eq in Hl by discriminate. discriminate.
  - apply path_eqb_false in E. rewrite lookup_set_neq in Hl by exact E.
    exact (Hnl p t Hp Hl).
Qed.

(* ================================================================== *)
(** * 4. (e) confinement by the canonicalize + starts_with check alone *)

(* Any file system (symbolic links anywhere), any path-computing function
   (in particular one that does not filter ".."): if create_file creates a
   file, then the canonical path q of the literal parent directory, computed
   on the file system f1 as it is at the time of the check (after
   create_dir_all), has `out` as component-wise prefix, q is a directory, and
   the file that is created/truncated is either q/c itself, or q/c is a
   symbolic link that already existed in the initial file system f and the
   write went through it. *)
Theorem confined_by_canonical_check gp lt out name f f' lit cp :
  create_file_with gp prefixb lt out name f = (f', Created lit cp) ->
  exists par c q f1,
    gp out name = Some lit /\ lit = par ++ [c] /\
    f1 = fst (prepare_parent f par) /\
    canonicalize f1 par = Some q /\ prefix out q /\ is_dir f1 q = true /\
    (cp = q ++ [c] \/ exists t, lookup f (q ++ [c]) = Some (Link t)) /\
    (lookup f1 cp = None \/ exists d, lookup f1 cp = Some (File d)) /\
    f' = set f1 cp (File []) /\ lt f1 lit = false /\ sys_ok lit = true.
Proof.
  unfold create_file_with.
  destruct (gp out name) as [p|] eqn:Hgp; [|intros H; inversion H].
  destruct (split_last p) as [[par c]|] eqn:Hs; [|intros H; inversion H].
  apply split_last_some in Hs.
  pose proof (prepare_parent_rel f par) as Hrel.
  destruct (prepare_parent f par) as [f1 b] eqn:Hpp. cbn [fst] in Hrel.
  destruct b; [|intros H; inversion H].
  destruct (canonicalize f1 par) as [q|] eqn:Hc; [|intros H; inversion H].
  destruct (prefixb out q) eqn:Hpre; [|intros H; inversion H].
  destruct (lt f1 p) eqn:Hlt; [intros H; inversion H|].
  destruct (sys_file_create f1 p) as [[f2 cp']|] eqn:Hfc; [|intros H; inversion H].
  intros H; inversion H; subst f2 lit cp'. clear H.
  unfold sys_file_create in Hfc. destruct (sys_ok p) eqn:Hok; [|discriminate].
  unfold file_create in Hfc.
  destruct (open_create_effect _ _ _ _ _ _ Hfc) as [Hold [Hset _]].
  destruct (open_create_step _ _ _ _ _ Hfc) as [par' [c' [q' [Hp' [Hc' [Hd' Hcp]]]]]].
  rewrite Hs in Hp'. apply app_inj_tail in Hp'. destruct Hp' as [<- <-].
  rewrite Hc in Hc'. inversion Hc'; subst q'.
  exists par, c, q, f1. rewrite Hpp. cbn [fst].
  repeat (split; [first [reflexivity|assumption|now apply prefixb_prefix]|]).
  split; [|split; [assumption|split; [assumption|split; [assumption|reflexivity]]]].
  destruct Hcp as [Hcp|[t Ht]]; [left; exact Hcp|right].
  exists t. now apply (mk_rel_link f f1).
Qed.
Print Assumptions confined_by_canonical_check.

(* The canonical parent is beneath out; so is the file unless the last
   component is a symbolic link.  In particular (no link located beneath out,
   links allowed everywhere else): *)
Theorem confined_by_canonical_check_file_partial gp lt out name f f' lit cp :
  no_links_under out f ->
  create_file_with gp prefixb lt out name f = (f', Created lit cp) ->
  prefix out cp.
Proof.
  intros Hnl H. apply confined_by_canonical_check in H.
  destruct H as [par [c [q [f1 [_ [_ [_ [_ [Hpre [_ [Hcp _]]]]]]]]]]].
  destruct Hcp as [->|[t Ht]].
  - now apply prefix_app_r.
  - exfalso. apply (Hnl (q ++ [c]) t); [now apply prefix_app_r|exact Ht].
Qed.
Print Assumptions confined_by_canonical_check_file_partial.

(* what symlink_metadata answers for par/c once par is known to resolve to the
   directory q: the node at q/c itself *)
Lemma lstat_snoc f par c q :
  canonicalize f par = Some q -> is_dir f q = true ->
  lstat f (par ++ [c]) = lookup f (q ++ [c]).
Proof. intros Hc Hd. unfold lstat. now rewrite split_last_snoc, Hc, Hd. Qed.

(* THE FULL STATEMENT, with the symlink_metadata test of the repaired code
   (D23): ANY file system (directories, files, symbolic links with absolute or
   relative targets anywhere, inside and outside out, cycles included), ANY
   path-computing function (even one that does not filter ".."), ANY member
   name: the file that create_file creates or truncates is q/c where q is the
   canonical parent, a directory beneath out.  Hence its physical path is
   beneath out. *)
Theorem confined_by_canonical_check_file gp out name f f' lit cp :
  create_file_with gp prefixb sys_is_symlink out name f = (f', Created lit cp) ->
  prefix out cp /\
  exists par c q, lit = par ++ [c] /\ cp = q ++ [c] /\ prefix out q /\
    canonicalize (fst (prepare_parent f par)) par = Some q.
Proof.
  intros H. apply confined_by_canonical_check in H.
  destruct H as [par [c [q [f1 [_ [Hlit [Hf1 [Hc [Hpre [Hd [Hcp [_ [_ [Hlt Hok]]]]]]]]]]]]]].
  assert (E : cp = q ++ [c]).
  { destruct Hcp as [E|[t Ht]]; [exact E|exfalso].
    unfold sys_is_symlink in Hlt. rewrite Hok in Hlt. cbn [andb] in Hlt.
    unfold is_symlink in Hlt. rewrite Hlit, (lstat_snoc f1 par c q Hc Hd) in Hlt.
    assert (Ht1 : lookup f1 (q ++ [c]) = Some (Link t)).
    { subst f1. apply (mk_rel_link f _ _ t (prepare_parent_rel f par)). exact Ht. }
    rewrite Ht1 in Hlt. discriminate. }
  split; [rewrite E; now apply prefix_app_r|].
  exists par, c, q. subst f1. repeat split; assumption.
Qed.
Print Assumptions confined_by_canonical_check_file.

(* D23: the same statement for the code BEFORE the repair (no symlink_metadata
   test) is false: File::create follows a symbolic link in the LAST component;
   only the parent was checked.  Witness = rust/cf.rs scenario 1 (and 6 for a
   dangling link), reproduced with the real create_file of that time; the
   harness job c16-symlink found it on the real binary (member "flink"). *)
Definition abs_link (p : path) : node := Link (true, down p).

Definition fs_final_link : fs :=
  [ ([s2b "out"], Dir);
    ([s2b "out"; s2b "x"], abs_link [s2b "etc"; s2b "passwd"]);
    ([s2b "etc"], Dir);
    ([s2b "etc"; s2b "passwd"], File (s2b "root")) ].

Theorem D23_old_code_refuted :
  exists f out name f' lit cp,
    real_dir f out /\
    create_file_old out name f = (f', Created lit cp) /\
    prefixb out cp = false /\
    lookup f cp = Some (File (s2b "root")) /\
    lookup f' cp = Some (File []).
Proof.
  exists fs_final_link, [s2b "out"], (s2b "x").
  eexists. eexists. eexists.
  split; [vm_compute; auto|].
  split; [vm_compute; reflexivity|].
  vm_compute. auto.
Qed.
Print Assumptions D23_old_code_refuted.

(* ... and the repaired code skips that member *)
Example D23_new_code_skips :
  create_file [s2b "out"] (s2b "x") fs_final_link = (fs_final_link, Skipped).
Proof. vm_compute. reflexivity. Qed.

(* Directories, on the other hand, are created BEFORE the check: with a
   symbolic link to a directory located in out, create_dir_all makes
   directories outside out and the member is then skipped.  (rust/cf.rs
   scenario 2.)  C16 speaks of files only; this is reported as a finding. *)
Definition fs_dir_link : fs :=
  [ ([s2b "out"], Dir);
    ([s2b "out"; s2b "l"], abs_link [s2b "tmp"]);
    ([s2b "tmp"], Dir) ].

Theorem directories_created_outside :
  exists f out name f' p,
    real_dir f out /\
    create_file out name f = (f', Skipped) /\
    prefixb out p = false /\ lookup f p = None /\ lookup f' p = Some Dir.
Proof.
  exists fs_dir_link, [s2b "out"], (s2b "l/x/y").
  eexists. exists [s2b "tmp"; s2b "x"].
  split; [vm_compute; auto|].
  split; [vm_compute; reflexivity|].
  vm_compute. auto.
Qed.
Print Assumptions directories_created_outside.

(* ================================================================== *)
(** * 5. (d) confinement by the ".." filter alone *)

(* the member name normalises to nothing ("", "/", ".", "./"): the extracted
   path is out itself; nothing changes and nothing is created *)
Lemma create_file_with_out_itself gp chk lt out name f f' o :
  real_dir f out -> gp out name = Some out ->
  create_file_with gp chk lt out name f = (f', o) ->
  f' = f /\ forall lit cp, o <> Created lit cp.
Proof.
  intros Hr Hgp. unfold create_file_with. rewrite Hgp.
  destruct (split_last out) as [[par c]|] eqn:Hs.
  2:{ intros H; inversion H; subst. split; [reflexivity|discriminate]. }
  apply split_last_some in Hs.
  assert (Hrp : real_dir f par).
  { rewrite Hs in Hr. apply real_dir_app in Hr. tauto. }
  assert (Hpp : exists b, prepare_parent f par = (f, b)).
  { unfold prepare_parent. destruct (sys_ok par); [|eauto].
    unfold exists_. rewrite (canonicalize_real f par Hrp). eauto. }
  destruct Hpp as [b Hpp]. rewrite Hpp.
  destruct b; [|intros H; inversion H; subst; split; [reflexivity|discriminate]].
  rewrite (canonicalize_real f par Hrp).
  destruct (chk out par); [|intros H; inversion H; subst; split; [reflexivity|discriminate]].
  destruct (lt f out); [intros H; inversion H; subst; split; [reflexivity|discriminate]|].
  destruct (sys_file_create f out) as [[f2 cp]|] eqn:Hfc;
    [|intros H; inversion H; subst; split; [reflexivity|discriminate]].
  exfalso. unfold sys_file_create in Hfc. destruct (sys_ok out); [|discriminate].
  unfold file_create in Hfc.
  destruct (open_create_effect _ _ _ _ _ _ Hfc) as [Hold _].
  destruct (open_create_step _ _ _ _ _ Hfc) as [par' [c' [q' [Hp' [Hc' [_ Hcp]]]]]].
  rewrite Hs in Hp'. apply app_inj_tail in Hp'. destruct Hp' as [<- <-].
  rewrite (canonicalize_real f par Hrp) in Hc'. inversion Hc'; subst q'.
  rewrite <- Hs in Hcp. pose proof (real_dir_lookup f out Hr) as Hl.
  destruct Hcp as [->|[t Ht]]; [|congruence].
  destruct Hold as [Hold|[d Hold]]; congruence.
Qed.

(* the parent out/cs' is prepared: what changes, and what is known after *)
Lemma prepare_parent_under out cs' f f1 b :
  real_dir f out -> no_links_under out f ->
  prepare_parent f (out ++ cs') = (f1, b) ->
  (forall p, lookup f1 p = lookup f p \/
             (lookup f p = None /\ lookup f1 p = Some Dir /\
              exists r, r <> [] /\ prefix r cs' /\ p = out ++ r)) /\
  (b = true -> canonicalize f1 (out ++ cs') = Some (out ++ cs')).
Proof.
  intros Hr Hnl. unfold prepare_parent.
  destruct (sys_ok (out ++ cs')).
  2:{ intros H; inversion H; subst. split; [intros p; left; reflexivity|discriminate]. }
  unfold exists_. destruct (canonicalize f (out ++ cs')) as [q|] eqn:Hc.
  - intros H; inversion H; subst. split; [intros p; left; reflexivity|].
    intros _. now rewrite (canonicalize_under out f1 cs' q Hr Hnl Hc) in Hc.
  - unfold create_dir_all. rewrite (mkdir_all_app_dirs f [] out cs' Hr). cbn [app].
    intros H. destruct (mkdir_all_under out f out cs' f1 b Hnl (prefix_refl out) H) as [Hch Hd].
    split; [exact Hch|]. intros Hb. apply canonicalize_real. apply real_dir_app. split.
    + apply (mk_rel_dirs_from f f1); [|exact Hr].
      intros p. destruct (Hch p) as [E|[E1 [E2 _]]]; [left; exact E|right; split; assumption].
    + now apply Hd.
Qed.

(* (d) A file system in which the output directory `out` really exists (every
   ancestor is a directory entry, i.e. out is canonical) and NO symbolic link
   is located beneath it.  Then, whatever the check `chk` answers (in
   particular for create_file_nocheck, where it always answers "fine"), and
   whatever the member name:
   - the invariant is preserved;
   - nothing outside out changes: no file AND no directory;
   - if a file is created, it is created at canonical path out ++ norm name,
     a proper extension of out by plain components.
   The canonicalize/starts_with check plays no role in this proof. *)
Theorem confined_by_filter chk lt out name f f' o :
  real_dir f out -> no_links_under out f ->
  create_file_with get_extracted_path chk lt out name f = (f', o) ->
  real_dir f' out /\ no_links_under out f' /\
  (forall p, ~ prefix out p -> lookup f' p = lookup f p) /\
  (forall lit cp, o = Created lit cp ->
     cp = lit /\ lit = out ++ norm name /\ norm name <> [] /\ prefix out cp /\
     lookup f' cp = Some (File [])).
Proof.
  intros Hr Hnl Hcf.
  assert (Hskip : forall f1 o',
            real_dir f1 out -> no_links_under out f1 ->
            (forall p, ~ prefix out p -> lookup f1 p = lookup f p) ->
            (forall lit cp, o' <> Created lit cp) ->
            (f1, o') = (f', o) ->
            real_dir f' out /\ no_links_under out f' /\
            (forall p, ~ prefix out p -> lookup f' p = lookup f p) /\
            (forall lit cp, o = Created lit cp ->
               cp = lit /\ lit = out ++ norm name /\ norm name <> [] /\ prefix out cp /\
               lookup f' cp = Some (File []))).
  { intros f1 o' H1 H2 H3 Ho' H; inversion H; subst.
    split; [exact H1|]. split; [exact H2|]. split; [exact H3|].
    intros lit cp Hx. exfalso. exact (Ho' lit cp Hx). }
  destruct (get_extracted_path out name) as [p|] eqn:Hgp.
  2:{ unfold create_file_with in Hcf. rewrite Hgp in Hcf.
      apply (Hskip f Skipped); auto; discriminate. }
  destruct (get_extracted_path_some _ _ _ Hgp) as [-> _].
  destruct (split_last (norm name)) as [[cs' c]|] eqn:Hsl.
  2:{ apply split_last_none in Hsl. rewrite Hsl, app_nil_r in Hgp.
      destruct (create_file_with_out_itself _ _ _ _ _ _ _ _ Hr Hgp Hcf) as [-> Hno].
      apply (Hskip f o); auto. }
  apply split_last_some in Hsl.
  unfold create_file_with in Hcf. rewrite Hgp in Hcf.
  rewrite Hsl, app_assoc, split_last_snoc in Hcf.
  destruct (prepare_parent f (out ++ cs')) as [f1 b] eqn:Hpp.
  destruct (prepare_parent_under out cs' f f1 b Hr Hnl Hpp) as [Hch Hcan].
  assert (Hrel : mk_rel f f1).
  { intros p. destruct (Hch p) as [E|[E1 [E2 _]]]; [left; exact E|right; split; assumption]. }
  assert (Hr1 : real_dir f1 out) by now apply (mk_rel_dirs_from f f1).
  assert (Hnl1 : no_links_under out f1) by now apply (mk_rel_no_links out f f1).
  assert (Hout1 : forall p, ~ prefix out p -> lookup f1 p = lookup f p).
  { intros p Hnp. destruct (Hch p) as [E|[_ [_ [r [_ [_ ->]]]]]]; [exact E|].
    exfalso; apply Hnp; apply prefix_app. }
  specialize (Hskip f1).
  destruct b; [|apply (Hskip Failed); auto; discriminate].
  rewrite (Hcan eq_refl) in Hcf.
  destruct (chk out (out ++ cs')); [|apply (Hskip Skipped); auto; discriminate].
  destruct (lt f1 ((out ++ cs') ++ [c])); [apply (Hskip Skipped); auto; discriminate|].
  destruct (sys_file_create f1 ((out ++ cs') ++ [c])) as [[f2 cp]|] eqn:Hfc;
    [|apply (Hskip Failed); auto; discriminate].
  inversion Hcf; subst f2 o. clear Hcf Hskip.
  unfold sys_file_create in Hfc. destruct (sys_ok _); [|discriminate].
  unfold file_create in Hfc.
  destruct (open_create_effect _ _ _ _ _ _ Hfc) as [Hold [Hset _]].
  destruct (open_create_step _ _ _ _ _ Hfc) as [par' [c' [q' [Hp' [Hc' [_ Hcp]]]]]].
  apply app_inj_tail in Hp'. destruct Hp' as [<- <-].
  rewrite (Hcan eq_refl) in Hc'. inversion Hc'; subst q'.
  assert (Hcpeq : cp = (out ++ cs') ++ [c]).
  { destruct Hcp as [->|[t Ht]]; [reflexivity|].
    exfalso. apply (Hnl1 ((out ++ cs') ++ [c]) t); [|exact Ht].
    rewrite <- app_assoc. apply prefix_app. }
  subst cp f'.
  split; [now apply set_file_dirs_from|].
  split; [now apply set_file_no_links|].
  split.
  - intros p Hnp. rewrite lookup_set_neq; [now apply Hout1|].
    intros <-. apply Hnp. rewrite <- app_assoc. apply prefix_app.
  - intros lit cp H; inversion H; subst lit cp.
    split; [reflexivity|]. split; [now rewrite Hsl, app_assoc|].
    split; [rewrite Hsl; apply snoc_neq_nil|].
    split; [rewrite <- app_assoc; apply prefix_app|].
    apply lookup_set_eq. apply snoc_neq_nil.
Qed.
Print Assumptions confined_by_filter.

(* the instance named in the task: no canonical check at all *)
Corollary confined_by_filter_nocheck out name f f' lit cp :
  real_dir f out -> no_links_under out f ->
  create_file_nocheck out name f = (f', Created lit cp) ->
  exists cs, cp = out ++ cs /\ cs <> [] /\ Forall plain cs.
Proof.
  intros Hr Hnl H. unfold create_file_nocheck in H.
  destruct (confined_by_filter _ _ _ _ _ _ _ Hr Hnl H) as [_ [_ [_ Hc]]].
  destruct (Hc lit cp eq_refl) as [-> [-> [Hne _]]].
  exists (norm name). split; [reflexivity|]. split; [exact Hne|apply norm_plain].
Qed.
Print Assumptions confined_by_filter_nocheck.

(** ** whole extraction, hostile names, no symbolic link beneath out *)

Definition confined (out : path) (f f' : fs) : Prop :=
  real_dir f' out /\ no_links_under out f' /\
  (forall p, ~ prefix out p -> lookup f' p = lookup f p).

Lemma confined_refl out f : real_dir f out -> no_links_under out f -> confined out f f.
Proof. intros Hr Hnl. split; [exact Hr|]. split; [exact Hnl|reflexivity]. Qed.

Lemma confined_trans out f f1 f2 : confined out f f1 -> confined out f1 f2 -> confined out f f2.
Proof.
  intros [_ [_ H1]] [Hr [Hnl H2]]. split; [exact Hr|]. split; [exact Hnl|].
  intros p Hp. rewrite H2 by exact Hp. now apply H1.
Qed.

(* overwriting the content of an existing regular file beneath out *)
Lemma confined_set_file out f cp d d' :
  real_dir f out -> no_links_under out f -> prefix out cp ->
  lookup f cp = Some (File d) ->
  confined out f (set f cp (File d')).
Proof.
  intros Hr Hnl Hp Hl. split; [apply set_file_dirs_from; [right; eauto|exact Hr]|].
  split; [now apply set_file_no_links|].
  intros p Hnp. apply lookup_set_neq. intros ->. exact (Hnp Hp).
Qed.

Lemma extract_member_confined out m f f' b :
  real_dir f out -> no_links_under out f ->
  extract_member out m f = (f', b) -> confined out f f'.
Proof.
  intros Hr Hnl. unfold extract_member.
  destruct (create_file out (fst m) f) as [f1 o] eqn:Hcf.
  destruct (confined_by_filter prefixb sys_is_symlink _ _ _ _ _ Hr Hnl Hcf) as [Hr1 [Hnl1 [Hout1 Hc]]].
  assert (H1 : confined out f f1) by (split; [exact Hr1|split; assumption]).
  destruct o as [lit cp| |]; try (intros H; inversion H; subst; exact H1).
  destruct (Hc lit cp eq_refl) as [_ [_ [_ [Hpre Hl]]]].
  intros H; inversion H; subst. unfold write_at. rewrite Hl.
  apply (confined_trans out f f1); [exact H1|].
  now apply (confined_set_file out f1 cp []).
Qed.

(* C16, first half, per-file loop, on the model: whatever the member names and
   contents (hostile archive), if no symbolic link is located beneath the
   canonical output directory when extraction starts, then none is afterwards
   and nothing outside the output directory is created or modified — whether
   the extraction completes (b = true) or is aborted by an error. *)
Theorem extract_all_confined out ms : forall f f' b,
  real_dir f out -> no_links_under out f ->
  extract_all out ms f = (f', b) -> confined out f f'.
Proof.
  induction ms as [|m ms IH]; intros f f' b Hr Hnl; cbn [extract_all].
  - intros H; inversion H; subst. now apply confined_refl.
  - destruct (extract_member out m f) as [f1 b1] eqn:Hem.
    pose proof (extract_member_confined _ _ _ _ _ Hr Hnl Hem) as H1.
    destruct b1; [|intros H; inversion H; subst; exact H1].
    intros H. apply (confined_trans out f f1); [exact H1|].
    destruct H1 as [Hr1 [Hnl1 _]]. exact (IH _ _ _ Hr1 Hnl1 H).
Qed.
Print Assumptions extract_all_confined.

Lemma create_all_confined out names : forall f f' ex b,
  real_dir f out -> no_links_under out f ->
  create_all out names f = (f', ex, b) ->
  confined out f f' /\ Forall (fun e => prefix out (snd e)) ex.
Proof.
  induction names as [|n names IH]; intros f f' ex b Hr Hnl; cbn [create_all].
  - intros H; inversion H; subst. split; [now apply confined_refl|constructor].
  - destruct (create_file out n f) as [f1 o] eqn:Hcf.
    destruct (confined_by_filter prefixb sys_is_symlink _ _ _ _ _ Hr Hnl Hcf) as [Hr1 [Hnl1 [Hout1 Hc]]].
    assert (H1 : confined out f f1) by (split; [exact Hr1|split; assumption]).
    destruct o as [lit cp| |].
    + destruct (create_all out names f1) as [[f2 ex2] ok] eqn:Hca.
      destruct (IH _ _ _ _ Hr1 Hnl1 Hca) as [H2 Hex].
      destruct (Hc lit cp eq_refl) as [Hcp [_ [_ [Hpre _]]]]. subst cp.
      intros H; inversion H; subst.
      split; [exact (confined_trans _ _ _ _ H1 H2)|]. constructor; [exact Hpre|exact Hex].
    + intros H. destruct (IH _ _ _ _ Hr1 Hnl1 H) as [H2 Hex].
      split; [exact (confined_trans _ _ _ _ H1 H2)|exact Hex].
    + intros H; inversion H; subst. split; [exact H1|constructor].
Qed.

Lemma find_export_in_ex ex n p : find_export ex n = Some p -> exists n', In (n', p) ex.
Proof.
  induction ex as [|[n0 p0] ex IH]; cbn [find_export]; [discriminate|].
  destruct (bytes_eqb n0 n).
  - intros H; inversion H; subst. exists n0. left; reflexivity.
  - intros H. destruct (IH H) as [n' Hin]. exists n'. right; exact Hin.
Qed.

Lemma append_blocks_confined out ex blocks : forall f f' b,
  real_dir f out -> no_links_under out f ->
  Forall (fun e => prefix out (snd e)) ex ->
  append_blocks ex blocks f = (f', b) -> confined out f f'.
Proof.
  induction blocks as [|[n data] blocks IH]; intros f f' b Hr Hnl Hex; cbn [append_blocks].
  - intros H; inversion H; subst. now apply confined_refl.
  - destruct (find_export ex n) as [lit|] eqn:Hfe; [|now apply IH].
    destruct (find_export_in_ex _ _ _ Hfe) as [n' Hin].
    pose proof (proj1 (Forall_forall _ _) Hex _ Hin) as Hpre. cbn [snd] in Hpre.
    unfold append_path.
    destruct (canonicalize f lit) as [q|] eqn:Hc;
      [|intros H; inversion H; subst; now apply confined_refl].
    destruct Hpre as [cs ->].
    apply (canonicalize_under out f cs q Hr Hnl) in Hc. subst q.
    destruct (lookup f (out ++ cs)) as [[|old|t]|] eqn:Hl;
      try (intros H; inversion H; subst; now apply confined_refl).
    intros H.
    assert (H1 : confined out f (set f (out ++ cs) (File (old ++ data)))).
    { apply (confined_set_file out f (out ++ cs) old); try assumption. apply prefix_app. }
    apply (confined_trans _ _ _ _ H1).
    destruct H1 as [Hr1 [Hnl1 _]]. exact (IH _ _ _ Hr1 Hnl1 Hex H).
Qed.

(* the same for the linear extraction (create everything, then append blocks) *)
Theorem extract_linear_confined out names blocks f f' b :
  real_dir f out -> no_links_under out f ->
  extract_linear out names blocks f = (f', b) -> confined out f f'.
Proof.
  intros Hr Hnl. unfold extract_linear.
  destruct (create_all out names f) as [[f1 ex] ok] eqn:Hca.
  destruct (create_all_confined _ _ _ _ _ _ Hr Hnl Hca) as [H1 Hex].
  destruct ok; [|intros H; inversion H; subst; exact H1].
  intros H. apply (confined_trans _ _ _ _ H1).
  destruct H1 as [Hr1 [Hnl1 _]]. exact (append_blocks_confined _ _ _ _ _ _ Hr1 Hnl1 Hex H).
Qed.
Print Assumptions extract_linear_confined.

(* ================================================================== *)
(** * 6. (f) benign members are extracted beneath out with their content *)

Lemma path_strlen_app a b : path_strlen (a ++ b) = path_strlen a + path_strlen b.
Proof. induction a as [|x a IH]; cbn [app path_strlen]; lia. Qed.

Lemma sys_ok_app_l a b : sys_ok (a ++ b) = true -> sys_ok a = true.
Proof.
  unfold sys_ok. rewrite forallb_app, path_strlen_app, !andb_true_iff, !N.ltb_lt.
  intros [[Ha _] Hl]. split; [exact Ha|lia].
Qed.

Lemma open_create_fresh k f par c q :
  canonicalize f par = Some q -> is_dir f q = true -> lookup f (q ++ [c]) = None ->
  open_create k f [] (down (par ++ [c])) = Some (set f (q ++ [c]) (File []), q ++ [c]).
Proof.
  intros Hc Hd Hl. unfold canonicalize in Hc.
  destruct k; cbn [open_create]; now rewrite split_last_down, split_last_snoc, Hc, Hd, Hl.
Qed.

Lemma walk_file f cur rest c d :
  dirs_from f cur rest -> lookup f ((cur ++ rest) ++ [c]) = Some (File d) ->
  walk f cur (down (rest ++ [c])) = WDone ((cur ++ rest) ++ [c]).
Proof.
  intros Hd Hl. rewrite walk_app_dirs by exact Hd. cbn [walk down map]. now rewrite Hl.
Qed.

Lemma read_file_reachable f par c d :
  real_dir f par -> lookup f (par ++ [c]) = Some (File d) ->
  canonicalize f (par ++ [c]) = Some (par ++ [c]) /\ read_file f (par ++ [c]) = Some d.
Proof.
  intros Hr Hl.
  assert (Hc : canonicalize f (par ++ [c]) = Some (par ++ [c])).
  { apply resolve_done. apply (walk_file f [] par c d Hr Hl). }
  split; [exact Hc|]. unfold read_file. now rewrite Hc, Hl.
Qed.

Definition unrelated (a b : path) : Prop := ~ prefix a b /\ ~ prefix b a.

Lemma unrelated_sym a b : unrelated a b -> unrelated b a.
Proof. unfold unrelated; tauto. Qed.

Fixpoint pairwise {A} (R : A -> A -> Prop) (l : list A) : Prop :=
  match l with
  | [] => True
  | a :: l' => Forall (R a) l' /\ pairwise R l'
  end.

(* nothing beneath out (out itself exists) *)
Definition fresh_under (out : path) (f : fs) : Prop :=
  forall r, r <> [] -> lookup f (out ++ r) = None.

(* State of the output directory once the members `done` (normalised path,
   content) have been extracted into an initially empty out. *)
Record inv (out : path) (f : fs) (done : list (path * bytes)) : Prop := {
  inv_real : real_dir f out;
  inv_shape : forall r n, lookup f (out ++ r) = Some n ->
      r = [] \/
      (n = Dir /\ exists q d, In (q, d) done /\ prefix r q /\ r <> q) \/
      (exists d, n = File d /\ In (r, d) done);
  inv_files : forall q d, In (q, d) done ->
      lookup f (out ++ q) = Some (File d) /\
      exists q' c, q = q' ++ [c] /\ dirs_from f out q'
}.

Lemma inv_init out f : real_dir f out -> fresh_under out f -> inv out f [].
Proof.
  intros Hr Hf. split; [exact Hr| |intros q d []].
  intros r n Hl. destruct r as [|x r]; [left; reflexivity|].
  rewrite Hf in Hl by discriminate. discriminate.
Qed.

Lemma inv_no_links out f done : inv out f done -> no_links_under out f.
Proof.
  intros [Hr Hs _] p t [r ->] Hl.
  destruct (Hs r _ Hl) as [->|[[H _]|[d [H _]]]]; try discriminate.
  rewrite app_nil_r in Hl. rewrite (real_dir_lookup f out Hr) in Hl. discriminate.
Qed.

Lemma not_prefix_snoc {A} (q' : list A) c r : prefix r q' -> r <> q' ++ [c].
Proof.
  intros Hp ->. apply prefix_length in Hp. rewrite app_length in Hp. cbn [length] in Hp. lia.
Qed.

(* the parent directory of a member whose proper ancestors are all missing or
   directories: create_dir_all succeeds *)
Lemma prepare_parent_clear out q' f :
  real_dir f out -> no_links_under out f -> sys_ok (out ++ q') = true ->
  (forall r, r <> [] -> prefix r q' ->
     lookup f (out ++ r) = None \/ lookup f (out ++ r) = Some Dir) ->
  exists f1, prepare_parent f (out ++ q') = (f1, true) /\
    real_dir f1 (out ++ q') /\
    (forall p, lookup f1 p = lookup f p \/
               (lookup f p = None /\ lookup f1 p = Some Dir /\
                exists r, r <> [] /\ prefix r q' /\ p = out ++ r)).
Proof.
  intros Hr Hnl Hok Hclear. unfold prepare_parent. rewrite Hok.
  unfold exists_. destruct (canonicalize f (out ++ q')) as [x|] eqn:Hc.
  - exists f. split; [reflexivity|]. split; [|intros p; left; reflexivity].
    apply real_dir_app. split; [exact Hr|].
    unfold canonicalize in Hc.
    pose proof (walk_app_dirs f [] out q' Hr) as Hw. cbn [app] in Hw.
    destruct (walk_under out f out q' Hnl (prefix_refl out)) as [H|H].
    + apply (walk_done_dirs f out q' (out ++ q') H).
      intros r d Hne Hp Hl. destruct (Hclear r Hne Hp); congruence.
    + rewrite <- Hw in H. rewrite (resolve_fail _ _ _ _ H) in Hc. discriminate.
  - unfold create_dir_all. rewrite (mkdir_all_app_dirs f [] out q' Hr). cbn [app].
    destruct (mkdir_all_ok f out q' Hclear) as [f1 Hmk].
    exists f1. split; [exact Hmk|].
    destruct (mkdir_all_under out f out q' f1 true Hnl (prefix_refl out) Hmk) as [Hch Hd].
    split; [|exact Hch].
    apply real_dir_app. split; [|now apply Hd].
    apply (mk_rel_dirs_from f f1); [|exact Hr].
    intros p. destruct (Hch p) as [E|[E1 [E2 _]]]; [left; exact E|right; split; assumption].
Qed.

(* create_file for one benign member: the file is created, empty, at
   out ++ norm name, which is its own canonical path *)
Lemma create_file_step out f done name :
  inv out f done ->
  ~ In ParentDir (components name) -> norm name <> [] ->
  sys_ok (out ++ norm name) = true ->
  Forall (fun qd => unrelated (norm name) (fst qd)) done ->
  exists f2,
    create_file out name f = (f2, Created (out ++ norm name) (out ++ norm name)) /\
    inv out f2 ((norm name, []) :: done) /\
    (forall p, ~ prefix out p -> lookup f2 p = lookup f p) /\
    (forall p n, lookup f p = Some n -> lookup f2 p = Some n).
Proof.
  intros Hinv Hnp Hne Hok Hun.
  pose proof (inv_no_links _ _ _ Hinv) as Hnl.
  destruct Hinv as [Hr Hshape Hfiles].
  destruct (split_last (norm name)) as [[q' c]|] eqn:Hsl;
    [|apply split_last_none in Hsl; congruence].
  apply split_last_some in Hsl.
  set (q := norm name) in *.
  assert (Hunq : forall q0 d0, In (q0, d0) done -> ~ prefix q q0 /\ ~ prefix q0 q).
  { intros q0 d0 Hin. exact (proj1 (Forall_forall _ _) Hun (q0, d0) Hin). }
  (* proper ancestors are missing or directories *)
  assert (Hclear : forall r, r <> [] -> prefix r q' ->
            lookup f (out ++ r) = None \/ lookup f (out ++ r) = Some Dir).
  { intros r Hrne Hp. destruct (lookup f (out ++ r)) as [n|] eqn:Hl; [|left; reflexivity].
    right. destruct (Hshape r n Hl) as [->|[[-> _]|[d [-> Hin]]]]; [congruence|reflexivity|].
    exfalso. apply (proj2 (Hunq r d Hin)). rewrite Hsl. now apply prefix_app_r. }
  (* the file itself is missing *)
  assert (Hlit : lookup f (out ++ q) = None).
  { destruct (lookup f (out ++ q)) as [n|] eqn:Hl; [|reflexivity]. exfalso.
    destruct (Hshape q n Hl) as [E|[[_ [q0 [d0 [Hin [Hp _]]]]]|[d [_ Hin]]]].
    - congruence.
    - exact (proj1 (Hunq q0 d0 Hin) Hp).
    - exact (proj1 (Hunq q d Hin) (prefix_refl q)). }
  assert (Hokp : sys_ok (out ++ q') = true).
  { apply (sys_ok_app_l _ [c]). rewrite <- app_assoc, <- Hsl. exact Hok. }
  destruct (prepare_parent_clear out q' f Hr Hnl Hokp Hclear) as [f1 [Hpp [Hr1 Hch]]].
  assert (Hrel : mk_rel f f1).
  { intros p. destruct (Hch p) as [E|[E1 [E2 _]]]; [left; exact E|right; split; assumption]. }
  assert (Hlit1 : lookup f1 ((out ++ q') ++ [c]) = None).
  { rewrite <- app_assoc, <- Hsl.
    destruct (Hch (out ++ q)) as [E|[_ [_ [r [_ [Hp E]]]]]]; [congruence|].
    apply app_inv_head in E. exfalso. rewrite Hsl in E. symmetry in E.
    exact (not_prefix_snoc q' c r Hp E). }
  set (lit := (out ++ q') ++ [c]) in *.
  assert (Hliteq : lit = out ++ q) by (unfold lit; now rewrite <- app_assoc, <- Hsl).
  set (f2 := set f1 lit (File [])).
  assert (Hcf : create_file out name f = (f2, Created lit lit)).
  { unfold create_file, create_file_with.
    rewrite (get_extracted_path_norm out name Hnp). fold q.
    rewrite Hsl, app_assoc, split_last_snoc, Hpp.
    rewrite (canonicalize_real f1 _ Hr1).
    replace (prefixb out (out ++ q')) with true
      by (symmetry; apply prefixb_prefix; apply prefix_app).
    replace (sys_is_symlink f1 ((out ++ q') ++ [c])) with false.
    2:{ unfold sys_is_symlink, is_symlink.
        rewrite (lstat_snoc f1 (out ++ q') c (out ++ q')
                   (canonicalize_real f1 _ Hr1) (real_dir_is_dir f1 _ Hr1)).
        fold lit. rewrite Hlit1. now rewrite andb_false_r. }
    unfold sys_file_create. fold lit. rewrite Hliteq, Hok, <- Hliteq.
    unfold file_create, lit.
    rewrite (open_create_fresh _ f1 (out ++ q') c (out ++ q')
               (canonicalize_real f1 _ Hr1) (real_dir_is_dir f1 _ Hr1) Hlit1).
    reflexivity. }
  assert (Hlne : lit <> []) by apply snoc_neq_nil.
  exists f2. split; [rewrite <- Hliteq; exact Hcf|].
  assert (Hl2 : lookup f2 lit = Some (File [])) by now apply lookup_set_eq.
  assert (Hoth : forall p, p <> lit -> lookup f2 p = lookup f1 p).
  { intros p Hp. unfold f2. rewrite lookup_set_neq by congruence. reflexivity. }
  assert (Hdirs2 : forall cur rest, dirs_from f1 cur rest -> dirs_from f2 cur rest).
  { intros cur rest Hd. unfold f2. apply set_file_dirs_from; [left; exact Hlit1|exact Hd]. }
  split; [split|split].
  - apply Hdirs2. now apply (mk_rel_dirs_from f f1).
  - intros r n Hl. destruct (path_eqb (out ++ r) lit) eqn:E.
    + apply path_eqb_eq in E. rewrite E, Hl2 in Hl. inversion Hl; subst n.
      rewrite Hliteq in E. apply app_inv_head in E. subst r.
      right; right. exists []. split; [reflexivity|left; reflexivity].
    + apply path_eqb_false in E. rewrite (Hoth _ E) in Hl.
      destruct (Hch (out ++ r)) as [E0|[_ [E2 [r0 [Hr0 [Hp0 E3]]]]]].
      * rewrite E0 in Hl.
        destruct (Hshape r n Hl) as [->|[[-> [q0 [d0 [Hin H]]]]|[d [-> Hin]]]].
        -- left; reflexivity.
        -- right; left. split; [reflexivity|]. exists q0, d0. split; [right; exact Hin|exact H].
        -- right; right. exists d. split; [reflexivity|right; exact Hin].
      * apply app_inv_head in E3. subst r0. rewrite E2 in Hl. inversion Hl; subst n.
        right; left. split; [reflexivity|]. exists q, [].
        split; [left; reflexivity|]. split.
        -- rewrite Hsl. now apply prefix_app_r.
        -- rewrite Hsl. now apply not_prefix_snoc.
  - intros q0 d0 [Hin|Hin].
    + inversion Hin; subst q0 d0. rewrite <- Hliteq. split; [exact Hl2|].
      exists q', c. split; [exact Hsl|]. apply Hdirs2. apply real_dir_app in Hr1. tauto.
    + destruct (Hfiles q0 d0 Hin) as [Hl0 [q0' [c0 [Hq0 Hd0]]]]. split.
      * rewrite Hoth; [now apply (mk_rel_mono f f1)|].
        rewrite Hliteq. intros E. apply app_inv_head in E.
        apply (proj1 (Hunq q0 d0 Hin)). rewrite E. apply prefix_refl.
      * exists q0', c0. split; [exact Hq0|]. apply Hdirs2. now apply (mk_rel_dirs_from f f1).
  - intros p Hnp'. rewrite Hoth.
    + destruct (Hch p) as [E|[_ [_ [r [_ [_ ->]]]]]]; [exact E|].
      exfalso; apply Hnp'; apply prefix_app.
    + intros ->. apply Hnp'. rewrite Hliteq. apply prefix_app.
  - intros p n Hl. rewrite Hoth; [now apply (mk_rel_mono f f1)|].
    intros ->. rewrite Hliteq in Hl. congruence.
Qed.

(* writing into the file of the member extracted last *)
Lemma inv_write out f done q d d' :
  inv out f ((q, d) :: done) -> ~ In q (map fst done) ->
  inv out (set f (out ++ q) (File d')) ((q, d') :: done).
Proof.
  intros [Hr Hshape Hfiles] Hnq.
  destruct (Hfiles q d (or_introl eq_refl)) as [Hlq [q' [c [Hq Hdq]]]].
  assert (Hold : lookup f (out ++ q) = None \/ exists d0, lookup f (out ++ q) = Some (File d0))
    by (right; eauto).
  assert (Hne : out ++ q <> []).
  { rewrite Hq, app_assoc. apply snoc_neq_nil. }
  split.
  - now apply set_file_dirs_from.
  - intros r n Hl. destruct (path_eqb (out ++ q) (out ++ r)) eqn:E.
    + apply path_eqb_eq in E. rewrite <- E in Hl. rewrite lookup_set_eq in Hl by exact Hne.
      inversion Hl; subst n. apply app_inv_head in E. subst r.
      right; right. exists d'. split; [reflexivity|left; reflexivity].
    + apply path_eqb_false in E. rewrite lookup_set_neq in Hl by exact E.
      destruct (Hshape r n Hl) as [->|[[-> [q0 [d0 [Hin H]]]]|[d0 [-> Hin]]]].
      * left; reflexivity.
      * right; left. split; [reflexivity|]. destruct Hin as [Hin|Hin].
        -- inversion Hin; subst q0 d0. exists q, d'. split; [left; reflexivity|exact H].
        -- exists q0, d0. split; [right; exact Hin|exact H].
      * right; right. exists d0. split; [reflexivity|]. destruct Hin as [Hin|Hin].
        -- inversion Hin; subst r d0. congruence.
        -- right; exact Hin.
  - intros q0 d0 [Hin|Hin].
    + inversion Hin; subst q0 d0. split; [now apply lookup_set_eq|].
      exists q', c. split; [exact Hq|]. now apply set_file_dirs_from.
    + destruct (Hfiles q0 d0 (or_intror Hin)) as [Hl0 [q0' [c0 [Hq0 Hd0]]]]. split.
      * rewrite lookup_set_neq; [exact Hl0|].
        intros E. apply app_inv_head in E.
        apply Hnq. apply in_map_iff. exists (q0, d0). split; [cbn [fst]; congruence|exact Hin].
      * exists q0', c0. split; [exact Hq0|]. now apply set_file_dirs_from.
Qed.

(* one member of the per-file loop *)
Lemma extract_member_step out f done name content :
  inv out f done ->
  ~ In ParentDir (components name) -> norm name <> [] ->
  sys_ok (out ++ norm name) = true ->
  Forall (fun qd => unrelated (norm name) (fst qd)) done ->
  exists f', extract_member out (name, content) f = (f', true) /\
    inv out f' ((norm name, content) :: done) /\
    (forall p, ~ prefix out p -> lookup f' p = lookup f p).
Proof.
  intros Hinv Hnp Hne Hok Hun.
  destruct (create_file_step out f done name Hinv Hnp Hne Hok Hun)
    as [f2 [Hcf [Hinv2 [Hout2 _]]]].
  assert (Hnq : ~ In (norm name) (map fst done)).
  { intros Hin. apply in_map_iff in Hin. destruct Hin as [[q0 d0] [E Hin]]. cbn [fst] in E. subst q0.
    destruct (proj1 (Forall_forall _ _) Hun _ Hin) as [H _]. apply H. apply prefix_refl. }
  pose proof (proj1 (inv_files _ _ _ Hinv2 _ _ (or_introl eq_refl))) as Hl2.
  exists (set f2 (out ++ norm name) (File content)). split.
  { unfold extract_member. cbn [fst snd]. rewrite Hcf. unfold write_at. now rewrite Hl2. }
  split; [now apply (inv_write out f2 done (norm name) [] content)|].
  intros p Hp. rewrite lookup_set_neq; [now apply Hout2|].
  intros <-. apply Hp. apply prefix_app.
Qed.

Definition benign (out : path) (m : bytes * bytes) : Prop :=
  ~ In ParentDir (components (fst m)) /\ norm (fst m) <> [] /\
  sys_ok (out ++ norm (fst m)) = true.

Lemma extract_all_inv out ms : forall f done,
  inv out f done ->
  Forall (benign out) ms ->
  pairwise unrelated (map (fun m => norm (fst m)) ms) ->
  Forall (fun m => Forall (fun qd => unrelated (norm (fst m)) (fst qd)) done) ms ->
  exists f' done', extract_all out ms f = (f', true) /\ inv out f' done' /\
    (forall x, In x done -> In x done') /\
    (forall m, In m ms -> In (norm (fst m), snd m) done') /\
    (forall p, ~ prefix out p -> lookup f' p = lookup f p).
Proof.
  induction ms as [|[name content] ms IH]; intros f done Hinv Hb Hpw Hun.
  - exists f, done. cbn [extract_all].
    split; [reflexivity|]. split; [exact Hinv|]. split; [auto|]. split; [intros m []|auto].
  - inversion Hb as [|? ? [Hnp [Hne Hok]] Hb']; subst.
    inversion Hun as [|? ? Hun1 Hun']; subst.
    cbn [map pairwise fst] in Hpw. destruct Hpw as [Hpw1 Hpw'].
    cbn [fst] in *.
    destruct (extract_member_step out f done name content Hinv Hnp Hne Hok Hun1)
      as [f1 [Hem [Hinv1 Hout1]]].
    destruct (IH f1 ((norm name, content) :: done) Hinv1 Hb' Hpw')
      as [f' [done' [Hex [Hinv' [Hincl [Hin' Hout']]]]]].
    + apply Forall_forall. intros m Hm. constructor.
      * cbn [fst]. apply unrelated_sym.
        apply (proj1 (Forall_forall _ _) Hpw1 (norm (fst m))).
        apply in_map_iff. exists m. split; [reflexivity|exact Hm].
      * exact (proj1 (Forall_forall _ _) Hun' m Hm).
    + exists f', done'. cbn [extract_all]. rewrite Hem. split; [exact Hex|].
      split; [exact Hinv'|]. split; [|split].
      * intros x Hx. apply Hincl. right; exact Hx.
      * intros m [<-|Hm]; [|now apply Hin'].
        cbn [fst snd]. apply Hincl. left; reflexivity.
      * intros p Hp. rewrite Hout' by exact Hp. now apply Hout1.
Qed.

(* (f) Members whose names contain no ".." component, normalise to a
   non-empty path, stay within the limits of the system-call interface, and
   whose normalised paths are pairwise distinct and not prefixes of one another;
   the output directory exists, is canonical and empty.  Then the per-file
   extraction loop runs to the end without error, every member can be read
   back at out ++ norm name (which is its own canonical path) with exactly its
   content, and nothing outside out has changed. *)
Theorem benign_extracted out ms f :
  real_dir f out -> fresh_under out f ->
  Forall (benign out) ms ->
  pairwise unrelated (map (fun m => norm (fst m)) ms) ->
  exists f', extract_all out ms f = (f', true) /\
    (forall name content, In (name, content) ms ->
       lookup f' (out ++ norm name) = Some (File content) /\
       canonicalize f' (out ++ norm name) = Some (out ++ norm name) /\
       read_file f' (out ++ norm name) = Some content) /\
    (forall p, ~ prefix out p -> lookup f' p = lookup f p).
Proof.
  intros Hr Hf Hb Hpw.
  destruct (extract_all_inv out ms f [] (inv_init out f Hr Hf) Hb Hpw)
    as [f' [done' [Hex [Hinv [_ [Hin Hout]]]]]].
  { apply Forall_forall. intros m _. constructor. }
  exists f'. split; [exact Hex|]. split; [|exact Hout].
  intros name content Hm. specialize (Hin _ Hm). cbn [fst snd] in Hin.
  destruct Hinv as [Hr' _ Hfiles].
  destruct (Hfiles _ _ Hin) as [Hl [q' [c [Hq Hd]]]].
  split; [exact Hl|].
  rewrite Hq, app_assoc in *.
  apply (read_file_reachable f' (out ++ q') c content); [|exact Hl].
  apply real_dir_app. split; assumption.
Qed.
Print Assumptions benign_extracted.

(* ================================================================== *)
(** * 7. (f) for the linear extraction (the default `mlar extract` path) *)

(* phase 1: create_file for every name *)
Lemma create_all_inv out names : forall f done,
  inv out f done ->
  Forall (fun n => benign out (n, [])) names ->
  pairwise unrelated (map norm names) ->
  Forall (fun n => Forall (fun qd => unrelated (norm n) (fst qd)) done) names ->
  exists f' done',
    create_all out names f = (f', map (fun n => (n, out ++ norm n)) names, true) /\
    inv out f' done' /\
    (forall x, In x done -> In x done') /\
    (forall n, In n names -> In (norm n, []) done') /\
    (forall p, ~ prefix out p -> lookup f' p = lookup f p).
Proof.
  induction names as [|name names IH]; intros f done Hinv Hb Hpw Hun.
  - exists f, done. cbn [create_all map].
    split; [reflexivity|]. split; [exact Hinv|]. split; [auto|]. split; [intros n []|auto].
  - inversion Hb as [|? ? [Hnp [Hne Hok]] Hb']; subst.
    inversion Hun as [|? ? Hun1 Hun']; subst.
    cbn [map pairwise] in Hpw. destruct Hpw as [Hpw1 Hpw'].
    cbn [fst] in *.
    destruct (create_file_step out f done name Hinv Hnp Hne Hok Hun1)
      as [f1 [Hcf [Hinv1 [Hout1 _]]]].
    destruct (IH f1 ((norm name, []) :: done) Hinv1 Hb' Hpw')
      as [f' [done' [Hca [Hinv' [Hincl [Hin' Hout']]]]]].
    + apply Forall_forall. intros n Hn. constructor.
      * cbn [fst]. apply unrelated_sym.
        apply (proj1 (Forall_forall _ _) Hpw1 (norm n)). now apply in_map.
      * exact (proj1 (Forall_forall _ _) Hun' n Hn).
    + exists f', done'. cbn [create_all map]. rewrite Hcf, Hca.
      split; [reflexivity|]. split; [exact Hinv'|]. split; [|split].
      * intros x Hx. apply Hincl. right; exact Hx.
      * intros n [<-|Hn]; [|now apply Hin']. apply Hincl. left; reflexivity.
      * intros p Hp. rewrite Hout' by exact Hp. now apply Hout1.
Qed.

Lemma find_export_some (g : bytes -> path) names n l :
  find_export (map (fun n => (n, g n)) names) n = Some l -> In n names /\ l = g n.
Proof.
  induction names as [|x names IH]; cbn [map find_export]; [discriminate|].
  destruct (bytes_eqb x n) eqn:E.
  - apply bytes_eqb_eq in E; subst x. intros H; inversion H. split; [left|]; reflexivity.
  - intros H. destruct (IH H) as [Hin ->]. split; [right; exact Hin|reflexivity].
Qed.

Lemma find_export_in (g : bytes -> path) names n :
  In n names -> find_export (map (fun n => (n, g n)) names) n = Some (g n).
Proof.
  induction names as [|x names IH]; cbn [map find_export In]; [intros []|].
  destruct (bytes_eqb x n) eqn:E.
  - apply bytes_eqb_eq in E; subst x. reflexivity.
  - apply bytes_eqb_false in E. intros [H|H]; [congruence|now apply IH].
Qed.

Lemma pairwise_unrelated_inj {A} (g : A -> path) l a b :
  pairwise unrelated (map g l) -> In a l -> In b l -> g a = g b -> a = b.
Proof.
  induction l as [|x l IH]; cbn [map pairwise In]; [intros _ []|].
  intros [Hx Hpw] Ha Hb Hg.
  assert (Hno : forall y, In y l -> g x <> g y).
  { intros y Hy E. destruct (proj1 (Forall_forall _ _) Hx (g y) (in_map g l y Hy)) as [H _].
    apply H. rewrite E. apply prefix_refl. }
  destruct Ha as [<-|Ha]; destruct Hb as [<-|Hb].
  - reflexivity.
  - exfalso. exact (Hno b Hb Hg).
  - exfalso. exact (Hno a Ha (eq_sym Hg)).
  - now apply IH.
Qed.

(* a regular file whose parent is a real directory *)
Definition file_at (f : fs) (lit : path) : Prop :=
  exists par c d, lit = par ++ [c] /\ real_dir f par /\ lookup f lit = Some (File d).

(* the data of the blocks routed to lit, in order *)
Definition block_data (ex : list (bytes * path)) (lit : path) (blocks : list (bytes * bytes)) : bytes :=
  concat (map snd (filter (fun b => match find_export ex (fst b) with
                                    | Some l => path_eqb l lit
                                    | None => false
                                    end) blocks)).

(* phase 2: the blocks are appended through FileWriter *)
Lemma append_blocks_spec ex blocks : forall f,
  (forall n lit, find_export ex n = Some lit -> file_at f lit) ->
  exists f', append_blocks ex blocks f = (f', true) /\
    (forall lit d, lookup f lit = Some (File d) ->
       lookup f' lit = Some (File (d ++ block_data ex lit blocks))) /\
    (forall cur rest, dirs_from f cur rest -> dirs_from f' cur rest) /\
    (forall p, (forall n, find_export ex n <> Some p) -> lookup f' p = lookup f p).
Proof.
  induction blocks as [|[n data] blocks IH]; intros f Hex.
  - exists f. cbn [append_blocks]. split; [reflexivity|]. split; [|split; auto].
    intros lit d Hl. unfold block_data. cbn [filter map concat]. now rewrite app_nil_r.
  - cbn [append_blocks]. destruct (find_export ex n) as [lit0|] eqn:Hfe.
    + destruct (Hex n lit0 Hfe) as [par [c [d0 [Hlit0 [Hpar Hl0]]]]].
      assert (Hap : append_path f lit0 data = Some (set f lit0 (File (d0 ++ data)), lit0)).
      { unfold append_path. rewrite Hlit0 in *.
        destruct (read_file_reachable f par c d0 Hpar Hl0) as [Hc _].
        now rewrite Hc, Hl0. }
      rewrite Hap.
      set (f1 := set f lit0 (File (d0 ++ data))).
      assert (Hne : lit0 <> []) by (rewrite Hlit0; apply snoc_neq_nil).
      assert (Hold : lookup f lit0 = None \/ exists d, lookup f lit0 = Some (File d))
        by (right; eauto).
      assert (Hdirs1 : forall cur rest, dirs_from f cur rest -> dirs_from f1 cur rest).
      { intros cur rest Hd. now apply set_file_dirs_from. }
      destruct (IH f1) as [f' [Hab [Hcont [Hdirs Hframe]]]].
      { intros n' lit Hfe'. destruct (Hex n' lit Hfe') as [par' [c' [d' [Hlit [Hpar' Hl']]]]].
        destruct (path_eqb lit0 lit) eqn:E.
        - apply path_eqb_eq in E. exists par', c', (d0 ++ data).
          split; [exact Hlit|]. split; [now apply Hdirs1|]. rewrite <- E. now apply lookup_set_eq.
        - apply path_eqb_false in E. exists par', c', d'.
          split; [exact Hlit|]. split; [now apply Hdirs1|].
          unfold f1. now rewrite lookup_set_neq. }
      exists f'. split; [exact Hab|]. split; [|split].
      * intros lit d Hl. unfold block_data. cbn [filter fst]. rewrite Hfe.
        destruct (path_eqb lit0 lit) eqn:E.
        -- apply path_eqb_eq in E; subst lit. rewrite Hl0 in Hl. inversion Hl; subst d.
           cbn [map snd concat]. rewrite app_assoc. apply Hcont.
           now apply lookup_set_eq.
        -- apply path_eqb_false in E. apply Hcont. unfold f1. now rewrite lookup_set_neq.
      * intros cur rest Hd. apply Hdirs. now apply Hdirs1.
      * intros p Hp. rewrite Hframe by exact Hp. unfold f1. apply lookup_set_neq.
        intros ->. exact (Hp n Hfe).
    + destruct (IH f Hex) as [f' [Hab [Hcont [Hdirs Hframe]]]].
      exists f'. split; [exact Hab|]. split; [|split; assumption].
      intros lit d Hl. unfold block_data. cbn [filter fst]. rewrite Hfe. now apply Hcont.
Qed.

(* (f), linear extraction: phase 1 creates every file, phase 2 appends the
   blocks (name, data) in archive order through FileWriter, which re-opens
   the literal path.  Each member ends up with the concatenation of its
   blocks. *)
Theorem benign_extracted_linear out names blocks f :
  real_dir f out -> fresh_under out f ->
  Forall (fun n => benign out (n, [])) names ->
  pairwise unrelated (map norm names) ->
  exists f', extract_linear out names blocks f = (f', true) /\
    (forall name, In name names ->
       read_file f' (out ++ norm name) =
         Some (concat (map snd (filter (fun b => bytes_eqb (fst b) name) blocks)))) /\
    (forall p, ~ prefix out p -> lookup f' p = lookup f p).
Proof.
  intros Hr Hf Hb Hpw.
  destruct (create_all_inv out names f [] (inv_init out f Hr Hf) Hb Hpw)
    as [f1 [done [Hca [Hinv [_ [Hin Hout1]]]]]].
  { apply Forall_forall. intros n _. constructor. }
  set (ex := map (fun n => (n, out ++ norm n)) names) in *.
  assert (Hfa : forall n, In n names ->
            exists q' c, norm n = q' ++ [c] /\ real_dir f1 (out ++ q') /\
                         lookup f1 (out ++ norm n) = Some (File [])).
  { intros n Hn. destruct (inv_files _ _ _ Hinv _ _ (Hin n Hn)) as [Hl [q' [c [Hq Hd]]]].
    exists q', c. split; [exact Hq|]. split; [|exact Hl].
    apply real_dir_app. split; [exact (inv_real _ _ _ Hinv)|exact Hd]. }
  destruct (append_blocks_spec ex blocks f1) as [f' [Hab [Hcont [Hdirs Hframe]]]].
  { intros n lit Hfe. apply find_export_some in Hfe. destruct Hfe as [Hn ->].
    destruct (Hfa n Hn) as [q' [c [Hq [Hrp Hl]]]].
    exists (out ++ q'), c, []. split; [now rewrite Hq, app_assoc|]. split; assumption. }
  exists f'. split.
  { unfold extract_linear. now rewrite Hca. }
  split.
  - intros name Hn. destruct (Hfa name Hn) as [q' [c [Hq [Hrp Hl]]]].
    specialize (Hcont _ _ Hl). cbn [app] in Hcont.
    assert (Hbd : block_data ex (out ++ norm name) blocks =
                  concat (map snd (filter (fun b => bytes_eqb (fst b) name) blocks))).
    { unfold block_data. do 2 f_equal. apply filter_ext. intros [n data]. cbn [fst].
      destruct (find_export ex n) as [l|] eqn:Hfe.
      - apply find_export_some in Hfe. destruct Hfe as [Hn' ->].
        destruct (bytes_eqb n name) eqn:E.
        + apply bytes_eqb_eq in E; subst n. apply path_eqb_refl.
        + apply bytes_eqb_false in E. apply path_eqb_false. intros Heq.
          apply app_inv_head in Heq. apply E.
          exact (pairwise_unrelated_inj norm names n name Hpw Hn' Hn Heq).
      - destruct (bytes_eqb n name) eqn:E; [|reflexivity].
        apply bytes_eqb_eq in E; subst n.
        pose proof (find_export_in (fun n => out ++ norm n) names name Hn) as Hfi.
        assert (Hx : @None path = Some (out ++ norm name)) by (rewrite <- Hfe; exact Hfi).
        discriminate Hx. }
    rewrite Hbd in Hcont. rewrite Hq, app_assoc in *.
    apply (read_file_reachable f' (out ++ q') c); [|exact Hcont].
    now apply Hdirs.
  - intros p Hp. rewrite Hframe; [now apply Hout1|].
    intros n Hfe. apply find_export_some in Hfe. destruct Hfe as [_ ->].
    apply Hp. apply prefix_app.
Qed.
Print Assumptions benign_extracted_linear.

(* ================================================================== *)
(** * 8. What (f) does NOT cover: concrete witnesses *)

Definition o_ : path := [s2b "out"].
Definition fs_empty_out : fs := [ (o_, Dir) ].

(* FULL STATEMENT of (f) WITHOUT "not prefixes of one another" (false): members
   with no "..", pairwise distinct normalised names.  "a" and "a/b": the second
   create_file returns Err (File::create -> ENOTDIR), `?` aborts the whole
   extraction, and the unrelated member "c" that sorts after them is never
   extracted.  (rust/cf.rs scenarios 3, 5, 12.) *)
Theorem benign_extracted_without_prefix_condition_refuted :
  exists out ms f f',
    real_dir f out /\ fresh_under out f /\ Forall (benign out) ms /\
    NoDup (map (fun m => norm (fst m)) ms) /\
    extract_all out ms f = (f', false) /\
    exists name content, In (name, content) ms /\ read_file f' (out ++ norm name) = None.
Proof.
  exists o_, [(s2b "a", s2b "A"); (s2b "a/b", s2b "B"); (s2b "c", s2b "C")], fs_empty_out.
  eexists.
  split; [vm_compute; auto|].
  split; [intros [|x r] Hr; [congruence|reflexivity]|].
  split.
  { repeat constructor; try (vm_compute; reflexivity); try (vm_compute; discriminate);
      vm_compute; intros H; repeat (destruct H as [H|H]; [discriminate|]); exact H. }
  split.
  { vm_compute. repeat constructor; intros H;
      repeat (destruct H as [H|H]; [discriminate|]); exact H. }
  split; [vm_compute; reflexivity|].
  exists (s2b "c"), (s2b "C"). split; [right; right; left; reflexivity|].
  vm_compute. reflexivity.
Qed.
Print Assumptions benign_extracted_without_prefix_condition_refuted.

(* a component longer than NAME_MAX: Err, the extraction is aborted *)
Example long_component_aborts :
  extract_all o_ [(repeat 65 256, s2b "A"); (s2b "c", s2b "C")] fs_empty_out
  = (fs_empty_out, false).
Proof. vm_compute. reflexivity. Qed.

(* a name that normalises to nothing is skipped silently (no file, no error) *)
Example empty_name_skipped :
  map (fun n => snd (create_file o_ n fs_empty_out))
      [s2b ""; s2b "/"; s2b "."; s2b "./"; s2b "//."]
  = [Skipped; Skipped; Skipped; Skipped; Skipped].
Proof. vm_compute. reflexivity. Qed.

(* two names with the same normalised path: the second create_file truncates
   the first member's file; per-file loop keeps only the last content *)
Example colliding_names_overwrite :
  let r := extract_all o_ [(s2b "a", s2b "first"); (s2b "/a", s2b "second")] fs_empty_out in
  snd r = true /\ read_file (fst r) (o_ ++ [s2b "a"]) = Some (s2b "second").
Proof. vm_compute. auto. Qed.

(* ... and in the linear extraction both FileWriters append to the same file:
   the blocks of the two members are interleaved in archive order *)
Example colliding_names_interleave :
  let r := extract_linear o_ [s2b "/a"; s2b "a"]
             [(s2b "a", s2b "1"); (s2b "/a", s2b "2"); (s2b "a", s2b "3")] fs_empty_out in
  snd r = true /\ read_file (fst r) (o_ ++ [s2b "a"]) = Some (s2b "123").
Proof. vm_compute. auto. Qed.

(* ================================================================== *)
(** * 9. The model against the real create_file (rust/cf.rs) *)

(* rust/cf.rs copies get_extracted_path and create_file verbatim from
   mlar/src/main.rs and runs them on a temporary directory prepared as fs_scn
   below.  The outcomes printed by the real code are the ones computed here. *)
Definition fs_scn : fs :=
  [ ([s2b "out"], Dir);
    ([s2b "outside"], Dir);
    ([s2b "out"; s2b "real"], Dir);
    ([s2b "outside"; s2b "secret"], File (s2b "root"));
    ([s2b "out"; s2b "x"], abs_link [s2b "outside"; s2b "secret"]);
    ([s2b "out"; s2b "l"], abs_link [s2b "outside"]);
    ([s2b "out"; s2b "d"], abs_link [s2b "outside"; s2b "nonexistent"]);
    ([s2b "out"; s2b "in"], abs_link [s2b "out"; s2b "real"]) ].

Fixpoint run_create (cf : path -> bytes -> fs -> fs * outcome)
    (out : path) (names : list bytes) (f : fs) : list outcome * fs :=
  match names with
  | [] => ([], f)
  | n :: names' =>
      let '(f1, o) := cf out n f in
      let '(os, f2) := run_create cf out names' f1 in
      (o :: os, f2)
  end.

Definition scn_names : list bytes :=
  [ s2b "x"; s2b "l/x/y"; s2b "a"; s2b "a/b"; s2b ""; s2b "/"; s2b "."; s2b "./"; s2b "//.";
    s2b "p/q"; s2b "p"; s2b "d"; s2b "in/f"; s2b "n" ++ [0] ++ s2b "ul";
    repeat 65 256; repeat 65 256 ++ s2b "/f"; s2b "a/../../x"; s2b "/a"; s2b "a/b/c" ].

(* cf.rs was run on the code as it was BEFORE the repair of D23 *)
Example model_agrees_with_cf_rs :
  let r := run_create create_file_old o_ scn_names fs_scn in
  fst r =
    [ Created [s2b "out"; s2b "x"] [s2b "outside"; s2b "secret"];   (* 1  Created out/x, outside/secret truncated *)
      Skipped;                                                      (* 2  Skipped, outside/x created *)
      Created [s2b "out"; s2b "a"] [s2b "out"; s2b "a"];            (* 3  Created *)
      Failed;                                                       (* 3  Failed(NotADirectory) *)
      Skipped; Skipped; Skipped; Skipped; Skipped;                  (* 4  Skipped x5 *)
      Created [s2b "out"; s2b "p"; s2b "q"] [s2b "out"; s2b "p"; s2b "q"];  (* 5 Created *)
      Failed;                                                       (* 5  Failed(IsADirectory) *)
      Created [s2b "out"; s2b "d"] [s2b "outside"; s2b "nonexistent"];      (* 6 Created, outside/nonexistent created *)
      Created [s2b "out"; s2b "in"; s2b "f"] [s2b "out"; s2b "real"; s2b "f"]; (* 7 Created, out/real/f *)
      Failed;                                                       (* 8  Failed(InvalidInput)   NUL *)
      Failed;                                                       (* 8  Failed(InvalidFilename) 256 bytes *)
      Failed;                                                       (* 8  Failed(InvalidFilename) *)
      Skipped;                                                      (* 9  Skipped ".." *)
      Created [s2b "out"; s2b "a"] [s2b "out"; s2b "a"];            (* 10 Created (same file as "a") *)
      Failed ]                                                      (* 12 Failed(NotADirectory) *)
  /\ lookup (snd r) [s2b "outside"; s2b "secret"] = Some (File [])
  /\ lookup (snd r) [s2b "outside"; s2b "x"] = Some Dir
  /\ lookup (snd r) [s2b "outside"; s2b "nonexistent"] = Some (File [])
  /\ lookup (snd r) [s2b "out"; s2b "real"; s2b "f"] = Some (File []).
Proof. vm_compute. repeat split. Qed.

(* the repaired code on the same scenario: 1 and 6 (a symbolic link as last
   component, live or dangling) are skipped and nothing outside is touched
   except the directory of scenario 2; everything else as before.  (The real
   repaired binary is compared with the model by the harness job c16-symlink.) *)
Example repaired_code_on_cf_rs_scenario :
  let r := run_create create_file o_ scn_names fs_scn in
  fst r =
    [ Skipped;
      Skipped;
      Created [s2b "out"; s2b "a"] [s2b "out"; s2b "a"];
      Failed;
      Skipped; Skipped; Skipped; Skipped; Skipped;
      Created [s2b "out"; s2b "p"; s2b "q"] [s2b "out"; s2b "p"; s2b "q"];
      Failed;
      Skipped;
      Created [s2b "out"; s2b "in"; s2b "f"] [s2b "out"; s2b "real"; s2b "f"];
      Failed; Failed; Failed;
      Skipped;
      Created [s2b "out"; s2b "a"] [s2b "out"; s2b "a"];
      Failed ]
  /\ lookup (snd r) [s2b "outside"; s2b "secret"] = Some (File (s2b "root"))
  /\ lookup (snd r) [s2b "outside"; s2b "x"] = Some Dir
  /\ lookup (snd r) [s2b "outside"; s2b "nonexistent"] = None
  /\ lookup (snd r) [s2b "out"; s2b "real"; s2b "f"] = Some (File []).
Proof. vm_compute. repeat split. Qed.

(* 11: output_dir "/" and a name that normalises to nothing: no parent, Skipped *)
Example model_agrees_with_cf_rs_root : create_file [] (s2b "") [] = ([], Skipped).
Proof. vm_compute. reflexivity. Qed.

(* ================================================================== *)
(** * 10. The two defences are independent *)

(* (e) instantiated at a get_extracted_path that does NOT filter "..": the
   canonicalize check alone still confines the parent *)
Corollary confined_by_canonical_check_nofilter lt out name f f' lit cp :
  create_file_with get_path_nofilter prefixb lt out name f = (f', Created lit cp) ->
  exists par c q, lit = par ++ [c] /\
    canonicalize (fst (prepare_parent f par)) par = Some q /\ prefix out q.
Proof.
  intros H. apply confined_by_canonical_check in H.
  destruct H as [par [c [q [f1 [_ [Hl [-> [Hc [Hp _]]]]]]]]].
  exists par, c, q. split; [exact Hl|]. split; [exact Hc|exact Hp].
Qed.

(* without the filter, the check catches "../x" ... *)
Example nofilter_check_skips :
  snd (create_file_with get_path_nofilter prefixb sys_is_symlink o_ (s2b "../x") fs_empty_out) = Skipped.
Proof. vm_compute. reflexivity. Qed.

(* ... and with neither filter nor check the file is created outside *)
Example nofilter_nocheck_escapes :
  snd (create_file_with get_path_nofilter (fun _ _ => true) sys_is_symlink o_ (s2b "../x") fs_empty_out)
  = Created [s2b "x"] [s2b "x"].
Proof. vm_compute. reflexivity. Qed.
