(* Writer.v — model of ArchiveWriter (mla/src/lib.rs:682-1037) at the level of the block
   stream handed to the top layer (what PositionLayerWriter counts).  After the D7 (name
   length checked first) and D8 (short source is an error) repairs.  Definitions only. *)
From MLA Require Import Base Stream Blocks.
From MLA Require Export Limit.
Open Scope N_scope.

Section Writer.
  Context {LIM : Limit}.                  (* BINCODE_MAX_DESERIALIZE *)
  Variable FNMAX : N.
  Variables T_START T_CONTENT T_EOA T_EOF : N.
  Variable H : bytes -> bytes.            (* SHA-256 of the bytes absorbed so far, finalized *)

  Notation ser_block := (ser_block T_START T_CONTENT T_EOA T_EOF).

  Record wstate := mkW {
    w_out : bytes;                 (* block stream written so far *)
    w_final : bool;                (* ArchiveWriterState::Finalized *)
    w_open : list (N * bytes);     (* OpenedFiles: id -> bytes hashed so far (ids and hashes maps) *)
    w_files : list (bytes * N);    (* files_info: name -> id, in insertion order *)
    w_ids : list (N * finfo);      (* ids_info *)
    w_next : N;                    (* next_id *)
    w_cur : N;                     (* current_id *)
  }.
  Definition w_init : wstate := mkW [] false [] [] [] 0 0.
  Definition w_pos (s : wstate) : N := len (w_out s).   (* dest.position() *)

  Inductive wop :=
  | OStart (name : bytes)
  | OAppend (id size : N) (src : bytes)
  | OEnd (id : N)
  | OAdd (name : bytes) (size : N) (src : bytes)
  | OFlush
  | OFinalize.

  Fixpoint alookup {A} (l : list (N * A)) (k : N) : option A :=
    match l with [] => None | (k', v) :: r => if k' =? k then Some v else alookup r k end.
  Fixpoint aupdate {A} (l : list (N * A)) (k : N) (f : A -> A) : list (N * A) :=
    match l with [] => [] | (k', v) :: r => if k' =? k then (k', f v) :: r else (k', v) :: aupdate r k f end.
  Fixpoint aremove {A} (l : list (N * A)) (k : N) : list (N * A) :=
    match l with [] => [] | (k', v) :: r => if k' =? k then r else (k', v) :: aremove r k end.
  Definition name_used (l : list (bytes * N)) (n : bytes) : bool :=
    existsb (fun e => bytes_eqb (fst e) n) l.

  (* mark_continuous_block *)
  Definition mark_cont (s : wstate) (id : N) : wstate :=
    if id =? w_cur s then s else
    mkW (w_out s) (w_final s) (w_open s) (w_files s)
        (aupdate (w_ids s) id (fun fi => mkFI (fi_offsets fi ++ [w_pos s]) (fi_size fi) (fi_eof fi)))
        (w_next s) id.
  Definition emit (s : wstate) (b : bytes) : wstate :=
    mkW (w_out s ++ b) (w_final s) (w_open s) (w_files s) (w_ids s) (w_next s) (w_cur s).

  Definition w_start (s : wstate) (name : bytes) : wstate * res N :=
    if w_final s then (s, Err EState) else
    if FNMAX <? len name then (s, Err ENameTooLong) else        (* D7 repair: checked first *)
    if name_used (w_files s) name then (s, Err EDup) else
    let id := w_next s in
    let s1 := mkW (w_out s) false (w_open s ++ [(id, [])]) (w_files s ++ [(name, id)])
                  (w_ids s ++ [(id, mkFI [w_pos s] 0 0)]) (id + 1) id in
    (emit s1 (ser_block (BStart id name)), Ok id).

  Definition w_append (s : wstate) (id size : N) (src : bytes) : wstate * res N :=
    if w_final s then (s, Err EState) else
    match alookup (w_open s) id with
    | None => (s, Err EState)
    | Some hashed =>
      if size =? 0 then (s, Ok 0) else
      let s1 := mark_cont s id in
      let data := takeN size src in
      let s2 := mkW (w_out s1 ++ [T_CONTENT] ++ le64 id ++ le64 size ++ data) false
                    (aupdate (w_open s1) id (fun h => h ++ data)) (w_files s1)
                    (aupdate (w_ids s1) id (fun fi => mkFI (fi_offsets fi) (fi_size fi + size) (fi_eof fi)))
                    (w_next s1) (w_cur s1) in
      if len src <? size then (s2, Err EShortSource)             (* D8 repair *)
      else (s2, Ok 0)
    end.

  Definition w_end (s : wstate) (id : N) : wstate * res N :=
    if w_final s then (s, Err EState) else
    match alookup (w_open s) id with
    | None => (s, Err EState)
    | Some hashed =>
      let s1 := mark_cont s id in
      let s2 := mkW (w_out s1) false (aremove (w_open s1) id) (w_files s1)
                    (aupdate (w_ids s1) id (fun fi => mkFI (fi_offsets fi) (fi_size fi) (w_pos s1)))
                    (w_next s1) (w_cur s1) in
      (emit s2 (ser_block (BEof id (H hashed))), Ok 0)
    end.

  (* the footer in insertion order of files_info; the real order is HashMap's *)
  Definition w_footer (s : wstate) : footer :=
    flat_map (fun e => match alookup (w_ids s) (snd e) with Some fi => [(fst e, fi)] | None => [] end)
             (w_files s).

  (* finalize, given the order in which the HashMap is iterated (a permutation of w_footer).
     lib.rs:862-892: the state becomes Finalized and the EndOfArchiveData block is dumped
     BEFORE ArchiveFooter::serialize_into is called.  serialize_into (lib.rs:470-509) runs
     bincode under `.with_limit(BINCODE_MAX_DESERIALIZE)`: a bounded bincode serializer
     computes the serialised size first (bincode 1.3.3 internal.rs `serialize_into`) and
     returns SizeLimit -- nothing of the map is written -- when it exceeds the limit
     (SerializationError, here EDeser as in Archive.v / Src3d); otherwise the map is written
     and `u32::try_from(serialization_len)` fails (SerializationError, map already written)
     from 2^32 on.  Either failure leaves the writer Finalized with the end marker (and, for
     the second, the map without its length) in the destination. *)
  Definition w_finalized (s : wstate) (out : bytes) : wstate :=
    mkW out true [] (w_files s) (w_ids s) (w_next s) (w_cur s).
  Definition w_finalize_with (order : footer -> footer) (s : wstate) : wstate * res N :=
    if w_final s then (s, Err EState) else
    match w_open s with
    | _ :: _ => (s, Err EState)
    | [] =>
      let fm := ser_footer_map (order (w_footer s)) in
      if lim <? len fm then (w_finalized s (w_out s ++ ser_block BEnd), Err EDeser)
      else if 2 ^ 32 <=? len fm then (w_finalized s (w_out s ++ ser_block BEnd ++ fm), Err EDeser)
      else
      let s1 := mkW (w_out s ++ ser_block BEnd ++ ser_footer (order (w_footer s))) true [] (w_files s)
                    (w_ids s) (w_next s) (w_cur s) in
      (s1, Ok 0)
    end.

  Variable order : footer -> footer.

  Definition wstep (s : wstate) (o : wop) : wstate * res N :=
    match o with
    | OStart name => w_start s name
    | OAppend id size src => w_append s id size src
    | OEnd id => w_end s id
    | OAdd name size src =>
      match w_start s name with
      | (s1, Ok id) =>
        match w_append s1 id size src with
        | (s2, Ok _) => w_end s2 id
        | r => r
        end
      | r => r
      end
    | OFlush => (s, Ok 0)
    | OFinalize => w_finalize_with order s
    end.

  Fixpoint wrun (s : wstate) (ops : list wop) : wstate * list (res N) :=
    match ops with
    | [] => (s, [])
    | o :: r => let '(s1, x) := wstep s o in let '(s2, xs) := wrun s1 r in (s2, x :: xs)
    end.
End Writer.
