(* Carry2Stack.v — work package `carry2`, part 1a: THE TRANSLATED LAYER STACK.
   StackSrc = the compression reader TRANSLATED from compress.rs (gen/Src3c.v, module Rd) over the encryption
   reader TRANSLATED from encrypt.rs (gen/Src3e.v) over the raw layer TRANSLATED from raw.rs (gen/Src3d.v)
   over ANY I/O source — the stack ArchiveReader::from_config builds, every layer generated from /repo.
   stack_refines_src: under the premises of LayerStack.stack_refines (= C11_stack_refines) it behaves as a
   cursor over the plaintext.  Composition of SrcTie3Comp.src_comp_reader_refines, SrcTie3EncC.
   enc_reader_refines_src, SrcTie3Raw.raw_stream_src with the model's layer theorems, each of which is
   parametric in the inner stream; nothing is reproved.
   Not generated (as in the three tie files): brotli is the whole-block `dec`, AES-GCM is (ks, tagc),
   bincode's layout of SizesInfo, read_exact/read_full of std. *)
From MLA Require Import Limit.
From MLA Require Import Base Stream EncLayer EncLayerProofs CompLayer CompLayerProofs RawLayer RawLayerProofs LayerStack
  SrcTie3Raw SrcTie3Enc SrcTie3EncC SrcTie3Comp.
From MLAGen Require Src3d Src3e Src3c.
From Coq Require Import ZifyBool ZifyNat ZifyN.
Open Scope N_scope.

(* ---------- the translated raw layer as a Stream ---------- *)
Section RawSrc.
  Variable S : Stream.
  Definition RawReaderSrc : Stream :=
    {| st := Src3d.RawLayerReader S; rd := Src3d.raw_read S; sk := Src3d.raw_seek S |}.
  (* the Rust struct IS the model's state (two fields) *)
  Definition abs_raw (x : Src3d.RawLayerReader S) : rstate S := mkR (Src3d.raw_inner S x) (Src3d.raw_offset_pos S x).
  Lemma rep_abs_raw x : rep_raw S (abs_raw x) = x.
  Proof. destruct x; reflexivity. Qed.
  Lemma abs_rep_raw s : abs_raw (rep_raw S s) = s.
  Proof. destruct s; reflexivity. Qed.

  Lemma raw_rd_src x n : rd RawReaderSrc x n =
    (rep_raw S (fst (rd (RawReader S) (abs_raw x) n)), snd (rd (RawReader S) (abs_raw x) n)).
  Proof. cbn [RawReaderSrc rd]. rewrite <- (rep_abs_raw x) at 1. exact (proj2 (raw_stream_src S (abs_raw x) (FromStart 0) n)). Qed.
  Lemma raw_sk_src x w : sk RawReaderSrc x w =
    (rep_raw S (fst (sk (RawReader S) (abs_raw x) w)), snd (sk (RawReader S) (abs_raw x) w)).
  Proof. cbn [RawReaderSrc sk]. rewrite <- (rep_abs_raw x) at 1. exact (proj1 (raw_stream_src S (abs_raw x) w 0)). Qed.

  (* every refinement theorem of the model's raw layer is one of the translated raw layer *)
  Theorem raw_reader_refines_src (b : bytes) (R : rstate S -> N -> Prop) :
    Refines (RawReader S) b R -> Refines RawReaderSrc b (fun x p => R (abs_raw x) p).
  Proof.
    intros [Hrange Hrd Hsk]. constructor.
    - intros x p H. exact (Hrange _ _ H).
    - intros x p n H. destruct (Hrd _ _ n H) as (s' & k & E & H1 & H2 & H3 & H4).
      exists (rep_raw S s'), k. rewrite raw_rd_src, E. cbn [fst snd]. rewrite abs_rep_raw. auto.
    - intros x p w q H Ht. destruct (Hsk _ _ w q H Ht) as (s' & E & H1).
      exists (rep_raw S s'). rewrite raw_sk_src, E. cbn [fst snd]. rewrite abs_rep_raw. auto.
  Qed.
End RawSrc.

(* ---------- the stack ---------- *)
Section StackSrc.
  Variables CHUNK TAG BLOCK LIMIT : N.
  Hypothesis HCHUNK : 0 < CHUNK.
  Hypothesis HTAG : 0 < TAG.
  Hypothesis Hsz : CHUNK + TAG <= 2 ^ 31.
  Hypothesis HB : 0 < BLOCK.
  Hypothesis HB32 : BLOCK < 2 ^ 32.
  Variable ks : N -> N -> N.
  Variable tagc : N -> bytes -> bytes.
  Hypothesis Htagc : forall i c, len (tagc i c) = TAG.
  Variables comp dec : bytes -> bytes.
  Hypothesis Hcomp : forall x, dec (comp x) = x.

  Variables header plain : bytes.
  Variable nb : N.
  Hypothesis Hnb : (nb - 1) * BLOCK <= len plain /\ len plain <= nb * BLOCK.
  Hypothesis Hlim : 12 + 4 * nb <= LIMIT /\ 12 + 4 * nb < 2 ^ 32.
  Hypothesis HL : len plain < 2 ^ 63.

  Notation compwire := (compwire BLOCK comp plain nb).
  Notation encwire := (encwire CHUNK BLOCK ks tagc comp plain nb).
  Notation archive := (archive CHUNK BLOCK ks tagc comp header plain nb).

  Hypothesis Hchunks : nfull CHUNK (len compwire) + 2 < 2 ^ 32.
  Hypothesis Hlen : len archive < 2 ^ 64.

  Variable S : Stream.
  Variable Rin : st S -> N -> Prop.
  Hypothesis Hin : Refines S archive Rin.

  (* labels of the panic sites of the translations; fuel of the one-deep recursions of the encryption reader *)
  Variables site_enc site_c1 site_c2 site_c3 : N.
  Variable fuel : nat.

  Definition RawSrcS : Stream := RawReaderSrc S.
  Definition EncSrcS : Stream := EncReaderSrc RawSrcS CHUNK TAG ks tagc site_enc fuel.
  Definition StackSrc : Stream := SrcCompReader BLOCK dec EncSrcS site_c1 site_c2 site_c3.

  Definition Rraw_src (x : st RawSrcS) (p : N) : Prop := Rraw S header encwire Rin (abs_raw S x) p.
  Definition Renc_src (x : st EncSrcS) (p : N) : Prop :=
    Renc CHUNK TAG ks tagc RawSrcS compwire Rraw_src (SrcTie3Enc.abs RawSrcS x) p.
  Definition Rstack_src (x : st StackSrc) (p : N) : Prop :=
    wf EncSrcS x /\ Rcompn BLOCK comp EncSrcS plain nb Renc_src (SrcTie3Comp.abs EncSrcS x) p.

  Lemma raw_refines_src : Refines RawSrcS encwire Rraw_src.
  Proof.
    apply raw_reader_refines_src.
    exact (raw_refines CHUNK BLOCK ks tagc comp header plain nb Hlen S Rin Hin).
  Qed.

  Lemma enc_refines_src : Refines EncSrcS compwire Renc_src.
  Proof.
    pose proof (ranges_of_sizes CHUNK TAG (len compwire) HCHUNK Hsz Hchunks) as [Hu64 Hi64].
    exact (enc_reader_refines_src RawSrcS CHUNK TAG ks tagc site_enc HCHUNK HTAG Htagc compwire Rraw_src
             raw_refines_src Hchunks Hu64 Hi64 fuel).
  Qed.

  Theorem stack_refines_src : Refines StackSrc plain Rstack_src.
  Proof.
    apply (src_comp_reader_refines BLOCK dec EncSrcS (fun s => (s, Ok tt)) site_c1 site_c2 site_c3 HB32 ltac:(lia) plain _ HL).
    apply (comp_reader_refines_n BLOCK LIMIT HB HB32 comp dec Hcomp EncSrcS plain nb); try assumption.
    exact enc_refines_src.
  Qed.
  (* ---------- opening the stack in the order of ArchiveReader::from_config, every step TRANSLATED ----------
     RawLayerReader::new + reset_position; EncryptionLayerReader::new; CompressionLayerReader::new; then
     CompressionLayerReader::initialize, which runs EncryptionLayerReader::initialize (the raw layer's own
     initialize does nothing) before it reads the sizes table *)
  Definition enc_init_src : st EncSrcS -> st EncSrcS * res unit :=
    Src3e.elr_initialize RawSrcS CHUNK TAG ks tagc (rd_fuel CHUNK TAG) (fun r => (r, Ok tt)) 416 site_enc 524 (Datatypes.S fuel).
  Definition stack_open_src (i0 : st S) : res (st StackSrc) :=
    match Src3d.raw_reset_position S (Src3d.RawLayerReader_new S i0) with
    | (r1, Ok _) =>
      match Src3e.EncryptionLayerReader_new RawSrcS r1 (Some tt) with
      | Ok e0 =>
        match Src3c.Rd.CompressionLayerReader_new EncSrcS e0 with
        | Ok c0 =>
          match Src3c.Rd.initialize LIMIT EncSrcS enc_init_src (bincode_si EncSrcS) c0 with
          | (c1, Ok _) => Ok c1
          | (_, Err e) => Err e
          | (_, Crash c) => Crash c
          end
        | Err e => Err e
        | Crash c => Crash c
        end
      | Err e => Err e
      | Crash c => Crash c
      end
    | (_, Err e) => Err e
    | (_, Crash c) => Crash c
    end.

  Lemma wf_of_Rcompn (x : st StackSrc) p :
    Rcompn BLOCK comp EncSrcS plain nb Renc_src (SrcTie3Comp.abs EncSrcS x) p -> wf EncSrcS x.
  Proof.
    unfold Rcompn, Rcomp. intros (Hsi & _ & _ & Hst). destruct x as [stt si pos]. unfold wf, SrcTie3Comp.abs in *.
    cbn [Src3c.Rd.clr_state Src3c.Rd.clr_sizes_info Src3c.Rd.clr_underlayer_pos c_si c_state c_pos] in *. subst si. split.
    - destruct stt as [i|r u d|]; cbn [abs_state] in *; [exact I| |exact I].
      destruct Hst as (j & _ & _ & _ & -> & _). unfold block_at. rewrite len_sliceN. lia.
    - cbn [si_last]. rewrite len_cblocks. destruct Hnb as [H1 H2]. nia.
  Qed.

  Theorem stack_open_spec_src i0 :
    (forall j, j < nb -> len (comp (block_at BLOCK plain j)) < 2 ^ 32) ->
    Rin i0 (len header) ->
    exists x, stack_open_src i0 = Ok x /\ Rstack_src x 0.
  Proof.
    intros Hcs HR0. unfold stack_open_src.
    destruct (raw_open_spec S header encwire Rin Hin Hlen i0 HR0) as (r & Hro & HRr).
    rewrite raw_new_src, raw_reset_src. unfold raw_open in Hro. rewrite Hro.
    set (r1 := rep_raw S r).
    assert (HRr1 : Rraw_src r1 0) by (unfold Rraw_src, r1; rewrite abs_rep_raw; exact HRr).
    set (e0 := Src3e.mkELI RawSrcS r1 (Src3e.AesGcm256_new 0) [] 0 0).
    change (Src3e.EncryptionLayerReader_new RawSrcS r1 (Some tt)) with (Ok e0).
    assert (Hnew : Src3e.EncryptionLayerReader_new RawSrcS r1 (Some tt) = Ok e0) by reflexivity.
    assert (Hsk : sk EncSrcS e0 (FromCur 0) = (e0, Ok 0)) by reflexivity.
    unfold Src3c.Rd.CompressionLayerReader_new. rewrite Hsk.
    set (c0 := Src3c.Rd.mkCLR EncSrcS (Src3c.Rd.Ready EncSrcS e0) None 0).
    pose proof (ranges_of_sizes CHUNK TAG (len compwire) HCHUNK Hsz Hchunks) as [Hu64 Hi64].
    destruct (enc_open_spec_src RawSrcS CHUNK TAG ks tagc site_enc HCHUNK HTAG Htagc compwire Rraw_src
                raw_refines_src Hchunks Hu64 Hi64 fuel (fun r => (r, Ok tt)) r1 r1 0 e0 Hnew eq_refl HRr1) as (e1 & Hini & HRe).
    destruct (comp_open_spec_n BLOCK LIMIT HB HB32 comp dec Hcomp EncSrcS plain nb Hnb Hcs Hlim HL
                Renc_src enc_refines_src enc_init_src e0 e0 e1 Hsk Hini (ex_intro _ 0 HRe)) as (c & Hco & HRc).
    pose proof (comp_initialize_src LIMIT EncSrcS enc_init_src c0) as Hs.
    destruct (Src3c.Rd.initialize LIMIT EncSrcS enc_init_src (bincode_si EncSrcS) c0) as [c1 rr].
    unfold comp_open, comp_new in Hco. rewrite Hsk in Hco.
    change (comp_initialize LIMIT EncSrcS enc_init_src (SrcTie3Comp.abs EncSrcS c0) = (c, Ok tt)) in Hco. rewrite Hco in Hs.
    injection Hs as Hc <-. exists c1. split; [reflexivity|].
    subst c. split; [exact (wf_of_Rcompn c1 0 HRc) | exact HRc].
  Qed.
End StackSrc.
