(* GcmProofs.v — the incremental model of Gcm.v computes the one-shot GCM function,
   for any block function E and any product gmul.  No axioms. *)
From MLA Require Import Base.
From MLA.Concrete Require Import Hex Aes Ghash GcmSpec.
From MLA Require Import Gcm.
From Coq Require Import ZifyBool ZifyNat ZifyN.
Open Scope N_scope.

Ltac Zify.zify_post_hook ::= Z.div_mod_to_equations.

(* ====================================================================== *)
(* Lists: length bridge, slices of an append, xor                          *)
(* ====================================================================== *)

Lemma len_length {A} (l : list A) (n : nat) : length l = n -> len l = N.of_nat n.
Proof. unfold len. intros ->. reflexivity. Qed.
Lemma length_len {A} (l : list A) (n : N) : len l = n -> length l = N.to_nat n.
Proof. unfold len. lia. Qed.
Lemma len_repeat {A} (x : A) n : len (repeat x n) = N.of_nat n.
Proof. unfold len. now rewrite repeat_length. Qed.

Lemma sliceN_app_l {A} p n (a b : list A) :
  p + n <= len a -> sliceN p n (a ++ b) = sliceN p n a.
Proof.
  intros H. unfold sliceN. rewrite dropN_app_le by lia.
  apply takeN_app_le. rewrite len_dropN. lia.
Qed.

Lemma sliceN_dropN {A} p q n (l : list A) : sliceN p n (dropN q l) = sliceN (q + p) n l.
Proof. unfold sliceN. now rewrite dropN_dropN. Qed.

Lemma match_nonempty {A B} (l : list A) (a b : B) :
  1 <= len l -> match l with [] => a | _ :: _ => b end = b.
Proof. destruct l; [rewrite len_nil; lia | reflexivity]. Qed.

Lemma xor_bytes_nil_r a : xor_bytes a [] = [].
Proof. destruct a; reflexivity. Qed.

Lemma len_xor_bytes a b : len (xor_bytes a b) = N.min (len a) (len b).
Proof. unfold len. rewrite length_xor_bytes. lia. Qed.

Lemma xor_bytes_app a1 a2 b1 b2 :
  len a1 = len b1 ->
  xor_bytes (a1 ++ a2) (b1 ++ b2) = xor_bytes a1 b1 ++ xor_bytes a2 b2.
Proof.
  revert b1; induction a1 as [|x a1 IH]; intros [|y b1] H;
    rewrite ?len_cons, ?len_nil in H; try lia.
  - reflexivity.
  - cbn [app xor_bytes]. f_equal. apply IH. lia.
Qed.

Lemma xor_bytes_comm a b : xor_bytes a b = xor_bytes b a.
Proof.
  revert b; induction a as [|x a IH]; intros [|y b]; cbn [xor_bytes]; try reflexivity.
  rewrite N.lxor_comm. f_equal. apply IH.
Qed.

(* (m xor k) xor k = m when k is long enough *)
Lemma xor_bytes_cancel m k : len m <= len k -> xor_bytes (xor_bytes m k) k = m.
Proof.
  revert k; induction m as [|x m IH]; intros [|y k] H;
    rewrite ?len_cons, ?len_nil in H; try lia; cbn [xor_bytes]; try reflexivity.
  rewrite N.lxor_assoc, N.lxor_nilpotent, N.lxor_0_r. f_equal. apply IH. lia.
Qed.

(* ====================================================================== *)
(* 16-byte blocks: blocks_of, pad16                                        *)
(* ====================================================================== *)

Lemma blocks_of_short b : len b < 16 -> blocks_of b = [].
Proof.
  intros H. do 16 (destruct b as [|? b]; [reflexivity|]).
  rewrite !len_cons in H. lia.
Qed.

(* one block in front *)
Lemma blocks_of_block_app a b :
  len a = 16 -> blocks_of (a ++ b) = block_to_N a :: blocks_of b.
Proof.
  intros H. do 16 (destruct a as [|? a]; [rewrite ?len_cons, ?len_nil in H; lia|]).
  destruct a; [|rewrite !len_cons in H; lia].
  reflexivity.
Qed.

Lemma blocks_of_block a : len a = 16 -> blocks_of a = [block_to_N a].
Proof.
  intros H. rewrite <- (app_nil_r a) at 1. now rewrite blocks_of_block_app.
Qed.

(* |a| a multiple of 16 *)
Lemma blocks_of_app a b :
  len a mod 16 = 0 -> blocks_of (a ++ b) = blocks_of a ++ blocks_of b.
Proof.
  remember (N.to_nat (len a / 16)) as n eqn:Hn.
  revert a Hn; induction n as [|n IH]; intros a Hn H.
  - assert (len a = 0) by lia. now rewrite (len_0_nil a).
  - assert (H16 : len (takeN 16 a) = 16) by (rewrite len_takeN; lia).
    rewrite <- (takeN_dropN 16 a), <- app_assoc.
    rewrite (blocks_of_block_app _ (dropN 16 a ++ b) H16).
    rewrite (blocks_of_block_app _ (dropN 16 a) H16).
    cbn [app]. f_equal. apply IH; rewrite len_dropN; lia.
Qed.

Lemma len_pad16 b : len (pad16 b) mod 16 = 0.
Proof.
  unfold pad16. destruct (N.eqb_spec (len b mod 16) 0) as [H|H]; [exact H|].
  rewrite len_app, len_repeat. lia.
Qed.

Lemma pad16_aligned b : len b mod 16 = 0 -> pad16 b = b.
Proof. intros H. unfold pad16. now rewrite H. Qed.

Lemma pad16_app a b : len a mod 16 = 0 -> pad16 (a ++ b) = a ++ pad16 b.
Proof.
  intros H. unfold pad16. rewrite len_app.
  replace ((len a + len b) mod 16) with (len b mod 16) by lia.
  destruct (len b mod 16 =? 0); [reflexivity | now rewrite app_assoc].
Qed.

(* ====================================================================== *)
(* Fixed-width integers: the 128-bit counter versus nonce || 32-bit counter *)
(* ====================================================================== *)

Lemma le_val_app a b : le_val (a ++ b) = le_val a + 256 ^ len a * le_val b.
Proof.
  induction a as [|x a IH]; cbn [app le_val].
  - change (len (@nil N)) with 0. rewrite N.pow_0_r. lia.
  - rewrite IH, len_cons. replace (len a + 1) with (N.succ (len a)) by lia.
    rewrite N.pow_succ_r'. lia.
Qed.

(* only v mod 256^w matters *)
Lemma le_bytes_add_mul w v u : le_bytes w (v + 256 ^ N.of_nat w * u) = le_bytes w v.
Proof.
  revert v u; induction w as [|w IH]; intros v u; cbn [le_bytes]; [reflexivity|].
  replace (N.of_nat (S w)) with (N.succ (N.of_nat w)) by lia.
  rewrite N.pow_succ_r'.
  replace (v + 256 * 256 ^ N.of_nat w * u) with (v + (256 ^ N.of_nat w * u) * 256) by lia.
  rewrite N.mod_add, N.div_add by lia. f_equal. apply IH.
Qed.

Lemma le_bytes_app w1 w2 v :
  le_bytes (w1 + w2) v = le_bytes w1 v ++ le_bytes w2 (v / 256 ^ N.of_nat w1).
Proof.
  revert v; induction w1 as [|w1 IH]; intros v; cbn [Nat.add le_bytes app].
  - cbn. now rewrite N.div_1_r.
  - f_equal. rewrite IH. do 2 f_equal.
    replace (N.of_nat (S w1)) with (N.succ (N.of_nat w1)) by lia.
    rewrite N.pow_succ_r', N.div_div by (try apply N.pow_nonzero; lia). reflexivity.
Qed.

Lemma wf_bytes_rev b : wf_bytes b -> wf_bytes (rev b).
Proof. unfold wf_bytes. rewrite !Forall_forall. intros H x Hx. apply H. now apply in_rev. Qed.

(* Ctr128BE on nonce || 00000001 is nonce || be32(1 + k) while the low 32 bits do not wrap *)
Lemma ctr128_block_ctr_block nonce k :
  length nonce = 12%nat -> wf_bytes nonce -> 1 + k < 2 ^ 32 ->
  ctr128_block (nonce ++ [0; 0; 0; 1]) k = ctr_block nonce (1 + k).
Proof.
  intros Hl Hwf Hk. unfold ctr128_block, ctr_block, be_bytes, be_val.
  rewrite rev_app_distr. change (rev [0; 0; 0; 1]) with [1; 0; 0; 0]. rewrite le_val_app.
  change (len [1; 0; 0; 0]) with 4. change (le_val [1; 0; 0; 0]) with 1.
  replace (1 + 256 ^ 4 * le_val (rev nonce) + k)
    with ((1 + k) + 256 ^ N.of_nat 4 * le_val (rev nonce)) by lia.
  change 16%nat with (4 + 12)%nat. rewrite le_bytes_app, le_bytes_add_mul.
  replace ((1 + k + 256 ^ N.of_nat 4 * le_val (rev nonce)) / 256 ^ N.of_nat 4)
    with (le_val (rev nonce)).
  2:{ change (256 ^ N.of_nat 4) with (2 ^ 32) in *.
      rewrite N.mul_comm, N.div_add by lia. rewrite N.div_small by lia. reflexivity. }
  replace 12%nat with (length (rev nonce)) by (now rewrite rev_length).
  rewrite le_bytes_le_val by (now apply wf_bytes_rev).
  now rewrite rev_app_distr, rev_involutive.
Qed.

(* ====================================================================== *)
(* The one-shot function, abstract in E and gmul.  Written from SP 800-38D *)
(* (Algorithm 4 with len(IV) = 96), on the pattern of GcmSpec.v; it does   *)
(* not mention the state machine of Gcm.v.                                 *)
(* ====================================================================== *)

Section Spec.
  Variable E : bytes -> bytes.
  Variable gmul : N -> N -> N.

  (* E(nonce || be32 i) ++ E(nonce || be32 (i+1)) ++ ..., n blocks (inc32: be32 wraps) *)
  Fixpoint spec_ks_blocks (nonce : bytes) (n : nat) (i : N) : bytes :=
    match n with
    | O => []
    | S n' => E (ctr_block nonce i) ++ spec_ks_blocks nonce n' (i + 1)
    end.

  (* the first nbytes bytes of the GCTR key stream, which starts at counter 2 *)
  Definition spec_keystream (nonce : bytes) (nbytes : N) : bytes :=
    takeN nbytes (spec_ks_blocks nonce (N.to_nat ((nbytes + 15) / 16)) 2).

  (* GHASH_H: Y_0 = 0, Y_i = (Y_(i-1) xor X_i) . H *)
  Definition spec_ghash (h : N) (blocks : list N) : N :=
    fold_left (fun y x => gmul (N.lxor y x) h) blocks 0.

  Definition gcm_spec (nonce aad msg : bytes) : bytes * bytes :=
    let ct := xor_bytes msg (spec_keystream nonce (len msg)) in
    let h := block_to_N (E (repeat 0 16)) in
    let s := spec_ghash h
               (blocks_of (pad16 aad ++ pad16 ct
                           ++ be_bytes 8 (8 * len aad) ++ be_bytes 8 (8 * len ct))) in
    (ct, xor_bytes (E (ctr_block nonce 1)) (N_to_block s)).
End Spec.

(* ---------- T3: at the concrete instance this is GcmSpec.gcm_encrypt_rk ---------- *)

Lemma spec_ks_blocks_aes rk nonce n i :
  spec_ks_blocks (aes_encrypt_rk rk) nonce n i = keystream_blocks rk nonce n i.
Proof.
  revert i; induction n as [|n IH]; intros i; cbn [spec_ks_blocks keystream_blocks];
    [reflexivity | now rewrite IH].
Qed.

Lemma spec_keystream_aes rk nonce nbytes :
  spec_keystream (aes_encrypt_rk rk) nonce nbytes = keystream_rk rk nonce nbytes.
Proof. unfold spec_keystream, keystream_rk. now rewrite spec_ks_blocks_aes. Qed.

Theorem gcm_spec_concrete rk nonce aad pt :
  gcm_spec (aes_encrypt_rk rk) gf_mul nonce aad pt = gcm_encrypt_rk rk nonce aad pt.
Proof.
  unfold gcm_spec, gcm_encrypt_rk, gcm_tag_rk, gcm_ctr_rk, ghash_input, ghash, ghash_from,
    spec_ghash.
  rewrite spec_keystream_aes. reflexivity.
Qed.
Print Assumptions gcm_spec_concrete.

(* ====================================================================== *)
(* The Ctr128BE key stream as slices of one long string                    *)
(* ====================================================================== *)

Section KeyStream.
  Variable E : bytes -> bytes.
  Hypothesis HE : forall b, length b = 16%nat -> length (E b) = 16%nat.
  Variable iv : bytes.

  Lemma len_E_ctr128 k : len (E (ctr128_block iv k)) = 16.
  Proof.
    apply (len_length _ 16%nat). apply HE. unfold ctr128_block. apply length_be_bytes.
  Qed.

  Lemma len_ks_blocks n k : len (ks_blocks E iv n k) = 16 * N.of_nat n.
  Proof.
    revert k; induction n as [|n IH]; intros k; cbn [ks_blocks].
    - reflexivity.
    - rewrite len_app, len_E_ctr128, IH. lia.
  Qed.

  Lemma ks_blocks_add a b k :
    ks_blocks E iv (a + b) k = ks_blocks E iv a k ++ ks_blocks E iv b (k + N.of_nat a).
  Proof.
    revert k; induction a as [|a IH]; intros k; cbn [Nat.add ks_blocks app].
    - f_equal. lia.
    - rewrite IH, <- app_assoc. do 3 f_equal. lia.
  Qed.

  (* the first M blocks of the stream (block 0 is the one that masks the tag) *)
  Definition KS (M : nat) : bytes := ks_blocks E iv M 0.

  Lemma len_KS M : len (KS M) = 16 * N.of_nat M.
  Proof. apply len_ks_blocks. Qed.

  Lemma ks_blocks_KS n k : ks_blocks E iv n k = dropN (16 * k) (KS (N.to_nat k + n)).
  Proof.
    unfold KS. rewrite ks_blocks_add.
    rewrite dropN_app_ge by (rewrite len_ks_blocks; lia).
    rewrite len_ks_blocks.
    replace (16 * k - 16 * N.of_nat (N.to_nat k)) with 0 by lia.
    rewrite dropN_0. f_equal. lia.
  Qed.

  Lemma sliceN_KS_le M1 M2 pos n :
    (M1 <= M2)%nat -> pos + n <= 16 * N.of_nat M1 ->
    sliceN pos n (KS M2) = sliceN pos n (KS M1).
  Proof.
    intros HM H. replace M2 with (M1 + (M2 - M1))%nat by lia.
    unfold KS at 1. rewrite ks_blocks_add. fold (KS M1).
    apply sliceN_app_l. rewrite len_KS. exact H.
  Qed.

  Lemma sliceN_KS_indep M1 M2 pos n :
    pos + n <= 16 * N.of_nat M1 -> pos + n <= 16 * N.of_nat M2 ->
    sliceN pos n (KS M1) = sliceN pos n (KS M2).
  Proof.
    intros H1 H2. destruct (Nat.le_ge_cases M1 M2).
    - symmetry. now apply sliceN_KS_le.
    - now apply sliceN_KS_le.
  Qed.

  (* what apply_keystream xors with *)
  Lemma ks_range_KS M pos n :
    pos + n <= 16 * N.of_nat M -> ks_range E iv pos n = sliceN pos n (KS M).
  Proof.
    intros H. unfold ks_range. rewrite ks_blocks_KS, sliceN_dropN.
    replace (16 * (pos / 16) + pos mod 16) with pos by lia.
    apply sliceN_KS_indep; [|exact H]. lia.
  Qed.

  (* seek(0); 16 bytes: the first block *)
  Lemma ks_range_0_16 : ks_range E iv 0 16 = E (ctr128_block iv 0).
  Proof.
    unfold ks_range. change (0 mod 16) with 0. change (0 / 16) with 0.
    change (N.to_nat ((0 + 16 + 15) / 16)) with 1%nat.
    cbn [ks_blocks]. rewrite app_nil_r. unfold sliceN. rewrite dropN_0.
    apply takeN_all. rewrite len_E_ctr128. lia.
  Qed.
End KeyStream.

(* the GCTR key stream of the specification is the same string from byte 16 on,
   as long as the 32-bit counter does not wrap *)
Section KeyStreamSpec.
  Variable E : bytes -> bytes.
  Hypothesis HE : forall b, length b = 16%nat -> length (E b) = 16%nat.
  Variable nonce : bytes.
  Hypothesis Hnonce : length nonce = 12%nat.
  Hypothesis Hwf : wf_bytes nonce.
  Let iv := nonce ++ [0; 0; 0; 1].

  Lemma spec_ks_blocks_ks_blocks n i :
    1 <= i -> i + N.of_nat n <= 2 ^ 32 ->
    spec_ks_blocks E nonce n i = ks_blocks E iv n (i - 1).
  Proof.
    revert i; induction n as [|n IH]; intros i H1 H2; cbn [spec_ks_blocks ks_blocks].
    - reflexivity.
    - unfold iv at 1. rewrite ctr128_block_ctr_block by (assumption || lia).
      replace (1 + (i - 1)) with i by lia. f_equal.
      rewrite IH by lia. f_equal. lia.
  Qed.

  Lemma spec_keystream_KS M L :
    L <= 2 ^ 36 - 32 -> 16 + L <= 16 * N.of_nat M ->
    spec_keystream E nonce L = sliceN 16 L (KS E iv M).
  Proof.
    intros HL HM. unfold spec_keystream.
    rewrite spec_ks_blocks_ks_blocks by lia.
    change (2 - 1) with 1. rewrite (ks_blocks_KS E HE).
    change (takeN L (dropN (16 * 1) ?x)) with (sliceN 16 L x).
    apply (sliceN_KS_indep E HE); lia.
  Qed.
End KeyStreamSpec.

(* ====================================================================== *)
(* The state machine                                                       *)
(* ====================================================================== *)

Section Incremental.
  Variable E : bytes -> bytes.
  Variable gmul : N -> N -> N.
  Hypothesis HE : forall b, length b = 16%nat -> length (E b) = 16%nat.
  Variable nonce aad : bytes.
  (* M blocks of key stream are enough for everything below *)
  Variable M : nat.

  Let iv := nonce ++ [0; 0; 0; 1].
  Let X := KS E iv M.
  Let h := block_to_N (E (repeat 0 16)).
  Let acc0 := gh_from gmul h 0 (blocks_of (pad16 aad)).

  Local Lemma len_X : len X = 16 * N.of_nat M.
  Proof. apply (len_KS E HE). Qed.

  Local Lemma len_slice_X p n : p + n <= 16 * N.of_nat M -> len (sliceN p n X) = n.
  Proof. intros H. rewrite len_sliceN, len_X. lia. Qed.

  Lemma gh_from_app y b1 b2 :
    gh_from gmul h y (b1 ++ b2) = gh_from gmul h (gh_from gmul h y b1) b2.
  Proof. apply fold_left_app. Qed.

  Lemma gh_block_gh_from y blk :
    len blk = 16 -> gh_block gmul h y blk = gh_from gmul h y (blocks_of blk).
  Proof. intros H. rewrite blocks_of_block by exact H. reflexivity. Qed.

  (* buf xor key stream, cut at k *)
  Lemma xor_slice_split pos k buf :
    pos + len buf <= 16 * N.of_nat M -> k <= len buf ->
    xor_bytes buf (sliceN pos (len buf) X)
    = xor_bytes (takeN k buf) (sliceN pos k X)
      ++ xor_bytes (dropN k buf) (sliceN (pos + k) (len (dropN k buf)) X).
  Proof.
    intros H Hk. rewrite len_dropN.
    rewrite <- (takeN_dropN k buf) at 1.
    replace (len buf) with (k + (len buf - k)) at 1 by lia.
    rewrite sliceN_add. apply xor_bytes_app.
    rewrite len_takeN, len_slice_X by lia. lia.
  Qed.

  Lemma apply_keystream_X pos hh acc ab cur enc buf :
    pos + len buf <= 16 * N.of_nat M ->
    apply_keystream E (mk_gstate iv pos hh acc ab cur enc) buf
    = (mk_gstate iv (pos + len buf) hh acc ab cur enc,
       xor_bytes buf (sliceN pos (len buf) X)).
  Proof.
    intros H. unfold apply_keystream, set_pos.
    cbn [g_iv g_pos g_h g_acc g_aad_bits g_cur g_enc].
    now rewrite (ks_range_KS E HE iv M).
  Qed.

  (* ----- the chunk loops ----- *)

  Lemma enc_chunks_X n : forall pos acc ab cur enc buf,
    16 * N.of_nat n <= len buf -> pos + 16 * N.of_nat n <= 16 * N.of_nat M ->
    enc_chunks E gmul n (mk_gstate iv pos h acc ab cur enc) buf
    = let o := xor_bytes (takeN (16 * N.of_nat n) buf) (sliceN pos (16 * N.of_nat n) X) in
      (mk_gstate iv (pos + 16 * N.of_nat n) h (gh_from gmul h acc (blocks_of o)) ab cur enc, o).
  Proof.
    induction n as [|n IH]; intros pos acc ab cur enc buf Hb Hp; cbn [enc_chunks].
    - cbn zeta. change (16 * N.of_nat 0) with 0. rewrite takeN_0, N.add_0_r. reflexivity.
    - assert (H16 : len (takeN 16 buf) = 16) by (rewrite len_takeN; lia).
      rewrite apply_keystream_X by lia. rewrite H16.
      unfold set_acc. cbn [g_iv g_pos g_h g_acc g_aad_bits g_cur g_enc].
      rewrite IH by (rewrite ?len_dropN; lia).
      cbn zeta.
      set (c := xor_bytes (takeN 16 buf) (sliceN pos 16 X)).
      assert (Hc : len c = 16) by (unfold c; rewrite len_xor_bytes, H16, len_slice_X; lia).
      set (o' := xor_bytes (takeN (16 * N.of_nat n) (dropN 16 buf))
                   (sliceN (pos + 16) (16 * N.of_nat n) X)).
      replace (xor_bytes (takeN (16 * N.of_nat (S n)) buf) (sliceN pos (16 * N.of_nat (S n)) X))
        with (c ++ o').
      2:{ replace (16 * N.of_nat (S n)) with (16 + 16 * N.of_nat n) by lia.
          rewrite takeN_add, sliceN_add. symmetry. apply xor_bytes_app.
          rewrite H16, len_slice_X; lia. }
      rewrite blocks_of_block_app by exact Hc. cbn [gh_from fold_left].
      f_equal. f_equal. lia.
  Qed.

  Lemma dec_chunks_X n : forall pos acc ab cur enc buf,
    16 * N.of_nat n <= len buf -> pos + 16 * N.of_nat n <= 16 * N.of_nat M ->
    dec_chunks E gmul n (mk_gstate iv pos h acc ab cur enc) buf
    = (mk_gstate iv (pos + 16 * N.of_nat n) h
         (gh_from gmul h acc (blocks_of (takeN (16 * N.of_nat n) buf))) ab cur enc,
       xor_bytes (takeN (16 * N.of_nat n) buf) (sliceN pos (16 * N.of_nat n) X)).
  Proof.
    induction n as [|n IH]; intros pos acc ab cur enc buf Hb Hp; cbn [dec_chunks].
    - change (16 * N.of_nat 0) with 0. rewrite takeN_0, N.add_0_r. reflexivity.
    - assert (H16 : len (takeN 16 buf) = 16) by (rewrite len_takeN; lia).
      unfold set_acc. cbn [g_iv g_pos g_h g_acc g_aad_bits g_cur g_enc].
      rewrite apply_keystream_X by lia. rewrite H16.
      rewrite IH by (rewrite ?len_dropN; lia).
      replace (16 * N.of_nat (S n)) with (16 + 16 * N.of_nat n) by lia.
      rewrite takeN_add, sliceN_add.
      rewrite blocks_of_block_app by exact H16. cbn [gh_from fold_left].
      rewrite xor_bytes_app by (rewrite H16, len_slice_X; lia).
      f_equal. f_equal. lia.
  Qed.

  (* ----- states reached by encrypt -----
     c0: ciphertext already hashed, a multiple of 16 bytes; cur: the rest (< 16 bytes);
     enc: bytes_encrypted *)
  Definition stE (c0 cur : bytes) (enc : N) : gstate :=
    mk_gstate iv (16 + len c0 + len cur) h (gh_from gmul h acc0 (blocks_of c0))
      (len aad * 8) cur enc.
  Definition st (c0 cur : bytes) : gstate := stE c0 cur (len c0 + len cur).

  Lemma gcm_new_st : gcm_new E gmul nonce aad = st [] [].
  Proof. reflexivity. Qed.

  (* lines 102-116 of aesgcm.rs, entered with current_block empty *)
  Lemma enc_aligned_X c0 enc buf :
    len c0 mod 16 = 0 -> 16 + len c0 + len buf <= 16 * N.of_nat M ->
    let o := xor_bytes buf (sliceN (16 + len c0) (len buf) X) in
    let n := len buf / 16 in
    enc_aligned E gmul (stE c0 [] enc) buf
    = (stE (c0 ++ takeN (16 * n) o) (dropN (16 * n) o) enc, o).
  Proof.
    intros Hc0 HM o n. unfold enc_aligned, stE. fold n.
    change (len (@nil N)) with 0. rewrite N.add_0_r.
    replace (16 * n) with (16 * N.of_nat (N.to_nat n)) by lia.
    rewrite enc_chunks_X by lia. cbn zeta.
    set (k := 16 * N.of_nat (N.to_nat n)).
    assert (Hk : k <= len buf) by lia.
    assert (Ho : o = xor_bytes (takeN k buf) (sliceN (16 + len c0) k X)
                     ++ xor_bytes (dropN k buf)
                          (sliceN (16 + len c0 + k) (len (dropN k buf)) X))
      by (apply xor_slice_split; lia).
    set (o1 := xor_bytes (takeN k buf) (sliceN (16 + len c0) k X)) in *.
    set (o2 := xor_bytes (dropN k buf) (sliceN (16 + len c0 + k) (len (dropN k buf)) X)) in *.
    assert (Ho1 : len o1 = k)
      by (unfold o1; rewrite len_xor_bytes, len_takeN, len_slice_X; lia).
    assert (Ht : takeN k o = o1) by (rewrite Ho, <- Ho1; apply takeN_len_app).
    assert (Hd : dropN k o = o2) by (rewrite Ho, <- Ho1; apply dropN_len_app).
    rewrite Ht, Hd.
    assert (Hacc : gh_from gmul h (gh_from gmul h acc0 (blocks_of c0)) (blocks_of o1)
                   = gh_from gmul h acc0 (blocks_of (c0 ++ o1)))
      by (rewrite blocks_of_app by exact Hc0; symmetry; apply gh_from_app).
    assert (Ho2 : o2 = xor_bytes (dropN k buf)
                         (sliceN (16 + len c0 + k) (len (dropN k buf)) X)) by reflexivity.
    clearbody o2.
    destruct (dropN k buf) as [|x r] eqn:Hrem.
    - (* no remainder *)
      assert (o2 = []) by (rewrite Ho2; reflexivity).
      rewrite H, app_nil_r in Ho. rewrite H, Ho, Hacc.
      f_equal. f_equal. rewrite len_app, Ho1. change (len (@nil N)) with 0.
      assert (len (dropN k buf) = 0) by (now rewrite Hrem).
      rewrite len_dropN in H0. lia.
    - rewrite <- Hrem in *.
      assert (Hl : len buf = k + len (dropN k buf)) by (rewrite len_dropN; lia).
      rewrite apply_keystream_X by lia. rewrite <- Ho2.
      unfold set_cur. cbn [g_iv g_pos g_h g_acc g_aad_bits g_cur g_enc app].
      rewrite Hacc, <- Ho. f_equal. f_equal.
      rewrite len_app, Ho1.
      assert (len o2 = len (dropN k buf))
        by (rewrite Ho2, len_xor_bytes, len_slice_X; lia).
      lia.
  Qed.

  Ltac lens :=
    rewrite ?len_app, ?len_takeN, ?len_dropN, ?len_xor_bytes, ?len_app, ?len_takeN, ?len_dropN;
    rewrite ?len_slice_X by lia.

  (* s is a state encrypt can be in after producing the ciphertext c *)
  Definition Inv (s : gstate) (c : bytes) : Prop :=
    exists c0 cur, s = st c0 cur /\ c = c0 ++ cur /\ len c0 mod 16 = 0 /\ len cur < 16.

  Lemma Inv_new : Inv (gcm_new E gmul nonce aad) [].
  Proof. exists [], []. repeat split. Qed.

  Lemma gcm_encrypt_piece_X s c buf :
    Inv s c -> 16 + len c + len buf <= 16 * N.of_nat M ->
    let o := xor_bytes buf (sliceN (16 + len c) (len buf) X) in
    exists s', gcm_encrypt_piece E gmul s buf = (s', o) /\ Inv s' (c ++ o).
  Proof.
    intros (c0 & cur & -> & -> & Hc0 & Hcur) HM. cbv zeta.
    rewrite len_app in *. rewrite (N.add_assoc 16 (len c0) (len cur)) in *.
    set (o := xor_bytes buf (sliceN (16 + len c0 + len cur) (len buf) X)).
    assert (Hlo : len o = len buf) by (unfold o; lens; lia).
    unfold gcm_encrypt_piece, st.
    change (set_enc (stE c0 cur (len c0 + len cur)) (g_enc (stE c0 cur (len c0 + len cur)) + len buf))
      with (stE c0 cur (len c0 + len cur + len buf)).
    change (g_cur (stE c0 cur (len c0 + len cur + len buf))) with cur.
    destruct (N.eq_dec (len cur) 0) as [Ecur|Ecur].
    - (* current_block empty *)
      apply len_0_nil in Ecur. subst cur. cbv iota.
      change (len (@nil N)) with 0 in *.
      pose proof (enc_aligned_X c0 (len c0 + 0 + len buf) buf Hc0 ltac:(lia)) as HA.
      cbn zeta in HA. subst o. rewrite app_nil_r in *.
      rewrite (N.add_0_r (16 + len c0)) in *. rewrite HA. clear HA.
      set (o := xor_bytes buf (sliceN (16 + len c0) (len buf) X)) in *.
      set (n := len buf / 16).
      exists (stE (c0 ++ takeN (16 * n) o) (dropN (16 * n) o) (len c0 + 0 + len buf)).
      split; [reflexivity|].
      exists (c0 ++ takeN (16 * n) o), (dropN (16 * n) o). repeat split.
      + unfold st. f_equal. lens. lia.
      + now rewrite <- app_assoc, takeN_dropN.
      + lens. lia.
      + lens. lia.
    - assert (Hne : 1 <= len cur) by lia.
      rewrite match_nonempty by exact Hne.
      destruct (N.ltb_spec (len cur + len buf) 16) as [Hlt|Hge].
      + (* still not a full block *)
        unfold stE at 1. rewrite apply_keystream_X by lia.
        unfold set_cur. cbn [g_iv g_pos g_h g_acc g_aad_bits g_cur g_enc].
        fold o.
        eexists. split; [reflexivity|].
        exists c0, (cur ++ o). repeat split.
        * unfold st, stE. f_equal; rewrite len_app, Hlo; lia.
        * now rewrite app_assoc.
        * exact Hc0.
        * rewrite len_app, Hlo. lia.
      + (* current_block completed by the head of buf *)
        set (k := 16 - len cur).
        assert (Hk : len (takeN k buf) = k) by (rewrite len_takeN; lia).
        unfold stE at 1. rewrite apply_keystream_X by lia. rewrite Hk.
        unfold set_cur, set_acc. cbn [g_iv g_pos g_h g_acc g_aad_bits g_cur g_enc].
        set (c1 := xor_bytes (takeN k buf) (sliceN (16 + len c0 + len cur) k X)).
        assert (Hc1 : len c1 = k) by (unfold c1; lens; lia).
        assert (H16 : len (cur ++ c1) = 16) by (rewrite len_app, Hc1; lia).
        match goal with |- context [enc_aligned E gmul ?s _] =>
          replace s with (stE (c0 ++ cur ++ c1) [] (len c0 + len cur + len buf)) end.
        2:{ unfold stE. change (len (@nil N)) with 0. f_equal.
            - rewrite len_app, H16. lia.
            - rewrite blocks_of_app by exact Hc0. rewrite gh_from_app.
              symmetry. apply gh_block_gh_from. exact H16. }
        assert (Hc0' : len (c0 ++ cur ++ c1) mod 16 = 0) by (rewrite len_app, H16; lia).
        pose proof (enc_aligned_X (c0 ++ cur ++ c1) (len c0 + len cur + len buf) (dropN k buf)
                      Hc0' ltac:(rewrite len_app, H16, len_dropN; lia)) as HA.
        cbn zeta in HA. rewrite HA. clear HA.
        set (o' := xor_bytes (dropN k buf)
                     (sliceN (16 + len (c0 ++ cur ++ c1)) (len (dropN k buf)) X)).
        set (n := len (dropN k buf) / 16).
        assert (Ho : o = c1 ++ o').
        { unfold o, o'.
          replace (16 + len (c0 ++ cur ++ c1)) with (16 + len c0 + len cur + k)
            by (rewrite len_app, H16; lia).
          unfold c1. apply xor_slice_split; lia. }
        assert (Hlo' : len o' = len buf - k) by (unfold o'; lens; lia).
        rewrite <- Ho.
        eexists. split; [reflexivity|].
        exists ((c0 ++ cur ++ c1) ++ takeN (16 * n) o'), (dropN (16 * n) o'). repeat split.
        * unfold st. f_equal. rewrite len_app, len_app, H16. lens.
          unfold n. rewrite len_dropN. lia.
        * rewrite Ho, <- !app_assoc. now rewrite takeN_dropN.
        * rewrite len_app, len_app, H16. lens. unfold n. rewrite len_dropN. lia.
        * lens. unfold n. rewrite len_dropN. lia.
  Qed.

  (* ----- the tag ----- *)

  (* T of SP 800-38D for ciphertext c, with the first key-stream block of the model *)
  Definition tag_of (c : bytes) : bytes :=
    xor_bytes (E (ctr128_block iv 0))
      (N_to_block (gh_from gmul h 0
         (blocks_of (pad16 aad ++ pad16 c
                     ++ be_bytes 8 (8 * len aad) ++ be_bytes 8 (8 * len c))))).

  Lemma ghash_input_split c lb :
    len lb = 16 ->
    gh_from gmul h 0 (blocks_of (pad16 aad ++ pad16 c ++ lb))
    = gh_block gmul h (gh_from gmul h acc0 (blocks_of (pad16 c))) lb.
  Proof.
    intros Hlb.
    rewrite blocks_of_app by apply len_pad16.
    rewrite blocks_of_app by apply len_pad16.
    rewrite !gh_from_app. fold acc0. symmetry. now apply gh_block_gh_from.
  Qed.

  Lemma len_len_block a b : len (len_block a b) = 16.
  Proof.
    unfold len_block. rewrite len_app.
    rewrite !(len_length _ 8%nat) by apply length_be_bytes. reflexivity.
  Qed.

  (* seek(0); apply_keystream(tag) *)
  Lemma apply_keystream_tag s y :
    g_iv s = iv ->
    apply_keystream E (set_pos s 0) (N_to_block y)
    = (set_pos s 16, xor_bytes (E (ctr128_block iv 0)) (N_to_block y)).
  Proof.
    intros Hiv. unfold apply_keystream, set_pos.
    cbn [g_iv g_pos g_h g_acc g_aad_bits g_cur g_enc]. rewrite Hiv.
    rewrite (len_length _ 16%nat) by apply length_N_to_block.
    change (N.of_nat 16) with 16. change (0 + 16) with 16.
    rewrite (ks_range_0_16 E HE). f_equal. apply xor_bytes_comm.
  Qed.

  Lemma gcm_into_tag_X s c : Inv s c -> gcm_into_tag E gmul s = tag_of c.
  Proof.
    intros (c0 & cur & -> & -> & Hc0 & Hcur).
    unfold gcm_into_tag. rewrite apply_keystream_tag by reflexivity. cbn [snd].
    unfold tag_of. do 2 f_equal.
    unfold st, stE. cbn [g_iv g_pos g_h g_acc g_aad_bits g_cur g_enc].
    replace (be_bytes 8 (8 * len aad) ++ be_bytes 8 (8 * len (c0 ++ cur)))
      with (len_block (len aad * 8) (len c0 + len cur))
      by (unfold len_block; rewrite len_app; f_equal; f_equal; lia).
    rewrite ghash_input_split by apply len_len_block. f_equal.
    unfold gh_update_padded.
    rewrite pad16_app by exact Hc0. rewrite blocks_of_app by exact Hc0.
    now rewrite gh_from_app.
  Qed.

  (* ----- a sequence of encrypt calls ----- *)

  Lemma gcm_encrypt_pieces_X ps : forall s c,
    Inv s c -> 16 + len c + len (concat ps) <= 16 * N.of_nat M ->
    exists s' outs,
      gcm_encrypt_pieces E gmul s ps = (s', outs)
      /\ concat outs = xor_bytes (concat ps) (sliceN (16 + len c) (len (concat ps)) X)
      /\ map (@length N) outs = map (@length N) ps
      /\ Inv s' (c ++ concat outs).
  Proof.
    induction ps as [|p ps IH]; intros s c HI HM; cbn [gcm_encrypt_pieces concat].
    - exists s, []. cbn [concat map]. rewrite app_nil_r. auto.
    - cbn [concat] in HM. rewrite len_app in HM.
      destruct (gcm_encrypt_piece_X s c p HI ltac:(lia)) as (s1 & Hs1 & HI1).
      set (o := xor_bytes p (sliceN (16 + len c) (len p) X)) in *.
      assert (Hlo : len o = len p) by (unfold o; lens; lia).
      destruct (IH s1 (c ++ o) HI1 ltac:(rewrite len_app, Hlo; lia))
        as (s2 & outs & Hs2 & Hcat & Hlens & HI2).
      rewrite Hs1, Hs2. exists s2, (o :: outs). cbn [concat map].
      split; [reflexivity|]. split; [|split].
      + rewrite Hcat, (len_app p (concat ps)), sliceN_add.
        replace (16 + len (c ++ o)) with (16 + len c + len p) by (rewrite len_app, Hlo; lia).
        symmetry. apply xor_bytes_app. lens. lia.
      + f_equal; [|exact Hlens]. unfold len in Hlo. lia.
      + rewrite app_assoc. exact HI2.
  Qed.

  (* ----- decrypt ----- *)

  Lemma dec_rem_X pos acc ab cur enc rem :
    pos + len rem <= 16 * N.of_nat M ->
    dec_rem E gmul (mk_gstate iv pos h acc ab cur enc) rem
    = (mk_gstate iv (pos + len rem) h (gh_from gmul h acc (blocks_of (pad16 rem))) ab cur enc,
       xor_bytes rem (sliceN pos (len rem) X)).
  Proof.
    intros H. destruct rem as [|x r].
    - cbn [dec_rem]. change (len (@nil N)) with 0. rewrite N.add_0_r. reflexivity.
    - cbn [dec_rem]. unfold set_acc. cbn [g_iv g_pos g_h g_acc g_aad_bits g_cur g_enc].
      now rewrite apply_keystream_X by exact H.
  Qed.

  Lemma gcm_decrypt_X buf :
    16 + len buf <= 16 * N.of_nat M ->
    exists s',
      gcm_decrypt E gmul (gcm_new E gmul nonce aad) buf
      = (s', xor_bytes buf (sliceN 16 (len buf) X), tag_of buf)
      /\ g_pos s' = 16.
  Proof.
    intros HM. unfold gcm_decrypt. rewrite gcm_new_st. unfold st, stE.
    change (len (@nil N)) with 0. change (16 + 0 + 0) with 16.
    set (n := len buf / 16).
    replace (16 * n) with (16 * N.of_nat (N.to_nat n)) by lia.
    set (k := 16 * N.of_nat (N.to_nat n)).
    assert (Hk : k <= len buf) by lia.
    rewrite dec_chunks_X by lia. fold k.
    rewrite dec_rem_X by (rewrite len_dropN; lia).
    unfold set_acc. cbn [g_iv g_pos g_h g_acc g_aad_bits g_cur g_enc].
    rewrite apply_keystream_tag by reflexivity.
    eexists. split; [apply f_equal2; [apply f_equal2; [reflexivity|]|] | reflexivity].
    - (* plaintext *)
      symmetry. apply xor_slice_split; lia.
    - (* tag *)
      unfold tag_of. do 2 f_equal.
      replace (be_bytes 8 (8 * len aad) ++ be_bytes 8 (8 * len buf))
        with (len_block (len aad * 8) (len buf))
        by (unfold len_block; f_equal; f_equal; lia).
      rewrite ghash_input_split by apply len_len_block. f_equal.
      cbn [blocks_of gh_from fold_left].
      rewrite <- (takeN_dropN k buf) at 3.
      assert (Hkm : len (takeN k buf) mod 16 = 0) by (rewrite len_takeN; lia).
      rewrite pad16_app by exact Hkm. rewrite blocks_of_app by exact Hkm.
      now rewrite gh_from_app.
  Qed.
End Incremental.


(* ====================================================================== *)
(* Main theorems                                                           *)
(* ====================================================================== *)

(* SP 800-38D section 5.2.1.1: len(P) <= 2^39 - 256 bits, i.e. 2^36 - 32 bytes.
   Up to this length the 32-bit counter of the specification does not wrap and
   the 128-bit counter of Ctr128BE does not carry into the nonce. *)
Definition gcm_max_bytes : N := 2 ^ 36 - 32.

Section Main.
  Variable E : bytes -> bytes.
  Variable gmul : N -> N -> N.
  Hypothesis HE : forall b, length b = 16%nat -> length (E b) = 16%nat.
  Variable nonce aad : bytes.
  Hypothesis Hnonce : length nonce = 12%nat.
  Hypothesis Hwf : wf_bytes nonce.

  (* enough key-stream blocks for the tag block and L bytes of data *)
  Let blocks_for (L : N) : nat := N.to_nat ((16 + L + 15) / 16).

  Local Lemma blocks_for_ok L : 16 + L <= 16 * N.of_nat (blocks_for L).
  Proof. unfold blocks_for. lia. Qed.

  Lemma spec_fst msg :
    len msg <= gcm_max_bytes ->
    fst (gcm_spec E gmul nonce aad msg)
    = xor_bytes msg (sliceN 16 (len msg) (KS E (nonce ++ [0; 0; 0; 1]) (blocks_for (len msg)))).
  Proof.
    intros HL. unfold gcm_spec. cbn [fst].
    rewrite (spec_keystream_KS E HE nonce Hnonce Hwf (blocks_for (len msg)));
      [reflexivity | exact HL | apply blocks_for_ok].
  Qed.

  Lemma spec_snd msg :
    snd (gcm_spec E gmul nonce aad msg)
    = tag_of E gmul nonce aad (fst (gcm_spec E gmul nonce aad msg)).
  Proof.
    unfold gcm_spec, tag_of, spec_ghash. cbn [fst snd].
    rewrite ctr128_block_ctr_block by (assumption || (cbv; reflexivity)).
    reflexivity.
  Qed.

  (* T1 *)
  Theorem gcm_incremental_oneshot (ps : list bytes) :
    len (concat ps) <= gcm_max_bytes ->
    let '(s, outs) := gcm_encrypt_pieces E gmul (gcm_new E gmul nonce aad) ps in
    concat outs = fst (gcm_spec E gmul nonce aad (concat ps))
    /\ gcm_into_tag E gmul s = snd (gcm_spec E gmul nonce aad (concat ps))
    /\ map (@length N) outs = map (@length N) ps.
  Proof.
    intros HL.
    destruct (gcm_encrypt_pieces_X E gmul HE nonce aad (blocks_for (len (concat ps))) ps
                (gcm_new E gmul nonce aad) [] (Inv_new E gmul nonce aad))
      as (s & outs & -> & Hcat & Hlens & HI).
    { change (len (@nil N)) with 0. rewrite N.add_0_r. apply blocks_for_ok. }
    change (16 + len (@nil N)) with 16 in Hcat. cbn [app] in HI.
    assert (Hfst : concat outs = fst (gcm_spec E gmul nonce aad (concat ps)))
      by (rewrite spec_fst by exact HL; exact Hcat).
    split; [exact Hfst|]. split; [|exact Hlens].
    rewrite spec_snd, <- Hfst. now apply gcm_into_tag_X.
  Qed.

  (* T2 *)
  Theorem gcm_decrypt_tag_encrypt (msg : bytes) :
    len msg <= gcm_max_bytes ->
    let '(ct, tag) := gcm_spec E gmul nonce aad msg in
    let '(s', pt, tag') := gcm_decrypt E gmul (gcm_new E gmul nonce aad) ct in
    pt = msg /\ tag' = tag /\ g_pos s' = 16.
  Proof.
    intros HL.
    pose proof (spec_fst msg HL) as Hfst. pose proof (spec_snd msg) as Hsnd.
    destruct (gcm_spec E gmul nonce aad msg) as [ct tag]. cbn [fst snd] in Hfst, Hsnd.
    set (M := blocks_for (len msg)) in *.
    pose proof (blocks_for_ok (len msg)) as HM. fold M in HM.
    assert (Hks : len (sliceN 16 (len msg) (KS E (nonce ++ [0; 0; 0; 1]) M)) = len msg)
      by (rewrite len_sliceN, (len_KS E HE); lia).
    assert (Hlct : len ct = len msg) by (rewrite Hfst, len_xor_bytes, Hks; lia).
    destruct (gcm_decrypt_X E gmul HE nonce aad M ct ltac:(lia)) as (s' & -> & Hpos).
    split; [|split; [now rewrite Hsnd | exact Hpos]].
    rewrite Hlct, Hfst. apply xor_bytes_cancel. rewrite Hks. lia.
  Qed.
End Main.

Check gcm_incremental_oneshot.
Print Assumptions gcm_incremental_oneshot.
Check gcm_decrypt_tag_encrypt.
Print Assumptions gcm_decrypt_tag_encrypt.
Check gcm_spec_concrete.
Print Assumptions gcm_spec_concrete.

(* ====================================================================== *)
(* The bound is the exact one: the first key-stream block past              *)
(* gcm_max_bytes bytes of data is where Ctr128BE (carry into the nonce)    *)
(* and inc32 (wrap to 0) part ways.                                        *)
(* ====================================================================== *)

Example ctr_last_agreeing_block :
  ctr128_block (tc_iv ++ [0; 0; 0; 1]) (2 ^ 32 - 2) = ctr_block tc_iv (2 ^ 32 - 1).
Proof. vm_compute. reflexivity. Qed.

(* data block number gcm_max_bytes / 16 is key-stream block 1 + gcm_max_bytes / 16 *)
Example ctr_first_diverging_block :
  let k := 1 + gcm_max_bytes / 16 in
  k = 2 ^ 32 - 1
  /\ ctr128_block (tc_iv ++ [0; 0; 0; 1]) k = hex_bytes "cafebabefacedbaddecaf88900000000"
  /\ ctr_block tc_iv (1 + k)                = hex_bytes "cafebabefacedbaddecaf88800000000".
Proof. vm_compute. repeat split; reflexivity. Qed.

(* ====================================================================== *)
(* The concrete instance: AES-256 and gf_mul                               *)
(* ====================================================================== *)

Lemma length_shift_rows s : length (shift_rows s) = length s.
Proof.
  unfold shift_rows.
  do 17 (destruct s as [|? s]; [reflexivity|]). reflexivity.
Qed.

Lemma length_mix_columns_16 s : length s = 16%nat -> length (mix_columns s) = 16%nat.
Proof.
  intros H. do 16 (destruct s as [|? s]; [discriminate|]).
  destruct s; [reflexivity | discriminate].
Qed.

Lemma length_aes_rounds rk : forall s,
  Forall (fun k => length k = 16%nat) rk -> length s = 16%nat ->
  length (aes_rounds rk s) = 16%nat.
Proof.
  induction rk as [|k rk IH]; intros s Hrk Hs; cbn [aes_rounds]; [exact Hs|].
  inversion Hrk as [|? ? Hk Hrk']; subst.
  assert (Hsr : length (shift_rows (sub_bytes s)) = 16%nat)
    by (rewrite length_shift_rows; unfold sub_bytes; now rewrite map_length).
  destruct rk as [|k' rk'].
  - rewrite length_xor_bytes, Hsr, Hk. reflexivity.
  - apply IH; [exact Hrk'|].
    rewrite length_xor_bytes, length_mix_columns_16, Hk by exact Hsr. reflexivity.
Qed.

(* a non-empty schedule of 16-byte round keys maps 16-byte blocks to 16-byte blocks *)
Lemma length_aes_encrypt_rk rk b :
  rk <> [] -> Forall (fun k => length k = 16%nat) rk -> length b = 16%nat ->
  length (aes_encrypt_rk rk b) = 16%nat.
Proof.
  intros Hne Hrk Hb. destruct rk as [|k0 rk]; [contradiction|].
  inversion Hrk as [|? ? Hk Hrk']; subst. cbn [aes_encrypt_rk].
  apply length_aes_rounds; [exact Hrk'|]. rewrite length_xor_bytes, Hb, Hk. reflexivity.
Qed.

(* the expanded key of a 32-byte key is such a schedule *)
Lemma length_word i c : (4 * i + 4 <= length c)%nat -> length (word i c) = 4%nat.
Proof. intros H. unfold word. rewrite firstn_length, skipn_length. lia. Qed.

Lemma length_rot_word w : length (rot_word w) = length w.
Proof. destruct w; cbn [rot_word length]; [reflexivity|]. rewrite app_length. cbn [length]. lia. Qed.

Lemma length_next_chunk rc c : length c = 32%nat -> length (next_chunk rc c) = 32%nat.
Proof.
  intros H. unfold next_chunk. cbv zeta.
  repeat (rewrite ?app_length, ?length_xor_bytes, ?length_rot_word; unfold sub_bytes;
          rewrite ?map_length).
  rewrite !length_word by lia. reflexivity.
Qed.

Lemma length_expand_chunks rcs : forall c,
  length c = 32%nat -> length (expand_chunks rcs c) = (32 * length rcs)%nat.
Proof.
  induction rcs as [|rc rcs IH]; intros c H; cbn [expand_chunks length]; [reflexivity|].
  rewrite app_length, IH, length_next_chunk by (try apply length_next_chunk; exact H). lia.
Qed.

Lemma chunks16_lengths n : forall b,
  (16 * n <= length b)%nat -> Forall (fun k => length k = 16%nat) (chunks16 n b).
Proof.
  induction n as [|n IH]; intros b H; cbn [chunks16]; constructor.
  - rewrite firstn_length. lia.
  - apply IH. rewrite skipn_length. lia.
Qed.

Lemma aes256_expand_ok key :
  length key = 32%nat ->
  aes256_expand key <> [] /\ Forall (fun k => length k = 16%nat) (aes256_expand key).
Proof.
  intros H. unfold aes256_expand. split.
  - cbn [chunks16]. discriminate.
  - apply chunks16_lengths. rewrite app_length, length_expand_chunks, H by exact H.
    cbn. lia.
Qed.

(* T1 + T3 at the concrete instance: the model of aesgcm.rs against GcmSpec.v *)
Corollary aesgcm_incremental_oneshot key nonce aad ps :
  length key = 32%nat -> length nonce = 12%nat -> wf_bytes nonce ->
  len (concat ps) <= gcm_max_bytes ->
  let '(outs, tag) := aesgcm_encrypt_incremental (aes256_expand key) nonce aad ps in
  (concat outs, tag) = GcmSpec.gcm_encrypt key nonce aad (concat ps)
  /\ map (@length N) outs = map (@length N) ps.
Proof.
  intros Hkey Hn Hwf HL. destruct (aes256_expand_ok key Hkey) as [Hne Hrk].
  unfold aesgcm_encrypt_incremental, gcm_encrypt_incremental, GcmSpec.gcm_encrypt, E_aes.
  rewrite <- gcm_spec_concrete.
  pose proof (gcm_incremental_oneshot (aes_encrypt_rk (aes256_expand key)) gf_mul
                (fun b => length_aes_encrypt_rk _ b Hne Hrk) nonce aad Hn Hwf ps HL) as H.
  destruct (gcm_encrypt_pieces _ _ _ ps) as [s outs].
  destruct H as (H1 & H2 & H3). split; [|exact H3].
  rewrite H1, H2. now destruct (gcm_spec _ _ nonce aad (concat ps)).
Qed.
Print Assumptions aesgcm_incremental_oneshot.

Corollary aesgcm_decrypt_tag_encrypt key nonce aad msg :
  length key = 32%nat -> length nonce = 12%nat -> wf_bytes nonce ->
  len msg <= gcm_max_bytes ->
  let rk := aes256_expand key in
  let '(ct, tag) := GcmSpec.gcm_encrypt key nonce aad msg in
  let '(_, pt, tag') := aesgcm_decrypt rk (aesgcm_new rk nonce aad) ct in
  pt = msg /\ tag' = tag.
Proof.
  intros Hkey Hn Hwf HL rk. destruct (aes256_expand_ok key Hkey) as [Hne Hrk].
  unfold GcmSpec.gcm_encrypt, aesgcm_decrypt, aesgcm_new, E_aes. fold rk.
  rewrite <- gcm_spec_concrete.
  pose proof (gcm_decrypt_tag_encrypt (aes_encrypt_rk rk) gf_mul
                (fun b => length_aes_encrypt_rk _ b Hne Hrk) nonce aad Hn Hwf msg HL) as H.
  destruct (gcm_spec _ _ nonce aad msg) as [ct tag].
  destruct (gcm_decrypt _ _ _ ct) as [[s' pt] tag'].
  destruct H as (H1 & H2 & _). now split.
Qed.
Print Assumptions aesgcm_decrypt_tag_encrypt.
