(* CliArchive.v — the commands of Cli.v on ARCHIVE BYTES made by `cmd_create`: composition of
   ArchiveProofs.archive_roundtrip_refines (= C01_archive_roundtrip with the refinement exposed),
   CliProofs (the per-file loops), LinearRoundTrip (C12) and PathBenign (C16).  Every statement is
   for any layer combination, any compressor with a left inverse, any recipients, any candidate
   key list holding one recipient's key, any cutting of the data between the layers. *)
From MLA Require Import Limit.
From MLA Require Import Base Stream Blocks Writer Reader RoundTripBlocks RoundTripWriter RoundTripReader RoundTrip
  CompLayer EncLayer Format Ecies Archive ArchiveProofs LinearRoundTripDefs LinearProofs LinearRoundTrip
  Path PathProofs PathBenign Tar Cli CliProofs.
From Coq Require Import ZifyBool ZifyNat ZifyN Permutation.
Open Scope N_scope.

Lemma filter_all_true {A} (f : A -> bool) l : (forall x, In x l -> f x = true) -> filter f l = l.
Proof.
  induction l as [|x l IH]; intros Hall; cbn [filter]; [reflexivity|].
  rewrite (Hall x (or_introl eq_refl)). f_equal. apply IH. intros y Hy. apply Hall. right. exact Hy.
Qed.

Section CliArchive.
  Variables CHUNK TAG CIPHERBUF BLOCK LIMIT FNMAX : N.
  Local Hint Extern 0 Limit => exact LIMIT : typeclass_instances.
  Variables TS TC TA TE : N.
  Variable H : bytes -> bytes.
  Variable order : footer -> footer.
  Variable pubk : bytes -> bytes.
  Variable dh : bytes -> bytes -> bytes.
  Variable kdf : bytes -> bytes.
  Variables wenc wdec wtag : bytes -> bytes -> bytes.
  Variable ksf : bytes -> bytes -> N -> N -> N.
  Variable tagf : bytes -> bytes -> N -> bytes -> bytes.
  Variable dec : bytes -> bytes.

  Hypothesis HCHUNK : 0 < CHUNK.
  Hypothesis HTAG : 0 < TAG.
  Hypothesis HCB : 0 < CIPHERBUF.
  Hypothesis HB : 0 < BLOCK.
  Hypothesis HB32 : BLOCK < 2 ^ 32.
  Hypothesis Htags : tags_distinct TS TC TA TE.
  Hypothesis HHlen : forall x, len (H x) = 32.
  Hypothesis Horder : forall f, Permutation (order f) f.
  Hypothesis wdec_wenc : forall k m, len m = 32 -> wdec k (wenc k m) = m.
  Hypothesis Hpubk : forall e, len (pubk e) = 32.
  Hypothesis Hwenc : forall k m, len m = 32 -> len (wenc k m) = 32.
  Hypothesis Hwtag : forall k c, len (wtag k c) = 16.

  Notation archive_write := (archive_write CHUNK CIPHERBUF BLOCK LIMIT FNMAX TS TC TA TE H order pubk dh kdf wenc wtag ksf tagf).
  Notation archive_open := (archive_open CHUNK TAG BLOCK LIMIT dh kdf wdec wtag ksf tagf dec).
  Notation stack_of := (stack_of CHUNK TAG BLOCK ksf tagf dec).
  Notation to_persistent := (to_persistent pubk dh kdf wenc wtag).
  Notation cli_open := (cli_open CHUNK TAG BLOCK LIMIT dh kdf wdec wtag ksf tagf dec).
  Notation cmd_create := (cmd_create CHUNK CIPHERBUF BLOCK LIMIT FNMAX TS TC TA TE H order pubk dh kdf wenc wtag ksf tagf).
  Notation cmd_list_a := (cmd_list_a CHUNK TAG BLOCK LIMIT dh kdf wdec wtag ksf tagf dec).
  Notation cmd_list_verbose_a := (cmd_list_verbose_a CHUNK TAG BLOCK LIMIT FNMAX TS TC TA TE dh kdf wdec wtag ksf tagf dec).
  Notation cmd_cat := (cmd_cat CHUNK TAG BLOCK LIMIT FNMAX TS TC TA TE dh kdf wdec wtag ksf tagf dec).
  Notation cmd_to_tar := (cmd_to_tar CHUNK TAG BLOCK LIMIT FNMAX TS TC TA TE dh kdf wdec wtag ksf tagf dec).
  Notation cmd_convert := (cmd_convert CHUNK TAG CIPHERBUF BLOCK LIMIT FNMAX TS TC TA TE H order pubk dh kdf wenc wdec wtag ksf tagf dec).
  Notation cmd_extract_linear := (cmd_extract_linear CHUNK TAG BLOCK LIMIT FNMAX TS TC TA TE dh kdf wdec wtag ksf tagf dec).
  Notation cmd_extract_listed := (cmd_extract_listed CHUNK TAG BLOCK LIMIT FNMAX TS TC TA TE dh kdf wdec wtag ksf tagf dec).

  Notation made_by_create := (made_by_create CHUNK TAG BLOCK LIMIT FNMAX TS TC TA TE H order pubk dh kdf wenc wtag ksf tagf dec).

  (* what every reading command starts from *)
  Definition opens_as (a : bytes) (privs : list bytes) (sf : wstate) : Prop :=
    exists p r (R : st (stack_of a p) -> N -> Prop),
      cli_open a privs = Ok (existT _ p r) /\ Refines (stack_of a p) (w_out sf) R /\ RS order sf (stack_of a p) R r.

  Lemma created_opens cfg ct cm files sf rs privs s : made_by_create cfg files sf rs privs s ->
    exists a, archive_write cfg ct cm (create_ops files) = Ok a /\
      read_header LIMIT a = Ok (to_persistent cfg, wire_of CHUNK BLOCK ksf tagf cfg (w_out sf)) /\
      (TagCollision pubk dh kdf wenc wtag (wc_eph cfg) (wc_key cfg) (wc_recipients cfg) privs \/ opens_as a privs sf).
  Proof.
    intros [Hrun Hok Hutf H64 H32 Hc He Hnk Hlim Hsz].
    destruct (archive_roundtrip_refines CHUNK TAG CIPHERBUF BLOCK LIMIT FNMAX TS TC TA TE H order pubk dh kdf wenc wdec wtag
                ksf tagf dec HCHUNK HTAG HCB HB HB32 HHlen Horder wdec_wenc Hpubk Hwenc Hwtag cfg ct cm (create_ops files) sf rs privs s
                Hrun Hok (create_ops_utf8 files Hutf) H64 H32 Hc He Hlim Hsz) as (a & Hw & Hh & Hopen).
    exists a. split; [exact Hw|]. split; [exact Hh|].
    destruct Hopen as [Ht|(p & r & R & Ho & _ & _ & HR & HRS)]; [left; exact Ht|right].
    exists p, r, R. split; [|split; [exact HR|exact HRS]].
    unfold Cli.cli_open. rewrite Hh. cbn [bind fst]. unfold Archive.to_persistent at 1. cbn [h_layers].
    destruct (has_bit_layers cfg) as [-> _].
    destruct (wc_encrypt cfg) eqn:Ee.
    - rewrite andb_false_r. exact Ho.
    - rewrite (Hnk eq_refl). cbn [key_given andb]. rewrite (Hnk eq_refl) in Ho. exact Ho.
  Qed.

  Section Made.
    Variables (cfg : wconfig) (ct cm : list N) (files : list (bytes * bytes)) (sf : wstate) (rs : list (res N))
              (privs : list bytes) (s : bytes).
    Hypothesis Hmade : made_by_create cfg files sf rs privs s.
    Variables zf fuel : nat.
    Hypothesis Hfuel : forall n d, In (n, d) files -> (length d < fuel)%nat.

    Notation TC_ := (TagCollision pubk dh kdf wenc wtag (wc_eph cfg) (wc_key cfg) (wc_recipients cfg) privs).

    (* ---- each command at an archive that opens (any archive bytes a with that property) ---- *)
    Section AtOpen.
      Variable a : bytes.
      Hypothesis Hopen : opens_as a privs sf.

      Lemma list_at : cmd_list_a a privs = mkCR true OUntouched (flat_map (fun n => n ++ [NL]) (sort_names (map fst files))).
      Proof.
        destruct Hopen as (p & r & R & Ho & HR & HRS).
        destruct Hmade as [Hrun Hok Hutf H64 H32 _ _ _ _ _]. pose proof (create_ops_utf8 files Hutf) as Hutf'.
        unfold Cli.cmd_list_a. rewrite Ho.
        exact (cmd_list_spec FNMAX TS TC TA TE H order HHlen Horder _ sf rs Hrun Hok Hutf' H64 H32 _ R files eq_refl r HRS).
      Qed.

      Lemma list_verbose_at :
        cmd_list_verbose_a a privs = (map (fun f => (fst f, len (snd f), H (snd f))) (sorted_files files), true).
      Proof.
        destruct Hopen as (p & r & R & Ho & HR & HRS).
        destruct Hmade as [Hrun Hok Hutf H64 H32 _ _ _ _ _]. pose proof (create_ops_utf8 files Hutf) as Hutf'.
        unfold Cli.cmd_list_verbose_a. rewrite Ho.
        exact (cmd_list_verbose_spec FNMAX TS TC TA TE H order Htags HHlen Horder _ sf rs Hrun Hok Hutf' H64 H32 _ R HR files eq_refl r HRS).
      Qed.

      Lemma cat_at to_file names :
        cmd_cat to_file zf fuel a privs names =
          let d := concat (map (lookup_file files) names) in
          if to_file then mkCR true (OWritten d) [] else mkCR true OUntouched d.
      Proof.
        destruct Hopen as (p & r & R & Ho & HR & HRS).
        destruct Hmade as [Hrun Hok Hutf H64 H32 _ _ _ _ _]. pose proof (create_ops_utf8 files Hutf) as Hutf'.
        unfold Cli.cmd_cat. rewrite Ho.
        rewrite (cat_loop_spec FNMAX TS TC TA TE H order Htags HHlen Horder _ sf rs Hrun Hok Hutf' H64 H32 _ R HR files eq_refl zf fuel Hfuel names r [] HRS).
        reflexivity.
      Qed.

      Lemma to_tar_at : cmd_to_tar zf fuel a privs = mkCR true (OWritten (tar_of (sorted_files files))) [].
      Proof.
        destruct Hopen as (p & r & R & Ho & HR & HRS).
        destruct Hmade as [Hrun Hok Hutf H64 H32 _ _ _ _ _]. pose proof (create_ops_utf8 files Hutf) as Hutf'.
        unfold Cli.cmd_to_tar. rewrite Ho.
        rewrite (cmd_to_tar_spec FNMAX TS TC TA TE H order Htags HHlen Horder _ sf rs Hrun Hok Hutf' H64 H32 _ R HR files eq_refl zf fuel Hfuel r HRS).
        reflexivity.
      Qed.

      Lemma convert_at cfg' ct' cm' : cmd_convert zf fuel a privs cfg' ct' cm' = cmd_create cfg' ct' cm' (sorted_files files).
      Proof.
        destruct Hopen as (p & r & R & Ho & HR & HRS).
        destruct Hmade as [Hrun Hok Hutf H64 H32 _ _ _ _ _]. pose proof (create_ops_utf8 files Hutf) as Hutf'.
        unfold Cli.cmd_convert, Cli.cmd_create. rewrite Ho.
        rewrite (convert_ops_sorted FNMAX TS TC TA TE H order Htags HHlen Horder _ sf rs Hrun Hok Hutf' H64 H32 _ R HR files eq_refl zf fuel Hfuel r HRS).
        reflexivity.
      Qed.

      Lemma names_nodup_at : NoDup (map fst files).
      Proof.
        destruct Hopen as (p & r & R & Ho & HR & HRS).
        destruct Hmade as [Hrun Hok Hutf H64 H32 _ _ _ _ _]. pose proof (create_ops_utf8 files Hutf) as Hutf'.
        exact (names_nodup FNMAX TS TC TA TE H order HHlen Horder _ sf rs Hrun Hok Hutf' H64 H32 _ R files eq_refl r HRS).
      Qed.

      Lemma extract_listed_at wanted out f : (forall n, In n (map fst files) -> name_in wanted n = true) ->
        cmd_extract_listed zf fuel a privs wanted out f = extract_all out (sorted_files files) f.
      Proof.
        intros Hall. destruct Hopen as (p & r & R & Ho & HR & HRS).
        destruct Hmade as [Hrun Hok Hutf H64 H32 _ _ _ _ _]. pose proof (create_ops_utf8 files Hutf) as Hutf'.
        unfold Cli.cmd_extract_listed. rewrite Ho.
        rewrite (listed_sorted FNMAX TS TC TA TE H order HHlen Horder _ sf rs Hrun Hok Hutf' H64 H32 _ R files eq_refl r HRS).
        assert (Hfil : filter (fun n => name_in wanted n) (sort_names (map fst files)) = sort_names (map fst files)).
        { apply filter_all_true. intros n Hn. apply Hall. eapply Permutation_in; [apply sort_names_perm|exact Hn]. }
        rewrite Hfil.
        rewrite <- (listed_sorted FNMAX TS TC TA TE H order HHlen Horder _ sf rs Hrun Hok Hutf' H64 H32 _ R files eq_refl r HRS).
        rewrite (members_of_sorted FNMAX TS TC TA TE H order Htags HHlen Horder _ sf rs Hrun Hok Hutf' H64 H32 _ R HR files eq_refl zf fuel Hfuel r HRS).
        reflexivity.
      Qed.

      Lemma extract_linear_at lfuel out f : (N.to_nat (len (w_out sf)) < lfuel)%nat ->
        exists blocks, cmd_extract_linear lfuel a privs out f = extract_linear out (sort_names (map fst files)) blocks f /\
                 forall n d, In (n, d) files ->
                   delivered n blocks = if name_in (accepted_names out (sort_names (map fst files)) f) n then d else [].
      Proof.
        intros Hlf. destruct Hopen as (p & r & R & Ho & HR & HRS).
        destruct Hmade as [Hrun Hok Hutf H64 H32 _ _ _ _ _]. pose proof (create_ops_utf8 files Hutf) as Hutf'.
        pose proof (listed_sorted FNMAX TS TC TA TE H order HHlen Horder _ sf rs Hrun Hok Hutf' H64 H32 _ R files eq_refl r HRS) as Hls.
        destruct (linear_roundtrip FNMAX TS TC TA TE H order Htags HHlen _ sf rs Hrun Hok Hutf' H64 H32 _ R HR r
                    (accepted_names out (sort_names (map fst files)) f) lfuel HRS Hlf) as (blocks & Hlx & _ & Hdel & _).
        exists blocks. split.
        - unfold Cli.cmd_extract_linear. rewrite Ho, Hls, Hlx. reflexivity.
        - intros n d Hin. destruct (create_started_pieces files 0 n d Hin) as (id & Hst & Hp).
          rewrite (Hdel n id Hst), Hp. reflexivity.
      Qed.
    End AtOpen.

    (* ---- the created archive ---- *)
    Theorem created_archive :
      exists a, cmd_create cfg ct cm files = mkCR true (OWritten a) [] /\
                archive_write cfg ct cm (create_ops files) = Ok a /\ (TC_ \/ opens_as a privs sf).
    Proof.
      destruct (created_opens cfg ct cm files sf rs privs s Hmade) as (a & Hw & _ & Ho).
      exists a. split; [unfold Cli.cmd_create; rewrite Hw; reflexivity|]. split; [exact Hw | exact Ho].
    Qed.

    Theorem create_lists_given_paths :
      exists a, cmd_create cfg ct cm files = mkCR true (OWritten a) [] /\
        (TC_ \/ cmd_list_a a privs = mkCR true OUntouched (flat_map (fun n => n ++ [NL]) (sort_names (map fst files)))).
    Proof.
      destruct created_archive as (a & Hc & _ & Ho). exists a. split; [exact Hc|].
      destruct Ho as [Ht|Ho]; [left; exact Ht | right; exact (list_at a Ho)].
    Qed.

    Theorem list_verbose_true :
      exists a, cmd_create cfg ct cm files = mkCR true (OWritten a) [] /\
        (TC_ \/ cmd_list_verbose_a a privs = (map (fun f => (fst f, len (snd f), H (snd f))) (sorted_files files), true)).
    Proof.
      destruct created_archive as (a & Hc & _ & Ho). exists a. split; [exact Hc|].
      destruct Ho as [Ht|Ho]; [left; exact Ht | right; exact (list_verbose_at a Ho)].
    Qed.

    (* cat of ANY argument list: the bytes of the files named, in argument order; a name the
       archive lacks adds nothing and the exit status is still 0 *)
    Theorem cat_returns_bytes :
      exists a, cmd_create cfg ct cm files = mkCR true (OWritten a) [] /\
        (TC_ \/ forall to_file names, cmd_cat to_file zf fuel a privs names =
                let d := concat (map (lookup_file files) names) in
                if to_file then mkCR true (OWritten d) [] else mkCR true OUntouched d).
    Proof.
      destruct created_archive as (a & Hc & _ & Ho). exists a. split; [exact Hc|].
      destruct Ho as [Ht|Ho]; [left; exact Ht | right; intros; exact (cat_at a Ho _ _)].
    Qed.

    Theorem to_tar_is_tar_of :
      exists a, cmd_create cfg ct cm files = mkCR true (OWritten a) [] /\
        (TC_ \/ cmd_to_tar zf fuel a privs = mkCR true (OWritten (tar_of (sorted_files files))) []).
    Proof.
      destruct created_archive as (a & Hc & _ & Ho). exists a. split; [exact Hc|].
      destruct Ho as [Ht|Ho]; [left; exact Ht | right; exact (to_tar_at a Ho)].
    Qed.

    (* convert to ANY configuration is create of the same files, in name order, with that
       configuration: same output effect, same exit status *)
    Theorem convert_is_create :
      exists a, cmd_create cfg ct cm files = mkCR true (OWritten a) [] /\
        (TC_ \/ forall cfg' ct' cm', cmd_convert zf fuel a privs cfg' ct' cm' = cmd_create cfg' ct' cm' (sorted_files files)).
    Proof.
      destruct created_archive as (a & Hc & _ & Ho). exists a. split; [exact Hc|].
      destruct Ho as [Ht|Ho]; [left; exact Ht | right; intros; exact (convert_at a Ho _ _ _)].
    Qed.
    (* "cat of a name that does not exist": nothing is written, a message goes to stderr, and the
       exit status is 0 (Tie A: Src.CLI_cat_missing_name_continues) *)
    Theorem cat_missing_name_exit0 n : ~ In n (map fst files) ->
      exists a, cmd_create cfg ct cm files = mkCR true (OWritten a) [] /\
        (TC_ \/ cmd_cat false zf fuel a privs [n] = mkCR true OUntouched []).
    Proof.
      intros Hni. destruct created_archive as (a & Hc & _ & Ho). exists a. split; [exact Hc|].
      destruct Ho as [Ht|Ho]; [left; exact Ht | right].
      rewrite (cat_at a Ho false [n]). cbn [map concat]. rewrite (lookup_file_notin files n Hni). reflexivity.
    Qed.
  End Made.

  (* ---------- a failing open: what exists on the output side ---------- *)
  Notation open_fails := (open_fails CHUNK TAG BLOCK LIMIT dh kdf wdec wtag ksf tagf dec).

  Theorem failed_open_leaves_no_output a privs : open_fails a privs ->
    (forall zf fuel, cmd_to_tar zf fuel a privs = mkCR false OUntouched []) /\
    (forall zf fuel cfg' ct' cm', cmd_convert zf fuel a privs cfg' ct' cm' = mkCR false OUntouched []) /\
    (forall lfuel out f, cmd_extract_linear lfuel a privs out f = (f, false)) /\
    (forall zf fuel wanted out f, cmd_extract_listed zf fuel a privs wanted out f = (f, false)) /\
    cmd_list_a a privs = mkCR false OUntouched [] /\
    cmd_list_verbose_a a privs = ([], false) /\
    (* cat: the destination was created (truncated) before the open — empty, no content *)
    (forall zf fuel names, cmd_cat true zf fuel a privs names = mkCR false (OWritten []) []) /\
    (forall zf fuel names, cmd_cat false zf fuel a privs names = mkCR false OUntouched []).
  Proof.
    intros Hf. unfold Cli.cmd_to_tar, Cli.cmd_convert, Cli.cmd_extract_linear, Cli.cmd_extract_listed, Cli.cmd_list_a,
      Cli.cmd_list_verbose_a, Cli.cmd_cat.
    destruct (cli_open a privs) as [x|e|c] eqn:E; [exfalso; exact (Hf x E)| |]; repeat split; reflexivity.
  Qed.

  (* when does it fail, for an archive made by create: a key for an archive without encryption *)
  Theorem key_for_unencrypted_fails cfg ct cm files sf rs s privs :
    made_by_create cfg files sf rs [] s -> wc_encrypt cfg = false -> privs <> [] ->
    exists a, archive_write cfg ct cm (create_ops files) = Ok a /\ open_fails a privs.
  Proof.
    intros Hm He Hp. destruct (created_opens cfg ct cm files sf rs [] s Hm) as (a & Hw & Hh & _).
    exists a. split; [exact Hw|]. intros x. unfold Cli.cli_open. rewrite Hh. cbn [bind fst].
    unfold Archive.to_persistent at 1. cbn [h_layers]. destruct (has_bit_layers cfg) as [-> _]. rewrite He.
    destruct privs; [contradiction|]. cbn [key_given andb negb]. discriminate.
  Qed.

  (* no key for an encrypted archive *)
  Theorem missing_key_fails cfg ct cm files sf rs s privs0 :
    made_by_create cfg files sf rs privs0 s -> wc_encrypt cfg = true ->
    exists a, archive_write cfg ct cm (create_ops files) = Ok a /\ open_fails a [].
  Proof.
    intros Hm He. destruct (created_opens cfg ct cm files sf rs privs0 s Hm) as (a & Hw & Hh & _).
    exists a. split; [exact Hw|]. intros x. unfold Cli.cli_open. rewrite Hh. cbn [bind fst key_given andb].
    unfold Archive.archive_open. rewrite Hh. cbn [bind]. cbv iota beta.
    unfold load_config, Archive.to_persistent. cbn [h_layers h_enc]. destruct (has_bit_layers cfg) as [-> _]. rewrite He.
    cbn [bind]. discriminate.
  Qed.

  (* a wrong key: no candidate derives the wrapping key of any recipient — or a tag collision *)
  Theorem wrong_key_fails cfg ct cm files sf rs s privs0 privs :
    made_by_create cfg files sf rs privs0 s -> wc_encrypt cfg = true ->
    load_persistent dh kdf wdec wtag
      (store_key pubk dh kdf wenc wtag (wc_recipients cfg) (wc_key cfg) (wc_eph cfg)) privs = None ->
    exists a, archive_write cfg ct cm (create_ops files) = Ok a /\ open_fails a privs.
  Proof.
    intros Hm He Hl. destruct (created_opens cfg ct cm files sf rs privs0 s Hm) as (a & Hw & Hh & _).
    exists a. split; [exact Hw|]. intros x. unfold Cli.cli_open. rewrite Hh. cbn [bind fst].
    unfold Archive.to_persistent at 1. cbn [h_layers]. destruct (has_bit_layers cfg) as [E1 _]. rewrite E1, He.
    rewrite andb_false_r.
    unfold Archive.archive_open. rewrite Hh. cbn [bind]. cbv iota beta.
    unfold load_config, Archive.to_persistent. cbn [h_layers h_enc]. rewrite E1, He.
    destruct privs as [|k privs']; [cbn [bind]; discriminate|].
    cbn [eh_public eh_keys].
    change (mkMulti (m_public (store_key pubk dh kdf wenc wtag (wc_recipients cfg) (wc_key cfg) (wc_eph cfg)))
                    (m_keys (store_key pubk dh kdf wenc wtag (wc_recipients cfg) (wc_key cfg) (wc_eph cfg))))
      with (store_key pubk dh kdf wenc wtag (wc_recipients cfg) (wc_key cfg) (wc_eph cfg)).
    rewrite Hl. cbn [bind]. discriminate.
  Qed.
End CliArchive.
