(* CliInfoProofs.v — `mlar info` on an archive made by `create` (premises of Cli.made_by_create):
   what it prints and its exit status, for every layer combination; when it needs a key; the crash
   sites of `info` that a crafted archive reaches (witnesses).  Built on ArchiveProofs (the shape
   of the archive, the opened stack), RoundTrip (the footer), CliProofs (the sizes get_file reports). *)
From MLA Require Import Limit.
From MLA Require Import Base Stream Blocks Writer Reader RoundTripBlocks RoundTripWriter RoundTripReader RoundTrip
  CompLayer CompLayerProofs EncLayer RawLayer RawLayerProofs LayerStack Format Ecies Archive ArchiveProofs
  Cli CliProofs CliArchive CliInfo CliInfoStack.
From Coq Require Import ZifyBool ZifyNat ZifyN Permutation.
Open Scope N_scope.

(* ---------- sums ---------- *)
Lemma total_cons x l : total (x :: l) = x + total l. Proof. reflexivity. Qed.

Lemma total_map_len_concat (cbs : list bytes) : total (map (@len N) cbs) = len (concat cbs).
Proof. induction cbs as [|c cbs IH]; [reflexivity|]. cbn [map concat]. rewrite total_cons, len_app, IH. reflexivity. Qed.

Lemma total_perm l l' : Permutation l l' -> total l = total l'.
Proof. induction 1 as [|x l l' _ IH|x y l|l l' l'' _ IH1 _ IH2]; rewrite ?total_cons in *; lia. Qed.

Lemma total_bound (B : N) l : Forall (fun x => x < B) l -> total l <= B * len l.
Proof.
  induction 1 as [|x l Hx _ IH]; [cbn; lia|]. rewrite total_cons, len_cons, N.mul_add_distr_l. lia.
Qed.

(* the text `info` prints when nothing fails *)
Definition info_text (verbose enc : bool) (nrecipients : N) (cmp : bool) (files_size comp_size : N) : bytes :=
  line_version ++ line_enc enc ++ (if enc && verbose then line_recipients nrecipients else [])
  ++ line_comp cmp ++ (if cmp && verbose then line_rate files_size comp_size else []).

(* get_file reports the size field of the footer entry *)
Lemma get_file_size_lookup FNMAX TS TC TA TE S (r r' : Reader.rstate S) n bs sz :
  get_file FNMAX TS TC TA TE S r n = (r', Ok (Some (bs, sz))) ->
  exists fi, flookup (r_meta r) n = Some fi /\ Blocks.fi_size fi = sz.
Proof.
  unfold Reader.get_file. destruct (flookup (r_meta r) n) as [fi|]; [|discriminate].
  intros Hg. exists fi. split; [reflexivity|].
  destruct (Blocks.fi_offsets fi) as [|o0 offs]; [discriminate|].
  destruct (sk S (r_src r) (FromStart o0)) as [s1 [q|e|c]]; try discriminate.
  destruct (parse_block FNMAX TS TC TA TE S s1) as [s2 [[]|e|c]]; try discriminate.
  injection Hg as _ _ Hsz. exact Hsz.
Qed.

Section CliInfoProofs.
  Variables CHUNK TAG CIPHERBUF BLOCK LIMIT FNMAX : N.
  Local Hint Extern 0 Limit => exact LIMIT : typeclass_instances.
  Variables TS TC TA TE : N.
  Variable H : bytes -> bytes.
  Variable order : footer -> footer.
  Variable pubk : bytes -> bytes.
  Variable dh : bytes -> bytes -> bytes.
  Variable kdf : bytes -> bytes.
  Variables wenc wdec wtag : bytes -> bytes -> bytes.
  Variable ksf : bytes -> bytes -> N -> N -> N.
  Variable tagf : bytes -> bytes -> N -> bytes -> bytes.
  Variable dec : bytes -> bytes.
  Variable ovf : bool.

  Hypothesis HCHUNK : 0 < CHUNK.
  Hypothesis HTAG : 0 < TAG.
  Hypothesis HCB : 0 < CIPHERBUF.
  Hypothesis HB : 0 < BLOCK.
  Hypothesis HB32 : BLOCK < 2 ^ 32.
  Hypothesis Htags : tags_distinct TS TC TA TE.
  Hypothesis HHlen : forall x, len (H x) = 32.
  Hypothesis Horder : forall f, Permutation (order f) f.
  Hypothesis wdec_wenc : forall k m, len m = 32 -> wdec k (wenc k m) = m.
  Hypothesis Hpubk : forall e, len (pubk e) = 32.
  Hypothesis Hwenc : forall k m, len m = 32 -> len (wenc k m) = 32.
  Hypothesis Hwtag : forall k c, len (wtag k c) = 16.

  Notation archive_write := (archive_write CHUNK CIPHERBUF BLOCK LIMIT FNMAX TS TC TA TE H order pubk dh kdf wenc wtag ksf tagf).
  Notation to_persistent := (to_persistent pubk dh kdf wenc wtag).
  Notation StackS := (StackS CHUNK TAG BLOCK ksf tagf dec).
  Notation open_stack := (open_stack CHUNK TAG BLOCK LIMIT ksf tagf dec).
  Notation load_config := (load_config dh kdf wdec wtag).
  Notation wire_of := (wire_of CHUNK BLOCK ksf tagf).
  Notation top_sizes := (top_sizes CHUNK TAG BLOCK ksf tagf dec).
  Notation info_from_config := (info_from_config CHUNK TAG BLOCK LIMIT dh kdf wdec wtag ksf tagf dec ovf).
  Notation cmd_info := (cmd_info CHUNK TAG BLOCK LIMIT dh kdf wdec wtag ksf tagf dec ovf).
  Notation cmd_create := (cmd_create CHUNK CIPHERBUF BLOCK LIMIT FNMAX TS TC TA TE H order pubk dh kdf wenc wtag ksf tagf).
  Notation made_by_create := (made_by_create CHUNK TAG BLOCK LIMIT FNMAX TS TC TA TE H order pubk dh kdf wenc wtag ksf tagf dec).
  Notation TC_ cfg privs := (TagCollision pubk dh kdf wenc wtag (wc_eph cfg) (wc_key cfg) (wc_recipients cfg) privs).

  (* the compressed blocks of the block stream: what the compression writer put below it *)
  Definition cblocks_of (cfg : wconfig) (blocks : bytes) : list bytes :=
    cblocks BLOCK (wc_comp cfg) blocks (nblocks BLOCK (len blocks)).

  (* ---------- the size table the opened compression reader holds ---------- *)
  Lemma stack_opens_si cfg hdr blocks :
    let a := hdr ++ wire_of cfg blocks in
    let k := wc_key cfg in let n := wc_nonce cfg in
    len a < 2 ^ 64 -> wc_compress cfg = true ->
    (forall x, dec (wc_comp cfg x) = x) ->
    (forall j, j < nblocks BLOCK (len blocks) -> len (wc_comp cfg (block_at BLOCK blocks j)) < 2 ^ 32) ->
    12 + 4 * nblocks BLOCK (len blocks) <= LIMIT -> 12 + 4 * nblocks BLOCK (len blocks) < 2 ^ 32 ->
    len blocks < 2 ^ 63 ->
    (wc_encrypt cfg = true ->
       (forall i c, len (tagf k n i c) = TAG) /\ (nfull CHUNK (len (mid_of BLOCK cfg blocks)) + 2 < 2 ^ 32 /\ CHUNK + TAG <= 2 ^ 31)) ->
    exists s, open_stack a (wc_encrypt cfg) (wc_compress cfg) k n (len hdr) = Ok s /\
      exists last, top_sizes a (wc_encrypt cfg) (wc_compress cfg) k n s = Some (mkSI (map (@len N) (cblocks_of cfg blocks)) last).
  Proof.
    intros a k n. subst a k n. cbv beta. intros Hlen Ec Hdec Hcs Hl1 Hl2 HL He.
    unfold cblocks_of, Archive.wire_of, Archive.mid_of in *.
    set (k := wc_key cfg) in *. set (n := wc_nonce cfg) in *.
    set (ks := ksf k n) in *. set (tagc := tagf k n) in *.
    rewrite Ec in *. destruct (wc_encrypt cfg) eqn:Ee; cbv iota in *.
    - destruct (He eq_refl) as [Htagc He']. clear He. rename He' into He.
      set (comp := wc_comp cfg) in *.
      pose proof (nblocks_ok BLOCK (len blocks) HB) as Hnb.
      set (a := hdr ++ enc_format CHUNK ks tagc (comp_format BLOCK comp blocks)) in *.
      pose proof (cursor_refines a) as HC.
      destruct (stack_open CHUNK TAG BLOCK LIMIT HCHUNK HTAG (proj2 He) HB HB32 ks tagc Htagc comp dec Hdec hdr blocks _
                  Hnb Hcs (conj Hl1 Hl2) HL (proj1 He) Hlen (Cursor a) _ HC (len hdr))
        as (r & c & Hro & Hco & HRc).
      { split; [reflexivity|]. unfold a. rewrite len_app. lia. }
      exists c. split.
      + unfold Archive.open_stack. rewrite Hro. cbn [lift bind].
        exact (f_equal (@lift _ _) Hco).
      + destruct HRc as [Hsi _]. eexists. exact Hsi.
    - set (comp := wc_comp cfg) in *.
      set (a := hdr ++ comp_format BLOCK comp blocks) in *.
      pose proof (cursor_refines a) as HC.
      pose proof (raw_reader_refines (Cursor a) hdr _ _ HC Hlen) as HRaw.
      destruct (raw_open_spec (Cursor a) hdr _ _ HC Hlen (len hdr)) as (r & Hro & HRr).
      { split; [reflexivity|]. unfold a. rewrite len_app. lia. }
      destruct (ref_sk _ _ _ HRaw r 0 (FromCur 0) 0 HRr) as (r1 & Hsk & HRr1).
      { unfold target. cbn. destruct (0 <=? Z.of_N (len (comp_format BLOCK comp blocks)))%Z eqn:E; [reflexivity | lia]. }
      destruct (comp_open_spec BLOCK LIMIT HB HB32 comp dec Hdec _ blocks Hcs (conj Hl1 Hl2) HL _ HRaw
                  (raw_initialize (Cursor a)) r r1 r1 Hsk eq_refl (ex_intro _ 0 HRr1)) as (c & Hco & HRc).
      exists c. split.
      + unfold Archive.open_stack. rewrite Hro. cbn [lift bind].
        exact (f_equal (@lift _ _) Hco).
      + destruct HRc as [Hsi _]. eexists. exact Hsi.
  Qed.

  (* the table sums to the length of the compressed blocks, far below 2^64 *)
  Lemma csize_total cfg blocks ovf' :
    (forall j, j < nblocks BLOCK (len blocks) -> len (wc_comp cfg (block_at BLOCK blocks j)) < 2 ^ 32) ->
    12 + 4 * nblocks BLOCK (len blocks) < 2 ^ 32 ->
    forall last, get_compressed_size ovf' (mkSI (map (@len N) (cblocks_of cfg blocks)) last) = Ok (len (concat (cblocks_of cfg blocks))).
  Proof.
    intros Hcs Hl2 last. unfold get_compressed_size, cblocks_of. cbn [si_sizes].
    rewrite sum_u64_small; [rewrite total_map_len_concat; reflexivity|].
    pose proof (cblocks_small BLOCK (wc_comp cfg) blocks (nblocks BLOCK (len blocks)) Hcs) as Hsm.
    assert (Hf : Forall (fun x => x < 2 ^ 32) (map (@len N) (cblocks BLOCK (wc_comp cfg) blocks (nblocks BLOCK (len blocks))))).
    { apply Forall_forall. intros x Hx. apply in_map_iff in Hx. destruct Hx as (cb & <- & Hcb).
      rewrite Forall_forall in Hsm. exact (Hsm cb Hcb). }
    pose proof (total_bound _ _ Hf) as Hb. rewrite len_map, len_cblocks in Hb. lia.
  Qed.

  Lemma top_sizes_nocomp a e c k n (s : st (StackS a e c k n)) : c = false -> top_sizes a e c k n s = None.
  Proof. intros Hc. subst c. destruct e; reflexivity. Qed.

  Section Made.
    Variables (cfg : wconfig) (ct cm : list N) (files : list (bytes * bytes)) (sf : wstate) (rs : list (res N))
              (privs : list bytes) (s : bytes).
    Hypothesis Hmade : made_by_create cfg files sf rs privs s.

    Definition files_total : N := total (map (fun f => len (snd f)) files).
    (* the sizes are u64 fields of one footer: their sum is the number of content bytes of the archive *)
    Hypothesis Hsum : files_total < 2 ^ 64.

    Let hp := to_persistent cfg.
    Let a0 := ser_header hp ++ wire_of cfg (w_out sf).

    (* the archive create writes *)
    Lemma created_bytes : archive_write cfg ct cm (create_ops files) = Ok a0 /\ cmd_create cfg ct cm files = mkCR true (OWritten a0) [].
    Proof.
      destruct (created_opens CHUNK TAG CIPHERBUF BLOCK LIMIT FNMAX TS TC TA TE H order pubk dh kdf wenc wdec wtag ksf tagf dec
                  HCHUNK HTAG HCB HB HB32 HHlen Horder wdec_wenc Hpubk Hwenc Hwtag cfg ct cm files sf rs privs s Hmade) as (a & Hw & _ & _).
      assert (Ha : a = a0).
      { destruct Hmade as [Hrun Hok Hutf H64 H32 Hc He Hnk Hlim Hsz].
        revert Hw. unfold Archive.archive_write.
        destruct (wc_encrypt cfg && match wc_recipients cfg with [] => true | _ => false end); [discriminate|].
        unfold dump_header. fold hp. destruct (LIMIT <? config_size hp); [discriminate|]. cbn [bind].
        rewrite Hrun. destruct (first_bad rs); cbn [bind]; try discriminate.
        rewrite (lower_write_ok CHUNK TAG CIPHERBUF BLOCK LIMIT FNMAX H pubk dh kdf wenc wdec wtag ksf tagf dec
                   HCHUNK HTAG HCB HB HB32 HHlen wdec_wenc Hpubk Hwenc Hwtag cfg ct cm (w_out sf)).
        - cbn [bind]. intros Hx. injection Hx as <-. reflexivity.
        - intros Ec. destruct (Hc Ec) as (_ & _ & _ & Hx & _). exact Hx.
        - intros Ee. destruct (He Ee) as (_ & _ & _ & Hx & _). exact (proj1 Hx).
        - intros Ec. destruct (Hc Ec) as (_ & _ & Hx & _). exact Hx. }
      subst a. split; [exact Hw|]. unfold Cli.cmd_create. rewrite Hw. reflexivity.
    Qed.

    Lemma created_header : read_header LIMIT a0 = Ok (hp, wire_of cfg (w_out sf)).
    Proof.
      destruct (created_opens CHUNK TAG CIPHERBUF BLOCK LIMIT FNMAX TS TC TA TE H order pubk dh kdf wenc wdec wtag ksf tagf dec
                  HCHUNK HTAG HCB HB HB32 HHlen Horder wdec_wenc Hpubk Hwenc Hwtag cfg ct cm files sf rs privs s Hmade) as (a & Hw & Hh & _).
      destruct created_bytes as [Hw0 _]. rewrite Hw0 in Hw. injection Hw as <-. exact Hh.
    Qed.

    (* the footer's sizes sum to the sizes of the input files *)
    Lemma files_sizes_total S (R : st S -> N -> Prop) (r : Reader.rstate S) :
      Refines S (w_out sf) R -> RS order sf S R r -> total (files_sizes (r_meta r)) = files_total.
    Proof.
      intros HR HRS. destruct Hmade as [Hrun Hok Hutf H64 H32 _ _ _ _ _]. pose proof (create_ops_utf8 files Hutf) as Hutf'.
      pose proof (names_nodup FNMAX TS TC TA TE H order HHlen Horder _ sf rs Hrun Hok Hutf' H64 H32 S R files eq_refl r HRS) as Hnd.
      destruct (rt_list FNMAX TS TC TA TE H order HHlen Horder _ sf rs Hrun Hok Hutf' H64 H32 S R r HRS) as [HP _].
      rewrite started_create in HP. unfold Reader.list_files in HP.
      assert (Hmap : files_sizes (r_meta r) = map (fun n => len (lookup_file files n)) (dedup_names (r_meta r) [])).
      { unfold files_sizes. apply map_ext_in. intros n Hn.
        assert (Hin : In n (map fst files)) by (eapply Permutation_in; [exact HP | exact Hn]).
        destruct (file_step FNMAX TS TC TA TE H order Htags HHlen Horder _ sf rs Hrun Hok Hutf' H64 H32 S R HR files eq_refl r n HRS Hin)
          as (r' & bs & Hg & _).
        destruct (get_file_size_lookup _ _ _ _ _ _ _ _ _ _ _ Hg) as (fi & -> & Hsz). exact Hsz. }
      rewrite Hmap. rewrite (total_perm _ _ (Permutation_map (fun n => len (lookup_file files n)) HP)).
      unfold files_total. f_equal. rewrite map_map. apply map_ext_in. intros [n d] Hin. cbn [fst snd].
      rewrite (lookup_file_in files n d Hnd Hin). reflexivity.
    Qed.

    (* from_config through the stack opened for a configuration cfg1 that writes the same bytes and
       whose key / nonce are the ones load_config returns (cfg itself when encrypted; cfg with empty
       key and nonce otherwise: load_persistent leaves the reader's defaults) *)
    Lemma info_reader_via cfg1 :
      wc_comp cfg1 = wc_comp cfg -> wc_compress cfg1 = wc_compress cfg -> wc_encrypt cfg1 = wc_encrypt cfg ->
      (wc_encrypt cfg = true -> wc_key cfg1 = wc_key cfg /\ wc_nonce cfg1 = wc_nonce cfg) ->
      load_config hp privs = Ok (wc_encrypt cfg1, wc_compress cfg1, wc_key cfg1, wc_nonce cfg1) ->
      exists ir, info_from_config a0 privs = Ok ir /\
        ir_enc ir = wc_encrypt cfg /\ ir_cmp ir = wc_compress cfg /\
        ir_comp ir = (if wc_compress cfg then Some (len (concat (cblocks_of cfg (w_out sf)))) else None) /\
        get_files_size ovf ir = Ok files_total.
    Proof.
      intros Ecomp Ecmp Eenc Ekn Hl.
      pose proof created_header as Hh.
      destruct Hmade as [Hrun Hok Hutf H64 H32 Hc He Hnk Hlim Hsz]. pose proof (create_ops_utf8 files Hutf) as Hutf'.
      fold hp in Hsz. fold a0 in Hsz.
      assert (Hmid : mid_of BLOCK cfg1 (w_out sf) = mid_of BLOCK cfg (w_out sf)).
      { unfold Archive.mid_of. rewrite Ecmp, Ecomp. reflexivity. }
      assert (Hwire : wire_of cfg1 (w_out sf) = wire_of cfg (w_out sf)).
      { unfold Archive.wire_of. rewrite Eenc, Hmid. destruct (wc_encrypt cfg) eqn:Ee; [|reflexivity].
        destruct (Ekn eq_refl) as [-> ->]. reflexivity. }
      assert (Ha1 : a0 = ser_header hp ++ wire_of cfg1 (w_out sf)) by (rewrite Hwire; reflexivity).
      assert (Hcb : cblocks_of cfg1 (w_out sf) = cblocks_of cfg (w_out sf)) by (unfold cblocks_of; rewrite Ecomp; reflexivity).
      assert (Hc1 : wc_compress cfg1 = true ->
         (forall x, dec (wc_comp cfg1 x) = x) /\
         (forall j, j < nblocks BLOCK (len (w_out sf)) -> len (wc_comp cfg1 (block_at BLOCK (w_out sf) j)) < 2 ^ 32) /\
         12 + 4 * nblocks BLOCK (len (w_out sf)) <= LIMIT /\ 12 + 4 * nblocks BLOCK (len (w_out sf)) < 2 ^ 32 /\
         len (w_out sf) < 2 ^ 63).
      { rewrite Ecmp, Ecomp. exact Hc. }
      assert (He1 : wc_encrypt cfg1 = true ->
         (forall i c, len (tagf (wc_key cfg1) (wc_nonce cfg1) i c) = TAG) /\ (nfull CHUNK (len (mid_of BLOCK cfg1 (w_out sf))) + 2 < 2 ^ 32 /\ CHUNK + TAG <= 2 ^ 31)).
      { rewrite Eenc, Hmid. intros Ee. destruct (Ekn Ee) as [-> ->]. destruct (He Ee) as (_ & _ & Htg & Hch & _). split; [exact Htg | exact Hch]. }
      rewrite Ha1 in Hsz.
      destruct (stack_opens CHUNK TAG CIPHERBUF BLOCK LIMIT FNMAX H pubk dh kdf wenc wdec wtag ksf tagf dec
                  HCHUNK HTAG HCB HB HB32 HHlen wdec_wenc Hpubk Hwenc Hwtag cfg1 (ser_header hp) (w_out sf) Hsz Hc1 He1)
        as (R & HR & s0 & Hos & HR0).
      destruct (rt_open FNMAX TS TC TA TE H order HHlen Horder _ sf rs Hrun Hok Hutf' H64 H32 _ R HR s0 0 HR0) as (r & Hop & HRS).
      pose proof (files_sizes_total _ R r HR HRS) as Hfs.
      assert (Hoff : len (ser_header hp) = len (ser_header hp ++ wire_of cfg1 (w_out sf)) - len (wire_of cfg (w_out sf))).
      { rewrite Hwire, len_app. lia. }
      rewrite Hoff in Hos. rewrite Ha1 in Hh. rewrite Ha1.
      destruct (info_and_reader_share_the_stack CHUNK TAG BLOCK LIMIT dh kdf wdec wtag ksf tagf dec ovf _ privs _ _ _ _ _ _ s0 Hh Hl Hos) as [_ Hi].
      assert (Hcsz : match top_sizes _ (wc_encrypt cfg1) (wc_compress cfg1) (wc_key cfg1) (wc_nonce cfg1) s0 with
                     | Some si => do t <- get_compressed_size ovf si; Ok (Some t)
                     | None => Ok None
                     end = Ok (if wc_compress cfg then Some (len (concat (cblocks_of cfg (w_out sf)))) else None)).
      { destruct (Bool.bool_dec (wc_compress cfg1) true) as [Ec1|Ec1].
        - destruct (Hc1 Ec1) as (Hdec & Hcs & Hl1 & Hl2 & HL).
          destruct (stack_opens_si cfg1 (ser_header hp) (w_out sf) Hsz Ec1 Hdec Hcs Hl1 Hl2 HL He1) as (s1 & Hos1 & last & Hts).
          rewrite Hoff in Hos1. rewrite Hos in Hos1. injection Hos1 as <-.
          rewrite Hts. rewrite (csize_total cfg1 (w_out sf) ovf Hcs Hl2 last). cbn [bind].
          rewrite <- Ecmp, Ec1, Hcb. reflexivity.
        - assert (Ec0 : wc_compress cfg1 = false) by (destruct (wc_compress cfg1); congruence).
          rewrite (top_sizes_nocomp _ _ _ _ _ s0 Ec0). rewrite <- Ecmp, Ec0. reflexivity. }
      rewrite Hcsz in Hi. cbn [bind] in Hi. rewrite Hop in Hi. cbn [bind] in Hi.
      eexists. split; [exact Hi|]. cbn [ir_enc ir_cmp ir_comp]. split; [exact Eenc|]. split; [exact Ecmp|]. split; [reflexivity|].
      unfold CliInfo.get_files_size. cbn [ir_meta]. rewrite sum_u64_small; rewrite Hfs; [reflexivity | exact Hsum].
    Qed.

    (* ArchiveInfoReader::from_config on the created archive *)
    Theorem created_info_reader :
      TC_ cfg privs \/
      exists ir, info_from_config a0 privs = Ok ir /\
        ir_enc ir = wc_encrypt cfg /\ ir_cmp ir = wc_compress cfg /\
        ir_comp ir = (if wc_compress cfg then Some (len (concat (cblocks_of cfg (w_out sf)))) else None) /\
        get_files_size ovf ir = Ok files_total.
    Proof.
      destruct (wc_encrypt cfg) eqn:Ee.
      - destruct Hmade as [_ _ _ _ _ _ He _ _ _].
        destruct (He Ee) as (Hk & _ & _ & _ & Hdh & Hrec & Hin).
        destruct (load_config_enc pubk dh kdf wenc wdec wtag wdec_wenc cfg privs s Ee Hk Hdh Hrec Hin) as [Hl|Ht]; [right | left; exact Ht].
        rewrite <- Ee. apply (info_reader_via cfg); try reflexivity; [auto|]. rewrite Ee. exact Hl.
      - right. rewrite <- Ee.
        apply (info_reader_via (mkWC (wc_compress cfg) false (wc_comp cfg) [] [] (wc_eph cfg) (wc_recipients cfg))); cbn [wc_comp wc_compress wc_encrypt wc_key wc_nonce];
          try reflexivity; [symmetry; exact Ee | rewrite Ee; discriminate |].
        exact (load_config_plain pubk dh kdf wenc wdec wtag cfg privs Ee).
    Qed.

    (* ---------- C17_info_reports_layers ---------- *)
    Theorem info_reports_layers :
      exists a, cmd_create cfg ct cm files = mkCR true (OWritten a) [] /\
        (TC_ cfg privs \/
         forall verbose, cmd_info verbose a privs =
           mkIres 0 (info_text verbose (wc_encrypt cfg) (len (wc_recipients cfg)) (wc_compress cfg)
                       files_total (len (concat (cblocks_of cfg (w_out sf)))))).
    Proof.
      exists a0. destruct created_bytes as [_ Hc]. split; [exact Hc|].
      destruct created_info_reader as [Ht|(ir & Hi & _ & _ & Hcs & Hfs)]; [left; exact Ht | right].
      intros verbose. unfold CliInfo.cmd_info, info_text. rewrite created_header.
      cbv delta [hp]. unfold Archive.to_persistent. cbn [h_layers h_enc].
      destruct (has_bit_layers cfg) as [-> ->].
      destruct (wc_compress cfg) eqn:Ec.
      - rewrite Hi. rewrite Hfs, Hcs.
        destruct (wc_encrypt cfg) eqn:Ee, verbose; cbn [andb];
          unfold store_key; cbn [eh_keys m_keys]; rewrite ?len_map, <- ?app_assoc; reflexivity.
      - destruct (wc_encrypt cfg) eqn:Ee, verbose; cbn [andb];
          unfold store_key; cbn [eh_keys m_keys]; rewrite ?len_map, <- ?app_assoc, ?app_nil_r; reflexivity.
    Qed.

    (* ---------- C17_info_needs_key_iff ---------- *)
    (* a key is needed exactly when the archive is encrypted AND compressed (only then a layer
       reader is built): without one, nothing is printed — not even the flags the header alone
       decides — and the exit status is 1.  In every other case the candidate keys play no role:
       in particular a key given for an archive WITHOUT encryption is accepted (every other reading
       command refuses it: Cli.cli_open). *)
    Theorem info_needs_key_iff :
      exists a, cmd_create cfg ct cm files = mkCR true (OWritten a) [] /\
        (wc_encrypt cfg = true -> wc_compress cfg = true -> forall verbose, cmd_info verbose a [] = mkIres 1 []) /\
        (wc_compress cfg = false -> forall verbose privs',
           cmd_info verbose a privs' = mkIres 0 (info_text verbose (wc_encrypt cfg) (len (wc_recipients cfg)) false 0 0)) /\
        (wc_encrypt cfg = false -> forall verbose privs', cmd_info verbose a privs' = cmd_info verbose a []).
    Proof.
      exists a0. destruct created_bytes as [_ Hc]. split; [exact Hc|].
      pose proof created_header as Hh. split; [|split].
      - intros Ee Ec verbose. unfold CliInfo.cmd_info, CliInfo.info_from_config. rewrite Hh. cbn [bind]. cbv iota beta.
        unfold Archive.load_config. cbv delta [hp]. unfold Archive.to_persistent. cbn [h_layers h_enc].
        destruct (has_bit_layers cfg) as [-> ->]. rewrite Ee, Ec. reflexivity.
      - intros Ec verbose privs'. unfold CliInfo.cmd_info, info_text. rewrite Hh.
        cbv delta [hp]. unfold Archive.to_persistent. cbn [h_layers h_enc].
        destruct (has_bit_layers cfg) as [-> ->]. rewrite Ec.
        destruct (wc_encrypt cfg) eqn:Ee, verbose; cbn [andb];
          unfold store_key; cbn [eh_keys m_keys]; rewrite ?len_map, <- ?app_assoc, ?app_nil_r; reflexivity.
      - intros Ee verbose privs'. unfold CliInfo.cmd_info, CliInfo.info_from_config. rewrite Hh. cbn [bind]. cbv iota beta.
        unfold Archive.load_config. cbv delta [hp]. unfold Archive.to_persistent. cbn [h_layers h_enc].
        destruct (has_bit_layers cfg) as [-> ->]. rewrite Ee. reflexivity.
    Qed.
  End Made.
End CliInfoProofs.
