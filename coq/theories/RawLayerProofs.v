(* RawLayerProofs.v — the raw layer reader, over an inner stream that behaves as a cursor over
   header ++ body with offset_pos = |header|, behaves as a cursor over body. *)
From MLA Require Import Base Stream RawLayer.
From Coq Require Import ZifyBool ZifyNat ZifyN.
Open Scope N_scope.

Section RawProofs.
  Variable S : Stream.
  Variables header body : bytes.
  Variable Rin : st S -> N -> Prop.
  Hypothesis Hin : Refines S (header ++ body) Rin.
  Hypothesis Hlen : len (header ++ body) < 2 ^ 64.       (* positions are u64 *)

  Notation h := (len header).
  Notation rstate := (rstate S).

  Definition Rraw (s : rstate) (p : N) : Prop :=
    r_off s = h /\ p <= len body /\ Rin (r_in s) (h + p).

  Lemma sliceN_after_header p k : sliceN (h + p) k (header ++ body) = sliceN p k body.
  Proof.
    unfold sliceN. rewrite dropN_app_ge by lia. do 2 f_equal. lia.
  Qed.

  Lemma rread_spec s p n : Rraw s p ->
    exists s' k, rread S s n = (s', Ok (sliceN p k body)) /\ k <= n /\ p + k <= len body /\
                 (k = 0 -> n = 0 \/ p = len body) /\ Rraw s' (p + k).
  Proof.
    intros (Hoff & Hp & HR). unfold rread.
    destruct (ref_rd _ _ _ Hin (r_in s) (h + p) n HR) as (i' & k & Hrd & Hkn & Hkb & Hz & HR').
    rewrite Hrd, sliceN_after_header. rewrite len_app in Hkb.
    exists (mkR i' (r_off s)), k. split; [reflexivity|].
    split; [exact Hkn|]. split; [lia|]. split.
    - intros Hk. destruct (Hz Hk) as [?|He]; [left; assumption|]. right. rewrite len_app in He. lia.
    - unfold Rraw. cbn [r_off r_in]. repeat split; try lia.
      replace (h + (p + k)) with (h + p + k) by lia. exact HR'.
  Qed.

  Lemma rseek_spec s p w q : Rraw s p -> target (len body) p w = Some q ->
    exists s', rseek S s w = (s', Ok q) /\ Rraw s' q.
  Proof.
    intros (Hoff & Hp & HR) Ht. pose proof Hlen as Hl. rewrite len_app in Hl.
    assert (Hq : q <= len body).
    { unfold target in Ht. destruct w; match type of Ht with (if ?c then _ else _) = _ => destruct c eqn:E end;
        try discriminate; injection Ht as <-; lia. }
    destruct w as [q0|d|d]; unfold rseek.
    - assert (q0 = q).
      { unfold target in Ht. destruct ((0 <=? Z.of_N q0) && (Z.of_N q0 <=? Z.of_N (len body)))%Z; [|discriminate].
        injection Ht as <-. lia. }
      subst q0. rewrite Hoff.
      destruct (N.leb_spec (2 ^ 64) (h + q)) as [?|_]; [lia|].
      destruct (ref_sk _ _ _ Hin (r_in s) (h + p) (FromStart (h + q)) (h + q) HR) as (i' & Hsk & HR').
      { unfold target. rewrite len_app.
        destruct ((0 <=? Z.of_N (h + q)) && (Z.of_N (h + q) <=? Z.of_N (h + len body)))%Z eqn:E; [|lia].
        rewrite N2Z.id. reflexivity. }
      rewrite Hsk. eexists. split; [reflexivity|]. unfold Rraw. cbn [r_off r_in]. auto.
    - unfold rseek_rel.
      destruct (ref_sk _ _ _ Hin (r_in s) (h + p) (FromCur d) (h + q) HR) as (i' & Hsk & HR').
      { unfold target in *. rewrite len_app.
        destruct ((0 <=? Z.of_N p + d) && (Z.of_N p + d <=? Z.of_N (len body)))%Z eqn:E; [|discriminate].
        injection Ht as <-.
        destruct ((0 <=? Z.of_N (h + p) + d) && (Z.of_N (h + p) + d <=? Z.of_N (h + len body)))%Z eqn:E2; [|lia].
        f_equal. lia. }
      rewrite Hsk, Hoff. destruct (N.ltb_spec (h + q) h) as [?|_]; [lia|].
      replace (h + q - h) with q by lia.
      eexists. split; [reflexivity|]. unfold Rraw. cbn [r_off r_in]. auto.
    - unfold rseek_rel.
      destruct (ref_sk _ _ _ Hin (r_in s) (h + p) (FromEnd d) (h + q) HR) as (i' & Hsk & HR').
      { unfold target in *. rewrite len_app.
        destruct ((0 <=? Z.of_N (len body) + d) && (Z.of_N (len body) + d <=? Z.of_N (len body)))%Z eqn:E; [|discriminate].
        injection Ht as <-.
        destruct ((0 <=? Z.of_N (h + len body) + d) && (Z.of_N (h + len body) + d <=? Z.of_N (h + len body)))%Z eqn:E2; [|lia].
        f_equal. lia. }
      rewrite Hsk, Hoff. destruct (N.ltb_spec (h + q) h) as [?|_]; [lia|].
      replace (h + q - h) with q by lia.
      eexists. split; [reflexivity|]. unfold Rraw. cbn [r_off r_in]. auto.
  Qed.

  Theorem raw_reader_refines : Refines (RawReader S) body Rraw.
  Proof.
    constructor.
    - intros s p (_ & Hp & _). exact Hp.
    - intros s p n HRs. cbn [RawReader rd st]. apply rread_spec. exact HRs.
    - intros s p w q HRs Ht. cbn [RawReader sk st]. apply (rseek_spec s p w q HRs Ht).
  Qed.

  (* new + reset_position on an inner stream standing right after the header *)
  Theorem raw_open_spec i0 : Rin i0 h ->
    exists s, raw_open S i0 = (s, Ok tt) /\ Rraw s 0.
  Proof.
    intros HR. unfold raw_open, raw_reset, raw_new. cbn [r_in r_off].
    destruct (ref_sk _ _ _ Hin i0 h (FromCur 0) h HR) as (i' & Hsk & HR').
    { unfold target. rewrite len_app.
      destruct ((0 <=? Z.of_N h + 0) && (Z.of_N h + 0 <=? Z.of_N (h + len body)))%Z eqn:E; [|lia].
      f_equal. lia. }
    rewrite Hsk. eexists. split; [reflexivity|].
    unfold Rraw. cbn [r_off r_in]. rewrite N.add_0_r. repeat split; [lia | exact HR'].
  Qed.

  (* initialize is a no-op *)
  Lemma raw_initialize_spec s p : Rraw s p -> raw_initialize S s = (s, Ok tt) /\ Rraw s p.
  Proof. intros H. split; [reflexivity | exact H]. Qed.
End RawProofs.
