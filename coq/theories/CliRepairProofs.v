(* CliRepairProofs.v — `mlar repair` (CliRepair.v): the output side when the open fails, and the
   key policy of open_failsafe_mla_file on an archive made by create. *)
From MLA Require Import Limit.
From MLA Require Import Base Stream Blocks Writer Reader RoundTripBlocks RoundTripWriter RoundTrip EncLayer CompLayer CompFailSafe
  FsCompStream Repair Format Ecies Archive ArchiveProofs Cli CliProofs CliArchive CliRepair Run.
From Coq Require Import ZifyBool ZifyNat ZifyN Permutation.
Open Scope N_scope.

Section CliRepairProofs.
  Variables CHUNK TAG CIPHERBUF BLOCK LIMIT FNMAX CACHE FSBUF : N.
  Local Hint Extern 0 Limit => exact LIMIT : typeclass_instances.
  Variables TS TC TA TE : N.
  Variable H : bytes -> bytes.
  Variable order : footer -> footer.
  Variable pubk : bytes -> bytes.
  Variable dh : bytes -> bytes -> bytes.
  Variable kdf : bytes -> bytes.
  Variables wenc wdec wtag : bytes -> bytes -> bytes.
  Variable ksf : bytes -> bytes -> N -> N -> N.
  Variable tagf : bytes -> bytes -> N -> bytes -> bytes.
  Variable dec : bytes -> bytes.
  Variable dstate : Type.
  Variable dinit : dstate.
  Variable dstep : dstate -> bytes -> N -> dresult * N * bytes * dstate.
  Variable pfuel : nat.

  Hypothesis HCHUNK : 0 < CHUNK.
  Hypothesis HTAG : 0 < TAG.
  Hypothesis HCB : 0 < CIPHERBUF.
  Hypothesis HB : 0 < BLOCK.
  Hypothesis HB32 : BLOCK < 2 ^ 32.
  Hypothesis HHlen : forall x, len (H x) = 32.
  Hypothesis Horder : forall f, Permutation (order f) f.
  Hypothesis wdec_wenc : forall k m, len m = 32 -> wdec k (wenc k m) = m.
  Hypothesis Hpubk : forall e, len (pubk e) = 32.
  Hypothesis Hwenc : forall k m, len m = 32 -> len (wenc k m) = 32.
  Hypothesis Hwtag : forall k c, len (wtag k c) = 16.

  Notation archive_write := (archive_write CHUNK CIPHERBUF BLOCK LIMIT FNMAX TS TC TA TE H order pubk dh kdf wenc wtag ksf tagf).
  Notation made_by_create := (made_by_create CHUNK TAG BLOCK LIMIT FNMAX TS TC TA TE H order pubk dh kdf wenc wtag ksf tagf dec).
  Notation repair_open := (repair_open LIMIT dh kdf wdec wtag).
  Notation cmd_repair := (cmd_repair CHUNK TAG CIPHERBUF BLOCK LIMIT FNMAX CACHE FSBUF TS TC TA TE H pubk dh kdf wenc wdec wtag ksf tagf
                            dstate dinit dstep pfuel).
  Notation repair_open_old := (repair_open_old LIMIT dh kdf wdec wtag).
  Notation cmd_repair_old := (cmd_repair_old CHUNK TAG CIPHERBUF BLOCK LIMIT FNMAX CACHE FSBUF TS TC TA TE H pubk dh kdf wenc wdec wtag ksf tagf
                            dstate dinit dstep pfuel).

  (* the open fails: the output path is never opened (writer_from_matches comes after) *)
  Theorem repair_failed_open_leaves_no_output a privs :
    (forall x, repair_open a privs <> Ok x) ->
    forall unauth fuel cfg' ct cm, cmd_repair unauth fuel a privs cfg' ct cm = (mkCR false OUntouched [], None).
  Proof.
    intros Hf unauth fuel cfg' ct cm. unfold CliRepair.cmd_repair, CliRepair.cmd_repair_gen.
    destruct (repair_open a privs) as [x|e|c] eqn:E; [exfalso; exact (Hf x eq_refl) | reflexivity | reflexivity].
  Qed.

  (* ... and so does a first chunk that cannot be loaded (EncryptionLayerFailSafeReader::new) *)

  (* missing key on an encrypted archive made by create: the open fails *)
  Theorem repair_missing_key_fails cfg ct cm files sf rs s privs0 :
    made_by_create cfg files sf rs privs0 s -> wc_encrypt cfg = true ->
    exists a, archive_write cfg ct cm (create_ops files) = Ok a /\ forall x, repair_open a [] <> Ok x.
  Proof.
    intros Hm He.
    destruct (created_opens CHUNK TAG CIPHERBUF BLOCK LIMIT FNMAX TS TC TA TE H order pubk dh kdf wenc wdec wtag ksf tagf dec
                HCHUNK HTAG HCB HB HB32 HHlen Horder wdec_wenc Hpubk Hwenc Hwtag cfg ct cm files sf rs privs0 s Hm) as (a & Hw & Hh & _).
    exists a. split; [exact Hw|]. intros x. unfold CliRepair.repair_open. rewrite Hh. cbn [bind]. cbv iota beta.
    cbn [key_given andb].
    unfold load_config, Archive.to_persistent. cbn [h_layers h_enc]. destruct (has_bit_layers cfg) as [-> _]. rewrite He.
    cbn [bind]. discriminate.
  Qed.

  (* a key given for an archive without encryption (made by create): open_failsafe_mla_file refuses
     it before anything else, the command exits non-zero and never opens its output path *)
  Theorem repair_key_for_unencrypted_fails cfg ct cm files sf rs s :
    made_by_create cfg files sf rs [] s -> wc_encrypt cfg = false ->
    exists a, archive_write cfg ct cm (create_ops files) = Ok a /\
      forall privs, privs <> [] ->
        (forall x, repair_open a privs <> Ok x) /\
        forall unauth fuel cfg' ct' cm', cmd_repair unauth fuel a privs cfg' ct' cm' = (mkCR false OUntouched [], None).
  Proof.
    intros Hm He.
    destruct (created_opens CHUNK TAG CIPHERBUF BLOCK LIMIT FNMAX TS TC TA TE H order pubk dh kdf wenc wdec wtag ksf tagf dec
                HCHUNK HTAG HCB HB HB32 HHlen Horder wdec_wenc Hpubk Hwenc Hwtag cfg ct cm files sf rs [] s Hm) as (a & Hw & Hh & _).
    exists a. split; [exact Hw|]. intros privs Hp.
    assert (Hro : repair_open a privs = Err EKey).
    { unfold CliRepair.repair_open. rewrite Hh. cbn [bind]. cbv iota beta.
      unfold Archive.to_persistent at 1. cbn [h_layers]. destruct (has_bit_layers cfg) as [-> _]. rewrite He.
      destruct privs; [contradiction|]. reflexivity. }
    split; [intros x; rewrite Hro; discriminate|].
    intros unauth fuel cfg' ct' cm'. unfold CliRepair.cmd_repair, CliRepair.cmd_repair_gen. rewrite Hro. reflexivity.
  Qed.

  (* THE OLD CODE (before 9ea79db) refuted: on an archive made by create without encryption, whatever
     candidate keys are given, the old open succeeds with exactly the result it has without any key,
     hence the whole old command behaves as if no key had been given (exit 0 on an intact archive) *)
  Theorem repair_key_old_code_refuted cfg ct cm files sf rs s :
    made_by_create cfg files sf rs [] s -> wc_encrypt cfg = false ->
    exists a, archive_write cfg ct cm (create_ops files) = Ok a /\
      forall privs,
        repair_open_old a privs = Ok (false, wc_compress cfg, [], [], wire_of CHUNK BLOCK ksf tagf cfg (w_out sf)) /\
        forall unauth fuel cfg' ct' cm',
          cmd_repair_old unauth fuel a privs cfg' ct' cm' = cmd_repair_old unauth fuel a [] cfg' ct' cm'.
  Proof.
    intros Hm He.
    destruct (created_opens CHUNK TAG CIPHERBUF BLOCK LIMIT FNMAX TS TC TA TE H order pubk dh kdf wenc wdec wtag ksf tagf dec
                HCHUNK HTAG HCB HB HB32 HHlen Horder wdec_wenc Hpubk Hwenc Hwtag cfg ct cm files sf rs [] s Hm) as (a & Hw & Hh & _).
    exists a. split; [exact Hw|].
    assert (Hro : forall privs, repair_open_old a privs = Ok (false, wc_compress cfg, [], [], wire_of CHUNK BLOCK ksf tagf cfg (w_out sf))).
    { intros privs. unfold CliRepair.repair_open_old. rewrite Hh. cbn [bind]. cbv iota beta.
      rewrite (load_config_plain pubk dh kdf wenc wdec wtag cfg privs He). reflexivity. }
    intros privs. split; [exact (Hro privs)|]. intros unauth fuel cfg' ct' cm'.
    unfold CliRepair.cmd_repair_old, CliRepair.cmd_repair_gen. rewrite (Hro privs), (Hro []). reflexivity.
  Qed.
End CliRepairProofs.
