(* SrcTie3Cmds2Made.v — the property theorems of C17 / C07 about the mlar commands, CARRIED to the translated code (work package
   cmdsT2): on every archive made by `create` (Cli.made_by_create: any layer combination, any files, any recipients) the functions of
   mlar/src/main.rs as translated by tools/src2v3_cmds.py (gen/Src3m.v), run from the empty world over the model's library,
     to-tar    leave exactly Tar.tar_of of the name-sorted files in the output file, exit status 0
     cat       deliver exactly the bytes of the named files in argument order, to the file or to standard output, exit status 0
     list      print exactly the given paths, sorted, one per line; list -vv the line of each file's true size and hash
     convert   do what create of the same files in name order does with the new configuration
   and a key given for an archive without encryption is refused by open_mla_file and by open_failsafe_mla_file before from_config.
   Compositions of CliArchive (the C17 theorems) with the ties of SrcTie3Cmds2{Open,Tar,Cat,Conv}.v. *)
From MLA Require Import Limit.
From MLA Require Import Base Stream Blocks Writer Reader RoundTripBlocks RoundTripWriter RoundTripReader RoundTrip
  CompLayer EncLayer Format Ecies Archive ArchiveProofs Path Tar TarProofs Cli CliProofs CliArchive Keys.
From MLA Require Import SrcTie3Cmds SrcTie3Cmds2Open SrcTie3Cmds2Inst SrcTie3Cmds2Tar SrcTie3Cmds2Cat SrcTie3Cmds2Cfg SrcTie3Cmds2Conv.
From MLAGen Require Src3m.
From Coq Require Import ZifyBool ZifyNat ZifyN Permutation.
Open Scope N_scope.

Section Made.
  Variables CHUNK TAG CIPHERBUF BLOCK LIMIT FNMAX : N.
  Local Hint Extern 0 Limit => exact LIMIT : typeclass_instances.
  Variables TS TC TA TE : N.
  Variable H : bytes -> bytes.
  Variable order : footer -> footer.
  Variable pubk : bytes -> bytes.
  Variable dh : bytes -> bytes -> bytes.
  Variable kdf : bytes -> bytes.
  Variables wenc wdec wtag : bytes -> bytes -> bytes.
  Variable ksf : bytes -> bytes -> N -> N -> N.
  Variable tagf : bytes -> bytes -> N -> bytes -> bytes.
  Variable dec : bytes -> bytes.

  Hypothesis HCHUNK : 0 < CHUNK.
  Hypothesis HTAG : 0 < TAG.
  Hypothesis HCB : 0 < CIPHERBUF.
  Hypothesis HB : 0 < BLOCK.
  Hypothesis HB32 : BLOCK < 2 ^ 32.
  Hypothesis Htags : tags_distinct TS TC TA TE.
  Hypothesis HHlen : forall x, len (H x) = 32.
  Hypothesis Horder : forall f, Permutation (order f) f.
  Hypothesis wdec_wenc : forall k m, len m = 32 -> wdec k (wenc k m) = m.
  Hypothesis Hpubk : forall e, len (pubk e) = 32.
  Hypothesis Hwenc : forall k m, len m = 32 -> len (wenc k m) = 32.
  Hypothesis Hwtag : forall k c, len (wtag k c) = 16.

  Notation cmd_create := (cmd_create CHUNK CIPHERBUF BLOCK LIMIT FNMAX TS TC TA TE H order pubk dh kdf wenc wtag ksf tagf).
  Notation archive_write := (archive_write CHUNK CIPHERBUF BLOCK LIMIT FNMAX TS TC TA TE H order pubk dh kdf wenc wtag ksf tagf).
  Notation made_by_create := (made_by_create CHUNK TAG BLOCK LIMIT FNMAX TS TC TA TE H order pubk dh kdf wenc wtag ksf tagf dec).
  Notation opens_as := (opens_as CHUNK TAG BLOCK LIMIT order dh kdf wdec wtag ksf tagf dec).
  Notation stack_of := (Archive.stack_of CHUNK TAG BLOCK ksf tagf dec).

  (* the command line: any -k paths, file system and parser that deliver the candidate keys privs *)
  Variable KPath : Type.
  Variable fs_open_key : KPath -> Src3m.World -> res bytes.
  Variable parse_privkey : bytes -> res bytes.
  Variable site : N -> N.
  Variable arg_keys : option (list KPath).
  Hypothesis Hne : arg_keys <> Some [].
  Notation ckeys := (cli_keys KPath fs_open_key parse_privkey site arg_keys).

  Section Files.
    Variables (cfg : wconfig) (ct cm : list N) (files : list (bytes * bytes)) (sf : wstate) (rs : list (res N))
              (privs : list bytes) (s : bytes).
    Hypothesis Hmade : made_by_create cfg files sf rs privs s.
    Variables zf fuel : nat.
    Hypothesis Hfuel : forall n d, In (n, d) files -> (length d < fuel)%nat.
    Notation TC_ := (TagCollision pubk dh kdf wenc wtag (wc_eph cfg) (wc_key cfg) (wc_recipients cfg) privs).
    Notation created := (created_archive CHUNK TAG CIPHERBUF BLOCK LIMIT FNMAX TS TC TA TE H order pubk dh kdf wenc wdec wtag ksf tagf dec
                           HCHUNK HTAG HCB HB HB32 HHlen Horder wdec_wenc Hpubk Hwenc Hwtag cfg ct cm files sf rs privs s Hmade).

    (* on such an archive no get_file and no copy of to_tar's loop panics: the domain of to_tar_src *)
    Lemma to_tar_domain_at a : opens_as a privs sf ->
      to_tar_domain CHUNK TAG BLOCK LIMIT FNMAX TS TC TA TE dh kdf wdec wtag ksf tagf dec zf fuel a privs = true.
    Proof.
      intros (p & r & R & Ho & HR & HRS). unfold to_tar_domain. rewrite Ho.
      destruct Hmade as [Hrun Hok Hutf H64 H32 _ _ _ _ _]. pose proof (create_ops_utf8 files Hutf) as Hutf'.
      rewrite (listed_sorted FNMAX TS TC TA TE H order HHlen Horder _ sf rs Hrun Hok Hutf' H64 H32 _ R files eq_refl r HRS).
      exact (to_tar_runs_created FNMAX TS TC TA TE H order Htags HHlen Horder _ sf rs Hrun Hok Hutf' H64 H32 _ R HR files eq_refl zf fuel Hfuel
               _ (sorted_in files) r HRS).
    Qed.

    Theorem C17_to_tar_is_tar_of_src :
      ckeys world0 = Ok privs ->
      exists a, cmd_create cfg ct cm files = mkCR true (OWritten a) [] /\
        (TC_ \/ cres_of (to_tar_t CHUNK TAG BLOCK LIMIT FNMAX TS TC TA TE dh kdf wdec wtag ksf tagf dec zf fuel a KPath fs_open_key parse_privkey
                           site arg_keys world0) = mkCR true (OWritten (tar_of (sorted_files files))) []).
    Proof.
      intros Hk. destruct created as (a & Hc & _ & Ho). exists a. split; [exact Hc|].
      destruct Ho as [Ht|Ho]; [left; exact Ht|right].
      rewrite (to_tar_src CHUNK TAG BLOCK LIMIT FNMAX TS TC TA TE dh kdf wdec wtag ksf tagf dec zf fuel a KPath fs_open_key parse_privkey site
                 arg_keys privs Hne Hk (to_tar_domain_at a Ho)).
      exact (to_tar_at CHUNK TAG BLOCK LIMIT FNMAX TS TC TA TE H order pubk dh kdf wenc wdec wtag ksf tagf dec Htags HHlen Horder
               cfg files sf rs privs s Hmade zf fuel Hfuel a Ho).
    Qed.

    Theorem C17_cat_returns_bytes_src (Pat : Type) (glob_new : bytes -> res Pat) (glob_matches : Pat -> bytes -> bool) (site_cat : N -> N) :
      (forall to_file, ckeys (fst (Src3m.destination_from_output_argument (negb to_file) Src3m.arg_output world0)) = Ok privs) ->
      exists a, cmd_create cfg ct cm files = mkCR true (OWritten a) [] /\
        (TC_ \/ forall to_file names,
           cres_of (cat_t CHUNK TAG BLOCK LIMIT FNMAX TS TC TA TE dh kdf wdec wtag ksf tagf dec zf fuel a KPath fs_open_key parse_privkey
                      site site_cat arg_keys Pat glob_new glob_matches to_file false (Some names) world0) =
           let d := concat (map (lookup_file files) names) in
           if to_file then mkCR true (OWritten d) [] else mkCR true OUntouched d).
    Proof.
      intros Hk. destruct created as (a & Hc & _ & Ho). exists a. split; [exact Hc|].
      destruct Ho as [Ht|Ho]; [left; exact Ht|right]. intros to_file names.
      rewrite (cat_src CHUNK TAG BLOCK LIMIT FNMAX TS TC TA TE dh kdf wdec wtag ksf tagf dec zf fuel a KPath fs_open_key parse_privkey site site_cat
                 arg_keys Pat glob_new glob_matches to_file names privs Hne (Hk to_file)).
      exact (cat_at CHUNK TAG BLOCK LIMIT FNMAX TS TC TA TE H order pubk dh kdf wenc wdec wtag ksf tagf dec Htags HHlen Horder
               cfg files sf rs privs s Hmade zf fuel Hfuel a Ho to_file names).
    Qed.

    Theorem C17_create_lists_given_paths_src (fmt_size : N -> bytes) (site_list : N -> N) :
      ckeys world0 = Ok privs ->
      exists a, cmd_create cfg ct cm files = mkCR true (OWritten a) [] /\
        (TC_ \/ cres_of (list_t CHUNK TAG BLOCK LIMIT FNMAX TS TC TA TE dh kdf wdec wtag ksf tagf dec a KPath fs_open_key parse_privkey
                           site site_list arg_keys fmt_size 0 world0) =
                mkCR true OUntouched (flat_map (fun n => n ++ [NL]) (sort_names (map fst files)))).
    Proof.
      intros Hk. destruct created as (a & Hc & _ & Ho). exists a. split; [exact Hc|].
      destruct Ho as [Ht|Ho]; [left; exact Ht|right].
      rewrite (list_src CHUNK TAG BLOCK LIMIT FNMAX TS TC TA TE dh kdf wdec wtag ksf tagf dec a KPath fs_open_key parse_privkey site site_list
                 arg_keys fmt_size privs Hne Hk).
      exact (list_at CHUNK TAG BLOCK LIMIT FNMAX TS TC TA TE H order pubk dh kdf wenc wdec wtag ksf tagf dec HHlen Horder
               cfg files sf rs privs s Hmade a Ho).
    Qed.

    Theorem C17_list_verbose_true_size_and_hash_src (fmt_size : N -> bytes) (site_list : N -> N) vc :
      2 <= vc -> ckeys world0 = Ok privs ->
      exists a, cmd_create cfg ct cm files = mkCR true (OWritten a) [] /\
        (TC_ \/ cres_of (list_t CHUNK TAG BLOCK LIMIT FNMAX TS TC TA TE dh kdf wdec wtag ksf tagf dec a KPath fs_open_key parse_privkey
                           site site_list arg_keys fmt_size vc world0) =
                mkCR true OUntouched
                  (flat_map (fun f => vv_line fmt_size (fst f, len (snd f), H (snd f))) (sorted_files files))).
    Proof.
      intros Hvc Hk. destruct created as (a & Hc & _ & Ho). exists a. split; [exact Hc|].
      destruct Ho as [Ht|Ho]; [left; exact Ht|right].
      rewrite (list_vv_src CHUNK TAG BLOCK LIMIT FNMAX TS TC TA TE dh kdf wdec wtag ksf tagf dec a KPath fs_open_key parse_privkey site site_list
                 arg_keys fmt_size vc privs Hvc Hne Hk).
      rewrite (list_verbose_at CHUNK TAG BLOCK LIMIT FNMAX TS TC TA TE H order pubk dh kdf wenc wdec wtag ksf tagf dec Htags HHlen Horder
                 cfg files sf rs privs s Hmade a Ho).
      cbv zeta. cbn [fst snd]. f_equal. rewrite flat_map_concat_map, map_map, <- flat_map_concat_map. reflexivity.
    Qed.

    Theorem C17_convert_is_create_src (parse_pubkey : bytes -> res bytes) (site_cfg site_convert : N -> N)
            (arg_level : option N) (arg_pubs : option (list KPath)) (arg_layers : option (list bytes))
            (mk_cfg : Src3m.WriterConfig -> wconfig) (ct' cm' : list N) c :
      ckeys world0 = Ok privs ->
      config_spec KPath fs_open_key parse_pubkey site_cfg arg_level arg_pubs arg_layers world0 = Ok c ->
      exists a, cmd_create cfg ct cm files = mkCR true (OWritten a) [] /\
        (TC_ \/ cres_of (convert_t CHUNK TAG CIPHERBUF BLOCK LIMIT FNMAX TS TC TA TE H order pubk dh kdf wenc wdec wtag ksf tagf dec zf fuel a
                           KPath fs_open_key parse_privkey parse_pubkey site site_cfg site_convert arg_keys arg_level arg_pubs arg_layers
                           mk_cfg ct' cm' world0) =
                cmd_create (mk_cfg c) ct' cm' (sorted_files files)).
    Proof.
      intros Hk Hcs. destruct created as (a & Hc & _ & Ho). exists a. split; [exact Hc|].
      destruct Ho as [Ht|Ho]; [left; exact Ht|right].
      rewrite (convert_src CHUNK TAG CIPHERBUF BLOCK LIMIT FNMAX TS TC TA TE H order pubk dh kdf wenc wdec wtag ksf tagf dec zf fuel a
                 KPath fs_open_key parse_privkey parse_pubkey site site_cfg site_convert arg_keys arg_level arg_pubs arg_layers mk_cfg ct' cm'
                 privs c Hne Hk Hcs).
      exact (convert_at CHUNK TAG CIPHERBUF BLOCK LIMIT FNMAX TS TC TA TE H order pubk dh kdf wenc wdec wtag ksf tagf dec Htags HHlen Horder
               cfg files sf rs privs s Hmade zf fuel Hfuel a Ho (mk_cfg c) ct' cm').
    Qed.
  End Files.

  (* ---------- C07 / C17: a key for an archive without encryption ---------- *)
  (* an archive made by create WITHOUT the encryption layer, a -k option whose files load: open_mla_file (list, cat, to-tar,
     convert, extract) and open_failsafe_mla_file (repair) return PrivateKeyProvidedButNotUsed with the world as it was; neither
     ArchiveReader::from_config nor ArchiveFailSafeReader::from_config is reached *)
  Theorem C07_key_for_unencrypted_is_refused_src cfg ct cm files sf rs s privs w (FSR : Type) (ffc : FileM -> Src3m.ReaderConfig -> res FSR) unauth :
    made_by_create cfg files sf rs [] s -> wc_encrypt cfg = false ->
    arg_keys <> None -> ckeys w = Ok privs ->
    exists a, archive_write cfg ct cm (create_ops files) = Ok a /\
      open_t CHUNK TAG BLOCK LIMIT dh kdf wdec wtag ksf tagf dec a KPath fs_open_key parse_privkey site arg_keys w = (w, Err EKey) /\
      Src3m.open_failsafe_mla_file unit KPath FileM Format.header FSR tt arg_keys unauth fs_open_m file_rewind_m
        (header_from_m LIMIT a) hdr_contains_m ffc fs_open_key parse_privkey site w = (w, Err EKey).
  Proof.
    intros Hm He Hk Hl.
    destruct (created_opens CHUNK TAG CIPHERBUF BLOCK LIMIT FNMAX TS TC TA TE H order pubk dh kdf wenc wdec wtag ksf tagf dec
                HCHUNK HTAG HCB HB HB32 HHlen Horder wdec_wenc Hpubk Hwenc Hwtag cfg ct cm files sf rs [] s Hm) as (a & Hw & Hh & _).
    exists a. split; [exact Hw|].
    assert (Hb : has_bit (h_layers (to_persistent pubk dh kdf wenc wtag cfg)) L_ENCRYPT = false).
    { unfold Archive.to_persistent. cbn [h_layers]. destruct (has_bit_layers cfg) as [-> _]. exact He. }
    split.
    - exact (C07_key_for_unencrypted_refused_src CHUNK TAG BLOCK LIMIT dh kdf wdec wtag ksf tagf dec a KPath fs_open_key parse_privkey site
               arg_keys w privs _ _ Hk Hne Hl Hh Hb).
    - rewrite (open_failsafe_mla_file_gen_src LIMIT a KPath fs_open_key parse_privkey site arg_keys FSR ffc unauth w Hne), Hl, Hh, Hb.
      rewrite (cli_keys_given _ _ _ _ _ w privs Hne Hl). destruct arg_keys; [reflexivity|congruence].
  Qed.
End Made.
