(* ReaderAuthSim.v — C03 at the archive level, generic part: the reader operations of
   Reader.v over ANY stream that agrees on `plain` (EncAuthStream.AgreesOn: every Ok read is
   original data at the claimed position, possibly short, every read may fail).

   Whatever such a stream makes the archive reader return with Ok is what a std::io::Cursor
   over the ORIGINAL plaintext returns at the same position:
     rexact / read_u64 / parse_block / next_block:  Ok x over S at p  ==>  Ok x over
       Cursor plain at p (simulation), and the stream stands where the cursor stands;
     read_footer: the footer is parsed from original bytes at [pos - l, pos - l + |b|), with
       l read from original bytes at pos = E - 4, E the end the stream CLAIMS (FooterAt);
     bread: every delivered byte string is a substring of plain.
   No statement here needs E = |plain|: this is what holds under known finding D17. *)
From MLA Require Import Limit.
From MLA Require Import Base Stream Blocks Reader EncAuth EncAuthStream RoundTripBlocks.
From Coq Require Import ZifyBool ZifyNat ZifyN.
Open Scope N_scope.

(* x occurs in y at some offset *)
Definition Sub (x y : bytes) : Prop := exists off, x = sliceN off (len x) y.

Lemma Sub_nil y : Sub [] y.
Proof. exists 0. reflexivity. Qed.
Lemma Sub_slice q n y : Sub (sliceN q n y) y.
Proof. exists q. apply sliceN_len_self. Qed.
Lemma Sub_trans x y z : Sub x y -> Sub y z -> Sub x z.
Proof.
  intros [a Hx] [b Hy]. destruct (N.eq_dec (len x) 0) as [Hz|Hz].
  - apply len_0_nil in Hz. subst x. apply Sub_nil.
  - assert (Ha : a < len y).
    { destruct (N.lt_ge_cases a (len y)) as [H|H]; [exact H|].
      rewrite sliceN_past in Hx by exact H. subst x. rewrite len_nil in Hz. lia. }
    assert (Hl : len x <= len y - a).
    { rewrite Hx at 1. rewrite len_sliceN. lia. }
    exists (b + a). rewrite Hx at 1. rewrite Hy at 1.
    rewrite sliceN_sliceN by lia. f_equal. lia.
Qed.
Lemma Sub_drop k x y : Sub x (dropN k y) -> Sub x y.
Proof.
  intros [a Hx]. exists (k + a). rewrite Hx at 1. unfold sliceN. rewrite dropN_dropN. reflexivity.
Qed.

Section Sim.
  Context {LIM : Limit}.
  Variable S : Stream.
  Variable I : st S -> N -> Prop.
  Variable plain : bytes.
  Variable E : N.
  Hypothesis HA : AgreesOn S I plain E.

  (* the stream is in its invariant, at some position *)
  Definition Live (s : st S) : Prop := exists p, I s p.

  Lemma live_of s p : I s p -> Live s.
  Proof. intros H; exists p; exact H. Qed.
  Hint Resolve live_of : core.

  (* ---------- read_full / read_exact ---------- *)
  Lemma read_full_aux_sound fuel : forall s p n acc, I s p ->
    exists s' r, read_full_aux S fuel s n acc = (s', r) /\
      match r with
      | Ok out => exists d, out = acc ++ d /\ d = sliceN p (len d) plain /\ len d <= n /\ I s' (p + len d)
      | _ => Live s'
      end.
  Proof.
    induction fuel as [|fuel IH]; intros s p n acc HI; cbn [read_full_aux].
    - destruct (N.eqb_spec n 0) as [->|Hn].
      + eexists _, _. split; [reflexivity|]. exists []. rewrite app_nil_r, len_nil, sliceN_0, N.add_0_r.
        repeat split; auto; lia.
      + eexists _, _. split; [reflexivity|]. cbn beta iota. eauto.
    - destruct (N.eqb_spec n 0) as [->|Hn].
      + eexists _, _. split; [reflexivity|]. exists []. rewrite app_nil_r, len_nil, sliceN_0, N.add_0_r.
        repeat split; auto; lia.
      + destruct (ag_rd _ _ _ _ HA s p n HI) as (s1 & r1 & -> & H1).
        destruct r1 as [d|e|c]; [|eexists _, _; split; [reflexivity | cbn beta iota; eauto]..].
        destruct H1 as [Hd HI1].
        destruct (N.eqb_spec (len d) 0) as [Hz|Hz].
        * eexists _, _. split; [reflexivity|]. exists []. rewrite app_nil_r, len_nil, sliceN_0.
          rewrite Hz in HI1. repeat split; auto; lia.
        * destruct (N.ltb_spec n (len d)) as [Hlt|Hge].
          -- eexists _, _. split; [reflexivity|]. cbn beta iota. eauto.
          -- destruct (IH s1 (p + len d) (n - len d) (acc ++ d) HI1) as (s2 & r2 & -> & H2).
             exists s2, r2. split; [reflexivity|]. destruct r2 as [out|e|c]; [|exact H2..].
             destruct H2 as (d2 & -> & Hd2 & Hl2 & HI2).
             exists (d ++ d2). rewrite app_assoc, len_app. split; [reflexivity|].
             split; [|split; [lia | rewrite N.add_assoc; exact HI2]].
             rewrite sliceN_add, <- Hd, <- Hd2. reflexivity.
  Qed.

  Lemma read_full_sound fuel s p n : I s p ->
    exists s' r, read_full S fuel s n = (s', r) /\
      match r with
      | Ok d => d = sliceN p (len d) plain /\ len d <= n /\ I s' (p + len d)
      | _ => Live s'
      end.
  Proof.
    intros HI. unfold read_full. destruct (read_full_aux_sound fuel s p n [] HI) as (s' & r & -> & H).
    exists s', r. split; [reflexivity|]. destruct r as [out|e|c]; [|exact H..].
    destruct H as (d & -> & H). exact H.
  Qed.

  (* read_exact over a cursor on plain *)
  Lemma rexact_cursor p n : n = 0 \/ p + n <= len plain ->
    rexact (Cursor plain) p n = (p + n, Ok (sliceN p n plain)).
  Proof.
    intros [->|Hp].
    - unfold rexact, read_exact, read_full. cbn [read_full_aux N.to_nat]. rewrite N.eqb_refl.
      rewrite sliceN_0, N.add_0_r. reflexivity.
    - unfold rexact.
      destruct (read_exact_spec (Cursor plain) plain _ (cursor_refines plain)
                  (Datatypes.S (N.to_nat n)) p p n) as (s' & [Hs' _] & Heq); [split; [reflexivity | lia] | lia |].
      rewrite Heq. destruct (N.leb_spec (p + n) (len plain)); [|lia].
      f_equal. cbn [st Cursor] in *. lia.
  Qed.

  (* an Ok read_exact over S is the cursor's *)
  Lemma rexact_sim s p n : I s p ->
    exists s' r, rexact S s n = (s', r) /\
      match r with
      | Ok d => rexact (Cursor plain) p n = (p + n, Ok d) /\ I s' (p + n) /\ len d = n /\
                d = sliceN p n plain /\ (0 < n -> p + n <= len plain)
      | _ => Live s'
      end.
  Proof.
    intros HI. unfold rexact at 1, read_exact.
    destruct (read_full_sound (Datatypes.S (N.to_nat n)) s p n HI) as (s' & r & -> & H).
    destruct r as [d|e|c]; [|eexists _, _; split; [reflexivity | exact H]..].
    destruct H as (Hd & Hl & HI').
    destruct (N.ltb_spec (len d) n) as [Hlt|Hge].
    - eexists _, _. split; [reflexivity|]. cbn beta iota. eauto.
    - assert (Hn : len d = n) by lia. rewrite Hn in *.
      eexists _, _. split; [reflexivity|].
      assert (Hb : 0 < n -> p + n <= len plain).
      { intros Hpos. pose proof (len_sliceN p n plain) as Hs. rewrite <- Hd, Hn in Hs. lia. }
      split; [|auto]. rewrite Hd. apply rexact_cursor. lia.
  Qed.

  Lemma read_u64_sim s p : I s p ->
    exists s' r, read_u64 S s = (s', r) /\
      match r with
      | Ok v => read_u64 (Cursor plain) p = (p + 8, Ok v) /\ I s' (p + 8) /\ p + 8 <= len plain /\
                v = le_val (sliceN p 8 plain)
      | _ => Live s'
      end.
  Proof.
    intros HI. unfold read_u64. destruct (rexact_sim s p 8 HI) as (s' & r & -> & H).
    destruct r as [d|e|c]; [|eexists _, _; split; [reflexivity | exact H]..].
    destruct H as (Hc & HI' & Hl & Hd & Hb). rewrite Hc.
    eexists _, _. split; [reflexivity|]. rewrite <- Hd. repeat split; auto. apply Hb. lia.
  Qed.

  (* ---------- ArchiveFileBlock::from ---------- *)
  Variable FNMAX : N.
  Variables T_START T_CONTENT T_EOA T_EOF : N.
  Notation parse_block := (parse_block FNMAX T_START T_CONTENT T_EOA T_EOF).
  Notation next_block := (next_block FNMAX T_START T_CONTENT T_EOA T_EOF).

  (* an Ok parse over S at p is the cursor's parse of the original plaintext at p *)
  Theorem parse_block_sim s p : I s p ->
    exists s' r, parse_block S s = (s', r) /\
      match r with
      | Ok pb => exists p', parse_block (Cursor plain) p = (p', Ok pb) /\ I s' p' /\ p < p' /\ p' <= len plain
      | _ => Live s'
      end.
  Proof.
    intros HI. unfold Blocks.parse_block.
    destruct (rexact_sim s p 1 HI) as (s1 & r1 & -> & H1).
    destruct r1 as [d1|e|c]; [|eexists _, _; split; [reflexivity | exact H1]..].
    destruct H1 as (-> & HI1 & Hl1 & _ & Hb1). specialize (Hb1 ltac:(lia)).
    destruct d1 as [|t [|t2 d1]]; [rewrite len_nil in Hl1; lia | | rewrite !len_cons in Hl1; lia].
    destruct (t =? T_START).
    { destruct (read_u64_sim s1 (p + 1) HI1) as (s2 & r2 & -> & H2).
      destruct r2 as [id|e|c]; [|eexists _, _; split; [reflexivity | exact H2]..].
      destruct H2 as (-> & HI2 & Hb2 & _).
      destruct (read_u64_sim s2 (p + 1 + 8) HI2) as (s3 & r3 & -> & H3).
      destruct r3 as [l|e|c]; [|eexists _, _; split; [reflexivity | exact H3]..].
      destruct H3 as (-> & HI3 & Hb3 & _).
      destruct (FNMAX <? l); [eexists _, _; split; [reflexivity | cbn beta iota; eauto]|].
      destruct (rexact_sim s3 (p + 1 + 8 + 8) l HI3) as (s4 & r4 & -> & H4).
      destruct r4 as [nm|e|c]; [|eexists _, _; split; [reflexivity | exact H4]..].
      destruct H4 as (-> & HI4 & Hl4 & _ & Hb4).
      destruct (utf8_valid nm); [|eexists _, _; split; [reflexivity | cbn beta iota; eauto]].
      eexists _, _. split; [reflexivity|]. eexists. split; [reflexivity|]. split; [exact HI4|].
      destruct (N.eq_dec l 0) as [->|Hl]; [lia|]. specialize (Hb4 ltac:(lia)). lia. }
    destruct (t =? T_CONTENT).
    { destruct (read_u64_sim s1 (p + 1) HI1) as (s2 & r2 & -> & H2).
      destruct r2 as [id|e|c]; [|eexists _, _; split; [reflexivity | exact H2]..].
      destruct H2 as (-> & HI2 & Hb2 & _).
      destruct (read_u64_sim s2 (p + 1 + 8) HI2) as (s3 & r3 & -> & H3).
      destruct r3 as [l|e|c]; [|eexists _, _; split; [reflexivity | exact H3]..].
      destruct H3 as (-> & HI3 & Hb3 & _).
      eexists _, _. split; [reflexivity|]. eexists. split; [reflexivity|]. split; [exact HI3|]. lia. }
    destruct (t =? T_EOF).
    { destruct (read_u64_sim s1 (p + 1) HI1) as (s2 & r2 & -> & H2).
      destruct r2 as [id|e|c]; [|eexists _, _; split; [reflexivity | exact H2]..].
      destruct H2 as (-> & HI2 & Hb2 & _).
      destruct (rexact_sim s2 (p + 1 + 8) 32 HI2) as (s3 & r3 & -> & H3).
      destruct r3 as [h|e|c]; [|eexists _, _; split; [reflexivity | exact H3]..].
      destruct H3 as (-> & HI3 & Hl3 & _ & Hb3). specialize (Hb3 ltac:(lia)).
      eexists _, _. split; [reflexivity|]. eexists. split; [reflexivity|]. split; [exact HI3|]. lia. }
    destruct (t =? T_EOA).
    { eexists _, _. split; [reflexivity|]. eexists. split; [reflexivity|]. split; [exact HI1|]. lia. }
    eexists _, _. split; [reflexivity|]. cbn beta iota. eauto.
  Qed.

  Theorem next_block_sim zf id : forall s p, I s p ->
    exists s' r, next_block S zf id s = (s', r) /\
      match r with
      | Ok pb => exists p', next_block (Cursor plain) zf id p = (p', Ok pb) /\ I s' p' /\ p < p' /\ p' <= len plain
      | _ => Live s'
      end.
  Proof.
    induction zf as [|zf IH]; intros s p HI; cbn [Reader.next_block];
      destruct (parse_block_sim s p HI) as (s1 & r1 & -> & H1);
      (destruct r1 as [pb|e|c]; [|eexists _, _; split; [reflexivity | exact H1]..]);
      destruct H1 as (p1 & -> & HI1 & Hlt & Hle).
    - destruct pb as [i nm|i l|i h|]; try (eexists _, _; split; [reflexivity|]; eexists; split; [reflexivity | auto]).
      destruct ((i =? id) && (l =? 0)).
      + eexists _, _. split; [reflexivity|]. cbn beta iota. eauto.
      + eexists _, _; split; [reflexivity|]; eexists; split; [reflexivity | auto].
    - destruct pb as [i nm|i l|i h|]; try (eexists _, _; split; [reflexivity|]; eexists; split; [reflexivity | auto]).
      destruct ((i =? id) && (l =? 0)).
      + destruct (IH s1 p1 HI1) as (s2 & r2 & -> & H2). exists s2, r2. split; [reflexivity|].
        destruct r2 as [pb|e|c]; [|exact H2..]. destruct H2 as (p2 & -> & HI2 & Hlt2 & Hle2).
        eexists. split; [reflexivity|]. split; [exact HI2|]. lia.
      + eexists _, _; split; [reflexivity|]; eexists; split; [reflexivity | auto].
  Qed.

  (* ---------- the footer ---------- *)

  (* m was parsed from original bytes: a region [pos - l, pos - l + |b|) of plain, where l is
     the little-endian value of plain[pos .. pos + 4) and pos = E - 4 *)
  Definition FooterAt (m : footer) : Prop :=
    exists pos b, Z.of_N pos = (Z.of_N E - 4)%Z /\ pos + 4 <= len plain /\
      let l := le_val (sliceN pos 4 plain) in
      l <= pos /\ b = sliceN (pos - l) (len b) plain /\ len b <= l /\ parse_footer_map b = Some m.

  Theorem read_footer_sim s p : I s p ->
    exists s' r, read_footer S s = (s', r) /\ Live s' /\ (forall m, r = Ok m -> FooterAt m).
  Proof.
    intros HI. unfold read_footer.
    destruct (ag_sk _ _ _ _ HA s p (FromEnd (-4)) HI) as (s1 & r1 & -> & H1).
    destruct r1 as [pos|e|c]; [|eexists _, _; split; [reflexivity | split; [exact H1 | discriminate]]..].
    destruct H1 as [HI1 Hpos]. cbn [seek_claim] in Hpos.
    destruct (rexact_sim s1 pos 4 HI1) as (s2 & r2 & -> & H2).
    destruct r2 as [l4|e|c]; [|eexists _, _; split; [reflexivity | split; [exact H2 | discriminate]]..].
    destruct H2 as (_ & HI2 & Hl4 & Hd4 & Hb4). specialize (Hb4 ltac:(lia)).
    destruct (N.ltb_spec pos (le_val l4)) as [Hlt|Hge].
    { eexists _, _. split; [reflexivity|]. split; [eauto | discriminate]. }
    destruct (ag_sk _ _ _ _ HA s2 _ (FromStart (pos - le_val l4)) HI2) as (s3 & r3 & -> & H3).
    destruct r3 as [q|e|c]; [|eexists _, _; split; [reflexivity | split; [exact H3 | discriminate]]..].
    destruct H3 as [HI3 Hq]. cbn [seek_claim] in Hq. subst q.
    destruct (read_full_sound (Datatypes.S (N.to_nat (le_val l4))) s3 _ (le_val l4) HI3) as (s4 & r4 & -> & H4).
    destruct r4 as [b|e|c]; [|eexists _, _; split; [reflexivity | split; [exact H4 | discriminate]]..].
    destruct H4 as (Hb & Hlb & HI4).
    destruct (parse_footer_map b) as [m|] eqn:Hparse.
    - destruct (N.min (le_val l4) lim <? len (ser_footer_map m)).
      { eexists _, _. split; [reflexivity|]. split; [eauto | discriminate]. }
      eexists _, _. split; [reflexivity|]. split; [eauto|]. intros m' [= <-].
      exists pos, b. rewrite <- Hd4. repeat split; auto; lia.
    - eexists _, _. split; [reflexivity|]. split; [eauto | discriminate].
  Qed.

  Theorem ropen_sim s p r : I s p -> ropen S s = Ok r -> FooterAt (r_meta r) /\ I (r_src r) 0.
  Proof.
    intros HI. unfold ropen.
    destruct (read_footer_sim s p HI) as (s1 & r1 & -> & [p1 HI1] & Hm).
    destruct r1 as [m|e|c]; [|discriminate..].
    destruct (ag_sk _ _ _ _ HA s1 p1 (FromStart 0) HI1) as (s2 & r2 & -> & H2).
    destruct r2 as [q|e|c]; [|discriminate..]. destruct H2 as [HI2 Hq]. cbn [seek_claim] in Hq. subst q.
    intros [= <-]. cbn [r_meta r_src]. split; [apply Hm; reflexivity | exact HI2].
  Qed.

  (* ---------- names of a parsed footer are substrings of the bytes parsed ---------- *)
  Lemma take_u64_drop b v r : take_u64 b = Some (v, r) -> r = dropN 8 b.
  Proof. unfold take_u64. destruct (len b <? 8); [discriminate|]. intros [= _ <-]. reflexivity. Qed.

  Lemma take_u64s_drop n : forall b vs r, take_u64s n b = Some (vs, r) -> exists k, r = dropN k b.
  Proof.
    induction n as [|n IH]; intros b vs r; cbn [take_u64s].
    - intros [= _ <-]. exists 0. reflexivity.
    - destruct (take_u64 b) as [[v r1]|] eqn:E1; [|discriminate].
      destruct (take_u64s n r1) as [[vs' r2]|] eqn:E2; [|discriminate]. intros [= _ <-].
      destruct (IH _ _ _ E2) as [k ->]. rewrite (take_u64_drop _ _ _ E1), dropN_dropN. eauto.
  Qed.

  Lemma parse_entry_sub b e r : parse_entry b = Some (e, r) -> Sub (fst e) b /\ exists k, r = dropN k b.
  Proof.
    unfold parse_entry.
    destruct (take_u64 b) as [[nl r1]|] eqn:E1; [|discriminate].
    destruct (N.ltb_spec (len r1) nl) as [|Hnl]; [discriminate|].
    destruct (negb (utf8_valid (takeN nl r1))); [discriminate|].
    destruct (take_u64 (dropN nl r1)) as [[no r2]|] eqn:E2; [|discriminate].
    destruct (len r2 <? 8 * no); [discriminate|].
    destruct (take_u64s (N.to_nat no) r2) as [[offs r3]|] eqn:E3; [|discriminate].
    destruct (take_u64 r3) as [[size r4]|] eqn:E4; [|discriminate].
    destruct (take_u64 r4) as [[eof r5]|] eqn:E5; [|discriminate].
    intros [= <- <-]. cbn [fst].
    apply take_u64_drop in E1, E2, E4, E5. destruct (take_u64s_drop _ _ _ _ E3) as [k3 E3'].
    split.
    - apply (Sub_drop 8). rewrite <- E1. exists 0. rewrite len_takeN.
      unfold sliceN. rewrite dropN_0. f_equal. lia.
    - subst. rewrite !dropN_dropN. eauto.
  Qed.

  Lemma parse_entries_sub n : forall b es, parse_entries n b = Some es ->
    Forall (fun e => Sub (fst e) b) es.
  Proof.
    induction n as [|n IH]; intros b es; cbn [parse_entries].
    - intros [= <-]. constructor.
    - destruct (parse_entry b) as [[e r]|] eqn:E1; [|discriminate].
      destruct (parse_entries n r) as [es'|] eqn:E2; [|discriminate]. intros [= <-].
      destruct (parse_entry_sub _ _ _ E1) as [Hs [k ->]].
      constructor; [exact Hs|]. eapply Forall_impl; [|exact (IH _ _ E2)].
      cbn beta. intros a Ha. exact (Sub_drop k _ _ Ha).
  Qed.

  Lemma parse_footer_map_sub b m : parse_footer_map b = Some m -> Forall (fun e => Sub (fst e) b) m.
  Proof.
    unfold parse_footer_map. destruct (take_u64 b) as [[n r]|] eqn:E1; [|discriminate].
    destruct (len r <? 32 * n); [discriminate|]. intros Hp.
    apply take_u64_drop in E1. subst r.
    eapply Forall_impl; [|exact (parse_entries_sub _ _ _ Hp)]. cbn beta. intros a Ha. exact (Sub_drop 8 _ _ Ha).
  Qed.

  (* the names of a footer obtained from the stream are substrings of the original plaintext *)
  Theorem footer_names_sub m : FooterAt m -> Forall (fun e => Sub (fst e) plain) m.
  Proof.
    intros (pos & b & _ & _ & _ & Hb & _ & Hp).
    eapply Forall_impl; [|exact (parse_footer_map_sub _ _ Hp)]. cbn beta. intros a Ha.
    apply (Sub_trans _ b); [exact Ha|]. rewrite Hb. apply Sub_slice.
  Qed.

  Lemma dedup_names_incl m : forall seen x, In x (dedup_names m seen) -> In x (map fst m).
  Proof.
    induction m as [|[k v] m IH]; intros seen x; cbn [dedup_names map fst In]; [tauto|].
    destruct (existsb (bytes_eqb k) seen).
    - intros H. right. exact (IH _ _ H).
    - intros [->|H]; [left; reflexivity | right; exact (IH _ _ H)].
  Qed.

  Theorem list_files_sub (r : rstate S) x : FooterAt (r_meta r) -> In x (list_files S r) -> Sub x plain.
  Proof.
    intros HF Hin. apply dedup_names_incl in Hin. apply in_map_iff in Hin. destruct Hin as (e & <- & He).
    pose proof (footer_names_sub _ HF) as Hall. rewrite Forall_forall in Hall. exact (Hall e He).
  Qed.

  (* ---------- get_hash / get_file / BlocksToFileReader::read: liveness and substrings ---------- *)
  Notation get_hash := (get_hash FNMAX T_START T_CONTENT T_EOA T_EOF S).
  Notation get_file := (get_file FNMAX T_START T_CONTENT T_EOA T_EOF S).
  Notation bread := (bread FNMAX T_START T_CONTENT T_EOA T_EOF S).
  Notation bread_ready := (bread_ready FNMAX T_START T_CONTENT T_EOA T_EOF S).

  (* a hash returned is the 32 bytes after [T_EOF; id] in the original plaintext at the
     recorded position; the reader stays usable whatever the outcome *)
  Theorem get_hash_sim (r : rstate S) name : Live (r_src r) ->
    exists r' x, get_hash r name = (r', x) /\ Live (r_src r') /\ r_meta r' = r_meta r /\
      forall h, x = Ok (Some h) -> exists fi i p',
        flookup (r_meta r) name = Some fi /\
        parse_block (Cursor plain) (fi_eof fi) = (p', Ok (PEof i h)).
  Proof.
    intros [p HI]. unfold Reader.get_hash.
    destruct (flookup (r_meta r) name) as [fi|] eqn:El.
    2:{ eexists _, _. split; [reflexivity|]. split; [eauto|]. split; [reflexivity | discriminate]. }
    destruct (ag_sk _ _ _ _ HA _ p (FromStart (fi_eof fi)) HI) as (s1 & r1 & -> & H1).
    destruct r1 as [q|e|c];
      [|eexists _, _; split; [reflexivity | split; [exact H1 | split; [reflexivity | discriminate]]]..].
    destruct H1 as [HI1 Hq]. cbn [seek_claim] in Hq. subst q.
    destruct (parse_block_sim s1 _ HI1) as (s2 & r2 & -> & H2).
    destruct r2 as [pb|e|c];
      [|eexists _, _; split; [reflexivity | split; [exact H2 | split; [reflexivity | discriminate]]]..].
    destruct H2 as (p2 & Hc & HI2 & _).
    destruct pb as [i nm|i l|i h|];
      try (eexists _, _; split; [reflexivity | split; [cbn [r_src]; eauto | split; [reflexivity | discriminate]]]).
    eexists _, _. split; [reflexivity|]. split; [cbn [r_src]; eauto|]. split; [reflexivity|].
    intros h' [= <-]. eauto.
  Qed.

  Theorem get_file_sim (r : rstate S) name : Live (r_src r) ->
    exists r' x, get_file r name = (r', x) /\ Live (r_src r') /\ r_meta r' = r_meta r /\
      forall bs sz, x = Ok (Some (bs, sz)) -> exists fi o0 offs id nm p',
        flookup (r_meta r) name = Some fi /\ fi_offsets fi = o0 :: offs /\ sz = fi_size fi /\
        parse_block (Cursor plain) o0 = (p', Ok (PStart id nm)) /\
        bs = mkB (r_src r') BReady id 0 (fi_offsets fi) /\ I (r_src r') p'.
  Proof.
    intros [p HI]. unfold Reader.get_file.
    destruct (flookup (r_meta r) name) as [fi|] eqn:El.
    2:{ eexists _, _. split; [reflexivity|]. split; [eauto|]. split; [reflexivity | discriminate]. }
    destruct (fi_offsets fi) as [|o0 offs] eqn:Eo.
    { eexists _, _. split; [reflexivity|]. split; [eauto|]. split; [reflexivity | discriminate]. }
    destruct (ag_sk _ _ _ _ HA _ p (FromStart o0) HI) as (s1 & r1 & -> & H1).
    destruct r1 as [q|e|c];
      [|eexists _, _; split; [reflexivity | split; [exact H1 | split; [reflexivity | discriminate]]]..].
    destruct H1 as [HI1 Hq]. cbn [seek_claim] in Hq. subst q.
    destruct (parse_block_sim s1 _ HI1) as (s2 & r2 & -> & H2).
    destruct r2 as [pb|e|c];
      [|eexists _, _; split; [reflexivity | split; [exact H2 | split; [reflexivity | discriminate]]]..].
    destruct H2 as (p2 & Hc & HI2 & _).
    destruct pb as [i nm|i l|i h|];
      try (eexists _, _; split; [reflexivity | split; [cbn [r_src]; eauto | split; [reflexivity | discriminate]]]).
    eexists _, _. split; [reflexivity|]. split; [cbn [r_src]; eauto|]. split; [reflexivity|].
    intros bs sz [= <- <-]. exists fi, o0, offs, i, nm, p2. cbn [r_src]. rewrite Eo. repeat split; auto.
  Qed.

  Lemma bmove_live (b : bstate S) : Live (b_src b) -> Live (b_src (fst (bmove S b))).
  Proof.
    intros [p HI]. unfold bmove. destruct (nth_error (b_offs b) (Datatypes.S (b_cur b))) as [o|]; [|cbn; eauto].
    destruct (ag_sk _ _ _ _ HA _ p (FromStart o) HI) as (s1 & r1 & -> & H1).
    destruct r1 as [q|e|c]; cbn [fst b_src]; [destruct H1; eauto | exact H1..].
  Qed.

  Lemma bread_data_sub (b : bstate S) s rem n : Live s ->
    exists b' x, bread_data S b s rem n = (b', x) /\ Live (b_src b') /\ forall d, x = Ok d -> Sub d plain.
  Proof.
    intros [p HI]. unfold bread_data.
    destruct (ag_rd _ _ _ _ HA s p (N.min rem n) HI) as (s1 & r1 & -> & H1).
    destruct r1 as [d|e|c]; [|eexists _, _; split; [reflexivity | split; [cbn [bset b_src]; eauto | discriminate]]..].
    destruct H1 as [Hd HI1]. destruct (rem <? len d).
    - eexists _, _; split; [reflexivity | split; [cbn [bset b_src]; eauto | discriminate]].
    - eexists _, _. split; [reflexivity|]. split; [cbn [bset b_src]; eauto|].
      intros d' [= <-]. rewrite Hd. apply Sub_slice.
  Qed.

  Lemma bread_ready_sub zf fuel : forall (b : bstate S) n, Live (b_src b) ->
    exists b' x, bread_ready fuel zf b n = (b', x) /\ Live (b_src b') /\ forall d, x = Ok d -> Sub d plain.
  Proof.
    assert (Hleaf : forall (b' : bstate S) (x : res bytes), Live (b_src b') -> (forall d, x = Ok d -> Sub d plain) ->
              exists b'' x', (b', x) = (b'', x') /\ Live (b_src b'') /\ forall d, x' = Ok d -> Sub d plain)
      by (intros b' x H1 H2; exists b', x; auto).
    induction fuel as [|fuel IH]; intros b n [p HI]; cbn [Reader.bread_ready];
      destruct (next_block_sim zf (b_id b) _ p HI) as (s1 & r1 & -> & H1);
      (destruct r1 as [pb|e|c]; [|apply Hleaf; [cbn [bset b_src]; exact H1 | discriminate]..]);
      destruct H1 as (p1 & _ & HI1 & _).
    - destruct pb as [i nm|i l|i h|].
      + destruct (i =? b_id b); apply Hleaf; cbn [bset b_src]; eauto; discriminate.
      + destruct (i =? b_id b); [apply bread_data_sub; eauto | apply Hleaf; cbn [bset b_src]; eauto; discriminate].
      + destruct (i =? b_id b); apply Hleaf; cbn [bset b_src]; eauto; try discriminate.
        intros d [= <-]. apply Sub_nil.
      + apply Hleaf; cbn [bset b_src]; eauto; discriminate.
    - assert (Hskip : exists b' x,
                match bmove S (bset S b s1 BReady) with
                | (b2, Ok _) => bread_ready fuel zf b2 n
                | (b2, Err e) => (b2, Err e)
                | (b2, Crash c) => (b2, Crash c)
                end = (b', x) /\ Live (b_src b') /\ forall d, x = Ok d -> Sub d plain).
      { pose proof (bmove_live (bset S b s1 BReady)) as Hm. cbn [bset b_src] in Hm. specialize (Hm (live_of _ _ HI1)).
        destruct (bmove S (bset S b s1 BReady)) as [b2 [u|e|c]]; cbn [fst] in Hm.
        - apply IH. exact Hm.
        - apply Hleaf; [exact Hm | discriminate].
        - apply Hleaf; [exact Hm | discriminate]. }
      destruct pb as [i nm|i l|i h|].
      + destruct (i =? b_id b); [apply Hleaf; cbn [bset b_src]; eauto; discriminate | exact Hskip].
      + destruct (i =? b_id b); [apply bread_data_sub; eauto | exact Hskip].
      + destruct (i =? b_id b); [|exact Hskip]. apply Hleaf; cbn [bset b_src]; eauto.
        intros d [= <-]. apply Sub_nil.
      + apply Hleaf; cbn [bset b_src]; eauto; discriminate.
  Qed.

  (* every byte string delivered by BlocksToFileReader::read is a substring of the original
     plaintext, whatever footer the reader was opened with *)
  Theorem bread_sub zf (b : bstate S) n : Live (b_src b) ->
    exists b' x, bread zf b n = (b', x) /\ Live (b_src b') /\ forall d, x = Ok d -> Sub d plain.
  Proof.
    intros HL. unfold Reader.bread. destruct (b_mode b) as [|rem|].
    - apply bread_ready_sub. exact HL.
    - apply bread_data_sub. exact HL.
    - eexists _, _. split; [reflexivity|]. split; [exact HL|]. intros d [= <-]. apply Sub_nil.
  Qed.
End Sim.
