(* SrcTie3Cmds2Tar.v — Tie A level 1 for `mlar to-tar` (work package cmdsT2): add_file_to_tar, the loop of to_tar and the whole
   command of mlar/src/main.rs as translated by tools/src2v3_cmds.py (gen/Src3m.v), over the model's library (SrcTie3Cmds2Inst.v,
   SrcTie3Cmds2Open.v) and the tar crate's append_data (SrcTie3Cmds.tar_entry_m), ARE Tar.tar_member / Cli.to_tar_loop /
   Cli.cmd_to_tar.

   DOMAIN (model imprecision, reported): Cli.to_tar_loop goes on to the next name when get_file or io::copy PANICS (Crash) and
   Cli.cmd_to_tar then reports exit status 0; the code unwinds: nothing more is added, Builder's Drop writes the trailer, exit
   status 101.  The equalities below are stated where no panic happens (to_tar_runs, computable; true of every archive made by
   `create`: to_tar_runs_created); what the code does when one happens is to_tar_for1_panic_stops. *)
From MLA Require Import Limit.
From MLA Require Import Base Stream Blocks Writer Reader RoundTripBlocks RoundTripFooter RoundTripReader RoundTripWriter RoundTripRun RoundTripGlue RoundTrip ReaderPos
  Format Ecies Archive Path Tar TarProofs Cli CliProofs CliArchive Keys.
From MLA Require Import SrcTie3Cmds SrcTie3Cmds2Open SrcTie3Cmds2Inst.
From MLAGen Require Src3m.
From Coq Require Import Permutation Lia ZifyBool ZifyNat ZifyN.
Open Scope N_scope.

(* ---------- add_file_to_tar ---------- *)
Section AddFile.
  Variable AF : Type.
  Variable af_name : AF -> bytes.
  Variable af_sz : AF -> N.
  Variable copy : AF -> AF * bytes * res unit.

  (* translated add_file_to_tar = the model's member: a refused path leaves NOTHING (the dry run: nothing read from the ArchiveFile,
     nothing written); an accepted one writes Tar.tar_member of the bytes io::copy delivered, whatever way the copy ends *)
  Theorem add_file_to_tar_src (t : Src3m.TarBuilder) (f : AF) (w : Src3m.World) :
    Src3m.add_file_to_tar AF af_name af_sz copy tar_entry_m t f w =
    if path_accepted (af_name f) then
      let '(f1, d, r) := copy f in
      let '(b, ok) := tar_member (af_name f) (af_sz f) d (is_ok r) in
      ((Src3m.dest_write t b w, t, f1), match r with Crash x => Crash x | _ => if ok then Ok tt else Err EIo end)
    else ((w, t, f), Err EIo).
  Proof.
    unfold Src3m.add_file_to_tar, path_accepted, tar_member. rewrite <- (tar_path_src (af_name f)).
    destruct (Src3m.path_is_absolute (af_name f)); cbv zeta;
      unfold Src3m.tar_dry_run, Src3m.tar_append_data, tar_entry_m;
      cbn [Src3m.th_mode Src3m.th_size Src3m.th_set_cksum Src3m.th_set_mode Src3m.th_set_size];
      (destruct (prepare_path _) as [pre [field|]]; cbn [snd]; [|reflexivity]);
      destruct (copy f) as [[f1 d] r]; destruct r as [u|e|c]; cbn [is_ok]; reflexivity.
  Qed.
End AddFile.

(* ---------- the loop ---------- *)
(* no get_file and no copy of the loop panics (the control flow of Cli.to_tar_loop) *)
Fixpoint to_tar_runs (FNMAX TS TC TA TE : N) (S : Stream) (zf fuel : nat) (r : rstate S) (names : list bytes) : bool :=
  match names with
  | [] => true
  | n :: rest =>
    match get_file FNMAX TS TC TA TE S r n with
    | (r1, Ok (Some (bs, size))) =>
      if path_accepted n then
        match io_copy FNMAX TS TC TA TE S zf fuel bs [] with
        | (_, _, Crash _) => false
        | (bs', _, _) => to_tar_runs FNMAX TS TC TA TE S zf fuel (after_copy r1 bs') rest
        end
      else to_tar_runs FNMAX TS TC TA TE S zf fuel r1 rest
    | (_, Crash _) => false
    | (r1, _) => to_tar_runs FNMAX TS TC TA TE S zf fuel r1 rest
    end
  end.

Section TarLoop.
  Context {LIM : Limit}.
  Variables FNMAX TS TC TA TE : N.
  Variable P : Type.
  Variable F : P -> Stream.
  Variables zf fuel : nat.

  Notation g_for1 := (Src3m.to_tar_for1 (ARm P F) (AFm P F) (get_file_m FNMAX TS TC TA TE P F) (af_filename_m P F) (af_size_m P F)
                        (af_release_m P F) (io_copy_m FNMAX TS TC TA TE P F zf fuel) tar_entry_m).
  Notation m_loop p := (to_tar_loop FNMAX TS TC TA TE (F p) zf fuel).
  Notation runs p := (to_tar_runs FNMAX TS TC TA TE (F p) zf fuel).

  (* the loop of to_tar, from any reader state, any names, whatever is already in the tarball: the destination receives exactly
     what Cli.to_tar_loop accumulates, the loop ends Ok *)
  Theorem to_tar_for1_sim t : forall names p (r : rstate (F p)) acc w,
    runs p r names = true ->
    let g := g_for1 (existT _ p r) t (Src3m.dest_write t acc w) names in
    fst (fst (fst g)) = Src3m.dest_write t (m_loop p r names acc) w /\ snd (fst g) = t /\ snd g = Ok tt.
  Proof.
    induction names as [|n names IH]; intros p r acc w Hr; cbn [Src3m.to_tar_for1 to_tar_loop to_tar_runs] in *.
    - cbn [fst snd]. auto.
    - cbn [get_file_m]. destruct (get_file FNMAX TS TC TA TE (F p) r n) as [r1 [[[bs sz]|]|e|c]] eqn:Eg.
      + rewrite add_file_to_tar_src. cbn [af_filename_m af_size_m projT2 af_nm af_sz].
        destruct (path_accepted n).
        * cbn [io_copy_m af_bs af_r af_nm af_sz]. destruct (io_copy FNMAX TS TC TA TE (F p) zf fuel bs []) as [[bs' d] e].
          destruct (tar_member n sz d (is_ok e)) as [b ok]. cbn [fst]. rewrite dest_write_app.
          destruct e as [u|e|c]; [| |discriminate]; destruct ok; cbn [af_release_m af_r af_bs]; apply IH; exact Hr.
        * cbn [af_release_m af_r af_bs]. rewrite (get_file_after_copy FNMAX TS TC TA TE _ _ _ _ _ _ Eg). apply IH. exact Hr.
      + apply IH. exact Hr.
      + apply IH. exact Hr.
      + discriminate.
  Qed.

  (* what the code does when get_file panics at the first name: nothing more reaches the tarball, the loop ends with the panic
     (Cli.to_tar_loop goes on with the other names) *)
  Theorem to_tar_for1_panic_stops t n names p (r r1 : rstate (F p)) c w :
    get_file FNMAX TS TC TA TE (F p) r n = (r1, Crash c) ->
    g_for1 (existT _ p r) t w (n :: names) = ((w, existT _ p r1, t), Crash c).
  Proof. intros Eg. cbn [Src3m.to_tar_for1 get_file_m]. rewrite Eg. reflexivity. Qed.
End TarLoop.

(* ---------- on archives made by `create`: nothing panics ---------- *)
Section RunsCreated.
  Context {LIM : Limit}.
  Variable FNMAX : N.
  Variables TS TC TA TE : N.
  Variable H : bytes -> bytes.
  Variable order : footer -> footer.
  Hypothesis Htags : tags_distinct TS TC TA TE.
  Hypothesis HHlen : forall x, len (H x) = 32.
  Hypothesis Horder : forall f, Permutation (order f) f.
  Variable ops : list wop.
  Variable sf : wstate.
  Variable rs : list (res N).
  Hypothesis Hrun : wrun FNMAX TS TC TA TE H order w_init (ops ++ [OFinalize]) = (sf, rs).
  Hypothesis Hok : Forall (fun r => is_ok r = true) rs.
  Hypothesis Hutf : forallb op_utf8 ops = true.
  Hypothesis Hlen64 : len (w_out sf) < 2 ^ 64.
  Hypothesis Hfoot32 : len (ser_footer_map (order (w_footer sf))) < 2 ^ 32.
  Variable S : Stream.
  Variable R : st S -> N -> Prop.
  Hypothesis HR : Refines S (w_out sf) R.
  Variable files : list (bytes * bytes).
  Hypothesis Hops : ops = create_ops files.
  Variables zf fuel : nat.
  Hypothesis Hfuel : forall n d, In (n, d) files -> (length d < fuel)%nat.
  Notation RS := (RS order sf S R).

  Lemma to_tar_runs_created names : (forall n, In n names -> In n (map fst files)) -> forall r, RS r ->
    to_tar_runs FNMAX TS TC TA TE S zf fuel r names = true.
  Proof.
    induction names as [|n names IH]; intros Hall r HRS; cbn [to_tar_runs]; [reflexivity|].
    destruct (file_step FNMAX TS TC TA TE H order Htags HHlen Horder ops sf rs Hrun Hok Hutf Hlen64 Hfoot32 S R HR files Hops
                r n HRS (Hall n (or_introl eq_refl))) as (r' & bs & -> & HRS' & _ & Hc).
    destruct (path_accepted n).
    - destruct (Hc zf fuel (fuel_lookup FNMAX TS TC TA TE H order HHlen Horder ops sf rs Hrun Hok Hutf Hlen64 Hfoot32 S R files Hops
                              fuel Hfuel r n HRS (Hall n (or_introl eq_refl)))) as (bs' & -> & HRS2).
      apply IH; [intros m Hm; apply Hall; right; exact Hm|exact HRS2].
    - apply IH; [intros m Hm; apply Hall; right; exact Hm|exact HRS'].
  Qed.
End RunsCreated.

(* ---------- the whole command, from the archive bytes ---------- *)
Section FromBytes.
  Variables CHUNK TAG BLOCK LIMIT FNMAX : N.
  Local Hint Extern 0 Limit => exact LIMIT : typeclass_instances.
  Variables TS TC TA TE : N.
  Variable dh : bytes -> bytes -> bytes.
  Variable kdf : bytes -> bytes.
  Variables wdec wtag : bytes -> bytes -> bytes.
  Variable ksf : bytes -> bytes -> N -> N -> N.
  Variable tagf : bytes -> bytes -> N -> bytes -> bytes.
  Variable dec : bytes -> bytes.
  Variables zf fuel : nat.
  Variable a : bytes.
  Variable KPath : Type.
  Variable fs_open_key : KPath -> Src3m.World -> res bytes.
  Variable parse_privkey : bytes -> res bytes.
  Variable site : N -> N.
  Variable arg_keys : option (list KPath).

  Notation stack_of := (Archive.stack_of CHUNK TAG BLOCK ksf tagf dec).
  Notation opened := (opened CHUNK TAG BLOCK ksf tagf dec).
  Notation cli_open := (cli_open CHUNK TAG BLOCK LIMIT dh kdf wdec wtag ksf tagf dec).
  Notation cmd_to_tar := (cmd_to_tar CHUNK TAG BLOCK LIMIT FNMAX TS TC TA TE dh kdf wdec wtag ksf tagf dec).
  Notation ckeys := (cli_keys KPath fs_open_key parse_privkey site arg_keys).

  (* `mlar to-tar -i <a> -o FILE [-k ..]`: the translated command over the model's library *)
  Definition to_tar_t : Src3m.World -> Src3m.World * res unit :=
    Src3m.to_tar unit KPath FileM Format.header (opened a) (AFm oparams (stack_of a)) tt false arg_keys
      fs_open_m file_rewind_m (header_from_m LIMIT a) hdr_contains_m
      (reader_from_config_m CHUNK TAG BLOCK LIMIT dh kdf wdec wtag ksf tagf dec a)
      (list_files_m oparams (stack_of a)) (get_file_m FNMAX TS TC TA TE oparams (stack_of a))
      (af_filename_m oparams (stack_of a)) (af_size_m oparams (stack_of a)) (af_release_m oparams (stack_of a))
      (io_copy_m FNMAX TS TC TA TE oparams (stack_of a) zf fuel) sort_names fs_open_key parse_privkey tar_entry_m TAR_END site.

  (* the domain: once opened, the loop meets no panic *)
  Definition to_tar_domain (privs : list bytes) : bool :=
    match cli_open a privs with
    | Ok (existT _ p r) => to_tar_runs FNMAX TS TC TA TE (stack_of a p) zf fuel r (sort_names (list_files (stack_of a p) r))
    | _ => true
    end.

  (* to_tar = Cli.cmd_to_tar: exit status, the output file (untouched when the open fails; else created and holding the members
     and the trailer), standard output *)
  Theorem to_tar_src privs :
    arg_keys <> Some [] -> ckeys world0 = Ok privs -> to_tar_domain privs = true ->
    cres_of (to_tar_t world0) = cmd_to_tar zf fuel a privs.
  Proof.
    intros Hne Hk Hd. unfold to_tar_t, Src3m.to_tar.
    pose proof (open_mla_file_src CHUNK TAG BLOCK LIMIT dh kdf wdec wtag ksf tagf dec a KPath fs_open_key parse_privkey site arg_keys
                  world0 Hne) as Ho.
    unfold open_t in Ho. rewrite Ho. clear Ho. rewrite Hk. unfold Cli.cmd_to_tar, to_tar_domain in *.
    destruct (cli_open a privs) as [[p r]|e|c]; [|reflexivity|reflexivity].
    unfold Src3m.destination_from_output_argument, Src3m.arg_output, Src3m.opath_is_dash, Src3m.sys_create, Src3m.tar_builder_new.
    cbv iota beta. cbn [list_files_m projT1 projT2].
    set (w3 := Src3m.w_set Src3m.PMain (fun _ : outeff => OWritten []) world0).
    set (t := Src3m.OFile Src3m.PMain).
    change w3 with (Src3m.dest_write t [] w3) at 1.
    pose proof (to_tar_for1_sim FNMAX TS TC TA TE oparams (stack_of a) zf fuel t (sort_names (list_files (stack_of a p) r)) p r [] w3 Hd) as Hl.
    cbv zeta in Hl.
    destruct (Src3m.to_tar_for1 _ _ _ _ _ _ _ _ _ _ _ _) as [[[w16 m17] t18] x]. cbn [fst snd] in Hl. destruct Hl as (-> & -> & ->).
    unfold Src3m.tar_finish. rewrite dest_write_app. reflexivity.
  Qed.
End FromBytes.

(* ---------- the model imprecision, concretely ---------- *)
(* a source whose seek panics (in the implementation: a layer's seek on hostile bytes), a footer listing one file "a":
   the translated loop ends with the panic (exit status 101); Cli.to_tar_loop goes on, and Cli.cmd_to_tar reports exit status 0.
   Hence the premise to_tar_runs of to_tar_for1_sim / to_tar_domain of to_tar_src cannot be dropped *)
Definition S_panics : Stream := {| st := unit; rd := fun s _ => (s, Ok []); sk := fun s _ => (s, Crash 7) |}.
Theorem to_tar_without_domain_refuted :
  exists (r : rstate S_panics) (names : list bytes),
    let g := Src3m.to_tar_for1 (ARm unit (fun _ => S_panics)) (AFm unit (fun _ => S_panics))
               (get_file_m 0 0 0 0 0 unit (fun _ => S_panics)) (af_filename_m unit (fun _ => S_panics))
               (af_size_m unit (fun _ => S_panics)) (af_release_m unit (fun _ => S_panics))
               (io_copy_m 0 0 0 0 0 unit (fun _ => S_panics) 0 0) tar_entry_m
               (existT _ tt r) (Src3m.OFile Src3m.PMain) world0 names in
    snd g = Crash 7 /\
    to_tar_loop 0 0 0 0 0 S_panics 0 0 r names [] = [] /\
    to_tar_runs 0 0 0 0 0 S_panics 0 0 r names = false.
Proof.
  exists (@mkR S_panics tt [([97], Blocks.mkFI [0] 0 0)]), [[97]]. cbv zeta. repeat split; reflexivity.
Qed.
