(* Run.v — entry points evaluated by the correspondence check (Tie B).  Each takes nested
   lists of N (what the harness gave the implementation) and returns rows of N in the same
   canonical encoding the harness prints for the implementation. *)
From MLA Require Import Base Stream EncLayer Inst.
Open Scope N_scope.

Definition signed (s m : N) : Z := if s =? 1 then (- Z.of_N m)%Z else Z.of_N m.
Definition op_whence (op : list N) : whence :=
  match op with
  | [1; a; _] => FromStart a
  | [2; s; m] => FromCur (signed s m)
  | [3; s; m] => FromEnd (signed s m)
  | _ => FromStart 0
  end.

Definition st_code {A} (r : res A) : N := match r with Ok _ => 0 | Err _ => 1 | Crash _ => 2 end.

(* C11, encryption layer over a cursor.  Row per op:
   [status; value; inner_pos; chunk_no; cache_pos; cache_len; bytes...] *)
Section C11Enc.
  Variable k : consts.
  Let CH := cCHUNK k. Let TG := cTAG k.
  Let S0 (wire : bytes) := Cursor wire.

  Definition enc_row (wire : bytes) (s : estate (S0 wire)) (val : N) (data : bytes) : list N :=
    [0; val; e_in s; e_chunk s; e_cpos s; len (e_cache s)] ++ data.

  Fixpoint c11_enc_ops (wire : bytes) (s : estate (S0 wire)) (ops : list (list N)) : list (list N) :=
    match ops with
    | [] => []
    | op :: rest =>
      match op with
      | 0 :: n :: _ =>
        match eread CH TG toy_ks (toy_tag TG) (S0 wire) s n with
        | (s', Ok d) => enc_row wire s' (len d) d :: c11_enc_ops wire s' rest
        | (s', Err _) => [1; 0] :: c11_enc_ops wire s' rest
        | (s', Crash _) => [[2]]
        end
      | _ =>
        match eseek CH TG toy_ks (toy_tag TG) (S0 wire) s (op_whence op) with
        | (s', Ok p) => enc_row wire s' p [] :: c11_enc_ops wire s' rest
        | (s', Err _) => [1; 0] :: c11_enc_ops wire s' rest
        | (s', Crash _) => [[2]]
        end
      end
    end.

  Definition c11_enc (plain : bytes) (ops : list (list N)) : list (list N) :=
    let wire := enc_format CH toy_ks (toy_tag TG) plain in
    match enc_open CH TG toy_ks (toy_tag TG) (S0 wire) 0 with
    | (s, Ok _) => c11_enc_ops wire s ops
    | (_, Err _) => [[1]]
    | (_, Crash _) => [[2]]
    end.
End C11Enc.

(* ---------- C09 / C01 (no layers): writer call sequences ---------- *)
From MLA Require Import Blocks Writer.
From MLA.Concrete Require Sha256.
From MLAGen Require Src.

Section C09.
  Variable k : consts.
  Let FN := cFNMAX k.
  Notation TS := Src.BT_FileStart. Notation TC := Src.BT_FileContent.
  Notation TA := Src.BT_EndOfArchiveData. Notation TE := Src.BT_EndOfFile.

  Definition ascii_name (code : N) : bytes :=
    (* "f<n>" for other codes: decimal digits *)
    let fix digits (fuel : nat) (n : N) (acc : bytes) : bytes :=
      match fuel with O => acc | S f => if n <? 10 then (48 + n) :: acc else digits f (n / 10) ((48 + n mod 10) :: acc) end in
    102 :: digits 20%nat code [].
  Definition name_of (code : N) : bytes :=
    match code with
    | 0 => [97] | 1 => [98] | 2 => []
    | 3 => repeat 120 (N.to_nat FN)
    | 4 => repeat 121 (N.to_nat FN + 1)
    | 5 => [99]
    | 6 => [104; 195; 169; 228; 184; 150]
    | n => ascii_name n
    end.
  Definition src_of (l salt : N) : bytes :=
    map (fun i => (10 + N.of_nat i + salt) mod 256) (seq 0 (N.to_nat l)).

  Definition decode_call (idx : N) (c : list N) : wop :=
    match c with
    | [0; n] => OStart (name_of n)
    | [1; id; size; sl] => OAppend id size (src_of sl idx)
    | [2; id] => OEnd id
    | [3; n; size; sl] => OAdd (name_of n) size (src_of sl idx)
    | [4] => OFlush
    | _ => OFinalize
    end.

  Definition wstep' := wstep FN TS TC TA TE Sha256.sha256 (fun f => f).
  Definition err_code (e : err) : N :=
    match e with EState | EDup | ENameTooLong => 1 | _ => 3 end.
  Definition res_row (r : res N) (v77 : bool) : list N :=
    match r with
    | Ok v => [0; if v77 then 77 else v]
    | Err e => [err_code e; if v77 then 77 else 0]
    | Crash _ => [2; if v77 then 77 else 0]
    end.

  Fixpoint run_calls (s : wstate) (idx : N) (calls : list (list N)) : wstate * list (list N) * bool :=
    match calls with
    | [] => (s, [], false)
    | c :: r =>
      match wstep' s (decode_call idx c) with
      | (s', Crash x) => (s', [[2; 0]], true)
      | (s', x) => let '(s2, rows, cr) := run_calls s' (idx + 1) r in (s2, res_row x false :: rows, cr)
      end
    end.

  (* lexicographic order on names, insertion sort of footer entries *)
  Fixpoint bytes_leb (a b : bytes) : bool :=
    match a, b with
    | [], _ => true
    | _ :: _, [] => false
    | x :: a', y :: b' => if x <? y then true else if y <? x then false else bytes_leb a' b'
    end.
  Fixpoint ins_entry (e : bytes * finfo) (l : footer) : footer :=
    match l with
    | [] => [e]
    | h :: t => if bytes_leb (fst e) (fst h) then e :: l else h :: ins_entry e t
    end.
  Definition sort_footer (m : footer) : footer := fold_right ins_entry [] m.
  Definition footer_row (e : bytes * finfo) : list N :=
    [len (fst e)] ++ fst e ++ [len (fi_offsets (snd e))] ++ fi_offsets (snd e) ++ [fi_size (snd e); fi_eof (snd e)].

  (* split a layer-less body as the harness does: stream up to the footer, footer rows *)
  Definition observe_body (body : bytes) : list (list N) :=
    if len body <? 4 then [[8; 1]] else
    let flen := le_val (dropN (len body - 4) body) in
    if len body <? flen + 4 then [[8; 1]] else
    let fstart := len body - 4 - flen in
    match parse_footer_map (sliceN fstart flen body) with
    | Some m => (9 :: takeN fstart body) :: map footer_row (sort_footer m)
    | None => [[8; 1]]
    end.

  Definition c09_run (calls : list (list N)) : list (list N) :=
    let '(s, rows, crashed) := run_calls (w_init) 0 calls in
    if crashed then rows ++ [[8]] else
    if w_final s then rows ++ observe_body (w_out s) else
    let s1 := fold_left (fun st id => fst (wstep' st (OEnd id))) [0; 1; 2; 3; 4; 5; 6; 7] s in
    match wstep' s1 OFinalize with
    | (s2, Ok _) => rows ++ observe_body (w_out s2)
    | (s2, r) => rows ++ [res_row r true] ++ [[8]]
    end.
End C09.
