(* Run.v — entry points evaluated by the correspondence check (Tie B).  Each takes nested
   lists of N (what the harness gave the implementation) and returns rows of N in the same
   canonical encoding the harness prints for the implementation. *)
From MLA Require Import Base Stream EncLayer Inst.
Open Scope N_scope.

Definition signed (s m : N) : Z := if s =? 1 then (- Z.of_N m)%Z else Z.of_N m.
Definition op_whence (op : list N) : whence :=
  match op with
  | [1; a; _] => FromStart a
  | [2; s; m] => FromCur (signed s m)
  | [3; s; m] => FromEnd (signed s m)
  | _ => FromStart 0
  end.

Definition st_code {A} (r : res A) : N := match r with Ok _ => 0 | Err _ => 1 | Crash _ => 2 end.

(* C11, encryption layer over a cursor.  Row per op:
   [status; value; inner_pos; chunk_no; cache_pos; cache_len; bytes...] *)
Section C11Enc.
  Variable k : consts.
  Let CH := cCHUNK k. Let TG := cTAG k.
  Let S0 (wire : bytes) := Cursor wire.

  Definition enc_row (wire : bytes) (s : estate (S0 wire)) (val : N) (data : bytes) : list N :=
    [0; val; e_in s; e_chunk s; e_cpos s; len (e_cache s)] ++ data.

  Fixpoint c11_enc_ops (wire : bytes) (s : estate (S0 wire)) (ops : list (list N)) : list (list N) :=
    match ops with
    | [] => []
    | op :: rest =>
      match op with
      | 0 :: n :: _ =>
        match eread CH TG toy_ks (toy_tag TG) (S0 wire) s n with
        | (s', Ok d) => enc_row wire s' (len d) d :: c11_enc_ops wire s' rest
        | (s', Err _) => [1; 0] :: c11_enc_ops wire s' rest
        | (s', Crash _) => [[2]]
        end
      | _ =>
        match eseek CH TG toy_ks (toy_tag TG) (S0 wire) s (op_whence op) with
        | (s', Ok p) => enc_row wire s' p [] :: c11_enc_ops wire s' rest
        | (s', Err _) => [1; 0] :: c11_enc_ops wire s' rest
        | (s', Crash _) => [[2]]
        end
      end
    end.

  Definition c11_enc (plain : bytes) (ops : list (list N)) : list (list N) :=
    let wire := enc_format CH toy_ks (toy_tag TG) plain in
    match enc_open CH TG toy_ks (toy_tag TG) (S0 wire) 0 with
    | (s, Ok _) => c11_enc_ops wire s ops
    | (_, Err _) => [[1]]
    | (_, Crash _) => [[2]]
    end.
End C11Enc.
