(* Run.v — entry points evaluated by the correspondence check (Tie B).  Each takes nested
   lists of N (what the harness gave the implementation) and returns rows of N in the same
   canonical encoding the harness prints for the implementation. *)
From MLA Require Import Limit.
From MLAGen Require Src.
(* executable entry points: the production value of BINCODE_MAX_DESERIALIZE (the same in both flavours), file-local *)
#[local] Instance RUN_LIMIT : Limit := MLAGen.Src.BINCODE_MAX_DESERIALIZE_prod.
From MLA Require Import Base Stream EncLayer Inst.
Open Scope N_scope.

Definition signed (s m : N) : Z := if s =? 1 then (- Z.of_N m)%Z else Z.of_N m.
Definition op_whence (op : list N) : whence :=
  match op with
  | [1; a; _] => FromStart a
  | [2; s; m] => FromCur (signed s m)
  | [3; s; m] => FromEnd (signed s m)
  | _ => FromStart 0
  end.

Definition st_code {A} (r : res A) : N := match r with Ok _ => 0 | Err _ => 1 | Crash _ => 2 end.

(* C11, encryption layer over a cursor.  Row per op:
   [status; value; inner_pos; chunk_no; cache_pos; cache_len; bytes...] *)
Section C11Enc.
  Variable k : consts.
  Let CH := cCHUNK k. Let TG := cTAG k.
  Let S0 (wire : bytes) := Cursor wire.

  Definition enc_row (wire : bytes) (s : estate (S0 wire)) (val : N) (data : bytes) : list N :=
    [0; val; e_in s; e_chunk s; e_cpos s; len (e_cache s)] ++ data.

  Fixpoint c11_enc_ops (wire : bytes) (s : estate (S0 wire)) (ops : list (list N)) : list (list N) :=
    match ops with
    | [] => []
    | op :: rest =>
      match op with
      | 0 :: n :: _ =>
        match eread CH TG toy_ks (toy_tag TG) (S0 wire) s n with
        | (s', Ok d) => enc_row wire s' (len d) d :: c11_enc_ops wire s' rest
        | (s', Err _) => [1; 0] :: c11_enc_ops wire s' rest
        | (s', Crash _) => [[2]]
        end
      | _ =>
        match eseek CH TG toy_ks (toy_tag TG) (S0 wire) s (op_whence op) with
        | (s', Ok p) => enc_row wire s' p [] :: c11_enc_ops wire s' rest
        | (s', Err _) => [1; 0] :: c11_enc_ops wire s' rest
        | (s', Crash _) => [[2]]
        end
      end
    end.

  Definition c11_enc (plain : bytes) (ops : list (list N)) : list (list N) :=
    let wire := enc_format CH toy_ks (toy_tag TG) plain in
    match enc_open CH TG toy_ks (toy_tag TG) (S0 wire) 0 with
    | (s, Ok _) => c11_enc_ops wire s ops
    | (_, Err _) => [[1]]
    | (_, Crash _) => [[2]]
    end.
End C11Enc.

(* ---------- C09 / C01 (no layers): writer call sequences ---------- *)
From MLA Require Import Blocks Writer.
From MLA.Concrete Require Sha256.
From MLAGen Require Src.

Section C09.
  Variable k : consts.
  Let FN := cFNMAX k.
  Notation TS := Src.BT_FileStart. Notation TC := Src.BT_FileContent.
  Notation TA := Src.BT_EndOfArchiveData. Notation TE := Src.BT_EndOfFile.

  Definition ascii_name (code : N) : bytes :=
    (* "f<n>" for other codes: decimal digits *)
    let fix digits (fuel : nat) (n : N) (acc : bytes) : bytes :=
      match fuel with O => acc | S f => if n <? 10 then (48 + n) :: acc else digits f (n / 10) ((48 + n mod 10) :: acc) end in
    102 :: digits 20%nat code [].
  Definition name_of (code : N) : bytes :=
    match code with
    | 0 => [97] | 1 => [98] | 2 => []
    | 3 => repeat 120 (N.to_nat FN)
    | 4 => repeat 121 (N.to_nat FN + 1)
    | 5 => [99]
    | 6 => [104; 195; 169; 228; 184; 150]
    | 7 => concat (repeat [195; 169] (N.to_nat (FN / 2 + 1)))   (* <= FN characters, > FN bytes *)
    | n => ascii_name n
    end.
  Definition src_of (l salt : N) : bytes :=
    map (fun i => (10 + N.of_nat i + salt) mod 256) (seq 0 (N.to_nat l)).

  Definition decode_call (idx : N) (c : list N) : wop :=
    match c with
    | [0; n] => OStart (name_of n)
    | [1; id; size; sl] => OAppend id size (src_of sl idx)
    | [2; id] => OEnd id
    | [3; n; size; sl] => OAdd (name_of n) size (src_of sl idx)
    | [4] => OFlush
    | _ => OFinalize
    end.

  Definition wstep' := wstep FN TS TC TA TE Sha256.sha256 (fun f => f).
  Definition err_code (e : err) : N :=
    match e with EState | EDup | ENameTooLong => 1 | _ => 3 end.
  Definition res_row (r : res N) (v77 : bool) : list N :=
    match r with
    | Ok v => [0; if v77 then 77 else v]
    | Err e => [err_code e; if v77 then 77 else 0]
    | Crash _ => [2; if v77 then 77 else 0]
    end.

  Fixpoint run_calls (s : wstate) (idx : N) (calls : list (list N)) : wstate * list (list N) * bool :=
    match calls with
    | [] => (s, [], false)
    | c :: r =>
      match wstep' s (decode_call idx c) with
      | (s', Crash x) => (s', [[2; 0]], true)
      | (s', x) => let '(s2, rows, cr) := run_calls s' (idx + 1) r in (s2, res_row x false :: rows, cr)
      end
    end.

  (* lexicographic order on names, insertion sort of footer entries *)
  Fixpoint bytes_leb (a b : bytes) : bool :=
    match a, b with
    | [], _ => true
    | _ :: _, [] => false
    | x :: a', y :: b' => if x <? y then true else if y <? x then false else bytes_leb a' b'
    end.
  Fixpoint ins_entry (e : bytes * finfo) (l : footer) : footer :=
    match l with
    | [] => [e]
    | h :: t => if bytes_leb (fst e) (fst h) then e :: l else h :: ins_entry e t
    end.
  Definition sort_footer (m : footer) : footer := fold_right ins_entry [] m.
  Definition footer_row (e : bytes * finfo) : list N :=
    [len (fst e)] ++ fst e ++ [len (fi_offsets (snd e))] ++ fi_offsets (snd e) ++ [fi_size (snd e); fi_eof (snd e)].

  (* split a layer-less body as the harness does: stream up to the footer, footer rows *)
  Definition observe_body (body : bytes) : list (list N) :=
    if len body <? 4 then [[8; 1]] else
    let flen := le_val (dropN (len body - 4) body) in
    if len body <? flen + 4 then [[8; 1]] else
    let fstart := len body - 4 - flen in
    match parse_footer_map (sliceN fstart flen body) with
    | Some m => (9 :: takeN fstart body) :: map footer_row (sort_footer m)
    | None => [[8; 1]]
    end.

  Definition c09_run (calls : list (list N)) : list (list N) :=
    let '(s, rows, crashed) := run_calls (w_init) 0 calls in
    if crashed then rows ++ [[8]] else
    if w_final s then rows ++ observe_body (w_out s) else
    let s1 := fold_left (fun st id => fst (wstep' st (OEnd id))) (map N.of_nat (seq 0 64)) s in
    match wstep' s1 OFinalize with
    | (s2, Ok _) => rows ++ observe_body (w_out s2)
    | (s2, r) => rows ++ [res_row r true] ++ [[8]]
    end.
End C09.

(* ---------- C01 / C10 / C12: reading histories over any top-layer stream ---------- *)
From MLA Require Import Reader InstGcm.
From MLA.Concrete Require Aes.

Section Hist.
  Variable k : consts.
  Variable S : Stream.
  Notation TS := Src.BT_FileStart. Notation TC := Src.BT_FileContent.
  Notation TA := Src.BT_EndOfArchiveData. Notation TE := Src.BT_EndOfFile.
  Let FN := cFNMAX k.

  Notation get_hash := (get_hash FN TS TC TA TE S).
  Notation get_file := (get_file FN TS TC TA TE S).
  Notation bread := (bread FN TS TC TA TE S).
  Notation linear_extract := (linear_extract FN TS TC TA TE S).

  Definition err_row {A} (r : res A) : list N :=
    match r with Ok _ => [0] | Err _ => [1] | Crash _ => [2] end.

  (* reads with the given buffer sizes (one Read::read each); the last size repeats until the
     end of the file when `to_end`.  zf: the bound on consecutive empty content blocks stepped
     over by one read (Reader.next_block); more than the stream length always suffices *)
  Fixpoint do_reads (zf fuel : nat) (b : bstate S) (sizes : list N) (to_end : bool)
    : bstate S * list (list N) :=
    match fuel with
    | O => (b, [[9]])
    | Datatypes.S fuel' =>
      match sizes with
      | [] => (b, [])
      | n :: rest =>
        match bread zf b n with
        | (b1, Ok d) =>
          let again := match rest with [] => to_end && negb (len d =? 0) | _ => true end in
          let sizes' := match rest with [] => [n] | _ => rest end in
          if again then let '(b2, rows) := do_reads zf fuel' b1 sizes' to_end in (b2, (0 :: d) :: rows)
          else (b1, [0 :: d])
        | (b1, Err _) => (b1, [[1]])
        | (b1, Crash _) => (b1, [[2]])
        end
      end
    end.

  Fixpoint sort_names (l : list bytes) : list bytes :=
    match l with
    | [] => []
    | x :: r => (fix ins (x : bytes) (l : list bytes) : list bytes :=
                   match l with [] => [x] | h :: t => if bytes_leb x h then x :: l else h :: ins x t end)
                x (sort_names r)
    end.

  Definition pieces_for (name : bytes) (ps : list (bytes * bytes)) : bytes :=
    concat (map snd (filter (fun p => bytes_eqb (fst p) name) ps)).

  (* one history op; names are referred to by index in `names` *)
  Definition hist_op (fuel : nat) (names : list bytes) (r : rstate S) (op : list N)
    : rstate S * list (list N) :=
    let name_at i := nth (N.to_nat i) names [] in
    match op with
    | [0] => (r, map (fun n => 5 :: n) (sort_names (list_files S r)))
    | [1; i] =>
      match get_hash r (name_at i) with
      | (r1, Ok (Some h)) => (r1, [0 :: h])
      | (r1, Ok None) => (r1, [[4]])
      | (r1, x) => (r1, [err_row x])
      end
    | 2 :: i :: sizes =>
      match get_file r (name_at i) with
      | (r1, Ok (Some (b, size))) =>
        let '(b1, rows) := do_reads fuel fuel b sizes false in
        (mkR (b_src b1) (r_meta r1), [7; size] :: rows)
      | (r1, Ok None) => (r1, [[4]])
      | (r1, x) => (r1, [err_row x])
      end
    | [3; i; n] =>
      match get_file r (name_at i) with
      | (r1, Ok (Some (b, size))) =>
        let '(b1, rows) := do_reads fuel fuel b [n] true in
        (mkR (b_src b1) (r_meta r1), [7; size] :: rows)
      | (r1, Ok None) => (r1, [[4]])
      | (r1, x) => (r1, [err_row x])
      end
    | 4 :: chosen =>
      let export := map name_at chosen in
      match linear_extract fuel r export with
      | Ok ps => (r, [0] :: map (fun n => 6 :: pieces_for n ps) export)
      | x => (r, [err_row x])
      end
    | _ => (r, [[9; 9]])
    end.

  Fixpoint hist_ops (fuel : nat) (names : list bytes) (r : rstate S) (ops : list (list N)) : list (list N) :=
    match ops with
    | [] => []
    | op :: rest => let '(r1, rows) := hist_op fuel names r op in rows ++ [[88]] ++ hist_ops fuel names r1 rest
    end.

  Definition hist_run (fuel : nat) (s0 : st S) (names : list bytes) (ops : list (list N)) : list (list N) :=
    match ropen S s0 with
    | Ok r => [0] :: hist_ops fuel names r ops
    | x => [err_row x]
    end.
End Hist.

(* layer-less archive body *)
Definition hist_plain (k : consts) (body : bytes) (names : list bytes) (ops : list (list N)) : list (list N) :=
  hist_run k (Cursor body) (N.to_nat (len body) + 16) 0 names ops.

(* encrypted archive body, concrete AES-256-GCM *)
Definition hist_enc (k : consts) (key nonce8 body : bytes) (names : list bytes) (ops : list (list N)) : list (list N) :=
  let rk := Aes.aes256_expand key in
  let CH := cCHUNK k in let TG := cTAG k in
  let nchunks := N.to_nat (len body / (CH + TG) + 2) in
  let tab := gcm_tab rk nonce8 CH nchunks in
  let ks := gcm_ks tab in let tagc := gcm_tagc rk nonce8 in
  match enc_open CH TG ks tagc (Cursor body) 0 with
  | (s, Ok _) => hist_run k (EncReader CH TG ks tagc (Cursor body)) (N.to_nat (len body) + 16) s names ops
  | (_, Err _) => [[1; 1]]
  | (_, Crash _) => [[2; 1]]
  end.

(* ---------- C02 / C04 / C05: repair ---------- *)
From MLA Require Import Repair.

Definition fstatus_code (f : fstatus) : N :=
  match f with
  | FNoError => 0 | FEofNextBlock => 1 | FIoNextBlock => 2 | FErrNextBlock => 3
  | FIdReuse => 4 | FIdClosed => 5 | FNameReuse => 6 | FContentUnknown => 7 | FEofUnknown => 8
  | FErrInFile => 9 | FHashDiffers => 10 | FInternal => 11 | FEndOfData => 12
  end.

Section RepairRun.
  Variable k : consts.
  Variable S : Stream.
  Notation TS := Src.BT_FileStart. Notation TC := Src.BT_FileContent.
  Notation TA := Src.BT_EndOfArchiveData. Notation TE := Src.BT_EndOfFile.

  Definition full_ops (n : nat) : list (list N) :=
    [0] :: flat_map (fun i => [[1; N.of_nat i]; [3; N.of_nat i; 100000]]) (seq 0 n).

  (* rows: [status; #unfinished], unfinished names sorted, [88], then the repaired archive
     (layer-less body) re-read by the reader model: list, and hash + full read of every file *)
  Definition repair_run (fuel : nat) (s0 : st S) : list (list N) :=
    match repair (cFNMAX k) (cCACHE k) TS TC TA TE Sha256.sha256 S fuel s0 w_init with
    | Ok (status, unfinished, out) =>
      let names := sort_names (map fst (w_files out)) in
      [fstatus_code status; len unfinished] :: map (fun n => 5 :: n) (sort_names unfinished)
        ++ [[88]] ++ hist_plain k (w_out out) names (full_ops (length names))
    | Err _ => [[1]]
    | Crash _ => [[2]]
    end.
End RepairRun.

Definition repair_plain (k : consts) (body : bytes) : list (list N) :=
  repair_run k (Cursor body) (N.to_nat (len body) + 16) 0.

(* the fail-safe encryption reader as a (read-only) stream *)
Definition FsEnc (CH TG : N) (ks : N -> N -> N) (tagc : N -> bytes -> bytes) (unauth : bool) (S : Stream) : Stream :=
  {| st := estate S;
     rd := fs_read CH TG ks tagc S unauth;
     sk := fun s _ => (s, Err EInval) |}.

Definition repair_enc (k : consts) (key nonce8 body : bytes) (unauth : N) : list (list N) :=
  let rk := Aes.aes256_expand key in
  let CH := cCHUNK k in let TG := cTAG k in
  let nchunks := N.to_nat (len body / (CH + TG) + 2) in
  let tab := gcm_tab rk nonce8 CH nchunks in
  let ks := gcm_ks tab in let tagc := gcm_tagc rk nonce8 in
  match fs_open CH TG ks (Cursor body) 0 with
  | (s, Ok _) => repair_run k (FsEnc CH TG ks tagc (unauth =? 1) (Cursor body)) (N.to_nat (len body) + 16) s
  | (_, Err _) => [[1]]
  | (_, Crash _) => [[2]]
  end.

(* ---------- C16: extraction paths (mlar extract) on the model file system ---------- *)
From MLA Require Path.

Section C16.
  Import Path.
  Definition c16_out : path := [[111; 117; 116]].
  Definition c16_fs0 : fs := [(c16_out, Dir)].
  Definition c16_content (i : nat) : bytes := [N.of_nat i; 1; 2; 3].
  (* members whose name length is a multiple of 3 are EMPTY files (harness: cli.rs member_content_for) *)
  Definition c16_content_for (name : bytes) (i : nat) : bytes :=
    if (len name mod 3 =? 0) then [] else c16_content i.
  Fixpoint join_path (p : path) : bytes :=
    match p with [] => [] | [c] => c | c :: r => c ++ 47 :: join_path r end.
  Fixpoint dedup_paths (l : list path) (seen : list path) : list path :=
    match l with
    | [] => []
    | p :: r => if existsb (path_eqb p) seen then dedup_paths r seen else p :: dedup_paths r (p :: seen)
    end.
  Definition files_under (f : fs) : list (bytes * bytes) :=
    flat_map (fun p =>
      if prefixb c16_out p then
        match lookup f p with
        | Some (File c) => [(join_path (skipn (length c16_out) p), c)]
        | _ => []
        end
      else []) (dedup_paths (map fst f) []).
  Fixpoint ins_row (e : bytes * bytes) (l : list (bytes * bytes)) : list (bytes * bytes) :=
    match l with
    | [] => [e]
    | h :: t => if bytes_leb (fst e) (fst h) then e :: l else h :: ins_row e t
    end.
  Definition c16_run (_ : consts) (form : N) (names : list bytes) (order : list N) (listed : N) : list (list N) :=
    let member i := (nth i names [], c16_content_for (nth i names []) i) in
    let '(f, ok) :=
      if form =? 0 then
        extract_linear c16_out names (map (fun i => member (N.to_nat i)) order) c16_fs0
      else if form =? 1 then
        extract_all c16_out (map member (seq 0 (length names))) c16_fs0
      else
        extract_all c16_out [member (N.to_nat listed)] c16_fs0 in
    [if ok then 1 else 0] :: map (fun e => fst e ++ 256 :: snd e) (fold_right ins_row [] (files_under f)).

  (* c16-symlink: the output directory already holds symbolic links that lead outside.
     "/" of the model is the sandbox directory of the harness (the archive file a.mla, which
     no operation touches, is left out on both sides); the layout is Path.fs_sandbox.
     Result: status row, then EVERY regular file of the sandbox (path 256 content), every
     directory (257 path) and every symbolic link (258 path), each group sorted by path. *)
  Definition c16sl_fs0 : fs := fs_sandbox.
  Definition all_nodes (f : fs) : list (bytes * node) :=
    flat_map (fun p => match p with
                       | [] => []
                       | _ => match lookup f p with Some n => [(join_path p, n)] | None => [] end
                       end) (dedup_paths (map fst f) []).
  Definition snapshot_rows (f : fs) : list (list N) :=
    let ns := all_nodes f in
    let sorted (l : list (bytes * bytes)) := fold_right ins_row [] l in
    map (fun e => fst e ++ 256 :: snd e)
        (sorted (flat_map (fun e => match snd e with File c => [(fst e, c)] | _ => [] end) ns)) ++
    map (fun e => 257 :: fst e)
        (sorted (flat_map (fun e => match snd e with Dir => [(fst e, [])] | _ => [] end) ns)) ++
    map (fun e => 258 :: fst e)
        (sorted (flat_map (fun e => match snd e with Link _ => [(fst e, [])] | _ => [] end) ns)).
  Definition c16sl_extract (form : N) (names : list bytes) (order : list N) (listed : N) (f0 : fs)
    : fs * bool :=
    let member i := (nth i names [], c16_content_for (nth i names []) i) in
    if form =? 0 then
      extract_linear c16_out names (map (fun i => member (N.to_nat i)) order) f0
    else if form =? 1 then
      extract_all c16_out (map member (seq 0 (length names))) f0
    else
      extract_all c16_out [member (N.to_nat listed)] f0.
  Definition c16sl_run (_ : consts) (form : N) (names : list bytes) (order : list N) (listed : N)
    : list (list N) :=
    let '(f, ok) := c16sl_extract form names order listed c16sl_fs0 in
    [if ok then 1 else 0] :: snapshot_rows f.
End C16.
