(* PathBenign.v — property C16, second half, on a file system that may hold
   anything (symbolic links included) inside and outside the output directory:
   members whose names contain no "..", do not collide once normalised and are
   not routed through something that is already there are extracted beneath
   the output directory with exactly their content.
   All statements are about the model of Path.v. *)
From MLA Require Import Base Path PathProofs PathLinks.
Import Coq.Strings.String.StringSyntax Coq.Strings.Ascii.AsciiSyntax.

(* The way to out/q is clear: nothing exists at out/q, and each proper ancestor
   of it beneath out is missing or is a real directory (not a symbolic link,
   not a file).  The rest of the file system, beneath out and elsewhere, is
   arbitrary. *)
Definition clear_path (out : path) (f : fs) (q : path) : Prop :=
  lookup f (out ++ q) = None /\
  forall r, r <> [] -> prefix r q -> r <> q ->
    lookup f (out ++ r) = None \/ lookup f (out ++ r) = Some Dir.

(* what create_dir_all does along a clear way *)
Lemma mkdir_all_clear : forall rest f cur f1 b,
  (forall r, r <> [] -> prefix r rest ->
     lookup f (cur ++ r) = None \/ lookup f (cur ++ r) = Some Dir) ->
  mkdir_all f cur rest = (f1, b) ->
  b = true /\ dirs_from f1 cur rest /\
  (forall p, lookup f1 p = lookup f p \/
             (lookup f p = None /\ lookup f1 p = Some Dir /\
              exists r, r <> [] /\ prefix r rest /\ p = cur ++ r)).
Proof.
  induction rest as [|c r IH]; intros f cur f1 b Hok; cbn [mkdir_all].
  - intros H; inversion H; subst. split; [reflexivity|]. split; [exact I|]. intros p; left; reflexivity.
  - assert (Hshift : forall p r', prefix r' r -> p = (cur ++ [c]) ++ r' ->
              exists r0, r0 <> [] /\ prefix r0 (c :: r) /\ p = cur ++ r0).
    { intros p r' [t ->] ->. exists (c :: r'). split; [discriminate|]. split.
      - exists t; reflexivity.
      - now rewrite <- app_assoc. }
    assert (Hc : lookup f (cur ++ [c]) = None \/ lookup f (cur ++ [c]) = Some Dir).
    { apply Hok; [discriminate|exists r; reflexivity]. }
    assert (Hstep : forall r', r' <> [] -> prefix r' r ->
              lookup f ((cur ++ [c]) ++ r') = None \/ lookup f ((cur ++ [c]) ++ r') = Some Dir).
    { intros r' Hne [t ->]. rewrite <- app_assoc. cbn [app]. apply Hok; [discriminate|].
      exists t; reflexivity. }
    destruct Hc as [Hc|Hc]; rewrite Hc.
    + intros H.
      destruct (IH (set f (cur ++ [c]) Dir) (cur ++ [c]) f1 b) as [Hb [Hd Hch]]; [|exact H|].
      { intros r' Hne Hpr. rewrite lookup_set_neq; [now apply Hstep|].
        intros E. apply (f_equal (@length _)) in E. rewrite !app_length in E.
        destruct r'; [congruence|cbn [length] in E; lia]. }
      split; [exact Hb|]. split.
      * cbn [dirs_from]. split; [|exact Hd].
        destruct (Hch (cur ++ [c])) as [E|[E _]];
          rewrite lookup_set_eq in E by apply snoc_neq_nil; congruence.
      * intros p. destruct (path_eqb (cur ++ [c]) p) eqn:E.
        -- apply path_eqb_eq in E; subst p. right. split; [exact Hc|]. split.
           ++ destruct (Hch (cur ++ [c])) as [E|[E _]];
                rewrite lookup_set_eq in E by apply snoc_neq_nil; congruence.
           ++ exists [c]. split; [discriminate|]. split; [exists r; reflexivity|reflexivity].
        -- apply path_eqb_false in E.
           destruct (Hch p) as [E0|[E1 [E2 [r' [_ [Hr' Hpp]]]]]];
             rewrite lookup_set_neq in * by exact E.
           ++ left; exact E0.
           ++ right. split; [exact E1|]. split; [exact E2|]. now apply (Hshift _ r').
    + intros H. destruct (IH f (cur ++ [c]) f1 b Hstep H) as [Hb [Hd Hch]].
      split; [exact Hb|]. split.
      * cbn [dirs_from]. split; [|exact Hd].
        destruct (Hch (cur ++ [c])) as [E|[E _]]; congruence.
      * intros p. destruct (Hch p) as [E|[E1 [E2 [r' [_ [Hr' ->]]]]]]; [left; exact E|].
        right. split; [exact E1|]. split; [exact E2|]. now apply (Hshift _ r').
Qed.

(* a walk along a clear way meets no link *)
Lemma walk_clear : forall rest f cur,
  (forall r, r <> [] -> prefix r rest ->
     lookup f (cur ++ r) = None \/ lookup f (cur ++ r) = Some Dir) ->
  (walk f cur (down rest) = WDone (cur ++ rest) /\ dirs_from f cur rest) \/
  walk f cur (down rest) = WFail.
Proof.
  induction rest as [|c r IH]; intros f cur Hok; cbn [walk down map dirs_from]; try fold (down r).
  - left. now rewrite app_nil_r.
  - assert (Hc : lookup f (cur ++ [c]) = None \/ lookup f (cur ++ [c]) = Some Dir).
    { apply Hok; [discriminate|exists r; reflexivity]. }
    destruct Hc as [Hc|Hc]; rewrite Hc; [right; reflexivity|].
    destruct (IH f (cur ++ [c])) as [[Hw Hd]|Hw].
    + intros r' Hne [t ->]. rewrite <- app_assoc. cbn [app]. apply Hok; [discriminate|].
      exists t; reflexivity.
    + left. rewrite Hw, <- app_assoc. auto.
    + right; exact Hw.
Qed.

(* `if !parent.exists() { create_dir_all(parent)? }` along a clear way *)
Lemma prepare_parent_clear_way out q' f :
  real_dir f out -> sys_ok (out ++ q') = true ->
  (forall r, r <> [] -> prefix r q' ->
     lookup f (out ++ r) = None \/ lookup f (out ++ r) = Some Dir) ->
  exists f1, prepare_parent f (out ++ q') = (f1, true) /\
    real_dir f1 (out ++ q') /\
    (forall p, lookup f1 p = lookup f p \/
               (lookup f p = None /\ lookup f1 p = Some Dir /\
                exists r, r <> [] /\ prefix r q' /\ p = out ++ r)).
Proof.
  intros Hr Hok Hclear. unfold prepare_parent. rewrite Hok.
  unfold exists_. destruct (canonicalize f (out ++ q')) as [x|] eqn:Hc.
  - exists f. split; [reflexivity|]. split; [|intros p; left; reflexivity].
    apply real_dir_app. split; [exact Hr|].
    unfold canonicalize in Hc.
    pose proof (walk_app_dirs f [] out q' Hr) as Hw. cbn [app] in Hw.
    destruct (walk_clear q' f out Hclear) as [[_ Hd]|H]; [exact Hd|].
    rewrite <- Hw in H. rewrite (resolve_fail _ _ _ _ H) in Hc. discriminate.
  - unfold create_dir_all. rewrite (mkdir_all_app_dirs f [] out q' Hr). cbn [app].
    destruct (mkdir_all f out q') as [f1 b] eqn:Hmk.
    destruct (mkdir_all_clear q' f out f1 b Hclear Hmk) as [-> [Hd Hch]].
    exists f1. split; [reflexivity|]. split; [|exact Hch].
    apply real_dir_app. split; [|exact Hd].
    apply (mk_rel_dirs_from f f1); [|exact Hr].
    intros p. destruct (Hch p) as [E|[E1 [E2 _]]]; [left; exact E|right; split; assumption].
Qed.

(* create_file for one benign member whose way is clear *)
Lemma create_file_clear out f name :
  real_dir f out ->
  ~ In ParentDir (components name) -> norm name <> [] ->
  sys_ok (out ++ norm name) = true ->
  clear_path out f (norm name) ->
  exists f2 q' c,
    norm name = q' ++ [c] /\
    create_file out name f = (f2, Created (out ++ norm name) (out ++ norm name)) /\
    lookup f2 (out ++ norm name) = Some (File []) /\
    real_dir f2 (out ++ q') /\
    (forall p, lookup f2 p = lookup f p \/
       (lookup f p = None /\
        ((p = out ++ norm name /\ lookup f2 p = Some (File [])) \/
         (lookup f2 p = Some Dir /\ exists r, r <> [] /\ prefix r q' /\ p = out ++ r)))).
Proof.
  intros Hr Hnp Hne Hok [Hlit Hway].
  destruct (split_last (norm name)) as [[q' c]|] eqn:Hsl;
    [|apply split_last_none in Hsl; congruence].
  apply split_last_some in Hsl.
  set (q := norm name) in *.
  assert (Hclear : forall r, r <> [] -> prefix r q' ->
            lookup f (out ++ r) = None \/ lookup f (out ++ r) = Some Dir).
  { intros r Hrne Hp. apply Hway; [exact Hrne|rewrite Hsl; now apply prefix_app_r|].
    rewrite Hsl. now apply not_prefix_snoc. }
  assert (Hokp : sys_ok (out ++ q') = true).
  { apply (sys_ok_app_l _ [c]). rewrite <- app_assoc, <- Hsl. exact Hok. }
  destruct (prepare_parent_clear_way out q' f Hr Hokp Hclear) as [f1 [Hpp [Hr1 Hch]]].
  assert (Hlit1 : lookup f1 ((out ++ q') ++ [c]) = None).
  { rewrite <- app_assoc, <- Hsl.
    destruct (Hch (out ++ q)) as [E|[_ [_ [r [_ [Hp E]]]]]]; [congruence|].
    apply app_inv_head in E. exfalso. rewrite Hsl in E. symmetry in E.
    exact (not_prefix_snoc q' c r Hp E). }
  assert (Hliteq : (out ++ q') ++ [c] = out ++ q) by now rewrite <- app_assoc, <- Hsl.
  exists (set f1 ((out ++ q') ++ [c]) (File [])), q', c.
  split; [exact Hsl|]. split.
  { unfold create_file, create_file_with.
    rewrite (get_extracted_path_norm out name Hnp). fold q.
    rewrite <- Hliteq, split_last_snoc, Hpp.
    rewrite (canonicalize_real f1 _ Hr1).
    replace (prefixb out (out ++ q')) with true
      by (symmetry; apply prefixb_prefix; apply prefix_app).
    replace (sys_is_symlink f1 ((out ++ q') ++ [c])) with false.
    2:{ unfold sys_is_symlink, is_symlink.
        rewrite (lstat_snoc f1 (out ++ q') c (out ++ q')
                   (canonicalize_real f1 _ Hr1) (real_dir_is_dir f1 _ Hr1)).
        rewrite Hlit1. now rewrite andb_false_r. }
    unfold sys_file_create. rewrite Hliteq, Hok, <- Hliteq.
    unfold file_create.
    rewrite (open_create_fresh _ f1 (out ++ q') c (out ++ q')
               (canonicalize_real f1 _ Hr1) (real_dir_is_dir f1 _ Hr1) Hlit1).
    reflexivity. }
  rewrite <- Hliteq.
  split; [apply lookup_set_eq; apply snoc_neq_nil|].
  split; [apply set_file_dirs_from; [left; exact Hlit1|exact Hr1]|].
  intros p. destruct (path_eqb ((out ++ q') ++ [c]) p) eqn:E.
  - apply path_eqb_eq in E; subst p. right. split; [rewrite Hliteq; exact Hlit|].
    left. split; [reflexivity|]. apply lookup_set_eq. apply snoc_neq_nil.
  - apply path_eqb_false in E. rewrite lookup_set_neq by exact E.
    destruct (Hch p) as [E0|[E1 [E2 Hex]]]; [left; exact E0|].
    right. split; [exact E1|]. right. split; [exact E2|exact Hex].
Qed.

(* f2 differs from f only where f had nothing *)
Definition only_adds (f f2 : fs) : Prop :=
  forall p, lookup f2 p = lookup f p \/ lookup f p = None.

Lemma only_adds_trans f f1 f2 : only_adds f f1 -> only_adds f1 f2 -> only_adds f f2.
Proof.
  intros H1 H2 p. destruct (H2 p) as [E2|E2]; destruct (H1 p) as [E1|E1]; try (right; congruence).
  left; congruence.
Qed.

Lemma only_adds_dirs_from f f2 : only_adds f f2 -> forall rest cur,
  dirs_from f cur rest -> dirs_from f2 cur rest.
Proof.
  intros Ha. induction rest as [|c r IH]; intros cur; cbn [dirs_from]; [auto|].
  intros [Hl Hd]. split; [|now apply IH]. destruct (Ha (cur ++ [c])) as [E|E]; congruence.
Qed.

(* members already extracted: content and a real parent directory *)
Definition extracted (out : path) (f : fs) (qd : path * bytes) : Prop :=
  lookup f (out ++ fst qd) = Some (File (snd qd)) /\
  exists q' c, fst qd = q' ++ [c] /\ real_dir f (out ++ q').

Lemma only_adds_extracted out f f2 qd :
  only_adds f f2 -> extracted out f qd -> extracted out f2 qd.
Proof.
  intros Ha [Hl [q' [c [Hq Hr]]]]. split.
  - destruct (Ha (out ++ fst qd)) as [E|E]; congruence.
  - exists q', c. split; [exact Hq|]. exact (only_adds_dirs_from f f2 Ha _ _ Hr).
Qed.

(* what the extraction of one member with normalised path q changes *)
Definition delta (out q : path) (f f' : fs) : Prop :=
  forall p, lookup f' p = lookup f p \/
    (lookup f p = None /\
     ((p = out ++ q /\ exists d, lookup f' p = Some (File d)) \/
      (lookup f' p = Some Dir /\ exists r, r <> [] /\ prefix r q /\ r <> q /\ p = out ++ r))).

Lemma delta_only_adds out q f f' : delta out q f f' -> only_adds f f'.
Proof. intros H p. destruct (H p) as [E|[E _]]; auto. Qed.

Lemma delta_outside out q f f' p : delta out q f f' -> ~ prefix out p -> lookup f' p = lookup f p.
Proof.
  intros H Hnp. destruct (H p) as [E|[_ [[-> _]|[_ [r [_ [_ [_ ->]]]]]]]]; [exact E| |];
    exfalso; apply Hnp; apply prefix_app.
Qed.

(* the way of an unrelated member stays clear *)
Lemma delta_clear_path out q q2 f f' :
  delta out q f f' -> unrelated q q2 -> clear_path out f q2 -> clear_path out f' q2.
Proof.
  intros Hd [Hn1 Hn2] [Hlit Hway]. split.
  - destruct (Hd (out ++ q2)) as [E|[_ [[E _]|[_ [r [_ [Hp [_ E]]]]]]]]; [congruence| |];
      apply app_inv_head in E; exfalso.
    + apply Hn1. rewrite E. apply prefix_refl.
    + apply Hn2. now rewrite E.
  - intros r2 Hne Hp2 Hneq.
    destruct (Hd (out ++ r2)) as [E|[_ [[E _]|[E _]]]].
    + rewrite E. now apply Hway.
    + apply app_inv_head in E. exfalso. apply Hn1. now rewrite <- E.
    + right; exact E.
Qed.

(* one member of the per-file loop, way clear *)
Lemma extract_member_clear out f name content :
  real_dir f out ->
  ~ In ParentDir (components name) -> norm name <> [] ->
  sys_ok (out ++ norm name) = true ->
  clear_path out f (norm name) ->
  exists f',
    extract_member out (name, content) f = (f', true) /\
    extracted out f' (norm name, content) /\
    (forall p, lookup f' p = lookup f p \/
       (lookup f p = None /\
        ((p = out ++ norm name /\ lookup f' p = Some (File content)) \/
         (lookup f' p = Some Dir /\ exists r, r <> [] /\ prefix r (norm name) /\ r <> norm name /\
                                        p = out ++ r)))).
Proof.
  intros Hr Hnp Hne Hok Hcl.
  destruct (create_file_clear out f name Hr Hnp Hne Hok Hcl)
    as [f2 [q' [c [Hq [Hcf [Hl2 [Hr2 Hch]]]]]]].
  exists (set f2 (out ++ norm name) (File content)).
  assert (Hnn : out ++ norm name <> []).
  { rewrite Hq, app_assoc. apply snoc_neq_nil. }
  split.
  { unfold extract_member. cbn [fst snd]. rewrite Hcf. unfold write_at. now rewrite Hl2. }
  split.
  { split; cbn [fst snd]; [now apply lookup_set_eq|].
    exists q', c. split; [exact Hq|].
    apply set_file_dirs_from; [right; eauto|exact Hr2]. }
  intros p. destruct (path_eqb (out ++ norm name) p) eqn:E.
  - apply path_eqb_eq in E; subst p. right. split; [exact (proj1 Hcl)|].
    left. split; [reflexivity|now apply lookup_set_eq].
  - apply path_eqb_false in E. rewrite lookup_set_neq by exact E.
    destruct (Hch p) as [E0|[E1 [[-> _]|[E2 [r [Hrne [Hp ->]]]]]]]; [left; exact E0|congruence|].
    right. split; [exact E1|]. right. split; [exact E2|].
    exists r. split; [exact Hrne|]. split; [rewrite Hq; now apply prefix_app_r|].
    split; [rewrite Hq; now apply not_prefix_snoc|reflexivity].
Qed.

Lemma extract_member_clear_delta out f name content f' :
  (forall p, lookup f' p = lookup f p \/
       (lookup f p = None /\
        ((p = out ++ norm name /\ lookup f' p = Some (File content)) \/
         (lookup f' p = Some Dir /\ exists r, r <> [] /\ prefix r (norm name) /\ r <> norm name /\
                                        p = out ++ r)))) ->
  delta out (norm name) f f'.
Proof.
  intros H p. destruct (H p) as [E|[E1 [[E2 E3]|E2]]]; [left; exact E|right|right];
    (split; [exact E1|]); [left; eauto|right; exact E2].
Qed.

Lemma extract_all_clear out ms : forall f,
  real_dir f out ->
  Forall (benign out) ms ->
  pairwise unrelated (map (fun m => norm (fst m)) ms) ->
  Forall (fun m => clear_path out f (norm (fst m))) ms ->
  exists f', extract_all out ms f = (f', true) /\
    Forall (fun m => extracted out f' (norm (fst m), snd m)) ms /\
    only_adds f f' /\
    (forall p, ~ prefix out p -> lookup f' p = lookup f p).
Proof.
  induction ms as [|[name content] ms IH]; intros f Hr Hb Hpw Hcl.
  - exists f. cbn [extract_all]. split; [reflexivity|]. split; [constructor|].
    split; [intros p; left; reflexivity|reflexivity].
  - inversion Hb as [|? ? [Hnp [Hne Hok]] Hb']; subst.
    inversion Hcl as [|? ? Hcl1 Hcl']; subst.
    cbn [map pairwise fst] in Hpw. destruct Hpw as [Hpw1 Hpw'].
    cbn [fst] in *.
    destruct (extract_member_clear out f name content Hr Hnp Hne Hok Hcl1)
      as [f1 [Hem [Hex1 Hch]]].
    pose proof (extract_member_clear_delta out f name content f1 Hch) as Hd.
    pose proof (delta_only_adds _ _ _ _ Hd) as Ha1.
    destruct (IH f1) as [f' [Hex [Hall [Ha Hout]]]]; [| exact Hb' | exact Hpw' | |].
    + exact (only_adds_dirs_from f f1 Ha1 _ _ Hr).
    + apply Forall_forall. intros m Hm.
      apply (delta_clear_path out (norm name) (norm (fst m)) f f1 Hd).
      * apply (proj1 (Forall_forall _ _) Hpw1 (norm (fst m))).
        apply in_map_iff. exists m. split; [reflexivity|exact Hm].
      * exact (proj1 (Forall_forall _ _) Hcl' m Hm).
    + exists f'. cbn [extract_all]. rewrite Hem. split; [exact Hex|].
      split; [constructor; [|exact Hall]|split].
      * cbn [fst snd]. exact (only_adds_extracted out f1 f' _ Ha Hex1).
      * exact (only_adds_trans _ _ _ Ha1 Ha).
      * intros p Hp. rewrite (Hout p Hp). exact (delta_outside _ _ _ _ p Hd Hp).
Qed.

(* (f) on ANY file system.  Members whose names contain no ".." component,
   normalise to a non-empty path, stay within the limits of the system-call
   interface, whose normalised paths are pairwise distinct and not prefixes of
   one another, and whose way is clear in the initial file system: nothing
   exists yet at out/<normalised name>, and each of its proper ancestors
   beneath out is missing or a real directory — so the member is not routed
   through a symbolic link or an existing file.  Apart from that the file
   system is arbitrary: other directories, files and symbolic links, inside
   and outside out.  Then the per-file loop runs to the end without error,
   every member can be read back at out ++ norm name (its own canonical path)
   with exactly its content, everything that was there before is still there
   unchanged (symbolic links included), and nothing at all changes outside
   out. *)
Theorem benign_extracted_any_fs out ms f :
  real_dir f out ->
  Forall (benign out) ms ->
  pairwise unrelated (map (fun m => norm (fst m)) ms) ->
  Forall (fun m => clear_path out f (norm (fst m))) ms ->
  exists f', extract_all out ms f = (f', true) /\
    (forall name content, In (name, content) ms ->
       lookup f' (out ++ norm name) = Some (File content) /\
       canonicalize f' (out ++ norm name) = Some (out ++ norm name) /\
       read_file f' (out ++ norm name) = Some content) /\
    (forall p n, lookup f p = Some n -> lookup f' p = Some n) /\
    (forall p, ~ prefix out p -> lookup f' p = lookup f p).
Proof.
  intros Hr Hb Hpw Hcl.
  destruct (extract_all_clear out ms f Hr Hb Hpw Hcl) as [f' [Hex [Hall [Ha Hout]]]].
  exists f'. split; [exact Hex|]. split; [|split; [|exact Hout]].
  - intros name content Hm.
    destruct (proj1 (Forall_forall _ _) Hall _ Hm) as [Hl [q' [c [Hq Hrq]]]]. cbn [fst snd] in *.
    split; [exact Hl|]. rewrite Hq, app_assoc in *.
    now apply (read_file_reachable f' (out ++ q') c content).
  - intros p n Hl. destruct (Ha p) as [E|E]; congruence.
Qed.
Print Assumptions benign_extracted_any_fs.

(* the earlier statement (empty output directory) is an instance *)
Lemma fresh_under_clear_path out f q : fresh_under out f -> q <> [] -> clear_path out f q.
Proof.
  intros Hf Hne. split; [now apply Hf|]. intros r Hr _ _. left. now apply Hf.
Qed.

(* a decision procedure for clear_path, for the examples *)
Definition clear_pathb (out : path) (f : fs) (q : path) : bool :=
  match lookup f (out ++ q) with None => true | _ => false end &&
  forallb (fun k => match lookup f (out ++ firstn k q) with
                    | None | Some Dir => true
                    | _ => false
                    end) (seq 1 (length q - 1)).

Lemma prefix_firstn {A} (r q : list A) : prefix r q -> r = firstn (length r) q.
Proof.
  intros [t ->]. rewrite firstn_app, Nat.sub_diag, firstn_all. cbn [firstn]. now rewrite app_nil_r.
Qed.

Lemma clear_pathb_ok out f q : clear_pathb out f q = true -> clear_path out f q.
Proof.
  unfold clear_pathb. rewrite andb_true_iff, forallb_forall. intros [H1 H2]. split.
  - destruct (lookup f (out ++ q)); [discriminate|reflexivity].
  - intros r Hne Hp Hnq.
    pose proof (prefix_length _ _ Hp) as Hlen.
    assert (Hlt : (length r < length q)%nat).
    { destruct (Nat.eq_dec (length r) (length q)) as [E|E]; [|lia].
      exfalso. apply Hnq. now apply prefix_same_length. }
    assert (Hpos : (1 <= length r)%nat) by (destruct r; [congruence|cbn [length]; lia]).
    specialize (H2 (length r)). rewrite <- (prefix_firstn r q Hp) in H2.
    assert (Hin : In (length r) (seq 1 (length q - 1))) by (apply in_seq; lia).
    specialize (H2 Hin).
    destruct (lookup f (out ++ r)) as [[|d|t]|]; try discriminate; auto.
Qed.

(* non-vacuity on the harness sandbox: out holds three links leading outside;
   "deep/x" goes through the real directory out/deep, "inside/ok.txt" through
   a directory that does not exist yet *)
Example benign_any_fs_sandbox :
  let ms := [ (s2b "deep/x", s2b "X"); (s2b "inside/ok.txt", s2b "I"); (s2b "zz_benign", s2b "B") ] in
  real_dir fs_sandbox out_ /\ Forall (benign out_) ms /\
  pairwise unrelated (map (fun m => norm (fst m)) ms) /\
  Forall (fun m => clear_path out_ fs_sandbox (norm (fst m))) ms /\
  exists f', extract_all out_ ms fs_sandbox = (f', true) /\
    read_file f' (out_ ++ [s2b "deep"; s2b "x"]) = Some (s2b "X") /\
    is_symlink f' (out_ ++ [s2b "flink"]) = true.
Proof.
  cbv zeta. split; [vm_compute; auto|]. split; [|split; [|split]].
  - repeat constructor; try (vm_compute; reflexivity); try (vm_compute; discriminate);
      vm_compute; intros H; repeat (destruct H as [H|H]; [discriminate|]); exact H.
  - cbn [map pairwise fst]. repeat split; repeat constructor;
      intros Hp; apply prefixb_prefix in Hp; vm_compute in Hp; discriminate.
  - repeat (apply Forall_cons; [apply clear_pathb_ok; vm_compute; reflexivity|]). apply Forall_nil.
  - eexists. split; [vm_compute; reflexivity|]. split; vm_compute; reflexivity.
Qed.

(* ... and a member routed through a link does not have a clear way *)
Example routed_through_link_not_clear :
  ~ clear_path out_ fs_sandbox (norm (s2b "link/x")) /\ ~ clear_path out_ fs_sandbox (norm (s2b "flink")).
Proof.
  split.
  - intros [_ H].
    assert (Hp : prefix [s2b "link"] (norm (s2b "link/x"))) by (exists [s2b "x"]; reflexivity).
    assert (Hn : [s2b "link"] <> norm (s2b "link/x")) by (vm_compute; discriminate).
    destruct (H [s2b "link"] ltac:(discriminate) Hp Hn) as [E|E]; vm_compute in E; discriminate E.
  - intros [H _]. vm_compute in H. discriminate.
Qed.

(* ================================================================== *)
(** * The linear form (the default `mlar extract` path) *)

Lemma create_file_clear_delta out f name f2 q' c :
  norm name = q' ++ [c] ->
  (forall p, lookup f2 p = lookup f p \/
       (lookup f p = None /\
        ((p = out ++ norm name /\ lookup f2 p = Some (File [])) \/
         (lookup f2 p = Some Dir /\ exists r, r <> [] /\ prefix r q' /\ p = out ++ r)))) ->
  delta out (norm name) f f2.
Proof.
  intros Hq H p. destruct (H p) as [E|[E1 [[E2 E3]|[E2 [r [Hne [Hp ->]]]]]]]; [left; exact E|right|right];
    (split; [exact E1|]); [left; eauto|right].
  split; [exact E2|]. exists r. split; [exact Hne|]. split; [rewrite Hq; now apply prefix_app_r|].
  split; [rewrite Hq; now apply not_prefix_snoc|reflexivity].
Qed.

(* phase 1: create_file for every name *)
Lemma create_all_clear out names : forall f,
  real_dir f out ->
  Forall (fun n => benign out (n, [])) names ->
  pairwise unrelated (map norm names) ->
  Forall (fun n => clear_path out f (norm n)) names ->
  exists f', create_all out names f = (f', map (fun n => (n, out ++ norm n)) names, true) /\
    Forall (fun n => extracted out f' (norm n, [])) names /\
    only_adds f f' /\
    (forall p, ~ prefix out p -> lookup f' p = lookup f p).
Proof.
  induction names as [|name names IH]; intros f Hr Hb Hpw Hcl.
  - exists f. cbn [create_all map]. split; [reflexivity|]. split; [constructor|].
    split; [intros p; left; reflexivity|reflexivity].
  - inversion Hb as [|? ? [Hnp [Hne Hok]] Hb']; subst.
    inversion Hcl as [|? ? Hcl1 Hcl']; subst.
    cbn [map pairwise] in Hpw. destruct Hpw as [Hpw1 Hpw'].
    cbn [fst] in *.
    destruct (create_file_clear out f name Hr Hnp Hne Hok Hcl1)
      as [f1 [q' [c [Hq [Hcf [Hl1 [Hr1 Hch]]]]]]].
    pose proof (create_file_clear_delta out f name f1 q' c Hq Hch) as Hd.
    pose proof (delta_only_adds _ _ _ _ Hd) as Ha1.
    destruct (IH f1) as [f' [Hca [Hall [Ha Hout]]]]; [| exact Hb' | exact Hpw' | |].
    + exact (only_adds_dirs_from f f1 Ha1 _ _ Hr).
    + apply Forall_forall. intros n Hn.
      apply (delta_clear_path out (norm name) (norm n) f f1 Hd).
      * apply (proj1 (Forall_forall _ _) Hpw1 (norm n)). now apply in_map.
      * exact (proj1 (Forall_forall _ _) Hcl' n Hn).
    + exists f'. cbn [create_all map]. rewrite Hcf, Hca. split; [reflexivity|].
      split; [constructor; [|exact Hall]|split].
      * apply (only_adds_extracted out f1 f' _ Ha). split; cbn [fst snd]; [exact Hl1|eauto].
      * exact (only_adds_trans _ _ _ Ha1 Ha).
      * intros p Hp. rewrite (Hout p Hp). exact (delta_outside _ _ _ _ p Hd Hp).
Qed.

(* (f), linear form, on ANY file system: as benign_extracted_any_fs; each
   member ends up with the concatenation of its blocks, in archive order *)
Theorem benign_extracted_linear_any_fs out names blocks f :
  real_dir f out ->
  Forall (fun n => benign out (n, [])) names ->
  pairwise unrelated (map norm names) ->
  Forall (fun n => clear_path out f (norm n)) names ->
  exists f', extract_linear out names blocks f = (f', true) /\
    (forall name, In name names ->
       read_file f' (out ++ norm name) =
         Some (concat (map snd (filter (fun b => bytes_eqb (fst b) name) blocks)))) /\
    (forall p, ~ prefix out p -> lookup f' p = lookup f p).
Proof.
  intros Hr Hb Hpw Hcl.
  destruct (create_all_clear out names f Hr Hb Hpw Hcl) as [f1 [Hca [Hall [_ Hout1]]]].
  set (ex := map (fun n => (n, out ++ norm n)) names) in *.
  assert (Hfa : forall n, In n names ->
            exists q' c, norm n = q' ++ [c] /\ real_dir f1 (out ++ q') /\
                         lookup f1 (out ++ norm n) = Some (File [])).
  { intros n Hn. destruct (proj1 (Forall_forall _ _) Hall n Hn) as [Hl [q' [c [Hq Hrq]]]].
    cbn [fst snd] in *. exists q', c. auto. }
  destruct (append_blocks_spec ex blocks f1) as [f' [Hab [Hcont [Hdirs Hframe]]]].
  { intros n lit Hfe. apply find_export_some in Hfe. destruct Hfe as [Hn ->].
    destruct (Hfa n Hn) as [q' [c [Hq [Hrp Hl]]]].
    exists (out ++ q'), c, []. split; [now rewrite Hq, app_assoc|]. split; assumption. }
  exists f'. split.
  { unfold extract_linear. now rewrite Hca. }
  split.
  - intros name Hn. destruct (Hfa name Hn) as [q' [c [Hq [Hrp Hl]]]].
    specialize (Hcont _ _ Hl). cbn [app] in Hcont.
    assert (Hbd : block_data ex (out ++ norm name) blocks =
                  concat (map snd (filter (fun b => bytes_eqb (fst b) name) blocks))).
    { unfold block_data. do 2 f_equal. apply filter_ext. intros [n data]. cbn [fst].
      destruct (find_export ex n) as [l|] eqn:Hfe.
      - apply find_export_some in Hfe. destruct Hfe as [Hn' ->].
        destruct (bytes_eqb n name) eqn:E.
        + apply bytes_eqb_eq in E; subst n. apply path_eqb_refl.
        + apply bytes_eqb_false in E. apply path_eqb_false. intros Heq.
          apply app_inv_head in Heq. apply E.
          exact (pairwise_unrelated_inj norm names n name Hpw Hn' Hn Heq).
      - destruct (bytes_eqb n name) eqn:E; [|reflexivity].
        apply bytes_eqb_eq in E; subst n.
        pose proof (find_export_in (fun n => out ++ norm n) names name Hn) as Hfi.
        assert (Hx : @None path = Some (out ++ norm name)) by (rewrite <- Hfe; exact Hfi).
        discriminate Hx. }
    rewrite Hbd in Hcont. rewrite Hq, app_assoc in *.
    apply (read_file_reachable f' (out ++ q') c); [|exact Hcont].
    now apply Hdirs.
  - intros p Hp. rewrite Hframe; [now apply Hout1|].
    intros n Hfe. apply find_export_some in Hfe. destruct Hfe as [_ ->].
    apply Hp. apply prefix_app.
Qed.
Print Assumptions benign_extracted_linear_any_fs.
