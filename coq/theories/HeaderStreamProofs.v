(* HeaderStreamProofs.v — the streamed header read (HeaderStream.read_header_s) over ANY source
   that refines a cursor over bytes b (any short-read schedule) returns exactly what
   Archive.read_header returns on b, leaves the source at the end of the header, and on any
   bytes whatsoever ends in Ok or Err (never Crash, never out of fuel) having consumed at most
   7 + LIMIT bytes.

   Method: every bincode primitive is simulated by a pure parser (value, bytes consumed); the
   invariant is  position + limit left  never increases (each primitive charges before it
   reads), and is preserved exactly on success. *)
From MLA Require Import Limit.
From MLA Require Import Base Stream Format Archive HeaderStream.
From Coq Require Import ZifyBool ZifyNat ZifyN.
Open Scope N_scope.

(* ---------- pure side: the parsers against Format.take / take_items ---------- *)
Lemma dropN_0 {A} (l : list A) : dropN 0 l = l.
Proof. reflexivity. Qed.
Lemma takeN_cons1 {A} (x : A) r : takeN 1 (x :: r) = [x].
Proof. reflexivity. Qed.
Lemma dropN_cons1 {A} (x : A) r : dropN 1 (x :: r) = r.
Proof. reflexivity. Qed.
Lemma le_val_1 x : le_val [x] = x.
Proof. cbn [le_val]. lia. Qed.

Lemma ptake_take n r :
  ptake n r = match take n r with Some (x, _) => Some (x, n) | None => None end.
Proof.
  unfold ptake, take. destruct (N.leb_spec n (len r)), (N.ltb_spec (len r) n); try lia; reflexivity.
Qed.
Lemma take_rest n r x r' : take n r = Some (x, r') -> x = takeN n r /\ r' = dropN n r /\ n <= len r.
Proof.
  unfold take. destruct (N.ltb_spec (len r) n); [discriminate|]. intros E; injection E as <- <-. auto.
Qed.

Lemma pbytes_ptake k r : pbytes k r = ptake (N.of_nat k) r.
Proof.
  revert r; induction k as [|k IH]; intros r.
  - cbn [pbytes]. unfold pret, ptake. change (N.of_nat 0) with 0.
    destruct (N.leb_spec 0 (len r)); [|lia]. reflexivity.
  - cbn [pbytes]. unfold pbind at 1. unfold ptake at 1.
    destruct (N.leb_spec 1 (len r)) as [H1|H1].
    + unfold pbind. rewrite IH. unfold ptake, pret.
      rewrite len_dropN.
      destruct (N.leb_spec (N.of_nat k) (len r - 1)), (N.leb_spec (N.of_nat (Datatypes.S k)) (len r)); try lia.
      * f_equal. f_equal; [|lia].
        replace (N.of_nat (Datatypes.S k)) with (1 + N.of_nat k) by lia. rewrite takeN_add. reflexivity.
      * reflexivity.
    + unfold ptake. destruct (N.leb_spec (N.of_nat (Datatypes.S k)) (len r)); [lia | reflexivity].
Qed.

Lemma pkey_and_tag_spec r :
  pkey_and_tag r = match take_key_and_tag r with Some (kt, _) => Some (kt, 48) | None => None end /\
  (forall kt r', take_key_and_tag r = Some (kt, r') -> r' = dropN 48 r /\ 48 <= len r).
Proof.
  unfold pkey_and_tag, take_key_and_tag, KEYLEN, TAGLEN. unfold pbind. rewrite pbytes_ptake.
  change (N.of_nat 32) with 32.
  rewrite (ptake_take 32 r).
  destruct (take 32 r) as [[k r1]|] eqn:E1; [|split; [reflexivity | discriminate]].
  destruct (take_rest _ _ _ _ E1) as (-> & -> & H32).
  rewrite pbytes_ptake. change (N.of_nat 16) with 16. rewrite (ptake_take 16).
  destruct (take 16 (dropN 32 r)) as [[t r2]|] eqn:E2; [|split; [reflexivity | discriminate]].
  destruct (take_rest _ _ _ _ E2) as (-> & -> & H16). rewrite len_dropN in H16.
  unfold pret. split; [reflexivity|].
  intros kt r' E; injection E as <- <-. rewrite dropN_dropN. split; [reflexivity | lia].
Qed.

Lemma pkeys_spec cnt : forall r,
  pkeys cnt r = match take_items cnt take_key_and_tag r with
                | Some (ks, _) => Some (ks, 48 * N.of_nat cnt) | None => None end /\
  (forall ks r', take_items cnt take_key_and_tag r = Some (ks, r') ->
     r' = dropN (48 * N.of_nat cnt) r /\ 48 * N.of_nat cnt <= len r /\ length ks = cnt).
Proof.
  induction cnt as [|c IH]; intros r.
  - cbn [pkeys take_items]. unfold pret. split; [reflexivity|].
    intros ks r' E; injection E as <- <-. repeat split. cbn. lia.
  - cbn [pkeys take_items]. unfold pbind at 1.
    destruct (pkey_and_tag_spec r) as [-> Hk].
    destruct (take_key_and_tag r) as [[kt r1]|] eqn:E1; [|split; [reflexivity | discriminate]].
    destruct (Hk _ _ eq_refl) as [-> H48].
    unfold pbind. destruct (IH (dropN 48 r)) as [-> Hr].
    destruct (take_items c take_key_and_tag (dropN 48 r)) as [[ks r2]|] eqn:E2; [|split; [reflexivity | discriminate]].
    destruct (Hr _ _ eq_refl) as (-> & Hl & Hc). rewrite len_dropN in Hl.
    unfold pret. split; [f_equal; f_equal; lia|].
    intros ks' r' E; injection E as <- <-. rewrite dropN_dropN. cbn [length].
    split; [f_equal; lia|]. split; [lia | now rewrite Hc].
Qed.

Lemma penc_header_spec r :
  penc_header r = match parse_enc_header r with
                  | Some (eh, _) => Some (eh, 48 + 48 * len (eh_keys eh)) | None => None end /\
  (forall eh r', parse_enc_header r = Some (eh, r') ->
     r' = dropN (48 + 48 * len (eh_keys eh)) r /\ 48 + 48 * len (eh_keys eh) <= len r).
Proof.
  unfold penc_header, parse_enc_header, NONCELEN, take_le. unfold pbind at 1. rewrite pbytes_ptake.
  change (N.of_nat 32) with 32. rewrite (ptake_take 32 r).
  destruct (take 32 r) as [[pub r1]|] eqn:E1; [|split; [reflexivity | discriminate]].
  destruct (take_rest _ _ _ _ E1) as (-> & -> & H32).
  unfold pbind at 1. rewrite (ptake_take 8).
  destruct (take 8 (dropN 32 r)) as [[nb r2]|] eqn:E2; [|split; [reflexivity | discriminate]].
  destruct (take_rest _ _ _ _ E2) as (-> & -> & H8). rewrite len_dropN in H8.
  set (n := le_val (takeN 8 (dropN 32 r))).
  unfold pbind at 1. destruct (pkeys_spec (N.to_nat n) (dropN 8 (dropN 32 r))) as [-> Hk].
  destruct (take_items (N.to_nat n) take_key_and_tag (dropN 8 (dropN 32 r))) as [[ks r3]|] eqn:E3.
  2:{ destruct (len (dropN 8 (dropN 32 r)) <? 48 * n); split; (reflexivity || discriminate). }
  destruct (Hk _ _ eq_refl) as (-> & Hl & Hc). rewrite N2Nat.id in *. rewrite !len_dropN in Hl.
  destruct (N.ltb_spec (len (dropN 8 (dropN 32 r))) (48 * n)) as [Hlt|_]; [rewrite !len_dropN in Hlt; lia|].
  unfold pbind. rewrite pbytes_ptake. change (N.of_nat 8) with 8. rewrite (ptake_take 8).
  destruct (take 8 (dropN (48 * n) (dropN 8 (dropN 32 r)))) as [[nonce r4]|] eqn:E4; [|split; [reflexivity | discriminate]].
  destruct (take_rest _ _ _ _ E4) as (-> & -> & H8'). rewrite !len_dropN in H8'.
  unfold pret. cbn [eh_keys].
  assert (Hlen : len ks = n) by (unfold len; rewrite Hc; apply N2Nat.id).
  rewrite Hlen. split; [f_equal; f_equal; lia|].
  intros eh r' E; injection E as <- <-. cbn [eh_keys]. rewrite Hlen, !dropN_dropN.
  split; [f_equal; lia | lia].
Qed.

(* the part of Archive.read_header after the version *)
Definition read_config (LIMIT : N) (r1 : bytes) : res (header * bytes) :=
  match r1 with
  | layers :: opt :: r2 =>
    if opt =? 0 then
      (if LIMIT <? 2 then Err EDeser else Ok (mkH layers None, r2))
    else if opt =? 1 then
      match parse_enc_header r2 with
      | Some (eh, r3) =>
        let h := mkH layers (Some eh) in
        if LIMIT <? config_size h then Err EDeser else Ok (h, r3)
      | None => Err EDeser
      end
    else Err EDeser
  | _ => Err EDeser
  end.

Lemma read_header_unfold LIMIT a :
  read_header LIMIT a =
  match take 3 a with
  | None => Err EUnexpectedEof
  | Some (m, r0) =>
    if negb (bytes_eqb m MAGIC) then Err EMagic else
    match take_le 4 r0 with
    | None => Err EUnexpectedEof
    | Some (v, r1) => if negb (v =? VERSION) then Err EVersion else read_config LIMIT r1
    end
  end.
Proof. reflexivity. Qed.

Lemma ptake1_cons x r : ptake 1 (x :: r) = Some ([x], 1).
Proof. unfold ptake. rewrite len_cons. destruct (N.leb_spec 1 (len r + 1)); [reflexivity | lia]. Qed.
Lemma ptake1_nil : ptake 1 [] = None.
Proof. reflexivity. Qed.

Lemma pconfig_short r : (length r < 2)%nat -> pconfig r = None.
Proof.
  destruct r as [|x [|y r]]; cbn [length]; try lia; intros _; unfold pconfig, pbind.
  - rewrite ptake1_nil. reflexivity.
  - rewrite ptake1_cons, dropN_cons1, ptake1_nil. reflexivity.
Qed.
Lemma pconfig_cons2 layers opt r2 :
  pconfig (layers :: opt :: r2) =
  if opt =? 0 then Some (mkH layers None, 2)
  else if opt =? 1 then
    match penc_header r2 with Some (eh, k) => Some (mkH layers (Some eh), 2 + k) | None => None end
  else None.
Proof.
  unfold pconfig. unfold pbind at 1. rewrite ptake1_cons, dropN_cons1, le_val_1.
  unfold pbind at 1. rewrite ptake1_cons, dropN_cons1, le_val_1.
  destruct (opt =? 0); [reflexivity|]. destruct (opt =? 1); [|reflexivity].
  unfold pbind, pret. destruct (penc_header r2) as [[eh k]|]; [|reflexivity].
  f_equal. f_equal. lia.
Qed.

Lemma pconfig_spec LIMIT r :
  read_config LIMIT r =
  match pconfig r with
  | Some (h, k) => if LIMIT <? k then Err EDeser else Ok (h, dropN k r)
  | None => Err EDeser
  end /\
  (forall h k, pconfig r = Some (h, k) -> k = config_size h /\ k <= len r).
Proof.
  destruct r as [|layers [|opt r2]].
  - rewrite pconfig_short by (cbn; lia). split; [reflexivity | discriminate].
  - rewrite pconfig_short by (cbn; lia). split; [reflexivity | discriminate].
  - rewrite pconfig_cons2. unfold read_config.
    destruct (opt =? 0).
    + split.
      * change (dropN 2 (layers :: opt :: r2)) with r2. reflexivity.
      * intros h k E; injection E as <- <-. unfold config_size. cbn [h_enc]. rewrite !len_cons. lia.
    + destruct (opt =? 1); [|split; [reflexivity | discriminate]].
      destruct (penc_header_spec r2) as [-> Hr].
      destruct (parse_enc_header r2) as [[eh r3]|] eqn:E; [|split; [reflexivity | discriminate]].
      destruct (Hr _ _ eq_refl) as [-> Hl].
      unfold config_size. cbn [h_enc]. cbv zeta.
      split.
      * destruct (LIMIT <? 2 + (48 + 48 * len (eh_keys eh))); [reflexivity|].
        f_equal. f_equal.
        change (layers :: opt :: r2) with ([layers; opt] ++ r2).
        replace (2 + (48 + 48 * len (eh_keys eh))) with (len [layers; opt] + (48 + 48 * len (eh_keys eh))) by reflexivity.
        rewrite <- (dropN_dropN (48 + 48 * len (eh_keys eh)) (len [layers; opt])), dropN_len_app. reflexivity.
      * intros h k E'; injection E' as <- <-. cbn [h_enc]. rewrite !len_cons. split; lia.
Qed.

(* ---------- stream side ---------- *)
Section Sim.
  Context {LIM : Limit}.
  Variable S : Stream.
  Variable b : bytes.
  Variable R : st S -> N -> Prop.
  Hypothesis HR : Refines S b R.

  Lemma rx_spec s p n : R s p ->
    exists s', R s' (p + N.min n (len b - p)) /\
      rx S s n = (s', if p + n <=? len b then Ok (sliceN p n b) else Err EUnexpectedEof).
  Proof.
    intros Hs. unfold rx. apply (read_exact_spec S b R HR); [exact Hs | lia].
  Qed.

  (* failure of the bincode stage from (p, lim): DeserializationError, and
     position + limit left did not grow *)
  Definition Fail {A} (out : st S * N * res A) (p lim : N) : Prop :=
    exists s' lim' p', out = (s', lim', Err EDeser) /\ R s' p' /\ p <= p' /\ p' + lim' <= p + lim.

  (* outcome of a deserializer step from (p, lim) against the pure parse of the rest *)
  Definition Spec {A} (out : st S * N * res A) (p lim : N) (ok : option (A * N)) : Prop :=
    match ok with
    | Some (v, k) =>
      if k <=? lim then exists s', out = (s', lim - k, Ok v) /\ R s' (p + k)
      else Fail out p lim
    | None => Fail out p lim
    end.

  Definition Sim {A} (m : M S A) (pm : PP A) : Prop :=
    forall s p lim, R s p -> Spec (m s lim) p lim (pm (dropN p b)).

  Lemma spec_bind {A B} (m : M S A) (f : A -> M S B) pm pf s p lim :
    Spec (m s lim) p lim (pm (dropN p b)) ->
    (forall v k s', pm (dropN p b) = Some (v, k) -> k <= lim -> R s' (p + k) ->
       Spec (f v s' (lim - k)) (p + k) (lim - k) (pf v (dropN (p + k) b))) ->
    Spec (mbind S m f s lim) p lim (pbind pm pf (dropN p b)).
  Proof.
    intros Hm Hf. unfold Spec in Hm. unfold pbind.
    destruct (pm (dropN p b)) as [[v k]|] eqn:E1.
    - destruct (N.leb_spec k lim) as [Hk|Hk].
      + destruct Hm as (s' & Hout & HR'). unfold mbind. rewrite Hout.
        specialize (Hf v k s' eq_refl Hk HR'). rewrite dropN_dropN.
        unfold Spec in *. destruct (pf v (dropN (p + k) b)) as [[w k2]|].
        * destruct (N.leb_spec k2 (lim - k)) as [Hk2|Hk2], (N.leb_spec (k + k2) lim) as [Hk3|Hk3]; try lia.
          -- destruct Hf as (s'' & -> & HR''). exists s''.
             replace (lim - (k + k2)) with (lim - k - k2) by lia.
             replace (p + (k + k2)) with (p + k + k2) by lia. auto.
          -- destruct Hf as (s'' & lim'' & p'' & -> & HR'' & H1 & H2).
             exists s'', lim'', p''. repeat split; try assumption; lia.
        * destruct Hf as (s'' & lim'' & p'' & -> & HR'' & H1 & H2).
          exists s'', lim'', p''. repeat split; try assumption; lia.
      + assert (HF : Fail (mbind S m f s lim) p lim).
        { destruct Hm as (s' & lim' & p' & Hout & HR' & H1 & H2). unfold mbind. rewrite Hout.
          exists s', lim', p'. auto. }
        unfold Spec. destruct (pf v (dropN k (dropN p b))) as [[w k2]|]; [|exact HF].
        destruct (N.leb_spec (k + k2) lim); [lia | exact HF].
    - destruct Hm as (s' & lim' & p' & Hout & HR' & H1 & H2). unfold mbind. rewrite Hout.
      exists s', lim', p'. auto.
  Qed.

  Lemma sim_bind {A B} (m : M S A) (f : A -> M S B) pm pf :
    Sim m pm -> (forall v, Sim (f v) (pf v)) -> Sim (mbind S m f) (pbind pm pf).
  Proof.
    intros Hm Hf s p lim Hs. apply spec_bind; [exact (Hm s p lim Hs)|].
    intros v k s' _ _ Hs'. exact (Hf v s' (p + k) (lim - k) Hs').
  Qed.

  Lemma sim_ret {A} (a : A) : Sim (mret S a) (pret a).
  Proof.
    intros s p lim Hs. unfold Spec, pret, mret. destruct (N.leb_spec 0 lim); [|lia].
    exists s. rewrite N.sub_0_r, N.add_0_r. auto.
  Qed.

  Lemma sim_fail {A} : Sim (@mfail S A EDeser) pfail.
  Proof.
    intros s p lim Hs. unfold Spec, pfail, mfail. exists s, lim, p. repeat split; try assumption; lia.
  Qed.

  Lemma sim_rx n : Sim (bc_rx S n) (ptake n).
  Proof.
    intros s p lim Hs. unfold Spec, ptake, bc_rx. rewrite len_dropN.
    pose proof (ref_range _ _ _ HR s p Hs) as Hp.
    destruct (N.ltb_spec lim n) as [Hl|Hl].
    - assert (HF : @Fail bytes (s, lim, Err EDeser) p lim).
      { exists s, lim, p. repeat split; try assumption; lia. }
      destruct (N.leb_spec n (len b - p)); [|exact HF].
      destruct (N.leb_spec n lim); [lia | exact HF].
    - destruct (rx_spec s p n Hs) as (s' & HR' & ->).
      destruct (N.leb_spec n (len b - p)) as [Hn|Hn], (N.leb_spec (p + n) (len b)) as [Hn'|Hn']; try lia.
      + destruct (N.leb_spec n lim); [|lia]. exists s'. split; [reflexivity|].
        replace (p + N.min n (len b - p)) with (p + n) in HR' by lia. exact HR'.
      + exists s', (lim - n), (p + N.min n (len b - p)). repeat split; try assumption; lia.
  Qed.

  Lemma sim_bytes k : Sim (bc_bytes S k) (pbytes k).
  Proof.
    induction k as [|k IH]; cbn [bc_bytes pbytes]; [apply sim_ret|].
    apply sim_bind; [apply sim_rx|]. intros d. apply sim_bind; [exact IH|]. intros ds. apply sim_ret.
  Qed.

  Lemma sim_key_and_tag : Sim (bc_key_and_tag S) pkey_and_tag.
  Proof.
    apply sim_bind; [apply sim_bytes|]. intros k. apply sim_bind; [apply sim_bytes|]. intros t. apply sim_ret.
  Qed.

  (* the loop: enough fuel because every iteration charges 48 bytes *)
  Lemma bc_keys_spec fuel : forall n s p lim, R s p ->
    n < N.of_nat fuel \/ lim + 48 < 48 * N.of_nat fuel ->
    Spec (bc_keys S fuel n s lim) p lim (pkeys (N.to_nat n) (dropN p b)).
  Proof.
    induction fuel as [|fuel IH]; intros n s p lim Hs Hf.
    - destruct Hf; lia.
    - cbn [bc_keys]. destruct (N.eqb_spec n 0) as [->|Hn].
      + change (N.to_nat 0) with 0%nat. cbn [pkeys]. apply sim_ret. exact Hs.
      + replace (N.to_nat n) with (Datatypes.S (N.to_nat (n - 1))) by lia. cbn [pkeys].
        apply spec_bind; [apply sim_key_and_tag; exact Hs|].
        intros kt k s' Ek Hk Hs'.
        assert (k = 48).
        { destruct (pkey_and_tag_spec (dropN p b)) as [E _]. rewrite E in Ek.
          destruct (take_key_and_tag (dropN p b)) as [[? ?]|]; [|discriminate]. now injection Ek. }
        subst k.
        apply spec_bind; [apply IH; [exact Hs' | lia]|].
        intros ks k2 s'' _ _ Hs''. apply sim_ret. exact Hs''.
  Qed.

  Lemma keys_fuel_ok n lim :
    n < N.of_nat (keys_fuel n lim) \/ lim + 48 < 48 * N.of_nat (keys_fuel n lim).
  Proof.
    unfold keys_fuel.
    pose proof (N.div_mod lim 48 ltac:(lia)) as Hd. pose proof (N.mod_lt lim 48 ltac:(lia)) as Hm.
    destruct (N.le_gt_cases n (lim / 48 + 1)); [left | right]; lia.
  Qed.

  Lemma sim_enc_header : Sim (bc_enc_header S) penc_header.
  Proof.
    apply sim_bind; [apply sim_bytes|]. intros public.
    apply sim_bind; [apply sim_rx|]. intros nb.
    apply sim_bind.
    - intros s p lim Hs. apply bc_keys_spec; [exact Hs | apply keys_fuel_ok].
    - intros keys. apply sim_bind; [apply sim_bytes|]. intros nonce. apply sim_ret.
  Qed.

  Lemma sim_config : Sim (bc_config S) pconfig.
  Proof.
    apply sim_bind; [apply sim_rx|]. intros l.
    apply sim_bind; [apply sim_rx|]. intros o.
    destruct (le_val o =? 0); [apply sim_ret|].
    destruct (le_val o =? 1); [|apply sim_fail].
    apply sim_bind; [apply sim_enc_header|]. intros eh. apply sim_ret.
  Qed.

  (* ---------- ArchiveHeader::from over the source = Archive.read_header on the bytes ---------- *)
  Theorem read_header_s_refines LIMIT s0 : R s0 0 ->
    exists s',
      match read_header LIMIT b with
      | Ok (h, rest) =>
          read_header_s S LIMIT s0 = (s', Ok h) /\ R s' (len b - len rest) /\
          rest = dropN (7 + config_size h) b /\ 7 + config_size h <= len b /\ config_size h <= LIMIT
      | Err e =>
          read_header_s S LIMIT s0 = (s', Err e) /\ exists p', R s' p' /\ p' <= 7 + LIMIT
      | Crash _ => False
      end.
  Proof.
    intros Hs0. rewrite read_header_unfold. unfold read_header_s.
    destruct (rx_spec s0 0 3 Hs0) as (s1 & HR1 & ->).
    unfold take. rewrite N.add_0_l, N.sub_0_r in *.
    destruct (N.ltb_spec (len b) 3) as [H3|H3], (N.leb_spec 3 (len b)) as [H3'|H3']; try lia.
    { exists s1. split; [reflexivity|]. eexists. split; [exact HR1 | lia]. }
    unfold sliceN. rewrite dropN_0.
    replace (N.min 3 (len b)) with 3 in HR1 by lia.
    destruct (negb (bytes_eqb (takeN 3 b) MAGIC)).
    { exists s1. split; [reflexivity|]. eexists. split; [exact HR1 | lia]. }
    destruct (rx_spec s1 3 4 HR1) as (s2 & HR2 & ->).
    unfold take_le, take. rewrite len_dropN.
    destruct (N.ltb_spec (len b - 3) 4) as [H4|H4], (N.leb_spec (3 + 4) (len b)) as [H4'|H4']; try lia.
    { exists s2. split; [reflexivity|]. eexists. split; [exact HR2 | lia]. }
    replace (3 + N.min 4 (len b - 3)) with 7 in HR2 by lia.
    unfold sliceN.
    destruct (negb (le_val (takeN 4 (dropN 3 b)) =? VERSION)).
    { exists s2. split; [reflexivity|]. eexists. split; [exact HR2 | lia]. }
    rewrite dropN_dropN. change (3 + 4) with 7.
    destruct (pconfig_spec LIMIT (dropN 7 b)) as [-> Hk].
    pose proof (sim_config s2 7 LIMIT HR2) as Hsp. unfold Spec in Hsp.
    destruct (pconfig (dropN 7 b)) as [[h k]|] eqn:Ep.
    - destruct (Hk _ _ eq_refl) as [-> Hkl]. rewrite len_dropN in Hkl.
      destruct (N.leb_spec (config_size h) LIMIT) as [Hl|Hl], (N.ltb_spec LIMIT (config_size h)) as [Hl'|Hl']; try lia.
      + destruct Hsp as (s3 & -> & HR3). exists s3. split; [reflexivity|].
        rewrite dropN_dropN, len_dropN.
        replace (len b - (len b - (7 + config_size h))) with (7 + config_size h) by lia.
        repeat split; try assumption; lia.
      + destruct Hsp as (s3 & lim3 & p3 & -> & HR3 & H1 & H2). exists s3. split; [reflexivity|].
        exists p3. split; [exact HR3 | lia].
    - destruct Hsp as (s3 & lim3 & p3 & -> & HR3 & H1 & H2). exists s3. split; [reflexivity|].
      exists p3. split; [exact HR3 | lia].
  Qed.
End Sim.

(* ---------- totality (C08 side) ---------- *)
Lemma read_header_errs LIMIT a e : read_header LIMIT a = Err e ->
  e = EUnexpectedEof \/ e = EMagic \/ e = EVersion \/ e = EDeser.
Proof.
  rewrite read_header_unfold. destruct (take 3 a) as [[m r0]|]; [|intros E; injection E as <-; auto].
  destruct (negb (bytes_eqb m MAGIC)); [intros E; injection E as <-; auto|].
  destruct (take_le 4 r0) as [[v r1]|]; [|intros E; injection E as <-; auto].
  destruct (negb (v =? VERSION)); [intros E; injection E as <-; auto|].
  destruct (pconfig_spec LIMIT r1) as [-> _].
  destruct (pconfig r1) as [[h k]|]; [destruct (LIMIT <? k); [|discriminate]|]; intros E; injection E as <-; auto.
Qed.

Theorem header_total LIMIT (S : Stream) (b : bytes) (R : st S -> N -> Prop) (s0 : st S) :
  Refines S b R -> R s0 0 ->
  exists s' r p', read_header_s S LIMIT s0 = (s', r) /\ R s' p' /\ p' <= len b /\ p' <= 7 + LIMIT /\
    match r with
    | Ok h => p' = 7 + config_size h /\ config_size h <= LIMIT /\
              (forall eh, h_enc h = Some eh -> 48 * len (eh_keys eh) <= LIMIT) /\
              read_header LIMIT b = Ok (h, dropN p' b)
    | Err e => (e = EUnexpectedEof \/ e = EMagic \/ e = EVersion \/ e = EDeser) /\ read_header LIMIT b = Err e
    | Crash _ => False
    end.
Proof.
  intros HR Hs0. destruct (read_header_s_refines S b R HR LIMIT s0 Hs0) as (s' & Hh).
  destruct (read_header LIMIT b) as [[h rest]|e|c] eqn:E; [| |destruct Hh].
  - destruct Hh as (Hr & HR' & -> & Hle & Hlim). rewrite len_dropN in HR'.
    replace (len b - (len b - (7 + config_size h))) with (7 + config_size h) in HR' by lia.
    exists s', (Ok h), (7 + config_size h). repeat split; try assumption; try lia.
    intros eh Eh. unfold config_size in Hlim. rewrite Eh in Hlim. lia.
  - destruct Hh as (Hr & p' & HR' & Hp). exists s', (Err e), p'.
    pose proof (ref_range _ _ _ HR _ _ HR'). repeat split; try assumption.
    exact (read_header_errs LIMIT b e E).
Qed.
