(* ComposeFlushAt.v — C14 in the shape of the property text, for {no layer, encryption}:

     ANY call list  ops = pre ++ OFlush :: post  of the archive writer, run from the start;
     s = the writer when that flush returned (flush does not touch the block stream, so
     w_out s is what had been handed to the top layer by then);
     the calls BEFORE the flush clean (no short source; there is no finalize before a flush
     that succeeds ... see below), arguments as the types guarantee;
     the destination bytes at that moment (w_out s itself / ew_out of the encryption writer
     after w_out s went through it in ANY pieces) read through ANY source that behaves as a
     cursor over them (`RdRefines` / `Seekable`: a file, a throttled file, ...)
       -> repair returns Ok and holds under every started name EXACTLY the bytes appended to
          that file before the flush (`appended id w_init pre`) — no layer, and encryption in
          unauthenticated mode; in authenticated mode exactly the content bytes lying in the
          first m bytes of the block stream, m >= ew_ctr * CHUNK (every completed chunk).

   Nothing is asked of `post` nor of the results of the calls after the flush.
   ComposeFlush.v has the same for a run that ENDS at the flush point and a `Cursor` source. *)
From MLA Require Import Limit.
From MLA Require Import Base Stream Blocks Writer WriterProofs Repair RepairSpec RepairPure
  RepairProofs2 RepairProofs5 RepairProofs6 EncLayer EncAuth EncAuthFs EncWriter EncWriterProofs EncFlushProofs
  FlushProofs Run ComposeRdOnly ComposeRepair ComposeWriterRun ComposeFlush.
From Coq Require Import ZifyBool ZifyNat ZifyN.
Open Scope N_scope.

Lemma combine_app_short {A B} (l : list A) : forall (r x : list B),
  length l = length r -> combine l (r ++ x) = combine l r.
Proof.
  induction l as [|a l IH]; intros [|b r] x Hl; cbn in *; try reflexivity; try discriminate.
  f_equal. apply IH. lia.
Qed.

(* ---------- a run of the writer, split at a call ---------- *)
Section RunSplit.
  Context {LIM : Limit}.
  Variable FNMAX : N.
  Variables T_START T_CONTENT T_EOA T_EOF : N.
  Variable H : bytes -> bytes.
  Variable order : footer -> footer.
  Notation wrun := (wrun FNMAX T_START T_CONTENT T_EOA T_EOF H order).
  Notation wstep := (wstep FNMAX T_START T_CONTENT T_EOA T_EOF H order).

  Lemma wrun_app a : forall s b,
    wrun s (a ++ b) =
    let '(s1, r1) := wrun s a in let '(s2, r2) := wrun s1 b in (s2, r1 ++ r2).
  Proof.
    induction a as [|o a IH]; intros s b; cbn [app Writer.wrun].
    - destruct (wrun s b) as [s2 r2]. reflexivity.
    - destruct (wstep s o) as [s1 x]. rewrite IH.
      destruct (wrun s1 a) as [s2 r1]. destruct (wrun s2 b) as [s3 r2]. reflexivity.
  Qed.

  Lemma wrun_length ops : forall s, length (snd (wrun s ops)) = length ops.
  Proof.
    induction ops as [|o ops IH]; intros s; cbn [Writer.wrun]; [reflexivity|].
    destruct (wstep s o) as [s1 x]. specialize (IH s1). destruct (wrun s1 ops) as [s2 xs].
    cbn [snd length] in *. lia.
  Qed.

  (* the run up to a flush: its state, its results, and what the whole run knows of it *)
  Lemma run_to_flush pre post sfin rsall :
    wrun w_init (pre ++ OFlush :: post) = (sfin, rsall) ->
    let s := fst (wrun w_init pre) in
    wrun w_init pre = (s, firstn (length pre) rsall) /\
    combine pre rsall = combine pre (firstn (length pre) rsall) /\
    nth_error rsall (length pre) = Some (Ok 0) /\
    prefix (w_out s) (w_out sfin).
  Proof.
    intros Hr s. subst s. rewrite wrun_app in Hr.
    pose proof (wrun_length pre w_init) as Hl.
    pose proof (wrun_out_prefix FNMAX T_START T_CONTENT T_EOA T_EOF H order post) as Hpost.
    destruct (wrun w_init pre) as [s1 r1]. cbn [fst snd] in *.
    cbn [Writer.wrun Writer.wstep] in Hr. specialize (Hpost s1).
    destruct (wrun s1 post) as [s2 xs]. cbn [fst] in Hpost. injection Hr as <- <-.
    assert (Hf : firstn (length pre) (r1 ++ Ok 0 :: xs) = r1).
    { rewrite <- Hl, firstn_app, Nat.sub_diag, firstn_all. cbn [firstn]. apply app_nil_r. }
    rewrite Hf. split; [reflexivity|]. split; [apply combine_app_short; lia|]. split; [|exact Hpost].
    rewrite nth_error_app2 by lia. rewrite <- Hl, Nat.sub_diag. reflexivity.
  Qed.
End RunSplit.

(* the fail-safe decryptor over ANY inner source that behaves as a cursor over w *)
Lemma fsenc_rd_refines_skb CHUNK TAG (HCHUNK : 0 < CHUNK) ks tagc unauth (S : Stream) w R :
  Seekable S w R -> len w / (CHUNK + TAG) + 2 <= 2 ^ 32 ->
  forall i0, R i0 0 ->
  exists I : st (FsEnc CHUNK TAG ks tagc unauth S) -> N -> Prop,
    RdRefines (rd (FsEnc CHUNK TAG ks tagc unauth S)) (fs_output CHUNK TAG ks tagc unauth w) I /\
    exists es b, fs_open CHUNK TAG ks S i0 = (es, Ok b) /\ I es 0.
Proof.
  intros HS Hbig i0 H0. destruct unauth; cbn [fs_output FsEnc Run.FsEnc rd st].
  - exists (FsInvU CHUNK TAG ks S w R). split.
    + exact (fs_unauth_refines CHUNK TAG HCHUNK ks tagc S w R HS Hbig).
    + destruct (fs_open_unauth CHUNK TAG HCHUNK ks tagc S w R HS Hbig i0 H0) as (es & r & Ho & Hr & HI).
      destruct Hr as [-> | ->]; eauto.
  - exists (FsInvA CHUNK TAG ks tagc S w R). split.
    + exact (fs_auth_refines CHUNK TAG HCHUNK ks tagc S w R HS Hbig).
    + destruct (fs_open_auth CHUNK TAG HCHUNK ks tagc S w R HS Hbig i0 H0) as (es & r & Ho & Hr & HI).
      destruct Hr as [-> | ->]; eauto.
Qed.

Section FlushAt.
  Context {LIM : Limit}.
  Variable FNMAX CACHE : N.
  Hypothesis HFN : FNMAX < 2 ^ 64.
  Hypothesis HCACHE : 0 < CACHE.
  Variables T_START T_CONTENT T_EOA T_EOF : N.
  Hypothesis Htags : T_START <> T_CONTENT /\ T_START <> T_EOA /\ T_START <> T_EOF /\
                     T_CONTENT <> T_EOA /\ T_CONTENT <> T_EOF /\ T_EOA <> T_EOF.
  Variable H : bytes -> bytes.
  Hypothesis H_len : forall x, len (H x) = 32.
  Variable order : footer -> footer.

  Notation body := (body T_START T_CONTENT T_EOA T_EOF).
  Notation repair := (repair FNMAX CACHE T_START T_CONTENT T_EOA T_EOF H).
  Notation wf_blocks := (wf_blocks FNMAX H).
  Notation good_output := (good_output FNMAX T_START T_CONTENT T_EOA T_EOF H).
  Notation wrun := (wrun FNMAX T_START T_CONTENT T_EOA T_EOF H order).
  Notation appended := (appended FNMAX T_START T_CONTENT T_EOA T_EOF H order).
  Notation recovers_all := (recovers_all FNMAX T_START T_CONTENT T_EOA T_EOF H order).

  (* the whole call list, with a flush at position |pre| *)
  Variables (pre post : list wop) (sfin : wstate) (rsall : list (res N)).
  Hypothesis Hrun : wrun w_init (pre ++ OFlush :: post) = (sfin, rsall).
  (* the writer when the flush returned *)
  Let s : wstate := fst (wrun w_init pre).
  (* the calls before the flush: no short source (and no finalize) among them *)
  Hypothesis Hclean : Forall (fun x => clean (fst x) (snd x)) (combine pre rsall).
  Hypothesis Hops : Forall op_ok pre.
  Hypothesis Hnext : w_next s < 2 ^ 64.

  Let rs := firstn (length pre) rsall.
  Lemma pre_run : wrun w_init pre = (s, rs).
  Proof. exact (proj1 (run_to_flush FNMAX T_START T_CONTENT T_EOA T_EOF H order pre post sfin rsall Hrun)). Qed.
  Lemma pre_clean : Forall (fun x => clean (fst x) (snd x)) (combine pre rs).
  Proof.
    unfold rs.
    rewrite <- (proj1 (proj2 (run_to_flush FNMAX T_START T_CONTENT T_EOA T_EOF H order pre post sfin rsall Hrun))).
    exact Hclean.
  Qed.

  (* the flush itself succeeded, and what it had handed down is still a prefix of the final
     block stream *)
  Theorem flush_returned_ok : nth_error rsall (length pre) = Some (Ok 0) /\ prefix (w_out s) (w_out sfin).
  Proof. exact (proj2 (proj2 (run_to_flush FNMAX T_START T_CONTENT T_EOA T_EOF H order pre post sfin rsall Hrun))). Qed.

  (* no layer *)
  Theorem flush_at_plain S I s0 fuel :
    RdRefines (rd S) (w_out s) I -> I s0 0 -> (N.to_nat (len (w_out s)) < fuel)%nat ->
    (* finalize did not fail with SerializationError (footer within the bincode limit) *)
    repair S fuel s0 w_init <> Err EDeser ->
    recovers_all s pre (repair S fuel s0 w_init).
  Proof.
    exact (flush_then_repair_plain FNMAX CACHE HFN HCACHE T_START T_CONTENT T_EOA T_EOF Htags H H_len order
             pre s rs pre_run pre_clean Hops Hnext S I s0 fuel).
  Qed.

  Variables CHUNK TAG CIPHERBUF : N.
  Hypothesis HCHUNK : 0 < CHUNK.
  Hypothesis HTAG : 0 < TAG.
  Variable ks : N -> N -> N.
  Variable tagc : N -> bytes -> bytes.
  Hypothesis Htagc : forall i c, len (tagc i c) = TAG.
  Notation FsEnc := (FsEnc CHUNK TAG ks tagc).
  Notation fs_open := (fs_open CHUNK TAG ks).
  Notation fs_output := (fs_output CHUNK TAG ks tagc).

  (* the encryption writer has been given w_out s in any pieces; ew_out es is what it has
     handed to the destination when the flush returns *)
  Variables (pieces : list bytes) (fuelw : nat) (es : ewstate).
  Hypothesis Hpieces : concat pieces = w_out s.
  Hypothesis Hew : ew_write_pieces CHUNK CIPHERBUF ks tagc fuelw ew_init pieces = Ok es.
  Hypothesis Hbigp : len (w_out s) / CHUNK < 2 ^ 32.
  Hypothesis Hbig : len (ew_out es) / (CHUNK + TAG) + 2 <= 2 ^ 32.
  (* the source the repairing process reads the destination bytes from *)
  Variable Sin : Stream.
  Variable Rin : st Sin -> N -> Prop.
  Hypothesis Hin : Seekable Sin (ew_out es) Rin.
  Variable i0 : st Sin.
  Hypothesis Hi0 : Rin i0 0.

  (* encryption, DataEvenUnauthenticated *)
  Theorem flush_at_enc fuel : (N.to_nat (len (w_out s)) < fuel)%nat ->
    exists e0 b, fs_open Sin i0 = (e0, Ok b) /\
      (repair (FsEnc true Sin) fuel e0 w_init <> Err EDeser ->
       recovers_all s pre (repair (FsEnc true Sin) fuel e0 w_init)).
  Proof.
    intros Hf.
    destruct (fsenc_rd_refines_skb CHUNK TAG HCHUNK ks tagc true Sin _ Rin Hin Hbig i0 Hi0)
      as (I & HR & e0 & b & Ho & HI).
    exists e0, b. split; [exact Ho|].
    rewrite (unauth_output_is FNMAX CACHE HFN HCACHE T_START T_CONTENT T_EOA T_EOF Htags H H_len s Hnext
               CHUNK TAG CIPHERBUF HCHUNK HTAG ks tagc Htagc pieces fuelw es Hpieces Hew Hbigp Hbig) in HR.
    intros Hser. exact (flush_at_plain _ I e0 fuel HR HI Hf Hser).
  Qed.

  (* encryption, authenticated mode: everything in completed chunks *)
  Theorem flush_at_enc_auth fuel : (N.to_nat (len (w_out s)) < fuel)%nat ->
    exists e0 b, fs_open Sin i0 = (e0, Ok b) /\
    (repair (FsEnc false Sin) fuel e0 w_init <> Err EDeser ->
    exists m bl status unfinished out obl,
      ew_ctr es * CHUNK <= m /\ m <= len (w_out s) /\ (ew_ctr es = 0 -> m = len (w_out s)) /\
      w_out s = body bl /\ wf_blocks bl /\ w_files s = name_list (files_of bl) /\
      repair (FsEnc false Sin) fuel e0 w_init = Ok (status, unfinished, out) /\
      good_output out obl /\
      (forall f, In f (files_of bl) -> content_of (files_of obl) (f_name f) = present (f_id f) bl m) /\
      (forall id, data_of_id (files_of bl) id = appended id w_init pre)).
  Proof.
    intros Hf.
    destruct (clean_run_blocks FNMAX T_START T_CONTENT T_EOA T_EOF H order pre s rs pre_run pre_clean Hops Hnext)
      as (bl & Ho & Hwf & Hne & Hfl & Hd).
    destruct (fsenc_rd_refines_skb CHUNK TAG HCHUNK ks tagc false Sin _ Rin Hin Hbig i0 Hi0)
      as (I & HR & e0 & b & Hop & HI).
    exists e0, b. split; [exact Hop|]. intros Hser.
    pose proof (es_inv s CHUNK CIPHERBUF HCHUNK ks tagc pieces fuelw es Hpieces Hew) as Hinv.
    set (m := ew_auth_len CHUNK TAG ks tagc es (w_out s)).
    destruct (ew_auth_len_bounds CHUNK TAG HCHUNK HTAG ks tagc Htagc es (w_out s) Hinv) as (B1 & B2 & B3).
    fold m in B1, B2, B3.
    assert (Hout : fs_output false (ew_out es) = takeN m (w_out s)).
    { apply (fs_output_of_read_all FNMAX CACHE HFN HCACHE T_START T_CONTENT T_EOA T_EOF Htags H H_len s Hnext
               CHUNK TAG HCHUNK HTAG ks tagc Htagc false (ew_out es) (Datatypes.S (N.to_nat (len (w_out s)))) 1 _
               Hbig ltac:(lia)).
      apply (flush_prefix_auth CHUNK TAG HCHUNK HTAG ks tagc Htagc es (w_out s) _ 1 Hinv Hbigp); lia. }
    rewrite Hout, Ho in HR.
    assert (Hlm : len (takeN m (body bl)) = m) by (rewrite len_takeN, <- Ho; lia).
    destruct (repair_max_rd FNMAX CACHE HFN HCACHE T_START T_CONTENT T_EOA T_EOF Htags H H_len
                _ _ I HR bl [] Hwf (or_intror eq_refl)
                (prefix_trans _ _ _ (prefix_takeN m (body bl)) (prefix_app _ _)) e0 HI fuel
                ltac:(rewrite Hlm; lia) Hser)
      as (status & unf & out & obl & Hr & Hg & Hc).
    rewrite Hlm in Hc.
    exists m, bl, status, unf, out, obl. repeat (split; [assumption|]). exact Hd.
  Qed.
End FlushAt.
