(* Keys.v — executable model of /repo/curve25519-parser/src/lib.rs (440 lines) and of the
   parts of its dependencies that decide accept / reject:

     asn1-rs 0.7.0      Header::from_der            (src/header.rs:272-321, src/ber/parser.rs:101-157)
     der-parser 10.0.0  parse_der_container         (src/der/multi.rs:515-535)
                        parse_der_with_tag & co     (src/der/parser.rs:70-83, 477-553, 584-611)
                        try_read_berobjectcontent_as (src/ber/wrap_any.rs:58-190)
     nom 7.1.3          eof, complete, take
     pem 3.0.5          parser.rs (whole file), lib.rs decode_data / new_from_captures /
                        parse / parse_many / encode_config
     base64 0.22.1      GeneralPurpose STANDARD decode (engine/general_purpose/decode.rs,
                        decode_suffix.rs: padding RequireCanonical, no trailing bits) and encode

   Outcomes are [res]: [Ok v], [Err e], or [Crash site] where the Rust code would panic
   (slice index out of range).  Crash sites are written where the Rust text has an index
   expression; KeysProofs.parse_total shows none of them is reachable.

   Curve arithmetic is NOT modelled: SHA-512, Edwards->Montgomery and the X25519 base point
   multiplication are Section variables of the few functions that use them. *)
From MLA Require Import Base.
From Coq Require Strings.String Strings.Ascii.
Open Scope N_scope.

(* ------------------------------------------------------------------ *)
(* 0. literals                                                         *)
(* ------------------------------------------------------------------ *)

Module Lit.
  Import Coq.Strings.String Coq.Strings.Ascii.
  Fixpoint bytes_of_string (s : string) : bytes :=
    match s with
    | EmptyString => []
    | String a r => N_of_ascii a :: bytes_of_string r
    end.
  Definition begin_mark := bytes_of_string "-----BEGIN ".
  Definition end_mark := bytes_of_string "-----END ".
  Definition dashes := bytes_of_string "-----".
  Definition public_tag := bytes_of_string "PUBLIC KEY".
  Definition private_tag := bytes_of_string "PRIVATE KEY".
End Lit.

(* pem-3.0.5/src/parser.rs:37,38,44,58 *)
Definition BEGIN_MARK : bytes := Eval vm_compute in Lit.begin_mark.
Definition END_MARK : bytes := Eval vm_compute in Lit.end_mark.
Definition DASHES : bytes := Eval vm_compute in Lit.dashes.
(* lib.rs:235-236 (PUBLIC_TAG, PRIVATE_TAG) and lib.rs:287-288 (PRIV_KEY_TAG, PUB_KEY_TAG) *)
Definition PUBLIC_TAG : bytes := Eval vm_compute in Lit.public_tag.
Definition PRIVATE_TAG : bytes := Eval vm_compute in Lit.private_tag.

(* lib.rs:24-25: oid!(1.3.101.112), oid!(1.3.101.110) — DER content octets *)
Definition ED_25519_OID : bytes := [43; 101; 112].
Definition X_25519_OID : bytes := [43; 101; 110].

(* lib.rs:285  PRIV_KEY_PREFIX = 30 2e 02 01 00 30 05 06 03 2b 65 6e 04 22 04 20  (16 bytes) *)
Definition PRIV_KEY_PREFIX : bytes :=
  [48; 46; 2; 1; 0; 48; 5; 6; 3; 43; 101; 110; 4; 34; 4; 32].
(* lib.rs:286  PUB_KEY_PREFIX = 30 2a 30 05 06 03 2b 65 6e 03 21 00  (12 bytes) *)
Definition PUB_KEY_PREFIX : bytes :=
  [48; 42; 48; 5; 6; 3; 43; 101; 110; 3; 33; 0].

(* lib.rs:129 *)
Definition TAG_OCTETSTRING : N := 4.

Inductive kind := Ed | X.

Definition E {A} : res A := Err EDeser.

(* Rust index expressions: l[i] and &l[a..b] panic when out of range. *)
Definition idx (site : N) (l : bytes) (i : N) : res N :=
  match nth_error l (N.to_nat i) with Some x => Ok x | None => Crash site end.
Definition slice (site : N) (l : bytes) (a b : N) : res bytes :=
  if (a <=? b) && (b <=? len l) then Ok (sliceN a (b - a) l) else Crash site.

(* crash sites: file and line of the index expression *)
Definition SITE_LIB_138 : N := 138.        (* lib.rs:138   data[0], data[1] *)
Definition SITE_LIB_145 : N := 145.        (* lib.rs:145   &data[2..34], digest[0..32] *)
Definition SITE_LIB_147 : N := 147.        (* lib.rs:147   &data[2..34] *)
Definition SITE_DER_505 : N := 10505.      (* der-parser der/parser.rs:505  i[..l] *)
Definition SITE_DER_598 : N := 10598.      (* der-parser der/parser.rs:598  data[len - 2] *)

(* ------------------------------------------------------------------ *)
(* 1. ASN.1 header: asn1-rs Header::from_der                           *)
(* ------------------------------------------------------------------ *)

(* ber/parser.rs:123-140: high tag number form.  At most 5 following octets are read
   (tag_byte_count 1..5); the accumulator is a u32 and `c << 7` silently drops the bits
   shifted out. *)
Fixpoint high_tag (fuel : nat) (c : N) (r : bytes) : res (N * bytes) :=
  match fuel with
  | O => E
  | S f =>
    match r with
    | [] => E
    | b :: r' =>
      let c' := (c * 128 + b mod 128) mod 4294967296 in
      if b <? 128 then Ok (c', r') else high_tag f c' r'
    end
  end.

(* ber/parser.rs:113-146; returns (constructed, tag number, rest).  The class (top two
   bits) is computed by the Rust code but never consulted on the paths lib.rs uses. *)
Definition parse_identifier (i : bytes) : res (bool * N * bytes) :=
  match i with
  | [] => E
  | b0 :: r =>
    let cn := N.odd (b0 / 32) in
    let c := b0 mod 32 in
    if c =? 31
    then do tr <- high_tag 5 0 r; Ok (cn, fst tr, snd tr)
    else Ok (cn, c, r)
  end.

(* ber/parser.rs:101-111 *)
Fixpoint bytes_to_u64 (u : N) (s : bytes) : res N :=
  match s with
  | [] => Ok u
  | c :: s' => if 72057594037927936 <=? u then E else bytes_to_u64 (u * 256 + c) s'
  end.

Record header := mkHeader { h_cons : bool; h_tag : N; h_len : N }.

(* header.rs:272-321.  Short form, or long form with 1..126 length octets whose value fits
   a u64.  NOTE: the minimal-length rule of DER is NOT enforced (header.rs:305-306 is
   commented out), only the indefinite form (0x80) and 0xff are rejected. *)
Definition read_header (i : bytes) : res (header * bytes) :=
  do ct <- parse_identifier i;
  let '(cn, tag, i1) := ct in
  match i1 with
  | [] => E
  | lb :: i2 =>
    if lb <? 128 then Ok (mkHeader cn tag lb, i2)
    else
      let l1 := lb mod 128 in
      if l1 =? 0 then E
      else if l1 =? 127 then E
      else if len i2 <? l1 then E
      else do l <- bytes_to_u64 0 (takeN l1 i2);
           Ok (mkHeader cn tag l, dropN l1 i2)
  end.

(* nom::combinator::eof *)
Definition eof (i : bytes) : res unit :=
  match i with [] => Ok tt | _ => E end.

(* der/multi.rs:515-535 parse_der_container: header, take(len), run f on the content;
   what f leaves unparsed is dropped (`_rest`), the caller continues after the content. *)
Definition der_container {A} (f : bytes -> header -> res A) (i : bytes) : res (A * bytes) :=
  do hr <- read_header i;
  let '(h, r) := hr in
  if len r <? h_len h then E
  else do v <- f (takeN (h_len h) r) h;
       Ok (v, dropN (h_len h) r).

Definition MAX_OBJECT_SIZE : N := 4294967295.

(* ber/wrap_any.rs:58-76 for Integer / OctetString / Oid: class forced to Universal,
   constructed bit not looked at, content returned as is. *)
Definition ber_content (h : header) (r : bytes) : res (bytes * bytes) :=
  if MAX_OBJECT_SIZE <? h_len h then E
  else if len r <? h_len h then E
  else Ok (takeN (h_len h) r, dropN (h_len h) r).

(* der/parser.rs:70-83 with tag = Integer (2); DER check at :503-522 *)
Definition parse_der_integer (i : bytes) : res (bytes * bytes) :=
  do hr <- read_header i;
  let '(h, r) := hr in
  if negb (h_tag h =? 2) then E
  else if len r <? h_len h then E
  else
    do c <- slice SITE_DER_505 r 0 (h_len h);
    match c with
    | [] => E
    | b0 :: c1 =>
      match c1 with
      | [] => ber_content h r
      | b1 :: _ =>
        if (b0 =? 0) && (b1 <? 128) then E else ber_content h r
      end
    end.

(* tag = Oid (6): no DER specific check; wrap_any.rs:136-139 -> Oid::try_from accepts any
   content, including the empty one. *)
Definition parse_der_oid (i : bytes) : res (bytes * bytes) :=
  do hr <- read_header i;
  let '(h, r) := hr in
  if negb (h_tag h =? 6) then E
  else if len r <? h_len h then E
  else ber_content h r.

(* tag = OctetString (4) *)
Definition parse_der_octetstring (i : bytes) : res (bytes * bytes) :=
  do hr <- read_header i;
  let '(h, r) := hr in
  if negb (h_tag h =? 4) then E
  else if len r <? h_len h then E
  else ber_content h r.

(* der/parser.rs:600-603: `ignored_bits` low bits of the last octet must be zero *)
Fixpoint low_bits_zero (n : nat) (b : N) : bool :=
  match n with
  | O => true
  | S n' => if N.odd b then false else low_bits_zero n' (b / 2)
  end.

(* tag = BitString (3): der/parser.rs:498-502 and 584-611.  Returns the data octets
   (after the unused-bits octet). *)
Definition parse_der_bitstring (i : bytes) : res (bytes * bytes) :=
  do hr <- read_header i;
  let '(h, r) := hr in
  let l := h_len h in
  if negb (h_tag h =? 3) then E
  else if len r <? l then E
  else if h_cons h then E
  else
    match r with
    | [] => E
    | ign :: r1 =>
      if 7 <? ign then E
      else if l =? 0 then E
      else if len r1 <? l - 1 then E
      else
        let data := takeN (l - 1) r1 in
        do _ <- (if 1 <? l
                 then do last <- idx SITE_DER_598 data (l - 2);
                      if low_bits_zero (N.to_nat ign) last then Ok tt else E
                 else Ok tt);
        Ok (data, dropN (l - 1) r1)
    end.

(* ------------------------------------------------------------------ *)
(* 2. lib.rs: DER structures                                           *)
(* ------------------------------------------------------------------ *)

(* lib.rs:105-114 parse_25519_private_header and lib.rs:188-197 parse_25519_public_header
   (same text).  hdr.tag() != Tag::Sequence compares the tag NUMBER (16) only. *)
Definition parse_25519_header (i : bytes) : res (bytes * bytes) :=
  der_container (fun c h =>
    if negb (h_tag h =? 16) then E
    else do or_ <- parse_der_oid c;
         do _ <- eof (snd or_);
         Ok (fst or_)) i.

(* lib.rs:116-127; result: (oid content, octet string content).  The remainder after the
   outer SEQUENCE is returned by Rust and ignored by the caller (lib.rs:134 `_remain`). *)
Definition parse_25519_private (i : bytes) : res (bytes * bytes) :=
  do vr <- der_container (fun c h =>
    if negb (h_tag h =? 16) then E
    else do ir <- parse_der_integer c;
         do hr <- parse_25519_header (snd ir);
         do dr <- parse_der_octetstring (snd hr);
         do _ <- eof (snd dr);
         Ok (fst hr, fst dr)) i;
  Ok (fst vr).

(* lib.rs:133-152 up to the choice of conversion: kind and the 32 stored octets *)
Definition parse_priv_der (data : bytes) : res (kind * bytes) :=
  do od <- parse_25519_private data;
  let '(oid, d) := od in
  if negb (len d =? 34) then Err EInval
  else
    do d0 <- idx SITE_LIB_138 d 0;
    if negb (d0 =? TAG_OCTETSTRING) then Err EInval
    else
      do d1 <- idx SITE_LIB_138 d 1;
      if negb (d1 =? 32) then Err EInval
      else if bytes_eqb oid ED_25519_OID then
        do k <- slice SITE_LIB_145 d 2 34; Ok (Ed, k)
      else if bytes_eqb oid X_25519_OID then
        do k <- slice SITE_LIB_147 d 2 34; Ok (X, k)
      else Err EKey.

(* lib.rs:199-209 *)
Definition parse_25519_public (i : bytes) : res (bytes * bytes) :=
  do vr <- der_container (fun c h =>
    if negb (h_tag h =? 16) then E
    else do hr <- parse_25519_header c;
         do dr <- parse_der_bitstring (snd hr);
         do _ <- eof (snd dr);
         Ok (fst hr, fst dr)) i;
  Ok (fst vr).

(* lib.rs:213-231 up to the choice of conversion *)
Definition parse_pub_der (data : bytes) : res (kind * bytes) :=
  do od <- parse_25519_public data;
  let '(oid, d) := od in
  if negb (len d =? 32) then Err EInval
  else if bytes_eqb oid ED_25519_OID then Ok (Ed, d)
  else if bytes_eqb oid X_25519_OID then Ok (X, d)
  else Err EKey.

(* ------------------------------------------------------------------ *)
(* 3. base64 (STANDARD alphabet, padded, canonical)                    *)
(* ------------------------------------------------------------------ *)

Definition b64_chr (v : N) : N :=
  if v <? 26 then v + 65
  else if v <? 52 then v + 71
  else if v <? 62 then v - 4
  else if v =? 62 then 43 else 47.

Definition b64_val (c : N) : option N :=
  if (65 <=? c) && (c <=? 90) then Some (c - 65)
  else if (97 <=? c) && (c <=? 122) then Some (c - 71)
  else if (48 <=? c) && (c <=? 57) then Some (c + 4)
  else if c =? 43 then Some 62
  else if c =? 47 then Some 63
  else None.

Definition PAD : N := 61.

Fixpoint b64_encode (b : bytes) : bytes :=
  match b with
  | [] => []
  | x :: r1 =>
    match r1 with
    | [] => [b64_chr (x / 4); b64_chr ((x mod 4) * 16); PAD; PAD]
    | y :: r2 =>
      match r2 with
      | [] => [b64_chr (x / 4); b64_chr ((x mod 4) * 16 + y / 16);
               b64_chr ((y mod 16) * 4); PAD]
      | z :: r3 =>
        b64_chr (x / 4) :: b64_chr ((x mod 4) * 16 + y / 16)
          :: b64_chr ((y mod 16) * 4 + z / 64) :: b64_chr (z mod 64) :: b64_encode r3
      end
    end
  end.

Definition quad_bytes (va vb vc vd : N) : bytes :=
  [va * 4 + vb / 16; (vb mod 16) * 16 + vc / 4; (vc mod 4) * 64 + vd].

(* decode_suffix.rs: the last quad.  '=' only as "xx==" or "xxx="; the bits that do not
   make a full octet must be zero (decode_allow_trailing_bits = false); an unpadded tail is
   rejected (DecodePaddingMode::RequireCanonical). *)
Definition b64_last (a b c d : N) : option bytes :=
  match b64_val a, b64_val b with
  | Some va, Some vb =>
    if c =? PAD then
      if d =? PAD then
        if vb mod 16 =? 0 then Some [va * 4 + vb / 16] else None
      else None
    else
      match b64_val c with
      | Some vc =>
        if d =? PAD then
          if vc mod 4 =? 0 then Some [va * 4 + vb / 16; (vb mod 16) * 16 + vc / 4] else None
        else
          match b64_val d with
          | Some vd => Some (quad_bytes va vb vc vd)
          | None => None
          end
      | None => None
      end
  | _, _ => None
  end.

(* decode.rs decode_helper + decode_suffix: the input is cut in quads; every quad but the
   last must be four alphabet symbols; a length that is not a multiple of 4 is rejected. *)
Fixpoint b64_decode (s : bytes) : option bytes :=
  match s with
  | [] => Some []
  | a :: s1 =>
    match s1 with
    | [] => None
    | b :: s2 =>
      match s2 with
      | [] => None
      | c :: s3 =>
        match s3 with
        | [] => None
        | d :: rest =>
          match rest with
          | [] => b64_last a b c d
          | _ :: _ =>
            match b64_val a, b64_val b, b64_val c, b64_val d with
            | Some va, Some vb, Some vc, Some vd =>
              match b64_decode rest with
              | Some o => Some (quad_bytes va vb vc vd ++ o)
              | None => None
              end
            | _, _, _, _ => None
            end
          end
        end
      end
    end
  end.

(* ------------------------------------------------------------------ *)
(* 4. UTF-8 (core::str::from_utf8) and char::is_whitespace             *)
(* ------------------------------------------------------------------ *)

Definition in_range (lo hi b : N) : bool := (lo <=? b) && (b <=? hi).
Definition is_cont (b : N) : bool := in_range 128 191 b.

(* Decodes to scalar values; None when core::str::from_utf8 fails (overlong forms,
   surrogates, > U+10FFFF, truncated sequences, stray continuation bytes). *)
Fixpoint utf8_decode (s : bytes) : option (list N) :=
  match s with
  | [] => Some []
  | b0 :: r0 =>
    if b0 <? 128 then option_map (cons b0) (utf8_decode r0)
    else if in_range 194 223 b0 then
      match r0 with
      | b1 :: r1 =>
        if is_cont b1
        then option_map (cons ((b0 - 192) * 64 + (b1 - 128))) (utf8_decode r1)
        else None
      | _ => None
      end
    else if in_range 224 239 b0 then
      match r0 with
      | b1 :: b2 :: r2 =>
        if in_range (if b0 =? 224 then 160 else 128) (if b0 =? 237 then 159 else 191) b1
           && is_cont b2
        then option_map (cons ((b0 - 224) * 4096 + (b1 - 128) * 64 + (b2 - 128)))
                        (utf8_decode r2)
        else None
      | _ => None
      end
    else if in_range 240 244 b0 then
      match r0 with
      | b1 :: b2 :: b3 :: r3 =>
        if in_range (if b0 =? 240 then 144 else 128) (if b0 =? 244 then 143 else 191) b1
           && is_cont b2 && is_cont b3
        then option_map
               (cons ((b0 - 240) * 262144 + (b1 - 128) * 4096 + (b2 - 128) * 64 + (b3 - 128)))
               (utf8_decode r3)
        else None
      | _ => None
      end
    else None
  end.

(* Unicode White_Space, as char::is_whitespace *)
Definition is_ws_cp (c : N) : bool :=
  in_range 9 13 c || (c =? 32) || (c =? 133) || (c =? 160) || (c =? 5760)
  || in_range 8192 8202 c || (c =? 8232) || (c =? 8233) || (c =? 8239) || (c =? 8287)
  || (c =? 12288).

(* ------------------------------------------------------------------ *)
(* 5. PEM: pem-3.0.5                                                   *)
(* ------------------------------------------------------------------ *)

(* parser.rs:90-101 *)
Definition is_ws_byte (b : N) : bool := (b =? 32) || (b =? 9) || (b =? 10) || (b =? 13).
Fixpoint skip_whitespace (s : bytes) : bytes :=
  match s with
  | [] => []
  | b :: r => if is_ws_byte b then skip_whitespace r else s
  end.

(* parser.rs:102-122 read_until.  This is NOT a substring search: on a mismatch `found`
   drops to 0 and the current octet is not compared again with marker[0], so "------BEGIN "
   (six dashes) does not match "-----BEGIN ".  [m] is the part of the marker still to be
   matched (marker[found..]); [k] is `index`.  The loop guard
   `input.len() - index >= marker.len() - found` only stops early when no match can be
   completed any more, which is the same as running to the end of the input. *)
Fixpoint ru_go (marker m s : bytes) (k : nat) : option nat :=
  match s with
  | [] => None
  | c :: s' =>
    match m with
    | [] => None
    | x :: m' =>
      if c =? x then
        match m' with
        | [] => Some (S k)
        | _ :: _ => ru_go marker m' s' (S k)
        end
      else ru_go marker marker s' (S k)
    end
  end.

(* result: (remaining input after the marker, octets before the marker) *)
Definition read_until (input marker : bytes) : option (bytes * bytes) :=
  match marker with
  | [] => Some ([], input)
  | _ :: _ =>
    match ru_go marker marker input 0 with
    | Some k => Some (skipn k input, firstn (k - length marker) input)
    | None => None
    end
  end.

Record captures := mkCaptures
  { c_begin : bytes; c_headers : bytes; c_data : bytes; c_end : bytes }.

(* parser.rs:47-55 *)
Definition extract_headers_and_data (payload : bytes) : bytes * bytes :=
  match read_until payload [10; 10] with
  | Some (rest, headers) => (headers, rest)
  | None =>
    match read_until payload [13; 10; 13; 10] with
    | Some (rest, headers) => (headers, rest)
    | None => ([], payload)
    end
  end.

(* parser.rs:63-88 parser_inner (with parse_begin, parse_payload, parse_end) *)
Definition parser_inner (input : bytes) : option (bytes * captures) :=
  match read_until input BEGIN_MARK with
  | None => None
  | Some (i1, _) =>
    match read_until i1 DASHES with
    | None => None
    | Some (i2, begin) =>
      let i3 := skip_whitespace i2 in
      match read_until i3 END_MARK with
      | None => None
      | Some (i4, payload) =>
        let '(headers, data) := extract_headers_and_data payload in
        match read_until i4 DASHES with
        | None => None
        | Some (i5, end_) =>
          Some (skip_whitespace i5, mkCaptures begin headers data end_)
        end
      end
    end
  end.

(* lib.rs(pem):215-221 HeaderMap::parse over str::lines(): every line must contain ':'.
   lines() splits at '\n' and does not yield a final empty piece. *)
Fixpoint lines_ok (s : bytes) (seen_colon started : bool) : bool :=
  match s with
  | [] => if started then seen_colon else true
  | c :: r =>
    if c =? 10 then seen_colon && lines_ok r false false
    else lines_ok r (seen_colon || (c =? 58)) true
  end.

(* lib.rs(pem):168-179 decode_data *)
Definition decode_data (raw : bytes) : option bytes :=
  match utf8_decode raw with
  | None => None
  | Some cps => b64_decode (filter (fun c => negb (is_ws_cp c)) cps)
  end.

Definition is_nil {A} (l : list A) : bool := match l with [] => true | _ => false end.
Definition is_some {A} (o : option A) : bool := match o with Some _ => true | None => false end.

(* lib.rs(pem):303-335 new_from_captures: (tag, contents) *)
Definition pem_of_captures (c : captures) : res (bytes * bytes) :=
  if negb (is_some (utf8_decode (c_begin c))) then E
  else if is_nil (c_begin c) then E
  else if negb (is_some (utf8_decode (c_end c))) then E
  else if is_nil (c_end c) then E
  else if negb (bytes_eqb (c_begin c) (c_end c)) then E
  else
    match decode_data (c_data c) with
    | None => E
    | Some contents =>
      if negb (is_some (utf8_decode (c_headers c))) then E
      else if negb (lines_ok (c_headers c) false false) then E
      else Ok (c_begin c, contents)
    end.

(* pem::parse *)
Definition pem_parse (input : bytes) : res (bytes * bytes) :=
  match parser_inner input with
  | None => E
  | Some (_, c) => pem_of_captures c
  end.

(* pem::parse_many: parser.rs:18-35 CaptureMatches + collect::<Result<Vec<_>>>.
   The iteration ends — WITHOUT an error — at the first position where no further block
   can be framed; whatever follows the last complete block is ignored. *)
Fixpoint pem_many_go (fuel : nat) (input : bytes) : res (list (bytes * bytes)) :=
  match fuel with
  | O => Err EFuel
  | S f =>
    if is_nil input then Ok []
    else
      match parser_inner input with
      | None => Ok []
      | Some (rest, c) =>
        do p <- pem_of_captures c;
        do ps <- pem_many_go f rest;
        Ok (p :: ps)
      end
  end.
Definition pem_parse_many (input : bytes) : res (list (bytes * bytes)) :=
  pem_many_go (S (length input)) input.

(* slice::chunks(w), w >= 1 *)
Fixpoint chunks_go (fuel w : nat) (l : bytes) : list bytes :=
  match fuel with
  | O => []
  | S f => if is_nil l then [] else firstn w l :: chunks_go f w (skipn w l)
  end.
Definition chunks (w : nat) (l : bytes) : list bytes := chunks_go (length l) w l.

Definition CRLF : bytes := [13; 10].
Definition LF : bytes := [10].

(* lib.rs(pem):497-525 encode_config without headers; nl is the line ending, w the wrap *)
Definition pem_encode_gen (nl : bytes) (w : nat) (label der : bytes) : bytes :=
  BEGIN_MARK ++ label ++ DASHES ++ nl
  ++ concat (map (fun c => c ++ nl) (chunks w (b64_encode der)))
  ++ END_MARK ++ label ++ DASHES ++ nl.

(* body only: the wrapped base64 text between the two framing lines *)
Definition pem_body (nl : bytes) (w : nat) (der : bytes) : bytes :=
  concat (map (fun c => c ++ nl) (chunks w (b64_encode der))).

Definition pem_encode_w (w : nat) : bytes -> bytes -> bytes := pem_encode_gen CRLF w.
(* pem::encode: EncodeConfig::default() = CRLF, LINE_WRAP = 64 (lib.rs(pem):134, 241-246) *)
Definition pem_encode : bytes -> bytes -> bytes := pem_encode_w 64.

(* ------------------------------------------------------------------ *)
(* 6. lib.rs: public entry points                                      *)
(* ------------------------------------------------------------------ *)

(* lib.rs:290-336 *)
Definition export_priv_der (k : bytes) : bytes := PRIV_KEY_PREFIX ++ k.
Definition export_pub_der (k : bytes) : bytes := PUB_KEY_PREFIX ++ k.

Section Curve.
  Variable sha512 : bytes -> bytes.
  Variable ed_to_mont : bytes -> option bytes.   (* decompress + to_montgomery; None = not a point *)
  Variable x25519_base : bytes -> bytes.         (* PublicKey::from(&StaticSecret) *)

  (* lib.rs:141-151: the 32 octets handed to StaticSecret::from (no clamping at this point
     in x25519-dalek 2.0.1; to_bytes() returns them unchanged) *)
  Definition static_secret_of (kr : kind * bytes) : res bytes :=
    match fst kr with
    | Ed => slice SITE_LIB_145 (sha512 (snd kr)) 0 32
    | X => Ok (snd kr)
    end.

  (* lib.rs:220-230 *)
  Definition public_key_of (kr : kind * bytes) : res bytes :=
    match fst kr with
    | Ed => match ed_to_mont (snd kr) with Some m => Ok m | None => Err EInval end
    | X => Ok (snd kr)
    end.

  (* lib.rs:133-152 *)
  Definition parse_openssl_25519_privkey_der (data : bytes) : res bytes :=
    do kr <- parse_priv_der data; static_secret_of kr.
  (* lib.rs:213-231 *)
  Definition parse_openssl_25519_pubkey_der (data : bytes) : res bytes :=
    do kr <- parse_pub_der data; public_key_of kr.

  (* "PEM first, DER as fallback", generic in the DER parser and the expected label.
     lib.rs:239-250 and 253-264 *)
  Definition pem_first {A} (tag : bytes) (der : bytes -> res A) (data : bytes) : res A :=
    match pem_parse data with
    | Ok (t, contents) => if negb (bytes_eqb t tag) then Err EKey else der contents
    | Err _ => der data
    | Crash s => Crash s
    end.

  Definition parse_openssl_25519_pubkey : bytes -> res bytes :=
    pem_first PUBLIC_TAG parse_openssl_25519_pubkey_der.
  Definition parse_openssl_25519_privkey : bytes -> res bytes :=
    pem_first PRIVATE_TAG parse_openssl_25519_privkey_der.

  (* lib.rs:267-278 *)
  Fixpoint pubkeys_of (tag : bytes) (der : bytes -> res bytes) (ps : list (bytes * bytes))
    : res (list bytes) :=
    match ps with
    | [] => Ok []
    | (t, contents) :: r =>
      if negb (bytes_eqb t tag) then Err EKey
      else do k <- der contents;
           do ks <- pubkeys_of tag der r;
           Ok (k :: ks)
    end.
  Definition parse_openssl_25519_pubkeys_pem_many (data : bytes) : res (list bytes) :=
    do ps <- pem_parse_many data;
    pubkeys_of PUBLIC_TAG parse_openssl_25519_pubkey_der ps.

  (* lib.rs:308-336 generate_keypair with `private` = the 32 octets drawn from the RNG:
     (private_der, public_der) *)
  Definition generate_keypair_from_seed (seed : bytes) : bytes * bytes :=
    (export_priv_der seed, export_pub_der (x25519_base seed)).
  (* lib.rs:296-304 *)
  Definition private_as_pem (kp : bytes * bytes) : bytes := pem_encode PRIVATE_TAG (fst kp).
  Definition public_as_pem (kp : bytes * bytes) : bytes := pem_encode PUBLIC_TAG (snd kp).
End Curve.

(* raw variants (no curve conversion) of the PEM-first functions: kind + stored octets *)
Definition parse_priv_raw : bytes -> res (kind * bytes) :=
  pem_first PRIVATE_TAG parse_priv_der.
Definition parse_pub_raw : bytes -> res (kind * bytes) :=
  pem_first PUBLIC_TAG parse_pub_der.
