(* LimitExample.v — the limit arms of the faithful model, EVALUATED (vm_compute) under a tiny
   BINCODE_MAX_DESERIALIZE on a 3-file archive (the scaled flavour of Tie B cannot reach 512 MiB):
   writer (ArchiveFooter::serialize_into inside finalize), reader (ArchiveFooter::deserialize_from),
   compression writer (SizesInfo) — the last one side by side with the TRANSLATED
   CompressionLayerWriter::finalize (Src3c, which has the limit as a parameter).  The translated footer
   functions of Src3d have the constant of the source baked in; their equality with the model at that
   constant is SrcTie3Reader.footer_deserialize_order_src / footer_serialize_into_src (all inputs). *)
From MLA Require Import Base Stream Blocks Writer Reader CompLayer SrcTie3CompW.
From MLAGen Require Src3c.
Open Scope N_scope.

Section Ex.
  Let H0 : bytes -> bytes := fun _ => repeat 7 32.
  Let ops : list wop := [OAdd [97] 2 [1; 2]; OAdd [98] 1 [3]; OAdd [99] 3 [4; 5; 6]; OFinalize].
  Let run (L : N) := wrun (LIM := L) 48 0 1 254 255 H0 (fun f => f) w_init ops.
  Let S0 (a : bytes) := Cursor a.

  (* the footer map of the three files takes 8 + 3 * 41 = 131 bytes *)
  Example footer_size : len (ser_footer_map (w_footer (fst (run 1000)))) = 131.
  Proof. vm_compute. reflexivity. Qed.

  (* limit 40 < 131: finalize answers SerializationError AFTER the end marker; the writer is Finalized,
     nothing of the footer is in the destination, and every later call is refused *)
  Example writer_limit_arm :
    snd (run 40) = [Ok 0; Ok 0; Ok 0; Err EDeser] /\
    w_final (fst (run 40)) = true /\
    w_out (fst (run 40)) = w_out (fst (wrun (LIM := 40) 48 0 1 254 255 H0 (fun f => f) w_init (removelast ops))) ++ [254] /\
    wstep (LIM := 40) 48 0 1 254 255 H0 (fun f => f) (fst (run 40)) (OStart [100]) = (fst (run 40), Err EState).
  Proof. vm_compute. repeat split; reflexivity. Qed.
  (* limit 131: exactly fits *)
  Example writer_fits : snd (run 131) = [Ok 0; Ok 0; Ok 0; Ok 0] /\ snd (run 130) = [Ok 0; Ok 0; Ok 0; Err EDeser].
  Proof. vm_compute. split; reflexivity. Qed.

  (* the reader: the archive written under a large limit opens under limit >= 131 and is refused
     (DeserializationError) under a smaller one; the footer length field (131) is the other bound of
     len.min(BINCODE_MAX_DESERIALIZE) *)
  Let a := w_out (fst (run 1000)).
  Example reader_limit_arm :
    (match ropen (LIM := 131) (S0 a) 0 with Ok r => list_files (S0 a) r = [[97]; [98]; [99]] | _ => False end) /\
    ropen (LIM := 130) (S0 a) 0 = Err EDeser /\
    ropen (LIM := 40) (S0 a) 0 = Err EDeser.
  Proof. vm_compute. repeat split; reflexivity. Qed.

  (* compression writer: one full block and a partial one (BLOCK = 4): SizesInfo = 12 + 4 * 2 = 20
     bytes; model and TRANSLATED finalize agree on both sides of the limit *)
  Let gfin (L : N) x := Src3c.Wr.cw_finalize L toy_comp bytes vw_write_all vw_ok vw_serialize vw_size (finish (fun _ => false) 0) x.
  Example comp_writer_limit_arm :
    let x0 := Src3c.Wr.CompressionLayerWriter_new bytes [] 5 in
    let gw := Src3c.Wr.cw_write 4 toy_comp bytes 0 0 0 (finish (fun _ => false) 0) 2 in
    let '(x1, _) := gw x0 [1; 2; 3; 4; 5; 6] in
    let '(x2, _) := gw x1 [5; 6] in
    let '(w1, _) := cw_write 4 toy_comp cw_init [1; 2; 3; 4; 5; 6] in
    let '(w2, _) := cw_write 4 toy_comp w1 [5; 6] in
    snd (gfin 19 x2) = Err EIo /\ snd (cw_finalize (LIM := 19) toy_comp w2) = Err EIo /\
    cw_st (fst (cw_finalize (LIM := 19) toy_comp w2)) = WEmpty /\
    cw_out (fst (cw_finalize (LIM := 19) toy_comp w2)) = toy_comp [1; 2; 3; 4] ++ toy_comp [5; 6] /\
    snd (gfin 20 x2) = Ok tt /\ snd (cw_finalize (LIM := 20) toy_comp w2) = Ok tt /\
    Src3c.Wr.clw_state bytes (fst (gfin 20 x2)) = Src3c.Wr.Ready bytes (cw_out (fst (cw_finalize (LIM := 20) toy_comp w2))).
  Proof. vm_compute. repeat split; reflexivity. Qed.
End Ex.
