(* RoundTripFooter.v — C01, footer: the bincode map written by ArchiveFooter::serialize_into
   is parsed back by deserialize_from over any stream refining a cursor over
   body ++ footer (seek End(-4), length, seek back, take(len)). *)
From MLA Require Import Limit.
From MLA Require Import Base Stream Blocks Reader RoundTripBlocks.
From Coq Require Import ZifyBool ZifyNat ZifyN.
Open Scope N_scope.

Definition wf_finfo (fi : finfo) : Prop :=
  len (fi_offsets fi) < 2 ^ 64 /\ Forall (fun o => o < 2 ^ 64) (fi_offsets fi) /\
  fi_size fi < 2 ^ 64 /\ fi_eof fi < 2 ^ 64.
Definition wf_entry (e : bytes * finfo) : Prop :=
  len (fst e) < 2 ^ 64 /\ utf8_valid (fst e) = true /\ wf_finfo (snd e).
Definition wf_footer (m : footer) : Prop := len m < 2 ^ 64 /\ Forall wf_entry m.

Lemma take_u64_le64 v r : v < 2 ^ 64 -> take_u64 (le64 v ++ r) = Some (v, r).
Proof.
  intros Hv. unfold take_u64. rewrite len_app, len_le64.
  destruct (N.ltb_spec (8 + len r) 8); [lia|].
  rewrite <- (len_le64 v) at 1 2. rewrite takeN_len_app, dropN_len_app, le64_val by exact Hv.
  reflexivity.
Qed.

Lemma len_concat_le64 vs : len (concat (map le64 vs)) = 8 * len vs.
Proof.
  induction vs as [|v vs IH]; cbn [map concat]; [reflexivity|].
  rewrite len_app, len_le64, len_cons, IH. lia.
Qed.

Lemma take_u64s_ser vs r : Forall (fun o => o < 2 ^ 64) vs ->
  take_u64s (length vs) (concat (map le64 vs) ++ r) = Some (vs, r).
Proof.
  induction 1 as [|v vs Hv Hvs IH]; cbn [length take_u64s map concat]; [reflexivity|].
  rewrite <- app_assoc, take_u64_le64 by exact Hv. rewrite IH. reflexivity.
Qed.

Lemma parse_entry_ser e r : wf_entry e -> parse_entry (ser_entry e ++ r) = Some (e, r).
Proof.
  destruct e as [name [offs size eof]]. unfold wf_entry, wf_finfo. cbn [fst snd fi_offsets fi_size fi_eof].
  intros (Hn & Hu & Ho & Hos & Hs & He).
  unfold parse_entry, ser_entry, ser_finfo. cbn [fst snd fi_offsets fi_size fi_eof].
  rewrite <- !app_assoc. rewrite take_u64_le64 by exact Hn.
  rewrite len_app. destruct (N.ltb_spec (len name + len (le64 (len offs) ++ concat (map le64 offs) ++ le64 size ++ le64 eof ++ r)) (len name)); [lia|].
  rewrite takeN_len_app, dropN_len_app, Hu. cbn [negb].
  rewrite take_u64_le64 by exact Ho.
  rewrite len_app, len_concat_le64.
  destruct (N.ltb_spec (8 * len offs + len (le64 size ++ le64 eof ++ r)) (8 * len offs)); [lia|].
  unfold len at 1. rewrite Nat2N.id, take_u64s_ser by exact Hos.
  rewrite take_u64_le64 by exact Hs. rewrite take_u64_le64 by exact He. reflexivity.
Qed.

Lemma parse_entries_ser es r : Forall wf_entry es ->
  parse_entries (length es) (concat (map ser_entry es) ++ r) = Some es.
Proof.
  induction 1 as [|e es He Hes IH]; cbn [length parse_entries map concat]; [reflexivity|].
  rewrite <- app_assoc, parse_entry_ser by exact He. rewrite IH. reflexivity.
Qed.

Lemma len_ser_entry_ge e : 32 <= len (ser_entry e).
Proof.
  unfold ser_entry, ser_finfo. rewrite !len_app, !len_le64. lia.
Qed.
Lemma len_ser_entries_ge es : 32 * len es <= len (concat (map ser_entry es)).
Proof.
  induction es as [|e es IH]; cbn [map concat]; [unfold len; cbn [length]; lia|].
  rewrite len_app, len_cons. pose proof (len_ser_entry_ge e). lia.
Qed.

Theorem parse_ser_footer_map m : wf_footer m -> parse_footer_map (ser_footer_map m) = Some m.
Proof.
  intros [Hl Hm]. unfold parse_footer_map, ser_footer_map.
  rewrite take_u64_le64 by exact Hl.
  pose proof (len_ser_entries_ge m).
  destruct (N.ltb_spec (len (concat (map ser_entry m))) (32 * len m)); [lia|].
  unfold len at 1. rewrite Nat2N.id.
  rewrite <- (app_nil_r (concat (map ser_entry m))). apply parse_entries_ser. exact Hm.
Qed.

Lemma target_start l p q : q <= l -> target l p (FromStart q) = Some q.
Proof.
  intros Hq. unfold target.
  destruct ((0 <=? Z.of_N q) && (Z.of_N q <=? Z.of_N l))%Z eqn:E; [|lia].
  rewrite N2Z.id. reflexivity.
Qed.
Lemma target_end4 l p : 4 <= l -> target l p (FromEnd (-4)) = Some (l - 4).
Proof.
  intros Hq. unfold target.
  destruct ((0 <=? Z.of_N l + -4) && (Z.of_N l + -4 <=? Z.of_N l))%Z eqn:E; [|lia].
  f_equal. lia.
Qed.

Section RTFooter.
  Context {LIM : Limit}.
  Variable S : Stream.
  Variable body : bytes.
  Variable m : footer.
  Variable R : st S -> N -> Prop.
  Hypothesis HR : Refines S (body ++ ser_footer m) R.
  Hypothesis Hwf : wf_footer m.
  Hypothesis Hlen : len (ser_footer_map m) < 2 ^ 32.
  (* ArchiveFooter::deserialize_from: bincode limit = len.min(BINCODE_MAX_DESERIALIZE) *)
  Hypothesis Hlim : len (ser_footer_map m) <= lim.

  Lemma read_footer_spec s p : R s p ->
    exists s', read_footer S s = (s', Ok m) /\ R s' (len body + len (ser_footer_map m)).
  Proof.
    intros HRs. unfold read_footer, ser_footer in *.
    set (fb := ser_footer_map m) in *. set (b := body ++ fb ++ le32 (len fb)) in *.
    assert (Hl : len b = len body + len fb + 4) by (unfold b; rewrite !len_app, len_le32; lia).
    destruct (ref_sk _ _ _ HR s p (FromEnd (-4)) (len b - 4) HRs) as (s1 & -> & HR1).
    { apply target_end4. lia. }
    assert (Hb1 : b = (body ++ fb) ++ le32 (len fb) ++ [])
      by (unfold b; rewrite app_nil_r, <- app_assoc; reflexivity).
    assert (HR1' : R s1 (len (body ++ fb))) by (rewrite len_app; replace (len body + len fb) with (len b - 4) by lia; exact HR1).
    destruct (rexact_mid S b R HR s1 _ _ _ 4 Hb1 (eq_sym (len_le32 _)) HR1') as (s2 & -> & HR2).
    rewrite le32_val by exact Hlen.
    destruct (N.ltb_spec (len b - 4) (len fb)); [lia|].
    destruct (ref_sk _ _ _ HR s2 _ (FromStart (len b - 4 - len fb)) (len body) HR2) as (s3 & -> & HR3).
    { replace (len b - 4 - len fb) with (len body) by lia. apply target_start. lia. }
    destruct (read_full_spec S b R HR (Datatypes.S (N.to_nat (len fb))) s3 (len body) (len fb) HR3) as (s4 & -> & HR4); [lia|].
    unfold b at 1. rewrite sliceN_mid. unfold fb at 1. rewrite parse_ser_footer_map by exact Hwf.
    fold fb. destruct (N.ltb_spec (N.min (len fb) lim) (len fb)) as [Hc|_]; [pose proof Hlim as Hq; fold fb in Hq; lia|].
    exists s4. split; [reflexivity|].
    replace (len body + N.min (len fb) (len b - len body)) with (len body + len fb) in HR4 by lia.
    exact HR4.
  Qed.

  Theorem ropen_spec s p : R s p -> exists s', ropen S s = Ok (mkR s' m) /\ R s' 0.
  Proof.
    intros HRs. unfold ropen.
    destruct (read_footer_spec s p HRs) as (s1 & -> & HR1).
    destruct (ref_sk _ _ _ HR s1 _ (FromStart 0) 0 HR1) as (s2 & -> & HR2).
    { apply target_start. lia. }
    exists s2. auto.
  Qed.
End RTFooter.
