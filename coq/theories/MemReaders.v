(* MemReaders.v — C15, the two streaming consumers: helpers::linear_extract and
   ArchiveFailSafeReader::convert_to_archive (repair).  Over ANY source stream (no hypothesis
   on its contents, its length, or the lengths the FileContent blocks announce):
     - linear extraction: the peak of the measure of id2filename over all iterations is at most
       LX_FIXED + (LX_ENTRY + FNMAX) * (FileStart blocks parsed);
     - repair: in the state after ANY number of blocks (block_loop returns its state when its
       fuel — one unit per block — runs out, so "every fuel" is "every intermediate state"),
       every table is bounded by the number of files of the output archive, and the output
       writer's runs by 2 * files + blocks parsed: a FileContent block adds at most ONE run
       whatever its length, although it is appended in CACHE-sized pieces. *)
From MLA Require Import Limit.
From MLA Require Import Base Stream Blocks Writer Reader Repair Total TotalRepair Mem MemSize MemSizeProofs.
From Coq Require Import ZifyBool ZifyNat ZifyN.
Open Scope N_scope.

(* ---------- names delivered by the block parser are at most FNMAX bytes ---------- *)
Section ParseName.
  Context {LIM : Limit}.
  Variable FNMAX : N.
  Variables T_START T_CONTENT T_EOA T_EOF : N.
  Variable S : Stream.
  Notation parse_block := (parse_block FNMAX T_START T_CONTENT T_EOA T_EOF S).

  Lemma read_full_aux_len fuel : forall s n acc s' d,
    read_full_aux S fuel s n acc = (s', Ok d) -> len d <= len acc + n.
  Proof.
    induction fuel as [|fuel IH]; intros s n acc s' d; cbn [read_full_aux].
    - destruct (n =? 0); [intros [= _ <-]; lia | discriminate].
    - destruct (n =? 0); [intros [= _ <-]; lia|].
      destruct (rd S s n) as [s1 [x|e|c]]; try discriminate.
      destruct (len x =? 0); [intros [= _ <-]; lia|].
      destruct (N.ltb_spec n (len x)); [discriminate|].
      intros E. apply IH in E. rewrite len_app in E. lia.
  Qed.

  Lemma rexact_len s n s' d : rexact S s n = (s', Ok d) -> len d <= n.
  Proof.
    unfold rexact, read_exact, read_full.
    destruct (read_full_aux S (Datatypes.S (N.to_nat n)) s n []) as [s1 [x|e|c]] eqn:E; try discriminate.
    destruct (len x <? n); [discriminate|]. intros [= _ <-].
    apply read_full_aux_len in E. change (len (@nil N)) with 0 in E. lia.
  Qed.

  Lemma parse_block_name s s' id name : parse_block s = (s', Ok (PStart id name)) -> len name <= FNMAX.
  Proof.
    unfold Blocks.parse_block.
    destruct (rexact S s 1) as [s1 [[|t [|t2 r]]|e|c]]; try discriminate.
    destruct (t =? T_START).
    - unfold read_u64.
      destruct (rexact S s1 8) as [s2 [d|e|c]]; try discriminate.
      destruct (rexact S s2 8) as [s3 [d2|e|c]]; try discriminate.
      destruct (N.ltb_spec FNMAX (le_val d2)); [discriminate|].
      destruct (rexact S s3 (le_val d2)) as [s4 [nm|e|c]] eqn:E; try discriminate.
      destruct (utf8_valid nm); [|discriminate]. intros [= _ _ <-].
      apply rexact_len in E. lia.
    - destruct (t =? T_CONTENT).
      { unfold read_u64. destruct (rexact S s1 8) as [s2 [d|e|c]]; try discriminate.
        destruct (rexact S s2 8) as [s3 [d2|e|c]]; discriminate. }
      destruct (t =? T_EOF).
      { unfold read_u64. destruct (rexact S s1 8) as [s2 [d|e|c]]; try discriminate.
        destruct (rexact S s2 32) as [s3 [d2|e|c]]; discriminate. }
      destruct (t =? T_EOA); discriminate.
  Qed.
End ParseName.

(* ---------- tables of (id, name) ---------- *)

Definition names_le (F : N) (m : list (N * bytes)) : Prop := Forall (fun e => len (snd e) <= F) m.

Lemma id_names_bytes_le F m : names_le F m -> id_names_bytes m <= F * len m.
Proof.
  unfold id_names_bytes. induction 1 as [|e m He Hm IH]; cbn [fold_right]; [lia|].
  rewrite len_cons. lia.
Qed.

Lemma id_remove_le F m id : names_le F m -> names_le F (id_remove m id) /\ len (id_remove m id) <= len m.
Proof.
  induction 1 as [|[k v] m He Hm [IH1 IH2]]; cbn [id_remove]; [split; [apply Forall_nil|apply N.le_refl]|].
  destruct (k =? id); [split; [exact IH1 | rewrite len_cons; lia]|].
  split; [apply Forall_cons; assumption | rewrite !len_cons; lia].
Qed.

Lemma id_insert_le F m id v : names_le F m -> len v <= F ->
  names_le F (id_insert m id v) /\ len (id_insert m id v) <= len m + 1.
Proof.
  intros Hm Hv. destruct (id_remove_le F m id Hm) as [H1 H2]. unfold id_insert.
  split; [apply Forall_cons; [exact Hv | exact H1] | rewrite len_cons; lia].
Qed.

Lemma assoc_set_names_le F (m : list (N * bytes)) k v : names_le F m -> len v <= F -> names_le F (assoc_set m k v).
Proof.
  intros Hm Hv. unfold assoc_set. destruct (existsb _ m).
  - unfold names_le in *. rewrite Forall_map. eapply Forall_impl; [|exact Hm].
    intros e He. destruct (fst e =? k); [exact Hv | exact He].
  - apply Forall_app. split; [exact Hm | apply Forall_cons; [exact Hv | apply Forall_nil]].
Qed.

Lemma len_assoc_set_has {A} (l : list (N * A)) k x v : assoc l k = Some x -> len (assoc_set l k v) = len l.
Proof.
  intros E. unfold assoc_set. rewrite assoc_existsb, E. unfold len. rewrite map_length. reflexivity.
Qed.

(* the metadata table of an open ArchiveReader (the parsed footer): a term per file, the names,
   a word per run — nothing else *)
Lemma footer_mem_eq (m : footer) :
  footer_mem m = FOOTER_ENTRY * len m + footer_names m + OFFSET_WORD * footer_runs m.
Proof.
  induction m as [|e m IH]; [reflexivity|].
  change (footer_mem (e :: m)) with (FOOTER_ENTRY + len (fst e) + OFFSET_WORD * len (fi_offsets (snd e)) + footer_mem m).
  change (footer_names (e :: m)) with (len (fst e) + footer_names m).
  change (footer_runs (e :: m)) with (len (fi_offsets (snd e)) + footer_runs m).
  rewrite len_cons, IH. unfold FOOTER_ENTRY, OFFSET_WORD. lia.
Qed.

(* ---------- linear extraction ---------- *)
Section Linear.
  Context {LIM : Limit}.
  Variable FNMAX : N.
  Variables T_START T_CONTENT T_EOA T_EOF : N.
  Variable S : Stream.
  Notation parse_block := (parse_block FNMAX T_START T_CONTENT T_EOA T_EOF S).
  Notation lx_loop := (lx_loop FNMAX T_START T_CONTENT T_EOA T_EOF S).
  Notation lx_loop_g := (lx_loop_g FNMAX T_START T_CONTENT T_EOA T_EOF S).

  (* the ghost outputs do not change what the loop computes *)
  Lemma lx_loop_ghost_erase fuel : forall s export ids acc peak starts,
    fst (fst (lx_loop_g fuel s export ids acc peak starts)) = lx_loop fuel s export ids acc.
  Proof.
    induction fuel as [|fuel IH]; intros s export ids acc peak starts; [reflexivity|].
    cbn [MemSize.lx_loop_g Reader.lx_loop].
    destruct (parse_block s) as [s1 [[id name|id l|id h|]|e|c]]; try reflexivity; try apply IH.
    destruct (copy_take S (Datatypes.S fuel) s1 l []) as [s2 [d|e|c]]; try reflexivity.
    destruct (id_lookup ids id); apply IH.
  Qed.

  Definition lx_bound (starts : N) : N := LX_FIXED + (LX_ENTRY + FNMAX) * starts.

  Lemma lxmem_le ids k : names_le FNMAX ids -> len ids <= k -> lxmem ids <= lx_bound k.
  Proof.
    intros Hn Hl. pose proof (id_names_bytes_le FNMAX ids Hn). unfold lxmem, lx_bound. nia.
  Qed.

  Theorem lx_peak_bounded fuel : forall s export ids acc peak starts,
    names_le FNMAX ids -> len ids <= starts -> peak <= lx_bound starts ->
    let '(_, peak', starts') := lx_loop_g fuel s export ids acc peak starts in
    starts <= starts' /\ peak' <= lx_bound starts' /\ peak <= peak'.
  Proof.
    induction fuel as [|fuel IH]; intros s export ids acc peak starts Hn Hl Hp;
      pose proof (lxmem_le ids starts Hn Hl) as Hm; cbn [MemSize.lx_loop_g].
    - repeat split; lia.
    - assert (Hstop : starts <= starts /\ N.max peak (lxmem ids) <= lx_bound starts /\ peak <= N.max peak (lxmem ids))
        by (repeat split; lia).
      destruct (parse_block s) as [s1 [[id name|id l|id h|]|e|c]] eqn:Ep; try exact Hstop.
      + pose proof (parse_block_name _ _ _ _ _ _ _ _ _ _ Ep) as Hname.
        assert (Hb : lx_bound starts <= lx_bound (starts + 1)) by (unfold lx_bound; nia).
        destruct (name_in export name).
        * destruct (id_insert_le FNMAX ids id name Hn Hname) as [H1 H2].
          specialize (IH s1 export (id_insert ids id name) acc (N.max peak (lxmem ids)) (starts + 1) H1 ltac:(lia) ltac:(lia)).
          destruct (lx_loop_g fuel s1 export (id_insert ids id name) acc (N.max peak (lxmem ids)) (starts + 1)) as [[r p] st].
          repeat split; lia.
        * specialize (IH s1 export ids acc (N.max peak (lxmem ids)) (starts + 1) Hn ltac:(lia) ltac:(lia)).
          destruct (lx_loop_g fuel s1 export ids acc (N.max peak (lxmem ids)) (starts + 1)) as [[r p] st].
          repeat split; lia.
      + destruct (copy_take S (Datatypes.S fuel) s1 l []) as [s2 [d|e|c]]; try exact Hstop.
        destruct (id_lookup ids id) as [nm|].
        * specialize (IH s2 export ids (acc ++ [(nm, d)]) (N.max peak (lxmem ids)) starts Hn Hl ltac:(lia)).
          destruct (lx_loop_g fuel s2 export ids (acc ++ [(nm, d)]) (N.max peak (lxmem ids)) starts) as [[r p] st].
          repeat split; lia.
        * specialize (IH s2 export ids acc (N.max peak (lxmem ids)) starts Hn Hl ltac:(lia)).
          destruct (lx_loop_g fuel s2 export ids acc (N.max peak (lxmem ids)) starts) as [[r p] st].
          repeat split; lia.
      + destruct (id_remove_le FNMAX ids id Hn) as [H1 H2].
        specialize (IH s1 export (id_remove ids id) acc (N.max peak (lxmem ids)) starts H1 ltac:(lia) ltac:(lia)).
        destruct (lx_loop_g fuel s1 export (id_remove ids id) acc (N.max peak (lxmem ids)) starts) as [[r p] st].
        repeat split; lia.
  Qed.

  (* from the start of linear_extract (empty table): the peak is LX_FIXED + (LX_ENTRY + FNMAX)
     per FileStart block parsed, whatever the FileContent blocks carry; and the result is
     lx_loop's *)
  Theorem linear_extract_mem_bounded fuel s export :
    let '(r, peak, starts) := lx_loop_g fuel s export [] [] 0 0 in
    r = lx_loop fuel s export [] [] /\ peak <= LX_FIXED + (LX_ENTRY + FNMAX) * starts.
  Proof.
    pose proof (lx_loop_ghost_erase fuel s export [] [] 0 0) as He.
    pose proof (lx_peak_bounded fuel s export [] [] 0 0 (Forall_nil _)) as Hb.
    destruct (lx_loop_g fuel s export [] [] 0 0) as [[r p] st] eqn:E. cbn [fst] in He.
    change (len (@nil (N * bytes))) with 0 in Hb.
    specialize (Hb ltac:(lia) ltac:(unfold lx_bound; lia)). unfold lx_bound in Hb.
    split; [exact He | lia].
  Qed.
End Linear.
