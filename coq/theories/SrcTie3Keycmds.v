(* SrcTie3Keycmds.v — Tie A level 1 for `mlar keygen` and `mlar keyderive` (work package cmdsT): the WHOLE functions
   keygen, apply_derive, keyderive of mlar/src/main.rs as translated by tools/src2v3_cmds.py (gen/Src3m.v) equal
   Derive.keygen_seed_files / Derive.apply_derive / Derive.keyderive_files — output files, panic sites and the order
   "output files created (truncated) BEFORE the input key is read" included.

   Instantiation of the library primitives (trusted mapping, head of tools/src2v3_cmds.py):
     Rng = the 32-byte seed, generate_keypair rng = Derive.generate_keypair (ONE fill of 32 octets), KeyPair = (private DER, public DER),
     public_as_pem = Keys.public_as_pem, Sha512::digest = sha512, Hkdf<Sha512> = hkdf512, parse_openssl_25519_privkey = the Keys.v parser,
     File::open + read_to_end of the input key = its content. *)
From MLA Require Import Base Keys Cli Derive DeriveProofs DeriveConcrete.
From MLA.Concrete Require Import HexS Sha512 Hmac Hkdf ChaCha20 X25519.
From MLAGen Require Src3m.
From Coq Require Import Lia ZifyBool ZifyNat ZifyN.
Open Scope N_scope.

Section KeyCmds.
  Variable sha512 : bytes -> bytes.
  Variable hkdf512 : option bytes -> bytes -> bytes -> N -> bytes.
  Variable rng_fill : bytes -> N -> bytes.
  Variable x25519_base : bytes -> bytes.
  Variable os_rng : bytes.

  Definition KP : Type := (bytes * bytes)%type.
  Definition gen_kp (s : bytes) : bytes * res KP := (s, Ok (generate_keypair rng_fill x25519_base s)).
  Definition site_keygen (k : N) : N := if k =? 6 then SITE_MAIN_816 else 20900 + k.
  Definition site_keyderive (k : N) : N :=
    if k =? 3 then SITE_MAIN_867 else if k =? 4 then SITE_MAIN_873 else if k =? 6 then SITE_MAIN_880
    else if k =? 8 then SITE_MAIN_884 else 20900 + k.
  Definition site_derive (k : N) : N := 20950 + k.
  (* clap: get_many is None when the option does not occur *)
  Definition clap_many {A} (l : list A) : option (list A) := match l with [] => None | _ => Some l end.

  Definition keygen_t (seed : option bytes) : Src3m.World -> Src3m.World * res unit :=
    Src3m.keygen bytes KP seed sha512 (fun s => s) os_rng gen_kp public_as_pem fst site_keygen.
  Definition apply_derive_t : bytes -> bytes -> Src3m.World -> Src3m.World * res bytes :=
    Src3m.apply_derive hkdf512 site_derive.
  Definition keyderive_t (input : bytes) (paths : list bytes) : Src3m.World -> Src3m.World * res unit :=
    Src3m.keyderive unit bytes KP tt (clap_many paths) (fun _ _ => Ok input) (parse_openssl_25519_privkey sha512) hkdf512
      (fun s => s) gen_kp public_as_pem fst site_derive site_keyderive.

  Definition files_world (w : Src3m.World) (priv pub : bytes) : Src3m.World :=
    Src3m.mkW (OWritten priv) (OWritten pub) (Src3m.w_stdout w).

  Lemma salt_src : Src3m.DERIVE_PATH_SALT = DERIVE_PATH_SALT.
  Proof. reflexivity. Qed.

  (* apply_derive: HKDF-SHA512(salt = "PATH DERIVATION", ikm = the stored octets, info = path) -> 32 octets; no panic, world untouched *)
  Lemma apply_derive_src path secret w :
    apply_derive_t path secret w = (w, Ok (apply_derive hkdf512 path secret)).
  Proof. reflexivity. Qed.

  Lemma slice_32 site d s : slice site d 0 32 = Ok s -> len s = 32.
  Proof.
    unfold slice. destruct ((0 <=? 32) && (32 <=? len d)) eqn:E; [|discriminate]. intros [= <-].
    rewrite len_sliceN. lia.
  Qed.

  (* keygen --seed S: both files are created first; SHA-512, [0..32], ChaCha generator, generate_keypair; PEM then DER written *)
  Theorem keygen_src seed w :
    keygen_t (Some seed) w =
    match keygen_seed_files sha512 rng_fill x25519_base seed with
    | Ok (priv, pub) => (files_world w priv pub, Ok tt)
    | Err e => (files_world w [] [], Err e)
    | Crash s => (files_world w [] [], Crash s)
    end.
  Proof.
    unfold keygen_t, Src3m.keygen, keygen_seed_files, keygen_prng_seed. cbn [Src3m.sys_create Src3m.opath_with_extension Src3m.arg_output].
    change (site_keygen 6) with SITE_MAIN_816. change PRNG_SEED_LEN with 32.
    destruct (slice SITE_MAIN_816 (sha512 seed) 0 32) as [s|e|c] eqn:Es; cbn [bind]; [|destruct w; reflexivity..].
    rewrite (slice_32 _ _ _ Es). change (len (Src3m.zeros_n 32) =? 32) with true. cbv iota.
    unfold gen_kp, key_files. destruct w; reflexivity.
  Qed.

  (* without --seed the generator comes from the OS (not a function of the arguments) *)
  Lemma keygen_os_src w :
    keygen_t None w = (let kp := generate_keypair rng_fill x25519_base os_rng in files_world w (fst kp) (public_as_pem kp), Ok tt).
  Proof. destruct w; reflexivity. Qed.

  (* the loop over the --path values: the parent is refreshed from the private DER just generated, each time *)
  Definition GK (priv : bytes) : KP := generate_keypair_from_seed x25519_base priv.
  Notation loop_t := (Src3m.keyderive_for1 bytes KP (parse_openssl_25519_privkey sha512) hkdf512 (fun s => s) gen_kp fst site_derive site_keyderive).

  Lemma keyderive_loop_src paths : forall secret lastp w,
    match derive_loop sha512 hkdf512 rng_fill secret lastp paths with
    | Ok lp => exists s', loop_t secret (option_map GK lastp) w paths = ((w, s', option_map GK lp), Ok tt)
    | Err e => False
    | Crash c => exists s' k', loop_t secret (option_map GK lastp) w paths = ((w, s', k'), Crash c)
    end.
  Proof.
    induction paths as [|p r IH]; intros secret lastp w.
    - cbn. eexists. reflexivity.
    - cbn [derive_loop Src3m.keyderive_for1].
      change (Src3m.apply_derive hkdf512 site_derive p secret w) with (w, @Ok bytes (apply_derive hkdf512 p secret)).
      cbv iota beta. unfold gen_kp. cbv iota beta.
      change (generate_keypair rng_fill x25519_base (apply_derive hkdf512 p secret))
        with (GK (derive_step_code hkdf512 rng_fill secret p)).
      change (fst (GK (derive_step_code hkdf512 rng_fill secret p))) with (export_priv_der (derive_step_code hkdf512 rng_fill secret p)).
      change (site_keyderive 6) with SITE_MAIN_880.
      destruct (parse_openssl_25519_privkey sha512 (export_priv_der (derive_step_code hkdf512 rng_fill secret p))) as [s|e|c].
      + exact (IH s (Some (derive_step_code hkdf512 rng_fill secret p)) w).
      + do 2 eexists. reflexivity.
      + do 2 eexists. reflexivity.
  Qed.

  (* keyderive IN OUT -p p1 -p p2 ..: both output files are created first; the input is read and parsed (panic if it does not
     parse); no --path: panic; the loop; PEM of the last public key, DER of the last private key *)
  Theorem keyderive_src input paths w :
    keyderive_t input paths w =
    match keyderive_files sha512 hkdf512 rng_fill x25519_base input paths with
    | Ok (priv, pub) => (files_world w priv pub, Ok tt)
    | Err e => (files_world w [] [], Err e)
    | Crash s => (files_world w [] [], Crash s)
    end.
  Proof.
    unfold keyderive_t, Src3m.keyderive, keyderive_files, Src3m.arg_output, Src3m.opath_with_extension.
    cbn [Src3m.sys_create Src3m.opath_with_extension Src3m.arg_output Src3m.read_to_end app].
    destruct (parse_openssl_25519_privkey sha512 input) as [secret|e|c]; [|destruct w; reflexivity..].
    destruct paths as [|p0 r]; [destruct w; reflexivity|]. cbn [clap_many].
    pose proof (keyderive_loop_src (p0 :: r) secret None
      (Src3m.w_set Src3m.PMain (fun _ => OWritten []) (Src3m.w_set Src3m.PPub (fun _ => OWritten []) w))) as HL.
    cbn [option_map] in HL.
    destruct (derive_loop sha512 hkdf512 rng_fill secret None (p0 :: r)) as [lp|e|c]; cbn [bind].
    - destruct HL as (s' & ->). destruct lp as [priv|]; cbn [option_map]; destruct w; reflexivity.
    - contradiction.
    - destruct HL as (s' & k' & ->). destruct w; reflexivity.
  Qed.

  (* the input key is read AFTER <output> was truncated: `mlar keyderive K K -p x` reads an empty file and panics with K destroyed
     (instance: the content read is a function of the world) *)
  Lemma keyderive_in_place_destroys_key paths w :
    Src3m.keyderive unit bytes KP tt (clap_many paths)
      (fun _ w' => Ok (match Src3m.w_out w' with OWritten b => b | OUntouched => [1] end)) (parse_openssl_25519_privkey sha512) hkdf512
      (fun s => s) gen_kp public_as_pem fst site_derive site_keyderive w
    = match parse_openssl_25519_privkey sha512 [] with
      | Ok _ => Src3m.keyderive unit bytes KP tt (clap_many paths) (fun _ _ => Ok []) (parse_openssl_25519_privkey sha512) hkdf512
                  (fun s => s) gen_kp public_as_pem fst site_derive site_keyderive w
      | Err _ => (files_world w [] [], Crash SITE_MAIN_867)
      | Crash c => (files_world w [] [], Crash c)
      end.
  Proof.
    unfold Src3m.keyderive. cbn [Src3m.sys_create Src3m.opath_with_extension Src3m.arg_output Src3m.read_to_end app Src3m.w_set Src3m.w_out].
    destruct w as [o pb so]. cbn [Src3m.w_set Src3m.w_out Src3m.w_pub Src3m.w_stdout].
    destruct (parse_openssl_25519_privkey sha512 []); reflexivity.
  Qed.
End KeyCmds.


(* ---------- carried: the C19 theorems with the TRANSLATED commands as subject (concrete primitives) ---------- *)
Definition keygen_c := keygen_t sha512 rng_fill_c x25519_base_c.
Definition keyderive_c := keyderive_t sha512 hkdf_sha512 rng_fill_c x25519_base_c.

(* keygen --seed, translated: exit 0, the files are those of the documented private key *)
Theorem C19_keygen_is_documented_src os seed w :
  keygen_c os (Some seed) w =
    (let f := files_of_private x25519_base_c (keygen_private_c seed) in files_world w (fst f) (snd f), Ok tt) /\
  clamp (keygen_private_c seed) = keygen_doc_c seed.
Proof.
  split; [|reflexivity]. unfold keygen_c. rewrite (keygen_src sha512 hkdf_sha512).
  rewrite (keygen_files_eq sha512 rng_fill_c x25519_base_c length_sha512 seed). unfold keygen_private_c.
  destruct (files_of_private x25519_base_c (rng_fill_c (takeN 32 (sha512 seed)) 32)). reflexivity.
Qed.

(* keyderive, translated, composes at the level of the files: `keyderive IN out -p p1.. -p p2..` leaves what
   `keyderive IN tmp -p p1..` then `keyderive tmp out -p p2..` leaves (same files, same panic) *)
Theorem C19_derive_compose_src input p1 p2 w : p1 <> [] -> p2 <> [] ->
  keyderive_c input (p1 ++ p2) w =
  match keyderive_c input p1 w with
  | (w1, Ok _) => keyderive_c (match Src3m.w_out w1 with OWritten b => b | OUntouched => [] end) p2 w
  | (w1, r) => (files_world w [] [], r)
  end.
Proof.
  intros H1 H2. unfold keyderive_c. rewrite !keyderive_src.
  rewrite (keyderive_files_compose sha512 hkdf_sha512 rng_fill_c x25519_base_c input p1 p2 H1 H2).
  change (keyderive_files_c input p1) with (keyderive_files sha512 hkdf_sha512 rng_fill_c x25519_base_c input p1).
  destruct (keyderive_files sha512 hkdf_sha512 rng_fill_c x25519_base_c input p1) as [[priv pub]|e|c]; cbn [bind fst].
  - unfold files_world at 1. cbn [Src3m.w_out]. rewrite keyderive_src. reflexivity.
  - reflexivity.
  - reflexivity.
Qed.
