(* FormatScan.v — C06: the block scanner of the FORMAT.md decoder (Format.scan) on the
   serialisation of ANY list of typed blocks:
   1. scan over the bytes = [bscan], the same state machine over the block list;
   2. for every block list that follows the file protocol (FileStart of a fresh id; FileContent /
      EndOfFile only for started, not yet ended ids — any interleaving), bscan ends in the state
      [expect bl]: one entry per FileStart, in order, with the concatenated content, the hash of
      the EndOfFile block, the start offsets of the maximal runs and the EndOfFile offset;
   3. the protocol follows from the per-id projections having the shape Start Content* [Eof].
   No axioms. *)
From MLA Require Import Limit.
From MLA Require Import Base Stream Blocks RoundTripBlocks RoundTripWriter Format FormatProofs.
From Coq Require Import ZifyBool ZifyNat ZifyN.
Open Scope N_scope.

Notation fser_block := (Blocks.ser_block BT_START BT_CONTENT BT_END BT_EOF).
Notation fser_blocks := (RoundTripBlocks.ser_blocks BT_START BT_CONTENT BT_END BT_EOF).
Notation frun_offs := (RoundTripBlocks.run_offs BT_START BT_CONTENT BT_END BT_EOF).
Notation bhas_id := RoundTripBlocks.has_id.

(* ---------- the scanner over blocks ---------- *)
Definition cont_upd (pos : N) (last : option N) (id : N) (data : bytes) (f : fstate) : res fstate :=
  match f_hash f with
  | Some _ => Err EState
  | None => let f1 := mark pos last id f in
            Ok (mkF (f_id f1) (f_name f1) (f_content f1 ++ data) None (f_runs f1) (f_eof f1))
  end.
Definition eof_upd (pos : N) (last : option N) (id : N) (h : bytes) (f : fstate) : res fstate :=
  match f_hash f with
  | Some _ => Err EState
  | None => let f1 := mark pos last id f in
            Ok (mkF (f_id f1) (f_name f1) (f_content f1) (Some h) (f_runs f1) pos)
  end.

Fixpoint bscan (pos : N) (last : option N) (fs : list fstate) (bl : list block) : res (list fstate) :=
  match bl with
  | [] => Ok fs
  | BStart id name :: r =>
    if Format.has_id fs id then Err EState
    else bscan (pos + 17 + len name) (Some id) (fs ++ [mkF id name [] None [pos] 0]) r
  | BContent id d :: r => do fs' <- upd fs id (cont_upd pos last id d); bscan (pos + 17 + len d) (Some id) fs' r
  | BEof id h :: r => do fs' <- upd fs id (eof_upd pos last id h); bscan (pos + 41) (Some id) fs' r
  | BEnd :: _ => Err EDeser
  end.

(* what the byte-level scanner needs of a block to read it back *)
Definition fwf (x : block) : Prop :=
  match x with
  | BStart id name => id < 2 ^ 64 /\ len name < 2 ^ 64 /\ utf8_valid name = true
  | BContent id d => id < 2 ^ 64 /\ len d < 2 ^ 64
  | BEof id h => id < 2 ^ 64 /\ len h = 32
  | BEnd => False
  end.

Lemma flen_ser_block x :
  len (fser_block x) =
  match x with BStart _ n => 17 + len n | BContent _ d => 17 + len d | BEof _ h => 9 + len h | BEnd => 1 end.
Proof.
  destruct x; cbn [Blocks.ser_block]; rewrite ?len_app, ?RoundTripBlocks.len_le64, ?len_cons, ?len_nil; lia.
Qed.

Lemma scan_unfold fuel pos t r0 last fs :
  scan (S fuel) pos (t :: r0) last fs =
  if t =? BT_END then (match r0 with [] => Ok fs | _ => Err EDeser end)
  else
    match take_le 8 r0 with
    | None => Err EUnexpectedEof
    | Some (id, r1) =>
      if t =? BT_START then
        match take_le 8 r1 with
        | Some (l, r2) =>
          match take l r2 with
          | Some (name, r3) =>
            if negb (Blocks.utf8_valid name) then Err EUtf8 else
            if Format.has_id fs id then Err EState else
            scan fuel (pos + 17 + l) r3 (Some id) (fs ++ [mkF id name [] None [pos] 0])
          | None => Err EUnexpectedEof
          end
        | None => Err EUnexpectedEof
        end
      else if t =? BT_CONTENT then
        match take_le 8 r1 with
        | Some (l, r2) =>
          match take l r2 with
          | Some (data, r3) =>
            do fs' <- upd fs id (cont_upd pos last id data);
            scan fuel (pos + 17 + l) r3 (Some id) fs'
          | None => Err EUnexpectedEof
          end
        | None => Err EUnexpectedEof
        end
      else if t =? BT_EOF then
        match take 32 r1 with
        | Some (h, r2) =>
          do fs' <- upd fs id (eof_upd pos last id h);
          scan fuel (pos + 41) r2 (Some id) fs'
        | None => Err EUnexpectedEof
        end
      else Err EBlockType
    end.
Proof. reflexivity. Qed.

(* 1. bytes -> blocks *)
Lemma scan_ser_blocks bl : Forall fwf bl -> forall fuel pos last fs,
  len (fser_blocks bl) < N.of_nat fuel ->
  scan fuel pos (fser_blocks bl ++ [BT_END]) last fs = bscan pos last fs bl.
Proof.
  induction 1 as [|x bl Hx Hbl IH]; intros fuel pos last fs Hfuel.
  - destruct fuel as [|fuel]; [lia|]. cbn [app RoundTripBlocks.ser_blocks map concat].
    rewrite scan_unfold. reflexivity.
  - rewrite ser_blocks_cons, len_app in Hfuel. rewrite ser_blocks_cons, <- app_assoc.
    destruct fuel as [|fuel]; [lia|].
    pose proof (flen_ser_block x) as Hlx.
    destruct x as [id name|id d|id h|]; cbn [fwf] in Hx; cbn [Blocks.ser_block bscan] in *.
    + destruct Hx as (Hid & Hln & Hu). rewrite <- !app_assoc. cbn [app]. rewrite scan_unfold.
      change (BT_START =? BT_END) with false. change (BT_START =? BT_START) with true. cbv iota.
      change Blocks.le64 with Format.le64.
      rewrite take_le64_app by exact Hid. rewrite take_le64_app by exact Hln.
      rewrite take_app by reflexivity. rewrite Hu. cbn [negb].
      destruct (Format.has_id fs id); [reflexivity|]. apply IH. lia.
    + destruct Hx as (Hid & Hln). rewrite <- !app_assoc. cbn [app]. rewrite scan_unfold.
      change (BT_CONTENT =? BT_END) with false. change (BT_CONTENT =? BT_START) with false.
      change (BT_CONTENT =? BT_CONTENT) with true. cbv iota.
      change Blocks.le64 with Format.le64.
      rewrite take_le64_app by exact Hid. rewrite take_le64_app by exact Hln.
      rewrite take_app by reflexivity.
      destruct (upd fs id (cont_upd pos last id d)) as [fs'|e|c]; cbn [bind]; try reflexivity.
      apply IH. lia.
    + destruct Hx as (Hid & Hlh). rewrite <- !app_assoc. cbn [app]. rewrite scan_unfold.
      change (BT_EOF =? BT_END) with false. change (BT_EOF =? BT_START) with false.
      change (BT_EOF =? BT_CONTENT) with false. change (BT_EOF =? BT_EOF) with true. cbv iota.
      change Blocks.le64 with Format.le64.
      rewrite take_le64_app by exact Hid. rewrite take_app by exact Hlh.
      destruct (upd fs id (eof_upd pos last id h)) as [fs'|e|c]; cbn [bind]; try reflexivity.
      apply IH. lia.
    + destruct Hx.
Qed.

(* ---------- the state after a block list, as a function of the list ---------- *)

(* hash and offset of the first EndOfFile block of [id]; [pos] = offset of the head of [bl] *)
Fixpoint eof_info (id pos : N) (bl : list block) : option (bytes * N) :=
  match bl with
  | [] => None
  | x :: r =>
    match x with
    | BEof i h => if i =? id then Some (h, pos) else eof_info id (pos + len (fser_block x)) r
    | _ => eof_info id (pos + len (fser_block x)) r
    end
  end.

Definition fst_of (bl : list block) (ni : bytes * N) : fstate :=
  mkF (snd ni) (fst ni) (concat (datas (snd ni) bl)) (option_map fst (eof_info (snd ni) 0 bl))
      (frun_offs (snd ni) None 0 bl)
      (match eof_info (snd ni) 0 bl with Some (_, p) => p | None => 0 end).
Definition expect (bl : list block) : list fstate := map (fst_of bl) (names_of bl).

Lemma eof_info_app id l1 : forall pos l2,
  eof_info id pos (l1 ++ l2) =
  match eof_info id pos l1 with Some r => Some r | None => eof_info id (pos + len (fser_blocks l1)) l2 end.
Proof.
  induction l1 as [|x l1 IH]; intros pos l2; cbn [app eof_info].
  - rewrite ser_blocks_nil, len_nil, N.add_0_r. reflexivity.
  - rewrite ser_blocks_cons, len_app, N.add_assoc.
    destruct x as [i n|i d|i h|]; try apply IH. destruct (i =? id); [reflexivity | apply IH].
Qed.
Lemma eof_info_none id bl : forall pos, (forall h, ~ In (BEof id h) bl) -> eof_info id pos bl = None.
Proof.
  induction bl as [|x bl IH]; intros pos Hn; cbn [eof_info]; [reflexivity|].
  assert (Hn' : forall h, ~ In (BEof id h) bl) by (intros h Hin; apply (Hn h); right; exact Hin).
  destruct x as [i n|i d|i h|]; try (apply IH; exact Hn').
  destruct (N.eqb_spec i id) as [->|_]; [|apply IH; exact Hn'].
  exfalso. apply (Hn h). left. reflexivity.
Qed.

(* ---------- the file protocol ---------- *)
Definition okstep (pre : list block) (x : block) : Prop :=
  match x with
  | BStart id _ => proj id pre = []
  | BContent id _ => In id (map snd (names_of pre)) /\ eof_info id 0 pre = None
  | BEof id h => len h = 32 /\ In id (map snd (names_of pre)) /\ eof_info id 0 pre = None
  | BEnd => False
  end.
Fixpoint valid (pre post : list block) : Prop :=
  match post with [] => True | x :: r => okstep pre x /\ valid (pre ++ [x]) r end.

Lemma names_proj id pre : In id (map snd (names_of pre)) -> proj id pre <> [].
Proof.
  intros Hin. apply in_map_iff in Hin. destruct Hin as ([n i] & Hi & Hin). cbn [snd] in Hi. subst i.
  unfold names_of in Hin. apply in_flat_map in Hin. destruct Hin as (x & Hx & Hxx).
  destruct x as [i0 n0| | |]; cbn [In] in Hxx; try contradiction. destruct Hxx as [Hxx|[]].
  injection Hxx as -> ->. intros Hp.
  assert (Hin : In (BStart id n) (proj id pre)).
  { apply proj_in; [exact Hx|]. unfold bhas_id. cbn [block_id]. apply N.eqb_refl. }
  rewrite Hp in Hin. exact Hin.
Qed.

Lemma has_id_expect pre id : Format.has_id (expect pre) id = false <-> ~ In id (map snd (names_of pre)).
Proof.
  unfold expect. induction (names_of pre) as [|[n i] l IH]; cbn [map Format.has_id snd In]; [tauto|].
  cbn [fst_of f_id snd]. rewrite orb_false_iff, IH. destruct (N.eqb_spec i id); intuition congruence.
Qed.

(* updating the entry of [id] in a state list given as a map over (name, id) pairs *)
Lemma upd_map (names : list (bytes * N)) (F F' : bytes * N -> fstate) id g :
  (forall ni, f_id (F ni) = snd ni) -> NoDup (map snd names) -> In id (map snd names) ->
  (forall ni, In ni names -> snd ni = id -> g (F ni) = Ok (F' ni)) ->
  (forall ni, In ni names -> snd ni <> id -> F' ni = F ni) ->
  upd (map F names) id g = Ok (map F' names).
Proof.
  intros Hid. induction names as [|ni names IH]; cbn [map In upd]; [tauto|].
  intros Hnd Hin Hself Hother. inversion Hnd as [|? ? Hnin Hnd']; subst.
  rewrite Hid. destruct (N.eqb_spec (snd ni) id) as [E|E].
  - rewrite (Hself ni (or_introl eq_refl) E). cbn [bind]. do 2 f_equal.
    apply map_ext_in. intros a Ha. symmetry. apply Hother; [right; exact Ha|].
    intros Ea. apply Hnin. rewrite E, <- Ea. apply in_map. exact Ha.
  - destruct Hin as [Hin|Hin]; [congruence|].
    rewrite IH; auto. cbn [bind]. rewrite (Hother ni (or_introl eq_refl) E). reflexivity.
Qed.

Lemma datas_snoc id bl x :
  datas id (bl ++ [x]) = datas id bl ++ (if bhas_id id x then dat x else []).
Proof.
  rewrite datas_app. f_equal. unfold datas. cbn [proj filter]. destruct (bhas_id id x); cbn [flat_map]; rewrite ?app_nil_r; reflexivity.
Qed.
Lemma run_offs_snoc id bl x :
  frun_offs id None 0 (bl ++ [x]) =
  frun_offs id None 0 bl ++
  (if bhas_id id x && negb (is_id (last_id None bl) id) then [len (fser_blocks bl)] else []).
Proof. rewrite run_offs_app. cbn [RoundTripBlocks.run_offs]. rewrite N.add_0_l, app_nil_r. reflexivity. Qed.

(* a block of another file does not change the entry *)
Lemma fst_of_frame pre x ni : bhas_id (snd ni) x = false -> fst_of (pre ++ [x]) ni = fst_of pre ni.
Proof.
  intros Hx. unfold fst_of. rewrite datas_snoc, run_offs_snoc, eof_info_app, Hx. cbn [andb]. rewrite !app_nil_r.
  assert (He : eof_info (snd ni) (0 + len (fser_blocks pre)) [x] = None).
  { cbn [eof_info]. destruct x as [i n|i d|i h|]; try reflexivity.
    unfold bhas_id in Hx. cbn [block_id] in Hx. rewrite Hx. reflexivity. }
  rewrite He. destruct (eof_info (snd ni) 0 pre) as [[h p]|]; reflexivity.
Qed.

Lemma mark_expect pre id f :
  mark (len (fser_blocks pre)) (last_id None pre) id f =
  mkF (f_id f) (f_name f) (f_content f) (f_hash f)
      (f_runs f ++ (if negb (is_id (last_id None pre) id) then [len (fser_blocks pre)] else [])) (f_eof f).
Proof.
  unfold mark, is_id. destruct (last_id None pre) as [l|]; [destruct (l =? id)|]; cbn [negb];
    rewrite ?app_nil_r; destruct f; reflexivity.
Qed.

Lemma ser_blocks_snoc' l x : fser_blocks (l ++ [x]) = fser_blocks l ++ fser_block x.
Proof. rewrite ser_blocks_app, ser_blocks_cons, ser_blocks_nil, app_nil_r. reflexivity. Qed.

(* 2. every protocol-following block list is scanned to [expect] *)
Theorem bscan_valid post : forall pre, NoDup (map snd (names_of pre)) -> valid pre post ->
  bscan (len (fser_blocks pre)) (last_id None pre) (expect pre) post = Ok (expect (pre ++ post)).
Proof.
  induction post as [|x post IH]; intros pre Hnd Hv; cbn [valid bscan] in *.
  - rewrite app_nil_r. reflexivity.
  - destruct Hv as [Hok Hv].
    assert (Hpp : pre ++ x :: post = (pre ++ [x]) ++ post) by (rewrite <- app_assoc; reflexivity).
    assert (Hlast : last_id None (pre ++ [x]) = block_id x) by (rewrite last_id_app; reflexivity).
    pose proof (flen_ser_block x) as Hlx.
    destruct x as [id name|id d|id h|]; cbn [okstep] in Hok.
    + (* FileStart *)
      assert (Hfresh : ~ In id (map snd (names_of pre))) by (intros Hin; exact (names_proj id pre Hin Hok)).
      rewrite (proj2 (has_id_expect pre id) Hfresh).
      assert (Hnd1 : NoDup (map snd (names_of (pre ++ [BStart id name])))).
      { rewrite names_of_app, map_app. cbn [names_of flat_map app map snd]. apply NoDup_snoc; assumption. }
      assert (Hexp : expect (pre ++ [BStart id name]) = expect pre ++ [mkF id name [] None [len (fser_blocks pre)] 0]).
      { unfold expect. rewrite names_of_app, map_app. cbn [names_of flat_map app map]. f_equal.
        - apply map_ext_in. intros [n i] Hin. apply fst_of_frame. cbn [snd].
          unfold bhas_id. cbn [block_id]. apply N.eqb_neq. intros ->. apply Hfresh.
          apply in_map_iff. exists (n, i). auto.
        - unfold fst_of. cbn [fst snd]. rewrite datas_snoc, run_offs_snoc, eof_info_app.
          rewrite (datas_foreign id pre Hok), (run_offs_foreign _ _ _ _ id None 0 pre Hok).
          rewrite (last_id_foreign id None pre Hok eq_refl).
          rewrite (eof_info_none id pre 0) by (intros h Hin; apply (proj_in id) in Hin;
            [rewrite Hok in Hin; exact Hin | unfold bhas_id; cbn [block_id]; apply N.eqb_refl]).
          unfold bhas_id. cbn [block_id dat eof_info]. rewrite N.eqb_refl. reflexivity. }
      rewrite Hpp, <- (IH (pre ++ [BStart id name]) Hnd1 Hv), Hlast, Hexp, ser_blocks_snoc', len_app, Hlx.
      cbn [block_id]. f_equal. lia.
    + (* FileContent *)
      destruct Hok as [Hin Hno].
      assert (Hnd1 : NoDup (map snd (names_of (pre ++ [BContent id d])))).
      { rewrite names_of_app. cbn [names_of flat_map app]. rewrite app_nil_r. exact Hnd. }
      assert (Hupd : upd (expect pre) id (cont_upd (len (fser_blocks pre)) (last_id None pre) id d)
                     = Ok (expect (pre ++ [BContent id d]))).
      { unfold expect at 2. rewrite names_of_app. cbn [names_of flat_map app]. rewrite app_nil_r.
        apply upd_map; try assumption; [reflexivity| |].
        - intros [n i] _ Hi. cbn [snd] in Hi. subst i. unfold cont_upd, fst_of at 1. cbn [f_hash fst snd].
          rewrite Hno. cbn [option_map]. rewrite mark_expect. cbn [f_id f_name f_content f_runs f_eof].
          unfold fst_of. cbn [fst snd]. rewrite datas_snoc, run_offs_snoc, eof_info_app, Hno.
          unfold bhas_id. cbn [block_id dat eof_info andb]. rewrite N.eqb_refl.
          rewrite concat_app. cbn [concat]. rewrite app_nil_r. reflexivity.
        - intros [n i] _ Hi. cbn [snd] in Hi. apply fst_of_frame. cbn [snd].
          unfold bhas_id. cbn [block_id]. apply N.eqb_neq. congruence. }
      rewrite Hupd. cbn [bind].
      rewrite Hpp, <- (IH (pre ++ [BContent id d]) Hnd1 Hv), Hlast, ser_blocks_snoc', len_app, Hlx.
      cbn [block_id]. f_equal. lia.
    + (* EndOfFile *)
      destruct Hok as (Hlh & Hin & Hno).
      assert (Hnd1 : NoDup (map snd (names_of (pre ++ [BEof id h])))).
      { rewrite names_of_app. cbn [names_of flat_map app]. rewrite app_nil_r. exact Hnd. }
      assert (Hupd : upd (expect pre) id (eof_upd (len (fser_blocks pre)) (last_id None pre) id h)
                     = Ok (expect (pre ++ [BEof id h]))).
      { unfold expect at 2. rewrite names_of_app. cbn [names_of flat_map app]. rewrite app_nil_r.
        apply upd_map; try assumption; [reflexivity| |].
        - intros [n i] _ Hi. cbn [snd] in Hi. subst i. unfold eof_upd, fst_of at 1. cbn [f_hash fst snd].
          rewrite Hno. cbn [option_map]. rewrite mark_expect. cbn [f_id f_name f_content f_runs f_eof].
          unfold fst_of. cbn [fst snd]. rewrite datas_snoc, run_offs_snoc, eof_info_app, Hno.
          unfold bhas_id. cbn [block_id dat eof_info andb]. rewrite N.eqb_refl.
          cbn [option_map fst]. rewrite app_nil_r, N.add_0_l. reflexivity.
        - intros [n i] _ Hi. cbn [snd] in Hi. apply fst_of_frame. cbn [snd].
          unfold bhas_id. cbn [block_id]. apply N.eqb_neq. congruence. }
      rewrite Hupd. cbn [bind].
      rewrite Hpp, <- (IH (pre ++ [BEof id h]) Hnd1 Hv), Hlast, ser_blocks_snoc', len_app, Hlx.
      cbn [block_id]. f_equal. lia.
    + destruct Hok.
Qed.

(* ---------- 3. the protocol from the per-id projections ---------- *)
Fixpoint body_ok (l : list block) : Prop :=
  match l with
  | [] => True
  | BContent _ _ :: r => body_ok r
  | BEof _ h :: r => len h = 32 /\ r = []
  | _ => False
  end.
(* FileStart FileContent* [EndOfFile] — or nothing *)
Definition file_ok (l : list block) : Prop :=
  match l with [] => True | BStart _ _ :: r => body_ok r | _ => False end.

Lemma body_ok_prefix l1 l2 : body_ok (l1 ++ l2) -> body_ok l1.
Proof.
  induction l1 as [|x l1 IH]; cbn [app body_ok]; [auto|]. destruct x; auto.
  intros [Hh E]. split; [exact Hh|]. apply app_eq_nil in E. tauto.
Qed.
Lemma file_ok_prefix l1 l2 : file_ok (l1 ++ l2) -> file_ok l1.
Proof. destruct l1 as [|x l1]; cbn [app file_ok]; [auto|]. destruct x; auto. apply body_ok_prefix. Qed.
Lemma body_ok_snoc_start l i n : ~ body_ok (l ++ [BStart i n]).
Proof.
  induction l as [|x l IH]; cbn [app body_ok]; [auto|]. destruct x; auto.
  intros [_ E]. destruct l; discriminate.
Qed.
Lemma body_ok_snoc_noeof l y i h : body_ok (l ++ [y]) -> ~ In (BEof i h) l.
Proof.
  induction l as [|x l IH]; cbn [app body_ok In]; [auto|]. destruct x; try tauto.
  - intros Hb [E|Hin]; [discriminate | exact (IH Hb Hin)].
  - intros [_ E]. destruct l; discriminate.
Qed.
Lemma body_ok_snoc_eof l i h : body_ok (l ++ [BEof i h]) -> len h = 32.
Proof.
  induction l as [|x l IH]; cbn [app body_ok]; [tauto|]. destruct x; try tauto.
  intros [_ E]. destruct l; discriminate.
Qed.
Lemma body_ok_final id ds h : len h = 32 -> body_ok (map (BContent id) ds ++ [BEof id h]).
Proof. intros Hh. induction ds as [|d ds IH]; cbn [map app body_ok]; auto. Qed.

Lemma proj_head id bl x r : proj id bl = x :: r -> bhas_id id x = true /\ In x bl.
Proof.
  intros E. assert (Hin : In x (proj id bl)) by (rewrite E; left; reflexivity).
  apply filter_In in Hin. tauto.
Qed.
Lemma names_of_in id n bl : In (BStart id n) bl -> In id (map snd (names_of bl)).
Proof.
  intros Hin. apply in_map_iff. exists (n, id). split; [reflexivity|].
  unfold names_of. apply in_flat_map. exists (BStart id n). split; [exact Hin | left; reflexivity].
Qed.

Lemma no_eof_before id pre y : file_ok (proj id pre ++ [y]) -> forall h, ~ In (BEof id h) pre.
Proof.
  intros Hf h Hin.
  assert (Hp : In (BEof id h) (proj id pre)).
  { apply proj_in; [exact Hin|]. unfold bhas_id. cbn [block_id]. apply N.eqb_refl. }
  destruct (proj id pre) as [|z l]; [exact Hp|]. cbn [app file_ok] in Hf.
  destruct z; try contradiction. destruct Hp as [E|Hp]; [discriminate|].
  exact (body_ok_snoc_noeof l y id h Hf Hp).
Qed.

Lemma started_before id pre y : file_ok (proj id pre ++ [y]) -> (forall i n, y <> BStart i n) ->
  In id (map snd (names_of pre)) /\ exists l, body_ok (l ++ [y]).
Proof.
  intros Hf Hy. destruct (proj id pre) as [|z l] eqn:E.
  - cbn [app file_ok] in Hf. destruct y; try contradiction. exfalso. eapply Hy. reflexivity.
  - destruct (proj_head id pre z l E) as [Hz Hin]. cbn [app file_ok] in Hf.
    destruct z as [i n| | |]; try contradiction.
    unfold bhas_id in Hz. cbn [block_id] in Hz. apply N.eqb_eq in Hz. subst i.
    split; [exact (names_of_in id n pre Hin) | exists l; exact Hf].
Qed.

Theorem shapes_valid post : forall pre,
  (forall id, file_ok (proj id (pre ++ post))) -> ~ In BEnd post -> valid pre post.
Proof.
  induction post as [|x post IH]; intros pre Hs Hne; cbn [valid]; [exact I|].
  assert (Hs1 : forall id, file_ok (proj id ((pre ++ [x]) ++ post))).
  { intros id. rewrite <- app_assoc. exact (Hs id). }
  split; [|apply IH; [exact Hs1 | intros Hin; apply Hne; right; exact Hin]].
  assert (Hx : forall id, bhas_id id x = true -> file_ok (proj id pre ++ [x])).
  { intros id Hid. specialize (Hs1 id). rewrite !proj_app in Hs1. apply file_ok_prefix in Hs1.
    cbn [proj filter] in Hs1. rewrite Hid in Hs1. exact Hs1. }
  destruct x as [id name|id d|id h|]; cbn [okstep].
  - assert (Hf := Hx id ltac:(unfold bhas_id; cbn [block_id]; apply N.eqb_refl)).
    destruct (proj id pre) as [|z l]; [reflexivity|]. cbn [app file_ok] in Hf.
    destruct z; try contradiction. exfalso. exact (body_ok_snoc_start _ _ _ Hf).
  - assert (Hf := Hx id ltac:(unfold bhas_id; cbn [block_id]; apply N.eqb_refl)).
    destruct (started_before id pre _ Hf ltac:(discriminate)) as [Hin _].
    split; [exact Hin|]. apply eof_info_none. exact (no_eof_before id pre _ Hf).
  - assert (Hf := Hx id ltac:(unfold bhas_id; cbn [block_id]; apply N.eqb_refl)).
    destruct (started_before id pre _ Hf ltac:(discriminate)) as [Hin [l Hl]].
    split; [exact (body_ok_snoc_eof l id h Hl)|].
    split; [exact Hin|]. apply eof_info_none. exact (no_eof_before id pre _ Hf).
  - apply Hne. left. reflexivity.
Qed.

(* the EndOfFile block of a file with a well-shaped projection is the one [eof_info] finds *)
Lemma eof_info_final id pre h post : file_ok (proj id (pre ++ BEof id h :: post)) ->
  eof_info id 0 (pre ++ BEof id h :: post) = Some (h, len (fser_blocks pre)).
Proof.
  intros Hf. rewrite eof_info_app.
  assert (Hf1 : file_ok (proj id pre ++ [BEof id h])).
  { rewrite proj_app in Hf. cbn [proj filter] in Hf. unfold bhas_id at 1 in Hf. cbn [block_id] in Hf.
    rewrite N.eqb_refl in Hf. change (BEof id h :: filter (bhas_id id) post) with ([BEof id h] ++ filter (bhas_id id) post) in Hf.
    rewrite app_assoc in Hf. exact (file_ok_prefix _ _ Hf). }
  rewrite (eof_info_none id pre 0 (no_eof_before id pre _ Hf1)).
  cbn [eof_info]. rewrite N.eqb_refl, N.add_0_l. reflexivity.
Qed.

(* all together: the scanner of the decoder on the bytes of a well-shaped block list *)
Theorem scan_shapes bl : Forall fwf bl -> (forall id, file_ok (proj id bl)) ->
  scan (S (length (fser_blocks bl ++ [BT_END]))) 0 (fser_blocks bl ++ [BT_END]) None [] = Ok (expect bl).
Proof.
  intros Hwf Hs. rewrite scan_ser_blocks by (exact Hwf || (rewrite app_length; unfold len; cbn [length]; lia)).
  assert (Hne : ~ In BEnd bl).
  { intros Hin. rewrite Forall_forall in Hwf. exact (Hwf _ Hin). }
  exact (bscan_valid bl [] (NoDup_nil _) (shapes_valid bl [] Hs Hne)).
Qed.
