(* Reader.v — model of ArchiveReader, BlocksToFileReader (mla/src/lib.rs:1039-1296) and
   helpers::linear_extract, generic over the top layer stream.  With the D12 (checked footer
   position), D14 (loop instead of recursion: same results) and C06-ZLB (an empty FileContent
   block is stepped over instead of being reported as Ok(0)) repairs.  Definitions only. *)
From MLA Require Import Base Stream Blocks.
From MLA Require Export Limit.
Open Scope N_scope.

Section Reader.
  Context {LIM : Limit}.                  (* BINCODE_MAX_DESERIALIZE *)
  Variable FNMAX : N.
  Variables T_START T_CONTENT T_EOA T_EOF : N.
  Variable S : Stream.

  Notation parse_block := (parse_block FNMAX T_START T_CONTENT T_EOA T_EOF S).

  (* ArchiveFooter::deserialize_from.  bincode runs over `src.take(len)` under
     `.with_limit(len.min(BINCODE_MAX_DESERIALIZE))` (lib.rs:524-527): every read of the
     deserializer (each u64, each string after its length, bincode 1.3.3 de/mod.rs
     `read_bytes`) is charged against the limit BEFORE it is performed, so the map is delivered
     iff it parses from the region AND the bytes it consumes, len (ser_footer_map m), fit the
     limit; a SizeLimit error is a DeserializationError like any other bincode failure. *)
  Definition read_footer (s : st S) : st S * res footer :=
    match sk S s (FromEnd (-4)) with
    | (s1, Ok pos) =>
      match rexact S s1 4 with
      | (s2, Ok l4) =>
        let l := le_val l4 in
        if pos <? l then (s2, Err EDeser) else           (* D12 repair: pos - len checked *)
        match sk S s2 (FromStart (pos - l)) with
        | (s3, Ok _) =>
          match read_full S (Datatypes.S (N.to_nat l)) s3 l with
          | (s4, Ok b) =>
            match parse_footer_map b with
            | Some m =>
              if N.min l lim <? len (ser_footer_map m) then (s4, Err EDeser) else (s4, Ok m)
            | None => (s4, Err EDeser)
            end
          | (s4, Err e) => (s4, Err EDeser)
          | (s4, Crash c) => (s4, Crash c)
          end
        | (s3, Err e) => (s3, Err e) | (s3, Crash c) => (s3, Crash c)
        end
      | (s2, Err e) => (s2, Err e) | (s2, Crash c) => (s2, Crash c)
      end
    | (s1, Err e) => (s1, Err e) | (s1, Crash c) => (s1, Crash c)
    end.

  (* ArchiveReader: the top layer state and the footer *)
  Record rstate := mkR { r_src : st S; r_meta : footer }.

  (* the part of from_config above the layers: footer, then rewind *)
  Definition ropen (s : st S) : res rstate :=
    match read_footer s with
    | (s1, Ok m) =>
      match sk S s1 (FromStart 0) with
      | (s2, Ok _) => Ok (mkR s2 m)
      | (_, Err e) => Err e | (_, Crash c) => Crash c
      end
    | (_, Err e) => Err e | (_, Crash c) => Crash c
    end.

  Fixpoint dedup_names (m : footer) (seen : list bytes) : list bytes :=
    match m with
    | [] => []
    | (k, _) :: r =>
      if existsb (bytes_eqb k) seen then dedup_names r seen else k :: dedup_names r (k :: seen)
    end.
  Definition list_files (r : rstate) : list bytes := dedup_names (r_meta r) [].

  (* get_hash: Ok None = no such file *)
  Definition get_hash (r : rstate) (name : bytes) : rstate * res (option bytes) :=
    match flookup (r_meta r) name with
    | None => (r, Ok None)
    | Some fi =>
      match sk S (r_src r) (FromStart (fi_eof fi)) with
      | (s1, Ok _) =>
        match parse_block s1 with
        | (s2, Ok (PEof _ h)) => (mkR s2 (r_meta r), Ok (Some h))
        | (s2, Ok _) => (mkR s2 (r_meta r), Err EState)
        | (s2, Err e) => (mkR s2 (r_meta r), Err e)
        | (s2, Crash c) => (mkR s2 (r_meta r), Crash c)
        end
      | (s1, Err e) => (mkR s1 (r_meta r), Err e)
      | (s1, Crash c) => (mkR s1 (r_meta r), Crash c)
      end
    end.

  (* ---------- BlocksToFileReader ---------- *)
  Inductive bmode := BReady | BInFile (rem : N) | BFinish.
  Record bstate := mkB {
    b_src : st S; b_mode : bmode; b_id : N; b_cur : nat (* current_offset *); b_offs : list N;
  }.

  (* get_file: Ok None = no such file; Ok (Some (reader, size)) *)
  Definition get_file (r : rstate) (name : bytes) : rstate * res (option (bstate * N)) :=
    match flookup (r_meta r) name with
    | None => (r, Ok None)
    | Some fi =>
      match fi_offsets fi with
      | [] => (r, Err EState)
      | o0 :: _ =>
        match sk S (r_src r) (FromStart o0) with
        | (s1, Ok _) =>
          match parse_block s1 with
          | (s2, Ok (PStart id _)) =>
            (mkR s2 (r_meta r), Ok (Some (mkB s2 BReady id 0 (fi_offsets fi), fi_size fi)))
          | (s2, Ok _) => (mkR s2 (r_meta r), Err EState)
          | (s2, Err e) => (mkR s2 (r_meta r), Err e)
          | (s2, Crash c) => (mkR s2 (r_meta r), Crash c)
          end
        | (s1, Err e) => (mkR s1 (r_meta r), Err e)
        | (s1, Crash c) => (mkR s1 (r_meta r), Crash c)
        end
      end
    end.

  (* move_to_next_block *)
  Definition bmove (b : bstate) : bstate * res unit :=
    let c := Datatypes.S (b_cur b) in
    match nth_error (b_offs b) c with
    | None => (mkB (b_src b) (b_mode b) (b_id b) c (b_offs b), Err EState)
    | Some o =>
      match sk S (b_src b) (FromStart o) with
      | (s1, Ok _) => (mkB s1 (b_mode b) (b_id b) c (b_offs b), Ok tt)
      | (s1, Err e) => (mkB s1 (b_mode b) (b_id b) c (b_offs b), Err e)
      | (s1, Crash x) => (mkB s1 (b_mode b) (b_id b) c (b_offs b), Crash x)
      end
    end.

  Definition bset (b : bstate) (s : st S) (m : bmode) : bstate := mkB s m (b_id b) (b_cur b) (b_offs b).

  (* the data part of a read: take(rem).read(into) and the state update *)
  Definition bread_data (b : bstate) (s : st S) (rem n : N) : bstate * res bytes :=
    match rd S s (N.min rem n) with
    | (s1, Ok d) =>
      if rem <? len d then (bset b s1 BReady, Crash 1123) else   (* length_usize - count *)
      let rem' := rem - len d in
      (bset b s1 (if 0 <? rem' then BInFile rem' else BReady), Ok d)
    | (s1, Err e) => (bset b s1 (b_mode b), Err e)
    | (s1, Crash c) => (bset b s1 (b_mode b), Crash c)
    end.

  (* ArchiveFileBlock::from, repeated over the empty FileContent blocks of the file being
     read: `read` does `continue` on them in state Ready (C06-ZLB repair: an empty block is
     not the end of the file), so the next thing it looks at is the next block of the stream.
     zf bounds the number of consecutive empty blocks stepped over (each consumes 17 bytes of
     the stream, none of the offsets). *)
  Fixpoint next_block (zf : nat) (id : N) (s : st S) : st S * res pblock :=
    match parse_block s with
    | (s1, Ok (PContent i l)) =>
      if (i =? id) && (l =? 0) then
        match zf with
        | O => (s1, Err EFuel)
        | Datatypes.S zf' => next_block zf' id s1
        end
      else (s1, Ok (PContent i l))
    | r => r
    end.

  (* Read::read; the skipping of foreign blocks is a loop (fuel: one step per offset); zf: see
     next_block (the same bound for every run) *)
  Fixpoint bread_ready (fuel zf : nat) (b : bstate) (n : N) : bstate * res bytes :=
    match next_block zf (b_id b) (b_src b) with
    | (s1, Ok pb) =>
      let b1 := bset b s1 BReady in
      let skip :=
        match fuel with
        | O => (b1, Err EFuel)
        | Datatypes.S fuel' =>
          match bmove b1 with
          | (b2, Ok _) => bread_ready fuel' zf b2 n
          | (b2, Err e) => (b2, Err e)
          | (b2, Crash c) => (b2, Crash c)
          end
        end in
      match pb with
      | PContent id l => if id =? b_id b then bread_data b1 s1 l n else skip
      | PEof id _ => if id =? b_id b then (bset b s1 BFinish, Ok []) else skip
      | PStart id _ => if id =? b_id b then (b1, Err EState) else skip
      | PEnd => (b1, Err EState)
      end
    | (s1, Err e) => (bset b s1 BReady, Err e)
    | (s1, Crash c) => (bset b s1 BReady, Crash c)
    end.

  Definition bread (zf : nat) (b : bstate) (n : N) : bstate * res bytes :=
    match b_mode b with
    | BFinish => (b, Ok [])
    | BInFile rem => bread_data b (b_src b) rem n
    | BReady => bread_ready (Datatypes.S (length (b_offs b))) zf b n
    end.

  (* ---------- helpers::linear_extract ---------- *)

  (* io::copy(take(l), w): read until l bytes or end of stream; a short copy is NOT an error *)
  Fixpoint copy_take (fuel : nat) (s : st S) (l : N) (acc : bytes) : st S * res bytes :=
    if l =? 0 then (s, Ok acc) else
    match fuel with
    | O => (s, Err EFuel)
    | Datatypes.S fuel' =>
      match rd S s (N.min l 8192) with
      | (s1, Ok d) =>
        if len d =? 0 then (s1, Ok acc)
        else if l <? len d then (s1, Crash 901)
        else copy_take fuel' s1 (l - len d) (acc ++ d)
      | (s1, Err e) => (s1, Err e)
      | (s1, Crash c) => (s1, Crash c)
      end
    end.

  Definition name_in (names : list bytes) (n : bytes) : bool := existsb (bytes_eqb n) names.
  Fixpoint id_lookup (m : list (N * bytes)) (id : N) : option bytes :=
    match m with [] => None | (k, v) :: r => if k =? id then Some v else id_lookup r id end.
  Fixpoint id_remove (m : list (N * bytes)) (id : N) : list (N * bytes) :=
    match m with [] => [] | (k, v) :: r => if k =? id then id_remove r id else (k, v) :: id_remove r id end.
  (* HashMap::insert replaces *)
  Definition id_insert (m : list (N * bytes)) (id : N) (v : bytes) : list (N * bytes) := (id, v) :: id_remove m id.

  (* returns the pieces delivered, in order: (name, data) *)
  Fixpoint lx_loop (fuel : nat) (s : st S) (export : list bytes) (ids : list (N * bytes))
           (acc : list (bytes * bytes)) : res (list (bytes * bytes)) :=
    match fuel with
    | O => Err EFuel
    | Datatypes.S fuel' =>
      match parse_block s with
      | (s1, Ok (PStart id name)) =>
        lx_loop fuel' s1 export (if name_in export name then id_insert ids id name else ids) acc
      | (s1, Ok (PEof id _)) => lx_loop fuel' s1 export (id_remove ids id) acc
      | (s1, Ok (PContent id l)) =>
        match copy_take fuel s1 l [] with
        | (s2, Ok d) =>
          match id_lookup ids id with
          | Some name => lx_loop fuel' s2 export ids (acc ++ [(name, d)])
          | None => lx_loop fuel' s2 export ids acc
          end
        | (_, Err e) => Err e
        | (_, Crash c) => Crash c
        end
      | (s1, Ok PEnd) => Ok acc
      | (_, Err e) => Err e
      | (_, Crash c) => Crash c
      end
    end.

  Definition linear_extract (fuel : nat) (r : rstate) (export : list bytes) : res (list (bytes * bytes)) :=
    match sk S (r_src r) (FromStart 0) with
    | (s1, Ok _) => lx_loop fuel s1 export [] []
    | (_, Err e) => Err e
    | (_, Crash c) => Crash c
    end.
End Reader.

Arguments mkR {S} _ _.
Arguments r_src {S} _.
Arguments r_meta {S} _.
Arguments mkB {S} _ _ _ _ _.
Arguments b_src {S} _.
Arguments b_mode {S} _.
Arguments b_id {S} _.
Arguments b_cur {S} _.
Arguments b_offs {S} _.
