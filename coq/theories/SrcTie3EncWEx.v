(* SrcTie3EncWEx.v — non-vacuity of the encW tie: the TRANSLATED encryption writer (gen/Src3w.v over the translated
   AesGcm256 of gen/Src3g.v) run by vm_compute on the concrete AES-256 / GHASH of theories/Concrete, scaled constants
   (CHUNK_SIZE 64, CIPHER_BUF_SIZE 24), and compared with the one-shot SP 800-38D encryption of Concrete/GcmSpec.v
   (an independent definition: it shares nothing with Gcm.v / Src3g.v but the AES and GF(2^128) primitives). *)
From MLA Require Import Base EncLayer EncWriter Gcm GcmProofs SrcTie3Gcm SrcTie3EncW SrcTie3EncWCarry SrcTie3CryptoEx.
From MLA.Concrete Require Import Hex Aes Ghash GcmSpec.
From MLAGen Require Import Src3g Src3w.
Open Scope N_scope.

Definition ex_prefix : bytes := [1; 2; 3; 4; 5; 6; 7; 8].
Definition ex_base : bytes := [77; 76; 65].                       (* what the inner writer already holds *)
Definition ex_data : bytes := map (fun i => N.of_nat i mod 256) (seq 3 130).
Definition ex_run (pieces : list bytes) : bytes :=
  match src_archive E_key tc_key ex_prefix 2 3 gf_mul CHUNK_SIZE_verif CIPHER_BUF_SIZE_verif (fun _ => false) 1 ex_base 300 pieces with
  | Ok x => elw_inner bytes x
  | _ => []
  end.
(* chunk i of the documented format, by the one-shot specification *)
Definition ex_chunk (i : N) (pt : bytes) : bytes :=
  let '(ct, tag) := GcmSpec.gcm_encrypt tc_key (ex_prefix ++ be_bytes 4 i) [] pt in ct ++ tag.

(* 130 bytes in pieces of 5, 0, 100 and 25 bytes (the second piece crosses a chunk boundary, the writer cuts its
   input into CIPHER_BUF_SIZE = 24 byte calls of the cipher): two full chunks and a 2-byte chunk, each followed by
   its tag, under the nonces prefix || 0, 1, 2 *)
Example src_writer_three_chunks :
  ex_run [takeN 5 ex_data; []; sliceN 5 100 ex_data; dropN 105 ex_data]
  = ex_base ++ ex_chunk 0 (takeN 64 ex_data) ++ ex_chunk 1 (sliceN 64 64 ex_data) ++ ex_chunk 2 (dropN 128 ex_data).
Proof. vm_compute. reflexivity. Qed.

(* no write at all: one empty chunk = the bare tag; exactly one chunk: no extra empty chunk *)
Example src_writer_edges :
  ex_run [] = ex_base ++ ex_chunk 0 [] /\ len (ex_run []) = 3 + 16 /\
  ex_run [takeN 64 ex_data] = ex_base ++ ex_chunk 0 (takeN 64 ex_data) /\
  ex_run [takeN 64 ex_data; [9]] = ex_base ++ ex_chunk 0 (takeN 64 ex_data) ++ ex_chunk 1 [9].
Proof. vm_compute. repeat split; reflexivity. Qed.

(* the premises of the carried theorems hold of this instance *)
Example src_writer_hyps :
  len tc_key = 32 /\ len ex_prefix = 8 /\ wf_bytes ex_prefix /\ 0 < CHUNK_SIZE_verif /\ 0 < CIPHER_BUF_SIZE_verif /\
  len ex_data / CHUNK_SIZE_verif + 1 < 2 ^ 32.
Proof. repeat split; try reflexivity. repeat constructor. Qed.

(* the u32 chunk counter: at 2^32 - 1 with a full chunk, the next write panics on `current_ctr += 1` (the model's
   site 228) before anything is written — it does not wrap to a nonce already used *)
Example src_writer_ctr_overflow_crashes :
  match Src3g.AesGcm256_new E_key gf_mul 2 3 tc_key (ex_prefix ++ [255; 255; 255; 255]) [] with
  | Ok c =>
    let x := mkELW bytes ex_base c tc_key ex_prefix 64 (2 ^ 32 - 1) in
    elw_write CHUNK_SIZE_verif CIPHER_BUF_SIZE_verif E_key gf_mul bytes bw_write_all 1 2 3 228 x [1] = (x, Crash 228)
  | _ => False
  end.
Proof. vm_compute. reflexivity. Qed.

(* an offset beyond the chunk size (no call sequence produces it): WrongWriterState, nothing written *)
Example src_writer_bad_offset_refused :
  match Src3g.AesGcm256_new E_key gf_mul 2 3 tc_key (ex_prefix ++ [0; 0; 0; 0]) [] with
  | Ok c =>
    let x := mkELW bytes ex_base c tc_key ex_prefix 65 0 in
    elw_write CHUNK_SIZE_verif CIPHER_BUF_SIZE_verif E_key gf_mul bytes bw_write_all 1 2 3 228 x [1] = (x, Err EState)
  | _ => False
  end.
Proof. vm_compute. reflexivity. Qed.
