(* LinearRoundTripPure.v — C12, functional clause, pure part: what the linear walk lx_spec
   delivers to one name, on a block list in which the blocks of each id are
   FileStart, FileContent*, EndOfFile and names are pairwise distinct (what the writer
   invariant WInv gives).  Three phases for the file looked at: not started yet / open /
   closed; in every phase no block of ANOTHER file is delivered under its name. *)
From MLA Require Import Limit.
From MLA Require Import Base Stream Blocks Reader RoundTripBlocks RoundTripWriter LinearRoundTripDefs.
From Coq Require Import ZifyBool ZifyNat ZifyN.
Open Scope N_scope.

(* ---------- the id -> name map ---------- *)
Lemma id_lookup_remove_ne ids k i : k <> i -> id_lookup (id_remove ids k) i = id_lookup ids i.
Proof.
  intros Hne. induction ids as [|[k0 v0] ids IH]; cbn [id_remove id_lookup]; [reflexivity|].
  destruct (N.eqb_spec k0 k) as [->|E].
  - destruct (N.eqb_spec k i); [congruence | exact IH].
  - cbn [id_lookup]. destruct (k0 =? i); [reflexivity | exact IH].
Qed.
Lemma id_lookup_remove_eq ids k : id_lookup (id_remove ids k) k = None.
Proof.
  induction ids as [|[k0 v0] ids IH]; cbn [id_remove id_lookup]; [reflexivity|].
  destruct (N.eqb_spec k0 k) as [->|E]; [exact IH|].
  cbn [id_lookup]. destruct (N.eqb_spec k0 k); [congruence | exact IH].
Qed.
Lemma id_lookup_insert ids k v i :
  id_lookup (id_insert ids k v) i = if k =? i then Some v else id_lookup ids i.
Proof.
  unfold id_insert. cbn [id_lookup]. destruct (N.eqb_spec k i) as [|Hne]; [reflexivity|].
  apply id_lookup_remove_ne. exact Hne.
Qed.

(* ---------- delivered ---------- *)
Lemma pieces_for_app name a b : pieces_to name (a ++ b) = pieces_to name a ++ pieces_to name b.
Proof. unfold pieces_to. rewrite filter_app, map_app. reflexivity. Qed.
Lemma delivered_app name a b : delivered name (a ++ b) = delivered name a ++ delivered name b.
Proof. unfold delivered. rewrite pieces_for_app, concat_app. reflexivity. Qed.
Lemma delivered_snoc_eq name acc d : delivered name (acc ++ [(name, d)]) = delivered name acc ++ d.
Proof.
  rewrite delivered_app. f_equal. unfold delivered, pieces_to. cbn [filter fst].
  rewrite bytes_eqb_refl. cbn [map snd concat]. apply app_nil_r.
Qed.
Lemma delivered_snoc_ne name n acc d : n <> name -> delivered name (acc ++ [(n, d)]) = delivered name acc.
Proof.
  intros Hne. rewrite delivered_app. unfold delivered at 2, pieces_to. cbn [filter fst].
  destruct (bytes_eqb n name) eqn:E; [apply bytes_eqb_eq in E; congruence|].
  cbn [map concat]. apply app_nil_r.
Qed.
Lemma delivered_nil name : delivered name [] = [].
Proof. reflexivity. Qed.

Lemma has_id_start id i n : has_id id (BStart i n) = (i =? id).
Proof. reflexivity. Qed.
Lemma has_id_content id i d : has_id id (BContent i d) = (i =? id).
Proof. reflexivity. Qed.
Lemma has_id_eof id i h : has_id id (BEof i h) = (i =? id).
Proof. reflexivity. Qed.

Lemma not_start_in_tail id i n ds h : ~ In (BStart i n) (map (BContent id) ds ++ [BEof id h]).
Proof.
  intros Hin. apply in_app_or in Hin. destruct Hin as [Hin|[Hin|[]]]; [|discriminate].
  apply in_map_iff in Hin. destruct Hin as (d & Hd & _). discriminate.
Qed.

Section Pure.
  Context {LIM : Limit}.
  Variable export : list bytes.
  Variable name : bytes.
  Notation lx_spec := (lx_spec export).

  (* a stretch in which no block can deliver under [name]: the ids Q of its blocks are not
     mapped to [name], and no file of that name starts in it *)
  Lemma lx_quiet (Q : N -> Prop) : forall rest ids acc,
    (forall i, Q i -> id_lookup ids i <> Some name) ->
    (forall x i, In x rest -> block_id x = Some i -> Q i) ->
    (forall i n, In (BStart i n) rest -> n <> name) ->
    delivered name (lx_spec rest ids acc) = delivered name acc.
  Proof.
    induction rest as [|x rest IH]; intros ids acc Hids HQ Hst; cbn [LinearRoundTripDefs.lx_spec]; [reflexivity|].
    assert (HQ' : forall y i, In y rest -> block_id y = Some i -> Q i)
      by (intros y i Hy; apply HQ; right; exact Hy).
    assert (Hst' : forall i n, In (BStart i n) rest -> n <> name)
      by (intros i n Hy; apply (Hst i); right; exact Hy).
    destruct x as [i n|i d|i h|].
    - apply IH; [|exact HQ'|exact Hst'].
      destruct (name_in export n); [|exact Hids].
      intros j Hj. rewrite id_lookup_insert. destruct (i =? j); [|exact (Hids j Hj)].
      intros [= E]. exact (Hst i n (or_introl eq_refl) E).
    - rewrite IH; [|exact Hids|exact HQ'|exact Hst'].
      assert (Hi : Q i) by (apply (HQ (BContent i d)); [left|]; reflexivity).
      destruct (id_lookup ids i) as [n|] eqn:El; [|reflexivity].
      apply delivered_snoc_ne. intros ->. exact (Hids i Hi El).
    - apply IH; [|exact HQ'|exact Hst'].
      intros j Hj. destruct (N.eq_dec i j) as [<-|Hne].
      + rewrite id_lookup_remove_eq. discriminate.
      + rewrite id_lookup_remove_ne by exact Hne. exact (Hids j Hj).
    - reflexivity.
  Qed.

  Variable id : N.
  Let chosen := name_in export name.

  (* the file is open: its remaining blocks are FileContent* EndOfFile *)
  Lemma lx_open : forall rest ids acc ds h,
    ~ In BEnd rest ->
    (forall i, i <> id -> id_lookup ids i <> Some name) ->
    id_lookup ids id = (if chosen then Some name else None) ->
    (forall i n, In (BStart i n) rest -> n <> name) ->
    proj id rest = map (BContent id) ds ++ [BEof id h] ->
    delivered name (lx_spec rest ids acc) = delivered name acc ++ (if chosen then concat ds else []).
  Proof.
    induction rest as [|x rest IH]; intros ids acc ds h Hne Hids Hid Hst Hproj.
    { cbn [proj filter] in Hproj. destruct ds; discriminate. }
    assert (Hne' : ~ In BEnd rest) by (intros Hy; apply Hne; right; exact Hy).
    assert (Hst' : forall i n, In (BStart i n) rest -> n <> name)
      by (intros i n Hy; apply (Hst i); right; exact Hy).
    cbn [proj filter] in Hproj. fold (proj id rest) in Hproj.
    cbn [LinearRoundTripDefs.lx_spec].
    destruct x as [i n|i d|i hh|].
    - rewrite has_id_start in Hproj. destruct (N.eqb_spec i id) as [->|Hi].
      + exfalso. destruct ds; cbn [map app] in Hproj; discriminate.
      + apply (IH _ _ ds h Hne'); [| |exact Hst'|exact Hproj].
        * destruct (name_in export n); [|exact Hids].
          intros j Hj. rewrite id_lookup_insert. destruct (i =? j); [|exact (Hids j Hj)].
          intros [= E]. exact (Hst i n (or_introl eq_refl) E).
        * destruct (name_in export n); [|exact Hid].
          rewrite id_lookup_insert. destruct (N.eqb_spec i id); [congruence | exact Hid].
    - rewrite has_id_content in Hproj. destruct (N.eqb_spec i id) as [->|Hi].
      + destruct ds as [|d0 ds]; cbn [map app] in Hproj; [discriminate|].
        injection Hproj as -> Hproj.
        rewrite (IH _ _ ds h Hne' Hids Hid Hst' Hproj). rewrite Hid.
        destruct chosen; cbn [concat].
        * rewrite delivered_snoc_eq, <- app_assoc. reflexivity.
        * reflexivity.
      + rewrite (IH _ _ ds h Hne' Hids Hid Hst' Hproj). f_equal.
        destruct (id_lookup ids i) as [n|] eqn:El; [|reflexivity].
        apply delivered_snoc_ne. intros ->. exact (Hids i Hi El).
    - rewrite has_id_eof in Hproj. destruct (N.eqb_spec i id) as [->|Hi].
      + destruct ds as [|d0 ds]; cbn [map app] in Hproj; [|discriminate].
        injection Hproj as _ Hproj.
        rewrite (lx_quiet (fun j => j <> id)).
        * cbn [concat]. destruct chosen; rewrite app_nil_r; reflexivity.
        * intros j Hj. rewrite id_lookup_remove_ne by auto. exact (Hids j Hj).
        * intros y j Hy Hb ->. assert (Hin : In y (proj id rest)).
          { apply proj_in; [exact Hy|]. unfold has_id. rewrite Hb. apply N.eqb_refl. }
          rewrite Hproj in Hin. exact Hin.
        * exact Hst'.
      + apply (IH _ _ ds h Hne'); [| |exact Hst'|exact Hproj].
        * intros j Hj. destruct (N.eq_dec i j) as [<-|Hne2].
          -- rewrite id_lookup_remove_eq. discriminate.
          -- rewrite id_lookup_remove_ne by exact Hne2. exact (Hids j Hj).
        * rewrite id_lookup_remove_ne by exact Hi. exact Hid.
    - exfalso. apply Hne. left. reflexivity.
  Qed.

  (* the file has not been started yet *)
  Lemma lx_start : forall rest ids acc ds h,
    ~ In BEnd rest ->
    (forall i, i <> id -> id_lookup ids i <> Some name) ->
    id_lookup ids id = None ->
    (forall i n, In (BStart i n) rest -> i <> id -> n <> name) ->
    proj id rest = BStart id name :: map (BContent id) ds ++ [BEof id h] ->
    delivered name (lx_spec rest ids acc) = delivered name acc ++ (if chosen then concat ds else []).
  Proof.
    induction rest as [|x rest IH]; intros ids acc ds h Hne Hids Hid Hst Hproj.
    { cbn [proj filter] in Hproj. discriminate. }
    assert (Hne' : ~ In BEnd rest) by (intros Hy; apply Hne; right; exact Hy).
    assert (Hst' : forall i n, In (BStart i n) rest -> i <> id -> n <> name)
      by (intros i n Hy; apply (Hst i); right; exact Hy).
    cbn [proj filter] in Hproj. fold (proj id rest) in Hproj.
    cbn [LinearRoundTripDefs.lx_spec].
    destruct x as [i n|i d|i hh|].
    - rewrite has_id_start in Hproj. destruct (N.eqb_spec i id) as [->|Hi].
      + injection Hproj as -> Hproj. fold chosen.
        apply (lx_open _ _ _ ds h Hne'); [| | |exact Hproj].
        * destruct chosen; [|exact Hids].
          intros j Hj. rewrite id_lookup_insert. destruct (N.eqb_spec id j); [congruence|exact (Hids j Hj)].
        * destruct chosen; [|exact Hid]. rewrite id_lookup_insert, N.eqb_refl. reflexivity.
        * intros j m Hy. destruct (N.eq_dec j id) as [->|Hj]; [|exact (Hst' j m Hy Hj)].
          exfalso. apply (not_start_in_tail id id m ds h). rewrite <- Hproj.
          apply proj_in; [exact Hy|]. rewrite has_id_start. apply N.eqb_refl.
      + apply (IH _ _ ds h Hne'); [| |exact Hst'|exact Hproj].
        * destruct (name_in export n); [|exact Hids].
          intros j Hj. rewrite id_lookup_insert. destruct (N.eqb_spec i j) as [<-|]; [|exact (Hids j Hj)].
          intros [= E]. exact (Hst i n (or_introl eq_refl) Hi E).
        * destruct (name_in export n); [|exact Hid].
          rewrite id_lookup_insert. destruct (N.eqb_spec i id); [congruence | exact Hid].
    - rewrite has_id_content in Hproj. destruct (N.eqb_spec i id) as [->|Hi]; [discriminate|].
      rewrite (IH _ _ ds h Hne' Hids Hid Hst' Hproj). f_equal.
      destruct (id_lookup ids i) as [n|] eqn:El; [|reflexivity].
      apply delivered_snoc_ne. intros ->. exact (Hids i Hi El).
    - rewrite has_id_eof in Hproj. destruct (N.eqb_spec i id) as [->|Hi]; [discriminate|].
      apply (IH _ _ ds h Hne'); [| |exact Hst'|exact Hproj].
      + intros j Hj. destruct (N.eq_dec i j) as [<-|Hne2].
        * rewrite id_lookup_remove_eq. discriminate.
        * rewrite id_lookup_remove_ne by exact Hne2. exact (Hids j Hj).
      + rewrite id_lookup_remove_ne by exact Hi. exact Hid.
    - exfalso. apply Hne. left. reflexivity.
  Qed.
End Pure.

(* ---------- the two statements used by LinearRoundTrip.v ---------- *)
Lemma in_names_of n i bl : In (n, i) (names_of bl) <-> In (BStart i n) bl.
Proof.
  unfold names_of. rewrite in_flat_map. split.
  - intros (x & Hx & Hin). destruct x as [i0 n0| | |]; cbn [In] in Hin; try contradiction.
    destruct Hin as [Hin|[]]. injection Hin as -> ->. exact Hx.
  - intros Hin. exists (BStart i n). split; [exact Hin | left; reflexivity].
Qed.

Lemma nodup_fst_inj {A B} (l : list (A * B)) a b c :
  NoDup (map fst l) -> In (a, b) l -> In (a, c) l -> b = c.
Proof.
  induction l as [|[a0 b0] l IH]; cbn [map fst In]; [tauto|].
  intros Hnd H1 H2. inversion Hnd as [|? ? Hnin Hnd']; subst.
  destruct H1 as [E1|H1]; destruct H2 as [E2|H2].
  - congruence.
  - injection E1 as -> ->. exfalso. apply Hnin. apply in_map_iff. exists (a, c). auto.
  - injection E2 as -> ->. exfalso. apply Hnin. apply in_map_iff. exists (a, b). auto.
  - exact (IH Hnd' H1 H2).
Qed.

(* a file of the archive: its writer receives the data of its FileContent blocks, in order,
   if its name was chosen, and nothing otherwise *)
Theorem lx_spec_file export bl name id nm ds h :
  ~ In BEnd bl -> NoDup (map fst (names_of bl)) -> In (name, id) (names_of bl) ->
  proj id bl = BStart id nm :: map (BContent id) ds ++ [BEof id h] ->
  delivered name (lx_spec export bl [] []) = if name_in export name then concat ds else [].
Proof.
  intros Hne Hnd Hin Hproj.
  assert (Hnm : nm = name).
  { apply in_names_of in Hin.
    assert (Hp : In (BStart id name) (proj id bl)).
    { apply proj_in; [exact Hin|]. rewrite has_id_start. apply N.eqb_refl. }
    rewrite Hproj in Hp. destruct Hp as [[= ->]|Hp]; [reflexivity|].
    exfalso. exact (not_start_in_tail _ _ _ _ _ Hp). }
  subst nm.
  rewrite (lx_start export name id bl [] [] ds h Hne); [reflexivity | | reflexivity | | exact Hproj].
  - intros i _. discriminate.
  - intros i n Hy Hi ->. apply Hi. apply in_names_of in Hy. exact (nodup_fst_inj _ _ _ _ Hnd Hy Hin).
Qed.

(* a name that no file of the archive has: nothing *)
Theorem lx_spec_absent export bl name :
  ~ In name (map fst (names_of bl)) -> delivered name (lx_spec export bl [] []) = [].
Proof.
  intros Hnin. rewrite (lx_quiet export name (fun _ => True)); [reflexivity| | |].
  - intros i _. discriminate.
  - auto.
  - intros i n Hy ->. apply Hnin. apply in_map_iff. exists (name, i). split; [reflexivity|].
    apply in_names_of. exact Hy.
Qed.
