(* SrcTie3Ecies.v — Tie A level 1 for mla/src/crypto/ecc.rs (work package cryptoT).
   gen/Src3g.v (tools/src2v3_crypto.py) holds derive_key, store_key_for_multi_recipients, retrieve_key and
   MultiRecipientPersistent::count_keys translated statement by statement; their calls of AesGcm256::{new,
   encrypt, into_tag, decrypt} go to the TRANSLATED aesgcm.rs of the same file.  Proved here, for all inputs:

     derive_key_src      translated derive_key = Ecies.derive_key with kdf = HKDF(salt None).expand("KEY DERIVATION", 32)
     store_key_src       translated store_key_for_multi_recipients = Ecies.store_key over the GCM key wrap of
                         EciesGcm.v, with the ephemeral scalar = the 32 bytes drawn from the generator
     retrieve_key_src    translated retrieve_key = Ecies.retrieve_key (ct_eq tag comparison, first match)
     count_keys_src      = number of wrapped keys
   and the C07 theorems carried onto the translated code (any_recipient_opens_src, no_other_key_opens_src).
   Premises: the block function returns 16 bytes; the KDF returns as many bytes as asked (the wrapping key is a
   `[u8; KEY_SIZE]`); `len key = 32` and 32-byte wrapped keys in a MultiRecipientPersistent (array types of the source). *)
From MLA Require Import Base Gcm GcmProofs Ecies EciesGcm SrcTie3Gcm.
From MLA.Concrete Require Import Aes Ghash GcmSpec.
From MLAGen Require Src Src3g.
From Coq Require Import ZifyBool ZifyNat ZifyN.
Open Scope N_scope.

Lemma ECIES_NONCE_src : Src3g.ECIES_NONCE = Src.ECIES_NONCE.
Proof. reflexivity. Qed.
Lemma DERIVE_KEY_INFO_src : Src3g.DERIVE_KEY_INFO = Src.DERIVE_KEY_INFO.
Proof. reflexivity. Qed.
Lemma crypto_consts_src :
  Src3g.BLOCK_SIZE = 16 /\ Src3g.TAG_LENGTH = 16 /\ Src3g.KEY_SIZE = 32 /\ Src3g.NONCE_AES_SIZE = 12.
Proof. repeat split. Qed.

Section TieE.
  Variable E : bytes -> bytes -> bytes.
  Variable gmul : N -> N -> N.
  Hypothesis HE : forall k b, length b = 16%nat -> length (E k b) = 16%nat.
  Variable pubk : bytes -> bytes.
  Variable dh : bytes -> bytes -> bytes.
  Variable hkdf_extract : option bytes -> bytes -> bytes.
  Variable hkdf_expand : bytes -> bytes -> N -> bytes.
  Hypothesis Hkdf_len : forall prk info n, len (hkdf_expand prk info n) = n.
  Variable rng : Type.
  Variable rng_fill : rng -> N -> rng * bytes.
  Variables ss si sl : N.

  (* the model's abstract kdf, as the source calls it: Hkdf::<Sha256>::new(None, ikm).expand(DERIVE_KEY_INFO, 32 bytes) *)
  Definition kdf_src (ikm : bytes) : bytes := hkdf_expand (hkdf_extract None ikm) Src3g.DERIVE_KEY_INFO 32.

  Notation s_derive := (Src3g.derive_key dh hkdf_extract hkdf_expand).
  Notation s_new := (Src3g.AesGcm256_new E gmul si sl).
  Notation s_encrypt := (Src3g.AesGcm256_encrypt E gmul ss si sl).
  Notation s_into_tag := (Src3g.AesGcm256_into_tag E gmul si sl).
  Notation s_decrypt := (Src3g.AesGcm256_decrypt E gmul si sl).
  Notation s_store := (Src3g.store_key_for_multi_recipients E gmul dh pubk hkdf_extract hkdf_expand rng rng_fill ss si sl).
  Notation s_retrieve := (Src3g.retrieve_key E gmul dh hkdf_extract hkdf_expand si sl).
  Notation m_derive := (Ecies.derive_key dh kdf_src).
  Notation wenc := (gwenc E gmul).
  Notation wdec := (gwdec E gmul).
  Notation wtag := (gwtag E gmul).

  (* ---------- derive_key ---------- *)
  Theorem derive_key_src priv pub : s_derive priv pub = Ok (m_derive priv pub).
  Proof. reflexivity. Qed.

  Lemma len_derive priv pub : len (m_derive priv pub) = 32.
  Proof. unfold Ecies.derive_key, kdf_src. apply Hkdf_len. Qed.

  (* ---------- the data correspondence ---------- *)
  Definition kt_of (p : bytes * bytes) : Src3g.KeyAndTag := Src3g.mkKeyAndTag (fst p) (snd p).
  Definition pair_of (kt : Src3g.KeyAndTag) : bytes * bytes := (Src3g.kt_key kt, Src3g.kt_tag kt).
  Definition repM (m : multi) : Src3g.MultiRecipientPersistent := Src3g.mkMRP (m_public m) (map kt_of (m_keys m)).
  Definition absM (m : Src3g.MultiRecipientPersistent) : multi :=
    mkMulti (Src3g.mrp_public m) (map pair_of (Src3g.mrp_encrypted_keys m)).
  Lemma absM_repM m : absM (repM m) = m.
  Proof.
    destruct m as [p l]. unfold absM, repM. cbn [Src3g.mrp_public Src3g.mrp_encrypted_keys m_public m_keys].
    f_equal. rewrite map_map. rewrite <- (map_id l) at 2. apply map_ext. now intros [c t].
  Qed.
  Lemma repM_absM m : repM (absM m) = m.
  Proof.
    destruct m as [p l]. unfold absM, repM. cbn [Src3g.mrp_public Src3g.mrp_encrypted_keys m_public m_keys].
    f_equal. rewrite map_map. rewrite <- (map_id l) at 2. apply map_ext. now intros [c t].
  Qed.

  (* [0u8; n] then copy_from_slice of n bytes *)
  Lemma copy_whole n s : len s = n ->
    Src3g.copy_range si sl (Src3g.zeros n) 0 (len (Src3g.zeros n)) s = Ok s.
  Proof.
    intros H. assert (Hz : len (Src3g.zeros n) = n) by (unfold Src3g.zeros; rewrite len_repeat; lia).
    rewrite (copy_range_ok si sl) by (rewrite ?Hz; lia).
    change (takeN 0 (Src3g.zeros n)) with (@nil N). rewrite dropN_all by lia. now rewrite app_nil_r.
  Qed.

  (* ---------- the key wrap: new; encrypt; into_tag on the translated code = EciesGcm's wrap ---------- *)
  Lemma wrap_src k m : len k = 32 -> len m = 32 ->
    (do c <- s_new k Src3g.ECIES_NONCE []; do (c1, e) <- s_encrypt c m; do t <- s_into_tag c1; Ok (e, t))
    = Ok (wenc k m, wtag k (wenc k m)).
  Proof.
    intros Hk Hm.
    rewrite (aesgcm_new_src E gmul si sl) by (assumption || reflexivity). cbn [bind].
    rewrite (aesgcm_encrypt_src E gmul HE ss si sl) by (cbn [gcm_new g_cur]; reflexivity). cbn [bind].
    pose proof (gcm_incremental_oneshot (E k) gmul (HE k) Src3g.ECIES_NONCE [] (enonce_len) (enonce_wf) [m]) as H.
    cbn [gcm_encrypt_pieces concat] in H. rewrite app_nil_r in H.
    specialize (H ltac:(rewrite Hm; unfold gcm_max_bytes; lia)).
    destruct (gcm_encrypt_piece (E k) gmul (gcm_new (E k) gmul Src3g.ECIES_NONCE []) m) as [g1 o]. cbn [fst snd].
    destruct H as (H1 & H2 & _). cbn [concat] in H1. rewrite app_nil_r in H1.
    rewrite (aesgcm_into_tag_src E gmul si sl). cbn [bind].
    rewrite gwtag_gwenc by assumption. unfold gwenc, enonce. rewrite <- ECIES_NONCE_src.
    now rewrite H1, H2.
  Qed.

  Lemma len_into_tag g k : len (gcm_into_tag (E k) gmul g) = 16.
  Proof.
    unfold gcm_into_tag. rewrite (len_apply_keystream E gmul HE).
    - unfold len. rewrite length_N_to_block. reflexivity.
    - exact 0.
  Qed.

  (* ---------- store_key_for_multi_recipients ---------- *)
  Lemma store_for_src eph key public rs : len key = 32 -> forall csprng acc,
    Src3g.store_key_for_multi_recipients_for1 E gmul dh hkdf_extract hkdf_expand rng ss si sl csprng acc eph key public rs
    = Ok (csprng, Src3g.mkMRP public (acc ++ map kt_of (map (wrap_for dh kdf_src wenc wtag eph key) rs))).
  Proof.
    intros Hkey. induction rs as [|r rs IH]; intros csprng acc; cbn [Src3g.store_key_for_multi_recipients_for1 map].
    - now rewrite app_nil_r.
    - rewrite derive_key_src. cbn [bind].
      set (k := m_derive eph r). assert (Hk : len k = 32) by apply len_derive.
      pose proof (wrap_src k key Hk Hkey) as W.
      destruct (s_new k Src3g.ECIES_NONCE []) as [c| |]; cbn [bind] in *; try discriminate W.
      rewrite copy_whole by exact Hkey. cbn [bind].
      destruct (s_encrypt c key) as [[c1 e]| |]; cbn [bind] in *; try discriminate W.
      destruct (s_into_tag c1) as [t| |] eqn:Ht; cbn [bind] in *; try discriminate W.
      apply ok_pair_inv in W. destruct W as [-> ->].
      rewrite copy_whole.
      2:{ change Src3g.TAG_LENGTH with 16.
          pose proof (gwtag_gwenc E gmul HE k key Hkey) as G. rewrite G.
          pose proof (gcm_incremental_oneshot (E k) gmul (HE k) enonce [] enonce_len enonce_wf [key]) as H.
          cbn [gcm_encrypt_pieces concat] in H. rewrite app_nil_r in H.
          specialize (H ltac:(rewrite Hkey; unfold gcm_max_bytes; lia)).
          destruct (gcm_encrypt_piece (E k) gmul (gcm_new (E k) gmul enonce []) key) as [g1 o].
          destruct H as (_ & <- & _). apply len_into_tag. }
      cbn [bind]. rewrite IH. rewrite <- app_assoc. reflexivity.
  Qed.

  Theorem store_key_src recipients key csprng : len key = 32 ->
    s_store recipients key csprng
    = Ok (fst (rng_fill csprng 32),
          repM (Ecies.store_key pubk dh kdf_src wenc wtag recipients key (snd (rng_fill csprng 32)))).
  Proof.
    intros Hkey. unfold Src3g.store_key_for_multi_recipients.
    change (len (Src3g.zeros 32)) with 32.
    destruct (rng_fill csprng 32) as [csprng1 drawn]. cbn [fst snd].
    rewrite store_for_src by exact Hkey. reflexivity.
  Qed.

  (* ---------- retrieve_key ---------- *)
  Definition wf_multi (m : Src3g.MultiRecipientPersistent) : Prop :=
    Forall (fun kt => len (Src3g.kt_key kt) = 32) (Src3g.mrp_encrypted_keys m).

  Lemma retrieve_for_src k l : len k = 32 -> Forall (fun kt => len (Src3g.kt_key kt) = 32) l ->
    Src3g.retrieve_key_for1 E gmul si sl k l = Ok (find_key wdec wtag k (map pair_of l)).
  Proof.
    intros Hk Hl. induction Hl as [|kt l Hkt Hl IH]; cbn [Src3g.retrieve_key_for1 map find_key]; [reflexivity|].
    rewrite (aesgcm_new_src E gmul si sl) by (assumption || reflexivity). cbn [bind].
    rewrite copy_whole by exact Hkt. cbn [bind].
    rewrite (aesgcm_decrypt_src E gmul HE si sl).
    unfold pair_of at 1. unfold gwtag, gwdec, enonce. rewrite <- ECIES_NONCE_src.
    destruct (Gcm.gcm_decrypt (E k) gmul (gcm_new (E k) gmul Src3g.ECIES_NONCE []) (Src3g.kt_key kt)) as [[g' p] t].
    cbn [bind]. unfold Src3g.ct_eq.
    destruct (bytes_eqb t (Src3g.kt_tag kt)); [reflexivity | exact IH].
  Qed.

  Theorem retrieve_key_src m priv : wf_multi m ->
    s_retrieve m priv = Ok (Ecies.retrieve_key dh kdf_src wdec wtag (absM m) priv).
  Proof.
    intros Hm. unfold Src3g.retrieve_key. rewrite derive_key_src. cbn [bind].
    rewrite retrieve_for_src by (apply len_derive || exact Hm). reflexivity.
  Qed.

  Lemma wf_multi_store recipients key eph : len key = 32 ->
    wf_multi (repM (Ecies.store_key pubk dh kdf_src wenc wtag recipients key eph)).
  Proof.
    intros Hkey. unfold wf_multi, repM, Ecies.store_key. cbn [Src3g.mrp_encrypted_keys m_keys].
    induction recipients as [|r rs IH]; cbn [map]; constructor; [|exact IH].
    cbn [kt_of wrap_for fst Src3g.kt_key]. unfold gwenc.
    pose proof (gcm_incremental_oneshot (E (m_derive eph r)) gmul (HE _) enonce [] enonce_len enonce_wf [key]) as H.
    cbn [gcm_encrypt_pieces concat] in H. rewrite app_nil_r in H.
    specialize (H ltac:(rewrite Hkey; unfold gcm_max_bytes; lia)).
    destruct (gcm_encrypt_piece _ gmul (gcm_new _ gmul enonce []) key) as [g1 o].
    destruct H as (H1 & _ & H3). cbn [concat] in H1. rewrite app_nil_r in H1. rewrite <- H1.
    cbn [map] in H3. injection H3 as H3. unfold len. rewrite H3. exact Hkey.
  Qed.

  (* ---------- count_keys ---------- *)
  Theorem count_keys_src m : Src3g.count_keys m = Ok (len (m_keys (absM m))).
  Proof. unfold Src3g.count_keys, absM, len. cbn [m_keys]. now rewrite map_length. Qed.

  (* ---------- C07 carried: candidate private keys tried in turn with the translated retrieve_key ---------- *)
  Fixpoint src_load (m : Src3g.MultiRecipientPersistent) (privs : list bytes) : res (option bytes) :=
    match privs with
    | [] => Ok None
    | p :: r => do o <- s_retrieve m p; match o with Some k => Ok (Some k) | None => src_load m r end
    end.

  Lemma src_load_model m privs : wf_multi m ->
    src_load m privs = Ok (load_persistent dh kdf_src wdec wtag (absM m) privs).
  Proof.
    intros Hm. induction privs as [|p r IH]; cbn [src_load load_persistent]; [reflexivity|].
    rewrite retrieve_key_src by exact Hm. cbn [bind].
    destruct (Ecies.retrieve_key dh kdf_src wdec wtag (absM m) p); [reflexivity | exact IH].
  Qed.

  Hypothesis dh_comm : forall a b, dh a (pubk b) = dh b (pubk a).

  Theorem any_recipient_opens_src recipients key csprng privs s : len key = 32 ->
    In (pubk s) recipients -> In s privs ->
    exists csprng' m, s_store recipients key csprng = Ok (csprng', m) /\
      (src_load m privs = Ok (Some key) \/
       TagCollision pubk dh kdf_src wenc wtag (snd (rng_fill csprng 32)) key recipients privs).
  Proof.
    intros Hkey Hr Hs. rewrite store_key_src by exact Hkey. do 2 eexists. split; [reflexivity|].
    rewrite src_load_model by (apply wf_multi_store; exact Hkey). rewrite absM_repM.
    destruct (recipient_opens_gcm E gmul HE pubk dh kdf_src dh_comm (snd (rng_fill csprng 32)) key recipients privs s
                Hkey Hr Hs) as [H|H]; [left; now rewrite H | right; exact H].
  Qed.

  Theorem no_other_key_opens_src recipients key csprng privs : len key = 32 ->
    (forall p r, In p privs -> In r recipients ->
       m_derive p (pubk (snd (rng_fill csprng 32))) <> m_derive (snd (rng_fill csprng 32)) r) ->
    exists csprng' m, s_store recipients key csprng = Ok (csprng', m) /\
      (src_load m privs = Ok None \/
       TagCollision pubk dh kdf_src wenc wtag (snd (rng_fill csprng 32)) key recipients privs).
  Proof.
    intros Hkey Hn. rewrite store_key_src by exact Hkey. do 2 eexists. split; [reflexivity|].
    rewrite src_load_model by (apply wf_multi_store; exact Hkey). rewrite absM_repM.
    destruct (non_recipient_fails_gcm E gmul HE pubk dh kdf_src (snd (rng_fill csprng 32)) key recipients privs
                Hkey Hn) as [H|H]; [left; now rewrite H | right; exact H].
  Qed.
End TieE.
