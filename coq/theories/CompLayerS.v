(* CompLayerS.v — the NORMAL compression reader with a STREAMING decompressor (definitions
   only; proofs in CompLayerSProofs.v / CompLayerSTotal.v).  Refinement of CompLayer.v:

   CompLayer.new_decompressor_at models brotli::Decompressor<Take<R>> as a function `dec` of
   the whole compressed block, read with read_full when the decompressor is created.  The real
   object pulls its input lazily, so an error of the inner layer (encryption over a stream
   with an unverifiable chunk) surfaces at the first read that needs the bytes of that chunk,
   not at the seek that creates the decompressor.  Here the decompressor is modelled as the
   code of brotli-decompressor 4.0.2 (src/reader.rs, DecompressorCustomIo::read /
   copy_to_front, src/io_wrappers.rs IntoIoReader) over std::io::Take, around an abstract
   streaming decoder step `dstep` — the same interface as CompFailSafe.v:
     dstep ds inp room = (result, consumed, output, ds')
   one call of BrotliDecompressStream with `inp` = input_buffer[input_offset..input_len] on
   offer and `room` = the caller's buffer length.

   Fields of DecompressorCustomIo kept: input_buffer (its length sd_bsz and the valid part
   input_buffer[..input_len] = sd_buf), input_offset, input (IntoIoReader(Take{inner, limit})),
   state, done, error_if_invalid_data (Some = true).  total_out is write-only.  IntoIoReader
   retries ErrorKind::Interrupted; the model's error type has no such kind (the layers below
   never produce it).

   READ-AHEAD POLICY (part of the observable error timing).  The decompressor is created by
   Decompressor::new(inner.take(csize), min(csize, UNCOMPRESSED_DATA_SIZE)); a buffer size of 0
   means 4096.  The inner reader is asked ONLY when a decoder call returned NeedsMoreInput
   without producing output; it is then asked ONCE for input_buffer[input_len..], i.e.
   sd_bsz - input_len bytes (clipped by the Take limit; not at all when the limit is 0), after
   copy_to_front has (i) reset an entirely consumed full buffer, or (ii) moved the unconsumed
   tail to the front when input_offset + 256 > sd_bsz and the tail is shorter than the
   consumed part.  No other read-ahead exists.

   Everything that does not involve the decompressor is CompLayer's (SizesInfo, pos_in_stream,
   block_start_check, sync_inner, ubs_at, end_target, read_sizes_info). *)
From MLA Require Import Limit.
From MLA Require Import Base Stream CompLayer CompFailSafe.
Open Scope N_scope.

Definition DEC_DEFAULT_BUF : N := 4096.   (* Decompressor::new: `if buffer_size == 0 {4096}` *)
Definition IO_COPY_BUF : N := 8192.       (* std::io::copy: stack buffer of DEFAULT_BUF_SIZE *)

Section CompS.
  Variable BLOCK : N.
  Variable dstate : Type.
  Variable dinit : dstate.
  Variable dstep : dstate -> bytes -> N -> dresult * N * bytes * dstate.
  Variable S : Stream.

  (* brotli::Decompressor<Take<R>> *)
  Record sdecomp := mkSD {
    sd_in : st S;        (* Take.inner *)
    sd_lim : N;          (* Take.limit *)
    sd_bsz : N;          (* input_buffer.len() *)
    sd_buf : bytes;      (* input_buffer[..input_len] *)
    sd_off : N;          (* input_offset *)
    sd_ds : dstate;      (* state: BrotliState *)
    sd_done : bool;      (* done *)
    sd_eiid : bool;      (* error_if_invalid_data.is_some() *)
  }.

  (* std::io::Take::read with a buffer of `want` bytes: limit 0 -> Ok(0) without calling the
     inner reader; otherwise ONE inner read of min(want, limit) *)
  Definition take_read (i : st S) (lim want : N) : st S * N * res bytes :=
    if lim =? 0 then (i, lim, Ok [])
    else
      let m := N.min want lim in
      match rd S i m with
      | (i', Ok data) =>
        if m <? len data then (i', lim, Crash 900)   (* a Read impl returning more than asked *)
        else (i', lim - len data, Ok data)
      | (i', Err e) => (i', lim, Err e)
      | (i', Crash x) => (i', lim, Crash x)
      end.

  (* reader.rs: copy_to_front *)
  Definition copy_to_front (d : sdecomp) : res sdecomp :=
    if len (sd_buf d) <? sd_off d then Crash 259          (* self.input_len - self.input_offset *)
    else if sd_off d =? sd_bsz d then
      Ok (mkSD (sd_in d) (sd_lim d) (sd_bsz d) [] 0 (sd_ds d) (sd_done d) (sd_eiid d))
    else if (sd_bsz d <? sd_off d + 256) && (len (sd_buf d) - sd_off d <? sd_off d) then
      if sd_bsz d <? sd_off d then Crash 263              (* split_at_mut(self.input_offset) *)
      else Ok (mkSD (sd_in d) (sd_lim d) (sd_bsz d) (dropN (sd_off d) (sd_buf d)) 0 (sd_ds d) (sd_done d) (sd_eiid d))
    else Ok d.

  (* self.error_if_invalid_data.take().map(|e| Err(e)).unwrap_or(Ok(0)) *)
  Definition invalid_data (d : sdecomp) : sdecomp * res bytes :=
    if sd_eiid d
    then (mkSD (sd_in d) (sd_lim d) (sd_bsz d) (sd_buf d) (sd_off d) (sd_ds d) (sd_done d) false, Err EInval)
    else (d, Ok []).

  (* DecompressorCustomIo::read with a buffer of n bytes.  One iteration of
     `while avail_out == buf.len()` per unit of fuel; an iteration is followed by another one
     only after an inner read that delivered at least one byte (the Take limit decreases). *)
  Fixpoint sd_read (fuel : nat) (d : sdecomp) (n : N) : sdecomp * res bytes :=
    match fuel with
    | O => (d, Err EFuel)
    | Datatypes.S fuel' =>
      if len (sd_buf d) <? sd_off d then (d, Crash 302)   (* avail_in = input_len - input_offset *)
      else
        match dstep (sd_ds d) (dropN (sd_off d) (sd_buf d)) n with
        | (r, k, out, ds') =>
          (* BrotliDecompressStream mutates self.input_offset and self.state in place *)
          let d1 := mkSD (sd_in d) (sd_lim d) (sd_bsz d) (sd_buf d) (sd_off d + k) ds' (sd_done d) (sd_eiid d) in
          match r with
          | DNeedsMoreInput =>
            match copy_to_front d1 with
            | Ok d2 =>
              (* "we do not wish to risk self.input.read returning an error, so instead we opt
                 to return what we have" *)
              if negb (len out =? 0) then (d2, Ok out)
              else if sd_bsz d2 <? len (sd_buf d2) then (d2, Crash 320)  (* &mut input_buffer[input_len..] *)
              else
                match take_read (sd_in d2) (sd_lim d2) (sd_bsz d2 - len (sd_buf d2)) with
                | (i', lim', Ok data) =>
                  if len data =? 0 then
                    invalid_data (mkSD i' lim' (sd_bsz d2) (sd_buf d2) (sd_off d2) (sd_ds d2) (sd_done d2) (sd_eiid d2))
                  else
                    sd_read fuel' (mkSD i' lim' (sd_bsz d2) (sd_buf d2 ++ data) (sd_off d2) (sd_ds d2) (sd_done d2) (sd_eiid d2)) n
                | (i', lim', Err e) =>
                  (mkSD i' lim' (sd_bsz d2) (sd_buf d2) (sd_off d2) (sd_ds d2) (sd_done d2) (sd_eiid d2), Err e)
                | (i', lim', Crash x) =>
                  (mkSD i' lim' (sd_bsz d2) (sd_buf d2) (sd_off d2) (sd_ds d2) (sd_done d2) (sd_eiid d2), Crash x)
                end
            | Err e => (d1, Err e)
            | Crash x => (d1, Crash x)
            end
          | DNeedsMoreOutput => (d1, Ok out)               (* break; Ok(output_offset) *)
          | DSuccess =>
            if len out =? 0 then
              if negb (sd_done d1) then
                (mkSD (sd_in d1) (sd_lim d1) (sd_bsz d1) (sd_buf d1) (sd_off d1) (sd_ds d1) true (sd_eiid d1), Ok [])
              else if negb (len (sd_buf d1) =? sd_off d1) then invalid_data d1   (* "Did not consume entire input" *)
              else (d1, Ok [])
            else (d1, Ok out)
          | DFailure => invalid_data d1
          end
        end
    end.

  (* enough for any inner stream: one unit per byte the Take can still deliver, plus two *)
  Definition sd_fuel (d : sdecomp) : nat := Datatypes.S (Datatypes.S (N.to_nat (sd_lim d))).

  (* io::copy(&mut (&mut decompressor).take(inside_block), &mut io::sink()): reads of
     min(8192, remaining) bytes until the Take is exhausted or a read returns 0 *)
  Fixpoint sd_skip (fuel : nat) (d : sdecomp) (remaining : N) : sdecomp * res unit :=
    match fuel with
    | O => (d, Err EFuel)
    | Datatypes.S fuel' =>
      if remaining =? 0 then (d, Ok tt)
      else
        match sd_read (sd_fuel d) d (N.min IO_COPY_BUF remaining) with
        | (d', Ok data) =>
          if len data =? 0 then (d', Ok tt)
          else if remaining <? len data then (d', Crash 902)   (* BorrowedCursor::advance past the buffer *)
          else sd_skip fuel' d' (remaining - len data)
        | (d', Err e) => (d', Err e)
        | (d', Crash x) => (d', Crash x)
        end
    end.
  Definition skip_fuel (inside : N) : nat := Datatypes.S (N.to_nat inside).

  (* ---------- CompressionLayerReader ---------- *)
  Inductive sstate :=
  | SReady (i : st S)
  | SInData (read usize : N) (d : sdecomp)
  | SEmpty.

  Record sreader := mkS {
    s_state : sstate;
    s_si : option sizes_info;
    s_pos : N;                    (* underlayer_pos *)
  }.
  Definition s_set (c : sreader) (s : sstate) : sreader := mkS s (s_si c) (s_pos c).

  Definition s_into_inner (s : sstate) : res (st S) :=
    match s with
    | SReady i => Ok i
    | SInData _ _ d => Ok (sd_in d)      (* decompressor.into_inner().into_inner() *)
    | SEmpty => Crash 186
    end.

  (* new_decompressor_at: nothing is read *)
  Definition new_sdecomp (si : option sizes_info) (i : st S) (p : N) : res sdecomp :=
    do _ <- block_start_check BLOCK si p;
    match si with
    | Some s =>
      do csize <- si_cbs BLOCK s p;
      let m := N.min csize BLOCK in
      Ok (mkSD i csize (if m =? 0 then DEC_DEFAULT_BUF else m) [] 0 dinit false true)
    | None => Err EMissingMeta
    end.

  (* Read::read (same shape as CompLayer.cread_aux) *)
  Fixpoint sread_aux (fuel : nat) (c : sreader) (n : N) : sreader * res bytes :=
    match fuel with
    | O => (c, Err EFuel)
    | Datatypes.S fuel' =>
      if negb (pos_in_stream BLOCK (s_si c) (s_pos c)) then (c, Ok []) else
      let c0 := s_set c SEmpty in
      match s_state c with
      | SReady i =>
        match sync_inner BLOCK S (s_si c) i (s_pos c) with
        | (i1, Ok _) =>
          match new_sdecomp (s_si c) i1 (s_pos c) with
          | Ok d =>
            match ubs_at BLOCK (s_si c) (s_pos c) with
            | Ok u => sread_aux fuel' (s_set c (SInData 0 u d)) n
            | Err e => (c0, Err e)
            | Crash x => (c0, Crash x)
            end
          | Err e => (c0, Err e)
          | Crash x => (c0, Crash x)
          end
        | (_, Err e) => (c0, Err e)
        | (_, Crash x) => (c0, Crash x)
        end
      | SInData r u d =>
        if u <? r then (c0, Err EState)
        else if r =? u then sread_aux fuel' (s_set c (SReady (sd_in d))) n
        else
          let size := N.min (u - r) n in
          match sd_read (sd_fuel d) d size with
          | (d', Ok data) =>
            (* self.underlayer_pos += read_add; read + u32::try_from(read_add).map_err(..)? *)
            if 2 ^ 32 <=? len data then (mkS SEmpty (s_si c) (s_pos c + len data), Err EInval)
            else (mkS (SInData (r + len data) u d') (s_si c) (s_pos c + len data), Ok data)
          | (_, Err e) => (c0, Err e)           (* decompressor.read(..)? : the state stays Empty *)
          | (_, Crash x) => (c0, Crash x)
          end
      | SEmpty => (c0, Err EState)
      end
    end.
  Definition sread : sreader -> N -> sreader * res bytes := sread_aux 4.

  Definition sseek_start_go (c : sreader) (si : sizes_info) (pos : N) : sreader * res N :=
    let inside := pos mod BLOCK in
    let rounded := pos - inside in
    let c0 := s_set c SEmpty in
    if negb (pos_in_stream BLOCK (s_si c) rounded) then
      if negb (pos =? si_max BLOCK si) then (c, Err EEos)
      else
        match s_into_inner (s_state c) with
        | Ok i => (mkS (SReady i) (s_si c) pos, Ok pos)
        | Err e => (c0, Err e)
        | Crash x => (c0, Crash x)
        end
    else
      match s_into_inner (s_state c) with
      | Ok i =>
        match sync_inner BLOCK S (s_si c) i rounded with
        | (i1, Ok _) =>
          match new_sdecomp (s_si c) i1 rounded with
          | Ok d =>
            match ubs_at BLOCK (s_si c) rounded with
            | Ok u =>
              match sd_skip (skip_fuel inside) d inside with
              | (d', Ok _) =>
                if 2 ^ 32 <=? inside then (c0, Err EInval)
                else (mkS (SInData inside u d') (s_si c) pos, Ok pos)
              | (_, Err e) => (c0, Err e)       (* io::copy(..)? *)
              | (_, Crash x) => (c0, Crash x)
              end
            | Err e => (c0, Err e)
            | Crash x => (c0, Crash x)
            end
          | Err e => (c0, Err e)
          | Crash x => (c0, Crash x)
          end
        | (_, Err e) => (c0, Err e)
        | (_, Crash x) => (c0, Crash x)
        end
      | Err e => (c0, Err e)
      | Crash x => (c0, Crash x)
      end.

  Definition sseek_start (c : sreader) (pos : N) : sreader * res N :=
    match s_si c with
    | None => (c, Err EMissingMeta)
    | Some si =>
      match s_state c with
      | SEmpty => (c, Err EState)
      | _ => sseek_start_go c si pos
      end
    end.

  Definition sseek (c : sreader) (w : whence) : sreader * res N :=
    match s_si c with
    | None => (c, Err EMissingMeta)
    | Some si =>
      match w with
      | FromStart p => sseek_start c p
      | FromCur d =>
        if (d =? 0)%Z then (c, Ok (s_pos c))
        else if s_pos c <? 2 ^ 63 then
          let t := (d + Z.of_N (s_pos c))%Z in
          if (2 ^ 63 <=? t)%Z then (c, Crash 495)
          else if (0 <=? t)%Z then sseek_start c (Z.to_N t)
          else (c, Err EInval)
        else (c, Err EInval)
      | FromEnd d =>
        if (0 <? d)%Z then (c, Err EEos)
        else if (d =? - 2 ^ 63)%Z then (c, Crash 529)
        else
          match end_target (si_max BLOCK si) (Z.to_N (- d)) with
          | Ok q => sseek_start c q
          | Err e => (c, Err e)
          | Crash x => (c, Crash x)
          end
      end
    end.

  Definition CompReaderS : Stream := {| st := sreader; rd := sread; sk := sseek |}.

  (* new / initialize / open: as CompLayer's, on the streaming reader's state *)
  Definition scomp_new (i : st S) : sreader * res unit :=
    match sk S i (FromCur 0) with
    | (i', Ok p) => (mkS (SReady i') None p, Ok tt)
    | (i', Err e) => (mkS SEmpty None 0, Err e)
    | (i', Crash x) => (mkS SEmpty None 0, Crash x)
    end.

  Variable LIMIT : N.
  Local Hint Extern 0 Limit => exact LIMIT : typeclass_instances.
  Definition scomp_initialize (inner_init : st S -> st S * res unit) (c : sreader) : sreader * res unit :=
    match s_state c with
    | SReady i =>
      match read_sizes_info LIMIT S inner_init i with
      | (i', Ok si) => (mkS (SReady i') (Some si) (s_pos c), Ok tt)
      | (i', Err e) => (mkS (SReady i') (s_si c) (s_pos c), Err e)
      | (i', Crash x) => (mkS (SReady i') (s_si c) (s_pos c), Crash x)
      end
    | _ => (c, Err EState)
    end.
  Definition scomp_open (inner_init : st S -> st S * res unit) (i0 : st S) : sreader * res unit :=
    match scomp_new i0 with
    | (c, Ok _) => scomp_initialize inner_init c
    | r => r
    end.
End CompS.

Arguments mkSD {dstate S}.
Arguments sd_in {dstate S}.
Arguments sd_lim {dstate S}.
Arguments sd_bsz {dstate S}.
Arguments sd_buf {dstate S}.
Arguments sd_off {dstate S}.
Arguments sd_ds {dstate S}.
Arguments sd_done {dstate S}.
Arguments sd_eiid {dstate S}.
Arguments SReady {dstate S}.
Arguments SInData {dstate S}.
Arguments SEmpty {dstate S}.
Arguments mkS {dstate S}.
Arguments s_state {dstate S}.
Arguments s_si {dstate S}.
Arguments s_pos {dstate S}.
