(* RunWRows.v — Tie B entry points that give the WRITER side direct model=implementation rows
   (work package "wrows"; COVERAGE.md "modelled but only oracle-compared"):

     c01_encw      EncLayer.ew_write / ew_write_all / ew_renew / ew_finalize (call by call: accepted
                   counts, bytes in the inner writer after each call, the final wire) under the
                   concrete AES-256-GCM of Concrete/ (InstGcm tables)          job c01-encw
     c01_aw        Archive.archive_write as a whole (header ++ lower_write over the Writer model's
                   block stream), oracle mode for X25519 as in RunC01.v, brotli's compressor as a
                   table of the archive's own blocks                           job c01-aw
     c06_gcmdec    Gcm.gcm_decrypt / gcm_decrypt_unauth / gcm_encrypt_piece / gcm_into_tag called in
                   any sequence on ONE object (the model threads one gstate)   job c06-gcmdec
     c13_sinkrows  Sink.write_all / pos_write over Sink.sink_write on a scripted schedule, with the
                   log of what the sink was offered                            job c13-sinkrows

   Definitions only; RunWRowsProofs.v proves that these entry points ARE the model functions the
   theorems speak about (no lookalikes). *)
From MLA Require Import Limit.
From MLAGen Require Src.
(* executable entry points: the production value of BINCODE_MAX_DESERIALIZE (the same in both flavours), file-local *)
#[local] Instance RUN_LIMIT : Limit := MLAGen.Src.BINCODE_MAX_DESERIALIZE_prod.
From MLA Require Import Base Stream Inst EncLayer EncWriter InstGcm Sink Gcm Format
  Ecies EciesGcm CompLayer Archive ArchiveInst.
(* Format.v has a finfo record of its own (same field names): Blocks last, so that its names win *)
From MLA Require Import Blocks Writer.
From MLA.Concrete Require Aes Ghash Sha256.
From MLAGen Require Src.
Open Scope N_scope.

Definition wr_code {A} (r : res A) : N := match r with Ok _ => 0 | Err _ => 1 | Crash _ => 2 end.

(* ====================================================================================== *)
(* (a) the encryption layer WRITER, call by call                                            *)
(* ====================================================================================== *)

(* ops:  0 :: buf   one Write::write(buf)            row [0; accepted; bytes in the inner writer]
         1 :: buf   Write::write_all(buf)            row [0; bytes in the inner writer]
         [2]        Write::flush (forwarding only)   row [0; bytes in the inner writer]
         [3]        LayerWriter::finalize            row [0; bytes in the inner writer]
   a call that fails gives [1] (Err) / [2] (Crash) and ends the run; the last row is always
   9 :: everything the inner writer received. *)
Section EncW.
  Variables CH CB : N.
  Variable ks : N -> N -> N.
  Variable tagc : N -> bytes -> bytes.

  Fixpoint encw_ops (fuel : nat) (s : ewstate) (ops : list (list N)) : list (list N) :=
    match ops with
    | [] => [9 :: ew_out s]
    | op :: rest =>
      match op with
      | 0 :: buf =>
        match ew_write CH CB ks tagc s buf with
        | Ok (s', n) => [0; n; len (ew_out s')] :: encw_ops fuel s' rest
        | r => [[wr_code r]; 9 :: ew_out s]
        end
      | 1 :: buf =>
        match ew_write_all CH CB ks tagc fuel s buf with
        | Ok s' => [0; len (ew_out s')] :: encw_ops fuel s' rest
        | r => [[wr_code r]; 9 :: ew_out s]
        end
      | [3] =>
        match ew_finalize tagc s with
        | Ok s' => [0; len (ew_out s')] :: encw_ops fuel s' rest
        | r => [[wr_code r]; 9 :: ew_out s]
        end
      | _ => [0; len (ew_out s)] :: encw_ops fuel s rest          (* flush *)
      end
    end.
End EncW.

(* one unit of fuel per Write::write call of a write_all: more than the longest buffer *)
Definition ops_fuel (ops : list (list N)) : nat := S (N.to_nat (len (concat ops))).

Definition c01_encw (k : consts) (key nonce8 : bytes) (ntab : N) (ops : list (list N)) : list (list N) :=
  let rk := Aes.aes256_expand key in
  let tab := gcm_tab rk nonce8 (cCHUNK k) (N.to_nat ntab) in
  encw_ops (cCHUNK k) (cCIPHERBUF k) (gcm_ks tab) (gcm_tagc rk nonce8) (ops_fuel ops) ew_init ops.

(* ====================================================================================== *)
(* (b) the whole archive                                                                    *)
(* ====================================================================================== *)

(* the writer calls of harness/src/archive.rs::build:
     0 :: name         start_file(name)
     1 :: id :: data   append_file_content(id, |data|, data)   (also through helpers::StreamWriter)
     [2; id]           end_file(id)
     [4]               flush
   finalize is appended by archive_write itself *)
Definition aw_call (c : list N) : wop :=
  match c with
  | 0 :: name => OStart name
  | 1 :: id :: data => OAppend id (len data) data
  | [2; id] => OEnd id
  | _ => OFlush
  end.

(* the footer in the order in which the real HashMap was iterated (names as observed in the real
   footer).  Whatever `names` is, the result is a permutation of the footer (aw_order_perm): the
   reordered list is used only when it passes the boolean permutation check *)
Definition finfo_eqb (a b : Blocks.finfo) : bool :=
  list_eqb N.eqb (fi_offsets a) (fi_offsets b) && (fi_size a =? fi_size b) && (fi_eof a =? fi_eof b).
Definition entry_eqb (a b : bytes * Blocks.finfo) : bool := bytes_eqb (fst a) (fst b) && finfo_eqb (snd a) (snd b).
Fixpoint remove_first (e : bytes * Blocks.finfo) (l : Blocks.footer) : option Blocks.footer :=
  match l with
  | [] => None
  | h :: t => if entry_eqb e h then Some t else option_map (cons h) (remove_first e t)
  end.
Fixpoint perm_check (g f : Blocks.footer) : bool :=
  match g with
  | [] => match f with [] => true | _ => false end
  | e :: g' => match remove_first e f with Some f' => perm_check g' f' | None => false end
  end.
Fixpoint pick_entries (names : list bytes) (f : Blocks.footer) : Blocks.footer :=
  match names with
  | [] => []
  | n :: r =>
    match find (fun e => bytes_eqb (fst e) n) f with
    | Some e => e :: pick_entries r f
    | None => pick_entries r f
    end
  end.
Definition aw_order (names : list bytes) (f : Blocks.footer) : Blocks.footer :=
  let g := pick_entries names f in if perm_check g f then g else f.

(* brotli's compressor as a table: entries [compressed block; its plaintext] taken from the real
   archive (compressed bytes cut apart by the sizes footer, plaintext by the brotli crate's decoder).
   A block that is not in the table compresses to [] — the rows then differ *)
Fixpoint comp_tab (t : list (list bytes)) (plain : bytes) : bytes :=
  match t with
  | [] => []
  | [c; p] :: r => if bytes_eqb p plain then c else comp_tab r plain
  | _ :: r => comp_tab r plain
  end.

Definition aw_wenc := gwenc E_aes256 Ghash.gf_mul.
Definition aw_wtag := gwtag E_aes256 Ghash.gf_mul.
Definition aw_LIMIT : N := Src.BINCODE_MAX_DESERIALIZE_verif.

(* ORACLE MODE for X25519 (as RunC01.v): pubk := the ephemeral PUBLIC key read from the header,
   dh := the shared secret, recipients := the shared secrets, so that everything after the D-H is
   the model's own computation (RunWRowsProofs.archive_write_oracle_mode: this is archive_write
   with the real pubk / dh whenever epub = pubk eph and shared = map (dh eph) recipients) *)
Definition aw_cfg (enc comp : N) (table : list (list bytes)) (key nonce : bytes) (shared : list bytes) : wconfig :=
  mkWC (comp =? 1) (enc =? 1) (comp_tab table) key nonce [] shared.

Definition aw_write (k : consts) (ntab : nat) (epub : bytes) (names : list bytes) (cfg : wconfig)
           (cut_top cut_mid : list N) (ops : list wop) : res bytes :=
  archive_write (cCHUNK k) (cCIPHERBUF k) (cBLOCK k) aw_LIMIT (cFNMAX k)
    Src.BT_FileStart Src.BT_FileContent Src.BT_EndOfArchiveData Src.BT_EndOfFile
    Sha256.sha256 (aw_order names) (fun _ => epub) (fun _ r => r) hkdf_info aw_wenc aw_wtag
    (ksf_gcm (cCHUNK k) ntab) tagf_gcm cfg cut_top cut_mid ops.

(* rows: [status]; the archive bytes *)
Definition c01_aw (k : consts) (enc comp : N) (epub : bytes) (shared : list bytes) (key nonce : bytes)
           (ntab : N) (names : list bytes) (table : list (list bytes)) (cut_top cut_mid : list N)
           (calls : list (list N)) : list (list N) :=
  match aw_write k (N.to_nat ntab) epub names (aw_cfg enc comp table key nonce shared) cut_top cut_mid
                 (map aw_call calls) with
  | Ok a => [[0]; a]
  | Err _ => [[1]]
  | Crash _ => [[2]]
  end.

(* ====================================================================================== *)
(* (c) AesGcm256: any sequence of calls on one object                                       *)
(* ====================================================================================== *)

(* calls:  0 :: buf              decrypt(buf)                  rows 0 :: buffer afterwards; 5 :: tag
           1 :: buf              decrypt_unauthenticated(buf)  row  1 :: buffer afterwards
           2 :: tag16 ++ buf     decrypt(buf), then the caller's comparison of the returned tag with
                                 the expected one (ConstantTimeEq, as encrypt.rs does)
                                                               rows 0 :: buffer; 5 :: tag; [6; equal?]
           3 :: buf              encrypt(buf)                  row  3 :: buffer afterwards
   and into_tag at the end                                     row  7 :: tag *)
Section GcmCalls.
  Variable rk : list bytes.
  Fixpoint gcm_calls (s : gstate) (calls : list (list N)) : list (list N) :=
    match calls with
    | [] => [7 :: aesgcm_into_tag rk s]
    | c :: rest =>
      match c with
      | 0 :: buf =>
        let '(s', out, tag) := aesgcm_decrypt rk s buf in
        (0 :: out) :: (5 :: tag) :: gcm_calls s' rest
      | 1 :: buf =>
        let '(s', out) := aesgcm_decrypt_unauth rk s buf in
        (1 :: out) :: gcm_calls s' rest
      | 2 :: tb =>
        let '(s', out, tag) := aesgcm_decrypt rk s (dropN 16 tb) in
        (0 :: out) :: (5 :: tag) :: [6; if bytes_eqb tag (takeN 16 tb) then 1 else 0] :: gcm_calls s' rest
      | 3 :: buf =>
        let '(s', out) := aesgcm_encrypt rk s buf in
        (3 :: out) :: gcm_calls s' rest
      | _ => [[9; 9]]
      end
    end.
End GcmCalls.

Definition c06_gcmdec (_ : consts) (key nonce aad : bytes) (calls : list (list N)) : list (list N) :=
  let rk := Aes.aes256_expand key in
  gcm_calls rk (aesgcm_new rk nonce aad) calls.

(* ====================================================================================== *)
(* (d) write_all / PositionLayerWriter over a scripted sink                                 *)
(* ====================================================================================== *)

(* a destination that also remembers what it was offered and what it answered *)
Definition wres_row (offered : N) (r : wres) : list N :=
  match r with WOk n => [offered; 0; n] | WInterrupted => [offered; 1; 0] | WError => [offered; 2; 0] end.
Definition LogW (W : Wr) : Wr :=
  {| wr_st := wr_st W * list (list N);
     wr_write := fun s buf =>
       let '(w', r) := wr_write W (fst s) buf in ((w', snd s ++ [wres_row (len buf) r]), r) |}.

Definition sev_of (e : list N) : sev :=
  match e with
  | [0; k] => Accept k
  | [1] => AcceptZero
  | [2] => Interrupt
  | _ => Fail
  end.

Definition wares_code (r : wares) : N :=
  match r with WAOk => 0 | WAWriteZero => 1 | WAErr => 2 | WAFuel => 9 end.

(* the stack of the real run: PositionLayerWriter over (RawLayerWriter = identity over) the sink *)
Definition SinkStack : Wr := PosW (LogW SinkW).

(* mode 0: one Write::write_all per buffer       row [result; position()]
   mode 1: one Write::write per buffer           row [0; n; position()] / [1; 0; position()] (Interrupted) / [2; 0; position()]
   then the sink's log, one row [offered; outcome; accepted] per call it saw, then 8 :: its bytes *)
Fixpoint sink_bufs (mode : N) (fuel : nat) (s : wr_st SinkStack) (bufs : list bytes) : wr_st SinkStack * list (list N) :=
  match bufs with
  | [] => (s, [])
  | b :: r =>
    if mode =? 0 then
      let '(s', x) := write_all SinkStack fuel s b in
      let '(s2, rows) := sink_bufs mode fuel s' r in
      (s2, [wares_code x; snd s'] :: rows)
    else
      let '(s', x) := wr_write SinkStack s b in
      let '(s2, rows) := sink_bufs mode fuel s' r in
      (s2, (match x with WOk n => [0; n; snd s'] | WInterrupted => [1; 0; snd s'] | WError => [2; 0; snd s'] end) :: rows)
  end.

Definition c13_sinkrows (_ : consts) (mode : N) (sched : list (list N)) (bufs : list bytes) : list (list N) :=
  let fuel := S (length sched + N.to_nat (len (concat bufs))) in
  let s0 : wr_st SinkStack := ((mkSink [] (map sev_of sched), []), 0) in
  let '(s, rows) := sink_bufs mode fuel s0 bufs in
  rows ++ [[77]] ++ snd (fst s) ++ [8 :: sk_data (fst (fst s))].

(* ====================================================================================== *)
(* (d') the encryption layer WRITER over the scripted sink                                  *)
(* ====================================================================================== *)

(* What a layer writer hands down with inner.write_all goes through Sink.push_outs (the subject of
   C13_push_outs): `outs` = the value of ew_out after the call, `split` = the buffers of the call's
   inner.write_all calls — the tag of the chunk being closed (when the call renews the cipher:
   offset = CHUNK at a write, always at finalize) and then the ciphertext.  Schedules of Accept /
   Interrupt events only (write_all survives them: SinkProofs.write_all_sched).
   ops as c01_encw.  Rows:  write      [0; accepted; bytes in the sink; events left]
                            write_all / flush / finalize   [0; bytes in the sink; events left]
                            the last row 8 :: bytes in the sink *)
Section EncSink.
  Variables CH CB TG : N.
  Variable ks : N -> N -> N.
  Variable tagc : N -> bytes -> bytes.

  Definition es_split (renew : bool) (inc : bytes) : list bytes :=
    if renew then [takeN TG inc; dropN TG inc] else [inc].

  Definition es_write (fuel : nat) (st : ewstate * sink) (buf : bytes) : res (ewstate * sink * N) :=
    do r <- ew_write CH CB ks tagc (fst st) buf;
    let '(s', n) := r in
    match push_outs (es_split (ew_off (fst st) =? CH)) fuel (snd st) (ew_out (fst st)) [ew_out s'] with
    | (k', WAOk) => Ok (s', k', n)
    | _ => Err EIo
    end.

  Fixpoint es_write_all (fuel : nat) (st : ewstate * sink) (buf : bytes) : res (ewstate * sink) :=
    match buf with
    | [] => Ok st
    | _ =>
      match fuel with
      | O => Err EFuel
      | S fuel' =>
        do r <- es_write fuel st buf;
        let '(st', n) := r in
        if n =? 0 then Err EIo else es_write_all fuel' st' (dropN n buf)
      end
    end.

  Definition es_finalize (fuel : nat) (st : ewstate * sink) : res (ewstate * sink) :=
    do s' <- ew_finalize tagc (fst st);
    match push_outs (es_split false) fuel (snd st) (ew_out (fst st)) [ew_out s'] with
    | (k', WAOk) => Ok (s', k')
    | _ => Err EIo
    end.

  Definition es_row (st : ewstate * sink) : list N := [len (sk_data (snd st)); len (sk_sched (snd st))].

  Fixpoint es_ops (fuel : nat) (st : ewstate * sink) (ops : list (list N)) : list (list N) :=
    match ops with
    | [] => [8 :: sk_data (snd st)]
    | op :: rest =>
      match op with
      | 0 :: buf =>
        match es_write fuel st buf with
        | Ok (st', n) => (0 :: n :: es_row st') :: es_ops fuel st' rest
        | r => [[wr_code r]; 8 :: sk_data (snd st)]
        end
      | 1 :: buf =>
        match es_write_all fuel st buf with
        | Ok st' => (0 :: es_row st') :: es_ops fuel st' rest
        | r => [[wr_code r]; 8 :: sk_data (snd st)]
        end
      | [3] =>
        match es_finalize fuel st with
        | Ok st' => (0 :: es_row st') :: es_ops fuel st' rest
        | r => [[wr_code r]; 8 :: sk_data (snd st)]
        end
      | _ => (0 :: es_row st) :: es_ops fuel st rest
      end
    end.
End EncSink.

Definition c13_encsink (k : consts) (key nonce8 : bytes) (ntab : N) (sched : list (list N)) (ops : list (list N))
  : list (list N) :=
  let rk := Aes.aes256_expand key in
  let tab := gcm_tab rk nonce8 (cCHUNK k) (N.to_nat ntab) in
  let fuel := (ops_fuel ops + length sched + 32 * length ops)%nat in
  es_ops (cCHUNK k) (cCIPHERBUF k) (cTAG k) (gcm_ks tab) (gcm_tagc rk nonce8) fuel
         (ew_init, mkSink [] (map sev_of sched)) ops.
