(* CfgPrims.v — the fixed vocabulary of gen/Src3f.v (tools/src2v3_cfg.py, work package cfgT): what the
   translator maps the Rust constructs of the CONSTRUCTION paths (config.rs builders, the three
   `from_config`) to.  Part of the translator's trusted primitive table; definitions only.

     Result<T, E> whose error type is a source enum       cres E T   (COk / CErr / CCrash: a panic unwinds)
     `?` with `From<E> for F`                              cbind (cmap_err F_from_E r) k
     `?` on a callee that returns the model's `res`        cbind (cres_of wrap r) k   (wrap: err -> the source error)
     bitflags `Layers: u8` (bitflags 2.9, `from_bits_retain` semantics of | & contains; `!` TRUNCATES to the
     union of the named flags: public.rs `complement` = from_bits_truncate(!bits))
         a | b   N.lor        a & b   N.land      !a   flags_not ALL a = ALL & ~a       a.contains(b)   flags_contains
     Vec::is_empty, Vec::extend_from_slice(&[T]) (T: Clone)    vec_is_empty, app *)
From MLA Require Import Base.
Open Scope N_scope.

Inductive cres (E A : Type) :=
| COk (a : A)
| CErr (e : E)
| CCrash (site : N).
Arguments COk {E A} a.
Arguments CErr {E A} e.
Arguments CCrash {E A} site.

Definition cbind {E A B} (r : cres E A) (f : A -> cres E B) : cres E B :=
  match r with COk a => f a | CErr e => CErr e | CCrash s => CCrash s end.
Definition cmap_err {E F A} (g : E -> F) (r : cres E A) : cres F A :=
  match r with COk a => COk a | CErr e => CErr (g e) | CCrash s => CCrash s end.
Definition cmap {E A B} (g : A -> B) (r : cres E A) : cres E B :=
  match r with COk a => COk (g a) | CErr e => CErr e | CCrash s => CCrash s end.
(* a callee translated / modelled with the model's error type *)
Definition cres_of {E A} (wrap : err -> E) (r : res A) : cres E A :=
  match r with Ok a => COk a | Err e => CErr (wrap e) | Crash s => CCrash s end.
(* back to the model's result type, through an interpretation of the source errors *)
Definition to_res {E A} (interp : E -> err) (r : cres E A) : res A :=
  match r with COk a => Ok a | CErr e => Err (interp e) | CCrash s => Crash s end.

(* bitflags over u8 *)
Definition flags_contains (a b : N) : bool := N.land a b =? b.
Definition flags_not (all a : N) : N := N.ldiff all a.

Definition vec_is_empty {A} (l : list A) : bool := match l with [] => true | _ => false end.
Definition opt_is_none {A} (o : option A) : bool := match o with None => true | _ => false end.
