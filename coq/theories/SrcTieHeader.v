(* SrcTieHeader.v — Tie A for the header read/write call shapes (work package hdrsrc): the ORDER
   in which `ArchiveHeader::from` uses its source, as translated from /repo/mla/src/lib.rs by
   tools/src2v.py into gen/Src.v, is the order HeaderStream.read_header_s models:
     read_exact of MLA_MAGIC.len() bytes -> WrongMagic test -> read_u32 -> UnsupportedVersion test
     -> bincode with_limit(BINCODE_MAX_DESERIALIZE).with_fixint_encoding().deserialize_from(src)
     -> any failure = DeserializationError;
   the source is used exactly three times; `dump` writes magic, version, bounded fixint bincode.
   If the function is edited so that the translator no longer recognises it, gen/Src.v lacks
   HEADER_FROM_CALLS (…_untranslatable instead) and this file does not compile. *)
From MLA Require Import Base Format HeaderStream.
From MLAGen Require Src.
From Coq Require Import String.
Open Scope string_scope.

(* what HeaderStream.read_header_s / Archive.dump_header model, in order *)
Definition from_calls_model : list string :=
  ["read_exact(magic)"; "WrongMagic"; "read_u32"; "UnsupportedVersion";
   "with_limit(BINCODE_MAX_DESERIALIZE)"; "with_fixint_encoding"; "deserialize_from(src)";
   "else=>DeserializationError"].
Definition dump_calls_model : list string :=
  ["write_all(MLA_MAGIC)"; "write_u32"; "with_limit(BINCODE_MAX_DESERIALIZE)"; "with_fixint_encoding";
   "serialize_into(dest)"].

Lemma header_from_calls :
  Src.HEADER_FROM_CALLS = from_calls_model /\
  Src.HEADER_FROM_SRC_USES = 3%N /\
  Src.HEADER_DUMP_CALLS = dump_calls_model.
Proof. repeat split; reflexivity. Qed.

(* the sizes of the two fixed reads and the limit are the source's *)
Lemma header_read_sizes :
  len Src.MLA_MAGIC = 3%N /\ Src.MLA_MAGIC = MAGIC /\
  Src.MLA_FORMAT_VERSION_prod = VERSION /\ Src.MLA_FORMAT_VERSION_verif = VERSION /\
  Src.BINCODE_MAX_DESERIALIZE_prod = Src.BINCODE_MAX_DESERIALIZE_verif.
Proof. repeat split; reflexivity. Qed.
