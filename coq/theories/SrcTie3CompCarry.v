(* SrcTie3CompCarry.v — theorems of the model carried over to the TRANSLATED compress.rs (work package compT):
   the refinement (C11), usability after an error (C08) and the prefix property of the fail-safe reader (C02)
   hold of the code generated from the source, through the simulations of SrcTie3Comp.v / SrcTie3CompFs.v. *)
From MLA Require Import Limit.
From MLA Require Import Base Stream CompLayer CompLayerProofs CompFailSafe SrcTie3Comp SrcTie3CompFs.
From MLAGen Require Src3c.
From Coq Require Import ZifyBool ZifyNat ZifyN.
Open Scope N_scope.

(* C11: the TRANSLATED reader over any stream refining the canonical wire form is a cursor over the plaintext *)
Theorem C11_comp_reader_refines_src :
  forall BLOCK LIMIT : N, 0 < BLOCK -> BLOCK < 2 ^ 32 ->
  forall comp dec : bytes -> bytes, (forall x : bytes, dec (comp x) = x) ->
  forall (S : Stream) (plain : bytes) (s1 s2 s3 : N),
    12 + 4 * nblocks BLOCK (len plain) <= LIMIT /\ 12 + 4 * nblocks BLOCK (len plain) < 2 ^ 32 ->
    len plain < 2 ^ 63 ->
  forall Rin : st S -> N -> Prop,
    Refines S (comp_format BLOCK comp plain) Rin ->
    Refines (SrcCompReader BLOCK dec S s1 s2 s3) plain
      (fun x p => wf S x /\ Rcompn BLOCK comp S plain (nblocks BLOCK (len plain)) Rin (abs S x) p).
Proof.
  intros BLOCK LIMIT HB HB32 comp dec Hdc S plain s1 s2 s3 HL Hlen Rin Hin.
  apply (src_comp_reader_refines BLOCK dec S (fun s => (s, Ok tt)) s1 s2 s3 HB32 ltac:(lia) plain _ Hlen).
  exact (comp_reader_refines BLOCK LIMIT HB HB32 comp dec Hdc S plain HL Hlen Rin Hin).
Qed.

(* C08: after ANY failed read the translated reader is Empty or unchanged-and-usable exactly as the model says:
   its next results are the model's (the D11/D13 guards included), for every stream and argument *)
Theorem C08_comp_usable_after_error_src :
  forall BLOCK : N, BLOCK < 2 ^ 32 -> BLOCK <> 0 ->
  forall (dec : bytes -> bytes) (S : Stream) (s1 s2 s3 : N) (x : Src3c.Rd.CompressionLayerReader S) (n : N) (w : whence),
    wf S x -> i64_range w ->
    let '(x1, r1) := Src3c.Rd.comp_read BLOCK dec S s1 s2 s3 4 x n in
    let '(c1, r1') := cread BLOCK dec S (abs S x) n in
    r1 = r1' /\
    let '(x2, r2) := Src3c.Rd.comp_seek BLOCK dec S s1 495 529 186 2 x1 w in
    let '(c2, r2') := cseek BLOCK dec S c1 w in
    r2 = r2' /\ abs S x2 = c2.
Proof.
  intros BLOCK HB32 HB0 dec S s1 s2 s3 x n w Hw Hi.
  pose proof (comp_read_src BLOCK dec S s1 s2 s3 HB32 HB0 x n Hw) as H1.
  destruct (Src3c.Rd.comp_read BLOCK dec S s1 s2 s3 4 x n) as [x1 r1]. destruct H1 as [E1 Hw1].
  rewrite E1. split; [reflexivity|].
  pose proof (comp_seek_sim BLOCK dec S (fun s => (s, Ok tt)) s1 0 HB32 HB0 0 x1 w Hw1 Hi) as H2.
  destruct (Src3c.Rd.comp_seek BLOCK dec S s1 495 529 186 2 x1 w) as [x2 r2]. destruct H2 as [E2 _].
  rewrite E2. split; reflexivity.
Qed.

(* C02: whatever the translated fail-safe reader delivers, read after read, is what CompFailSafe.fs_read delivers
   (so every theorem about fs_read — prefix, maximality, monotonicity — is a theorem about the translated code) *)
Theorem C02_fs_comp_prefix_src :
  forall (BLOCK FSBUF : N) (dstate : Type) (dinit : dstate) (dstep : dstate -> bytes -> N -> dresult * N * bytes * dstate)
         (S : Stream) (site_index : N) (pass_fuel : nat),
    (forall s n s' d, rd S s n = (s', Ok d) -> len d <= n) ->
  forall (fuel : nat) x f n, R FSBUF dstate S x f ->
    let '(x', r) := Src3c.Fs.fs_read BLOCK FSBUF dstate dinit dstep S 1004 site_index 1053 (Datatypes.S (Datatypes.S pass_fuel)) fuel x n in
    let '(f', r') := fs_read BLOCK FSBUF dstate dinit dstep S fuel f n in
    r = r' /\ R FSBUF dstate S x' f'.
Proof. intros. apply fs_comp_read_sim; assumption. Qed.

(* ---------- non-vacuity: the translated code RUNS and delivers the plaintext ---------- *)
From MLA Require Import CompFailSafeToy.

(* reader: open (new + initialize) over a cursor on the canonical wire of 6 bytes in blocks of 4, read, seek, read *)
Example comp_reader_translated_nonvacuous :
  let wire := comp_format 4 toy_comp [1;2;3;4;5;6] in
  let Sx := Cursor wire in
  match Src3c.Rd.CompressionLayerReader_new Sx 0 with
  | Ok x0 =>
    let '(x1, r1) := Src3c.Rd.initialize 1000 Sx (fun s => (s, Ok tt)) (bincode_si Sx) x0 in
    let '(x2, r2) := Src3c.Rd.comp_read 4 toy_dec Sx 0 0 0 4 x1 10 in
    let '(x3, r3) := Src3c.Rd.comp_read 4 toy_dec Sx 0 0 0 4 x2 10 in
    let '(x4, r4) := Src3c.Rd.comp_seek 4 toy_dec Sx 0 495 529 186 2 x3 (FromEnd (-5)) in
    let '(x5, r5) := Src3c.Rd.comp_read 4 toy_dec Sx 0 0 0 4 x4 2 in
    (r1, r2, r3, r4, r5) = (Ok tt, Ok [1;2;3;4], Ok [5;6], Ok 1, Ok [2;3]) /\ wf Sx x1
  | _ => False
  end.
Proof. vm_compute. repeat split; reflexivity. Qed.

(* fail-safe reader: the toy streaming decoder over a cursor on two toy blocks, cache of 3 bytes *)
Example fs_reader_translated_nonvacuous :
  let wire := tcomp [7;8;9] ++ tcomp [10;11] in
  let Sx := Cursor wire in
  let rd_ := Src3c.Fs.fs_read 4 3 tstate tinit tstep Sx 1004 0 1053 2 20 in
  let '(x1, r1) := rd_ (Src3c.Fs.mkFSR tstate Sx (Src3c.Fs.Ready tstate Sx 0)) 10 in
  let '(x2, r2) := rd_ x1 10 in
  r1 = snd (fs_read 4 3 tstate tinit tstep Sx 20 (fs_new tstate Sx 0) 10) /\ r1 = Ok [7;8] /\ is_ok r2 = true.
Proof. vm_compute. repeat split; reflexivity. Qed.
