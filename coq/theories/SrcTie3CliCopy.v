(* SrcTie3CliCopy.v — `io::copy(&mut sub_file.data, &mut extracted_file)` of `mlar extract FILE..` (and cat,
   to-tar, convert) over the TRANSLATED reader (work package fixcli).

   std::io::copy (generic_copy / stack_buffer_copy) is: a buffer of DEFAULT_BUF_SIZE = 8 KiB; loop { read into
   it; Ok(0) => return; write_all what was read }.  It lives in std, not in /repo, so it is not translated: the
   loop is written here ONCE, by hand, over gen/Src3d.bfr_read — the translation of
   `impl Read for BlocksToFileReader` — and proved to deliver what Cli.io_copy (the same loop over the model's
   Reader.bread) delivers, by SrcTie3Reader.bfr_read_sim at every turn.  The fuel of the translated `read`'s
   inner loop (the D14 loop over foreign blocks and empty blocks) is not a premise: the offsets table is never
   changed by a read (SrcTie3ReaderRT.bread_offs), so the bound bfr_read_sim asks for is computed once from the
   reader handed in (`copy_fuel`).  What remains: the MODEL's copy did not end with "out of fuel" (EFuel).
   NOT modelled (as everywhere in Pool.v / Path.v): ErrorKind::Interrupted retries, a failing or partial
   File::write. *)
From MLA Require Import Base Stream Blocks Reader Cli SrcTie3Reader SrcTie3ReaderRT.
From MLAGen Require Src3d.
From Coq Require Import ZifyBool ZifyNat ZifyN.
Open Scope N_scope.

Section Copy.
  Variable S : Stream.
  Variables FNMAX TS TC TA TE : N.
  Variable site_index : N.

  Notation BFR := (Src3d.BlocksToFileReader S).
  Notation g_read := (Src3d.bfr_read S FNMAX TS TC TA TE site_index 1123).
  Notation m_bread := (bread FNMAX TS TC TA TE S).
  Notation m_io_copy := (io_copy FNMAX TS TC TA TE S).
  Notation rep := (rep S).

  (* std::io::copy over the translated `read`: F = fuel of the translated read's loop, fuel = turns of the
     copy loop; result: reader afterwards, bytes handed to the writer, how it ended *)
  Fixpoint g_io_copy (F fuel : nat) (x : BFR) (acc : bytes) : BFR * bytes * res unit :=
    match fuel with
    | O => (x, acc, Err EFuel)
    | Datatypes.S f =>
      match g_read F x 8192 with
      | (x', Ok []) => (x', acc, Ok tt)
      | (x', Ok d) => g_io_copy F f x' (acc ++ d)
      | (x', Err e) => (x', acc, Err e)
      | (x', Crash c) => (x', acc, Crash c)
      end
    end.

  (* enough fuel for every `read` of this reader, whatever zf the model is run with *)
  Definition copy_fuel (zf : nat) (x : BFR) : nat :=
    (Datatypes.S zf * Datatypes.S (Datatypes.S (length (Src3d.bfr_offsets S x))))%nat.

  (* the copy as `extract` / `cat` make it *)
  Definition g_copy (zf fuel : nat) (x : BFR) : BFR * bytes * res unit := g_io_copy (copy_fuel zf x) fuel x [].

  Lemma io_copy_sim zf F : forall fuel (bs : bstate S) acc,
    (Datatypes.S zf * Datatypes.S (Datatypes.S (length (b_offs bs))) <= F)%nat ->
    snd (m_io_copy zf fuel bs acc) <> Err EFuel ->
    let '(bs', d, x) := m_io_copy zf fuel bs acc in
    exists g', g_io_copy F fuel (rep bs) acc = (g', d, x) /\
               Src3d.bfr_src S g' = b_src bs' /\ (is_crash x = false -> g' = rep bs').
  Proof.
    induction fuel as [|f IH]; intros bs acc HF Hne; cbn [io_copy g_io_copy] in *; [exfalso; apply Hne; reflexivity|].
    pose proof (bread_offs S FNMAX TS TC TA TE zf bs 8192) as Ho.
    pose proof (bfr_read_sim S FNMAX TS TC TA TE site_index zf F bs 8192 HF) as Hs.
    destruct (m_bread zf bs 8192) as [bs1 [dd|e|c]] eqn:Eb; cbn [fst snd] in *.
    - destruct (Hs ltac:(discriminate)) as (H1 & H2 & H3).
      destruct (g_read F (rep bs) 8192) as [x1 r1]. cbn [fst snd] in *. subst r1. rewrite (H3 eq_refl) in *.
      destruct dd as [|y dd].
      + exists (rep bs1). repeat split.
      + apply IH; [rewrite Ho; exact HF | exact Hne].
    - assert (He : Err e <> @Err bytes EFuel) by (intros [= ->]; apply Hne; reflexivity).
      destruct (Hs He) as (H1 & H2 & H3).
      destruct (g_read F (rep bs) 8192) as [x1 r1]. cbn [fst snd] in *. subst r1.
      exists x1. split; [reflexivity|]. split; [exact H2|]. intros _. exact (H3 eq_refl).
    - destruct (Hs ltac:(discriminate)) as (H1 & H2 & H3).
      destruct (g_read F (rep bs) 8192) as [x1 r1]. cbn [fst snd] in *. subst r1.
      exists x1. split; [reflexivity|]. split; [exact H2|]. discriminate.
  Qed.

  (* the copy of `extract`: no premise on the inner fuel *)
  Theorem g_copy_sim zf fuel (bs : bstate S) :
    snd (m_io_copy zf fuel bs []) <> Err EFuel ->
    let '(bs', d, x) := m_io_copy zf fuel bs [] in
    exists g', g_copy zf fuel (rep bs) = (g', d, x) /\
               Src3d.bfr_src S g' = b_src bs' /\ (is_crash x = false -> g' = rep bs').
  Proof. intros Hne. unfold g_copy, copy_fuel. apply io_copy_sim; [apply Nat.le_refl | exact Hne]. Qed.
End Copy.
