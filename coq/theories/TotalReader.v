(* TotalReader.v — C08, parts 3 and 4: get_hash, get_file, BlocksToFileReader::read and
   linear extraction over any tame stream, from ANY reader state (arbitrary footer: offsets,
   sizes, eof positions chosen by an attacker, duplicate names, empty offset lists), any name,
   any buffer size: a value or an error, never a Crash site, never out of fuel.  The skip loop
   of `read` runs at most (number of offsets + 1) times; between two skips it steps over at
   most `remaining` empty content blocks (each consumes bytes of the stream: zf > M always
   suffices); every iteration of the linear extraction loop consumes at least one byte of the
   stream. *)
From MLA Require Import Limit.
From MLA Require Import Base Stream Blocks Reader Total.
From Coq Require Import ZifyBool ZifyNat ZifyN.
Open Scope N_scope.

Ltac fin := repeat split; auto; try (apply total_err; assumption); try discriminate; try (intros; discriminate).

Section ReaderTotal.
  Context {LIM : Limit}.
  Variable FNMAX : N.
  Variables T_START T_CONTENT T_EOA T_EOF : N.
  Variable S : Stream.
  Variable I : st S -> Prop.
  Variable pos : st S -> N.
  Variable M : N.
  Hypothesis HT : Tame S I pos M.

  Notation parse_block := (parse_block FNMAX T_START T_CONTENT T_EOA T_EOF S).
  Notation get_hash := (get_hash FNMAX T_START T_CONTENT T_EOA T_EOF S).
  Notation get_file := (get_file FNMAX T_START T_CONTENT T_EOA T_EOF S).
  Notation bread := (bread FNMAX T_START T_CONTENT T_EOA T_EOF S).
  Notation bread_ready := (bread_ready FNMAX T_START T_CONTENT T_EOA T_EOF S).
  Notation next_block := (next_block FNMAX T_START T_CONTENT T_EOA T_EOF S).
  Notation lx_loop := (lx_loop FNMAX T_START T_CONTENT T_EOA T_EOF S).
  Notation remaining := (remaining S pos M).
  Notation linear_extract := (linear_extract FNMAX T_START T_CONTENT T_EOA T_EOF S).

  Let pbt := parse_block_tame S I pos M HT FNMAX T_START T_CONTENT T_EOA T_EOF.

  Theorem get_hash_tame r name : I (r_src r) ->
    let '(r', x) := get_hash r name in
    I (r_src r') /\ r_meta r' = r_meta r /\ total x.
  Proof.
    intros Hr. unfold Reader.get_hash.
    destruct (flookup (r_meta r) name) as [fi|]; [|repeat split; auto].
    pose proof (tame_sk _ _ _ _ HT (r_src r) (FromStart (fi_eof fi)) Hr) as H1.
    destruct (sk S (r_src r) (FromStart (fi_eof fi))) as [s1 [q|e|c]]; [| |contradiction].
    - destruct H1 as [Hs1 _]. pose proof (pbt s1 Hs1) as H2.
      destruct (parse_block s1) as [s2 [pb|e|c]]; [| |contradiction].
      + destruct H2 as [Hs2 _]. destruct pb; cbn [r_src r_meta]; repeat split; auto.
      + destruct H2 as [Hs2 He]. cbn [r_src r_meta]. fin.
    - destruct H1 as [Hs1 He]. cbn [r_src r_meta]. fin.
  Qed.

  Theorem get_file_tame r name : I (r_src r) ->
    let '(r', x) := get_file r name in
    I (r_src r') /\ r_meta r' = r_meta r /\ total x /\
    (forall b size, x = Ok (Some (b, size)) -> I (b_src b) /\ b_src b = r_src r' /\ b_offs b <> []).
  Proof.
    intros Hr. unfold Reader.get_file.
    destruct (flookup (r_meta r) name) as [fi|]; [|fin].
    destruct (fi_offsets fi) as [|o0 offs] eqn:Eo; [fin|].
    pose proof (tame_sk _ _ _ _ HT (r_src r) (FromStart o0) Hr) as H1.
    destruct (sk S (r_src r) (FromStart o0)) as [s1 [q|e|c]]; [| |contradiction].
    - destruct H1 as [Hs1 _]. pose proof (pbt s1 Hs1) as H2.
      destruct (parse_block s1) as [s2 [pb|e|c]]; [| |contradiction].
      + destruct H2 as [Hs2 _].
        destruct pb as [id nm|id l|id h|]; cbn [r_src r_meta];
          (split; [exact Hs2|]; split; [reflexivity|]; split; [exact Logic.I|]); try (intros; discriminate).
        intros b size E. injection E as <- _. cbn [b_src b_offs].
        split; [exact Hs2|]. split; [reflexivity|discriminate].
      + destruct H2 as [Hs2 He]. cbn [r_src r_meta]. fin.
    - destruct H1 as [Hs1 He]. cbn [r_src r_meta]. fin.
  Qed.

  (* what every read result satisfies *)
  Definition bread_post (b : bstate S) (n : N) (out : bstate S * res bytes) : Prop :=
    let '(b', x) := out in
    I (b_src b') /\ b_offs b' = b_offs b /\ b_id b' = b_id b /\ total x /\
    (forall d, x = Ok d -> len d <= n).

  Lemma bread_data_tame b0 b s rem n : I s -> b_offs b = b_offs b0 -> b_id b = b_id b0 ->
    bread_post b0 n (bread_data S b s rem n).
  Proof.
    intros Hs Eo Ei. unfold bread_data, bread_post.
    pose proof (tame_rd _ _ _ _ HT s (N.min rem n) Hs) as H1.
    destruct (rd S s (N.min rem n)) as [s1 [d|e|c]]; [| |contradiction].
    - destruct H1 as (Hs1 & Hl & _).
      destruct (N.ltb_spec rem (len d)) as [?|_]; [lia|].
      cbn [bset b_src b_offs b_id]. repeat split; auto. intros d' E; injection E as <-. lia.
    - destruct H1 as [Hs1 He]. cbn [bset b_src b_offs b_id]. fin.
  Qed.

  (* stepping over empty content blocks: every block parsed consumes at least one byte of
     what remains of the stream, so with remaining < zf the fuel never runs out; the result
     is as tame as a single parse_block *)
  Lemma next_block_tame zf : forall id s, I s -> (N.to_nat (remaining s) < zf)%nat ->
    match next_block zf id s with
    | (s', Ok _) => I s' /\ pos s + 1 <= pos s' /\ pos s' <= M
    | (s', Err e) => I s' /\ e <> EFuel
    | (_, Crash _) => False
    end.
  Proof.
    induction zf as [|zf IH]; intros id s Hs Hz; [lia|].
    cbn [Reader.next_block].
    pose proof (pbt s Hs) as H1.
    pose proof (parse_block_progress S I pos M HT FNMAX T_START T_CONTENT T_EOA T_EOF s Hs) as H2.
    destruct (parse_block s) as [s1 [pb|e|c]]; [|exact H1|exact H1].
    destruct pb as [i nm|i l|i h|]; try exact H1.
    destruct ((i =? id) && (l =? 0)); [|exact H1].
    destruct H1 as (Hs1 & Hp1 & _).
    specialize (IH id s1 Hs1 ltac:(lia)).
    destruct (next_block zf id s1) as [s2 [pb|e|c]]; [|exact IH|exact IH].
    destruct IH as (Hs2 & Hp2 & HM2). repeat split; auto; lia.
  Qed.

  (* the skip loop: with 2 <= fuel and |offsets| < fuel + current_offset it never runs out
     (each skip increments current_offset, which must stay below |offsets|); a skip may seek
     backwards, so the bound on empty blocks is per run: M < zf *)
  Lemma bread_ready_tame fuel zf : forall b n, I (b_src b) ->
    (2 <= fuel)%nat -> (length (b_offs b) < fuel + b_cur b)%nat -> (N.to_nat M < zf)%nat ->
    bread_post b n (bread_ready fuel zf b n).
  Proof.
    induction fuel as [|fuel IH]; intros b n Hb Hf Hlen Hzf; [lia|].
    cbn [Reader.bread_ready].
    pose proof (next_block_tame zf (b_id b) (b_src b) Hb ltac:(unfold remaining; lia)) as H1.
    destruct (next_block zf (b_id b) (b_src b)) as [s1 [pb|e|c]]; [| |contradiction].
    2:{ destruct H1 as [Hs1 He]. unfold bread_post. cbn [bset b_src b_offs b_id].
        fin. }
    destruct H1 as [Hs1 _].
    (* the skip branch *)
    assert (Hskip : bread_post b n
      (match bmove S (bset S b s1 BReady) with
       | (b2, Ok _) => bread_ready fuel zf b2 n
       | (b2, Err e) => (b2, Err e)
       | (b2, Crash c) => (b2, Crash c)
       end)).
    { unfold bmove. cbn [bset b_src b_offs b_id b_cur b_mode].
      destruct (nth_error (b_offs b) (Datatypes.S (b_cur b))) as [o|] eqn:En.
      - pose proof (tame_sk _ _ _ _ HT s1 (FromStart o) Hs1) as H2.
        destruct (sk S s1 (FromStart o)) as [s2 [q|e|c]]; [| |contradiction].
        + destruct H2 as [Hs2 _].
          assert (Hc : (Datatypes.S (b_cur b) < length (b_offs b))%nat)
            by (apply nth_error_Some; rewrite En; discriminate).
          specialize (IH (mkB s2 BReady (b_id b) (Datatypes.S (b_cur b)) (b_offs b)) n).
          cbn [b_src b_offs b_cur b_id] in IH.
          specialize (IH Hs2 ltac:(lia) ltac:(lia) Hzf).
          unfold bread_post in *.
          destruct (bread_ready fuel zf (mkB s2 BReady (b_id b) (Datatypes.S (b_cur b)) (b_offs b)) n) as [b' x].
          cbn [b_offs b_id] in IH. exact IH.
        + destruct H2 as [Hs2 He]. unfold bread_post. cbn [b_src b_offs b_id].
          fin.
      - unfold bread_post. cbn [b_src b_offs b_id]. fin. }
    destruct fuel as [|fuel'].
    { (* fuel exhausted exactly here is impossible: the bound forces the offsets to be used up *)
      destruct pb as [id name|id l|id h|];
        try (destruct (id =? b_id b)); try (apply bread_data_tame; [exact Hs1|reflexivity|reflexivity]);
        unfold bread_post; cbn [bset b_src b_offs b_id]; try (fin; fail).
      all: exfalso; lia. }
    destruct pb as [id name|id l|id h|].
    - destruct (id =? b_id b); [|exact Hskip].
      unfold bread_post. cbn [bset b_src b_offs b_id]. fin.
    - destruct (id =? b_id b); [|exact Hskip]. apply bread_data_tame; [exact Hs1|reflexivity|reflexivity].
    - destruct (id =? b_id b); [|exact Hskip].
      unfold bread_post. cbn [bset b_src b_offs b_id]. repeat split; auto.
      intros d E; injection E as <-. rewrite len_nil. lia.
    - unfold bread_post. cbn [bset b_src b_offs b_id]. fin.
  Qed.

  (* C08 item 3: Read::read of a file reader, from any state with a non-empty offset list
     (get_file refuses an empty one; `read` never changes the list) *)
  Theorem bread_tame zf b n : I (b_src b) -> b_offs b <> [] -> (N.to_nat M < zf)%nat ->
    bread_post b n (bread zf b n).
  Proof.
    intros Hb Hne Hzf. unfold Reader.bread. destruct (b_mode b) as [|rem|].
    - assert (0 < length (b_offs b))%nat by (destruct (b_offs b); [congruence|cbn; lia]).
      apply bread_ready_tame; [exact Hb|lia|lia|exact Hzf].
    - apply bread_data_tame; [exact Hb|reflexivity|reflexivity].
    - unfold bread_post. repeat split; auto. intros d E; injection E as <-. rewrite len_nil. lia.
  Qed.

  (* ---------- linear extraction ---------- *)

  Lemma copy_take_tame fuel : forall s l acc, I s -> (N.to_nat (remaining s) < fuel)%nat ->
    match copy_take S fuel s l acc with
    | (s', Ok _) => I s' /\ remaining s' <= remaining s
    | (_, Err e) => e <> EFuel
    | (_, Crash _) => False
    end.
  Proof.
    induction fuel as [|fuel IH]; intros s l acc Hs Hf; [lia|].
    cbn [copy_take]. destruct (l =? 0); [split; [exact Hs|lia]|].
    pose proof (tame_rd _ _ _ _ HT s (N.min l 8192) Hs) as H1.
    destruct (rd S s (N.min l 8192)) as [s1 [d|e|c]]; [|exact (proj2 H1)|exact H1].
    destruct H1 as (Hs1 & Hl & Hp & HM).
    destruct (N.eqb_spec (len d) 0) as [Hz|Hz]; [split; [exact Hs1|unfold remaining; lia]|].
    specialize (HM Hz).
    destruct (N.ltb_spec l (len d)) as [?|_]; [lia|].
    assert (Hrem : remaining s1 + len d = remaining s) by (unfold remaining; lia).
    specialize (IH s1 (l - len d) (acc ++ d) Hs1 ltac:(lia)).
    destruct (copy_take S fuel s1 (l - len d) (acc ++ d)) as [s2 [r|e|c]]; auto.
    destruct IH as [Hs2 Hr]. split; [exact Hs2|lia].
  Qed.

  Lemma lx_loop_tame fuel : forall s export ids acc, I s -> (N.to_nat (remaining s) < fuel)%nat ->
    total (lx_loop fuel s export ids acc).
  Proof.
    induction fuel as [|fuel IH]; intros s export ids acc Hs Hf; [lia|].
    cbn [Reader.lx_loop].
    pose proof (pbt s Hs) as H1.
    pose proof (parse_block_progress S I pos M HT FNMAX T_START T_CONTENT T_EOA T_EOF s Hs) as H2.
    destruct (parse_block s) as [s1 [pb|e|c]]; [|apply total_err, H1|exact H1].
    destruct H1 as [Hs1 _].
    destruct pb as [id name|id l|id h|].
    - apply IH; [exact Hs1|lia].
    - pose proof (copy_take_tame (Datatypes.S fuel) s1 l [] Hs1 ltac:(lia)) as H3.
      destruct (copy_take S (Datatypes.S fuel) s1 l []) as [s2 [d|e|c]]; [|apply total_err, H3|exact H3].
      destruct H3 as [Hs2 Hr].
      destruct (id_lookup ids id); apply IH; try exact Hs2; lia.
    - apply IH; [exact Hs1|lia].
    - exact Logic.I.
  Qed.

  (* C08 item 4: every iteration consumes at least one byte, so fuel > M always suffices *)
  Theorem linear_extract_tame fuel r export : I (r_src r) -> (N.to_nat M < fuel)%nat ->
    total (linear_extract fuel r export).
  Proof.
    intros Hr Hf. unfold Reader.linear_extract.
    pose proof (tame_sk _ _ _ _ HT (r_src r) (FromStart 0) Hr) as H1.
    destruct (sk S (r_src r) (FromStart 0)) as [s1 [q|e|c]]; [|apply total_err, H1|exact H1].
    destruct H1 as [Hs1 Hp]. apply lx_loop_tame; [exact Hs1|].
    unfold remaining. lia.
  Qed.
End ReaderTotal.
