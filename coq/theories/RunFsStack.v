(* RunFsStack.v — Tie B entry points: repair (ArchiveFailSafeReader::convert_to_archive) of
   archives whose layer stack contains the COMPRESS layer, the way from_config stacks the
   fail-safe readers:

     repair_comp      repair ∘ CompressionLayerFailSafeReader ∘ RawLayerFailSafeReader ∘ Cursor
     repair_comp_enc  repair ∘ CompressionLayerFailSafeReader ∘ EncryptionLayerFailSafeReader
                      ∘ RawLayerFailSafeReader ∘ Cursor      (concrete AES-256-GCM, both modes)

   Same row encoding as Run.repair_run / repair_plain / repair_enc: [status; #unfinished],
   the unfinished names sorted, [88], then the repaired (layer-less) archive re-read by the
   reader model (list, hash and full read of every file).

   The decompressor is FsCompStream.FsComp (the model of read / read_pass of
   CompressionLayerFailSafeReader, CompFailSafe.v) with the GREEDY table-driven decoder
   instance of RunFsComp.v: brotli is not re-implemented, the harness tabulates it per case.
   `tab` / `tail` are the tables of the compression-layer stream of the FULL (uncut) archive
   ([c; p; cnt] per compressed block, cnt[L] for EVERY prefix length L of c; [tail; [fail_at]]
   for the SizesInfo footer), obtained without mla (sizes table of the layer's footer, the
   brotli crate driven directly; the encryption layer removed with the aes-gcm crate).  `body`
   = the archive bytes after the header, cut at the cut point: whatever the layers below
   deliver from it is a prefix of the stream that was tabulated (in unauthenticated mode a cut
   inside the tag of the last, short chunk makes the decryptor deliver a few bytes beyond it:
   they follow the footer, where the repair loop never reads).

   The real decoder's emission schedule (how many bytes one BrotliDecompressStream call
   hands out) differs from the greedy one.  CompFailSafeProofs.fs_comp_sched_indep: the total
   output of the reader does not depend on it; ComposeFsComp.repair_fscomp_exact: the repair
   loop over the reader returns the output archive and the unfinished list of the repair loop
   over a cursor on fs_spec D bs w, for any decoder step meeting the DecoderLaws — so the
   rows compared here do not depend on the schedule.  Definitions only. *)
From MLA Require Import Limit.
From MLAGen Require Src.
(* executable entry points: the production value of BINCODE_MAX_DESERIALIZE (the same in both flavours), file-local *)
#[local] Instance RUN_LIMIT : Limit := MLAGen.Src.BINCODE_MAX_DESERIALIZE_prod.
From MLA Require Import Base Stream EncLayer Inst InstGcm CompFailSafe Run RunFsComp FsCompStream.
From MLA.Concrete Require Aes.
Open Scope N_scope.

(* total plaintext of the tabulated blocks: bounds the bytes the repair loop can be given *)
Definition tab_plain_len (tab : list (list bytes)) : N :=
  fold_right (fun e a => len (ent_p e) + a) 0 tab.

(* CompressionLayerFailSafeReader over the stream S; pfuel = passes of one Read::read *)
Definition FsC (k : consts) (tab : list (list bytes)) (tail : list bytes) (pfuel : nat) (S : Stream) : Stream :=
  FsComp (cBLOCK k) (cFSBUF k) gstate ginit (gstep tab tail) pfuel S.

Definition stack_fuel (tab : list (list bytes)) : nat := N.to_nat (tab_plain_len tab + 16).
Definition stack_pfuel (body : bytes) : nat := N.to_nat (2 * len body + 3).

Definition repair_comp (k : consts) (tab : list (list bytes)) (tail : list bytes) (body : bytes)
    : list (list N) :=
  let S := Cursor body in
  repair_run k (FsC k tab tail (stack_pfuel body) S) (stack_fuel tab) (@FReady gstate S 0).

Definition repair_comp_enc (k : consts) (key nonce8 : bytes) (tab : list (list bytes)) (tail : list bytes)
    (body : bytes) (unauth : N) : list (list N) :=
  let rk := Aes.aes256_expand key in
  let CH := cCHUNK k in let TG := cTAG k in
  let nchunks := N.to_nat (len body / (CH + TG) + 2) in
  let gt := gcm_tab rk nonce8 CH nchunks in
  let ks := gcm_ks gt in let tagc := gcm_tagc rk nonce8 in
  match fs_open CH TG ks (Cursor body) 0 with
  | (s, Ok _) =>
    let S := FsEnc CH TG ks tagc (unauth =? 1) (Cursor body) in
    repair_run k (FsC k tab tail (stack_pfuel body) S) (stack_fuel tab) (@FReady gstate S s)
  | (_, Err _) => [[1]]
  | (_, Crash _) => [[2]]
  end.

(* sanity: no block, empty body — the decompressor reports the end of the stream at once and
   the repair loop stops on the missing block tag with an empty (finalized) output archive *)
Example repair_comp_empty :
  exists st, repair_comp consts_verif [] [[]; [1]] [] = [st; 0] :: [[88]; [0]; [88]].
Proof. eexists. vm_compute. reflexivity. Qed.
