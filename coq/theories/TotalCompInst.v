(* TotalCompInst.v — C08, part 8': the compression reader stacked on the layers below it.
   - over the cursor on ANY bytes (compression only);
   - over the encryption reader over the cursor on ANY bytes (comp ∘ enc ∘ cursor);
   and what reads above it (block parser, repair) through RdOnly: these clients call `rd`
   only, and their definitions over RdOnly X are the very same terms as over X. *)
From MLA Require Import Limit.
From MLA Require Import Base Stream Blocks Writer Repair EncLayer CompLayer Total TotalEnc TotalComp TotalRepair.
From Coq Require Import ZifyBool ZifyNat ZifyN.
Open Scope N_scope.

(* the clients that only read do not see the difference *)
Lemma parse_block_rdonly FNMAX TS TC TA TE (S : Stream) (s : st S) :
  parse_block FNMAX TS TC TA TE (RdOnly S) s = parse_block FNMAX TS TC TA TE S s.
Proof. reflexivity. Qed.

Section CompStack.
  Variables BLOCK LIMIT : N.
  Local Hint Extern 0 Limit => exact LIMIT : typeclass_instances.
  Variable dec : bytes -> bytes.
  Hypothesis HB : 0 < BLOCK.

  (* ----- compression over the cursor ----- *)
  Section OverCursor.
    Variable w : bytes.
    Notation C := (CompReader BLOCK dec (Cursor w)).
    Notation IC := (Icomp BLOCK (Cursor w) (fun _ => True)).

    Theorem comp_cursor_open_total p :
      match comp_open LIMIT (Cursor w) (fun i => (i, Ok tt)) p with
      | (c', Ok _) => exists si, IC si (c_pos c') c' /\
                                 4 * len (si_sizes si) + 12 <= LIMIT /\ 4 * len (si_sizes si) + 12 <= len w
      | (c', Err e) => c_si c' = None /\ e <> EFuel
      | (_, Crash _) => False
      end.
    Proof.
      pose proof (comp_open_tame BLOCK LIMIT dec (Cursor w) (fun _ => True) (fun s => s) (len w) (cursor_tame w) HB
                    (fun i => (i, Ok tt)) (fun i _ => Logic.I) p Logic.I) as H.
      destruct (comp_open LIMIT (Cursor w) (fun i => (i, Ok tt)) p) as [c' [u|e|x]]; [exact H| |exact H].
      destruct H as (_ & H2 & H3). auto.
    Qed.

    Theorem comp_cursor_read_total si P0 c n : IC si P0 c ->
      rd_post BLOCK (Cursor w) (fun _ => True) si P0 c n (cread BLOCK dec (Cursor w) c n).
    Proof. apply (cread_total BLOCK dec (Cursor w) (fun _ => True) (fun s => s) (len w) (cursor_tame w) HB). Qed.

    Theorem comp_cursor_seek_total si P0 c wh : IC si P0 c -> seek_arg_ok (Cursor w) c wh ->
      match cseek BLOCK dec (Cursor w) c wh with
      | (c', Ok q) => IC si P0 c' /\ c_pos c' = q /\ (forall p, wh = FromStart p -> q = p)
      | (c', Err e) => IC si P0 c' /\ e <> EFuel
      | (_, Crash _) => False
      end.
    Proof. apply (cseek_total BLOCK dec (Cursor w) (fun _ => True) (fun s => s) (len w) (cursor_tame w) HB). Qed.
  End OverCursor.

  (* ----- comp ∘ enc ∘ cursor ----- *)
  Section OverEnc.
    Variables CHUNK TAG : N.
    Variable ks : N -> N -> N.
    Variable tagc : N -> bytes -> bytes.
    Variable w : bytes.
    Hypothesis HC : 0 < CHUNK.
    Hypothesis HM : len w < 2 ^ 32 * CHUNK.
    (* CHUNK_SIZE <= 2^31: the encryption reader's SeekFrom::Current arm cannot panic (TotalEnc.eseek_tame) *)
    Hypothesis HC31 : CHUNK <= 2 ^ 31.

    Notation E := (EncReader CHUNK TAG ks tagc (Cursor w)).
    Notation IE := (Ienc CHUNK (Cursor w) (fun _ => True) (fun s => s) (len w)).
    Notation IC := (Icomp BLOCK E IE).

    Let HE : Tame E IE (pos_enc CHUNK (Cursor w)) (len w) :=
      enc_reader_tame CHUNK TAG ks tagc (Cursor w) (fun _ => True) (fun s => s) (len w)
        (cursor_tame_inner w) HC HM HC31.

    (* EncryptionLayerReader::initialize: rewind *)
    Definition enc_init0 (e : st E) : st E * res unit :=
      match eseek_start CHUNK TAG ks tagc (Cursor w) e 0 with
      | (e', Ok _) => (e', Ok tt)
      | (e', Err x) => (e', Err x)
      | (e', Crash x) => (e', Crash x)
      end.

    Lemma enc_init0_tame e : IE e ->
      match enc_init0 e with
      | (e', Ok _) => IE e'
      | (e', Err x) => IE e' /\ x <> EFuel
      | (_, Crash _) => False
      end.
    Proof.
      intros He. unfold enc_init0.
      pose proof (eseek_start_tame CHUNK TAG ks tagc (Cursor w) (fun _ => True) (fun s => s) (len w)
                    (cursor_tame_inner w) HC HM e 0 He) as H.
      destruct (eseek_start CHUNK TAG ks tagc (Cursor w) e 0) as [e' [q|x|x]]; [exact (proj1 H)|exact H|exact H].
    Qed.

    (* new + initialize of the compression layer over the (not yet initialised) decryptor *)
    Theorem comp_enc_open_total :
      match comp_open LIMIT E enc_init0 (@mkE (Cursor w) 0 [] 0 0) with
      | (c', Ok _) => exists si, IC si (c_pos c') c' /\
                                 4 * len (si_sizes si) + 12 <= LIMIT /\ 4 * len (si_sizes si) + 12 <= len w
      | (c', Err e) => c_si c' = None /\ e <> EFuel
      | (_, Crash _) => False
      end.
    Proof.
      assert (H0 : IE (@mkE (Cursor w) 0 [] 0 0)).
      { unfold Ienc. cbn [e_in e_cache e_cpos e_chunk]. change (len (@nil N)) with 0.
        repeat split; try lia; exact Logic.I. }
      pose proof (comp_open_tame BLOCK LIMIT dec E IE _ (len w) HE HB enc_init0 enc_init0_tame (@mkE (Cursor w) 0 [] 0 0) H0) as H.
      destruct (comp_open LIMIT E enc_init0 (@mkE (Cursor w) 0 [] 0 0)) as [c' [u|e|x]]; [exact H| |exact H].
      destruct H as (_ & H2 & H3). auto.
    Qed.

    Theorem comp_enc_read_total si P0 c n : IC si P0 c ->
      rd_post BLOCK E IE si P0 c n (cread BLOCK dec E c n).
    Proof. apply (cread_total BLOCK dec E IE _ (len w) HE HB). Qed.

    Theorem comp_enc_seek_total si P0 c wh : IC si P0 c -> seek_arg_ok E c wh ->
      match cseek BLOCK dec E c wh with
      | (c', Ok q) => IC si P0 c' /\ c_pos c' = q /\ (forall p, wh = FromStart p -> q = p)
      | (c', Err e) => IC si P0 c' /\ e <> EFuel
      | (_, Crash _) => False
      end.
    Proof. apply (cseek_total BLOCK dec E IE _ (len w) HE HB). Qed.

    (* the whole stack is tame for reading: position c_pos, bound max_uncompressed_pos *)
    Theorem comp_enc_stack_tame si P0 :
      Tame (RdOnly (CompReader BLOCK dec E)) (IC si P0) (@c_pos E) (si_max BLOCK si).
    Proof. apply (comp_rdonly_tame BLOCK dec E IE _ (len w) HE HB). Qed.

    (* hence the block parser above the stack is total ... *)
    Corollary comp_enc_parse_block_total FNMAX TS TC TA TE si P0 c : IC si P0 c ->
      match parse_block FNMAX TS TC TA TE (CompReader BLOCK dec E) c with
      | (c', Ok _) => IC si P0 c' /\ c_pos c + 1 <= c_pos c' /\ c_pos c' <= si_max BLOCK si
      | (c', Err e) => IC si P0 c' /\ e <> EFuel
      | (_, Crash _) => False
      end.
    Proof.
      intros Hc. rewrite <- parse_block_rdonly.
      exact (parse_block_tame _ _ _ _ (comp_enc_stack_tame si P0) FNMAX TS TC TA TE c Hc).
    Qed.
  End OverEnc.
End CompStack.
