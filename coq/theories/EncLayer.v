(* EncLayer.v — model of mla/src/layers/encrypt.rs (definitions only; proofs in EncLayerProofs.v)

   Parametric in the size constants and in the cipher, which enters as
     ks   : chunk counter -> byte offset in the chunk -> keystream byte   (AES-CTR)
     tagc : chunk counter -> ciphertext of the chunk -> tag               (GHASH + E(J0))
   so that "encrypt" = "decrypt" = xor with the keystream, as in the code.

   The reader is a functor over an inner Stream (RawLayerReader / any LayerReader). *)
From MLA Require Import Base Stream.
Open Scope N_scope.

Section Enc.
  Variables CHUNK TAG CIPHERBUF : N.
  Variable ks : N -> N -> N.
  Variable tagc : N -> bytes -> bytes.

  Definition CTS : N := CHUNK + TAG.                    (* CHUNK_TAG_SIZE *)

  (* encrypt.rs:588-600 — position kernels (also regenerated from the source, gen/Src.v) *)
  Definition notag2tag (p : N) : N := (p / CHUNK) * CTS + p mod CHUNK.
  Definition tag2notag (p : N) : N := (p / CTS) * CHUNK + N.min (p mod CTS) CHUNK.

  (* encrypt.rs:525-528 after the D9 repair: plaintext end position from the inner length *)
  Definition end_pos_of_inner (end_inner : N) : res N :=
    let cur_chunk := end_inner / CTS in
    let cur_chunk_pos := end_inner mod CTS in
    if cur_chunk_pos =? 0 then Ok (cur_chunk * CHUNK)
    else if cur_chunk_pos <? TAG then Err EInval
    else Ok (cur_chunk * CHUNK + (cur_chunk_pos - TAG)).

  Fixpoint xor_from (i off : N) (data : bytes) : bytes :=
    match data with
    | [] => []
    | x :: r => N.lxor x (ks i off) :: xor_from i (off + 1) r
    end.

  (* one chunk on the wire: ciphertext followed by its tag *)
  Definition chunk_enc (i : N) (pt : bytes) : bytes :=
    let ct := xor_from i 0 pt in ct ++ tagc i ct.

  (* ---------- the format: what a finalized writer leaves in the inner layer ---------- *)

  (* n = number of chunks that are followed by another chunk *)
  Fixpoint enc_from (n : nat) (i : N) (plain : bytes) : bytes :=
    match n with
    | O => chunk_enc i plain
    | S n' => chunk_enc i (takeN CHUNK plain) ++ enc_from n' (i + 1) (dropN CHUNK plain)
    end.
  Definition nfull (l : N) : N := (l - 1) / CHUNK.
  Definition enc_format (plain : bytes) : bytes :=
    enc_from (N.to_nat (nfull (len plain))) 0 plain.

  (* ---------- writer (encrypt.rs:203-294) ---------- *)

  Record ewstate := mkEW {
    ew_out : bytes;        (* everything handed to the inner writer (write_all) *)
    ew_ctr : N;            (* current_ctr *)
    ew_off : N;            (* current_chunk_offset *)
    ew_cur : bytes;        (* ciphertext of the current chunk so far (what GHASH has absorbed) *)
  }.
  Definition ew_init : ewstate := mkEW [] 0 0 [].

  (* renew_cipher + write of the old tag *)
  Definition ew_renew (s : ewstate) : res ewstate :=
    if 2 ^ 32 <=? ew_ctr s + 1 then Crash 228   (* current_ctr: u32 += 1 *)
    else Ok (mkEW (ew_out s ++ tagc (ew_ctr s) (ew_cur s)) (ew_ctr s + 1) 0 []).

  (* Write::write — returns the new state and the number of bytes accepted *)
  Definition ew_write (s : ewstate) (buf : bytes) : res (ewstate * N) :=
    if CHUNK <? ew_off s then Err EState else
    do s1 <- (if ew_off s =? CHUNK then ew_renew s else Ok s);
    let size := N.min (N.min CIPHERBUF (len buf)) (CHUNK - ew_off s1) in
    let ct := xor_from (ew_ctr s1) (ew_off s1) (takeN size buf) in
    Ok (mkEW (ew_out s1 ++ ct) (ew_ctr s1) (ew_off s1 + size) (ew_cur s1 ++ ct), size).

  (* Write::write_all: loop until the buffer is empty; a write of 0 is WriteZero *)
  Fixpoint ew_write_all (fuel : nat) (s : ewstate) (buf : bytes) : res ewstate :=
    match buf with
    | [] => Ok s
    | _ =>
      match fuel with
      | O => Err EFuel
      | S fuel' =>
        do r <- ew_write s buf;
        let '(s', n) := r in
        if n =? 0 then Err EIo else ew_write_all fuel' s' (dropN n buf)
      end
    end.

  Definition ew_finalize (s : ewstate) : res ewstate := ew_renew s.

  (* ---------- reader (encrypt.rs:302-606), over an inner stream ---------- *)

  Variable S : Stream.

  Record estate := mkE {
    e_in : st S;       (* inner layer *)
    e_cache : bytes;   (* chunk_cache data *)
    e_cpos : N;        (* chunk_cache position *)
    e_chunk : N;       (* current_chunk_number *)
  }.

  Definition rd_fuel : nat := Datatypes.S (N.to_nat CTS).

  (* load_in_cache (with the D1 and D3 repairs): Ok true = Some(()), Ok false = None *)
  Definition eload (s : estate) : estate * res bool :=
    let k := e_chunk s in
    match read_full S rd_fuel (e_in s) CTS with
    | (i', Ok dt) =>
      if len dt =? 0 then (mkE i' [] 0 k, Ok false)
      else if len dt <? TAG then (mkE i' [] 0 k, Err EWrongTag)
      else
        let ct := takeN (len dt - TAG) dt in
        let tg := dropN (len dt - TAG) dt in
        if bytes_eqb (tagc k ct) tg then (mkE i' (xor_from k 0 ct) 0 k, Ok true)
        else (mkE i' [] 0 k, Err EWrongTag)
    | (i', Err e) => (mkE i' [] 0 k, Err e)
    | (i', Crash c) => (mkE i' [] 0 k, Crash c)
    end.

  (* the Cursor read on the chunk cache, limited to what is left of the chunk *)
  Definition eread_cache (s : estate) (avail n : N) : estate * res bytes :=
    let size := N.min avail n in
    let d := sliceN (N.min (e_cpos s) (len (e_cache s))) size (e_cache s) in
    (mkE (e_in s) (e_cache s) (e_cpos s + len d) (e_chunk s), Ok d).

  (* read_internal / read_internal_unauthenticated, generic in the chunk loader *)
  Definition eread_gen (load : estate -> estate * res bool) (s : estate) (n : N) : estate * res bytes :=
    match csub 416 CHUNK (e_cpos s) with
    | Ok 0 =>
      if 2 ^ 32 <=? e_chunk s + 1 then (s, Crash 419) else
      let s1 := mkE (e_in s) (e_cache s) (e_cpos s) (e_chunk s + 1) in
      match load s1 with
      | (s2, Ok false) => (s2, Ok [])
      | (s2, Ok true) =>
        match csub 416 CHUNK (e_cpos s2) with
        | Ok 0 => (s2, Err EFuel)
        | Ok c => eread_cache s2 c n
        | Err e => (s2, Err e) | Crash c => (s2, Crash c)
        end
      | (s2, Err e) => (s2, Err e)
      | (s2, Crash c) => (s2, Crash c)
      end
    | Ok c => eread_cache s c n
    | Err e => (s, Err e)
    | Crash c => (s, Crash c)
    end.

  Definition eread := eread_gen eload.

  (* Seek::seek, SeekFrom::Start arm.  First the D20 guard (encrypt.rs:493): a position whose tag-aware counterpart
     `no_tag_position_to_tag_position(pos)` would not fit a u64 is refused with InvalidInput BEFORE anything is
     touched (the inner layer keeps its position).  `u64::MAX / CHUNK_TAG_SIZE - 1` is a compile-time constant of
     the source (CHUNK_TAG_SIZE <= u64::MAX there, so the subtraction cannot underflow). *)
  Definition U64MAX : N := 2 ^ 64 - 1.
  Definition start_in_range (pos : N) : bool := negb (U64MAX / CTS - 1 <? pos / CHUNK).

  Definition eseek_start (s : estate) (pos : N) : estate * res N :=
    if U64MAX / CTS - 1 <? pos / CHUNK then (s, Err EInval) else
    let tp := notag2tag pos in
    let cn := tp / CTS in
    let pic := tp mod CTS in
    match sk S (e_in s) (FromStart (cn * CTS)) with
    | (i', Ok _) =>
      if 2 ^ 32 <=? cn then (mkE i' (e_cache s) (e_cpos s) (e_chunk s), Err EInval) else
      match eload (mkE i' (e_cache s) (e_cpos s) cn) with
      | (s2, Ok _) => (mkE (e_in s2) (e_cache s2) pic (e_chunk s2), Ok pos)
      | (s2, Err e) => (s2, Err e)
      | (s2, Crash c) => (s2, Crash c)
      end
    | (i', Err e) => (mkE i' (e_cache s) (e_cpos s) (e_chunk s), Err e)
    | (i', Crash c) => (mkE i' (e_cache s) (e_cpos s) (e_chunk s), Crash c)
    end.

  (* i64 arithmetic of the Current / End arms.  Convention (the one of Stream.seek_target, kept): a whence offset
     d : Z is the mathematical value of the i64 argument and sums are mathematical; `u64::try_from(sum)` is
     seek_target's "negative -> InvalidInput".  What the source CHECKS is modelled as an explicit test:
       Current: i64::try_from(current).unwrap()            -> Crash 524 when current >= 2^63
       End:     i64::try_from(end_pos).map_err(..)?        -> InvalidInput when end_pos >= 2^63
                .checked_add(pos).ok_or_else(..)?          -> InvalidInput when the sum leaves the i64 range
     The plain `+` of the Current arm is NOT checked by the source (debug build: overflow panic, release build: wrap
     to a negative value -> InvalidInput); it stays the mathematical sum here, as in gen/Src3e.v. *)
  Definition i64_fits (z : Z) : bool := ((- 2 ^ 63 <=? z) && (z <? 2 ^ 63))%Z.

  Definition eseek (s : estate) (w : whence) : estate * res N :=
    match w with
    | FromStart pos => eseek_start s pos
    | FromCur d =>
      (* after the D10 repair: the position is chunk number and cache position *)
      let cur := e_chunk s * CHUNK + e_cpos s in
      if (d =? 0)%Z then (s, Ok cur) else
      if 2 ^ 63 <=? cur then (s, Crash 524) else
      match seek_target cur d with
      | Ok q => eseek_start s q
      | Err e => (s, Err e) | Crash c => (s, Crash c)
      end
    | FromEnd d =>
      if (0 <? d)%Z then (s, Err EEos) else
      match sk S (e_in s) (FromEnd 0) with
      | (i', Ok end_inner) =>
        let s1 := mkE i' (e_cache s) (e_cpos s) (e_chunk s) in
        match end_pos_of_inner end_inner with
        | Ok end_pos =>
          if 2 ^ 63 <=? end_pos then (s1, Err EInval) else
          if negb (i64_fits (Z.of_N end_pos + d)) then (s1, Err EInval) else
          match seek_target end_pos d with
          | Ok q => eseek_start s1 q
          | Err e => (s1, Err e) | Crash c => (s1, Crash c)
          end
        | Err e => (s1, Err e) | Crash c => (s1, Crash c)
        end
      | (i', Err e) => (mkE i' (e_cache s) (e_cpos s) (e_chunk s), Err e)
      | (i', Crash c) => (mkE i' (e_cache s) (e_cpos s) (e_chunk s), Crash c)
      end
    end.

  Definition EncReader : Stream := {| st := estate; rd := eread; sk := eseek |}.

  (* EncryptionLayerReader::new followed by initialize() (= rewind) *)
  Definition enc_open (i0 : st S) : estate * res N :=
    eseek_start (mkE i0 [] 0 0) 0.

  (* ---------- fail-safe reader (encrypt.rs:375-461, 608-658) ---------- *)

  (* load_in_cache_unauthenticated *)
  Definition eload_unauth (s : estate) : estate * res bool :=
    let k := e_chunk s in
    match read_full S rd_fuel (e_in s) CHUNK with
    | (i', Ok dt) =>
      if len dt =? 0 then (mkE i' [] 0 k, Ok false)
      else
        (* consume the tag without reading it: io::copy(take(TAG), sink) *)
        match read_full S rd_fuel i' TAG with
        | (i'', Ok _) => (mkE i'' (xor_from k 0 dt) 0 k, Ok true)
        | (i'', Err e) => (mkE i'' [] 0 k, Err e)
        | (i'', Crash c) => (mkE i'' [] 0 k, Crash c)
        end
    | (i', Err e) => (mkE i' [] 0 k, Err e)
    | (i', Crash c) => (mkE i' [] 0 k, Crash c)
    end.

  (* EncryptionLayerFailSafeReader::new: the first chunk is loaded WITHOUT tag check in both
     modes (defect D2, kept: the suite asserts it) *)
  Definition fs_open (i0 : st S) : estate * res bool := eload_unauth (mkE i0 [] 0 0).

  (* Read::read of the fail-safe reader; unauth = DataEvenUnauthenticated *)
  Definition fs_read (unauth : bool) (s : estate) (n : N) : estate * res bytes :=
    if unauth then eread_gen eload_unauth s n
    else match eread_gen eload s n with
         | (s', Err EWrongTag) => (s', Ok [])
         | r => r
         end.
End Enc.

Arguments mkE {S} _ _ _ _.
Arguments e_in {S} _.
Arguments e_cache {S} _.
Arguments e_cpos {S} _.
Arguments e_chunk {S} _.
