(* RepairSize2Cli.v — CliRepairIntact.repair_intact_plain / repair_intact_enc (`mlar repair` of an
   intact archive made by create holds every file) with the premise on the RESULT
       repair ... <> Err EDeser     (finalize of the repaired archive did not fail with SerializationError)
   REPLACED by a premise on the SIZE of what repair reads (fits_limit n := 8 + 3 * n <= min LIMIT (2^32-1)):
     no layer     fits_limit (len (w_out sf))                       the block stream behind the header
     encryption   fits_limit (len (enc_format CHUNK ks tagc (w_out sf)))   the ENCRYPTED block stream behind
                  the header (the fail-safe decryptor delivers no more than the ciphertext holds:
                  RepairSize2.len_fs_output_le); both modes.
   Conclusions unchanged. *)
From MLA Require Import Limit.
From MLA Require Import Base Stream Blocks Writer WriterProofs Reader RoundTripBlocks RoundTripWriter RoundTripRun FlushProofs
  EncLayer CompLayer CompFailSafe Repair RepairSpec RepairPure RepairProofs2 RepairProofs5 RepairProofs6
  ComposeWriterRun ComposeFlush ComposeRepair EncWriter EncWriterProofs Format Ecies Archive ArchiveProofs Cli CliProofs CliArchive CliRepair Run
  CliRepairIntact RepairSize RepairSizeWrap RepairSize2.
From Coq Require Import ZifyBool ZifyNat ZifyN Permutation.
Open Scope N_scope.

Section IntactCmdSize.
  Variables CHUNK TAG CIPHERBUF BLOCK LIMIT FNMAX CACHE FSBUF : N.
  Local Hint Extern 0 Limit => exact LIMIT : typeclass_instances.
  Variables TS TC TA TE : N.
  Variable H : bytes -> bytes.
  Variable order : footer -> footer.
  Variable pubk : bytes -> bytes.
  Variable dh : bytes -> bytes -> bytes.
  Variable kdf : bytes -> bytes.
  Variables wenc wdec wtag : bytes -> bytes -> bytes.
  Variable ksf : bytes -> bytes -> N -> N -> N.
  Variable tagf : bytes -> bytes -> N -> bytes -> bytes.
  Variable dec : bytes -> bytes.
  Variable dstate : Type.
  Variable dinit : dstate.
  Variable dstep : dstate -> bytes -> N -> dresult * N * bytes * dstate.
  Variable pfuel : nat.

  Hypothesis HCHUNK : 0 < CHUNK.
  Hypothesis HTAG : 0 < TAG.
  Hypothesis HCB : 0 < CIPHERBUF.
  Hypothesis HB : 0 < BLOCK.
  Hypothesis HB32 : BLOCK < 2 ^ 32.
  Hypothesis HFN : FNMAX < 2 ^ 64.
  Hypothesis HCACHE : 0 < CACHE.
  Hypothesis Htags : tags_distinct TS TC TA TE.
  Hypothesis HHlen : forall x, len (H x) = 32.
  Hypothesis Horder : forall f, Permutation (order f) f.
  Hypothesis wdec_wenc : forall k m, len m = 32 -> wdec k (wenc k m) = m.
  Hypothesis Hpubk : forall e, len (pubk e) = 32.
  Hypothesis Hwenc : forall k m, len m = 32 -> len (wenc k m) = 32.
  Hypothesis Hwtag : forall k c, len (wtag k c) = 16.

  Notation archive_write := (archive_write CHUNK CIPHERBUF BLOCK LIMIT FNMAX TS TC TA TE H order pubk dh kdf wenc wtag ksf tagf).
  Notation made_by_create := (made_by_create CHUNK TAG BLOCK LIMIT FNMAX TS TC TA TE H order pubk dh kdf wenc wtag ksf tagf dec).
  Notation cmd_repair := (cmd_repair CHUNK TAG CIPHERBUF BLOCK LIMIT FNMAX CACHE FSBUF TS TC TA TE H pubk dh kdf wenc wdec wtag ksf tagf
                            dstate dinit dstep pfuel).
  Notation good_output := (good_output FNMAX TS TC TA TE H).
  Notation repaired := (repaired CHUNK CIPHERBUF BLOCK LIMIT pubk dh kdf wenc wtag ksf tagf).

  (* no layer in the source, no key, either mode, any target configuration *)
  Theorem repair_intact_plain_size cfg ct cm files sf rs s :
    made_by_create cfg files sf rs [] s -> wc_encrypt cfg = false -> wc_compress cfg = false ->
    (forall n d, In (n, d) files -> len d < 2 ^ 64) -> w_next sf < 2 ^ 64 ->
    exists a, archive_write cfg ct cm (create_ops files) = Ok a /\
      forall fuel, (N.to_nat (len (w_out sf)) < fuel)%nat ->
      (* SIZE PREMISE (instead of "finalize of the repaired archive did not fail with
         SerializationError"): the block stream repair reads is small enough for the footer of the
         repaired archive to fit LIMIT = BINCODE_MAX_DESERIALIZE and the u32 length field *)
      8 + 3 * len (w_out sf) <= N.min LIMIT (2 ^ 32 - 1) ->
      exists out obl,
        good_output out obl /\
        (forall n d, In (n, d) files -> content_of (files_of obl) n = d) /\
        forall unauth cfg' ct' cm', cmd_repair unauth fuel a [] cfg' ct' cm' = repaired cfg' ct' cm' out.
  Proof.
    intros Hm He Hc Hsz Hnext.
    destruct (repair_intact_plain CHUNK TAG CIPHERBUF BLOCK LIMIT FNMAX CACHE FSBUF TS TC TA TE H order pubk dh kdf
                wenc wdec wtag ksf tagf dec dstate dinit dstep pfuel HCHUNK HTAG HCB HB HB32 HFN HCACHE Htags HHlen Horder
                wdec_wenc Hpubk Hwenc Hwtag cfg ct cm files sf rs s Hm He Hc Hsz Hnext) as (a & Hw & Hcon).
    exists a. split; [exact Hw|]. intros fuel Hfuel Hfit. apply (Hcon fuel Hfuel).
    apply (repair_no_ser_refines (LIM := LIMIT) FNMAX CACHE TS TC TA TE H (Cursor (w_out sf)) (w_out sf) _ fuel 0
             (cursor_refines _)); [split; [reflexivity | apply N.le_0_l] | exact Hfit].
  Qed.

  (* encryption in the source (no compression), a candidate list holding a recipient's key, both modes *)
  Theorem repair_intact_enc_size cfg ct cm files sf rs privs s :
    made_by_create cfg files sf rs privs s -> wc_encrypt cfg = true -> wc_compress cfg = false ->
    (forall n d, In (n, d) files -> len d < 2 ^ 64) -> w_next sf < 2 ^ 64 ->
    len (enc_format CHUNK (ksf (wc_key cfg) (wc_nonce cfg)) (tagf (wc_key cfg) (wc_nonce cfg)) (w_out sf)) / (CHUNK + TAG) + 2 <= 2 ^ 32 ->
    exists a, archive_write cfg ct cm (create_ops files) = Ok a /\
      (TagCollision pubk dh kdf wenc wtag (wc_eph cfg) (wc_key cfg) (wc_recipients cfg) privs \/
       forall fuel unauth, (N.to_nat (len (w_out sf) + TAG) < fuel)%nat ->
       (* SIZE PREMISE (instead of "finalize of the repaired archive did not fail with
          SerializationError"): on the ENCRYPTED block stream the fail-safe decryptor reads *)
       8 + 3 * len (enc_format CHUNK (ksf (wc_key cfg) (wc_nonce cfg)) (tagf (wc_key cfg) (wc_nonce cfg)) (w_out sf))
         <= N.min LIMIT (2 ^ 32 - 1) ->
       exists out obl,
         good_output out obl /\
         (forall n d, In (n, d) files -> content_of (files_of obl) n = d) /\
         forall cfg' ct' cm', cmd_repair unauth fuel a privs cfg' ct' cm' = repaired cfg' ct' cm' out).
  Proof.
    intros Hm He Hc Hsz Hnext Hbound.
    destruct (repair_intact_enc CHUNK TAG CIPHERBUF BLOCK LIMIT FNMAX CACHE FSBUF TS TC TA TE H order pubk dh kdf
                wenc wdec wtag ksf tagf dec dstate dinit dstep pfuel HCHUNK HTAG HCB HB HB32 HFN HCACHE Htags HHlen Horder
                wdec_wenc Hpubk Hwenc Hwtag cfg ct cm files sf rs privs s Hm He Hc Hsz Hnext Hbound) as (a & Hw & Hcon).
    exists a. split; [exact Hw|]. destruct Hcon as [Ht|Hcon]; [left; exact Ht | right].
    intros fuel unauth Hfuel Hfit. apply (Hcon fuel unauth Hfuel). intros es b Ho.
    apply (fsenc_no_ser (LIM := LIMIT) FNMAX CACHE TS TC TA TE H CHUNK TAG HCHUNK _ _ unauth _ fuel es b Hbound Ho).
    exact (fits_limit_mono (LIM := LIMIT) _ _ (len_fs_output_le CHUNK TAG _ HCHUNK _ unauth _) Hfit).
  Qed.
End IntactCmdSize.
