(* RepairSize2Archive.v — ArchiveSrcRepair.archive_cut_sound (C02 for the WHOLE archive, header
   included, every cut) with the premise on the RESULT in its second half
       r <> Err EDeser     (finalize of the repaired archive did not fail with SerializationError)
   REPLACED by a premise on the SIZE OF THE INPUT
       fits_limit (len (takeN n a))   i.e.  8 + 3 * len (takeN n a) <= min LIMIT (2^32 - 1)
   where takeN n a is exactly the byte string the source delivers (header included).
   `Err EDeser` as the RESULT of a cut inside the header (first half) is untouched.
     failsafe_no_ser   a cut at or behind the header: failsafe_repair does not end in Err EDeser
                       (or the recipients' tags collide, as in the theorem);
     archive_cut_sound_size   the theorem. *)
From MLA Require Import Limit.
From MLA Require Import Base Stream EncLayer Blocks Writer Repair RepairSpec RepairPure RepairProofs2 RepairProofs6
  EncAuthFs EncAuthTrunc EncWriter Format Ecies Archive ArchiveProofs HeaderStream HeaderStreamProofs ArchiveSrc
  Run ComposeRdOnly ComposeRepair ArchiveSrcRepair RepairMask RepairSize RepairSizeWrap RepairSize2.
From Coq Require Import ZifyBool ZifyNat ZifyN.
Open Scope N_scope.

Section ArchiveCutSize.
  Variables CHUNK TAG CIPHERBUF BLOCK LIMIT FNMAX CACHE : N.
  Local Hint Extern 0 Limit => exact LIMIT : typeclass_instances.
  Hypothesis HFN : FNMAX < 2 ^ 64.
  Hypothesis HCACHE : 0 < CACHE.
  Variables TS TC TA TE : N.
  Hypothesis Htags : TS <> TC /\ TS <> TA /\ TS <> TE /\ TC <> TA /\ TC <> TE /\ TA <> TE.
  Variable H : bytes -> bytes.
  Hypothesis H_len : forall x, len (H x) = 32.
  Hypothesis HCHUNK : 0 < CHUNK.
  Hypothesis HTAG : 0 < TAG.
  Variable pubk : bytes -> bytes.
  Variable dh : bytes -> bytes -> bytes.
  Variable kdf : bytes -> bytes.
  Variables wenc wdec wtag : bytes -> bytes -> bytes.
  Variable ksf : bytes -> bytes -> N -> N -> N.
  Variable tagf : bytes -> bytes -> N -> bytes -> bytes.
  Hypothesis wdec_wenc : forall k m, len m = 32 -> wdec k (wenc k m) = m.
  Variable FsCompOver : Stream -> Stream.
  Variable fscomp_open : forall I : Stream, st I -> res (st (FsCompOver I)).

  Notation body := (body TS TC TA TE).
  Notation to_persistent := (to_persistent pubk dh kdf wenc wtag).
  Notation failsafe_repair := (failsafe_repair CHUNK TAG LIMIT FNMAX CACHE TS TC TA TE H dh kdf wdec wtag ksf tagf).
  Notation concl := (repair_sound_concl FNMAX TS TC TA TE H).

  Variable cfg : wconfig.
  Hypothesis Hnc : wc_compress cfg = false.
  Let hp := to_persistent cfg.
  Hypothesis Hwf : wf_enc_opt hp.
  Hypothesis Hlim : config_size hp <= LIMIT.
  Variable bl : list block.
  Variable trailer : bytes.
  Hypothesis Hwfb : wf_blocks FNMAX H bl.
  Let plain := body bl ++ trailer.
  Let ks := ksf (wc_key cfg) (wc_nonce cfg).
  Let tagc := tagf (wc_key cfg) (wc_nonce cfg).
  Hypothesis Htr : In BEnd bl \/
    trailer ++ (if wc_encrypt cfg then junk CHUNK ks tagc plain else []) = [].
  Variable wire : bytes.
  Hypothesis Hwire :
    if wc_encrypt cfg then
      (forall i c, len (tagc i c) = TAG) /\
      exists pieces fuelw es, concat pieces = plain /\
        ew_archive CHUNK CIPHERBUF ks tagc fuelw pieces = Ok es /\ wire = ew_out es /\
        len (ew_out es) / (CHUNK + TAG) + 2 <= 2 ^ 32
    else wire = plain.
  Variables (privs : list bytes) (s : bytes).
  Hypothesis Hrecip : wc_encrypt cfg = true ->
    len (wc_key cfg) = 32 /\ dh s (pubk (wc_eph cfg)) = dh (wc_eph cfg) (pubk s) /\
    In (pubk s) (wc_recipients cfg) /\ In s privs.
  Let a := ser_header hp ++ wire.

  (* a cut at or behind the header: no SerializationError when the input is small enough *)
  Lemma failsafe_no_ser (n : N) (S0 : Stream) (R0 : st S0 -> N -> Prop) (s0 : st S0)
        (unauth : bool) (fuel : nat) :
    Refines S0 (takeN n a) R0 -> R0 s0 0 -> fits_limit (len (takeN n a)) ->
    len (ser_header hp) <= n ->
    TagCollision pubk dh kdf wenc wtag (wc_eph cfg) (wc_key cfg) (wc_recipients cfg) privs \/
    failsafe_repair S0 FsCompOver fscomp_open s0 privs unauth fuel <> Err EDeser.
  Proof.
    intros HR0 Hs0 Hfit Hn. unfold ArchiveSrc.failsafe_repair.
    destruct (read_header_s_refines S0 _ R0 HR0 LIMIT s0 Hs0) as (s1 & Hh).
    set (hl := len (ser_header hp)) in *.
    assert (EA : takeN n a = ser_header hp ++ takeN (n - hl) wire).
    { unfold a. replace n with (hl + (n - hl)) at 1 by lia. unfold hl. rewrite takeN_add, takeN_len_app, dropN_len_app. reflexivity. }
    rewrite EA in Hh. rewrite (read_header_ser LIMIT hp _ Hwf Hlim) in Hh.
    destruct Hh as (-> & Hs1 & _).
    rewrite len_app in Hs1.
    set (w := takeN (n - hl) wire) in *.
    replace (len (ser_header hp) + len w - len w) with hl in Hs1 by (unfold hl; lia).
    assert (Ew : dropN hl (takeN n a) = w) by (rewrite EA; unfold hl; apply dropN_len_app).
    assert (Hhl : hl <= len (takeN n a)) by (rewrite EA, len_app; lia).
    assert (Hfw : fits_limit (len w)).
    { apply (fits_limit_mono _ (len (takeN n a))); [|exact Hfit]. rewrite EA, len_app. lia. }
    destruct (wc_encrypt cfg) eqn:Ee.
    - (* ENCRYPT *)
      destruct (Hrecip eq_refl) as (Hk & Hdh & Hrec & Hin).
      destruct (load_config_enc pubk dh kdf wenc wdec wtag wdec_wenc cfg privs s Ee Hk Hdh Hrec Hin) as [Hl|Ht];
        [right | left; exact Ht].
      fold hp in Hl. rewrite Hl. cbn [bind]. cbv iota beta. rewrite Hnc.
      destruct Hwire as (Htagc & pieces & fuelw & es & Hpc & Hew & Hwe & Hbig).
      fold ks tagc.
      assert (Hcb : len w / (CHUNK + TAG) + 2 <= 2 ^ 32).
      { eapply N.le_trans; [|exact Hbig]. apply N.add_le_mono_r. apply N.div_le_mono; [lia|].
        unfold w. rewrite len_takeN, Hwe. lia. }
      destruct (fsenc_rd_refines CHUNK TAG HCHUNK ks tagc unauth w Hcb) as (I & HRI & ec & b & Hoc & HI).
      set (rel := fun (x : st S0) (q : st (Cursor w)) => R0 x (hl + q) /\ q <= len w).
      assert (Hrf : forall x q m, m <= CTS CHUNK TAG -> rel x q ->
                rel (fst (read_full S0 (rd_fuel CHUNK TAG) x m)) (fst (read_full (Cursor w) (rd_fuel CHUNK TAG) q m)) /\
                snd (read_full S0 (rd_fuel CHUNK TAG) x m) = snd (read_full (Cursor w) (rd_fuel CHUNK TAG) q m)).
      { intros x q m Hm Hx. unfold rel in *. rewrite <- Ew in *.
        apply (read_full_shift S0 _ R0 hl _ HR0 Hhl); [unfold rd_fuel; lia | exact Hx]. }
      assert (H0 : rel s1 0) by (split; [rewrite N.add_0_r; exact Hs1 | lia]).
      destruct (fs_open_sim CHUNK TAG ks tagc S0 (Cursor w) rel Hrf s1 0 H0) as [Hes Hres].
      rewrite Hoc in Hes, Hres. destruct (fs_open CHUNK TAG ks S0 s1) as [e0 r0]. cbn [fst snd] in Hes, Hres. subst r0.
      rewrite (repair_sim (FsEnc CHUNK TAG ks tagc unauth S0) (FsEnc CHUNK TAG ks tagc unauth (Cursor w))
                 (esim S0 (Cursor w) rel)
                 (fun x y m Hxy => fs_read_sim CHUNK TAG ks tagc S0 (Cursor w) rel Hrf unauth x y m Hxy)
                 FNMAX CACHE TS TC TA TE H fuel e0 ec w_init Hes).
      apply (fsenc_no_ser FNMAX CACHE TS TC TA TE H CHUNK TAG HCHUNK ks tagc unauth w fuel ec b Hcb Hoc).
      exact (fits_limit_mono _ _ (len_fs_output_le CHUNK TAG ks HCHUNK tagc unauth w) Hfw).
    - (* no layer *)
      right. pose proof (load_config_plain pubk dh kdf wenc wdec wtag cfg privs Ee) as Hl. fold hp in Hl. rewrite Hl. cbn [bind]. cbv iota beta.
      rewrite Hnc.
      assert (HRd : RdRefines (rd S0) w (fun x q => R0 x (hl + q))).
      { intros x q m Hx. destruct (ref_rd _ _ _ HR0 x (hl + q) m Hx) as (x' & k & Hrd & Hk1 & Hk2 & Hk3 & Hx').
        exists x', k. rewrite Hrd. rewrite <- Ew. rewrite len_dropN.
        split; [f_equal; unfold sliceN; rewrite dropN_dropN; reflexivity|].
        split; [exact Hk1|]. split; [lia|]. split; [intros Hz; destruct (Hk3 Hz); [now left | right; lia]|].
        rewrite N.add_assoc. exact Hx'. }
      apply (repair_no_ser_rd FNMAX CACHE TS TC TA TE H S0 w _ fuel s1 HRd); [|exact Hfw].
      rewrite N.add_0_r. exact Hs1.
  Qed.

  Theorem archive_cut_sound_size (n : N) (S0 : Stream) (R0 : st S0 -> N -> Prop) (s0 : st S0)
          (unauth : bool) (fuel : nat) :
    Refines S0 (takeN n a) R0 -> R0 s0 0 -> (N.to_nat (len plain + TAG) < fuel)%nat ->
    (* SIZE PREMISE: on the bytes the source delivers (the cut archive, header included) *)
    fits_limit (len (takeN n a)) ->
    let r := failsafe_repair S0 FsCompOver fscomp_open s0 privs unauth fuel in
    (n < len (ser_header hp) -> r = Err (if n <? 7 then EUnexpectedEof else EDeser)) /\
    (len (ser_header hp) <= n ->
       TagCollision pubk dh kdf wenc wtag (wc_eph cfg) (wc_key cfg) (wc_recipients cfg) privs \/
       concl bl r).
  Proof.
    intros HR0 Hs0 Hfuel Hfit r.
    destruct (archive_cut_sound CHUNK TAG CIPHERBUF LIMIT FNMAX CACHE HFN HCACHE TS TC TA TE Htags H H_len HCHUNK HTAG
                pubk dh kdf wenc wdec wtag ksf tagf wdec_wenc FsCompOver fscomp_open cfg Hnc Hwf Hlim bl trailer Hwfb Htr
                wire Hwire privs s Hrecip n S0 R0 s0 unauth fuel HR0 Hs0 Hfuel) as [HA HB].
    split; [exact HA|]. intros Hn.
    destruct (HB Hn) as [Ht|Hc]; [left; exact Ht|].
    destruct (failsafe_no_ser n S0 R0 s0 unauth fuel HR0 Hs0 Hfit Hn) as [Ht|Hns]; [left; exact Ht | right; exact (Hc Hns)].
  Qed.
End ArchiveCutSize.
