(* LinearRoundTrip.v — C12, functional clause: on EVERY archive the writer model can produce
   (any successful call list + finalize, any interleaving), over ANY stream refining a cursor
   over it (short reads allowed), for ANY chosen list of names, helpers::linear_extract
     - succeeds (no Err, no Crash; explicit fuel bound: more steps than the archive has bytes),
     - delivers to each chosen name of the archive exactly the bytes given to the writer for
       it (= what get_file + reads return: rt_get_file), as the in-order concatenation of the
       pieces handed to its writer,
     - delivers nothing to names not chosen and nothing to chosen names the archive lacks;
   and pushing those pieces, each cut in any way, through write_all into any throttling /
   interrupting destination leaves exactly these bytes there. *)
From MLA Require Import Limit.
From MLA Require Import Base Stream Blocks Writer Reader LinearProofs RoundTripBlocks RoundTripFooter
  RoundTripReader RoundTripWriter RoundTripRun RoundTripGlue RoundTrip Sink SinkProofs
  LinearRoundTripDefs LinearRoundTripPure.
From Coq Require Import ZifyBool ZifyNat ZifyN Permutation.
Open Scope N_scope.

(* ---------- io::copy(take(len x), w) inside a known field ---------- *)
Section CopyTake.
  Context {LIM : Limit}.
  Variable S : Stream.
  Variable b : bytes.
  Variable R : st S -> N -> Prop.
  Hypothesis HR : Refines S b R.

  Lemma copy_take_mid fuel : forall s pre x post acc,
    b = pre ++ x ++ post -> R s (len pre) -> (N.to_nat (len x) <= fuel)%nat ->
    exists s', copy_take S fuel s (len x) acc = (s', Ok (acc ++ x)) /\ R s' (len pre + len x).
  Proof.
    induction fuel as [|fuel IH]; intros s pre x post acc Hb HRs Hf.
    - assert (Hx : x = []) by (apply len_0_nil; lia). subst x.
      exists s. cbn [copy_take len length N.of_nat N.eqb]. rewrite app_nil_r, N.add_0_r. auto.
    - cbn [copy_take]. destruct (N.eqb_spec (len x) 0) as [E|E].
      + assert (Hx : x = []) by (apply len_0_nil; exact E). subst x.
        exists s. rewrite app_nil_r, len_nil, N.add_0_r. auto.
      + destruct (rd_mid S b R HR s pre x post 8192 Hb HRs) as (s1 & k & Hrd & Hk0 & _ & Hkx & HR1); [lia|lia|].
        rewrite Hrd.
        assert (Hlt : len (takeN k x) = k) by (rewrite len_takeN; lia).
        rewrite Hlt. destruct (N.eqb_spec k 0); [lia|]. destruct (N.ltb_spec (len x) k); [lia|].
        assert (Hb1 : b = (pre ++ takeN k x) ++ dropN k x ++ post).
        { rewrite <- app_assoc, (app_assoc (takeN k x)), takeN_dropN. exact Hb. }
        assert (HR1' : R s1 (len (pre ++ takeN k x))) by (rewrite len_app, Hlt; exact HR1).
        assert (Hld : len (dropN k x) = len x - k) by apply len_dropN.
        destruct (IH s1 _ (dropN k x) post (acc ++ takeN k x) Hb1 HR1') as (s2 & Hct & HR2); [lia|].
        rewrite Hld in Hct. exists s2. rewrite Hct, <- app_assoc, takeN_dropN.
        split; [reflexivity|]. rewrite len_app, Hlt, Hld in HR2.
        replace (len pre + len x) with (len pre + k + (len x - k)) by lia. exact HR2.
  Qed.
End CopyTake.

(* ---------- the walk over a well-formed block list followed by EndOfArchiveData ---------- *)
Section Walk.
  Context {LIM : Limit}.
  Variable FNMAX : N.
  Variables T_START T_CONTENT T_EOA T_EOF : N.
  Hypothesis Htags : tags_distinct T_START T_CONTENT T_EOA T_EOF.
  Variable S : Stream.

  Notation ser_block := (ser_block T_START T_CONTENT T_EOA T_EOF).
  Notation ser_blocks := (ser_blocks T_START T_CONTENT T_EOA T_EOF).
  Notation wfb := (wfb FNMAX).
  Notation lx_loop := (lx_loop FNMAX T_START T_CONTENT T_EOA T_EOF S).

  Variable bl : list block.
  Variable post : bytes.
  Variable R : st S -> N -> Prop.
  Hypothesis HR : Refines S (ser_blocks bl ++ [T_EOA] ++ post) R.
  Hypothesis Hwf : Forall wfb bl.
  Variable export : list bytes.

  Lemma ser_blocks_snoc1 l x : ser_blocks (l ++ [x]) = ser_blocks l ++ ser_block x.
  Proof. rewrite ser_blocks_app, ser_blocks_cons, ser_blocks_nil, app_nil_r. reflexivity. Qed.

  Lemma lx_walk : forall rest done fuel s ids acc,
    bl = done ++ rest -> R s (len (ser_blocks done)) ->
    (N.to_nat (len (ser_blocks rest)) < fuel)%nat ->
    lx_loop fuel s export ids acc = Ok (lx_spec export rest ids acc).
  Proof.
    induction rest as [|x rest IH]; intros done fuel s ids acc Hbl HRs Hf;
      (destruct fuel as [|fuel]; [lia|]); cbn [Reader.lx_loop LinearRoundTripDefs.lx_spec].
    - rewrite app_nil_r in Hbl. subst done.
      destruct (parse_ser_block FNMAX _ _ _ _ Htags S _ R HR s (ser_blocks bl) BEnd post eq_refl I HRs) as (s1 & -> & _).
      reflexivity.
    - destruct (parse_at FNMAX _ _ _ _ Htags S bl _ R HR Hwf s done x rest Hbl HRs) as (s1 & -> & HR1).
      assert (Hw : wfb x).
      { rewrite Forall_forall in Hwf. apply Hwf. rewrite Hbl. apply in_or_app. right. left. reflexivity. }
      assert (Hbl' : bl = (done ++ [x]) ++ rest) by (rewrite <- app_assoc; exact Hbl).
      pose proof (len_ser_block FNMAX T_START T_CONTENT T_EOA T_EOF x Hw) as Hlx.
      assert (Hpos : len (ser_blocks (done ++ [x])) = len (ser_blocks done) + hdr_len x + len (data_of x)).
      { rewrite ser_blocks_snoc1, len_app, Hlx. lia. }
      assert (Hf' : (N.to_nat (len (ser_blocks rest)) < fuel)%nat).
      { rewrite ser_blocks_cons, len_app in Hf.
        pose proof (len_ser_block_pos T_START T_CONTENT T_EOA T_EOF x). lia. }
      destruct x as [i n|i d|i h|]; cbn [pb_of hdr_len data_of] in *.
      + apply (IH (done ++ [BStart i n])); [exact Hbl' | | exact Hf'].
        rewrite Hpos, len_nil, N.add_0_r. exact HR1.
      + set (pre := ser_blocks done ++ [T_CONTENT] ++ le64 i ++ le64 (len d)).
        assert (Hlpre : len pre = len (ser_blocks done) + 17).
        { unfold pre. rewrite !len_app, !len_le64, len_cons, len_nil. lia. }
        assert (Hb : ser_blocks bl ++ [T_EOA] ++ post = pre ++ d ++ (ser_blocks rest ++ [T_EOA] ++ post)).
        { rewrite Hbl, ser_blocks_app, ser_blocks_cons. unfold pre. cbn [Blocks.ser_block].
          rewrite <- !app_assoc. reflexivity. }
        rewrite <- Hlpre in HR1.
        destruct (copy_take_mid S _ R HR (Datatypes.S fuel) s1 pre d _ [] Hb HR1) as (s2 & -> & HR2).
        { rewrite ser_blocks_cons, len_app, Hlx in Hf. lia. }
        cbn [app].
        assert (HR2' : R s2 (len (ser_blocks (done ++ [BContent i d]))))
          by (rewrite Hpos, <- Hlpre; exact HR2).
        destruct (id_lookup ids i); apply (IH (done ++ [BContent i d])); assumption.
      + apply (IH (done ++ [BEof i h])); [exact Hbl' | | exact Hf'].
        rewrite Hpos, len_nil, N.add_0_r. exact HR1.
      + reflexivity.
  Qed.
End Walk.

(* ---------- the theorem ---------- *)
Section LinearRoundTrip.
  Context {LIM : Limit}.
  Variable FNMAX : N.
  Variables T_START T_CONTENT T_EOA T_EOF : N.
  Variable H : bytes -> bytes.
  Variable order : footer -> footer.
  Hypothesis Htags : tags_distinct T_START T_CONTENT T_EOA T_EOF.
  Hypothesis HHlen : forall x, len (H x) = 32.
  Hypothesis Horder : forall f, Permutation (order f) f.

  Notation ser_blocks := (ser_blocks T_START T_CONTENT T_EOA T_EOF).
  Notation wrun := (wrun FNMAX T_START T_CONTENT T_EOA T_EOF H order).
  Notation WInv := (WInv FNMAX T_START T_CONTENT T_EOA T_EOF H).

  Variable ops : list wop.
  Variable sf : wstate.
  Variable rs : list (res N).
  Hypothesis Hrun : wrun w_init (ops ++ [OFinalize]) = (sf, rs).
  Hypothesis Hok : Forall (fun r => is_ok r = true) rs.
  Hypothesis Hutf : forallb op_utf8 ops = true.
  Hypothesis Hlen64 : len (w_out sf) < 2 ^ 64.
  Hypothesis Hfoot32 : len (ser_footer_map (order (w_footer sf))) < 2 ^ 32.

  Variable S : Stream.
  Variable R : st S -> N -> Prop.
  Hypothesis HR : Refines S (w_out sf) R.

  Notation RS := (RS order sf S R).
  Notation linear_extract := (linear_extract FNMAX T_START T_CONTENT T_EOA T_EOF S).
  Notation get_file := (get_file FNMAX T_START T_CONTENT T_EOA T_EOF S).
  Notation read_all := (read_all FNMAX T_START T_CONTENT T_EOA T_EOF S).

  (* 1-3: success and what every name receives.  Fuel: more loop steps than the archive has
     bytes (each block takes at least one byte; the copy of a block's data makes at most one
     read per byte) *)
  Theorem linear_roundtrip (r : rstate S) (export : list bytes) (fuel : nat) :
    RS r -> (N.to_nat (len (w_out sf)) < fuel)%nat ->
    exists out, linear_extract fuel r export = Ok out /\
      chosen_only export out /\
      (forall name id, In (name, id) (started 0 ops) ->
         delivered name out = if name_in export name then pieces 0 id ops else []) /\
      (forall name, ~ In name (map fst (started 0 ops)) -> delivered name out = []).
  Proof.
    intros [_ [p HRp]] Hfuel.
    destruct (rt_setup _ _ _ _ _ _ _ HHlen _ _ _ Hrun Hok Hutf Hlen64 Hfoot32)
      as (s & bl & HI & Ho & Hout & Hf & Hn & Hd & Hl).
    destruct (blocks_wfb _ _ _ _ _ _ _ _ HI Hl) as [Hwf Hne].
    assert (HR' : Refines S (ser_blocks bl ++ [T_EOA] ++ ser_footer (order (w_footer sf))) R)
      by (rewrite <- Hout; exact HR).
    destruct (ref_sk _ _ _ HR' (r_src r) p (FromStart 0) 0 HRp) as (s1 & Hsk & HR1).
    { apply target_start. lia. }
    assert (Hwalk : linear_extract fuel r export = Ok (lx_spec export bl [] [])).
    { unfold Reader.linear_extract. rewrite Hsk.
      apply (lx_walk FNMAX _ _ _ _ Htags S bl _ R HR' Hwf export bl [] fuel s1 [] [] eq_refl HR1).
      rewrite Hout, !len_app in Hfuel. lia. }
    exists (lx_spec export bl [] []). split; [exact Hwalk|].
    split; [exact (linear_only_chosen _ _ _ _ _ _ _ _ _ _ Hwalk)|].
    pose proof (wi_nodup _ _ _ _ _ _ _ _ HI) as Hnd. rewrite (wi_files _ _ _ _ _ _ _ _ HI) in Hnd.
    split.
    - intros name id Hin. rewrite <- Hn in Hin.
      assert (Hin' : In (name, id) (w_files s)) by (rewrite (wi_files _ _ _ _ _ _ _ _ HI); exact Hin).
      destruct (final_file _ _ _ _ _ _ _ _ HI Hl Ho name id Hin') as (fi & nm & _ & _ & _ & Hproj & _).
      rewrite (lx_spec_file export bl name id nm _ _ Hne Hnd Hin Hproj), Hd. reflexivity.
    - intros name Hnin. apply lx_spec_absent. rewrite Hn. exact Hnin.
  Qed.

  (* "exactly the bytes that reading that file individually returns": literally the result of
     get_file followed by reads to the end (any positive buffer sizes), from any reader state
     over the archive (before or after the linear extraction) *)
  Theorem linear_equals_per_file (r r2 : rstate S) (export : list bytes) (fuel : nat) :
    RS r -> RS r2 -> (N.to_nat (len (w_out sf)) < fuel)%nat ->
    exists out, linear_extract fuel r export = Ok out /\
      forall name id, In (name, id) (started 0 ops) -> name_in export name = true ->
      exists r' bs sz, get_file r2 name = (r', Ok (Some (bs, sz))) /\
        sz = len (delivered name out) /\
        forall sizes : nat -> N, (forall i, 0 < sizes i) ->
        forall zf fuel2, (length (pieces 0 id ops) < fuel2)%nat ->
        exists bs', read_all zf fuel2 bs sizes 0%nat [] = (bs', Ok (delivered name out)).
  Proof.
    intros HRS HRS2 Hfuel.
    destruct (linear_roundtrip r export fuel HRS Hfuel) as (out & Hlx & _ & Hdel & _).
    exists out. split; [exact Hlx|]. intros name id Hin Hch.
    pose proof (Hdel name id Hin) as Hd. rewrite Hch in Hd.
    destruct (rt_get_file _ _ _ _ _ _ _ Htags HHlen Horder _ _ _ Hrun Hok Hutf Hlen64 Hfoot32 S R HR r2 name id HRS2 Hin)
      as (r' & bs & Hgf & _ & Hrd).
    exists r', bs, (len (pieces 0 id ops)). rewrite Hd. split; [exact Hgf|]. split; [reflexivity|].
    intros sizes Hsz zf fuel2 Hf2. destruct (Hrd sizes Hsz zf fuel2 Hf2) as (bs' & Hra & _).
    exists bs'. exact Hra.
  Qed.

  (* "sinks that accept writes in arbitrary pieces": io::copy hands each block's data to the
     file's writer through write_all, in buffers of its choosing (split: ANY cutting of each
     piece); the writer accepts any part (>= 1 byte) of each write and interrupts at will
     (good_sched).  What it holds in the end is the file. *)
  Theorem linear_any_sink (r : rstate S) (export : list bytes) (fuel : nat)
          (split : bytes -> list bytes) (k : sink) (wfuel : nat) :
    RS r -> (N.to_nat (len (w_out sf)) < fuel)%nat ->
    (forall b, concat (split b) = b) -> good_sched (sk_sched k) ->
    exists out, linear_extract fuel r export = Ok out /\
      forall name id, In (name, id) (started 0 ops) -> name_in export name = true ->
      (N.to_nat (len (pieces 0 id ops)) + length (sk_sched k) < wfuel)%nat ->
      exists k', write_all_list SinkW wfuel k (flat_map split (pieces_to name out)) = (k', WAOk) /\
                 sk_data k' = sk_data k ++ pieces 0 id ops.
  Proof.
    intros HRS Hfuel Hsplit Hgood.
    destruct (linear_roundtrip r export fuel HRS Hfuel) as (out & Hlx & _ & Hdel & _).
    exists out. split; [exact Hlx|]. intros name id Hin Hch Hwf.
    pose proof (Hdel name id Hin) as Hd. rewrite Hch in Hd.
    assert (Hcat : concat (flat_map split (pieces_to name out)) = pieces 0 id ops).
    { rewrite <- Hd. unfold delivered. induction (pieces_to name out) as [|x l IHl]; [reflexivity|].
      cbn [flat_map concat]. rewrite concat_app, Hsplit, IHl. reflexivity. }
    destruct (write_all_seq wfuel (flat_map split (pieces_to name out)) k Hgood) as (k' & Hwa & Hdata & _).
    { rewrite Hcat. exact Hwf. }
    exists k'. rewrite Hcat in Hdata. auto.
  Qed.
End LinearRoundTrip.
