(* FormatCipher.v — C06: the cipher parameters with which the encryption-layer model is
   instantiated (InstGcm.v: keystream table gcm_ks, tag function gcm_tagc, both over the expanded
   AES-256 key) ARE Format.v's AEAD aseal_gcm (SP 800-38D one-shot, GcmSpec.v) under the archive
   key with the per-chunk nonce nonce8 . BE32(j): the hypothesis [cipher_agrees] of
   FormatWriterBridge.format_decode_writer_enc holds for them.  No axioms. *)
From MLA Require Import Limit.
From MLA Require Import Base EncLayer InstGcm Format FormatProofs FormatWriterBridge.
From MLA Require GcmProofs.
From MLA.Concrete Require Import Aes Ghash GcmSpec.
From Coq Require Import ZifyBool ZifyNat ZifyN.
Open Scope N_scope.

Lemma keystream_blocks_add rk nonce a : forall b i,
  keystream_blocks rk nonce (a + b) i =
  keystream_blocks rk nonce a i ++ keystream_blocks rk nonce b (i + N.of_nat a).
Proof.
  induction a as [|a IH]; intros b i; cbn [Nat.add keystream_blocks app].
  - rewrite N.add_0_r. reflexivity.
  - rewrite IH, <- app_assoc. do 3 f_equal. lia.
Qed.

Section Rk.
  Context {LIM : Limit}.
  Variable rk : list bytes.
  Hypothesis Hne : rk <> [].
  Hypothesis Hrk : Forall (fun k => length k = 16%nat) rk.
  Variable nonce : bytes.
  Hypothesis Hn : length nonce = 12%nat.

  (* a shorter key stream is a prefix of a longer one *)
  Lemma keystream_rk_prefix m n : m <= n -> takeN m (keystream_rk rk nonce n) = keystream_rk rk nonce m.
  Proof.
    intros Hmn. unfold keystream_rk. rewrite takeN_takeN. replace (N.min m n) with m by lia.
    set (km := N.to_nat ((m + 15) / 16)). set (kn := N.to_nat ((n + 15) / 16)).
    assert (Hk : (km <= kn)%nat).
    { unfold km, kn. pose proof (N.div_le_mono (m + 15) (n + 15) 16 ltac:(lia) ltac:(lia)). lia. }
    replace kn with (km + (kn - km))%nat by lia. rewrite keystream_blocks_add.
    apply takeN_app_le. rewrite (len_keystream_blocks rk nonce Hne Hrk Hn). unfold km. rewrite N2Nat.id.
    pose proof (N.div_mod (m + 15) 16 ltac:(lia)). pose proof (N.mod_lt (m + 15) 16 ltac:(lia)). lia.
  Qed.
End Rk.

(* xor with a key stream given by a byte function = xor_bytes with the stream as a list *)
Lemma xor_from_stream ks j : forall pt off str,
  (forall k, (k < length pt)%nat -> ks j (off + N.of_nat k) = nth k str 0) -> (length pt <= length str)%nat ->
  xor_from ks j off pt = xor_bytes pt (firstn (length pt) str).
Proof.
  induction pt as [|x pt IH]; intros off str Hks Hlen; cbn [xor_from length firstn xor_bytes]; [reflexivity|].
  destruct str as [|y str]; [cbn [length] in Hlen; lia|]. cbn [xor_bytes]. f_equal.
  - f_equal. specialize (Hks 0%nat ltac:(cbn [length]; lia)). rewrite N.add_0_r in Hks. exact Hks.
  - apply IH; [|cbn [length] in Hlen; lia].
    intros k Hk. specialize (Hks (Datatypes.S k) ltac:(cbn [length]; lia)). cbn [nth] in Hks. rewrite <- Hks. f_equal. lia.
Qed.

Lemma nth_gcm_tab rk nonce8 CHUNK n j : (j < n)%nat ->
  nth j (gcm_tab rk nonce8 CHUNK n) [] = keystream_rk rk (chunk_nonce nonce8 (N.of_nat j)) CHUNK.
Proof.
  intros Hj. unfold gcm_tab.
  rewrite (nth_indep _ [] (keystream_rk rk (chunk_nonce nonce8 (N.of_nat 0)) CHUNK))
    by (rewrite map_length, seq_length; exact Hj).
  rewrite (map_nth (fun i => keystream_rk rk (chunk_nonce nonce8 (N.of_nat i)) CHUNK)).
  rewrite seq_nth by exact Hj. reflexivity.
Qed.

(* InstGcm's table cipher, for the first n chunks, is aseal_gcm under kd *)
Theorem gcm_cipher_agrees CHUNK kd nonce8 n : key32 kd -> length nonce8 = 8%nat ->
  cipher_agrees CHUNK (gcm_ks (gcm_tab (aes256_expand kd) nonce8 CHUNK n)) (gcm_tagc (aes256_expand kd) nonce8)
                aseal_gcm kd nonce8 (N.of_nat n).
Proof.
  intros Hk H8 j pt Hj Hpt. destruct (GcmProofs.aes256_expand_ok kd Hk) as [Hne Hrk].
  set (rk := aes256_expand kd) in *.
  assert (Hn12 : length (chunk_nonce nonce8 j) = 12%nat).
  { unfold chunk_nonce. rewrite app_length, length_be_bytes, H8. reflexivity. }
  unfold chunk_enc, aseal_gcm, gcm_encrypt, gcm_encrypt_rk. cbn [fst snd]. fold rk.
  change (data_nonce nonce8 j) with (chunk_nonce nonce8 j). unfold gcm_tagc.
  assert (Hct : xor_from (gcm_ks (gcm_tab rk nonce8 CHUNK n)) j 0 pt = gcm_ctr_rk rk (chunk_nonce nonce8 j) pt).
  { unfold gcm_ctr_rk.
    rewrite (xor_from_stream _ j pt 0 (keystream_rk rk (chunk_nonce nonce8 j) CHUNK)).
    - f_equal.
      rewrite <- (keystream_rk_prefix rk Hne Hrk _ Hn12 (len pt) CHUNK Hpt).
      unfold takeN, len. rewrite Nat2N.id. reflexivity.
    - intros k _. unfold gcm_ks. rewrite N.add_0_l, Nat2N.id.
      rewrite <- (N2Nat.id j) at 2. rewrite nth_gcm_tab by lia. rewrite N2Nat.id. reflexivity.
    - pose proof (len_keystream_rk rk (chunk_nonce nonce8 j) CHUNK Hne Hrk Hn12) as Hl. unfold len in *. lia. }
  rewrite Hct. reflexivity.
Qed.
