(* ThrottledProofs.v — C13, reading side: a source that returns fewer bytes than asked on
   every read (Stream.Throttled, any schedule) gives what the in-memory cursor gives.
   Stated for ANY two streams that refine a cursor over the same bytes (so it also covers the
   encryption reader over a throttled inner stream, by enc_reader_refines), then instantiated
   with Throttled b / Cursor b:
     read_full, read_exact, parse_block (ArchiveFileBlock::from), get_hash. *)
From MLA Require Import Limit.
From MLA Require Import Base Stream Blocks Reader.
From Coq Require Import ZifyBool ZifyNat ZifyN.
Open Scope N_scope.

Section TwoStreams.
  Context {LIM : Limit}.
  Variables S1 S2 : Stream.
  Variable b : bytes.
  Variable R1 : st S1 -> N -> Prop.
  Variable R2 : st S2 -> N -> Prop.
  Hypothesis H1 : Refines S1 b R1.
  Hypothesis H2 : Refines S2 b R2.

  (* same result, corresponding positions *)
  Definition same {A} (x1 : st S1 * res A) (x2 : st S2 * res A) : Prop :=
    snd x1 = snd x2 /\ exists p', R1 (fst x1) p' /\ R2 (fst x2) p'.

  Lemma read_full_two fuel s1 s2 p n : R1 s1 p -> R2 s2 p ->
    (N.to_nat (N.min n (len b - p)) < fuel)%nat ->
    same (read_full S1 fuel s1 n) (read_full S2 fuel s2 n) /\
    snd (read_full S1 fuel s1 n) = Ok (sliceN p n b).
  Proof.
    intros Hr1 Hr2 Hf.
    destruct (read_full_spec S1 b R1 H1 fuel s1 p n Hr1 Hf) as (s1' & E1 & Hr1').
    destruct (read_full_spec S2 b R2 H2 fuel s2 p n Hr2 Hf) as (s2' & E2 & Hr2').
    rewrite E1, E2. unfold same. cbn [fst snd]. split; [split; [reflexivity | eauto] | reflexivity].
  Qed.

  Lemma read_exact_two fuel s1 s2 p n : R1 s1 p -> R2 s2 p ->
    (N.to_nat (N.min n (len b - p)) < fuel)%nat ->
    same (read_exact S1 fuel s1 n) (read_exact S2 fuel s2 n) /\
    snd (read_exact S1 fuel s1 n) = (if p + n <=? len b then Ok (sliceN p n b) else Err EUnexpectedEof).
  Proof.
    intros Hr1 Hr2 Hf.
    destruct (read_exact_spec S1 b R1 H1 fuel s1 p n Hr1 Hf) as (s1' & Hr1' & E1).
    destruct (read_exact_spec S2 b R2 H2 fuel s2 p n Hr2 Hf) as (s2' & Hr2' & E2).
    rewrite E1, E2. unfold same. cbn [fst snd]. split; [split; [reflexivity | eauto] | reflexivity].
  Qed.

  Lemma rexact_two s1 s2 p n : R1 s1 p -> R2 s2 p ->
    exists s1' s2' r p', rexact S1 s1 n = (s1', r) /\ rexact S2 s2 n = (s2', r) /\ R1 s1' p' /\ R2 s2' p'.
  Proof.
    intros Hr1 Hr2. unfold rexact.
    destruct (read_exact_spec S1 b R1 H1 (Datatypes.S (N.to_nat n)) s1 p n Hr1) as (s1' & Hr1' & E1); [lia|].
    destruct (read_exact_spec S2 b R2 H2 (Datatypes.S (N.to_nat n)) s2 p n Hr2) as (s2' & Hr2' & E2); [lia|].
    rewrite E1, E2. eauto 10.
  Qed.

  Lemma read_u64_two s1 s2 p : R1 s1 p -> R2 s2 p ->
    exists s1' s2' r p', read_u64 S1 s1 = (s1', r) /\ read_u64 S2 s2 = (s2', r) /\ R1 s1' p' /\ R2 s2' p'.
  Proof.
    intros Hr1 Hr2. unfold read_u64.
    destruct (rexact_two s1 s2 p 8 Hr1 Hr2) as (s1' & s2' & r & p' & E1 & E2 & Hr1' & Hr2').
    rewrite E1, E2. destruct r; eauto 10.
  Qed.

  Section Parse.
    Variable FNMAX : N.
    Variables T_START T_CONTENT T_EOA T_EOF : N.
    Notation pb1 := (parse_block FNMAX T_START T_CONTENT T_EOA T_EOF S1).
    Notation pb2 := (parse_block FNMAX T_START T_CONTENT T_EOA T_EOF S2).

    Ltac fin := do 4 eexists; repeat split; eauto.
    (* ArchiveFileBlock::from *)
    Theorem parse_block_two s1 s2 p : R1 s1 p -> R2 s2 p ->
      exists s1' s2' r p', pb1 s1 = (s1', r) /\ pb2 s2 = (s2', r) /\ R1 s1' p' /\ R2 s2' p'.
    Proof.
      intros Hr1 Hr2. unfold parse_block.
      destruct (rexact_two s1 s2 p 1 Hr1 Hr2) as (a & c & r & q & E1 & E2 & Ha & Hc).
      rewrite E1, E2. destruct r as [d|e|x]; [| fin | fin].
      destruct d as [|t [|t' d']]; [fin | | fin].
      destruct (t =? T_START).
      { destruct (read_u64_two a c _ Ha Hc) as (a2 & c2 & r2 & q2 & E3 & E4 & Ha2 & Hc2).
        rewrite E3, E4. destruct r2 as [id| |]; [|fin|fin].
        destruct (read_u64_two a2 c2 _ Ha2 Hc2) as (a3 & c3 & r3 & q3 & E5 & E6 & Ha3 & Hc3).
        rewrite E5, E6. destruct r3 as [l| |]; [|fin|fin].
        destruct (FNMAX <? l); [fin|].
        destruct (rexact_two a3 c3 _ l Ha3 Hc3) as (a4 & c4 & r4 & q4 & E7 & E8 & Ha4 & Hc4).
        rewrite E7, E8. destruct r4 as [nm| |]; [|fin|fin]. destruct (utf8_valid nm); fin. }
      destruct (t =? T_CONTENT).
      { destruct (read_u64_two a c _ Ha Hc) as (a2 & c2 & r2 & q2 & E3 & E4 & Ha2 & Hc2).
        rewrite E3, E4. destruct r2 as [id| |]; [|fin|fin].
        destruct (read_u64_two a2 c2 _ Ha2 Hc2) as (a3 & c3 & r3 & q3 & E5 & E6 & Ha3 & Hc3).
        rewrite E5, E6. destruct r3 as [l| |]; fin. }
      destruct (t =? T_EOF).
      { destruct (read_u64_two a c _ Ha Hc) as (a2 & c2 & r2 & q2 & E3 & E4 & Ha2 & Hc2).
        rewrite E3, E4. destruct r2 as [id| |]; [|fin|fin].
        destruct (rexact_two a2 c2 _ 32 Ha2 Hc2) as (a4 & c4 & r4 & q4 & E7 & E8 & Ha4 & Hc4).
        rewrite E7, E8. destruct r4 as [h| |]; fin. }
      destruct (t =? T_EOA); fin.
    Qed.

    (* ArchiveReader::get_hash: seek to the recorded offset, parse the EndOfFile block *)
    Theorem get_hash_two (r1 : rstate S1) (r2 : rstate S2) p name :
      r_meta r1 = r_meta r2 -> R1 (r_src r1) p -> R2 (r_src r2) p ->
      (forall fi, flookup (r_meta r1) name = Some fi -> fi_eof fi <= len b) ->
      let x1 := get_hash FNMAX T_START T_CONTENT T_EOA T_EOF S1 r1 name in
      let x2 := get_hash FNMAX T_START T_CONTENT T_EOA T_EOF S2 r2 name in
      snd x1 = snd x2 /\ r_meta (fst x1) = r_meta (fst x2) /\
      exists p', R1 (r_src (fst x1)) p' /\ R2 (r_src (fst x2)) p'.
    Proof.
      intros Hm Hr1 Hr2 Hoff. cbv zeta. unfold get_hash. rewrite <- Hm.
      destruct (flookup (r_meta r1) name) as [fi|] eqn:El; [|cbn [fst snd]; eauto].
      specialize (Hoff fi eq_refl).
      assert (Ht : target (len b) p (FromStart (fi_eof fi)) = Some (fi_eof fi)).
      { unfold target. destruct ((0 <=? Z.of_N (fi_eof fi)) && (Z.of_N (fi_eof fi) <=? Z.of_N (len b)))%Z eqn:E; [|lia].
        rewrite N2Z.id. reflexivity. }
      destruct (ref_sk _ _ _ H1 _ _ _ _ Hr1 Ht) as (a & Ea & Ha).
      destruct (ref_sk _ _ _ H2 _ _ _ _ Hr2 Ht) as (c & Ec & Hc).
      rewrite Ea, Ec.
      destruct (parse_block_two a c _ Ha Hc) as (a' & c' & r & q & E1 & E2 & Ha' & Hc').
      rewrite E1, E2. destruct r as [[]| |]; cbn [fst snd r_meta r_src]; eauto.
    Qed.
  End Parse.
End TwoStreams.

(* ---------- Throttled b against Cursor b ---------- *)

Definition Rthr (b : bytes) (s : N * list N) (p : N) : Prop := fst s = p /\ p <= len b.
Definition Rcur (b : bytes) (s : N) (p : N) : Prop := s = p /\ p <= len b.

(* whatever the schedule and wherever in the schedule the source stands *)
Theorem throttled_read_full b fuel pos sched n : pos <= len b ->
  (N.to_nat (N.min n (len b - pos)) < fuel)%nat ->
  snd (read_full (Throttled b) fuel (pos, sched) n) = snd (read_full (Cursor b) fuel pos n) /\
  fst (fst (read_full (Throttled b) fuel (pos, sched) n)) = fst (read_full (Cursor b) fuel pos n).
Proof.
  intros Hp Hf.
  destruct (read_full_two (Throttled b) (Cursor b) b _ _ (throttled_refines b) (cursor_refines b)
              fuel (pos, sched) pos pos n (conj eq_refl Hp) (conj eq_refl Hp) Hf)
    as [[Hs (p' & [Ha _] & [Hc _])] _].
  split; [exact Hs | congruence].
Qed.

Theorem throttled_read_exact b fuel pos sched n : pos <= len b ->
  (N.to_nat (N.min n (len b - pos)) < fuel)%nat ->
  snd (read_exact (Throttled b) fuel (pos, sched) n) = snd (read_exact (Cursor b) fuel pos n) /\
  fst (fst (read_exact (Throttled b) fuel (pos, sched) n)) = fst (read_exact (Cursor b) fuel pos n).
Proof.
  intros Hp Hf.
  destruct (read_exact_two (Throttled b) (Cursor b) b _ _ (throttled_refines b) (cursor_refines b)
              fuel (pos, sched) pos pos n (conj eq_refl Hp) (conj eq_refl Hp) Hf)
    as [[Hs (p' & [Ha _] & [Hc _])] _].
  split; [exact Hs | congruence].
Qed.

Theorem throttled_parse_block FNMAX TS TC TA TE b pos sched : pos <= len b ->
  snd (parse_block FNMAX TS TC TA TE (Throttled b) (pos, sched)) =
  snd (parse_block FNMAX TS TC TA TE (Cursor b) pos) /\
  fst (fst (parse_block FNMAX TS TC TA TE (Throttled b) (pos, sched))) =
  fst (parse_block FNMAX TS TC TA TE (Cursor b) pos).
Proof.
  intros Hp.
  destruct (parse_block_two (Throttled b) (Cursor b) b _ _ (throttled_refines b) (cursor_refines b)
              FNMAX TS TC TA TE (pos, sched) pos pos (conj eq_refl Hp) (conj eq_refl Hp))
    as (a & c & r & q & E1 & E2 & [Ha _] & [Hc _]).
  rewrite E1, E2. cbn [fst snd]. split; [reflexivity | congruence].
Qed.
