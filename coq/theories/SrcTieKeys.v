(* SrcTieKeys.v — Tie A for C19: the constants and call shapes tools/src2v.py read from
   mlar/src/main.rs (keygen, apply_derive, keyderive) and curve25519-parser/src/lib.rs
   (generate_keypair, export prefixes) equal what Derive.v / Keys.v use.  A changed salt, seed
   truncation, output length, hash, generator type or DER prefix breaks `make` here. *)
From MLA Require Import Base Keys Derive.
From MLA.Concrete Require Import HexS Sha512 Hkdf.
From MLAGen Require Src.
Open Scope N_scope.

Definition NAME_Sha512 : bytes := Eval vm_compute in bytes_of_string "Sha512".
Definition NAME_ChaChaRng : bytes := Eval vm_compute in bytes_of_string "ChaChaRng".

Lemma derive_path_salt : Src.DERIVE_PATH_SALT = DERIVE_PATH_SALT /\
  DERIVE_PATH_SALT = bytes_of_string "PATH DERIVATION".
Proof. split; reflexivity. Qed.

(* keygen: hseed = SHA-512(seed bytes)[0..32], for every dispatch of the hash name that maps
   "Sha512" to the model's sha512 *)
Lemma keygen_hseed_eq (hd : bytes -> bytes -> bytes) sha512 seed :
  hd NAME_Sha512 = sha512 ->
  (let '(digest, a, b) := Src.keygen_hseed hd seed in slice SITE_MAIN_816 digest a b)
  = keygen_prng_seed sha512 seed.
Proof. intros H. unfold Src.keygen_hseed. change [83; 104; 97; 53; 49; 50] with NAME_Sha512. rewrite H. reflexivity. Qed.

(* apply_derive: HKDF-<Sha512>(salt = Some DERIVE_PATH_SALT, ikm = src.to_bytes(), info = path), 32 bytes *)
Lemma apply_derive_eq (hk : bytes -> option bytes -> bytes -> bytes -> N -> bytes) hkdf512 path secret :
  hk NAME_Sha512 = hkdf512 ->
  Src.apply_derive hk path secret = apply_derive hkdf512 path secret.
Proof. intros H. unfold Src.apply_derive. change [83; 104; 97; 53; 49; 50] with NAME_Sha512. rewrite H. reflexivity. Qed.

Lemma rng_types :
  Src.KEYGEN_RNG = NAME_ChaChaRng /\ Src.KEYDERIVE_RNG = NAME_ChaChaRng /\ Src.RNG_IMPORT = NAME_ChaChaRng /\
  Src.SHA2_IMPORT = bytes_of_string "Digest,Sha512".
Proof. repeat apply conj; reflexivity. Qed.

Lemma key_sizes :
  Src.GENERATE_PRIVATE_LEN = PRIVATE_LEN /\ PRIVATE_LEN = 32 /\ PRNG_SEED_LEN = 32 /\ DERIVE_SEED_LEN = 32.
Proof. repeat apply conj; reflexivity. Qed.

Lemma export_prefixes :
  Src.PRIV_KEY_PREFIX = PRIV_KEY_PREFIX /\ Src.PUB_KEY_PREFIX = PUB_KEY_PREFIX /\
  Src.PRIV_KEY_TAG = PRIVATE_TAG /\ Src.PUB_KEY_TAG = PUBLIC_TAG.
Proof. repeat apply conj; reflexivity. Qed.
