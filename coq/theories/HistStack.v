(* HistStack.v — C10 at the ARCHIVE level for streams whose absolute seek forgets only up to
   a bisimulation (ComposeForgets.SeekForgetsE): the raw layer, the compression layer, the
   stack compression∘encryption∘raw∘source of ArchiveReader::from_config.

   Part 1 (Resp): every operation of Reader.v used by Run.hist_op — read_full / read_exact,
   ArchiveFileBlock::from, next_block, move_to_next_block, BlocksToFileReader::read, do_reads,
   io::copy(take), the linear_extract loop — RESPECTS any relation X that is a bisimulation
   for the stream calls: from X-related sources it returns equal results and leaves X-related
   sources.
   Part 2: get_hash / get_file / linear_extract begin with an ABSOLUTE seek; from two sources
   related by the start relation St (SeekForgetsE S St X) the rows of one history operation
   are equal (hist_op_respects), and the two sources it leaves are related by any Y that
   contains X, St and the pairs left by a failed absolute seek.
   Part 3: hist_groups over such a stream:
     hist_independent_St — if before every operation of the history the source is St-related
       to the source of the freshly opened reader, the rows of the i-th operation are the rows
       of that operation on the freshly opened reader;
     hist_independent_G  — the same from a condition on the FRESH reader only: G a one-state
       invariant with G a -> G b -> St a b, carried over by Y; it is enough that every
       operation of the history, run on the fresh reader, leaves it in G (e.g. because it
       succeeds there).  After an operation that leaves the fresh reader outside G (for the
       compression layer: poisoned, state Empty, after an inner I/O or decompression error)
       nothing is claimed — and nothing can be: ComposeForgets.comp_strict_refuted.
   Part 4: the stack instance. *)
From MLA Require Import Limit.
From MLA Require Import Base Stream EncLayer CompLayer RawLayer LayerStack Blocks Reader Inst Run HistProofs ComposeForgets.
From MLAGen Require Src.
From Coq Require Import ZifyBool ZifyNat ZifyN.
Open Scope N_scope.

Section Resp.
  Context {LIM : Limit}.
  Variable S : Stream.
  Variable X : st S -> st S -> Prop.
  Hypothesis HB : Bisim S X.

  Definition Resp {A} (c1 c2 : st S * res A) : Prop := snd c1 = snd c2 /\ X (fst c1) (fst c2).

  Lemma resp_ret {A} s1 s2 (r : res A) : X s1 s2 -> Resp (s1, r) (s2, r).
  Proof. intros H. split; [reflexivity | exact H]. Qed.

  Lemma rd_resp s1 s2 n : X s1 s2 -> Resp (rd S s1 n) (rd S s2 n).
  Proof.
    intros H. destruct (HB s1 s2 (SRead n) H) as [Hr Hx]. unfold run_sop in Hr, Hx.
    destruct (rd S s1 n) as [a r1], (rd S s2 n) as [b r2]. cbn [fst snd] in *.
    injection Hr as ->. split; [reflexivity | exact Hx].
  Qed.
  Lemma sk_resp s1 s2 w : X s1 s2 -> Resp (sk S s1 w) (sk S s2 w).
  Proof.
    intros H. destruct (HB s1 s2 (SSeek w) H) as [Hr Hx]. unfold run_sop in Hr, Hx.
    destruct (sk S s1 w) as [a r1], (sk S s2 w) as [b r2]. cbn [fst snd] in *.
    injection Hr as ->. split; [reflexivity | exact Hx].
  Qed.

  (* use a Resp fact: name the two computations apart, identify their results *)
  Ltac use H :=
    let Hr := fresh "Hr" in let Hx := fresh "Hx" in
    destruct H as [Hr Hx];
    match type of Hr with
    | snd ?c1 = snd ?c2 =>
      let a1 := fresh "a" in let r1 := fresh "r" in let a2 := fresh "b" in let r2 := fresh "q" in
      destruct c1 as [a1 r1]; destruct c2 as [a2 r2]; cbn [fst snd] in Hr, Hx; subst r2
    end.

  Lemma read_full_aux_resp fuel : forall s1 s2 n acc, X s1 s2 ->
    Resp (read_full_aux S fuel s1 n acc) (read_full_aux S fuel s2 n acc).
  Proof.
    induction fuel as [|fuel IH]; intros s1 s2 n acc H; cbn [read_full_aux].
    - destruct (n =? 0); apply resp_ret; exact H.
    - destruct (n =? 0); [apply resp_ret; exact H|].
      pose proof (rd_resp s1 s2 n H) as Hrd. use Hrd.
      destruct r as [d|e|c]; [|apply resp_ret; exact Hx..].
      destruct (len d =? 0); [apply resp_ret; exact Hx|].
      destruct (n <? len d); [apply resp_ret; exact Hx|]. apply IH. exact Hx.
  Qed.
  Lemma read_full_resp fuel s1 s2 n : X s1 s2 -> Resp (read_full S fuel s1 n) (read_full S fuel s2 n).
  Proof. apply read_full_aux_resp. Qed.
  Lemma read_exact_resp fuel s1 s2 n : X s1 s2 -> Resp (read_exact S fuel s1 n) (read_exact S fuel s2 n).
  Proof.
    intros H. unfold read_exact. pose proof (read_full_resp fuel s1 s2 n H) as Hrf. use Hrf.
    destruct r as [d|e|c]; [|apply resp_ret; exact Hx..].
    destruct (len d <? n); apply resp_ret; exact Hx.
  Qed.
  Lemma rexact_resp s1 s2 n : X s1 s2 -> Resp (rexact S s1 n) (rexact S s2 n).
  Proof. apply read_exact_resp. Qed.
  Lemma read_u64_resp s1 s2 : X s1 s2 -> Resp (read_u64 S s1) (read_u64 S s2).
  Proof.
    intros H. unfold read_u64. pose proof (rexact_resp s1 s2 8 H) as Hre. use Hre.
    destruct r; apply resp_ret; exact Hx.
  Qed.

  Variable FN : N.
  Variables TS TC TA TE : N.
  Notation parse_block := (parse_block FN TS TC TA TE S).
  Notation next_block := (next_block FN TS TC TA TE S).
  Notation bread := (bread FN TS TC TA TE S).
  Notation bread_ready := (bread_ready FN TS TC TA TE S).

  Lemma parse_block_resp s1 s2 : X s1 s2 -> Resp (parse_block s1) (parse_block s2).
  Proof.
    intros H. unfold Blocks.parse_block. pose proof (rexact_resp s1 s2 1 H) as H1. use H1.
    destruct r as [[|t [|t2 d]]|e|c]; try (apply resp_ret; exact Hx).
    destruct (t =? TS).
    { pose proof (read_u64_resp a b Hx) as H2. use H2. destruct r as [id|e|c]; [|apply resp_ret; assumption..].
      pose proof (read_u64_resp a0 b0 Hx0) as H3. use H3. destruct r as [l|e|c]; [|apply resp_ret; assumption..].
      destruct (FN <? l); [apply resp_ret; assumption|].
      pose proof (rexact_resp a1 b1 l Hx1) as H4. use H4. destruct r as [nm|e|c]; [|apply resp_ret; assumption..].
      destruct (utf8_valid nm); apply resp_ret; assumption. }
    destruct (t =? TC).
    { pose proof (read_u64_resp a b Hx) as H2. use H2. destruct r as [id|e|c]; [|apply resp_ret; assumption..].
      pose proof (read_u64_resp a0 b0 Hx0) as H3. use H3. destruct r as [l|e|c]; apply resp_ret; assumption. }
    destruct (t =? TE).
    { pose proof (read_u64_resp a b Hx) as H2. use H2. destruct r as [id|e|c]; [|apply resp_ret; assumption..].
      pose proof (rexact_resp a0 b0 32 Hx0) as H3. use H3. destruct r as [h|e|c]; apply resp_ret; assumption. }
    destruct (t =? TA); apply resp_ret; exact Hx.
  Qed.

  Lemma next_block_resp zf id : forall s1 s2, X s1 s2 -> Resp (next_block zf id s1) (next_block zf id s2).
  Proof.
    induction zf as [|zf IH]; intros s1 s2 H; cbn [Reader.next_block];
      pose proof (parse_block_resp s1 s2 H) as H1; use H1;
      (destruct r as [[i nm|i l|i h|]|e|c]; try (apply resp_ret; exact Hx));
      (destruct ((i =? id) && (l =? 0)); [|apply resp_ret; exact Hx]).
    - apply resp_ret; exact Hx.
    - apply IH. exact Hx.
  Qed.

  (* ---------- BlocksToFileReader ---------- *)
  Definition XB (b1 b2 : bstate S) : Prop :=
    X (b_src b1) (b_src b2) /\ b_mode b1 = b_mode b2 /\ b_id b1 = b_id b2 /\ b_cur b1 = b_cur b2 /\
    b_offs b1 = b_offs b2.
  Definition RespB {A} (c1 c2 : bstate S * A) : Prop := snd c1 = snd c2 /\ XB (fst c1) (fst c2).

  Lemma xb_mk s1 s2 m i c o : X s1 s2 -> XB (mkB s1 m i c o) (mkB s2 m i c o).
  Proof. intros H. repeat split; auto. Qed.

  Lemma respB_ret {A} b1 b2 (r : A) : XB b1 b2 -> RespB (b1, r) (b2, r).
  Proof. intros H. split; [reflexivity | exact H]. Qed.

  Lemma bmove_resp b1 b2 : XB b1 b2 -> RespB (bmove S b1) (bmove S b2).
  Proof.
    destruct b1 as [s1 m i c o], b2 as [s2 m2 i2 c2 o2]. intros (Hx & Hm & Hi & Hc & Ho). cbn [b_src b_mode b_id b_cur b_offs] in *.
    subst m2 i2 c2 o2. unfold bmove. cbn [b_src b_mode b_id b_cur b_offs].
    destruct (nth_error o (Datatypes.S c)) as [off|]; [|apply respB_ret, xb_mk; exact Hx].
    pose proof (sk_resp s1 s2 (FromStart off) Hx) as H1. use H1.
    destruct r; apply respB_ret, xb_mk; exact Hx0.
  Qed.

  Lemma bread_data_resp b1 b2 s1 s2 rem n : XB b1 b2 -> X s1 s2 ->
    RespB (bread_data S b1 s1 rem n) (bread_data S b2 s2 rem n).
  Proof.
    destruct b1 as [s1' m i c o], b2 as [s2' m2 i2 c2 o2]. intros (_ & Hm & Hi & Hc & Ho) Hx. cbn [b_src b_mode b_id b_cur b_offs] in *.
    subst m2 i2 c2 o2. unfold bread_data, bset. cbn [b_src b_mode b_id b_cur b_offs].
    pose proof (rd_resp s1 s2 (N.min rem n) Hx) as H1. use H1.
    destruct r as [d|e|cc]; [|apply respB_ret, xb_mk; exact Hx0..].
    destruct (rem <? len d); apply respB_ret, xb_mk; exact Hx0.
  Qed.

  Lemma bread_ready_resp zf fuel : forall b1 b2 n, XB b1 b2 ->
    RespB (bread_ready fuel zf b1 n) (bread_ready fuel zf b2 n).
  Proof.
    induction fuel as [|fuel IH]; intros b1 b2 n HXB; pose proof HXB as HXB';
      destruct b1 as [s1 m i c o], b2 as [s2 m2 i2 c2 o2]; destruct HXB as (Hx & Hm & Hi & Hc & Ho);
      cbn [b_src b_mode b_id b_cur b_offs] in *; subst m2 i2 c2 o2;
      cbn [Reader.bread_ready]; unfold bset; cbn [b_src b_mode b_id b_cur b_offs];
      pose proof (next_block_resp zf i s1 s2 Hx) as H1; use H1;
      (destruct r as [pb|e|cc]; [|apply respB_ret, xb_mk; exact Hx0..]).
    - destruct pb as [j nm|j l|j h|]; try (destruct (j =? i)); try (apply respB_ret, xb_mk; exact Hx0).
      apply (bread_data_resp (mkB a BReady i c o) (mkB b BReady i c o)); [apply xb_mk|]; exact Hx0.
    - assert (Hskip : RespB
        (match bmove S (mkB a BReady i c o) with
         | (b2, Ok _) => bread_ready fuel zf b2 n
         | (b2, Err e) => (b2, Err e)
         | (b2, Crash c0) => (b2, Crash c0)
         end)
        (match bmove S (mkB b BReady i c o) with
         | (b2, Ok _) => bread_ready fuel zf b2 n
         | (b2, Err e) => (b2, Err e)
         | (b2, Crash c0) => (b2, Crash c0)
         end)).
      { pose proof (bmove_resp (mkB a BReady i c o) (mkB b BReady i c o) (xb_mk _ _ _ _ _ _ Hx0)) as Hm.
        destruct Hm as [Hr Hb]. destruct (bmove S (mkB a BReady i c o)) as [ba ra], (bmove S (mkB b BReady i c o)) as [bb rb].
        cbn [fst snd] in Hr, Hb. subst rb. destruct ra as [u|e|cc]; [apply IH; exact Hb | apply respB_ret; exact Hb..]. }
      destruct pb as [j nm|j l|j h|]; try (destruct (j =? i)); try exact Hskip; try (apply respB_ret, xb_mk; exact Hx0).
      apply (bread_data_resp (mkB a BReady i c o) (mkB b BReady i c o)); [apply xb_mk|]; exact Hx0.
  Qed.

  Lemma bread_resp zf b1 b2 n : XB b1 b2 -> RespB (bread zf b1 n) (bread zf b2 n).
  Proof.
    intros HXB. pose proof HXB as (Hx & Hm & Hi & Hc & Ho). unfold Reader.bread. rewrite <- Hm, <- Ho.
    destruct (b_mode b1) as [|rem|].
    - apply bread_ready_resp. exact HXB.
    - apply bread_data_resp; assumption.
    - apply respB_ret. exact HXB.
  Qed.

  (* ---------- Run.do_reads ---------- *)
  Variable k : consts.
  Hypothesis HFN : FN = cFNMAX k.
  Hypothesis HTS : TS = Src.BT_FileStart.
  Hypothesis HTC : TC = Src.BT_FileContent.
  Hypothesis HTA : TA = Src.BT_EndOfArchiveData.
  Hypothesis HTE : TE = Src.BT_EndOfFile.

  Lemma do_reads_resp zf fuel : forall b1 b2 sizes to_end, XB b1 b2 ->
    RespB (do_reads k S zf fuel b1 sizes to_end) (do_reads k S zf fuel b2 sizes to_end).
  Proof.
    induction fuel as [|fuel IH]; intros b1 b2 sizes to_end HXB; cbn [do_reads]; [apply respB_ret; exact HXB|].
    destruct sizes as [|n rest]; [apply respB_ret; exact HXB|].
    pose proof (bread_resp zf b1 b2 n HXB) as H1. subst FN TS TC TA TE.
    destruct H1 as [Hr Hb].
    destruct (Reader.bread (cFNMAX k) Src.BT_FileStart Src.BT_FileContent Src.BT_EndOfArchiveData Src.BT_EndOfFile S zf b1 n) as [ba ra].
    destruct (Reader.bread (cFNMAX k) Src.BT_FileStart Src.BT_FileContent Src.BT_EndOfArchiveData Src.BT_EndOfFile S zf b2 n) as [bb rb].
    cbn [fst snd] in Hr, Hb. subst rb.
    destruct ra as [d|e|c]; [|apply respB_ret; exact Hb..].
    destruct (match rest with [] => to_end && negb (len d =? 0) | _ :: _ => true end); [|apply respB_ret; exact Hb].
    pose proof (IH ba bb (match rest with [] => [n] | _ :: _ => rest end) to_end Hb) as [Hr2 Hb2].
    destruct (do_reads k S zf fuel ba _ to_end) as [b1' rows1], (do_reads k S zf fuel bb _ to_end) as [b2' rows2].
    cbn [fst snd] in Hr2, Hb2. subst rows2. apply respB_ret. exact Hb2.
  Qed.

  (* ---------- linear_extract ---------- *)
  Lemma copy_take_resp fuel : forall s1 s2 l acc, X s1 s2 ->
    Resp (copy_take S fuel s1 l acc) (copy_take S fuel s2 l acc).
  Proof.
    induction fuel as [|fuel IH]; intros s1 s2 l acc H; cbn [copy_take].
    - destruct (l =? 0); apply resp_ret; exact H.
    - destruct (l =? 0); [apply resp_ret; exact H|].
      pose proof (rd_resp s1 s2 (N.min l 8192) H) as Hrd. use Hrd.
      destruct r as [d|e|c]; [|apply resp_ret; exact Hx..].
      destruct (len d =? 0); [apply resp_ret; exact Hx|].
      destruct (l <? len d); [apply resp_ret; exact Hx|]. apply IH. exact Hx.
  Qed.

  Lemma lx_loop_resp fuel : forall s1 s2 export ids acc, X s1 s2 ->
    lx_loop FN TS TC TA TE S fuel s1 export ids acc = lx_loop FN TS TC TA TE S fuel s2 export ids acc.
  Proof.
    induction fuel as [|fuel IH]; intros s1 s2 export ids acc H; cbn [lx_loop]; [reflexivity|].
    pose proof (parse_block_resp s1 s2 H) as H1. use H1.
    destruct r as [[i nm|i l|i h|]|e|c]; try reflexivity.
    - apply IH. exact Hx.
    - pose proof (copy_take_resp (Datatypes.S fuel) a b l [] Hx) as H2. use H2.
      destruct r as [d|e|c]; try reflexivity.
      destruct (id_lookup ids i); apply IH; exact Hx0.
    - apply IH. exact Hx.
  Qed.
End Resp.

(* ---------- operations that begin with an absolute seek ---------- *)
Section HistE.
  Context {LIM : Limit}.
  Variable k : consts.
  Variable S : Stream.
  Variables St X : st S -> st S -> Prop.
  Hypothesis HFE : SeekForgetsE S St X.
  Notation TS := Src.BT_FileStart. Notation TC := Src.BT_FileContent.
  Notation TA := Src.BT_EndOfArchiveData. Notation TE := Src.BT_EndOfFile.
  Let FN := cFNMAX k.

  (* what relates the two sources an operation leaves: X after a successful absolute seek, St
     when the operation did not touch the source, and the pairs left by a failed absolute seek *)
  Variable Y : st S -> st S -> Prop.
  Hypothesis HXY : forall a b, X a b -> Y a b.
  Hypothesis HSY : forall a b, St a b -> Y a b.
  Hypothesis HFY : forall a b p, St a b -> is_ok (snd (sk S a (FromStart p))) = false ->
    Y (fst (sk S a (FromStart p))) (fst (sk S b (FromStart p))).

  Let HB : Bisim S X := proj2 HFE.

  Lemma seek_St s1 s2 p : St s1 s2 ->
    (exists a b v, sk S s1 (FromStart p) = (a, Ok v) /\ sk S s2 (FromStart p) = (b, Ok v) /\ X a b) \/
    (exists a b r, sk S s1 (FromStart p) = (a, r) /\ sk S s2 (FromStart p) = (b, r) /\ is_ok r = false /\ Y a b).
  Proof.
    intros H. destruct (proj1 HFE s1 s2 p H) as [Hr Hst]. pose proof (HFY s1 s2 p H) as Hf.
    destruct (sk S s1 (FromStart p)) as [a r1]. destruct (sk S s2 (FromStart p)) as [b r2].
    cbn [fst snd] in *. subst r2. destruct r1 as [v|e|c].
    - left. exists a, b, v. auto.
    - right. exists a, b, (Err e). auto.
    - right. exists a, b, (Crash c). auto.
  Qed.

  (* get_hash: equal results, Y-related sources *)
  Lemma get_hash_St s1 s2 m name : St s1 s2 ->
    snd (get_hash FN TS TC TA TE S (mkR s1 m) name) = snd (get_hash FN TS TC TA TE S (mkR s2 m) name) /\
    Y (r_src (fst (get_hash FN TS TC TA TE S (mkR s1 m) name))) (r_src (fst (get_hash FN TS TC TA TE S (mkR s2 m) name))).
  Proof.
    intros H. unfold get_hash. cbn [r_meta r_src]. destruct (flookup m name) as [fi|]; [|split; [reflexivity | apply HSY; exact H]].
    destruct (seek_St s1 s2 (fi_eof fi) H) as [(a & b & v & E1 & E2 & Hx) | (a & b & r & E1 & E2 & Hn & Hy)]; rewrite E1, E2.
    - destruct (parse_block_resp S X HB FN TS TC TA TE a b Hx) as [Hr Hx'].
      destruct (parse_block FN TS TC TA TE S a) as [a' ra], (parse_block FN TS TC TA TE S b) as [b' rb].
      cbn [fst snd] in Hr, Hx'. subst rb. apply HXY in Hx'.
      destruct ra as [[]|e|c]; cbn [fst snd r_src]; split; auto.
    - destruct r; [discriminate | split; [reflexivity | exact Hy]..].
  Qed.

  (* get_file: the two file readers are XB-related *)
  Definition same_file (x1 x2 : res (option (bstate S * N))) : Prop :=
    match x1, x2 with
    | Ok (Some (b1, z1)), Ok (Some (b2, z2)) => z1 = z2 /\ XB S X b1 b2
    | Ok None, Ok None => True
    | Err e1, Err e2 => e1 = e2
    | Crash c1, Crash c2 => c1 = c2
    | _, _ => False
    end.

  Lemma get_file_St s1 s2 m name : St s1 s2 ->
    same_file (snd (get_file FN TS TC TA TE S (mkR s1 m) name)) (snd (get_file FN TS TC TA TE S (mkR s2 m) name)) /\
    Y (r_src (fst (get_file FN TS TC TA TE S (mkR s1 m) name))) (r_src (fst (get_file FN TS TC TA TE S (mkR s2 m) name))).
  Proof.
    intros H. unfold get_file. cbn [r_meta r_src].
    destruct (flookup m name) as [fi|]; [|split; [exact I | apply HSY; exact H]].
    destruct (fi_offsets fi) as [|o0 offs]; [split; [reflexivity | apply HSY; exact H]|].
    destruct (seek_St s1 s2 o0 H) as [(a & b & v & E1 & E2 & Hx) | (a & b & r & E1 & E2 & Hn & Hy)]; rewrite E1, E2.
    - destruct (parse_block_resp S X HB FN TS TC TA TE a b Hx) as [Hr Hx'].
      destruct (parse_block FN TS TC TA TE S a) as [a' ra], (parse_block FN TS TC TA TE S b) as [b' rb].
      cbn [fst snd] in Hr, Hx'. subst rb. pose proof (HXY _ _ Hx') as Hy.
      destruct ra as [[]|e|c]; cbn [fst snd r_src same_file]; split; auto.
      split; [reflexivity|]. apply xb_mk. exact Hx'.
    - destruct r; [discriminate | split; [reflexivity | exact Hy]..].
  Qed.

  Lemma linear_extract_St fuel s1 s2 m export : St s1 s2 ->
    linear_extract FN TS TC TA TE S fuel (mkR s1 m) export = linear_extract FN TS TC TA TE S fuel (mkR s2 m) export.
  Proof.
    intros H. unfold linear_extract. cbn [r_src].
    destruct (seek_St s1 s2 0 H) as [(a & b & v & E1 & E2 & Hx) | (a & b & r & E1 & E2 & Hn & Hy)]; rewrite E1, E2.
    - apply (lx_loop_resp S X HB). exact Hx.
    - destruct r; [discriminate | reflexivity..].
  Qed.

  (* one operation of a history *)
  Theorem hist_op_respects fuel names s1 s2 m op : St s1 s2 ->
    snd (hist_op k S fuel names (mkR s1 m) op) = snd (hist_op k S fuel names (mkR s2 m) op) /\
    Y (r_src (fst (hist_op k S fuel names (mkR s1 m) op))) (r_src (fst (hist_op k S fuel names (mkR s2 m) op))) /\
    r_meta (fst (hist_op k S fuel names (mkR s1 m) op)) = m /\
    r_meta (fst (hist_op k S fuel names (mkR s2 m) op)) = m.
  Proof.
    intros H. pose proof (HSY _ _ H) as HY0.
    assert (Hfile : forall i sizes to_end,
      let f := fun s =>
        match get_file FN TS TC TA TE S (mkR s m) (nth (N.to_nat i) names []) with
        | (r1, Ok (Some (b, size))) =>
          let '(b1, rows) := do_reads k S fuel fuel b sizes to_end in
          (mkR (b_src b1) (r_meta r1), [7; size] :: rows)
        | (r1, Ok None) => (r1, [[4]])
        | (r1, x) => (r1, [err_row x])
        end in
      snd (f s1) = snd (f s2) /\ Y (r_src (fst (f s1))) (r_src (fst (f s2))) /\
      r_meta (fst (f s1)) = m /\ r_meta (fst (f s2)) = m).
    { intros i sizes to_end f. unfold f.
      destruct (get_file_St s1 s2 m (nth (N.to_nat i) names []) H) as [Hsf Hy].
      pose proof (get_file_meta k S (mkR s1 m) (nth (N.to_nat i) names [])) as M1.
      pose proof (get_file_meta k S (mkR s2 m) (nth (N.to_nat i) names [])) as M2.
      cbn [r_meta] in M1, M2. fold FN in M1, M2.
      destruct (get_file FN TS TC TA TE S (mkR s1 m) _) as [ra xa].
      destruct (get_file FN TS TC TA TE S (mkR s2 m) _) as [rb xb].
      cbn [fst snd] in *.
      destruct xa as [[[b1 z1]|]|e1|c1], xb as [[[b2 z2]|]|e2|c2]; cbn [same_file] in Hsf; try contradiction;
        cbn [fst snd]; try (subst; repeat split; auto; fail).
      destruct Hsf as [<- Hxb].
      destruct (do_reads_resp S X HB FN TS TC TA TE k eq_refl eq_refl eq_refl eq_refl eq_refl fuel fuel b1 b2 sizes to_end Hxb) as [Hr Hb].
      destruct (do_reads k S fuel fuel b1 sizes to_end) as [b1' rows1], (do_reads k S fuel fuel b2 sizes to_end) as [b2' rows2].
      cbn [fst snd] in *. subst rows2. repeat split; auto. apply HXY. exact (proj1 Hb). }
    unfold hist_op.
    destruct op as [|c rest]; [repeat split; auto|].
    destruct c as [|c].
    { destruct rest; repeat split; auto. }
    destruct c as [c|c|].
    - destruct c as [c|c|].
      + destruct rest; repeat split; auto.
      + destruct rest; repeat split; auto.
      + destruct rest as [|i [|n [|? ?]]]; try (repeat split; auto; fail).
        exact (Hfile i [n] true).
    - destruct c as [c|c|].
      + destruct rest; repeat split; auto.
      + destruct c as [c|c|]; try (destruct rest; repeat split; auto; fail).
        fold FN. rewrite (linear_extract_St fuel s1 s2 m _ H).
        destruct (linear_extract FN TS TC TA TE S fuel (mkR s2 m) _); repeat split; auto.
      + destruct rest as [|i sizes]; [repeat split; auto|].
        exact (Hfile i sizes false).
    - destruct rest as [|i [|? ?]]; try (repeat split; auto; fail).
      fold FN.
      destruct (get_hash_St s1 s2 m (nth (N.to_nat i) names []) H) as [Hr Hy].
      pose proof (get_hash_meta k S (mkR s1 m) (nth (N.to_nat i) names [])) as M1.
      pose proof (get_hash_meta k S (mkR s2 m) (nth (N.to_nat i) names [])) as M2.
      cbn [r_meta] in M1, M2. fold FN in M1, M2.
      destruct (get_hash FN TS TC TA TE S (mkR s1 m) _) as [ra xa].
      destruct (get_hash FN TS TC TA TE S (mkR s2 m) _) as [rb xb].
      cbn [fst snd] in *. subst xb.
      destruct xa as [[h|]|e|c]; cbn [fst snd]; repeat split; auto.
  Qed.

  (* ---------- histories ---------- *)
  (* the readers before each operation of a history *)
  Fixpoint hist_readers (fuel : nat) (names : list bytes) (r : rstate S) (ops : list (list N)) : list (rstate S) :=
    match ops with
    | [] => []
    | op :: rest => r :: hist_readers fuel names (fst (hist_op k S fuel names r op)) rest
    end.

  (* if before every operation the source is St-related to the fresh one, every operation
     returns what it returns on the freshly opened reader *)
  Theorem hist_independent_St fuel names r0 ops :
    Forall (fun r => St (r_src r0) (r_src r)) (hist_readers fuel names r0 ops) ->
    hist_groups k S fuel names r0 ops = map (fun op => snd (hist_op k S fuel names r0 op)) ops.
  Proof.
    destruct r0 as [s0 m].
    assert (G : forall s, Forall (fun r => St s0 (r_src r)) (hist_readers fuel names (mkR s m) ops) ->
              hist_groups k S fuel names (mkR s m) ops = map (fun op => snd (hist_op k S fuel names (mkR s0 m) op)) ops).
    { induction ops as [|op rest IH]; intros s Hall; cbn [hist_groups map hist_readers] in *; [reflexivity|].
      inversion Hall as [|? ? Hs Hrest]; subst. cbn [r_src] in Hs.
      destruct (hist_op_respects fuel names s0 s m op Hs) as (Hrows & _ & _ & Hm2).
      destruct (hist_op k S fuel names (mkR s m) op) as [[s1 m1] rows] eqn:E.
      cbn [fst snd r_meta] in *. subst m1. rewrite <- Hrows. f_equal. apply IH. exact Hrest. }
    intros Hall. apply G. exact Hall.
  Qed.

  (* the same from a condition on the FRESH reader only *)
  Variable G : st S -> Prop.
  Hypothesis HGS : forall a b, G a -> G b -> St a b.
  Hypothesis HYG : forall a b, Y a b -> G a -> G b.

  Theorem hist_independent_G fuel names r0 ops : G (r_src r0) ->
    Forall (fun op => G (r_src (fst (hist_op k S fuel names r0 op)))) ops ->
    hist_groups k S fuel names r0 ops = map (fun op => snd (hist_op k S fuel names r0 op)) ops /\
    Forall (fun r => G (r_src r)) (hist_readers fuel names r0 ops).
  Proof.
    destruct r0 as [s0 m]. cbn [r_src]. intros HG0.
    assert (Hgen : forall s, G s -> Forall (fun op => G (r_src (fst (hist_op k S fuel names (mkR s0 m) op)))) ops ->
              hist_groups k S fuel names (mkR s m) ops = map (fun op => snd (hist_op k S fuel names (mkR s0 m) op)) ops /\
              Forall (fun r => G (r_src r)) (hist_readers fuel names (mkR s m) ops)).
    { induction ops as [|op rest IH]; intros s HGs Hall; cbn [hist_groups map hist_readers]; [split; [reflexivity | constructor]|].
      inversion Hall as [|? ? Hop Hrest]; subst.
      destruct (hist_op_respects fuel names s0 s m op (HGS _ _ HG0 HGs)) as (Hrows & Hy & _ & Hm2).
      pose proof (HYG _ _ Hy Hop) as HG1.
      destruct (hist_op k S fuel names (mkR s m) op) as [[s1 m1] rows] eqn:E.
      cbn [fst snd r_meta r_src] in *. subst m1.
      destruct (IH s1 HG1 Hrest) as [Hg Hr]. split.
      - rewrite <- Hrows. f_equal. exact Hg.
      - constructor; [exact HGs | exact Hr]. }
    intros Hall. exact (Hgen s0 HG0 Hall).
  Qed.
End HistE.

(* ---------- the compression layer: what a FAILED absolute seek leaves ---------- *)
Section CompFail.
  Context {LIM : Limit}.
  Variable BLOCK : N.
  Variable dec : bytes -> bytes.
  Variable T : Stream.
  Notation cseek := (cseek BLOCK dec T).

  (* the failing seeks that do not touch the reader: no sizes_info, or a position beyond the end *)
  Definition stay (si : option sizes_info) (p : N) : bool :=
    match si with
    | None => true
    | Some s => negb (pos_in_stream BLOCK (Some s) (p - p mod BLOCK)) && negb (p =? si_max BLOCK s)
    end.

  Lemma stay_keeps (c : creader T) p : stay (c_si c) p = true -> fst (cseek c (FromStart p)) = c.
  Proof.
    unfold stay, CompLayer.cseek, cseek_start, cseek_start_go. destruct (c_si c) as [s|] eqn:Esi; [|reflexivity].
    intros Hs. apply andb_true_iff in Hs. destruct Hs as [H1 H2].
    destruct (c_state c); try reflexivity; rewrite H1, H2; reflexivity.
  Qed.

  Lemma cseek_start_si (c : creader T) p : c_si (fst (cseek c (FromStart p))) = c_si c.
  Proof.
    unfold CompLayer.cseek, cseek_start, cseek_start_go. destruct (c_si c) as [s|] eqn:Esi; [|exact Esi].
    destruct (c_state c) eqn:Est; try exact Esi;
      repeat match goal with
             | |- context [if ?b then _ else _] => destruct b
             | |- context [match ?x with _ => _ end] => destruct x
             end; cbn [fst c_si set_state]; auto.
  Qed.

  (* every other failing seek poisons the reader *)
  Lemma not_stay_fail (c : creader T) p : stay (c_si c) p = false ->
    is_ok (snd (cseek c (FromStart p))) = false -> c_state (fst (cseek c (FromStart p))) = CEmpty.
  Proof.
    unfold stay, CompLayer.cseek, cseek_start, cseek_start_go. destruct (c_si c) as [s|] eqn:Esi; [|discriminate].
    intros Hs. destruct (c_state c) eqn:Est; try (intros _; exact Est);
      repeat match goal with
             | |- context [if ?b then _ else _] => destruct b eqn:?
             | |- context [match ?x with _ => _ end] => destruct x eqn:?
             end; cbn [fst snd c_state set_state is_ok into_inner] in *; try reflexivity; try discriminate.
  Qed.
End CompFail.

(* ---------- Part 4: compression over encryption over raw over a source ---------- *)
Section StackHist.
  Context {LIM : Limit}.
  Variable k : consts.
  Variables CHUNK TAG BLOCK : N.
  Variable ks : N -> N -> N.
  Variable tagc : N -> bytes -> bytes.
  Variable dec : bytes -> bytes.
  Variable Src : Stream.
  Hypothesis HSrc : SeekForgetsP Src (fun _ _ => True).      (* the in-memory cursor *)

  Notation Stack := (CompS CHUNK TAG BLOCK ks tagc dec Src).
  Notation EncT := (EncS CHUNK TAG ks tagc Src).
  Notation Pst := (Pstack CHUNK TAG BLOCK ks tagc dec Src (fun _ _ => True)).
  Notation Est := (Estack CHUNK TAG BLOCK ks tagc dec Src (fun _ _ => True)).

  Lemma HFEstack : SeekForgetsE Stack Pst Est.
  Proof. apply forgetsE_stack. exact HSrc. Qed.

  (* C10, stack, first form: a condition on the sources met along the history *)
  Theorem stack_hist_independent_St fuel names (r0 : rstate Stack) ops :
    Forall (fun r => Pst (r_src r0) (r_src r)) (hist_readers k Stack fuel names r0 ops) ->
    hist_groups k Stack fuel names r0 ops = map (fun op => snd (hist_op k Stack fuel names r0 op)) ops.
  Proof.
    apply (hist_independent_St k Stack Pst Est HFEstack (fun _ _ => True)); auto.
  Qed.

  (* the offset_pos of the raw layer under a state of the encryption layer *)
  Definition roff (i : st EncT) : N := r_off (e_in i).

  (* THE STACK INVARIANT: the compression reader is not poisoned (state Ready or InData, not
     Empty), holds the sizes_info si0, and the raw layer's offset_pos is off0 *)
  Definition Gstack (si0 : option sizes_info) (off0 : N) (c : st Stack) : Prop :=
    c_si c = si0 /\ exists i, into_inner EncT (c_state c) = Ok i /\ roff i = off0.

  (* carried from one source to the other by an operation *)
  Definition Ystack (a b : st Stack) : Prop :=
    c_si a = c_si b /\
    forall i, into_inner EncT (c_state a) = Ok i -> exists j, into_inner EncT (c_state b) = Ok j /\ roff i = roff j.

  Lemma Gstack_Pst si0 off0 a b : Gstack si0 off0 a -> Gstack si0 off0 b -> Pst a b.
  Proof.
    intros [Ha (i & Hi & Hoi)] [Hb (j & Hj & Hoj)]. split; [congruence|].
    exists i, j. split; [exact Hi|]. split; [exact Hj|]. split; [unfold roff in *; congruence | exact I].
  Qed.
  Lemma Ystack_G si0 off0 a b : Ystack a b -> Gstack si0 off0 a -> Gstack si0 off0 b.
  Proof.
    intros [Hsi Hy] [Ha (i & Hi & Hoi)]. destruct (Hy i Hi) as (j & Hj & Hij).
    split; [congruence|]. exists j. split; [exact Hj | congruence].
  Qed.
  Lemma Est_Y a b : Est a b -> Ystack a b.
  Proof.
    intros [->|(i1 & i2 & si & pos & -> & -> & [Ho _])].
    - split; [reflexivity|]. intros i Hi. exists i. auto.
    - split; [reflexivity|]. cbn [c_state into_inner]. intros i [= <-]. exists i2. split; [reflexivity | exact Ho].
  Qed.
  Lemma Pst_Y a b : Pst a b -> Ystack a b.
  Proof.
    intros [Hsi (i1 & i2 & H1 & H2 & [Ho _])]. split; [exact Hsi|].
    intros i Hi. rewrite H1 in Hi. injection Hi as <-. exists i2. split; [exact H2 | exact Ho].
  Qed.
  Lemma fail_Y a b p : Pst a b -> is_ok (snd (sk Stack a (FromStart p))) = false ->
    Ystack (fst (sk Stack a (FromStart p))) (fst (sk Stack b (FromStart p))).
  Proof.
    intros HP Hf. pose proof HP as [Hsi _].
    change (is_ok (snd (cseek BLOCK dec EncT a (FromStart p))) = false) in Hf.
    change (Ystack (fst (cseek BLOCK dec EncT a (FromStart p))) (fst (cseek BLOCK dec EncT b (FromStart p)))).
    destruct (stay BLOCK (c_si a) p) eqn:Es.
    - pose proof (stay_keeps BLOCK dec EncT a p Es) as Ka. rewrite Hsi in Es.
      pose proof (stay_keeps BLOCK dec EncT b p Es) as Kb. rewrite Ka, Kb.
      apply Pst_Y. exact HP.
    - pose proof (not_stay_fail BLOCK dec EncT a p Es Hf) as He.
      pose proof (cseek_start_si BLOCK dec EncT a p) as Sa. pose proof (cseek_start_si BLOCK dec EncT b p) as Sb.
      split.
      + rewrite Sa, Sb. exact Hsi.
      + rewrite He. cbn [into_inner]. discriminate.
  Qed.

  (* C10, stack, second form: it is enough that every operation of the history, run on the
     FRESHLY OPENED reader, leaves it in the invariant; then along the history the reader stays
     in the invariant and every operation returns what it returns on the fresh reader *)
  Theorem stack_hist_independent si0 off0 fuel names (r0 : rstate Stack) ops :
    Gstack si0 off0 (r_src r0) ->
    Forall (fun op => Gstack si0 off0 (r_src (fst (hist_op k Stack fuel names r0 op)))) ops ->
    hist_groups k Stack fuel names r0 ops = map (fun op => snd (hist_op k Stack fuel names r0 op)) ops /\
    Forall (fun r => Gstack si0 off0 (r_src r)) (hist_readers k Stack fuel names r0 ops).
  Proof.
    apply (hist_independent_G k Stack Pst Est HFEstack Ystack Est_Y Pst_Y fail_Y (Gstack si0 off0)).
    - apply Gstack_Pst.
    - apply Ystack_G.
  Qed.

  (* a successful stream call keeps the compression reader un-poisoned (stated for the calls;
     an operation of Reader.v that returns Ok made only successful calls) *)
  Lemma ok_call_not_poisoned (c : st Stack) o :
    c_state c <> CEmpty ->
    match o with
    | SRead n => match snd (rd Stack c n) with Ok _ => c_state (fst (rd Stack c n)) <> CEmpty | _ => True end
    | SSeek w => match snd (sk Stack c w) with Ok _ => c_state (fst (sk Stack c w)) <> CEmpty | _ => True end
    end.
  Proof.
    intros Hne. destruct o as [n|w]; cbn [CompS CompReader rd sk].
    - unfold cread. generalize 4%nat as fuel. intros fuel. revert c Hne.
      induction fuel as [|fuel IH]; intros c Hne; cbn [cread_aux]; [exact I|].
      destruct (negb (pos_in_stream BLOCK (c_si c) (c_pos c))); [cbn; exact Hne|].
      destruct (c_state c) as [i|r u d|] eqn:Est; [| |contradiction].
      + destruct (sync_inner BLOCK EncT (c_si c) i (c_pos c)) as [i1 [u|e|x]]; try exact I.
        destruct (new_decompressor_at BLOCK dec EncT (c_si c) i1 (c_pos c)) as [d|e|x]; try exact I.
        destruct (ubs_at BLOCK (c_si c) (c_pos c)) as [uu|e|x]; try exact I.
        apply IH. cbn. discriminate.
      + destruct (u <? r); [exact I|]. destruct (r =? u).
        * apply IH. cbn. discriminate.
        * destruct (dec_read EncT d (N.min (u - r) n)) as [d' data]. cbn. discriminate.
    - assert (Hst : forall p, match snd (cseek_start BLOCK dec EncT c p) with
                              | Ok _ => c_state (fst (cseek_start BLOCK dec EncT c p)) <> CEmpty | _ => True end).
      { intros p. unfold cseek_start, cseek_start_go. destruct (c_si c) as [si|]; [|exact I].
        destruct (c_state c) as [i|r u d|] eqn:Est; [| |contradiction]; cbn [into_inner].
        - destruct (negb (pos_in_stream BLOCK (Some si) (p - p mod BLOCK))).
          + destruct (negb (p =? si_max BLOCK si)); cbn; [exact I | discriminate].
          + destruct (sync_inner BLOCK EncT (Some si) i (p - p mod BLOCK)) as [i1 [uu|e|x]]; try exact I.
            destruct (new_decompressor_at BLOCK dec EncT (Some si) i1 (p - p mod BLOCK)) as [dd|e|x]; try exact I.
            destruct (ubs_at BLOCK (Some si) (p - p mod BLOCK)) as [u2|e|x]; try exact I.
            destruct (dec_read EncT dd (p mod BLOCK)) as [d' y]. destruct (2 ^ 32 <=? p mod BLOCK); cbn; [exact I | discriminate].
        - destruct (negb (pos_in_stream BLOCK (Some si) (p - p mod BLOCK))).
          + destruct (negb (p =? si_max BLOCK si)); cbn; [exact I | discriminate].
          + destruct (sync_inner BLOCK EncT (Some si) (d_in d) (p - p mod BLOCK)) as [i1 [uu|e|x]]; try exact I.
            destruct (new_decompressor_at BLOCK dec EncT (Some si) i1 (p - p mod BLOCK)) as [dd|e|x]; try exact I.
            destruct (ubs_at BLOCK (Some si) (p - p mod BLOCK)) as [u2|e|x]; try exact I.
            destruct (dec_read EncT dd (p mod BLOCK)) as [d' y]. destruct (2 ^ 32 <=? p mod BLOCK); cbn; [exact I | discriminate]. }
      unfold cseek. destruct (c_si c) as [si|] eqn:Esi; [|exact I].
      destruct w as [p|d|d].
      + apply Hst.
      + destruct (d =? 0)%Z; [cbn; exact Hne|]. destruct (c_pos c <? 2 ^ 63); [|exact I].
        destruct (2 ^ 63 <=? d + Z.of_N (c_pos c))%Z; [exact I|].
        destruct (0 <=? d + Z.of_N (c_pos c))%Z; [apply Hst | exact I].
      + destruct (0 <? d)%Z; [exact I|]. destruct (d =? - 2 ^ 63)%Z; [exact I|].
        destruct (end_target (si_max BLOCK si) (Z.to_N (- d))); [apply Hst | exact I..].
  Qed.
End StackHist.

(* hist_independent_St without the auxiliary relation *)
Theorem hist_independent_start k S St X : SeekForgetsE S St X ->
  forall fuel names r0 ops,
    Forall (fun r => St (Reader.r_src r0) (Reader.r_src r)) (hist_readers k S fuel names r0 ops) ->
    hist_groups k S fuel names r0 ops = map (fun op => snd (hist_op k S fuel names r0 op)) ops.
Proof.
  intros HFE. apply (hist_independent_St k S St X HFE (fun _ _ => True)); auto.
Qed.
