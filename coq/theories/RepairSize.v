(* RepairSize.v — the footer of a repaired archive is at most 8 + 3 * (bytes of input read).

   Since the bincode limit is a parameter of the model (Limit.v), the last step of
   `Repair.repair`, `w_finalize_with`, fails with Err EDeser (SerializationError) when the
   serialised footer map exceeds `lim` or does not fit the u32 length field, and the repair
   theorems carry the premise `repair ... <> Err EDeser` — a premise on the RESULT.  This file
   replaces it by a premise on the SIZE OF THE INPUT:

     repair_footer_fits   every run of the block loop + clean-up over a source that delivers at
                          most n bytes in all leaves a writer whose footer map serialises to at
                          most 8 + 3 * n bytes  (the constant c of the bound is 0);
     repair_no_ser_error  hence  8 + 3 * n <= lim  and  8 + 3 * n < 2^32  give
                          repair ... <> Err EDeser.

   Accounting (FooterSize.len_ser_entry: an entry costs 32 + |name| + 8 * #offsets):
     FileStart      reads 17 + |name| bytes; the footer gains an entry with one offset
                    (40 + |name|) and the file is open: closing it later (EndOfFile block or the
                    clean-up) may add one more offset (8):  48 + |name| <= 3 * (17 + |name|);
     FileContent    reads >= 17 bytes; ONE offset at most (mark_continuous_block adds one only
                    when the id changes; the later appends of the same block find current_id
                    = id):  8 <= 3 * 17;
     EndOfFile      reads 41 bytes; its offset was paid for by the FileStart;
     clean-up       one end_file per file still open: paid for by the FileStart.
   The potential is  wpot out = sum (32 + |name|) over files_info + 8 * #offsets over ids_info
   + 8 * #opened files;  the loop keeps  wpot out <= 3 * position.

   "Delivers at most n bytes" is `Metered`: a ghost counter P s q (the source in state s has
   delivered q bytes so far) that every successful non-empty read advances by the number of
   bytes returned and that never exceeds n.  No refinement is needed: instances below for
   Refines, RdRefines and for sources whose Mask is a RdRefines (RepairMask.v). *)
From MLA Require Import Limit.
From MLA Require Import Base Stream Blocks Writer Repair RoundTripBlocks RoundTripFooter FooterSize
  EncAuthFs ComposeRdOnly RepairMask.
From Coq Require Import ZifyBool ZifyNat ZifyN.
Open Scope N_scope.

(* ---------- the measure on the writer's tables ---------- *)
Fixpoint names_size (l : list (bytes * N)) : N :=
  match l with [] => 0 | e :: r => 32 + len (fst e) + names_size r end.
Fixpoint offs_size (l : list (N * finfo)) : N :=
  match l with [] => 0 | e :: r => 8 * len (fi_offsets (snd e)) + offs_size r end.
Definition osz (o : option finfo) : N :=
  match o with Some fi => 8 * len (fi_offsets fi) | None => 0 end.
Fixpoint fsum (files : list (bytes * N)) (ids : list (N * finfo)) : N :=
  match files with [] => 0 | e :: r => osz (alookup ids (snd e)) + fsum r ids end.

Lemma names_size_app a b : names_size (a ++ b) = names_size a + names_size b.
Proof. induction a as [|e a IH]; cbn [app names_size]; lia. Qed.
Lemma offs_size_app a b : offs_size (a ++ b) = offs_size a + offs_size b.
Proof. induction a as [|e a IH]; cbn [app offs_size]; lia. Qed.

Lemma alookup_aremove_ne {A} (l : list (N * A)) k j : j <> k -> alookup (aremove l k) j = alookup l j.
Proof.
  intros Hj. induction l as [|[k' v] l IH]; [reflexivity|]. cbn [aremove alookup].
  destruct (N.eqb_spec k' k) as [->|Hk].
  - destruct (N.eqb_spec k j) as [->|_]; [contradiction | reflexivity].
  - cbn [alookup]. rewrite IH. reflexivity.
Qed.
Lemma offs_size_aremove l k : offs_size l = offs_size (aremove l k) + osz (alookup l k).
Proof.
  induction l as [|[k' v] l IH]; [reflexivity|]. cbn [aremove alookup offs_size snd].
  destruct (k' =? k); cbn [osz offs_size snd]; lia.
Qed.
Lemma fsum_aremove files ids k : ~ In k (map snd files) -> fsum files (aremove ids k) = fsum files ids.
Proof.
  induction files as [|[nm i] r IH]; intros Hk; [reflexivity|]. cbn [fsum snd map In] in *.
  rewrite IH by tauto. rewrite alookup_aremove_ne by (intros ->; tauto). reflexivity.
Qed.
Lemma fsum_le files : forall ids, NoDup (map snd files) -> fsum files ids <= offs_size ids.
Proof.
  induction files as [|[nm i] r IH]; intros ids Hnd; cbn [fsum snd map] in *; [lia|].
  inversion Hnd as [|x l Hni Hnd']; subst.
  rewrite <- (fsum_aremove r ids i Hni). specialize (IH (aremove ids i) Hnd').
  rewrite (offs_size_aremove ids i). lia.
Qed.
Lemma entries_size_footer files ids :
  entries_size (flat_map (fun e : bytes * N =>
                            match alookup ids (snd e) with Some fi => [(fst e, fi)] | None => [] end) files)
  <= names_size files + fsum files ids.
Proof.
  induction files as [|[nm i] r IH]; cbn [flat_map names_size fsum fst snd]; [cbn; lia|].
  rewrite entries_size_app. destruct (alookup ids i) as [fi|]; cbn [entries_size osz].
  - rewrite len_ser_entry. cbn [fst snd]. lia.
  - lia.
Qed.

Lemma NoDup_snoc {A} (l : list A) x : NoDup l -> ~ In x l -> NoDup (l ++ [x]).
Proof.
  induction l as [|a l IH]; intros Hnd Hni; cbn [app].
  - constructor; [intros [] | constructor].
  - inversion Hnd as [|y l' Hna Hnd']; subst. constructor.
    + rewrite in_app_iff. cbn [In]. intros [Hi|[Hi|[]]]; [contradiction|]. subst. apply Hni. now left.
    + apply IH; [exact Hnd'|]. intros Hi. apply Hni. now right.
Qed.

Section WriterPotential.
  Context {LIM : Limit}.
  Variable FNMAX : N.
  Variables T_START T_CONTENT T_EOA T_EOF : N.
  Variable H : bytes -> bytes.
  Notation w_start := (w_start FNMAX T_START T_CONTENT T_EOA T_EOF).
  Notation w_append := (w_append T_CONTENT).
  Notation w_end := (w_end T_START T_CONTENT T_EOA T_EOF H).

  Definition wmeasure (s : wstate) : N := names_size (w_files s) + offs_size (w_ids s).
  Definition wpot (s : wstate) : N := wmeasure s + 8 * len (w_open s).
  (* the ids of files_info are distinct (they are successive values of next_id) *)
  Definition Wnd (s : wstate) : Prop :=
    NoDup (map snd (w_files s)) /\ forall i, In i (map snd (w_files s)) -> i < w_next s.

  Lemma Wnd_init : Wnd w_init.
  Proof. split; [constructor | intros i []]. Qed.

  Lemma footer_le_measure s : Wnd s -> len (ser_footer_map (w_footer s)) <= 8 + wmeasure s.
  Proof.
    intros [Hnd _]. rewrite len_ser_footer_map. unfold w_footer, wmeasure.
    pose proof (entries_size_footer (w_files s) (w_ids s)). pose proof (fsum_le (w_files s) (w_ids s) Hnd). lia.
  Qed.

  Lemma len_aupdate {A} (l : list (N * A)) k f : len (aupdate l k f) = len l.
  Proof.
    induction l as [|[k' v] l IH]; [reflexivity|]. cbn [aupdate].
    destruct (k' =? k); rewrite !len_cons; [|rewrite IH]; reflexivity.
  Qed.
  Lemma offs_size_aupdate_same l k f : (forall fi, fi_offsets (f fi) = fi_offsets fi) ->
    offs_size (aupdate l k f) = offs_size l.
  Proof.
    intros Hf. induction l as [|[k' v] l IH]; [reflexivity|]. cbn [aupdate].
    destruct (k' =? k); cbn [offs_size snd]; [rewrite Hf | rewrite IH]; reflexivity.
  Qed.
  Lemma offs_size_aupdate_push l k p :
    offs_size (aupdate l k (fun fi => mkFI (fi_offsets fi ++ [p]) (fi_size fi) (fi_eof fi))) <= offs_size l + 8.
  Proof.
    induction l as [|[k' v] l IH]; [cbn; lia|]. cbn [aupdate].
    destruct (k' =? k); cbn [offs_size snd fi_offsets]; [rewrite len_app, (len_cons p), len_nil|]; lia.
  Qed.
  Lemma len_aremove_some {A} (l : list (N * A)) k v : alookup l k = Some v -> len l = len (aremove l k) + 1.
  Proof.
    induction l as [|[k' v'] l IH]; [discriminate|]. cbn [alookup aremove].
    destruct (k' =? k); intros E; rewrite !len_cons; [reflexivity | rewrite (IH E); reflexivity].
  Qed.

  (* mark_continuous_block: at most one offset, none when the id is the current one *)
  Lemma mark_cont_pot s id :
    w_files (mark_cont s id) = w_files s /\ w_next (mark_cont s id) = w_next s /\
    w_open (mark_cont s id) = w_open s /\ w_final (mark_cont s id) = w_final s /\
    w_cur (mark_cont s id) = id /\
    offs_size (w_ids (mark_cont s id)) <= offs_size (w_ids s) + (if w_cur s =? id then 0 else 8).
  Proof.
    unfold mark_cont. rewrite (N.eqb_sym id (w_cur s)).
    destruct (N.eqb_spec (w_cur s) id) as [E|E]; cbn [w_files w_next w_open w_final w_cur w_ids].
    - repeat split; try assumption; lia.
    - repeat split. apply offs_size_aupdate_push.
  Qed.

  Lemma w_start_pot s name s' r : w_start s name = (s', r) -> Wnd s ->
    Wnd s' /\ match r with Ok _ => wpot s' = wpot s + 48 + len name | _ => s' = s end.
  Proof.
    unfold Writer.w_start. intros E W.
    destruct (w_final s); [injection E as <- <-; auto|].
    destruct (FNMAX <? len name); [injection E as <- <-; auto|].
    destruct (name_used (w_files s) name); [injection E as <- <-; auto|].
    injection E as <- <-. unfold emit. cbn [w_out w_final w_open w_files w_ids w_next w_cur].
    split.
    - destruct W as [Hnd Hlt]. unfold Wnd. cbn [w_files w_next]. rewrite map_app. cbn [map snd]. split.
      + apply NoDup_snoc; [exact Hnd|]. intros Hi. specialize (Hlt _ Hi). lia.
      + intros i Hi. apply in_app_or in Hi. destruct Hi as [Hi|[<-|[]]]; [specialize (Hlt _ Hi)|]; lia.
    - unfold wpot, wmeasure. cbn [w_files w_ids w_open].
      rewrite names_size_app, offs_size_app, len_app. cbn [names_size offs_size fst snd fi_offsets].
      change (len [w_pos s]) with 1. change (len [(w_next s, @nil N)]) with 1. lia.
  Qed.

  Lemma w_append_pot s id size src s' r : w_append s id size src = (s', r) -> Wnd s ->
    Wnd s' /\ wpot s' <= wpot s + (if w_cur s =? id then 0 else 8) /\ (s' = s \/ w_cur s' = id).
  Proof.
    unfold Writer.w_append. intros E W.
    assert (Hsame : Wnd s /\ wpot s <= wpot s + (if w_cur s =? id then 0 else 8) /\ (s = s \/ w_cur s = id))
      by (split; [exact W|split; [lia | left; reflexivity]]).
    destruct (w_final s); [injection E as <- <-; exact Hsame|].
    destruct (alookup (w_open s) id); [|injection E as <- <-; exact Hsame].
    destruct (size =? 0); [injection E as <- <-; exact Hsame|]. clear Hsame.
    destruct (mark_cont_pot s id) as (Hf & Hn & Ho & _ & Hc & Hoff).
    assert (Es : s' = mkW (w_out (mark_cont s id) ++ [T_CONTENT] ++ le64 id ++ le64 size ++ takeN size src) false
                    (aupdate (w_open (mark_cont s id)) id (fun h => h ++ takeN size src)) (w_files (mark_cont s id))
                    (aupdate (w_ids (mark_cont s id)) id (fun fi => mkFI (fi_offsets fi) (fi_size fi + size) (fi_eof fi)))
                    (w_next (mark_cont s id)) (w_cur (mark_cont s id))).
    { cbv zeta in E. destruct (len src <? size); injection E as <- _; reflexivity. }
    subst s'. split; [|split].
    - unfold Wnd. cbn [w_files w_next]. rewrite Hf, Hn. exact W.
    - unfold wpot, wmeasure. cbn [w_files w_ids w_open].
      rewrite len_aupdate, Ho, Hf, offs_size_aupdate_same by reflexivity. lia.
    - right. cbn [w_cur]. exact Hc.
  Qed.

  Lemma w_end_pot s id s' r : w_end s id = (s', r) -> Wnd s -> Wnd s' /\ wpot s' <= wpot s.
  Proof.
    unfold Writer.w_end. intros E W.
    destruct (w_final s); [injection E as <- <-; split; [exact W | lia]|].
    destruct (alookup (w_open s) id) as [hashed|] eqn:Eo; [|injection E as <- <-; split; [exact W | lia]].
    destruct (mark_cont_pot s id) as (Hf & Hn & Ho & _ & Hc & Hoff).
    injection E as <- <-. unfold emit. cbn [w_out w_final w_open w_files w_ids w_next w_cur]. split.
    - unfold Wnd. cbn [w_files w_next]. rewrite Hf, Hn. exact W.
    - unfold wpot, wmeasure. cbn [w_files w_ids w_open].
      rewrite Ho, Hf, offs_size_aupdate_same by reflexivity.
      rewrite (len_aremove_some _ _ _ Eo).
      assert (offs_size (w_ids (mark_cont s id)) <= offs_size (w_ids s) + 8) by (destruct (w_cur s =? id); lia).
      lia.
  Qed.
End WriterPotential.

(* ---------- metered sources ---------- *)
Definition Metered (S : Stream) (P : st S -> N -> Prop) (n : N) : Prop :=
  (forall s q, P s q -> q <= n) /\
  (forall s q k s' d, P s q -> 0 < k -> rd S s k = (s', Ok d) -> P s' (q + len d)).

Lemma refines_metered S w R : Refines S w R -> Metered S R (len w).
Proof.
  intros HR. split; [exact (ref_range _ _ _ HR)|].
  intros s q k s' d HP _ E. destruct (ref_rd _ _ _ HR s q k HP) as (s1 & j & E1 & _ & Hj & _ & HP1).
  rewrite E in E1. injection E1 as -> ->. rewrite len_sliceN.
  replace (N.min j (len w - q)) with j by lia. exact HP1.
Qed.
Lemma rdrefines_metered S w I : RdRefines (rd S) w I -> Metered S I (len w).
Proof.
  intros HR. split; [exact (rd_refines_range S w I HR)|].
  intros s q k s' d HP _ E. destruct (HR s q k HP) as (s1 & j & E1 & _ & Hj & _ & HP1).
  rewrite E in E1. injection E1 as -> ->. rewrite len_sliceN.
  replace (N.min j (len w - q)) with j by lia. exact HP1.
Qed.
(* a source that ends with an error where its Mask ends with Ok(0) (fail-safe decompressor) *)
Lemma mask_metered S w I : RdRefines (rd (Mask S)) w I -> Metered S (fun s q => I (Some s) q) (len w).
Proof.
  intros HR. split; [intros s q; exact (rd_refines_range (Mask S) w I HR (Some s) q)|].
  intros s q k s' d HP Hk E. destruct (HR (Some s) q k HP) as (s1 & j & E1 & _ & Hj & _ & HP1).
  cbn [Mask rd mask_rd] in E1. destruct (N.eqb_spec k 0) as [?|_]; [lia|]. rewrite E in E1.
  injection E1 as <- ->. rewrite len_sliceN.
  replace (N.min j (len w - q)) with j by lia. exact HP1.
Qed.

Section Size.
  Context {LIM : Limit}.
  Variable S : Stream.
  Variable P : st S -> N -> Prop.
  Variable n : N.
  Hypothesis HM : Metered S P n.
  Variables FNMAX CACHE T_START T_CONTENT T_EOA T_EOF : N.
  Variable H : bytes -> bytes.
  Notation parse_block := (parse_block FNMAX T_START T_CONTENT T_EOA T_EOF S).
  Notation block_loop := (block_loop FNMAX CACHE T_START T_CONTENT T_EOA T_EOF H S).
  Notation cleanup := (cleanup T_START T_CONTENT T_EOA T_EOF H S).
  Notation repair := (repair FNMAX CACHE T_START T_CONTENT T_EOA T_EOF H S).
  Notation w_start := (Writer.w_start FNMAX T_START T_CONTENT T_EOA T_EOF).
  Notation w_append := (Writer.w_append T_CONTENT).
  Notation w_end := (Writer.w_end T_START T_CONTENT T_EOA T_EOF H).

  Let Pbound := proj1 HM.
  Let Prd := proj2 HM.

  Lemma read_full_aux_meter fuel : forall s q k acc s' d,
    P s q -> read_full_aux S fuel s k acc = (s', Ok d) ->
    exists e, len d = len acc + e /\ P s' (q + e).
  Proof.
    induction fuel as [|f IH]; intros s q k acc s' d HP; cbn [read_full_aux];
      destruct (N.eqb_spec k 0) as [Hk|Hk].
    - intros [= <- <-]. exists 0. rewrite !N.add_0_r. auto.
    - discriminate.
    - intros [= <- <-]. exists 0. rewrite !N.add_0_r. auto.
    - destruct (rd S s k) as [s1 [d1|e1|c1]] eqn:Er; [|discriminate..].
      pose proof (Prd s q k s1 d1 HP ltac:(lia) Er) as HP1.
      destruct (N.eqb_spec (len d1) 0) as [Hd|Hd].
      + intros [= <- <-]. exists 0. rewrite Hd in HP1. rewrite N.add_0_r. auto.
      + destruct (k <? len d1); [discriminate|]. intros E.
        destruct (IH _ _ _ _ _ _ HP1 E) as (e & He & HPe). exists (len d1 + e).
        rewrite len_app in He. split; [lia|]. rewrite N.add_assoc. exact HPe.
  Qed.

  Lemma rexact_meter s q k s' d : P s q -> rexact S s k = (s', Ok d) -> k <= len d /\ P s' (q + len d).
  Proof.
    unfold rexact, read_exact, read_full. intros HP E.
    destruct (read_full_aux S _ s k []) as [s1 [d1|e1|c1]] eqn:Ef; [|discriminate..].
    destruct (N.ltb_spec (len d1) k) as [Hl|Hl]; [discriminate|]. injection E as <- <-.
    destruct (read_full_aux_meter _ _ _ _ _ _ _ HP Ef) as (e & He & HPe). rewrite len_nil in He.
    split; [exact Hl|]. replace (len d1) with e by lia. exact HPe.
  Qed.

  Lemma read_u64_meter s q s' v : P s q -> read_u64 S s = (s', Ok v) -> exists q', q + 8 <= q' /\ P s' q'.
  Proof.
    unfold read_u64. intros HP E. destruct (rexact S s 8) as [s1 [d|e|c]] eqn:Er; [|discriminate..].
    injection E as <- _. destruct (rexact_meter _ _ _ _ _ HP Er) as [Hl HP1].
    exists (q + len d). split; [lia | exact HP1].
  Qed.

  (* bytes of input a successfully parsed block header accounts for (lower bound) *)
  Definition hdr (pb : pblock) : N :=
    match pb with PStart _ name => 17 + len name | PContent _ _ => 17 | PEof _ _ => 9 | PEnd => 1 end.

  Lemma parse_block_meter s q s' pb : P s q -> parse_block s = (s', Ok pb) ->
    exists q', q + hdr pb <= q' /\ P s' q'.
  Proof.
    unfold Blocks.parse_block. intros HP E.
    destruct (rexact S s 1) as [s1 [d1|e1|c1]] eqn:E1; [|discriminate..].
    destruct (rexact_meter _ _ _ _ _ HP E1) as [Hl1 HP1].
    destruct d1 as [|t [|? ?]]; [discriminate| |discriminate].
    change (len [t]) with 1 in HP1.
    destruct (t =? T_START).
    { destruct (read_u64 S s1) as [s2 [id|?|?]] eqn:E2; [|discriminate..].
      destruct (read_u64_meter _ _ _ _ HP1 E2) as (q2 & Hq2 & HP2).
      destruct (read_u64 S s2) as [s3 [l|?|?]] eqn:E3; [|discriminate..].
      destruct (read_u64_meter _ _ _ _ HP2 E3) as (q3 & Hq3 & HP3).
      destruct (FNMAX <? l); [discriminate|].
      destruct (rexact S s3 l) as [s4 [nm|?|?]] eqn:E4; [|discriminate..].
      destruct (rexact_meter _ _ _ _ _ HP3 E4) as [Hl4 HP4].
      destruct (utf8_valid nm); [|discriminate]. injection E as <- <-.
      exists (q3 + len nm). cbn [hdr]. split; [lia | exact HP4]. }
    destruct (t =? T_CONTENT).
    { destruct (read_u64 S s1) as [s2 [id|?|?]] eqn:E2; [|discriminate..].
      destruct (read_u64_meter _ _ _ _ HP1 E2) as (q2 & Hq2 & HP2).
      destruct (read_u64 S s2) as [s3 [l|?|?]] eqn:E3; [|discriminate..].
      destruct (read_u64_meter _ _ _ _ HP2 E3) as (q3 & Hq3 & HP3).
      injection E as <- <-. exists q3. cbn [hdr]. split; [lia | exact HP3]. }
    destruct (t =? T_EOF).
    { destruct (read_u64 S s1) as [s2 [id|?|?]] eqn:E2; [|discriminate..].
      destruct (read_u64_meter _ _ _ _ HP1 E2) as (q2 & Hq2 & HP2).
      destruct (rexact S s2 32) as [s3 [h|?|?]] eqn:E3; [|discriminate..].
      destruct (rexact_meter _ _ _ _ _ HP2 E3) as [Hl3 HP3].
      injection E as <- <-. exists (q2 + len h). cbn [hdr]. split; [lia | exact HP3]. }
    destruct (t =? T_EOA); [|discriminate]. injection E as <- <-.
    exists (q + 1). cbn [hdr]. split; [lia | exact HP1].
  Qed.

  Lemma buf_fill_meter fuel : forall s q rem acc s' rem' buf,
    P s q -> buf_fill CACHE S fuel s rem acc = (s', rem', buf, None) -> exists q', q <= q' /\ P s' q'.
  Proof.
    induction fuel as [|f IH]; intros s q rem acc s' rem' buf HP; cbn [buf_fill]; [discriminate|].
    destruct (N.eqb_spec (N.min rem (CACHE - len acc)) 0) as [Hw|Hw].
    { intros [= <- _ _]. exists q. split; [lia | exact HP]. }
    destruct (rd S s _) as [s1 [d|e|c]] eqn:Er; [|discriminate..].
    assert (Hk : 0 < N.min rem (CACHE - len acc)) by lia.
    pose proof (Prd s q _ s1 d HP Hk Er) as HP1.
    destruct (len d =? 0); [intros [= <- _ _]; exists (q + len d); split; [lia | exact HP1]|].
    destruct (CACHE <=? len (acc ++ d)); [intros [= <- _ _]; exists (q + len d); split; [lia | exact HP1]|].
    intros E. destruct (IH _ _ _ _ _ _ _ HP1 E) as (q' & Hq' & HP'). exists q'. split; [lia | exact HP'].
  Qed.

  (* one FileContent block: at most one new offset *)
  Lemma content_loop_meter fuel : forall s q out id rem got s' out' got' re we,
    P s q -> Wnd out ->
    content_loop CACHE T_CONTENT S fuel s out id rem got = (s', out', got', re, we) ->
    Wnd out' /\ wpot out' <= wpot out + (if w_cur out =? id then 0 else 8) /\
    (re = None -> we = None -> exists q', q <= q' /\ P s' q').
  Proof.
    induction fuel as [|f IH]; intros s q out id rem got s' out' got' re we HP W; cbn [content_loop].
    { intros [= <- <- _ <- _]. split; [exact W|]. split; [destruct (_ =? _); lia | discriminate]. }
    destruct (buf_fill CACHE S (Datatypes.S f) s rem []) as [[[s1 rem1] buf] rerr] eqn:Eb.
    destruct (w_append out id (len buf) buf) as [out1 [x|x|x]] eqn:Ew;
      destruct (w_append_pot T_CONTENT H _ _ _ _ _ _ Ew W) as (W1 & Hp1 & Hc1).
    - destruct rerr as [e|].
      + intros [= <- <- _ <- _]. split; [exact W1|]. split; [exact Hp1 | discriminate].
      + destruct (buf_fill_meter _ _ _ _ _ _ _ _ HP Eb) as (q1 & Hq1 & HP1).
        destruct (len buf <? CACHE).
        * intros [= <- <- _ <- _]. split; [exact W1|]. split; [exact Hp1|]. intros _ _. eauto.
        * intros E. destruct (IH _ _ _ _ _ _ _ _ _ _ _ HP1 W1 E) as (W' & Hp' & Hq').
          split; [exact W'|]. split.
          -- destruct Hc1 as [->|Hc]; [exact Hp'|]. rewrite Hc, N.eqb_refl in Hp'. lia.
          -- intros R1 R2. destruct (Hq' R1 R2) as (q' & Hl & HP'). exists q'. split; [lia | exact HP'].
    - intros [= <- <- _ <- <-]. split; [exact W1|]. split; [exact Hp1 | discriminate].
    - intros [= <- <- _ <- <-]. split; [exact W1|]. split; [exact Hp1 | discriminate].
  Qed.

  (* the block loop keeps  wpot out <= 3 * (bytes delivered) *)
  Lemma block_loop_meter fuel : forall st q st' status,
    P (rp_src S st) q -> Wnd (rp_out S st) -> wpot (rp_out S st) <= 3 * q ->
    block_loop fuel st = (st', Ok status) ->
    Wnd (rp_out S st') /\ wpot (rp_out S st') <= 3 * n.
  Proof.
    induction fuel as [|f IH]; intros st q st' status HP W Hpot; [discriminate|].
    cbn [Repair.block_loop].
    pose proof (Pbound _ _ HP) as Hqn.
    assert (Hstay : Wnd (rp_out S st) /\ wpot (rp_out S st) <= 3 * n) by (split; [exact W | lia]).
    destruct (parse_block (rp_src S st)) as [s1 [pb|pe|c]] eqn:Epb;
      [|destruct pe; intros [= <- _]; exact Hstay | discriminate].
    destruct (parse_block_meter _ _ _ _ HP Epb) as (q1 & Hq1 & HP1).
    pose proof (Pbound _ _ HP1) as Hq1n.
    destruct pb as [id name|id l|id h|]; cbv zeta; cbn [hdr] in Hq1.
    - destruct (existsb _ _); [intros [= <- _]; exact Hstay|]. destruct (mem _ _); [intros [= <- _]; exact Hstay|].
      destruct (w_start (rp_out S st) name) as [o1 [x|x|x]] eqn:Ew;
        destruct (w_start_pot FNMAX T_START T_CONTENT T_EOA T_EOF H _ _ _ _ Ew W) as [W1 Hp1].
      + intros E. refine (IH _ q1 _ _ _ _ _ E); cbn [rp_src rp_out]; [exact HP1 | exact W1 | lia].
      + subst o1. destruct x; intros [= <- _]; exact Hstay.
      + discriminate.
    - destruct (assoc _ id) as [ido|]; [|intros [= <- _]; exact Hstay].
      destruct (mem _ _); [intros [= <- _]; exact Hstay|].
      destruct (assoc (rp_names S st) id); [|discriminate].
      destruct (assoc (rp_hash S st) id) as [hashed|]; [|discriminate].
      destruct (content_loop CACHE T_CONTENT S (Datatypes.S f) s1 (rp_out S st) ido l []) as [[[[s2 o2] g2] e2] f2] eqn:Ec.
      destruct (content_loop_meter _ _ _ _ _ _ _ _ _ _ _ _ HP1 W Ec) as (W2 & Hp2 & Hq2).
      assert (Hp2' : wpot o2 <= wpot (rp_out S st) + 8) by (destruct (_ =? _); lia).
      destruct f2 as [fe|]; [destruct e2; discriminate|].
      destruct e2 as [e|].
      + intros [= <- _]. cbn [rp_out]. split; [exact W2 | lia].
      + destruct (Hq2 eq_refl eq_refl) as (q2 & Hl2 & HP2).
        intros E. refine (IH _ q2 _ _ _ _ _ E); cbn [rp_src rp_out]; [exact HP2 | exact W2 | lia].
    - destruct (assoc _ id) as [ido|]; [|intros [= <- _]; exact Hstay].
      destruct (mem _ _); [intros [= <- _]; exact Hstay|].
      destruct (assoc (rp_hash S st) id) as [hashed|]; [|intros [= <- _]; exact Hstay].
      destruct (negb _); [intros [= <- _]; exact Hstay|].
      destruct (w_end (rp_out S st) ido) as [o1 [x|x|x]] eqn:Ew; [|discriminate..].
      destruct (w_end_pot _ _ _ _ _ _ _ _ _ Ew W) as [W1 Hp1].
      intros E. refine (IH _ q1 _ _ _ _ _ E); cbn [rp_src rp_out]; [exact HP1 | exact W1 | lia].
    - intros [= <- _]. exact Hstay.
  Qed.

  Lemma cleanup_pot st : forall ids out unf out1 unf1,
    Wnd out -> cleanup ids st out unf = Ok (out1, unf1) -> Wnd out1 /\ wpot out1 <= wpot out.
  Proof.
    induction ids as [|[idf ido] r IH]; intros out unf out1 unf1 W; cbn [Repair.cleanup].
    { intros [= <- _]. split; [exact W | lia]. }
    destruct (mem _ _); [apply IH; exact W|]. destruct (assoc _ idf); [|discriminate].
    destruct (w_end out ido) as [o1 [x|x|x]] eqn:Ew; [|discriminate..].
    destruct (w_end_pot _ _ _ _ _ _ _ _ _ Ew W) as [W1 Hp1].
    intros E. destruct (IH _ _ _ _ W1 E) as [W2 Hp2]. split; [exact W2 | lia].
  Qed.

  (* THE BOUND: the footer map that finalize serialises *)
  Theorem repair_footer_fits fuel s0 st status out1 unf :
    P s0 0 ->
    block_loop fuel (mkRP S s0 w_init [] [] [] []) = (st, Ok status) ->
    cleanup (rp_ids S st) st (rp_out S st) [] = Ok (out1, unf) ->
    len (ser_footer_map (w_footer out1)) <= 8 + 3 * n.
  Proof.
    intros HP0 Eb Ec.
    assert (H0 : wpot (rp_out S (mkRP S s0 w_init [] [] [] [])) <= 3 * 0) by (cbv; intros E; discriminate E).
    destruct (block_loop_meter fuel (mkRP S s0 w_init [] [] [] []) 0 _ _ HP0 Wnd_init H0 Eb) as [W Hp].
    destruct (cleanup_pot _ _ _ _ _ _ W Ec) as [W1 Hp1].
    pose proof (footer_le_measure out1 W1). unfold wpot in *. lia.
  Qed.

  (* hence no SerializationError when the input is small enough *)
  Theorem repair_no_ser_error fuel s0 :
    P s0 0 -> 8 + 3 * n <= lim -> 8 + 3 * n < 2 ^ 32 ->
    repair fuel s0 w_init <> Err EDeser.
  Proof.
    intros HP0 Hlim H32. unfold Repair.repair.
    destruct (block_loop fuel _) as [st [status|e|c]] eqn:Eb; [| |discriminate].
    2:{ intros [= ->]. exact (block_loop_noser S FNMAX CACHE T_START T_CONTENT T_EOA T_EOF H fuel _ _ Eb). }
    destruct (cleanup (rp_ids S st) st (rp_out S st) []) as [[out1 unf]|e|c] eqn:Ec; [| |discriminate].
    2:{ intros [= ->]. exact (cleanup_noser S T_START T_CONTENT T_EOA T_EOF H st _ _ _ Ec). }
    pose proof (repair_footer_fits fuel s0 st status out1 unf HP0 Eb Ec) as Hfit.
    unfold w_finalize_with. destruct (w_final out1); [discriminate|].
    destruct (w_open out1); [|discriminate].
    destruct (N.ltb_spec lim (len (ser_footer_map (w_footer out1)))) as [?|_]; [lia|].
    destruct (N.leb_spec (2 ^ 32) (len (ser_footer_map (w_footer out1)))) as [?|_]; [lia|].
    discriminate.
  Qed.
End Size.

(* the premise on the input size, as one inequality:  8 + 3 * n <= min lim (2^32 - 1).
   For the production limit (536870912 = 2^29 < 2^32) it reads 3 * n <= 536870904, i.e. it
   holds for every input of at most 178956968 bytes (~170 MiB). *)
Definition fits_limit {LIM : Limit} (n : N) : Prop := 8 + 3 * n <= N.min lim (2 ^ 32 - 1).

Lemma fits_limit_mono {LIM : Limit} n m : n <= m -> fits_limit m -> fits_limit n.
Proof. unfold fits_limit. lia. Qed.

Section Instances.
  Context {LIM : Limit}.
  Variables FNMAX CACHE T_START T_CONTENT T_EOA T_EOF : N.
  Variable H : bytes -> bytes.
  Notation repair := (repair FNMAX CACHE T_START T_CONTENT T_EOA T_EOF H).

  Theorem repair_no_ser_metered S P n fuel s0 :
    Metered S P n -> P s0 0 -> fits_limit n -> repair S fuel s0 w_init <> Err EDeser.
  Proof.
    unfold fits_limit. intros HM HP Hf.
    apply (repair_no_ser_error S P n HM FNMAX CACHE T_START T_CONTENT T_EOA T_EOF H fuel s0 HP); lia.
  Qed.
  (* sources refining a cursor over w *)
  Theorem repair_no_ser_refines S w R fuel s0 :
    Refines S w R -> R s0 0 -> fits_limit (len w) -> repair S fuel s0 w_init <> Err EDeser.
  Proof. intros HR. exact (repair_no_ser_metered S R (len w) fuel s0 (refines_metered S w R HR)). Qed.
  (* read-only sources *)
  Theorem repair_no_ser_rd S w I fuel s0 :
    RdRefines (rd S) w I -> I s0 0 -> fits_limit (len w) -> repair S fuel s0 w_init <> Err EDeser.
  Proof. intros HR. exact (repair_no_ser_metered S I (len w) fuel s0 (rdrefines_metered S w I HR)). Qed.
  (* sources whose Mask is a read-only refinement *)
  Theorem repair_no_ser_mask S w I fuel s0 :
    RdRefines (rd (Mask S)) w I -> I (Some s0) 0 -> fits_limit (len w) -> repair S fuel s0 w_init <> Err EDeser.
  Proof.
    intros HR. exact (repair_no_ser_metered S (fun s q => I (Some s) q) (len w) fuel s0 (mask_metered S w I HR)).
  Qed.
End Instances.
