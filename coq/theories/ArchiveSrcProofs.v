(* ArchiveSrcProofs.v — C13/C01 end to end over ANY source: `archive_open_src` (header read
   from the source with the code's reads, layer stack over the same source) over any stream
   that refines a cursor over the bytes `archive_write` produced — a file, a source returning
   short reads on any schedule (Stream.Throttled), from any state — opens and reads back exactly
   what was written.  Composition of HeaderStreamProofs.read_header_s_refines with the lemmas
   behind C01_archive_roundtrip (ArchiveProofs.v: persistent_wf, load_config_plain/enc,
   lower_write_ok, reads_back_of_refines) and the layer theorems, which are stated for any
   refining inner stream; only the glue [stack_opens_src] is new (ArchiveProofs.stack_opens with
   the cursor replaced by the source). *)
From MLA Require Import Limit.
From MLA Require Import Base Stream EncLayer EncLayerProofs CompLayer CompLayerProofs RawLayer RawLayerProofs
  CompWriterProofs LayerStack Blocks Writer WriterProofs Reader EncWriter EncWriterProofs Format FormatProofs Ecies
  RoundTripBlocks RoundTripWriter RoundTripReader RoundTripRun RoundTrip Archive ArchiveProofs
  HeaderStream HeaderStreamProofs ArchiveSrc.
From Coq Require Import ZifyBool ZifyNat ZifyN Permutation.
Open Scope N_scope.

Section RoundtripSrc.
  Variables CHUNK TAG CIPHERBUF BLOCK LIMIT FNMAX : N.
  Local Hint Extern 0 Limit => exact LIMIT : typeclass_instances.
  Variables TS TC TA TE : N.
  Variable H : bytes -> bytes.
  Variable order : footer -> footer.
  Variable pubk : bytes -> bytes.
  Variable dh : bytes -> bytes -> bytes.
  Variable kdf : bytes -> bytes.
  Variables wenc wdec wtag : bytes -> bytes -> bytes.
  Variable ksf : bytes -> bytes -> N -> N -> N.
  Variable tagf : bytes -> bytes -> N -> bytes -> bytes.
  Variable dec : bytes -> bytes.

  Hypothesis HCHUNK : 0 < CHUNK.
  Hypothesis HTAG : 0 < TAG.
  Hypothesis HCB : 0 < CIPHERBUF.
  Hypothesis HB : 0 < BLOCK.
  Hypothesis HB32 : BLOCK < 2 ^ 32.
  Hypothesis Htags : tags_distinct TS TC TA TE.
  Hypothesis HHlen : forall x, len (H x) = 32.
  Hypothesis Horder : forall f, Permutation (order f) f.
  Hypothesis wdec_wenc : forall k m, len m = 32 -> wdec k (wenc k m) = m.
  Hypothesis Hpubk : forall e, len (pubk e) = 32.
  Hypothesis Hwenc : forall k m, len m = 32 -> len (wenc k m) = 32.
  Hypothesis Hwtag : forall k c, len (wtag k c) = 16.

  Notation wrun := (wrun FNMAX TS TC TA TE H order).
  Notation to_persistent := (to_persistent pubk dh kdf wenc wtag).
  Notation archive_write := (archive_write CHUNK CIPHERBUF BLOCK LIMIT FNMAX TS TC TA TE H order pubk dh kdf wenc wtag ksf tagf).
  Notation mid_of := (mid_of BLOCK).
  Notation wire_of := (wire_of CHUNK BLOCK ksf tagf).
  Notation reads_back := (reads_back FNMAX TS TC TA TE H).
  Notation load_config := (load_config dh kdf wdec wtag).
  Notation StackSrc := (StackSrc CHUNK TAG BLOCK ksf tagf dec).
  Notation open_stack_src := (open_stack_src CHUNK TAG BLOCK LIMIT ksf tagf dec).
  Notation stack_src := (stack_src CHUNK TAG BLOCK ksf tagf dec).
  Notation archive_open_src := (archive_open_src CHUNK TAG BLOCK LIMIT dh kdf wdec wtag ksf tagf dec).

  (* the layer stack over a source standing right after the header *)
  Lemma stack_opens_src cfg hdr blocks (S0 : Stream) (R0 : st S0 -> N -> Prop) (s1 : st S0) :
    let a := hdr ++ wire_of cfg blocks in
    let k := wc_key cfg in let n := wc_nonce cfg in
    Refines S0 a R0 -> R0 s1 (len hdr) ->
    len a < 2 ^ 64 ->
    (wc_compress cfg = true ->
       (forall x, dec (wc_comp cfg x) = x) /\
       (forall j, j < nblocks BLOCK (len blocks) -> len (wc_comp cfg (block_at BLOCK blocks j)) < 2 ^ 32) /\
       12 + 4 * nblocks BLOCK (len blocks) <= LIMIT /\ 12 + 4 * nblocks BLOCK (len blocks) < 2 ^ 32 /\
       len blocks < 2 ^ 63) ->
    (wc_encrypt cfg = true ->
       (forall i c, len (tagf k n i c) = TAG) /\ (nfull CHUNK (len (mid_of cfg blocks)) + 2 < 2 ^ 32 /\ CHUNK + TAG <= 2 ^ 31)) ->
    exists R, Refines (StackSrc S0 (wc_encrypt cfg) (wc_compress cfg) k n) blocks R /\
      exists s, open_stack_src S0 s1 (wc_encrypt cfg) (wc_compress cfg) k n = Ok s /\ R s 0.
  Proof.
    intros a k n. subst a k n. cbv beta. intros HC Hs1 Hlen Hc He. unfold Archive.wire_of, Archive.mid_of in *.
    set (k := wc_key cfg) in *. set (n := wc_nonce cfg) in *.
    set (ks := ksf k n) in *. set (tagc := tagf k n) in *.
    destruct (wc_encrypt cfg) eqn:Ee, (wc_compress cfg) eqn:Ec; cbv iota in *.
    - (* compression over encryption *)
      destruct (Hc eq_refl) as (Hdec & Hcs & Hl1 & Hl2 & HL). destruct (He eq_refl) as [Htagc He'].
      clear He. rename He' into He.
      set (comp := wc_comp cfg) in *.
      pose proof (nblocks_ok BLOCK (len blocks) HB) as Hnb.
      set (a := hdr ++ enc_format CHUNK ks tagc (comp_format BLOCK comp blocks)) in *.
      exists (Rcomp0 CHUNK TAG BLOCK ks tagc comp hdr blocks (nblocks BLOCK (len blocks)) S0 R0).
      split.
      + exact (stack_refines CHUNK TAG BLOCK LIMIT HCHUNK HTAG (proj2 He) HB HB32 ks tagc Htagc comp dec Hdec hdr blocks _
                 Hnb (conj Hl1 Hl2) HL (proj1 He) Hlen S0 _ HC).
      + destruct (stack_open CHUNK TAG BLOCK LIMIT HCHUNK HTAG (proj2 He) HB HB32 ks tagc Htagc comp dec Hdec hdr blocks _
                    Hnb Hcs (conj Hl1 Hl2) HL (proj1 He) Hlen S0 _ HC s1 Hs1)
          as (r & c & Hro & Hco & HRc).
        exists c. split; [|exact HRc].
        unfold ArchiveSrc.open_stack_src. rewrite Hro. cbn [lift bind].
        exact (f_equal (@lift _ _) Hco).
    - (* encryption only *)
      destruct (He eq_refl) as [Htagc He']. clear He. rename He' into He.
      set (a := hdr ++ enc_format CHUNK ks tagc blocks) in *.
      pose proof (raw_reader_refines S0 hdr _ _ HC Hlen) as HRaw.
      destruct (raw_open_spec S0 hdr _ _ HC Hlen s1 Hs1) as (r & Hro & HRr).
      destruct (ranges_of_sizes CHUNK TAG (len blocks) HCHUNK (proj2 He) (proj1 He)) as [Hu64 Hi64].
      destruct (enc_open_spec CHUNK TAG HCHUNK HTAG ks tagc Htagc _ blocks _ HRaw (proj1 He) Hu64 Hi64 r 0 HRr) as (e1 & Heo & HRe).
      eexists. split.
      + exact (enc_reader_refines CHUNK TAG HCHUNK HTAG ks tagc Htagc _ blocks _ HRaw (proj1 He) Hu64 Hi64).
      + exists e1. split; [|exact HRe].
        unfold ArchiveSrc.open_stack_src. rewrite Hro. cbn [lift bind].
        exact (f_equal (@lift _ _) Heo).
    - (* compression only *)
      destruct (Hc eq_refl) as (Hdec & Hcs & Hl1 & Hl2 & HL).
      set (comp := wc_comp cfg) in *.
      set (a := hdr ++ comp_format BLOCK comp blocks) in *.
      pose proof (raw_reader_refines S0 hdr _ _ HC Hlen) as HRaw.
      destruct (raw_open_spec S0 hdr _ _ HC Hlen s1 Hs1) as (r & Hro & HRr).
      destruct (ref_sk _ _ _ HRaw r 0 (FromCur 0) 0 HRr) as (r1 & Hsk & HRr1).
      { unfold target. cbn. destruct (0 <=? Z.of_N (len (comp_format BLOCK comp blocks)))%Z eqn:E; [reflexivity | lia]. }
      destruct (comp_open_spec BLOCK LIMIT HB HB32 comp dec Hdec _ blocks Hcs (conj Hl1 Hl2) HL _ HRaw
                  (raw_initialize S0) r r1 r1 Hsk eq_refl (ex_intro _ 0 HRr1)) as (c & Hco & HRc).
      eexists. split.
      + exact (comp_reader_refines BLOCK LIMIT HB HB32 comp dec Hdec _ blocks (conj Hl1 Hl2) HL _ HRaw).
      + exists c. split; [|exact HRc].
        unfold ArchiveSrc.open_stack_src. rewrite Hro. cbn [lift bind].
        exact (f_equal (@lift _ _) Hco).
    - (* no layer *)
      set (a := hdr ++ blocks) in *.
      pose proof (raw_reader_refines S0 hdr _ _ HC Hlen) as HRaw.
      destruct (raw_open_spec S0 hdr _ _ HC Hlen s1 Hs1) as (r & Hro & HRr).
      eexists. split; [exact HRaw|]. exists r. split; [|exact HRr].
      unfold ArchiveSrc.open_stack_src. rewrite Hro. reflexivity.
  Qed.
  (* ---------- C13 / C01 over any source ---------- *)
  Theorem archive_open_any_source cfg cut_top cut_mid ops sf rs privs s :
    let blocks := w_out sf in
    let nb := nblocks BLOCK (len blocks) in
    wrun w_init (ops ++ [OFinalize]) = (sf, rs) ->
    Forall (fun r => is_ok r = true) rs -> forallb op_utf8 ops = true ->
    len blocks < 2 ^ 64 -> len (ser_footer_map (order (w_footer sf))) < 2 ^ 32 ->
    (wc_compress cfg = true ->
       (forall x, dec (wc_comp cfg x) = x) /\
       (forall j, j < nb -> len (wc_comp cfg (block_at BLOCK blocks j)) < 2 ^ 32) /\
       12 + 4 * nb <= LIMIT /\ 12 + 4 * nb < 2 ^ 32 /\ len blocks < 2 ^ 63) ->
    (wc_encrypt cfg = true ->
       len (wc_key cfg) = 32 /\ len (wc_nonce cfg) = 8 /\
       (forall i c, len (tagf (wc_key cfg) (wc_nonce cfg) i c) = TAG) /\
       (nfull CHUNK (len (mid_of cfg blocks)) + 2 < 2 ^ 32 /\ CHUNK + TAG <= 2 ^ 31) /\
       dh s (pubk (wc_eph cfg)) = dh (wc_eph cfg) (pubk s) /\
       In (pubk s) (wc_recipients cfg) /\ In s privs) ->
    config_size (to_persistent cfg) <= LIMIT ->
    len (ser_header (to_persistent cfg) ++ wire_of cfg blocks) < 2 ^ 64 ->
    exists a, archive_write cfg cut_top cut_mid ops = Ok a /\
      (* ANY source behaving as a cursor over a (short reads on any schedule), from ANY state *)
      forall (S0 : Stream) (R0 : st S0 -> N -> Prop), Refines S0 a R0 ->
      forall (s0 : st S0) (p0 : N), R0 s0 p0 ->
      (TagCollision pubk dh kdf wenc wtag (wc_eph cfg) (wc_key cfg) (wc_recipients cfg) privs \/
       exists p r, archive_open_src S0 s0 privs = Ok (existT _ p r) /\
         op_enc p = wc_encrypt cfg /\ op_comp p = wc_compress cfg /\
         reads_back ops (stack_src S0 p) r).
  Proof.
    intros blocks nb Hrun Hok Hutf Hlen64 Hfoot32 Hc He Hlim Hlen.
    set (hp := to_persistent cfg) in *.
    set (a := ser_header hp ++ wire_of cfg blocks) in *.
    assert (Hne : wc_encrypt cfg && match wc_recipients cfg with [] => true | _ => false end = false).
    { destruct (wc_encrypt cfg); [|reflexivity]. destruct (He eq_refl) as (_ & _ & _ & _ & _ & Hin & _).
      destruct (wc_recipients cfg); [destruct Hin | reflexivity]. }
    assert (Hwf : wf_enc_opt hp).
    { apply (persistent_wf pubk dh kdf wenc wtag Hpubk Hwenc Hwtag). intros Ee.
      destruct (He Ee) as (Hk & Hn & _). split; [exact Hk|]. split; [exact Hn|].
      assert (Hkeys : len (wc_recipients cfg) < 2 ^ 64 \/ 2 ^ 64 <= len (wc_recipients cfg)) by lia.
      destruct Hkeys as [Hs|Hbig]; [exact Hs|exfalso].
      assert (Hl : 48 * len (wc_recipients cfg) <= len (ser_header hp)).
      { unfold hp, Archive.to_persistent, ser_header, ser_enc_header. rewrite Ee. cbn [h_enc h_layers eh_keys eh_public eh_nonce].
        unfold store_key. cbn [m_keys m_public]. rewrite !len_app, (len_cons 1), !len_app.
        match goal with |- context [len (concat (map ?f ?l))] =>
          assert (Hcc : len (concat (map f l)) = 48 * len l) end.
        { apply len_concat_const. intros kt Hin. apply in_map_iff in Hin. destruct Hin as (r & <- & _).
          unfold wrap_for. cbn [fst snd]. rewrite len_app, Hwenc, Hwtag by exact Hk. reflexivity. }
        rewrite Hcc, len_map. lia. }
      unfold a in Hlen. rewrite len_app in Hlen. lia. }
    exists a. split.
    - unfold Archive.archive_write. rewrite Hne. unfold dump_header. fold hp.
      destruct (N.ltb_spec LIMIT (config_size hp)) as [?|_]; [lia|]. cbn [bind].
      rewrite Hrun. rewrite (first_bad_ok rs Hok). cbn [bind].
      rewrite (lower_write_ok CHUNK TAG CIPHERBUF BLOCK LIMIT FNMAX H pubk dh kdf wenc wdec wtag ksf tagf dec
                 HCHUNK HTAG HCB HB HB32 HHlen wdec_wenc Hpubk Hwenc Hwtag).
      + reflexivity.
      + intros Ec. destruct (Hc Ec) as (_ & _ & _ & H32 & _). exact H32.
      + intros Ee. destruct (He Ee) as (_ & _ & _ & Hch & _). exact (proj1 Hch).
      + intros Ec. destruct (Hc Ec) as (_ & _ & Hlm & _). exact Hlm.
    - intros S0 R0 HR0 s0 p0 Hs0.
      assert (Hcfg : (TagCollision pubk dh kdf wenc wtag (wc_eph cfg) (wc_key cfg) (wc_recipients cfg) privs) \/
                     exists k n, load_config hp privs = Ok (wc_encrypt cfg, wc_compress cfg, k, n) /\
                                 (wc_encrypt cfg = true -> k = wc_key cfg /\ n = wc_nonce cfg)).
      { destruct (wc_encrypt cfg) eqn:Ee.
        - destruct (He eq_refl) as (Hk & _ & _ & _ & Hdh & Hrec & Hin).
          destruct (load_config_enc pubk dh kdf wenc wdec wtag wdec_wenc cfg privs s Ee Hk Hdh Hrec Hin) as [Hl|Ht];
            [right | left; exact Ht].
          exists (wc_key cfg), (wc_nonce cfg). split; [exact Hl | auto].
        - right. exists [], []. split; [exact (load_config_plain pubk dh kdf wenc wdec wtag cfg privs Ee) | discriminate]. }
      destruct Hcfg as [Ht|(k & n & Hl & Hkn)]; [left; exact Ht | right].
      (* src.rewind() *)
      destruct (ref_sk _ _ _ HR0 s0 p0 (FromStart 0) 0 Hs0) as (sa & Hsk & Hsa).
      { unfold target. cbn. destruct (0 <=? Z.of_N (len a))%Z eqn:E; [reflexivity | lia]. }
      (* the header, read from the source *)
      destruct (read_header_s_refines S0 a R0 HR0 LIMIT sa Hsa) as (s1 & Hh).
      unfold a in Hh at 1. rewrite (read_header_ser LIMIT hp _ Hwf Hlim) in Hh.
      destruct Hh as (Hrh & Hs1 & _).
      unfold a in Hs1. rewrite len_app in Hs1.
      replace (len (ser_header hp) + len (wire_of cfg blocks) - len (wire_of cfg blocks)) with (len (ser_header hp)) in Hs1 by lia.
      destruct (stack_opens_src cfg (ser_header hp) blocks S0 R0 s1 HR0 Hs1 Hlen Hc) as (R & HR & st0 & Hos & HRs).
      { intros Ee. destruct (He Ee) as (_ & _ & Htg & Hch & _). split; [exact Htg | exact Hch]. }
      assert (Hst : exists (R' : st (StackSrc S0 (wc_encrypt cfg) (wc_compress cfg) k n) -> N -> Prop) st1,
                Refines (StackSrc S0 (wc_encrypt cfg) (wc_compress cfg) k n) blocks R' /\
                open_stack_src S0 s1 (wc_encrypt cfg) (wc_compress cfg) k n = Ok st1 /\ R' st1 0).
      { destruct (wc_encrypt cfg) eqn:Ee.
        - destruct (Hkn eq_refl) as [-> ->]. exists R, st0. auto.
        - exists R, st0. auto. }
      destruct Hst as (R' & st1 & HR' & Hos' & HRs').
      destruct (reads_back_of_refines LIMIT FNMAX TS TC TA TE H order Htags HHlen Horder ops sf rs Hrun Hok Hutf Hlen64 Hfoot32
                  _ R' HR' st1 0 HRs') as (r & Hop & Hrb).
      exists (mkOP (wc_encrypt cfg) (wc_compress cfg) k n 0), r.
      split; [|split; [reflexivity|split; [reflexivity|exact Hrb]]].
      unfold ArchiveSrc.archive_open_src. rewrite Hsk, Hrh. fold hp. rewrite Hl. cbn [bind]. cbv iota beta.
      rewrite Hos'. cbn [bind].
      match goal with |- bind ?x _ = _ =>
        change x with (ropen (StackSrc S0 (wc_encrypt cfg) (wc_compress cfg) k n) st1) end.
      rewrite Hop. reflexivity.
  Qed.
End RoundtripSrc.

(* the header of a writer, followed by anything, read through any refining source: the header
   comes back and the source stands right behind it (what the layer theorems start from) *)
Theorem header_then_rest LIMIT (h : header) (rest : bytes) (S : Stream) (R : st S -> N -> Prop) (s0 : st S) :
  wf_enc_opt h -> config_size h <= LIMIT ->
  Refines S (ser_header h ++ rest) R -> R s0 0 ->
  exists s', read_header_s S LIMIT s0 = (s', Ok h) /\ R s' (len (ser_header h)).
Proof.
  intros Hwf Hlim HR Hs0. destruct (read_header_s_refines S _ R HR LIMIT s0 Hs0) as (s' & Hh).
  rewrite (read_header_ser LIMIT h rest Hwf Hlim) in Hh. destruct Hh as (Hr & HR' & _).
  exists s'. split; [exact Hr|]. rewrite len_app in HR'.
  replace (len (ser_header h) + len rest - len rest) with (len (ser_header h)) in HR' by lia. exact HR'.
Qed.
