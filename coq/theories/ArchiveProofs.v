(* ArchiveProofs.v — C01 end to end in one closed statement: [archive_roundtrip].
   Whatever the successful calls, the layer combination, the compressor (with a left inverse),
   the recipients, the position of a recipient's private key among the candidate keys and the
   way the data is cut between the layers, `archive_open (archive_write …)` succeeds and the
   reader lists / returns / hashes exactly what was given — or a wrapped key's tag verifies
   under a wrapping key it was not made with (Ecies.TagCollision; no unforgeability assumed). *)
From MLA Require Import Limit.
From MLA Require Import Base Stream EncLayer EncLayerProofs CompLayer CompLayerProofs RawLayer RawLayerProofs
  CompWriterProofs LayerStack Blocks Writer WriterProofs Reader EncWriter EncWriterProofs Format FormatProofs Ecies
  RoundTripBlocks RoundTripWriter RoundTripReader RoundTripRun RoundTrip Archive.
From Coq Require Import ZifyBool ZifyNat ZifyN Permutation.
Open Scope N_scope.

(* ---------- cuts ---------- *)
Lemma cut_pieces_concat sizes : forall b, concat (cut_pieces sizes b) = b.
Proof.
  induction sizes as [|n r IH]; intros b; cbn [cut_pieces concat]; [apply app_nil_r|].
  rewrite IH. apply takeN_dropN.
Qed.

(* every split into at least one piece is a cut *)
Lemma cut_pieces_any ps : forall b, ps <> [] -> concat ps = b -> exists sizes, cut_pieces sizes b = ps.
Proof.
  induction ps as [|p r IH]; intros b Hne Hc; [congruence|].
  destruct r as [|q r].
  - exists []. cbn [cut_pieces concat] in *. rewrite app_nil_r in Hc. now subst.
  - remember (q :: r) as l eqn:El. cbn [concat] in Hc.
    destruct (IH (concat l) ltac:(subst l; discriminate) eq_refl) as [sz Hsz].
    exists (len p :: sz). cbn [cut_pieces]. rewrite <- Hc.
    rewrite takeN_len_app, dropN_len_app, Hsz. reflexivity.
Qed.

Lemma in_concat_len (l : list bytes) b : In b l -> len b <= len (concat l).
Proof.
  induction l as [|x l IH]; [intros []|]. cbn [concat]. rewrite len_app.
  intros [->|Hin]; [lia|]. specialize (IH Hin). lia.
Qed.

Lemma first_bad_ok rs : Forall (fun r : res N => is_ok r = true) rs -> first_bad rs = Ok tt.
Proof.
  induction 1 as [|r rs Hr _ IH]; [reflexivity|]. destruct r; try discriminate. exact IH.
Qed.

Lemma nfull_div CHUNK L : 0 < CHUNK -> nfull CHUNK L + 2 < 2 ^ 32 -> L / CHUNK + 1 < 2 ^ 32.
Proof.
  intros HC H. unfold nfull in H.
  assert (L / CHUNK <= (L - 1) / CHUNK + 1); [|lia].
  destruct (N.eq_dec L 0) as [->|Hne]; [rewrite N.div_0_l by lia; apply N.le_0_l|].
  replace L with ((L - 1) + 1 * CHUNK - (CHUNK - 1)) at 1 by lia.
  transitivity ((L - 1 + 1 * CHUNK) / CHUNK); [apply N.div_le_mono; lia|].
  rewrite N.div_add by lia. lia.
Qed.

(* ---------- the header ---------- *)
Definition wf_enc_opt (h : header) : Prop :=
  match h_enc h with Some eh => wf_enc_header eh | None => True end.

Lemma read_header_ser LIMIT h data : wf_enc_opt h -> config_size h <= LIMIT ->
  read_header LIMIT (ser_header h ++ data) = Ok (h, data).
Proof.
  intros He HL. unfold read_header, ser_header.
  rewrite <- !app_assoc, (take_app 3) by reflexivity.
  rewrite bytes_eqb_refl. cbn [negb].
  rewrite take_le32_app by (cbv; reflexivity).
  rewrite N.eqb_refl. cbn [negb app].
  destruct h as [layers [eh|]]; unfold wf_enc_opt in He; cbn [h_enc h_layers] in *.
  - cbn [app]. change (1 =? 0) with false. change (1 =? 1) with true. cbn iota.
    rewrite parse_enc_header_ser by exact He.
    destruct (N.ltb_spec LIMIT (config_size (mkH layers (Some eh)))); [lia | reflexivity].
  - cbn [app]. change (0 =? 0) with true. cbn iota.
    unfold config_size in HL. cbn [h_enc] in HL.
    destruct (N.ltb_spec LIMIT 2); [lia | reflexivity].
Qed.

Lemma len_ser_header_keys h eh : h_enc h = Some eh -> wf_enc_header eh ->
  48 * len (eh_keys eh) <= len (ser_header h).
Proof.
  intros He (_ & _ & _ & Hk). unfold ser_header, ser_enc_header. rewrite He.
  rewrite !len_app. rewrite (len_cons 1). rewrite !len_app.
  match goal with |- context [len (concat (map ?f ?l))] =>
    assert (Hc : len (concat (map f l)) = 48 * len l); [|rewrite Hc; lia] end.
  apply len_concat_const.
  intros [k t] Hin. rewrite Forall_forall in Hk. destruct (Hk _ Hin) as [H1 H2]. cbn [fst snd] in *.
  rewrite len_app, H1, H2. reflexivity.
Qed.

Section Roundtrip.
  Variables CHUNK TAG CIPHERBUF BLOCK LIMIT FNMAX : N.
  Local Hint Extern 0 Limit => exact LIMIT : typeclass_instances.
  Variables TS TC TA TE : N.
  Variable H : bytes -> bytes.
  Variable order : footer -> footer.
  Variable pubk : bytes -> bytes.
  Variable dh : bytes -> bytes -> bytes.
  Variable kdf : bytes -> bytes.
  Variables wenc wdec wtag : bytes -> bytes -> bytes.
  Variable ksf : bytes -> bytes -> N -> N -> N.
  Variable tagf : bytes -> bytes -> N -> bytes -> bytes.
  Variable dec : bytes -> bytes.

  Hypothesis HCHUNK : 0 < CHUNK.
  Hypothesis HTAG : 0 < TAG.
  Hypothesis HCB : 0 < CIPHERBUF.
  Hypothesis HB : 0 < BLOCK.
  Hypothesis HB32 : BLOCK < 2 ^ 32.
  Hypothesis Htags : tags_distinct TS TC TA TE.
  Hypothesis HHlen : forall x, len (H x) = 32.
  Hypothesis Horder : forall f, Permutation (order f) f.
  (* ECIES: the AEAD inverse law and the sizes of the header fields (the curve law is a premise of
     the theorem, for the two key pairs involved only) *)
  Hypothesis wdec_wenc : forall k m, len m = 32 -> wdec k (wenc k m) = m.
  Hypothesis Hpubk : forall e, len (pubk e) = 32.
  Hypothesis Hwenc : forall k m, len m = 32 -> len (wenc k m) = 32.
  Hypothesis Hwtag : forall k c, len (wtag k c) = 16.

  Notation wrun := (wrun FNMAX TS TC TA TE H order).
  Notation wconfig := (wconfig).
  Notation to_persistent := (to_persistent pubk dh kdf wenc wtag).
  Notation lower_write := (lower_write CHUNK CIPHERBUF BLOCK LIMIT ksf tagf).
  Notation archive_write := (archive_write CHUNK CIPHERBUF BLOCK LIMIT FNMAX TS TC TA TE H order pubk dh kdf wenc wtag ksf tagf).
  Notation archive_open := (archive_open CHUNK TAG BLOCK LIMIT dh kdf wdec wtag ksf tagf dec).
  Notation open_stack := (open_stack CHUNK TAG BLOCK LIMIT ksf tagf dec).
  Notation StackS := (StackS CHUNK TAG BLOCK ksf tagf dec).
  Notation stack_of := (stack_of CHUNK TAG BLOCK ksf tagf dec).
  Notation mid_of := (mid_of BLOCK).
  Notation wire_of := (wire_of CHUNK BLOCK ksf tagf).
  Notation reads_back := (reads_back FNMAX TS TC TA TE H).
  Notation load_config := (load_config dh kdf wdec wtag).

  (* ---------- the writer's lower layers are canonical ---------- *)
  Lemma lower_write_ok cfg cut_top cut_mid blocks :
    (wc_compress cfg = true -> 12 + 4 * nblocks BLOCK (len blocks) < 2 ^ 32) ->
    (wc_encrypt cfg = true -> nfull CHUNK (len (mid_of cfg blocks)) + 2 < 2 ^ 32) ->
    (* CompressionLayerWriter::finalize: the SizesInfo footer under BINCODE_MAX_DESERIALIZE *)
    (wc_compress cfg = true -> 12 + 4 * nblocks BLOCK (len blocks) <= LIMIT) ->
    lower_write cfg cut_top cut_mid blocks = Ok (wire_of cfg blocks).
  Proof.
    intros Hc He Hcl. unfold Archive.lower_write, Archive.wire_of, Archive.mid_of in *.
    assert (Hmid : exists mid,
      (if wc_compress cfg then
         match cw_write_pieces BLOCK (wc_comp cfg) cw_init (cut_pieces cut_top blocks) with
         | (w1, Ok _) =>
           match cw_finalize (wc_comp cfg) w1 with
           | (w2, Ok _) => Ok (cut_pieces cut_mid (cw_out w2))
           | (_, Err e) => Err e | (_, Crash c) => Crash c
           end
         | (_, Err e) => Err e | (_, Crash c) => Crash c
         end
       else Ok (cut_pieces cut_top blocks)) = Ok mid /\
      concat mid = if wc_compress cfg then comp_format BLOCK (wc_comp cfg) blocks else blocks).
    { destruct (wc_compress cfg).
      - destruct (comp_writer_canonical BLOCK HB HB32 (wc_comp cfg) (cut_pieces cut_top blocks)) as (w1 & w2 & -> & -> & Ho).
        + rewrite cut_pieces_concat. apply Hc. reflexivity.
        + rewrite cut_pieces_concat. apply Hcl. reflexivity.
        + eexists. split; [reflexivity|]. rewrite cut_pieces_concat, Ho, cut_pieces_concat. reflexivity.
      - eexists. split; [reflexivity|]. apply cut_pieces_concat. }
    destruct Hmid as (mid & -> & Hcat). cbn [bind].
    destruct (wc_encrypt cfg).
    - specialize (He eq_refl).
      assert (He' : nfull CHUNK (len (concat mid)) + 2 < 2 ^ 32) by (rewrite Hcat; exact He).
      destruct (enc_writer_total CHUNK CIPHERBUF HCHUNK (ksf (wc_key cfg) (wc_nonce cfg)) (tagf (wc_key cfg) (wc_nonce cfg))
                  (Datatypes.S (N.to_nat (len (concat mid)))) mid HCB) as (s & -> & Hs).
      + apply nfull_div; assumption.
      + intros b Hin. pose proof (in_concat_len mid b Hin). lia.
      + cbn [bind]. rewrite Hs, Hcat. reflexivity.
    - rewrite Hcat. reflexivity.
  Qed.

  (* ---------- the reader above the layers ---------- *)
  Section Run.
    Variable ops : list wop.
    Variable sf : wstate.
    Variable rs : list (res N).
    Hypothesis Hrun : wrun w_init (ops ++ [OFinalize]) = (sf, rs).
    Hypothesis Hok : Forall (fun r => is_ok r = true) rs.
    Hypothesis Hutf : forallb op_utf8 ops = true.
    Hypothesis Hlen64 : len (w_out sf) < 2 ^ 64.
    Hypothesis Hfoot32 : len (ser_footer_map (order (w_footer sf))) < 2 ^ 32.

    Lemma reads_back_of_refines (S : Stream) (R : st S -> N -> Prop) :
      Refines S (w_out sf) R -> forall s0 p0, R s0 p0 ->
      exists r, ropen S s0 = Ok r /\ reads_back ops S r.
    Proof.
      intros HR s0 p0 HR0.
      destruct (rt_open FNMAX TS TC TA TE H order HHlen Horder ops sf rs Hrun Hok Hutf Hlen64 Hfoot32 S R HR s0 p0 HR0)
        as (r & Hop & HRS).
      exists r. split; [exact Hop|]. exists (RS order sf S R). split; [exact HRS|].
      split; [|split; [|split]].
      - intros r1 H1. exact (rt_list FNMAX TS TC TA TE H order HHlen Horder ops sf rs Hrun Hok Hutf Hlen64 Hfoot32 S R r1 H1).
      - intros r1 name id H1 Hin.
        exact (rt_get_file FNMAX TS TC TA TE H order Htags HHlen Horder ops sf rs Hrun Hok Hutf Hlen64 Hfoot32 S R HR r1 name id H1 Hin).
      - intros r1 name id H1 Hin.
        exact (rt_get_hash FNMAX TS TC TA TE H order Htags HHlen Horder ops sf rs Hrun Hok Hutf Hlen64 Hfoot32 S R HR r1 name id H1 Hin).
      - intros r1 name H1 Hnin.
        exact (rt_absent FNMAX TS TC TA TE H order HHlen Horder ops sf rs Hrun Hok Hutf Hlen64 Hfoot32 S R r1 name H1 Hnin).
    Qed.
  End Run.

  (* ---------- the layer stack over header ++ wire opens and refines the block stream ---------- *)
  Lemma off_after hdr (body : bytes) : len (hdr ++ body) - len body = len hdr.
  Proof. rewrite len_app. lia. Qed.

  Lemma cursor_at (a : bytes) p : p <= len a -> (fun (s : st (Cursor a)) q => s = q /\ q <= len a) p p.
  Proof. intros Hp. split; [reflexivity | exact Hp]. Qed.

  Lemma stack_opens cfg hdr blocks :
    let a := hdr ++ wire_of cfg blocks in
    let k := wc_key cfg in let n := wc_nonce cfg in
    len a < 2 ^ 64 ->
    (wc_compress cfg = true ->
       (forall x, dec (wc_comp cfg x) = x) /\
       (forall j, j < nblocks BLOCK (len blocks) -> len (wc_comp cfg (block_at BLOCK blocks j)) < 2 ^ 32) /\
       12 + 4 * nblocks BLOCK (len blocks) <= LIMIT /\ 12 + 4 * nblocks BLOCK (len blocks) < 2 ^ 32 /\
       len blocks < 2 ^ 63) ->
    (wc_encrypt cfg = true ->
       (forall i c, len (tagf k n i c) = TAG) /\ (nfull CHUNK (len (mid_of cfg blocks)) + 2 < 2 ^ 32 /\ CHUNK + TAG <= 2 ^ 31)) ->
    exists R, Refines (StackS a (wc_encrypt cfg) (wc_compress cfg) k n) blocks R /\
      exists s, open_stack a (wc_encrypt cfg) (wc_compress cfg) k n (len hdr) = Ok s /\ R s 0.
  Proof.
    intros a k n. subst a k n. cbv beta. intros Hlen Hc He. unfold Archive.wire_of, Archive.mid_of in *.
    set (k := wc_key cfg) in *. set (n := wc_nonce cfg) in *.
    set (ks := ksf k n) in *. set (tagc := tagf k n) in *.
    destruct (wc_encrypt cfg) eqn:Ee, (wc_compress cfg) eqn:Ec; cbv iota in *.
    - (* compression over encryption *)
      destruct (Hc eq_refl) as (Hdec & Hcs & Hl1 & Hl2 & HL). destruct (He eq_refl) as [Htagc He'].
      clear He. rename He' into He.
      set (comp := wc_comp cfg) in *.
      pose proof (nblocks_ok BLOCK (len blocks) HB) as Hnb.
      set (a := hdr ++ enc_format CHUNK ks tagc (comp_format BLOCK comp blocks)) in *.
      pose proof (cursor_refines a) as HC.
      exists (Rcomp0 CHUNK TAG BLOCK ks tagc comp hdr blocks (nblocks BLOCK (len blocks)) (Cursor a)
                (fun s p => s = p /\ p <= len a)).
      split.
      + exact (stack_refines CHUNK TAG BLOCK LIMIT HCHUNK HTAG (proj2 He) HB HB32 ks tagc Htagc comp dec Hdec hdr blocks _
                 Hnb (conj Hl1 Hl2) HL (proj1 He) Hlen (Cursor a) _ HC).
      + destruct (stack_open CHUNK TAG BLOCK LIMIT HCHUNK HTAG (proj2 He) HB HB32 ks tagc Htagc comp dec Hdec hdr blocks _
                    Hnb Hcs (conj Hl1 Hl2) HL (proj1 He) Hlen (Cursor a) _ HC (len hdr))
          as (r & c & Hro & Hco & HRc).
        { apply cursor_at. unfold a. rewrite len_app. lia. }
        exists c. split; [|exact HRc].
        unfold Archive.open_stack. rewrite Hro. cbn [lift bind].
        exact (f_equal (@lift _ _) Hco).
    - (* encryption only *)
      destruct (He eq_refl) as [Htagc He']. clear He. rename He' into He.
      set (a := hdr ++ enc_format CHUNK ks tagc blocks) in *.
      pose proof (cursor_refines a) as HC.
      pose proof (raw_reader_refines (Cursor a) hdr _ _ HC Hlen) as HRaw.
      destruct (raw_open_spec (Cursor a) hdr _ _ HC Hlen (len hdr)) as (r & Hro & HRr).
      { apply cursor_at. unfold a. rewrite len_app. lia. }
      destruct (ranges_of_sizes CHUNK TAG (len blocks) HCHUNK (proj2 He) (proj1 He)) as [Hu64 Hi64].
      destruct (enc_open_spec CHUNK TAG HCHUNK HTAG ks tagc Htagc _ blocks _ HRaw (proj1 He) Hu64 Hi64 r 0 HRr) as (e1 & Heo & HRe).
      eexists. split.
      + exact (enc_reader_refines CHUNK TAG HCHUNK HTAG ks tagc Htagc _ blocks _ HRaw (proj1 He) Hu64 Hi64).
      + exists e1. split; [|exact HRe].
        unfold Archive.open_stack. rewrite Hro. cbn [lift bind].
        exact (f_equal (@lift _ _) Heo).
    - (* compression only *)
      destruct (Hc eq_refl) as (Hdec & Hcs & Hl1 & Hl2 & HL).
      set (comp := wc_comp cfg) in *.
      set (a := hdr ++ comp_format BLOCK comp blocks) in *.
      pose proof (cursor_refines a) as HC.
      pose proof (raw_reader_refines (Cursor a) hdr _ _ HC Hlen) as HRaw.
      destruct (raw_open_spec (Cursor a) hdr _ _ HC Hlen (len hdr)) as (r & Hro & HRr).
      { apply cursor_at. unfold a. rewrite len_app. lia. }
      destruct (ref_sk _ _ _ HRaw r 0 (FromCur 0) 0 HRr) as (r1 & Hsk & HRr1).
      { unfold target. cbn. destruct (0 <=? Z.of_N (len (comp_format BLOCK comp blocks)))%Z eqn:E; [reflexivity | lia]. }
      destruct (comp_open_spec BLOCK LIMIT HB HB32 comp dec Hdec _ blocks Hcs (conj Hl1 Hl2) HL _ HRaw
                  (raw_initialize (Cursor a)) r r1 r1 Hsk eq_refl (ex_intro _ 0 HRr1)) as (c & Hco & HRc).
      eexists. split.
      + exact (comp_reader_refines BLOCK LIMIT HB HB32 comp dec Hdec _ blocks (conj Hl1 Hl2) HL _ HRaw).
      + exists c. split; [|exact HRc].
        unfold Archive.open_stack. rewrite Hro. cbn [lift bind].
        exact (f_equal (@lift _ _) Hco).
    - (* no layer *)
      set (a := hdr ++ blocks) in *.
      pose proof (cursor_refines a) as HC.
      pose proof (raw_reader_refines (Cursor a) hdr _ _ HC Hlen) as HRaw.
      destruct (raw_open_spec (Cursor a) hdr _ _ HC Hlen (len hdr)) as (r & Hro & HRr).
      { apply cursor_at. unfold a. rewrite len_app. lia. }
      eexists. split; [exact HRaw|]. exists r. split; [|exact HRr].
      unfold Archive.open_stack. rewrite Hro. reflexivity.
  Qed.

  (* ---------- the header of a writer configuration ---------- *)
  Lemma has_bit_layers cfg :
    has_bit (layers_of cfg) L_ENCRYPT = wc_encrypt cfg /\ has_bit (layers_of cfg) L_COMPRESS = wc_compress cfg.
  Proof. unfold layers_of. destruct (wc_encrypt cfg), (wc_compress cfg); split; reflexivity. Qed.

  Lemma persistent_wf cfg :
    (wc_encrypt cfg = true -> len (wc_key cfg) = 32 /\ len (wc_nonce cfg) = 8 /\ len (wc_recipients cfg) < 2 ^ 64) ->
    wf_enc_opt (to_persistent cfg).
  Proof.
    intros He. unfold wf_enc_opt, Archive.to_persistent. cbn [h_enc].
    destruct (wc_encrypt cfg); [|exact I]. destruct (He eq_refl) as (Hk & Hn & Hr).
    unfold wf_enc_header, store_key. cbn [m_public m_keys eh_public eh_nonce eh_keys].
    split; [apply Hpubk|]. split; [exact Hn|]. split; [rewrite len_map; exact Hr|].
    apply Forall_forall. intros kt Hin. apply in_map_iff in Hin. destruct Hin as (r & <- & _).
    unfold wrap_for. cbn [fst snd]. split; [apply Hwenc; exact Hk | apply Hwtag].
  Qed.

  Lemma config_size_persistent cfg :
    config_size (to_persistent cfg) = 2 + if wc_encrypt cfg then 48 + 48 * len (wc_recipients cfg) else 0.
  Proof.
    unfold config_size, Archive.to_persistent. cbn [h_enc]. destruct (wc_encrypt cfg); [|reflexivity].
    unfold store_key. cbn [eh_keys m_keys]. now rewrite len_map.
  Qed.

  Lemma load_config_plain cfg privs : wc_encrypt cfg = false ->
    load_config (to_persistent cfg) privs = Ok (false, wc_compress cfg, [], []).
  Proof.
    intros He. unfold Archive.load_config, Archive.to_persistent. cbn [h_layers h_enc].
    destruct (has_bit_layers cfg) as [-> ->]. rewrite He. reflexivity.
  Qed.

  (* Ecies.recipient_opens with the curve law for the two key pairs involved only *)
  Lemma recipient_opens_pt eph key recipients privs s : len key = 32 ->
    dh s (pubk eph) = dh eph (pubk s) -> In (pubk s) recipients -> In s privs ->
    load_persistent dh kdf wdec wtag (store_key pubk dh kdf wenc wtag recipients key eph) privs = Some key \/
    TagCollision pubk dh kdf wenc wtag eph key recipients privs.
  Proof.
    intros HK Hdh Hrec Hin.
    induction privs as [|p privs IH]; [destruct Hin|].
    cbn [load_persistent]. unfold retrieve_key, store_key. cbn [m_public m_keys].
    pose proof (find_key_spec dh kdf wenc wdec wtag 32 wdec_wenc eph key (derive_key dh kdf p (pubk eph)) recipients HK) as Hf.
    destruct (find_key _ _ _ _) as [k'|].
    - destruct Hf as [(-> & _)|(r & Hr & Hne & Ht)]; [left; reflexivity|].
      right. exists r, p. repeat split; auto. left; reflexivity.
    - destruct Hin as [->|Hin].
      + exfalso. apply (Hf (pubk s) Hrec). unfold derive_key. now rewrite Hdh.
      + destruct (IH Hin) as [Hx|(r & p' & Hr & Hp & Hne & Ht)]; [left; exact Hx|].
        right. exists r, p'. repeat split; auto. right; exact Hp.
  Qed.

  Lemma load_config_enc cfg privs s : wc_encrypt cfg = true -> len (wc_key cfg) = 32 ->
    dh s (pubk (wc_eph cfg)) = dh (wc_eph cfg) (pubk s) ->
    In (pubk s) (wc_recipients cfg) -> In s privs ->
    load_config (to_persistent cfg) privs = Ok (true, wc_compress cfg, wc_key cfg, wc_nonce cfg) \/
    TagCollision pubk dh kdf wenc wtag (wc_eph cfg) (wc_key cfg) (wc_recipients cfg) privs.
  Proof.
    intros He Hk Hdh Hrec Hin.
    destruct (recipient_opens_pt (wc_eph cfg) (wc_key cfg) (wc_recipients cfg) privs s Hk Hdh Hrec Hin)
      as [Hl|Ht]; [left | right; exact Ht].
    unfold Archive.load_config, Archive.to_persistent. cbn [h_layers h_enc].
    destruct (has_bit_layers cfg) as [-> ->]. rewrite He.
    destruct privs as [|p0 privs]; [destruct Hin|].
    cbn [eh_public eh_keys eh_nonce].
    change (mkMulti (m_public (store_key pubk dh kdf wenc wtag (wc_recipients cfg) (wc_key cfg) (wc_eph cfg)))
                    (m_keys (store_key pubk dh kdf wenc wtag (wc_recipients cfg) (wc_key cfg) (wc_eph cfg))))
      with (store_key pubk dh kdf wenc wtag (wc_recipients cfg) (wc_key cfg) (wc_eph cfg)).
    rewrite Hl. reflexivity.
  Qed.

  (* ---------- C01, end to end ---------- *)
  Theorem archive_roundtrip cfg cut_top cut_mid ops sf rs privs s :
    let blocks := w_out sf in
    let nb := nblocks BLOCK (len blocks) in
    (* the calls: all Ok, then finalize Ok *)
    wrun w_init (ops ++ [OFinalize]) = (sf, rs) ->
    Forall (fun r => is_ok r = true) rs -> forallb op_utf8 ops = true ->
    len blocks < 2 ^ 64 -> len (ser_footer_map (order (w_footer sf))) < 2 ^ 32 ->
    (* compression: a left inverse, u32 compressed block sizes and SizesInfo, i64 seek offsets *)
    (wc_compress cfg = true ->
       (forall x, dec (wc_comp cfg x) = x) /\
       (forall j, j < nb -> len (wc_comp cfg (block_at BLOCK blocks j)) < 2 ^ 32) /\
       12 + 4 * nb <= LIMIT /\ 12 + 4 * nb < 2 ^ 32 /\ len blocks < 2 ^ 63) ->
    (* encryption: key, nonce and chunk tag sizes, u32 chunk counter; the reader holds the private
       key s of one recipient somewhere in its candidate list, and Diffie-Hellman commutes on the
       key pairs (s, pubk s) and (eph, pubk eph) *)
    (wc_encrypt cfg = true ->
       len (wc_key cfg) = 32 /\ len (wc_nonce cfg) = 8 /\
       (forall i c, len (tagf (wc_key cfg) (wc_nonce cfg) i c) = TAG) /\
       (nfull CHUNK (len (mid_of cfg blocks)) + 2 < 2 ^ 32 /\ CHUNK + TAG <= 2 ^ 31) /\
       dh s (pubk (wc_eph cfg)) = dh (wc_eph cfg) (pubk s) /\
       In (pubk s) (wc_recipients cfg) /\ In s privs) ->
    (* bincode limit on the header, u64 positions in the file *)
    config_size (to_persistent cfg) <= LIMIT ->
    len (ser_header (to_persistent cfg) ++ wire_of cfg blocks) < 2 ^ 64 ->
    exists a, archive_write cfg cut_top cut_mid ops = Ok a /\
      (TagCollision pubk dh kdf wenc wtag (wc_eph cfg) (wc_key cfg) (wc_recipients cfg) privs \/
       exists p r, archive_open a privs = Ok (existT _ p r) /\
         op_enc p = wc_encrypt cfg /\ op_comp p = wc_compress cfg /\
         reads_back ops (stack_of a p) r).
  Proof.
    intros blocks nb Hrun Hok Hutf Hlen64 Hfoot32 Hc He Hlim Hlen.
    set (hp := to_persistent cfg) in *.
    set (a := ser_header hp ++ wire_of cfg blocks) in *.
    assert (Hne : wc_encrypt cfg && match wc_recipients cfg with [] => true | _ => false end = false).
    { destruct (wc_encrypt cfg); [|reflexivity]. destruct (He eq_refl) as (_ & _ & _ & _ & _ & Hin & _).
      destruct (wc_recipients cfg); [destruct Hin | reflexivity]. }
    assert (Hwf : wf_enc_opt hp).
    { apply persistent_wf. intros Ee. destruct (He Ee) as (Hk & Hn & _). split; [exact Hk|]. split; [exact Hn|].
      pose proof (persistent_wf cfg) as _.
      (* the wrapped keys are in the file, whose length is below 2^64 *)
      assert (Hkeys : len (wc_recipients cfg) < 2 ^ 64 \/ 2 ^ 64 <= len (wc_recipients cfg)) by lia.
      destruct Hkeys as [Hs|Hbig]; [exact Hs|exfalso].
      assert (Hl : 48 * len (wc_recipients cfg) <= len (ser_header hp)).
      { unfold hp, Archive.to_persistent, ser_header, ser_enc_header. rewrite Ee. cbn [h_enc h_layers eh_keys eh_public eh_nonce].
        unfold store_key. cbn [m_keys m_public]. rewrite !len_app, (len_cons 1), !len_app.
        match goal with |- context [len (concat (map ?f ?l))] =>
          assert (Hcc : len (concat (map f l)) = 48 * len l) end.
        { apply len_concat_const. intros kt Hin. apply in_map_iff in Hin. destruct Hin as (r & <- & _).
          unfold wrap_for. cbn [fst snd]. rewrite len_app, Hwenc, Hwtag by exact Hk. reflexivity. }
        rewrite Hcc, len_map. lia. }
      unfold a in Hlen. rewrite len_app in Hlen. lia. }
    exists a. split.
    - unfold Archive.archive_write. rewrite Hne. unfold dump_header. fold hp.
      destruct (N.ltb_spec LIMIT (config_size hp)) as [?|_]; [lia|]. cbn [bind].
      rewrite Hrun. rewrite (first_bad_ok rs Hok). cbn [bind].
      rewrite lower_write_ok.
      + reflexivity.
      + intros Ec. destruct (Hc Ec) as (_ & _ & _ & H32 & _). exact H32.
      + intros Ee. destruct (He Ee) as (_ & _ & _ & Hch & _). exact (proj1 Hch).
      + intros Ec. destruct (Hc Ec) as (_ & _ & Hlm & _). exact Hlm.
    - (* the configuration the reader loads *)
      assert (Hcfg : (TagCollision pubk dh kdf wenc wtag (wc_eph cfg) (wc_key cfg) (wc_recipients cfg) privs) \/
                     exists k n, load_config hp privs = Ok (wc_encrypt cfg, wc_compress cfg, k, n) /\
                                 (wc_encrypt cfg = true -> k = wc_key cfg /\ n = wc_nonce cfg)).
      { destruct (wc_encrypt cfg) eqn:Ee.
        - destruct (He eq_refl) as (Hk & _ & _ & _ & Hdh & Hrec & Hin).
          destruct (load_config_enc cfg privs s Ee Hk Hdh Hrec Hin) as [Hl|Ht]; [right | left; exact Ht].
          exists (wc_key cfg), (wc_nonce cfg). split; [exact Hl | auto].
        - right. exists [], []. split; [exact (load_config_plain cfg privs Ee) | discriminate]. }
      destruct Hcfg as [Ht|(k & n & Hl & Hkn)]; [left; exact Ht | right].
      destruct (stack_opens cfg (ser_header hp) blocks Hlen Hc) as (R & HR & s0 & Hos & HR0).
      { intros Ee. destruct (He Ee) as (_ & _ & Htg & Hch & _). split; [exact Htg | exact Hch]. }
      fold a in HR, Hos.
      (* the stack for the loaded parameters is the stack for the writer's *)
      assert (Hst : exists (R' : st (StackS a (wc_encrypt cfg) (wc_compress cfg) k n) -> N -> Prop) s1,
                Refines (StackS a (wc_encrypt cfg) (wc_compress cfg) k n) blocks R' /\
                open_stack a (wc_encrypt cfg) (wc_compress cfg) k n (len (ser_header hp)) = Ok s1 /\ R' s1 0).
      { destruct (wc_encrypt cfg) eqn:Ee.
        - destruct (Hkn eq_refl) as [-> ->]. exists R, s0. auto.
        - exists R, s0. auto. }
      destruct Hst as (R' & s1 & HR' & Hos' & HR0').
      destruct (reads_back_of_refines ops sf rs Hrun Hok Hutf Hlen64 Hfoot32 _ R' HR' s1 0 HR0') as (r & Hop & Hrb).
      exists (mkOP (wc_encrypt cfg) (wc_compress cfg) k n (len (ser_header hp))), r.
      split; [|split; [reflexivity|split; [reflexivity|exact Hrb]]].
      unfold Archive.archive_open. subst a.
      rewrite (read_header_ser LIMIT hp _ Hwf Hlim). cbn [bind]. cbv iota beta.
      rewrite Hl. cbn [bind]. cbv iota beta.
      rewrite off_after.
      rewrite Hos'. cbn [bind].
      match goal with |- bind ?x _ = _ =>
        change x with (ropen (StackS (ser_header hp ++ wire_of cfg blocks) (wc_encrypt cfg) (wc_compress cfg) k n) s1) end.
      rewrite Hop. reflexivity.
  Qed.
  (* work package cli17: the same statement with the refinement relation of the opened stack
     EXPOSED (reads_back hides it behind an invariant): clients that go on using the reader after
     a file was read to its end (mlar's cat / to-tar / convert loops), or that run linear_extract
     (C12 is stated for any refining stream), need it.  Also: what read_header returns on the
     archive (the key policy of mlar's open_mla_file looks at it first).  Proof = that of
     archive_roundtrip. *)
  Theorem archive_roundtrip_refines cfg cut_top cut_mid ops sf rs privs s :
    let blocks := w_out sf in
    let nb := nblocks BLOCK (len blocks) in
    (* the calls: all Ok, then finalize Ok *)
    wrun w_init (ops ++ [OFinalize]) = (sf, rs) ->
    Forall (fun r => is_ok r = true) rs -> forallb op_utf8 ops = true ->
    len blocks < 2 ^ 64 -> len (ser_footer_map (order (w_footer sf))) < 2 ^ 32 ->
    (* compression: a left inverse, u32 compressed block sizes and SizesInfo, i64 seek offsets *)
    (wc_compress cfg = true ->
       (forall x, dec (wc_comp cfg x) = x) /\
       (forall j, j < nb -> len (wc_comp cfg (block_at BLOCK blocks j)) < 2 ^ 32) /\
       12 + 4 * nb <= LIMIT /\ 12 + 4 * nb < 2 ^ 32 /\ len blocks < 2 ^ 63) ->
    (* encryption: key, nonce and chunk tag sizes, u32 chunk counter; the reader holds the private
       key s of one recipient somewhere in its candidate list, and Diffie-Hellman commutes on the
       key pairs (s, pubk s) and (eph, pubk eph) *)
    (wc_encrypt cfg = true ->
       len (wc_key cfg) = 32 /\ len (wc_nonce cfg) = 8 /\
       (forall i c, len (tagf (wc_key cfg) (wc_nonce cfg) i c) = TAG) /\
       (nfull CHUNK (len (mid_of cfg blocks)) + 2 < 2 ^ 32 /\ CHUNK + TAG <= 2 ^ 31) /\
       dh s (pubk (wc_eph cfg)) = dh (wc_eph cfg) (pubk s) /\
       In (pubk s) (wc_recipients cfg) /\ In s privs) ->
    (* bincode limit on the header, u64 positions in the file *)
    config_size (to_persistent cfg) <= LIMIT ->
    len (ser_header (to_persistent cfg) ++ wire_of cfg blocks) < 2 ^ 64 ->
    exists a, archive_write cfg cut_top cut_mid ops = Ok a /\
      read_header LIMIT a = Ok (to_persistent cfg, wire_of cfg (w_out sf)) /\
      (TagCollision pubk dh kdf wenc wtag (wc_eph cfg) (wc_key cfg) (wc_recipients cfg) privs \/
       exists p r (R : st (stack_of a p) -> N -> Prop), archive_open a privs = Ok (existT _ p r) /\
         op_enc p = wc_encrypt cfg /\ op_comp p = wc_compress cfg /\
         Refines (stack_of a p) (w_out sf) R /\ RS order sf (stack_of a p) R r).
  Proof.
    intros blocks nb Hrun Hok Hutf Hlen64 Hfoot32 Hc He Hlim Hlen.
    set (hp := to_persistent cfg) in *.
    set (a := ser_header hp ++ wire_of cfg blocks) in *.
    assert (Hne : wc_encrypt cfg && match wc_recipients cfg with [] => true | _ => false end = false).
    { destruct (wc_encrypt cfg); [|reflexivity]. destruct (He eq_refl) as (_ & _ & _ & _ & _ & Hin & _).
      destruct (wc_recipients cfg); [destruct Hin | reflexivity]. }
    assert (Hwf : wf_enc_opt hp).
    { apply persistent_wf. intros Ee. destruct (He Ee) as (Hk & Hn & _). split; [exact Hk|]. split; [exact Hn|].
      pose proof (persistent_wf cfg) as _.
      (* the wrapped keys are in the file, whose length is below 2^64 *)
      assert (Hkeys : len (wc_recipients cfg) < 2 ^ 64 \/ 2 ^ 64 <= len (wc_recipients cfg)) by lia.
      destruct Hkeys as [Hs|Hbig]; [exact Hs|exfalso].
      assert (Hl : 48 * len (wc_recipients cfg) <= len (ser_header hp)).
      { unfold hp, Archive.to_persistent, ser_header, ser_enc_header. rewrite Ee. cbn [h_enc h_layers eh_keys eh_public eh_nonce].
        unfold store_key. cbn [m_keys m_public]. rewrite !len_app, (len_cons 1), !len_app.
        match goal with |- context [len (concat (map ?f ?l))] =>
          assert (Hcc : len (concat (map f l)) = 48 * len l) end.
        { apply len_concat_const. intros kt Hin. apply in_map_iff in Hin. destruct Hin as (r & <- & _).
          unfold wrap_for. cbn [fst snd]. rewrite len_app, Hwenc, Hwtag by exact Hk. reflexivity. }
        rewrite Hcc, len_map. lia. }
      unfold a in Hlen. rewrite len_app in Hlen. lia. }
    exists a. split; [|split].
    - unfold Archive.archive_write. rewrite Hne. unfold dump_header. fold hp.
      destruct (N.ltb_spec LIMIT (config_size hp)) as [?|_]; [lia|]. cbn [bind].
      rewrite Hrun. rewrite (first_bad_ok rs Hok). cbn [bind].
      rewrite lower_write_ok.
      + reflexivity.
      + intros Ec. destruct (Hc Ec) as (_ & _ & _ & H32 & _). exact H32.
      + intros Ee. destruct (He Ee) as (_ & _ & _ & Hch & _). exact (proj1 Hch).
      + intros Ec. destruct (Hc Ec) as (_ & _ & Hlm & _). exact Hlm.
    - subst a. exact (read_header_ser LIMIT hp _ Hwf Hlim).
    - (* the configuration the reader loads *)
      assert (Hcfg : (TagCollision pubk dh kdf wenc wtag (wc_eph cfg) (wc_key cfg) (wc_recipients cfg) privs) \/
                     exists k n, load_config hp privs = Ok (wc_encrypt cfg, wc_compress cfg, k, n) /\
                                 (wc_encrypt cfg = true -> k = wc_key cfg /\ n = wc_nonce cfg)).
      { destruct (wc_encrypt cfg) eqn:Ee.
        - destruct (He eq_refl) as (Hk & _ & _ & _ & Hdh & Hrec & Hin).
          destruct (load_config_enc cfg privs s Ee Hk Hdh Hrec Hin) as [Hl|Ht]; [right | left; exact Ht].
          exists (wc_key cfg), (wc_nonce cfg). split; [exact Hl | auto].
        - right. exists [], []. split; [exact (load_config_plain cfg privs Ee) | discriminate]. }
      destruct Hcfg as [Ht|(k & n & Hl & Hkn)]; [left; exact Ht | right].
      destruct (stack_opens cfg (ser_header hp) blocks Hlen Hc) as (R & HR & s0 & Hos & HR0).
      { intros Ee. destruct (He Ee) as (_ & _ & Htg & Hch & _). split; [exact Htg | exact Hch]. }
      fold a in HR, Hos.
      (* the stack for the loaded parameters is the stack for the writer's *)
      assert (Hst : exists (R' : st (StackS a (wc_encrypt cfg) (wc_compress cfg) k n) -> N -> Prop) s1,
                Refines (StackS a (wc_encrypt cfg) (wc_compress cfg) k n) blocks R' /\
                open_stack a (wc_encrypt cfg) (wc_compress cfg) k n (len (ser_header hp)) = Ok s1 /\ R' s1 0).
      { destruct (wc_encrypt cfg) eqn:Ee.
        - destruct (Hkn eq_refl) as [-> ->]. exists R, s0. auto.
        - exists R, s0. auto. }
      destruct Hst as (R' & s1 & HR' & Hos' & HR0').
      destruct (rt_open FNMAX TS TC TA TE H order HHlen Horder ops sf rs Hrun Hok Hutf Hlen64 Hfoot32 _ R' HR' s1 0 HR0')
        as (r & Hop & Hrb).
      exists (mkOP (wc_encrypt cfg) (wc_compress cfg) k n (len (ser_header hp))), r, R'.
      split; [|split; [reflexivity|split; [reflexivity|split; [exact HR'|exact Hrb]]]].
      unfold Archive.archive_open. subst a.
      rewrite (read_header_ser LIMIT hp _ Hwf Hlim). cbn [bind]. cbv iota beta.
      rewrite Hl. cbn [bind]. cbv iota beta.
      rewrite off_after.
      rewrite Hos'. cbn [bind].
      match goal with |- bind ?x _ = _ =>
        change x with (ropen (StackS (ser_header hp ++ wire_of cfg blocks) (wc_encrypt cfg) (wc_compress cfg) k n) s1) end.
      rewrite Hop. reflexivity.
  Qed.
End Roundtrip.
